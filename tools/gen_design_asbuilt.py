#!/usr/bin/env python3
"""Regenerates section 9 ("As built") of DESIGN.md."""
import json, os, glob, collections, subprocess, io, sys
root = os.path.dirname(os.path.dirname(os.path.abspath(__file__)))
design = open(root + "/DESIGN.md").read()
marker = "\n---------------------------------------------------------------------------------------\n\n## 9. As built"
i = design.find(marker)
if i < 0:
    i = design.find("\n## 9. As built")
head = design[:i].rstrip("\n") + "\n"
out = io.StringIO()
out.write("\n---------------------------------------------------------------------------------------\n\n")
out.write(open(root + "/tools/design_static.md").read().rstrip("\n") + "\n")
kf = json.load(open(root + "/known_findings.json"))

out.write("\n### 9.3 Genuine defects repaired (`fix:` commits in /repo)\n\n")
out.write("Each is one unguarded commit; the baseline suite (guard off) passes with all of them. The check of the\nproperty passes on the repaired tree with no KNOWN-FINDING line and fires again if the defect returns\n(the reverse patches of several fixes are kept as self-test patches).\n\n")
out.write("| property | commit | what failed |\n|---|---|---|\n")
for f in kf["fixed"]:
    out.write("| %s | `%s` | %s |\n" % (f["property"], f["commit"], f["what"].replace("|", "\\|").replace("\n", " ")))

out.write("\n### 9.4 Genuine defects recorded as known findings\n\n")
out.write("Not repaired because the repair is not small and safe (both engines' core mechanisms, a format or\ndependency change, a language-level decision, or an existing test that pins the behaviour). The check\nprints `KNOWN-FINDING:` for each and exits 0; any violation not covered by an entry is a `VIOLATION`.\nFull witnesses are in `known_findings.json`.\n\n")
by = collections.OrderedDict()
for f in kf["findings"]:
    by.setdefault(f["property"], []).append(f)
for p, fs in by.items():
    out.write("* **%s** — %d entr%s. " % (p, len(fs), "y" if len(fs) == 1 else "ies"))
    shown = []
    for f in fs[:3]:
        k = f.get("key") or ("pattern " + f.get("key_pattern", ""))
        shown.append("`%s`" % k[:110].replace("`", "'"))
    out.write("; ".join(shown))
    if len(fs) > 3:
        out.write("; …")
    w = fs[0]["what"].replace("\n", " ")
    out.write("  \n  " + w[:420] + ("…" if len(w) > 420 else "") + "\n")

out.write("\n### 9.5 Status per property (from the last run of each check in /verif)\n\n")
tbl = subprocess.run([sys.executable, root + "/tools/design_table.py"], capture_output=True, text=True).stdout
out.write(tbl)
na = json.load(open(root + "/MANIFEST.json")).get("not_applicable", [])
if na:
    out.write("\nNot claimed: " + ", ".join("%s (%s)" % (x["property_id"], x["reason"]) for x in na) + "\n")
else:
    out.write("\nNot applicable: none — every property has a monitor in this family.\n")

out.write("\n### 9.6 Seeded changes (independent sub-agents) and which checks catch them\n\n")
out.write("Each change was produced by a fresh sub-agent that saw only the property text and a scratch worktree,\nconfirmed here in a scratch worktree (builds; its demonstration fails with the change and passes without;\nexisting tests of the touched packages pass with it — `tools/confirm_seed.sh`), and is kept under\n`seeded/<name>/`. `selftest/run.sh` applies each to a scratch copy and runs the property's check.\n\n")
res = collections.defaultdict(list)
p = root + "/seeded/RESULTS.tsv"
if os.path.exists(p):
    for l in open(p):
        f = l.rstrip("\n").split("\t")
        if len(f) >= 3:
            res[f[1]].append("%s: %s" % (f[0], f[2]))
out.write("Verdicts are those of `tools/seedsrun.sh` (quick tier of the property's own check, plus the checks named in\n`seeded/<name>/also_checks`), recorded in `seeded/RESULTS.tsv`.\n\n")
out.write("| seeded change | property | needs to manifest | verdict (quick tier) |\n|---|---|---|---|\n")
for d in sorted(glob.glob(root + "/seeded/*/meta.json")):
    m = json.load(open(d))
    name = os.path.basename(os.path.dirname(d))
    v = "; ".join(res.get(name, [])) or "not run"
    out.write("| %s | %s | %s | %s |\n" % (name, m["property"], m.get("needs_to_manifest", "").replace("|", "\\|"), v))
extra = root + "/seeded/NOTES.md"
if os.path.exists(extra):
    out.write("\n" + open(extra).read())
out.write("\n### 9.7 Self-test patches (breaks written by the check authors)\n\n")
out.write("`selftest/<ID>/*.diff` are breaks of the property written while building each check (many are the reverse\nof a `fix:` commit); `selftest/run.sh` applies each to a scratch copy and runs the check's quick tier.\n`selftest/RESULTS.tsv` holds the last consolidated run; patches added or regenerated after that run were\nverified one by one by their authors with `tools/muttest.sh`.\n\n")
p = root + "/selftest/RESULTS.tsv"
if os.path.exists(p):
    cnt = collections.Counter(); unusable = []; ids = set()
    for l in open(p):
        f = l.rstrip("\n").split("\t")
        if len(f) >= 3:
            cnt[f[2].split("(")[0]] += 1; ids.add(f[0])
            if not f[2].startswith("CAUGHT"):
                unusable.append("%s %s: %s" % (f[0], f[1], f[2]))
    out.write("Consolidated run: %s over %d properties.\n" % (", ".join("%d %s" % (v, k) for k, v in sorted(cnt.items())), len(ids)))
    if unusable:
        out.write("Not caught / not usable (patch no longer applies after a later `fix:` commit, or an equivalent mutant):\n\n")
        for u in unusable:
            out.write("* %s\n" % u)
npatch = len(glob.glob(root + "/selftest/*/*.diff"))
out.write("\nPatches on disk: %d.\n" % npatch)
open(root + "/DESIGN.md", "w").write(head + out.getvalue())
print("DESIGN.md section 9 regenerated")
