#!/bin/bash
# tools/sweep.sh <tier> <seed>... — runs every registered check at the given seeds; prints one line per run.
# A non-zero exit on the unchanged tree means the check is broken (or a new genuine finding).
cd "$(dirname "$0")/.."
TIER="$1"; shift
for s in "$@"; do
  for id in $(awk '!/^#/ && NF {print $1}' harness/groups.txt | sort); do
    t0=$(date +%s)
    out=$(VERIF_SEED=$s ./check $id $TIER 2>&1); rc=$?
    echo "seed=$s $id rc=$rc $(( $(date +%s) - t0 ))s $(echo "$out" | tail -1 | cut -c1-110)"
    if [ $rc -ne 0 ]; then echo "$out" | grep "key=\|INCONCL" | head -8 | cut -c1-200; fi
  done
done
