#!/bin/bash
# tools/seedsrun.sh [name...] — runs the confirmed seeded changes (all, or the named ones) against the
# check(s) listed for them and rewrites their rows in seeded/RESULTS.tsv.
# The checks run for a change are its own property's plus those in seeded/<name>/also_checks (one ID per line).
cd "$(dirname "$0")/.."
OUT=seeded/RESULTS.tsv
touch $OUT
names=("$@"); [ ${#names[@]} -eq 0 ] && names=($(ls -d seeded/*/ | xargs -n1 basename))
for name in "${names[@]}"; do
  d=seeded/$name
  [ -f "$d/meta.json" ] || continue
  ids="$(jq -r .property "$d/meta.json") $(cat $d/also_checks 2>/dev/null)"
  for id in $ids; do
    t0=$(date +%s)
    VERIF_WORKERS=${VERIF_WORKERS:-8} VERIF_WATCHDOG_S=2400 tools/muttest.sh $id $d/patch.diff quick > /tmp/seedsrun-one.$$.log 2>&1
    rc=$?
    v=MISSED; [ $rc -eq 1 ] && v=CAUGHT; [ $rc -eq 2 ] && v=INCONCLUSIVE; [ $rc -ge 3 ] && v="UNUSABLE(rc=$rc)"
    key=$(grep -A1 -m1 '^VIOLATION' /tmp/seedsrun-one.$$.log | tail -1 | sed 's/^ *key=//' | cut -c1-140)
    grep -v -P "^$id\t$name\t" $OUT > $OUT.tmp; mv $OUT.tmp $OUT
    printf "%s\t%s\t%s\t%s\t%ss\n" "$id" "$name" "$v" "$key" "$(( $(date +%s) - t0 ))" | tee -a $OUT
  done
done
sort -o $OUT $OUT
rm -f /tmp/seedsrun-one.$$.log
echo SEEDSRUN-DONE
