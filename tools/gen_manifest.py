#!/usr/bin/env python3
"""Regenerates /verif/MANIFEST.json from tools/checks.json (one entry per implemented check)."""
import json, os, sys
root = os.path.dirname(os.path.dirname(os.path.abspath(__file__)))
checks = json.load(open(os.path.join(root, "tools", "checks.json")))
props = [json.loads(l) for l in open(os.path.join(root, "properties.jsonl"))]
ids = [p["id"] for p in props]
out = {
    "version": 1,
    "setup_cmd": "./setup.sh",
    "hooks": {
        "guard": "verif",
        "enable": "go build -tags verif (the ./check script builds the harness module, which replaces github.com/onflow/cadence by /repo, with -tags verif)",
        "baseline_off_cmd": "cd /repo && GOFLAGS=-mod=mod go test -vet=off -count=1 -timeout 25m ./...",
        "source_commits": checks.get("_hook_commits", []),
        "add_only": True,
    },
    "engines": [
        {"name": "vcheck", "path": "harness", "serves_properties": [c for c in ids if checks.get(c, {}).get("ready")],
         "kind_free_text": "Go harness module (one binary per property group: harness/cmd/vcheck-<group>, see harness/groups.txt): monitored runtime.Interface host, generators, reference models and oracles; parent process shards a fixed seeded case list over worker processes"},
    ],
    "checks": [],
    "not_applicable": [],
    "notes": "Technique family: runtime monitoring. Every check runs the real code from /repo (rebuilt on each invocation) under generated workloads and decides with an oracle over observed executions. Exit 0 held / 1 violated / 2 inconclusive.",
}
for pid in ids:
    c = checks.get(pid)
    if c is None or not c.get("ready", False):
        out["not_applicable"].append({"property_id": pid, "reason": checks.get("_na", {}).get(pid, "no check built yet in this tree; design in DESIGN.md section 4 (" + pid + ")")})
        continue
    out["checks"].append({
        "property_id": pid,
        "quick_cmd": "./check %s quick" % pid,
        "thorough_cmd": "./check %s thorough" % pid,
        "evidence_file": "/verif/evidence/%s.json" % pid,
        "replay_cmd_template": "./check %s --replay {path}" % pid,
        "engine": "vcheck",
        "level_claimed": {"category": c.get("category", "exploration"), "text": c["text"], "design_ref": "DESIGN.md §4 " + pid},
        "level_note": c["note"],
        "technique": c["technique"],
    })
json.dump(out, open(os.path.join(root, "MANIFEST.json"), "w"), indent=1)
print("checks:", len(out["checks"]), "not_applicable:", len(out["not_applicable"]))
