#!/bin/bash
# tools/muttest.sh <ID> <patch.diff> [quick|thorough]
# Applies a patch to a scratch copy of /repo, builds the check's binary against it and runs it.
# Prints the check's output; exit code is the check's (1 = the monitor fired).
# The scratch copy lives in a per-group slot /tmp/mutslot-<group> that is re-synchronised from /repo
# on every call (so the Go build cache is reused for unchanged packages); remove the slots with
# `tools/muttest.sh --clean` when done.
set -u
if [ "${1:-}" = "--clean" ]; then rm -rf /tmp/mutslot-*; exit 0; fi
ID="$1"; PATCH="$(readlink -f "$2")"; TIER="${3:-quick}"
export GOFLAGS=-mod=mod GOPROXY=off
unset GOTOOLCHAIN GOSUMDB 2>/dev/null || true
V=/verif
GROUP=$(awk -v id="$ID" '$1==id {print $2}' $V/harness/groups.txt)
RACEFLAG=$(awk -v id="$ID" '$1==id {print $3}' $V/harness/groups.txt)
S=/tmp/mutslot-$GROUP$RACEFLAG
mkdir -p $S
exec 8> $S/.lock; flock 8
rm -rf $S/out; mkdir -p $S/repo $S/out
rsync -a --delete --exclude .git /repo/ $S/repo/
if ! (cd $S/repo && patch -p1 --no-backup-if-mismatch < "$PATCH" > $S/patch.log 2>&1); then
  echo "MUTTEST: patch does not apply"; head -5 $S/patch.log; exit 3
fi
cp $V/harness/go.mod $S/go.mod; cp $V/harness/go.sum $S/go.sum
sed -i "s#=> /repo#=> $S/repo#" $S/go.mod
if ! (cd $V/harness && go build $RACEFLAG -modfile=$S/go.mod -tags verif -o $S/bin ./cmd/vcheck-$GROUP) > $S/build.log 2>&1; then
  echo "MUTTEST: harness does not build against the mutated tree"; head -20 $S/build.log; exit 4
fi
cp $V/known_findings.json $S/out/ 2>/dev/null
VERIF_DIR=$S/out $S/bin -prop "$ID" -tier "$TIER"
RC=$?
echo "MUTTEST: property=$ID exit=$RC"
exit $RC
