#!/usr/bin/env python3
"""tools/adopt_findings.py <ID> [--what "text"] [--only substring]
Runs ./check <ID> quick, and records every reported VIOLATION key as a known finding
(after the lead has triaged them as genuine defects of onflow/cadence). Never run by a check."""
import json, subprocess, sys, re, os
root = os.path.dirname(os.path.dirname(os.path.abspath(__file__)))
pid = sys.argv[1]
what = None; only = None
if "--what" in sys.argv: what = sys.argv[sys.argv.index("--what")+1]
if "--only" in sys.argv: only = sys.argv[sys.argv.index("--only")+1]
tier = "thorough" if "--thorough" in sys.argv else "quick"
prefix_fields = int(sys.argv[sys.argv.index("--prefix-fields")+1]) if "--prefix-fields" in sys.argv else 0
added = 0
for _round in range(12):
  out = subprocess.run(["./check", pid, tier], cwd=root, capture_output=True, text=True).stdout
  kf = json.load(open(os.path.join(root, "known_findings.json")))
  have = {(f["property"], f["key"]) for f in kf["findings"]}
  havepat = {(f["property"], f.get("key_pattern", "")) for f in kf["findings"]}
  before = added
  for m in re.finditer(r"VIOLATION property=(\S+) replay=(\S+)", out):
    rep = json.load(open(m.group(2)))
    key = rep["key"]
    if only and only not in key: continue
    if (pid, key) in have: continue
    wit = rep.get("witness")
    if prefix_fields:
        pre = ":".join(key.split(":")[:prefix_fields])
        pat = "^" + re.escape(pre) + "(:|$)"
        if (pid, pat) in havepat: continue
        if isinstance(wit, dict):
            wit = {k: (v if not isinstance(v, str) or len(v) < 800 else v[:800] + "…") for k, v in list(wit.items())[:8]}
        kf["findings"].append({"property": pid, "key": "", "key_pattern": pat, "what": (what + ": " if what else "") + "e.g. " + key[:200] + " — " + rep["msg"][:300], "witness": wit})
        havepat.add((pid, pat)); added += 1
        continue
    if isinstance(wit, dict):
        wit = {k: (v if not isinstance(v, str) or len(v) < 1500 else v[:1500] + "…") for k, v in list(wit.items())[:12]}
    kf["findings"].append({"property": pid, "key": key, "what": (what + ": " if what else "") + rep["msg"][:400], "witness": wit})
    have.add((pid, key)); added += 1
  json.dump(kf, open(os.path.join(root, "known_findings.json"), "w"), indent=1, ensure_ascii=False)
  if added == before: break
print(out[-600:])
print("added", added, "known findings for", pid)
