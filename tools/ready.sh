#!/bin/bash
# tools/ready.sh <ID>... — mark checks as ready (claimed in MANIFEST.json) and regenerate the manifest
cd "$(dirname "$0")/.."
python3 - "$@" <<'PY'
import json,sys
p='tools/checks.json'; c=json.load(open(p))
for i in sys.argv[1:]:
    c[i]['ready']=True
json.dump(c,open(p,'w'),indent=1)
PY
python3 tools/gen_manifest.py
