#!/usr/bin/env python3
"""Prints the as-built status table (markdown) from MANIFEST, evidence, known findings and selftest results."""
import json, os, glob, collections
root = os.path.dirname(os.path.dirname(os.path.abspath(__file__)))
man = json.load(open(root + "/MANIFEST.json"))
kf = json.load(open(root + "/known_findings.json"))
known = collections.Counter(f["property"] for f in kf["findings"])
fixed = collections.Counter(f["property"] for f in kf["fixed"])
groups = {}
for l in open(root + "/harness/groups.txt"):
    if l.strip() and not l.startswith("#"):
        p = l.split(); groups[p[0]] = p[1] + (" (race)" if len(p) > 2 else "")
st = collections.defaultdict(lambda: [0, 0]); sd = collections.defaultdict(lambda: [0, 0])
res = root + "/selftest/RESULTS.tsv"
if os.path.exists(res):
    for l in open(res):
        f = l.rstrip("\n").split("\t")
        if len(f) < 3: continue
        tgt = sd if f[1].startswith("seeded/") else st
        if f[2].startswith("UNUSABLE"): continue
        tgt[f[0]][1] += 1
        if f[2] == "CAUGHT": tgt[f[0]][0] += 1
# seeded changes: a change counts for its own property; caught if any listed check caught it
res2 = root + "/seeded/RESULTS.tsv"
if os.path.exists(res2):
    import json, glob
    by = collections.defaultdict(list)
    for l in open(res2):
        f = l.rstrip("\n").split("\t")
        if len(f) >= 3:
            by[f[1]].append(f[2])
    for m in glob.glob(root + "/seeded/*/meta.json"):
        name = os.path.basename(os.path.dirname(m)); prop = json.load(open(m))["property"]
        if name in by:
            sd[prop][1] += 1
            if any(v == "CAUGHT" for v in by[name]): sd[prop][0] += 1
print("| id | group | level | quick: evaluations / distinct / wall | known findings | fixed | self-test patches caught | seeded changes caught |")
print("|---|---|---|---|---|---|---|---|")
for c in man["checks"]:
    i = c["property_id"]
    ev = {}
    try: ev = json.load(open(root + "/evidence/%s.json" % i))
    except Exception: pass
    cov = ev.get("coverage", {})
    print("| %s | %s | %s | %s / %s / %.0f s (%s) | %d | %d | %d/%d | %d/%d |" % (
        i, groups.get(i, "?"), c["level_claimed"]["category"], cov.get("evaluations", "?"), cov.get("distinct_nontrivial", "?"),
        ev.get("wall_s", 0), ev.get("tier", "?"), known[i], fixed[i], st[i][0], st[i][1], sd[i][0], sd[i][1]))
