#!/bin/bash
# tools/checkagainst.sh <ID> <repo-dir> [quick|thorough]
# Builds the check's binary against another checkout of onflow/cadence (e.g. a worktree holding a
# candidate fix) and runs it with a scratch output directory. Prints the check's output.
set -u
ID="$1"; REPO="$(readlink -f "$2")"; TIER="${3:-quick}"
export GOFLAGS=-mod=mod GOPROXY=off
unset GOTOOLCHAIN GOSUMDB 2>/dev/null || true
V=/verif
GROUP=$(awk -v id="$ID" '$1==id {print $2}' $V/harness/groups.txt)
RACEFLAG=$(awk -v id="$ID" '$1==id {print $3}' $V/harness/groups.txt)
S=$(mktemp -d /tmp/against-$ID-XXXXXX)
trap 'rm -rf "$S"' EXIT
mkdir -p $S/out
cp $V/harness/go.mod $S/go.mod; cp $V/harness/go.sum $S/go.sum
sed -i "s#=> /repo#=> $REPO#" $S/go.mod
if ! (cd $V/harness && go build $RACEFLAG -modfile=$S/go.mod -tags verif -o $S/bin ./cmd/vcheck-$GROUP) > $S/build.log 2>&1; then
  echo "CHECKAGAINST: harness does not build against $REPO"; head -20 $S/build.log; exit 4
fi
cp $V/known_findings.json $S/out/ 2>/dev/null
VERIF_WORKERS=${VERIF_WORKERS:-6} VERIF_DIR=$S/out $S/bin -prop "$ID" -tier "$TIER"
RC=$?
echo "CHECKAGAINST: property=$ID exit=$RC"
exit $RC
