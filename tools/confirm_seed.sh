#!/bin/bash
# tools/confirm_seed.sh <seed-out-dir> <property> <name> <demo-dest-relative-path> "<demo test command>" "<existing test packages>" ["needs"]
# Confirms a seeded change in a scratch worktree: demo passes on the clean tree, fails with the patch,
# the tree builds and the existing tests of the named packages pass with the patch. On success stores
# it under /verif/seeded/<name>/ (patch.diff, demo, meta.json).
set -u
SRC="$1"; PROP="$2"; NAME="$3"; DEST="$4"; DEMOCMD="$5"; PKGS="$6"; NEEDS="${7:-}"
export GOFLAGS=-mod=mod GOPROXY=off
W=/tmp/confirm-$NAME
git -C /repo worktree remove --force $W 2>/dev/null
git -C /repo worktree add -q --detach $W main || exit 3
cleanup() { git -C /repo worktree remove --force $W 2>/dev/null; rm -rf $W; }
trap cleanup EXIT
cd $W
mkdir -p "$(dirname $DEST)"; cp "$SRC/demo_test.go" "$DEST"
echo "[1] demo on clean tree"; if ! eval "$DEMOCMD" > /tmp/confirm-$NAME.clean.log 2>&1; then echo "CONFIRM $NAME: demo FAILS on clean tree"; tail -15 /tmp/confirm-$NAME.clean.log; exit 1; fi
echo "[2] apply patch"; if ! git apply "$SRC/patch.diff"; then echo "CONFIRM $NAME: patch does not apply"; exit 1; fi
if ! go build ./... > /tmp/confirm-$NAME.build.log 2>&1; then echo "CONFIRM $NAME: does not build"; tail /tmp/confirm-$NAME.build.log; exit 1; fi
echo "[3] demo on patched tree"; if eval "$DEMOCMD" > /tmp/confirm-$NAME.patched.log 2>&1; then echo "CONFIRM $NAME: demo PASSES with patch (no manifestation)"; exit 1; fi
rm -f "$DEST"; rmdir "$(dirname $DEST)" 2>/dev/null
echo "[4] existing tests with patch: $PKGS"; if ! go test -vet=off -count=1 -timeout 60m $PKGS > /tmp/confirm-$NAME.tests.log 2>&1; then echo "CONFIRM $NAME: existing tests FAIL with patch"; grep -v "^ok\|no test files" /tmp/confirm-$NAME.tests.log | head -20; exit 1; fi
D=/verif/seeded/$NAME; mkdir -p $D
cp "$SRC/patch.diff" $D/patch.diff; cp "$SRC/demo_test.go" $D/demo_test.go; cp "$SRC/NOTES.md" $D/NOTES.md 2>/dev/null
python3 - "$D" "$PROP" "$NAME" "$DEST" "$DEMOCMD" "$PKGS" "$NEEDS" <<'PY'
import json,sys
d,prop,name,dest,cmd,pkgs,needs=sys.argv[1:8]
json.dump({"property":prop,"name":name,"needs_to_manifest":needs,"demo_placement":dest,"demo_command":cmd,
 "confirmed":{"demo_passes_on_clean_tree":True,"demo_fails_with_patch":True,"builds":True,"existing_tests_pass_with_patch":pkgs},
 "source":"independent sub-agent given only the property text and a scratch worktree"},open(d+"/meta.json","w"),indent=1)
PY
rm -f /tmp/confirm-$NAME.*.log
echo "CONFIRM $NAME: OK -> $D"
