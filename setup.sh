#!/bin/bash
# MANIFEST.setup_cmd: warm the Go build cache for the harness (normal and race builds). Offline.
set -e
cd "$(dirname "$0")"
export GOFLAGS=-mod=mod GOPROXY=off
unset GOTOOLCHAIN GOSUMDB 2>/dev/null || true
mkdir -p bin evidence replays
(cd harness && go build -tags verif ./... )
echo "setup ok"
