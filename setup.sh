#!/bin/bash
# MANIFEST.setup_cmd: warm the Go build cache for the harness (normal and race builds). Offline.
set -e
cd "$(dirname "$0")"
export GOFLAGS=-mod=mod GOPROXY=off
unset GOTOOLCHAIN GOSUMDB 2>/dev/null || true
mkdir -p bin evidence replays
(cd harness && go build -tags verif ./... )
# race-detector builds (groups.txt third column)
for g in $(awk '$3=="-race" {print $2}' harness/groups.txt | sort -u); do
  (cd harness && go build -race -tags verif -o /dev/null ./cmd/vcheck-$g)
done
echo "setup ok"
