#!/bin/bash
# MANIFEST.setup_cmd: warm the Go build cache for the harness (normal and race builds). Offline.
cd "$(dirname "$0")"
export GOFLAGS=-mod=mod GOPROXY=off
unset GOTOOLCHAIN GOSUMDB 2>/dev/null || true
mkdir -p bin evidence replays
rc=0
for g in $(awk '!/^#/ && NF {print $2}' harness/groups.txt | sort -u); do
  (cd harness && go build -tags verif -o /dev/null ./cmd/vcheck-$g) || { echo "setup: group $g does not build"; rc=1; }
done
# race-detector builds (groups.txt third column)
for g in $(awk '$3=="-race" {print $2}' harness/groups.txt | sort -u); do
  (cd harness && go build -race -tags verif -o /dev/null ./cmd/vcheck-$g) || { echo "setup: race build of group $g failed"; rc=1; }
done
[ $rc -eq 0 ] && echo "setup ok"
exit $rc
