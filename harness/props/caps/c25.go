package caps

import (
	"fmt"
	"sort"
	"strconv"
	"strings"

	"verif/harness/core"
	"verif/harness/host"
)

// C25 — capabilities, publishing and inbox follow the controller model.
//
// Histories over 3 accounts, 4 storage target paths, 3 public paths, 4 capability slots per account
// (storage paths that hold capability values so that later transactions can use them) and a fixed universe
// of borrow types. Every operation logs its result; a Go model with a hand-written authorization / subtype
// table predicts every line, which transactions fail and the capability events of every transaction.

const c25Contract = `access(all) contract T0 {
    access(all) entitlement E
    access(all) entitlement F
    access(all) resource interface RI { }
    access(all) resource R: RI { }
    access(all) resource Q { }
    access(all) struct S { }
    access(all) fun mkR(): @R { return <- create R() }
    access(all) fun mkQ(): @Q { return <- create Q() }
    init() {}
}`

// ---------------------------------------------------------------- type universe

type c25Type struct {
	Name string
	Auth []string // entitlement names (conjunction)
	Ref  string   // referenced type
	Src  string   // Cadence source
	ID   string   // type identifier as printed by Cadence
}

const c25A = "A.0000000000000001.T0."

var c25StorageTypes = []c25Type{
	{"R", nil, "R", "&T0.R", "&" + c25A + "R"},
	{"E-R", []string{"E"}, "R", "auth(T0.E) &T0.R", "auth(" + c25A + "E)&" + c25A + "R"},
	{"EF-R", []string{"E", "F"}, "R", "auth(T0.E, T0.F) &T0.R", "auth(" + c25A + "E," + c25A + "F)&" + c25A + "R"},
	{"RI", nil, "RI", "&{T0.RI}", "&{" + c25A + "RI}"},
	{"E-RI", []string{"E"}, "RI", "auth(T0.E) &{T0.RI}", "auth(" + c25A + "E)&{" + c25A + "RI}"},
	{"AnyResource", nil, "AnyResource", "&AnyResource", "&AnyResource"},
	{"S", nil, "S", "&T0.S", "&" + c25A + "S"},
	{"Int", nil, "Int", "&Int", "&Int"},
	{"AnyStruct", nil, "AnyStruct", "&AnyStruct", "&AnyStruct"},
}

var c25AccountTypes = []c25Type{
	{"Account", nil, "Account", "&Account", "&Account"},
	{"Storage-Account", []string{"Storage"}, "Account", "auth(Storage) &Account", "auth(Storage)&Account"},
}

// hand-written subtype table of the referenced types (and of the stored value types R, Q, S, Int)
var c25Super = map[string][]string{
	"R":           {"R", "RI", "AnyResource"},
	"Q":           {"Q", "AnyResource"},
	"RI":          {"RI", "AnyResource"},
	"AnyResource": {"AnyResource"},
	"S":           {"S", "AnyStruct"},
	"Int":         {"Int", "AnyStruct"},
	"Account":     {"Account", "AnyStruct"},
	"AnyStruct":   {"AnyStruct"},
}

func c25Sub(a, b string) bool {
	for _, s := range c25Super[a] {
		if s == b {
			return true
		}
	}
	return false
}

func c25AuthSubset(a, b []string) bool {
	for _, x := range a {
		found := false
		for _, y := range b {
			if x == y {
				found = true
			}
		}
		if !found {
			return false
		}
	}
	return true
}

// the statement's rule for one (wanted, held) pair of borrow types
func c25CanBorrow(want, held c25Type) bool {
	return c25AuthSubset(want.Auth, held.Auth) && (c25Sub(want.Ref, held.Ref) || c25Sub(held.Ref, want.Ref))
}

// static reference subtyping (for the typed inbox operations): held <: want
func c25RefSubtype(held, want c25Type) bool {
	return c25AuthSubset(want.Auth, held.Auth) && c25Sub(held.Ref, want.Ref)
}

// ---------------------------------------------------------------- model

type c25Ctrl struct {
	ID      uint64
	Account bool // account capability controller
	Type    c25Type
	Target  int
	Tag     string
}

type c25Cap struct {
	Issuer uint64
	ID     uint64 // 0 = invalid capability
	Type   c25Type
}

type c25Inbox struct {
	Cap       c25Cap
	Recipient uint64
}

type c25Acct struct {
	Ctrls  map[uint64]*c25Ctrl
	LastID uint64
	Slots  [4]*c25Cap
	Public [3]*c25Cap
	Inbox  map[string]*c25Inbox
	Store  [4]string // type of the value stored at /storage/t<i>: "", R, Q, S, Int
}

type c25Model struct {
	Accts map[uint64]*c25Acct
}

func c25NewModel() *c25Model {
	m := &c25Model{Accts: map[uint64]*c25Acct{}}
	for _, a := range c25Accounts {
		m.Accts[a] = &c25Acct{Ctrls: map[uint64]*c25Ctrl{}, Inbox: map[string]*c25Inbox{}}
	}
	return m
}

func (m *c25Model) clone() *c25Model {
	n := &c25Model{Accts: map[uint64]*c25Acct{}}
	for a, ac := range m.Accts {
		c := &c25Acct{Ctrls: map[uint64]*c25Ctrl{}, Inbox: map[string]*c25Inbox{}, LastID: ac.LastID, Store: ac.Store}
		for id, ct := range ac.Ctrls {
			x := *ct
			c.Ctrls[id] = &x
		}
		for i, s := range ac.Slots {
			if s != nil {
				x := *s
				c.Slots[i] = &x
			}
		}
		for i, s := range ac.Public {
			if s != nil {
				x := *s
				c.Public[i] = &x
			}
		}
		for k, v := range ac.Inbox {
			x := *v
			c.Inbox[k] = &x
		}
		n.Accts[a] = c
	}
	return n
}

var c25Accounts = []uint64{1, 2, 3}
var c25InboxNames = []string{"n0", "n1"}
var c25ValueTypes = []string{"R", "Q", "S", "Int"}

// borrow decides borrow<T>/check<T> on a capability value per the statement
func (m *c25Model) borrow(cp *c25Cap, want c25Type) bool {
	if cp == nil || cp.ID == 0 {
		return false
	}
	ac := m.Accts[cp.Issuer]
	if ac == nil {
		return false
	}
	ct := ac.Ctrls[cp.ID]
	if ct == nil {
		return false
	}
	if !c25CanBorrow(want, cp.Type) || !c25CanBorrow(want, ct.Type) {
		return false
	}
	vt := "Account"
	if !ct.Account {
		vt = ac.Store[ct.Target]
		if vt == "" {
			return false
		}
	}
	return c25Sub(vt, want.Ref)
}

// get decides capabilities.get<T>: the resulting capability (invalid: ID 0)
func (m *c25Model) get(acct uint64, pub int, want c25Type) c25Cap {
	p := m.Accts[acct].Public[pub]
	invalid := c25Cap{Issuer: acct, ID: 0, Type: want}
	if p == nil || p.ID == 0 {
		return invalid
	}
	ct := m.Accts[p.Issuer].Ctrls[p.ID]
	if ct == nil || !c25CanBorrow(want, p.Type) || !c25CanBorrow(want, ct.Type) {
		return invalid
	}
	return c25Cap{Issuer: p.Issuer, ID: p.ID, Type: want}
}

type c25Op struct {
	Kind   string
	Acct   uint64 // other account (public / inbox provider / recipient)
	Path   int    // target path index
	Pub    int
	Slot   int
	ID     uint64
	Type   c25Type
	AcctK  bool // account-capability flavour
	Value  string
	Name   string
	Tag    string
	Store  bool // pubGet/claim: keep the result in Slot
	OldVal string // save: type of the value currently stored (to load it with the right kind)
	Path2  int    // ctrlHeld: second retarget path
	Then   string // ctrlHeld: second operation through the same controller reference: retarget | delete
}

type c25Tx struct {
	Signer uint64
	Ops    []c25Op
	Abort  bool
}

type c25Expect struct {
	OK     bool
	Logs   []string
	Events []string
	FailOp string
}

func c25Addr(a uint64) string { return "0x" + host.Addr(a).Hex() }

func (m *c25Model) ctrlIDs(acct uint64, account bool, path int) []uint64 {
	var ids []uint64
	for id, ct := range m.Accts[acct].Ctrls {
		if ct.Account == account && (account || ct.Target == path) {
			ids = append(ids, id)
		}
	}
	sort.Slice(ids, func(i, j int) bool { return ids[i] < ids[j] })
	return ids
}

func c25IDList(ids []uint64) string {
	s := ""
	for _, id := range ids {
		s += strconv.FormatUint(id, 10) + ","
	}
	return s
}

// c25Apply predicts a transaction on m (mutating a clone) and returns the expectation and the next state.
func c25Apply(m0 *c25Model, tx c25Tx) (c25Expect, *c25Model) {
	m := m0.clone()
	exp := c25Expect{OK: true}
	s := m.Accts[tx.Signer]
	logf := func(i int, kind, res string) { exp.Logs = append(exp.Logs, fmt.Sprintf("%d:%s:%s", i, kind, res)) }
	ev := func(f string, a ...any) { exp.Events = append(exp.Events, fmt.Sprintf(f, a...)) }
	fail := func(op c25Op, why string) (c25Expect, *c25Model) {
		exp.OK = false
		exp.FailOp = op.Kind + ":" + why
		exp.Events = nil
		return exp, m0
	}
	capStr := func(cp c25Cap) string {
		return fmt.Sprintf("Capability<%s>(address: %s, id: %d)", cp.Type.ID, c25Addr(cp.Issuer), cp.ID)
	}
	for i, op := range tx.Ops {
		switch op.Kind {
		case "save":
			s.Store[op.Path] = op.Value
			logf(i, "save", "ok")
		case "issue":
			s.LastID++
			id := s.LastID
			if op.AcctK {
				s.Ctrls[id] = &c25Ctrl{ID: id, Account: true, Type: op.Type}
				ev("flow.AccountCapabilityControllerIssued(id: %d, address: %s, type: Type<%s>())", id, c25Addr(tx.Signer), op.Type.ID)
			} else {
				s.Ctrls[id] = &c25Ctrl{ID: id, Type: op.Type, Target: op.Path}
				ev("flow.StorageCapabilityControllerIssued(id: %d, address: %s, type: Type<%s>(), path: /storage/t%d)", id, c25Addr(tx.Signer), op.Type.ID, op.Path)
			}
			s.Slots[op.Slot] = &c25Cap{Issuer: tx.Signer, ID: id, Type: op.Type}
			logf(i, "issue", fmt.Sprint(id))
		case "ctrlGet":
			ct := s.Ctrls[op.ID]
			if ct == nil || ct.Account != op.AcctK {
				logf(i, "ctrlGet", "nil")
			} else if ct.Account {
				logf(i, "ctrlGet", fmt.Sprintf("%d|%s|%s", ct.ID, ct.Type.ID, ct.Tag))
			} else {
				logf(i, "ctrlGet", fmt.Sprintf("%d|%s|/storage/t%d|%s", ct.ID, ct.Type.ID, ct.Target, ct.Tag))
			}
		case "ctrlTag":
			if ct := s.Ctrls[op.ID]; ct != nil && ct.Account == op.AcctK {
				ct.Tag = op.Tag
			}
			logf(i, "ctrlTag", "done")
		case "ctrlRetarget":
			if ct := s.Ctrls[op.ID]; ct != nil && !ct.Account {
				ct.Target = op.Path
				ev("flow.StorageCapabilityControllerTargetChanged(id: %d, address: %s, path: /storage/t%d)", ct.ID, c25Addr(tx.Signer), op.Path)
			}
			logf(i, "ctrlRetarget", "done")
		case "ctrlHeld":
			// two operations through ONE controller reference, no lookup in between
			if ct := s.Ctrls[op.ID]; ct != nil && !ct.Account {
				ct.Target = op.Path
				ev("flow.StorageCapabilityControllerTargetChanged(id: %d, address: %s, path: /storage/t%d)", ct.ID, c25Addr(tx.Signer), op.Path)
				if op.Then == "retarget" {
					ct.Target = op.Path2
					ev("flow.StorageCapabilityControllerTargetChanged(id: %d, address: %s, path: /storage/t%d)", ct.ID, c25Addr(tx.Signer), op.Path2)
				} else {
					delete(s.Ctrls, op.ID)
					ev("flow.StorageCapabilityControllerDeleted(id: %d, address: %s)", ct.ID, c25Addr(tx.Signer))
				}
			}
			logf(i, "ctrlHeld", "done")
		case "ctrlDelete":
			if ct := s.Ctrls[op.ID]; ct != nil && ct.Account == op.AcctK {
				delete(s.Ctrls, op.ID)
				if ct.Account {
					ev("flow.AccountCapabilityControllerDeleted(id: %d, address: %s)", ct.ID, c25Addr(tx.Signer))
				} else {
					ev("flow.StorageCapabilityControllerDeleted(id: %d, address: %s)", ct.ID, c25Addr(tx.Signer))
				}
			}
			logf(i, "ctrlDelete", "done")
		case "ctrlList", "ctrlEach":
			logf(i, op.Kind, c25IDList(m.ctrlIDs(tx.Signer, op.AcctK, op.Path)))
		case "publish":
			cp := s.Slots[op.Slot]
			if cp.Issuer != tx.Signer {
				return fail(op, "foreign-capability")
			}
			if s.Public[op.Pub] != nil {
				return fail(op, "occupied")
			}
			x := *cp
			s.Public[op.Pub] = &x
			ev("flow.CapabilityPublished(address: %s, path: /public/p%d, capability: %s)", c25Addr(tx.Signer), op.Pub, capStr(x))
			logf(i, "publish", "ok")
		case "unpublish":
			p := s.Public[op.Pub]
			if p == nil {
				logf(i, "unpublish", "nil")
			} else {
				s.Public[op.Pub] = nil
				ev("flow.CapabilityUnpublished(address: %s, path: /public/p%d)", c25Addr(tx.Signer), op.Pub)
				logf(i, "unpublish", fmt.Sprint(p.ID))
			}
		case "pubGet":
			cp := m.get(op.Acct, op.Pub, op.Type)
			if op.Store {
				x := cp
				s.Slots[op.Slot] = &x
			}
			logf(i, "pubGet", fmt.Sprint(cp.ID))
		case "pubBorrow":
			logf(i, "pubBorrow", fmt.Sprint(m.borrow(m.Accts[op.Acct].Public[op.Pub], op.Type)))
		case "pubExists":
			logf(i, "pubExists", fmt.Sprint(m.Accts[op.Acct].Public[op.Pub] != nil))
		case "capBorrow", "capCheck":
			logf(i, op.Kind, fmt.Sprint(m.borrow(s.Slots[op.Slot], op.Type)))
		case "inboxPub":
			cp := *s.Slots[op.Slot]
			s.Inbox[op.Name] = &c25Inbox{Cap: cp, Recipient: op.Acct}
			ev("flow.InboxValuePublished(provider: %s, recipient: %s, name: \"%s\", type: Type<Capability<%s>>())", c25Addr(tx.Signer), c25Addr(op.Acct), op.Name, cp.Type.ID)
			logf(i, "inboxPub", "ok")
		case "inboxUnpub":
			e := s.Inbox[op.Name]
			if e == nil {
				logf(i, "inboxUnpub", "nil")
				break
			}
			if !c25RefSubtype(e.Cap.Type, op.Type) {
				return fail(op, "type-mismatch")
			}
			delete(s.Inbox, op.Name)
			ev("flow.InboxValueUnpublished(provider: %s, name: \"%s\")", c25Addr(tx.Signer), op.Name)
			logf(i, "inboxUnpub", fmt.Sprint(e.Cap.ID))
		case "inboxClaim":
			prov := m.Accts[op.Acct]
			e := prov.Inbox[op.Name]
			if e == nil || e.Recipient != tx.Signer {
				logf(i, "inboxClaim", "nil")
				break
			}
			if !c25RefSubtype(e.Cap.Type, op.Type) {
				return fail(op, "type-mismatch")
			}
			delete(prov.Inbox, op.Name)
			ev("flow.InboxValueClaimed(provider: %s, recipient: %s, name: \"%s\")", c25Addr(op.Acct), c25Addr(tx.Signer), op.Name)
			if op.Store {
				// the claimed value is statically a Capability<T>: the conversion to that type keeps the
				// referenced type of the value's borrow type and takes T's authorization
				x := e.Cap
				x.Type = c25Converted(e.Cap.Type, op.Type)
				s.Slots[op.Slot] = &x
			}
			logf(i, "inboxClaim", fmt.Sprint(e.Cap.ID))
		}
	}
	if tx.Abort {
		exp.OK = false
		exp.FailOp = "abort"
		exp.Events = nil
		return exp, m0
	}
	return exp, m
}

// ---------------------------------------------------------------- rendering

func c25Render(tx c25Tx) string {
	var b strings.Builder
	b.WriteString("import T0 from 0x1\ntransaction {\n    prepare(s: auth(Storage, Capabilities, Inbox) &Account) {\n")
	w := func(f string, a ...any) { b.WriteString("        " + fmt.Sprintf(f, a...) + "\n") }
	for i, op := range tx.Ops {
		p := fmt.Sprintf("\"%d:%s:\"", i, op.Kind)
		family := "storage"
		if op.AcctK {
			family = "account"
		}
		putSlot := func(v string) {
			w("s.storage.load<Capability>(from: /storage/cs%d)", op.Slot)
			w("s.storage.save(%s, to: /storage/cs%d)", v, op.Slot)
		}
		switch op.Kind {
		case "save":
			switch op.OldVal {
			case "R", "Q":
				w("destroy s.storage.load<@AnyResource>(from: /storage/t%d)", op.Path)
			case "S", "Int":
				w("s.storage.load<AnyStruct>(from: /storage/t%d)", op.Path)
			}
			switch op.Value {
			case "R":
				w("s.storage.save(<- T0.mkR(), to: /storage/t%d)", op.Path)
			case "Q":
				w("s.storage.save(<- T0.mkQ(), to: /storage/t%d)", op.Path)
			case "S":
				w("s.storage.save(T0.S(), to: /storage/t%d)", op.Path)
			case "Int":
				w("s.storage.save(42, to: /storage/t%d)", op.Path)
			}
			w("log(%s.concat(\"ok\"))", p)
		case "issue":
			if op.AcctK {
				w("let c%d = s.capabilities.account.issue<%s>()", i, op.Type.Src)
			} else {
				w("let c%d = s.capabilities.storage.issue<%s>(/storage/t%d)", i, op.Type.Src, op.Path)
			}
			putSlot(fmt.Sprintf("c%d", i))
			w("log(%s.concat(c%d.id.toString()))", p, i)
		case "ctrlGet":
			if op.AcctK {
				w("if let c%d = s.capabilities.account.getController(byCapabilityID: %d) { log(%s.concat(c%d.capabilityID.toString()).concat(\"|\").concat(c%d.borrowType.identifier).concat(\"|\").concat(c%d.tag)) } else { log(%s.concat(\"nil\")) }", i, op.ID, p, i, i, i, p)
			} else {
				w("if let c%d = s.capabilities.storage.getController(byCapabilityID: %d) { log(%s.concat(c%d.capabilityID.toString()).concat(\"|\").concat(c%d.borrowType.identifier).concat(\"|\").concat(c%d.target().toString()).concat(\"|\").concat(c%d.tag)) } else { log(%s.concat(\"nil\")) }", i, op.ID, p, i, i, i, i, p)
			}
		case "ctrlTag":
			w("s.capabilities.%s.getController(byCapabilityID: %d)?.setTag(\"%s\")", family, op.ID, op.Tag)
			w("log(%s.concat(\"done\"))", p)
		case "ctrlRetarget":
			w("s.capabilities.storage.getController(byCapabilityID: %d)?.retarget(/storage/t%d)", op.ID, op.Path)
			w("log(%s.concat(\"done\"))", p)
		case "ctrlHeld":
			second := fmt.Sprintf("h%d.retarget(/storage/t%d)", i, op.Path2)
			if op.Then != "retarget" {
				second = fmt.Sprintf("h%d.delete()", i)
			}
			w("if let h%d = s.capabilities.storage.getController(byCapabilityID: %d) { h%d.retarget(/storage/t%d); %s }", i, op.ID, i, op.Path, second)
			w("log(%s.concat(\"done\"))", p)
		case "ctrlDelete":
			w("s.capabilities.%s.getController(byCapabilityID: %d)?.delete()", family, op.ID)
			w("log(%s.concat(\"done\"))", p)
		case "ctrlList":
			w("var l%d = \"\"", i)
			if op.AcctK {
				w("for x in s.capabilities.account.getControllers() { l%d = l%d.concat(x.capabilityID.toString()).concat(\",\") }", i, i)
			} else {
				w("for x in s.capabilities.storage.getControllers(forPath: /storage/t%d) { l%d = l%d.concat(x.capabilityID.toString()).concat(\",\") }", op.Path, i, i)
			}
			w("log(%s.concat(l%d))", p, i)
		case "ctrlEach":
			w("var l%d = \"\"", i)
			if op.AcctK {
				w("s.capabilities.account.forEachController(fun (x: &AccountCapabilityController): Bool { l%d = l%d.concat(x.capabilityID.toString()).concat(\",\"); return true })", i, i)
			} else {
				w("s.capabilities.storage.forEachController(forPath: /storage/t%d, fun (x: &StorageCapabilityController): Bool { l%d = l%d.concat(x.capabilityID.toString()).concat(\",\"); return true })", op.Path, i, i)
			}
			w("log(%s.concat(l%d))", p, i)
		case "publish":
			w("s.capabilities.publish(s.storage.copy<Capability>(from: /storage/cs%d)!, at: /public/p%d)", op.Slot, op.Pub)
			w("log(%s.concat(\"ok\"))", p)
		case "unpublish":
			w("log(%s.concat(s.capabilities.unpublish(/public/p%d)?.id?.toString() ?? \"nil\"))", p, op.Pub)
		case "pubGet":
			w("let c%d = getAccount(%s).capabilities.get<%s>(/public/p%d)", i, c25Addr(op.Acct), op.Type.Src, op.Pub)
			if op.Store {
				putSlot(fmt.Sprintf("c%d", i))
			}
			w("log(%s.concat(c%d.id.toString()))", p, i)
		case "pubBorrow":
			w("log(%s.concat(getAccount(%s).capabilities.borrow<%s>(/public/p%d) != nil ? \"true\" : \"false\"))", p, c25Addr(op.Acct), op.Type.Src, op.Pub)
		case "pubExists":
			w("log(%s.concat(getAccount(%s).capabilities.exists(/public/p%d) ? \"true\" : \"false\"))", p, c25Addr(op.Acct), op.Pub)
		case "capBorrow":
			w("log(%s.concat(s.storage.copy<Capability>(from: /storage/cs%d)!.borrow<%s>() != nil ? \"true\" : \"false\"))", p, op.Slot, op.Type.Src)
		case "capCheck":
			w("log(%s.concat(s.storage.copy<Capability>(from: /storage/cs%d)!.check<%s>() ? \"true\" : \"false\"))", p, op.Slot, op.Type.Src)
		case "inboxPub":
			w("s.inbox.publish(s.storage.copy<Capability>(from: /storage/cs%d)!, name: \"%s\", recipient: %s)", op.Slot, op.Name, c25Addr(op.Acct))
			w("log(%s.concat(\"ok\"))", p)
		case "inboxUnpub":
			w("log(%s.concat(s.inbox.unpublish<%s>(\"%s\")?.id?.toString() ?? \"nil\"))", p, op.Type.Src, op.Name)
		case "inboxClaim":
			w("let c%d = s.inbox.claim<%s>(\"%s\", provider: %s)", i, op.Type.Src, op.Name, c25Addr(op.Acct))
			if op.Store {
				w("if c%d != nil {", i)
				w("    s.storage.load<Capability>(from: /storage/cs%d)", op.Slot)
				w("    s.storage.save(c%d!, to: /storage/cs%d)", i, op.Slot)
				w("}")
			}
			w("log(%s.concat(c%d?.id?.toString() ?? \"nil\"))", p, i)
		}
	}
	if tx.Abort {
		w("panic(\"abort\")")
	}
	b.WriteString("    }\n}\n")
	return b.String()
}

// ---------------------------------------------------------------- generation

func c25GenHistory(c *core.Ctx, ntx int) []c25Tx {
	rng := c.Rng
	m := c25NewModel()
	var txs []c25Tx
	pickType := func(acct bool) c25Type {
		if acct {
			return c25AccountTypes[rng.IntN(len(c25AccountTypes))]
		}
		return c25StorageTypes[rng.IntN(len(c25StorageTypes))]
	}
	// a wanted type: mostly of the same family as held, sometimes anything
	wantFor := func(held *c25Cap) c25Type {
		if held != nil && held.Type.Ref == "Account" && rng.IntN(4) != 0 {
			return pickType(true)
		}
		if rng.IntN(12) == 0 {
			return pickType(true)
		}
		if rng.IntN(3) != 0 {
			// resource family, where the interesting sub/super/auth cases live
			return c25StorageTypes[rng.IntN(6)]
		}
		return pickType(false)
	}
	// some histories concentrate on one account (many controllers / capabilities in one account)
	hot := uint64(0)
	lastRetarget := map[uint64]uint64{} // per account: the controller retargeted most recently (observed again later)
	if rng.IntN(2) == 0 {
		hot = c25Accounts[rng.IntN(len(c25Accounts))]
	}
	for t := 0; t < ntx; t++ {
		signer := c25Accounts[rng.IntN(len(c25Accounts))]
		if hot != 0 && rng.IntN(5) != 0 {
			signer = hot
		}
		tx := c25Tx{Signer: signer}
		cur := m
		nops := 1 + rng.IntN(5)
		for i := 0; i < nops; i++ {
			s := cur.Accts[signer]
			var op c25Op
			var filled []int
			for k, sl := range s.Slots {
				if sl != nil {
					filled = append(filled, k)
				}
			}
			var ids []uint64
			for id := range s.Ctrls {
				ids = append(ids, id)
			}
			sort.Slice(ids, func(a, b int) bool { return ids[a] < ids[b] })
			pickID := func() (uint64, bool) {
				if len(ids) > 0 && rng.IntN(6) != 0 {
					id := ids[rng.IntN(len(ids))]
					return id, s.Ctrls[id].Account
				}
				// deleted / never issued / other account's id
				return uint64(rng.IntN(int(s.LastID) + 3)), rng.IntN(4) == 0
			}
			other := c25Accounts[rng.IntN(len(c25Accounts))]
			// occupied public paths / inbox entries anywhere (to aim reads at something that exists)
			type pubRef struct {
				Acct uint64
				Pub  int
			}
			var pubs []pubRef
			type inboxRef struct {
				Acct uint64
				Name string
			}
			var forMe, forOthers []inboxRef
			for _, a := range c25Accounts {
				for j, pc := range cur.Accts[a].Public {
					if pc != nil {
						pubs = append(pubs, pubRef{a, j})
					}
				}
				for _, n := range c25InboxNames {
					if e := cur.Accts[a].Inbox[n]; e != nil {
						if e.Recipient == signer {
							forMe = append(forMe, inboxRef{a, n})
						} else {
							forOthers = append(forOthers, inboxRef{a, n})
						}
					}
				}
			}
			pickPub := func() (uint64, int) {
				if len(pubs) > 0 && rng.IntN(5) != 0 {
					p := pubs[rng.IntN(len(pubs))]
					return p.Acct, p.Pub
				}
				return other, rng.IntN(3)
			}
			r := rng.IntN(100)
			switch {
			case r < 12:
				op = c25Op{Kind: "save", Path: rng.IntN(4)}
				op.OldVal = s.Store[op.Path]
				if rng.IntN(6) != 0 {
					op.Value = c25ValueTypes[rng.IntN(len(c25ValueTypes))]
					if rng.IntN(5) < 3 {
						op.Value = "R"
					}
				}
			case r < 30:
				op = c25Op{Kind: "issue", Path: rng.IntN(4), Slot: rng.IntN(4)}
				if rng.IntN(3) != 0 {
					// prefer a path that stores something
					for try := 0; try < 4; try++ {
						if s.Store[op.Path] != "" {
							break
						}
						op.Path = rng.IntN(4)
					}
				}
				op.AcctK = rng.IntN(7) == 0
				op.Type = pickType(op.AcctK)
				if !op.AcctK && rng.IntN(3) != 0 {
					op.Type = c25StorageTypes[rng.IntN(6)]
				}
			case r < 35:
				id, ak := pickID()
				if lr, ok := lastRetarget[signer]; ok && rng.IntN(2) == 0 {
					id, ak = lr, false
				}
				op = c25Op{Kind: "ctrlGet", ID: id, AcctK: ak}
				if rng.IntN(8) == 0 {
					op.AcctK = !op.AcctK
				}
			case r < 38:
				id, ak := pickID()
				op = c25Op{Kind: "ctrlTag", ID: id, AcctK: ak, Tag: fmt.Sprintf("tag%d", rng.IntN(3))}
			case r < 42:
				id, _ := pickID()
				op = c25Op{Kind: "ctrlRetarget", ID: id, Path: rng.IntN(4)}
				if ct := s.Ctrls[id]; ct != nil && !ct.Account && ct.Target == op.Path {
					op.Path = (op.Path + 1) % 4
				}
				if ct := s.Ctrls[id]; ct != nil && !ct.Account {
					lastRetarget[signer] = id
					if rng.IntN(2) == 0 {
						// the same controller reference is used twice
						op.Kind = "ctrlHeld"
						op.Path2 = (op.Path + 1 + rng.IntN(3)) % 4
						op.Then = []string{"retarget", "delete"}[rng.IntN(2)]
						if op.Then == "delete" {
							delete(lastRetarget, signer)
						}
					}
				}
			case r < 45:
				id, ak := pickID()
				op = c25Op{Kind: "ctrlDelete", ID: id, AcctK: ak}
			case r < 51:
				op = c25Op{Kind: []string{"ctrlList", "ctrlEach"}[rng.IntN(2)], Path: rng.IntN(4), AcctK: rng.IntN(5) == 0}
			case r < 61:
				if len(filled) == 0 {
					continue
				}
				op = c25Op{Kind: "publish", Slot: filled[rng.IntN(len(filled))], Pub: rng.IntN(3)}
				// mostly valid: own capability and a free public path
				if s.Slots[op.Slot].Issuer != signer && rng.IntN(8) != 0 {
					continue
				}
				if s.Public[op.Pub] != nil && rng.IntN(8) != 0 {
					for j := 0; j < 3; j++ {
						if s.Public[j] == nil {
							op.Pub = j
						}
					}
				}
			case r < 63:
				op = c25Op{Kind: "unpublish", Pub: rng.IntN(3)}
			case r < 71:
				a, j := pickPub()
				op = c25Op{Kind: "pubGet", Acct: a, Pub: j, Store: rng.IntN(2) == 0, Slot: rng.IntN(4)}
				op.Type = wantFor(cur.Accts[a].Public[j])
			case r < 79:
				a, j := pickPub()
				op = c25Op{Kind: "pubBorrow", Acct: a, Pub: j}
				op.Type = wantFor(cur.Accts[a].Public[j])
			case r < 81:
				a, j := pickPub()
				op = c25Op{Kind: "pubExists", Acct: a, Pub: j}
			case r < 91:
				if len(filled) == 0 {
					continue
				}
				op = c25Op{Kind: []string{"capBorrow", "capCheck"}[rng.IntN(2)], Slot: filled[rng.IntN(len(filled))]}
				op.Type = wantFor(s.Slots[op.Slot])
			case r < 95:
				if len(filled) == 0 {
					continue
				}
				op = c25Op{Kind: "inboxPub", Slot: filled[rng.IntN(len(filled))], Name: c25InboxNames[rng.IntN(2)], Acct: other}
			case r < 96:
				op = c25Op{Kind: "inboxUnpub", Name: c25InboxNames[rng.IntN(2)]}
				op.Type = c25StorageTypes[5] // &AnyResource
				if e := s.Inbox[op.Name]; e != nil && rng.IntN(6) != 0 {
					op.Type = c25Unauth(e.Cap.Type)
				}
			default:
				op = c25Op{Kind: "inboxClaim", Name: c25InboxNames[rng.IntN(2)], Acct: other, Store: rng.IntN(3) != 0, Slot: rng.IntN(4)}
				switch x := rng.IntN(10); {
				case x < 7 && len(forMe) > 0:
					e := forMe[rng.IntN(len(forMe))]
					op.Acct, op.Name = e.Acct, e.Name
				case x < 9 && len(forOthers) > 0:
					// published for somebody else: must not be handed out
					e := forOthers[rng.IntN(len(forOthers))]
					op.Acct, op.Name = e.Acct, e.Name
				}
				op.Type = c25StorageTypes[5]
				if e := cur.Accts[op.Acct].Inbox[op.Name]; e != nil {
					switch rng.IntN(8) {
					case 0:
						// keep &AnyResource (a mismatch for struct / account capabilities)
					case 1:
						op.Type = pickType(false) // anything: often a static type mismatch (transaction fails)
					case 2, 3:
						op.Type = e.Cap.Type
					default:
						op.Type = c25Unauth(e.Cap.Type)
					}
				}
			}
			tx.Ops = append(tx.Ops, op)
			e, after := c25Apply(m, c25Tx{Signer: signer, Ops: tx.Ops})
			if !e.OK {
				break
			}
			cur = after
		}
		if len(tx.Ops) == 0 {
			continue
		}
		tx.Abort = rng.IntN(8) == 0
		_, m = c25Apply(m, tx)
		txs = append(txs, tx)
	}
	return txs
}

// c25Converted is the borrow type of a capability value after the implicit conversion to Capability<want>
// (an upcast): want's authorization with held's referenced type.
func c25Converted(held, want c25Type) c25Type {
	for _, x := range append(append([]c25Type{}, c25StorageTypes...), c25AccountTypes...) {
		if x.Ref == held.Ref && c25AuthSubset(x.Auth, want.Auth) && c25AuthSubset(want.Auth, x.Auth) {
			return x
		}
	}
	panic("C25 model: converted type outside the universe")
}

// the unauthorized variant of a type of the universe
func c25Unauth(t c25Type) c25Type {
	for _, x := range append(append([]c25Type{}, c25StorageTypes...), c25AccountTypes...) {
		if x.Ref == t.Ref && len(x.Auth) == 0 {
			return x
		}
	}
	return t
}

// ---------------------------------------------------------------- check

// normalise id lists ("3,1,") to ascending order: iteration order is not part of the statement
func c25NormLog(l string) string {
	parts := strings.SplitN(l, ":", 3)
	if len(parts) == 3 && (parts[1] == "ctrlList" || parts[1] == "ctrlEach") {
		var ids []int
		for _, f := range strings.Split(parts[2], ",") {
			if f == "" {
				continue
			}
			n, err := strconv.Atoi(f)
			if err != nil {
				return l
			}
			ids = append(ids, n)
		}
		sort.Ints(ids)
		s := ""
		for _, id := range ids {
			s += strconv.Itoa(id) + ","
		}
		return parts[0] + ":" + parts[1] + ":" + s
	}
	return l
}

func c25OpKey(op c25Op) string {
	k := op.Kind
	if op.AcctK {
		k += ":account"
	}
	return k
}

func c25RunHistory(c *core.Ctx, eng host.Engine, base *host.Host, txs []c25Tx, srcs []string) {
	h := cloneHost(base)
	m := c25NewModel()
	usedIDs := map[uint64]map[uint64]bool{}
	for ti, tx := range txs {
		exp, next := c25Apply(m, tx)
		snap := cloneHost(h)
		h.ResetTrace()
		out := h.RunTx(eng, srcs[ti], nil, addrs(tx.Signer), nil)
		c.Eval(1)
		logs := make([]string, len(h.Logs))
		for i, l := range h.Logs {
			logs[i] = c25NormLog(strings.Trim(l, "\""))
		}
		wit := func(expected, observed string) map[string]any {
			return map[string]any{"engine": eng.String(), "tx_index": ti, "history": srcs[:ti+1], "expected": expected, "observed": observed,
				"expected_logs": exp.Logs, "observed_logs": logs, "error": core.Clip(host.ErrText(out), 3000)}
		}
		failingOp := func() c25Op {
			if len(logs) < len(tx.Ops) {
				return tx.Ops[len(logs)]
			}
			return c25Op{Kind: "end"}
		}
		cls := host.Classify(out)
		if cls == host.ClassInternal || cls == host.ClassEscaped || cls == host.ClassExternal {
			c.Violate(fmt.Sprintf("%s-error:%s:%s", cls, c25OpKey(failingOp()), engFamily(eng)),
				fmt.Sprintf("engine %s: transaction %d failed with an %s error", eng, ti, cls), wit("success or user error", string(cls)))
			return
		}
		ok := out.Err == nil
		if ok != exp.OK {
			opk := exp.FailOp
			if exp.OK {
				opk = c25OpKey(failingOp())
			}
			c.Violate(fmt.Sprintf("outcome:expected-%v:%s", exp.OK, opk),
				fmt.Sprintf("engine %s: transaction %d: model expects success=%v (%s), observed success=%v", eng, ti, exp.OK, exp.FailOp, ok),
				wit(fmt.Sprint(exp.OK), fmt.Sprint(ok)))
			return
		}
		n := len(exp.Logs)
		if len(logs) > n {
			n = len(logs)
		}
		for i := 0; i < n; i++ {
			var e, g string
			if i < len(exp.Logs) {
				e = exp.Logs[i]
			}
			if i < len(logs) {
				g = logs[i]
			}
			if e == g {
				continue
			}
			op := c25Op{Kind: "?"}
			if i < len(tx.Ops) {
				op = tx.Ops[i]
			}
			if op.Kind == "issue" && g != "" {
				// freshness is what the statement requires; an unpredicted but fresh id only ends the history
				id, err := strconv.ParseUint(strings.TrimPrefix(g, fmt.Sprintf("%d:issue:", i)), 10, 64)
				if err == nil && !usedIDs[tx.Signer][id] && id != 0 {
					c.Inc("issued_id_unpredicted")
					return
				}
				c.Violate("issue:id-not-fresh", fmt.Sprintf("engine %s: transaction %d: issued capability id is not fresh", eng, ti), wit(e, g))
				return
			}
			detail := ""
			switch op.Kind {
			case "capBorrow", "capCheck", "pubBorrow", "pubGet":
				detail = ":" + c25BorrowSituation(m, next, tx, i)
			case "ctrlGet":
				detail = ":" + c25CtrlDiff(e, g)
			}
			c.Violate(fmt.Sprintf("result:%s%s", c25OpKey(op), detail),
				fmt.Sprintf("engine %s: transaction %d: result %d (%s) differs from the model: expected %q, observed %q", eng, ti, i, op.Kind, e, g),
				wit(e, g))
			return
		}
		for i, op := range tx.Ops {
			if i < len(logs) {
				c.Inc("op_" + op.Kind)
				if strings.HasSuffix(logs[i], ":true") {
					c.Inc("result_true_" + op.Kind)
				}
				if strings.HasSuffix(logs[i], ":false") {
					c.Inc("result_false_" + op.Kind)
				}
				if op.Kind == "pubGet" {
					if strings.HasSuffix(logs[i], ":0") {
						c.Inc("pubget_invalid")
					} else {
						c.Inc("pubget_valid")
					}
				}
				if op.Kind == "inboxClaim" && !strings.HasSuffix(logs[i], ":nil") {
					c.Inc("inbox_claimed")
				}
			}
		}
		if ok {
			c.Inc("tx_ok")
			got := eventStrings(h.Events)
			want := append([]string(nil), exp.Events...)
			sort.Strings(got)
			sort.Strings(want)
			if strings.Join(got, "\n") != strings.Join(want, "\n") {
				c.Violate("events:"+c25EventDiffKind(want, got), fmt.Sprintf("engine %s: transaction %d: capability events differ from the model (as a multiset)", eng, ti),
					wit(strings.Join(want, "\n"), strings.Join(got, "\n")))
				return
			}
			c.Count("events_checked", int64(len(got)))
			// record issued ids as used
			for _, l := range logs {
				parts := strings.SplitN(l, ":", 3)
				if len(parts) == 3 && parts[1] == "issue" {
					id, _ := strconv.ParseUint(parts[2], 10, 64)
					if usedIDs[tx.Signer] == nil {
						usedIDs[tx.Signer] = map[uint64]bool{}
					}
					usedIDs[tx.Signer][id] = true
				}
			}
			m = next
		} else {
			c.Inc("tx_failed")
			c.Inc("tx_failed_" + strings.SplitN(exp.FailOp, ":", 2)[0])
			restoreHost(h, snap)
		}
	}
	c.Inc("histories_completed")
}

// which component of a getController result differs: id|type|target|tag
func c25CtrlDiff(e, g string) string {
	ep := strings.Split(strings.SplitN(e, ":", 3)[len(strings.SplitN(e, ":", 3))-1], "|")
	gp := strings.Split(strings.SplitN(g, ":", 3)[len(strings.SplitN(g, ":", 3))-1], "|")
	if len(ep) != len(gp) {
		return "presence"
	}
	names := []string{"id", "type", "target", "tag"}
	if len(ep) == 3 {
		names = []string{"id", "type", "tag"}
	}
	for i := range ep {
		if ep[i] != gp[i] && i < len(names) {
			return names[i]
		}
	}
	return "other"
}

// which event type differs first (stable part of the key)
func c25EventDiffKind(want, got []string) string {
	count := map[string]int{}
	for _, w := range want {
		count[w]++
	}
	for _, g := range got {
		count[g]--
	}
	var ks []string
	for k, v := range count {
		if v != 0 {
			ks = append(ks, k)
		}
	}
	sort.Strings(ks)
	if len(ks) == 0 {
		return "order"
	}
	k := ks[0]
	if i := strings.Index(k, "("); i > 0 {
		k = k[:i]
	}
	return k
}

// c25BorrowSituation classifies why the model decided a borrow-like operation the way it did (for keys).
func c25BorrowSituation(before, after *c25Model, tx c25Tx, i int) string {
	// replay the transaction up to op i to obtain the state the operation saw
	st, _ := func() (*c25Model, bool) {
		_, mm := c25Apply(before, c25Tx{Signer: tx.Signer, Ops: tx.Ops[:i]})
		return mm, true
	}()
	op := tx.Ops[i]
	var cp *c25Cap
	switch op.Kind {
	case "capBorrow", "capCheck":
		cp = st.Accts[tx.Signer].Slots[op.Slot]
	default:
		cp = st.Accts[op.Acct].Public[op.Pub]
	}
	if cp == nil {
		return "no-capability"
	}
	if cp.ID == 0 {
		return "invalid-capability"
	}
	ct := st.Accts[cp.Issuer].Ctrls[cp.ID]
	if ct == nil {
		return "controller-deleted"
	}
	if !c25AuthSubset(op.Type.Auth, cp.Type.Auth) || !c25AuthSubset(op.Type.Auth, ct.Type.Auth) {
		return "authorization-too-strong"
	}
	if !c25CanBorrow(op.Type, cp.Type) || !c25CanBorrow(op.Type, ct.Type) {
		return "unrelated-type"
	}
	if ct.Account {
		return "account-capability"
	}
	vt := st.Accts[cp.Issuer].Store[ct.Target]
	if vt == "" {
		return "target-empty"
	}
	if !c25Sub(vt, op.Type.Ref) {
		return "target-value-other-type"
	}
	return "borrowable"
}

var c25BaseHosts = map[host.Engine]*host.Host{}

func c25Base(eng host.Engine) *host.Host {
	if h, ok := c25BaseHosts[eng]; ok {
		return h
	}
	h := host.New()
	if o := h.Deploy(eng, host.Addr(1), "T0", c25Contract); o.Err != nil || o.Escaped != nil {
		panic("C25 setup: " + host.ErrText(o))
	}
	h.ResetTrace()
	c25BaseHosts[eng] = h
	return h
}

func c25Run(c *core.Ctx) {
	per := c.Pick(3, 8)
	for hi := 0; hi < per; hi++ {
		txs := c25GenHistory(c, 16)
		var srcs []string
		for _, tx := range txs {
			srcs = append(srcs, c25Render(tx))
		}
		c.Distinct(strings.Join(srcs, "\n---\n"))
		if hi == 0 && c.WantSample() {
			c.Sample(map[string]any{"history": srcs})
		}
		for _, eng := range host.AllEngines {
			c25RunHistory(c, eng, c25Base(eng), txs, srcs)
		}
	}
}

func init() {
	core.Register(&core.Prop{
		ID: "C25",
		Rule: "seeded histories of up to 16 transactions (1-5 operations each, 1/8 aborted) over 3 accounts, 4 storage target paths, 3 public paths, 4 capability slots per account and 2 inbox names; operations: save/replace/clear the target value (R, Q, S, Int), storage and account issue, getController, setTag, retarget, delete, two operations (retarget then retarget/delete) through one held controller reference, getControllers, forEachController, publish, unpublish, capabilities.get/borrow/exists on any account, borrow<T>/check<T> on held capabilities, inbox publish/unpublish/claim; " +
			"borrow types: &R, auth(E)&R, auth(E,F)&R, &{RI}, auth(E)&{RI}, &AnyResource, &S, &Int, &AnyStruct, &Account, auth(Storage)&Account; every history runs on I, V and Vp on fresh runtimes per transaction; distinct = history text",
		Assumptions: []string{
			"subtyping and authorization of the fixed type universe are a hand-written table (R<:{RI}<:AnyResource, Q<:AnyResource, S/Int/Account<:AnyStruct; authorization = entitlement-set inclusion)",
			"capability ids are predicted as previous+1 per account (the host's generator); an unpredicted but fresh id only ends the history (counter issued_id_unpredicted), a reused id is a violation",
			"getControllers/forEachController id lists are compared as sets; capability events are compared as a multiset per successful transaction",
			"the host's ValidateAccountCapabilitiesGet/Publish hooks return true; a failed transaction is rolled back by the (transactional) host",
			"typed inbox unpublish/claim fail exactly when the published capability's static type is not a subtype of Capability<T> (reference subtyping of the table); a claimed Capability<T> carries T's authorization and the original referenced type (implicit conversion on upcast)",
		},
		NumCases: func(tier string) int {
			if tier == "thorough" {
				return 3000
			}
			return 240
		},
		Floors: map[string]int64{
			"tx_ok": 2000, "tx_failed": 200, "tx_failed_abort": 100, "tx_failed_publish": 20, "histories_completed": 500, "events_checked": 2000,
			"op_issue": 1000, "op_save": 500, "op_ctrlGet": 200, "op_ctrlTag": 100, "op_ctrlRetarget": 100, "op_ctrlHeld": 50, "op_ctrlDelete": 200, "op_ctrlList": 100, "op_ctrlEach": 100,
			"op_publish": 200, "op_unpublish": 100, "op_pubGet": 300, "op_pubBorrow": 200, "op_pubExists": 50, "op_capBorrow": 200, "op_capCheck": 200,
			"op_inboxPub": 100, "op_inboxUnpub": 30, "op_inboxClaim": 50, "inbox_claimed": 10,
			"result_true_capBorrow": 40, "result_false_capBorrow": 40, "result_true_capCheck": 40, "result_false_capCheck": 40,
			"result_true_pubBorrow": 20, "result_false_pubBorrow": 40, "pubget_valid": 30, "pubget_invalid": 50,
		},
		Run: c25Run,
	})
}
