package caps

import (
	"fmt"
	"math/rand/v2"
	"sort"
	"strings"

	"github.com/onflow/cadence"

	"verif/harness/core"
	"verif/harness/host"
)

// C27 — accepted contract updates keep existing stored data usable (end-to-end oracle).
//
// Version A of a generated contract K is deployed, a census of values of its types is stored, a mutated
// version B is applied with contracts.update. If (and only if) the update is ACCEPTED, a probe script
// generated from B's declarations (and the meaning recorded under A) reads every stored value whose types B
// still declares and checks: it loads, every field B declares is readable with the declared type, enum values
// keep their case, interface conformances recorded under A still hold. The validator is never re-implemented.

// ---------------------------------------------------------------- representation

type c27T struct {
	K    string // prim | named | array | fixed | dict | opt | inter | any
	Name string
	Elem *c27T
	Size int
	Nil  bool // opt: the default value of this field is nil
}

func (t *c27T) clone() *c27T {
	if t == nil {
		return nil
	}
	c := *t
	c.Elem = t.Elem.clone()
	return &c
}

type c27Field struct {
	Name   string
	Type   *c27T
	Var    bool
	Access string
}

type c27Decl struct {
	Kind     string // struct | resource | enum | structInterface | resourceInterface
	Name     string
	Fields   []c27Field
	Conforms []string
	Cases    []string
}

type c27Contract struct {
	Decls     []*c27Decl
	Fields    []c27Field
	Pragmas   []string
	Version   int
	ExtraFuns int
	Qualify   bool // render nominal types as K.X inside the contract
}

func (k *c27Contract) clone() *c27Contract {
	n := &c27Contract{Version: k.Version, ExtraFuns: k.ExtraFuns, Qualify: k.Qualify}
	n.Pragmas = append([]string(nil), k.Pragmas...)
	for _, d := range k.Decls {
		nd := &c27Decl{Kind: d.Kind, Name: d.Name}
		nd.Conforms = append([]string(nil), d.Conforms...)
		nd.Cases = append([]string(nil), d.Cases...)
		for _, f := range d.Fields {
			f.Type = f.Type.clone()
			nd.Fields = append(nd.Fields, f)
		}
		n.Decls = append(n.Decls, nd)
	}
	for _, f := range k.Fields {
		f.Type = f.Type.clone()
		n.Fields = append(n.Fields, f)
	}
	return n
}

func (k *c27Contract) decl(name string) *c27Decl {
	for _, d := range k.Decls {
		if d.Name == name {
			return d
		}
	}
	return nil
}

func (k *c27Contract) isResource(t *c27T) bool {
	switch t.K {
	case "named":
		d := k.decl(t.Name)
		return d != nil && d.Kind == "resource"
	case "inter":
		d := k.decl(t.Name)
		return d != nil && d.Kind == "resourceInterface"
	case "any":
		return t.Name == "AnyResource"
	case "array", "fixed", "dict", "opt":
		return k.isResource(t.Elem)
	}
	return false
}

func (k *c27Contract) render(t *c27T, q string) string {
	switch t.K {
	case "prim", "any":
		return t.Name
	case "named":
		return q + t.Name
	case "inter":
		return "{" + q + t.Name + "}"
	case "array":
		return "[" + k.render(t.Elem, q) + "]"
	case "fixed":
		return fmt.Sprintf("[%s; %d]", k.render(t.Elem, q), t.Size)
	case "dict":
		return "{String: " + k.render(t.Elem, q) + "}"
	case "opt":
		return k.render(t.Elem, q) + "?"
	}
	return "?"
}

// annotation incl. the resource marker
func (k *c27Contract) ann(t *c27T, q string) string {
	if k.isResource(t) {
		return "@" + k.render(t, q)
	}
	return k.render(t, q)
}

// a concrete declaration (of kind struct/resource) conforming to the interface
func (k *c27Contract) conforming(iface string) *c27Decl {
	// the LAST conforming declaration: by construction it has no interface-typed fields itself (no recursion)
	var last *c27Decl
	for _, d := range k.Decls {
		for _, c := range d.Conforms {
			if c == iface && (d.Kind == "struct" || d.Kind == "resource") {
				last = d
			}
		}
	}
	return last
}

// default value expression (inside the contract: unqualified names); resources are created in place
func (k *c27Contract) def(t *c27T, q string) string {
	mv := ""
	if k.isResource(t) {
		mv = "<- "
	}
	switch t.K {
	case "prim":
		switch t.Name {
		case "Int":
			return "7"
		case "String":
			return "\"s\""
		case "Bool":
			return "true"
		case "UInt8":
			return "3"
		case "Address":
			return "0x1"
		}
	case "named":
		d := k.decl(t.Name)
		switch d.Kind {
		case "struct":
			return q + d.Name + "()"
		case "resource":
			return "create " + q + d.Name + "()"
		case "enum":
			return q + d.Name + "." + d.Cases[0]
		}
	case "inter":
		d := k.conforming(t.Name)
		return k.def(&c27T{K: "named", Name: d.Name}, q)
	case "any":
		return k.def(t.Elem, q)
	case "array":
		e := k.def(t.Elem, q)
		return "[" + mv + e + ", " + mv + e + "]"
	case "fixed":
		e := k.def(t.Elem, q)
		var parts []string
		for i := 0; i < t.Size; i++ {
			parts = append(parts, mv+e)
		}
		return "[" + strings.Join(parts, ", ") + "]"
	case "dict":
		return "{\"a\": " + mv + k.def(t.Elem, q) + "}"
	case "opt":
		if t.Nil {
			return "nil"
		}
		return k.def(t.Elem, q)
	}
	return "0"
}

func (k *c27Contract) renderFields(b *strings.Builder, fs []c27Field, pad, q string) {
	for _, f := range fs {
		kw := "let"
		if f.Var {
			kw = "var"
		}
		fmt.Fprintf(b, "%s%s %s %s: %s\n", pad, f.Access, kw, f.Name, k.ann(f.Type, q))
	}
}

func (k *c27Contract) renderInit(b *strings.Builder, fs []c27Field, pad, q string) {
	b.WriteString(pad + "init() {\n")
	for _, f := range fs {
		op := "="
		if k.isResource(f.Type) {
			op = "<-"
		}
		fmt.Fprintf(b, "%s    self.%s %s %s\n", pad, f.Name, op, k.def(f.Type, q))
	}
	b.WriteString(pad + "}\n")
}

func (k *c27Contract) Source() string {
	q := ""
	if k.Qualify {
		q = "K."
	}
	var b strings.Builder
	b.WriteString("access(all) contract K {\n")
	for _, p := range k.Pragmas {
		fmt.Fprintf(&b, "    #removedType(%s)\n", p)
	}
	for _, d := range k.Decls {
		conf := ""
		if len(d.Conforms) > 0 {
			var cs []string
			for _, c := range d.Conforms {
				cs = append(cs, c) // conformance lists resolve names in the contract scope only
			}
			conf = ": " + strings.Join(cs, ", ")
		}
		switch d.Kind {
		case "structInterface":
			fmt.Fprintf(&b, "    access(all) struct interface %s { }\n", d.Name)
		case "resourceInterface":
			fmt.Fprintf(&b, "    access(all) resource interface %s { }\n", d.Name)
		case "enum":
			fmt.Fprintf(&b, "    access(all) enum %s: UInt8 {\n", d.Name)
			for _, c := range d.Cases {
				fmt.Fprintf(&b, "        access(all) case %s\n", c)
			}
			b.WriteString("    }\n")
		case "struct", "resource":
			fmt.Fprintf(&b, "    access(all) %s %s%s {\n", d.Kind, d.Name, conf)
			k.renderFields(&b, d.Fields, "        ", q)
			k.renderInit(&b, d.Fields, "        ", q)
			b.WriteString("    }\n")
			if d.Kind == "resource" {
				fmt.Fprintf(&b, "    access(all) fun new%s(): @%s { return <- create %s() }\n", d.Name, d.Name, d.Name)
			}
		}
	}
	k.renderFields(&b, k.Fields, "    ", q)
	fmt.Fprintf(&b, "    access(all) fun version(): Int { return %d }\n", k.Version)
	for i := 0; i < k.ExtraFuns; i++ {
		fmt.Fprintf(&b, "    access(all) fun extra%d(): Int { return %d }\n", i, i)
	}
	k.renderInit(&b, k.Fields, "    ", q)
	b.WriteString("}\n")
	return b.String()
}

// names of declarations referenced from field types (transitively from a starting type)
func (k *c27Contract) refsOfType(t *c27T, out map[string]bool) {
	switch t.K {
	case "named", "inter":
		if !out[t.Name] {
			out[t.Name] = true
			if d := k.decl(t.Name); d != nil {
				for _, f := range d.Fields {
					k.refsOfType(f.Type, out)
				}
			}
		}
		if t.K == "inter" {
			if d := k.conforming(t.Name); d != nil {
				k.refsOfType(&c27T{K: "named", Name: d.Name}, out)
			}
		}
	case "any", "array", "fixed", "dict", "opt":
		if t.Elem != nil {
			k.refsOfType(t.Elem, out)
		}
	}
}

func (k *c27Contract) referenced(name string) bool {
	has := func(fs []c27Field) bool {
		for _, f := range fs {
			m := map[string]bool{}
			var walk func(t *c27T)
			walk = func(t *c27T) {
				if t == nil {
					return
				}
				if t.K == "named" || t.K == "inter" {
					m[t.Name] = true
				}
				walk(t.Elem)
			}
			walk(f.Type)
			if m[name] {
				return true
			}
		}
		return false
	}
	if has(k.Fields) {
		return true
	}
	for _, d := range k.Decls {
		if has(d.Fields) {
			return true
		}
		for _, c := range d.Conforms {
			if c == name {
				return true
			}
		}
	}
	// the declaration that provides the default value of interface-typed fields counts as referenced
	if d := k.decl(name); d != nil {
		for _, c := range d.Conforms {
			if p := k.conforming(c); p != nil && p.Name == name {
				for _, o := range k.Decls {
					if o.Kind == "structInterface" || o.Kind == "resourceInterface" {
						continue
					}
				}
				return true
			}
		}
	}
	return false
}

// ---------------------------------------------------------------- generation of A

var c27Prims = []string{"Int", "String", "Bool", "UInt8", "Address"}

func c27Gen(rng *rand.Rand) *c27Contract {
	k := &c27Contract{Version: 1}
	nsi, nri := 1+rng.IntN(2), 1+rng.IntN(2)
	for i := 0; i < nsi; i++ {
		k.Decls = append(k.Decls, &c27Decl{Kind: "structInterface", Name: fmt.Sprintf("SI%d", i)})
	}
	for i := 0; i < nri; i++ {
		k.Decls = append(k.Decls, &c27Decl{Kind: "resourceInterface", Name: fmt.Sprintf("RI%d", i)})
	}
	ne := 1 + rng.IntN(2)
	for i := 0; i < ne; i++ {
		d := &c27Decl{Kind: "enum", Name: fmt.Sprintf("E%d", i)}
		for c := 0; c < 2+rng.IntN(3); c++ {
			d.Cases = append(d.Cases, fmt.Sprintf("c%d", c))
		}
		k.Decls = append(k.Decls, d)
	}
	ns, nr := 3+rng.IntN(2), 2+rng.IntN(2)
	// declare names first (later indices may be referenced by earlier ones)
	var structs, resources []*c27Decl
	for i := 0; i < ns; i++ {
		d := &c27Decl{Kind: "struct", Name: fmt.Sprintf("S%d", i)}
		structs = append(structs, d)
	}
	for i := 0; i < nr; i++ {
		d := &c27Decl{Kind: "resource", Name: fmt.Sprintf("R%d", i)}
		resources = append(resources, d)
	}
	// conformances: the last struct / resource conform to interface 0 (so that interface-typed fields have a value)
	structs[ns-1].Conforms = []string{"SI0"}
	resources[nr-1].Conforms = []string{"RI0"}
	for _, d := range structs[:ns-1] {
		if rng.IntN(2) == 0 {
			d.Conforms = append(d.Conforms, fmt.Sprintf("SI%d", rng.IntN(nsi)))
			if nsi > 1 && rng.IntN(2) == 0 {
				d.Conforms = []string{"SI0", "SI1"}
			}
		}
	}
	for _, d := range resources[:nr-1] {
		if rng.IntN(2) == 0 {
			d.Conforms = append(d.Conforms, fmt.Sprintf("RI%d", rng.IntN(nri)))
			if nri > 1 && rng.IntN(2) == 0 {
				d.Conforms = []string{"RI0", "RI1"}
			}
		}
	}
	for _, d := range structs {
		k.Decls = append(k.Decls, d)
	}
	for _, d := range resources {
		k.Decls = append(k.Decls, d)
	}
	enumT := func() *c27T { return &c27T{K: "named", Name: fmt.Sprintf("E%d", rng.IntN(ne))} }
	// a non-resource type usable in struct i (may reference structs with a higher index)
	var structType func(i, depth int) *c27T
	structType = func(i, depth int) *c27T {
		r := rng.IntN(14)
		switch {
		case r < 4 || depth > 1:
			return &c27T{K: "prim", Name: c27Prims[rng.IntN(len(c27Prims))]}
		case r < 6:
			return enumT()
		case r < 8:
			if i+1 < ns {
				return &c27T{K: "named", Name: fmt.Sprintf("S%d", i+1+rng.IntN(ns-i-1))}
			}
			return &c27T{K: "prim", Name: "Int"}
		case r == 8:
			if i < ns-1 {
				return &c27T{K: "inter", Name: "SI0"}
			}
			return &c27T{K: "prim", Name: "String"}
		case r == 9:
			if i+1 < ns {
				return &c27T{K: "any", Name: "AnyStruct", Elem: &c27T{K: "named", Name: fmt.Sprintf("S%d", ns-1)}}
			}
			return &c27T{K: "any", Name: "AnyStruct", Elem: &c27T{K: "prim", Name: "Int"}}
		case r == 10:
			return &c27T{K: "array", Elem: structType(i, depth+1)}
		case r == 11:
			return &c27T{K: "dict", Elem: structType(i, depth+1)}
		case r == 12:
			return &c27T{K: "fixed", Size: 2, Elem: structType(i, depth+1)}
		default:
			e := structType(i, depth+1)
			if e.K == "opt" {
				return e
			}
			return &c27T{K: "opt", Elem: e, Nil: rng.IntN(2) == 0}
		}
	}
	var resType func(i, depth int) *c27T
	resType = func(i, depth int) *c27T {
		r := rng.IntN(12)
		switch {
		case r < 4 || i+1 >= nr:
			return structType(-1, depth)
		case r < 6:
			return &c27T{K: "named", Name: fmt.Sprintf("R%d", i+1+rng.IntN(nr-i-1))}
		case r == 6:
			return &c27T{K: "inter", Name: "RI0"}
		case r == 7:
			return &c27T{K: "any", Name: "AnyResource", Elem: &c27T{K: "named", Name: fmt.Sprintf("R%d", nr-1)}}
		case r == 8:
			return &c27T{K: "array", Elem: &c27T{K: "named", Name: fmt.Sprintf("R%d", i+1+rng.IntN(nr-i-1))}}
		case r == 9:
			return &c27T{K: "dict", Elem: &c27T{K: "named", Name: fmt.Sprintf("R%d", i+1+rng.IntN(nr-i-1))}}
		case r == 10:
			return &c27T{K: "opt", Nil: rng.IntN(2) == 0, Elem: &c27T{K: "named", Name: fmt.Sprintf("R%d", i+1+rng.IntN(nr-i-1))}}
		default:
			return structType(-1, depth)
		}
	}
	mkFields := func(n int, gen func() *c27T, prefix string) []c27Field {
		var fs []c27Field
		for j := 0; j < n; j++ {
			fs = append(fs, c27Field{Name: fmt.Sprintf("%s%d", prefix, j), Type: gen(), Var: rng.IntN(2) == 0, Access: "access(all)"})
		}
		return fs
	}
	for i, d := range structs {
		i := i
		d.Fields = mkFields(1+rng.IntN(4), func() *c27T { return structType(i, 0) }, "f")
	}
	for i, d := range resources {
		i := i
		d.Fields = mkFields(1+rng.IntN(4), func() *c27T { return resType(i, 0) }, "g")
	}
	k.Fields = mkFields(1+rng.IntN(3), func() *c27T {
		if rng.IntN(4) == 0 {
			return resType(-1, 0)
		}
		return structType(-1, 0)
	}, "cf")
	if rng.IntN(4) == 0 {
		k.Pragmas = []string{"Gone"}
	}
	return k
}

// ---------------------------------------------------------------- mutations

type c27Mutation struct {
	Kind string
	Do   func(k *c27Contract, rng *rand.Rand) bool
}

func c27CompositeDecls(k *c27Contract) []*c27Decl {
	var ds []*c27Decl
	for _, d := range k.Decls {
		if d.Kind == "struct" || d.Kind == "resource" {
			ds = append(ds, d)
		}
	}
	return ds
}

// every field of every composite and of the contract (pointers into the representation)
func c27AllFields(k *c27Contract) []*c27Field {
	var fs []*c27Field
	for _, d := range c27CompositeDecls(k) {
		for i := range d.Fields {
			fs = append(fs, &d.Fields[i])
		}
	}
	for i := range k.Fields {
		fs = append(fs, &k.Fields[i])
	}
	return fs
}

// pick a field list: a composite's or the contract's
func c27PickFields(k *c27Contract, rng *rand.Rand) (*[]c27Field, *c27Decl) {
	ds := c27CompositeDecls(k)
	if rng.IntN(len(ds)+1) == 0 {
		return &k.Fields, nil
	}
	d := ds[rng.IntN(len(ds))]
	return &d.Fields, d
}

func c27Retype(k *c27Contract, t *c27T, rng *rand.Rand) *c27T {
	res := k.isResource(t)
	switch rng.IntN(6) {
	case 0:
		if t.K != "opt" {
			return &c27T{K: "opt", Elem: t.clone()}
		}
		return t.Elem.clone()
	case 1:
		if t.K == "array" {
			return &c27T{K: "fixed", Size: 2, Elem: t.Elem.clone()}
		}
		if t.K == "fixed" {
			if rng.IntN(2) == 0 {
				return &c27T{K: "array", Elem: t.Elem.clone()}
			}
			return &c27T{K: "fixed", Size: t.Size + 1, Elem: t.Elem.clone()}
		}
		return &c27T{K: "array", Elem: t.clone()}
	case 2:
		if t.K == "dict" || t.K == "array" || t.K == "fixed" || t.K == "opt" {
			n := t.clone()
			n.Elem = c27Retype(k, t.Elem, rng)
			return n
		}
		return &c27T{K: "dict", Elem: t.clone()}
	case 3:
		if !res {
			if t.K == "prim" {
				return &c27T{K: "prim", Name: c27Prims[(indexOf(c27Prims, t.Name)+1+rng.IntN(len(c27Prims)-1))%len(c27Prims)]}
			}
			return &c27T{K: "any", Name: "AnyStruct", Elem: t.clone()}
		}
		return &c27T{K: "any", Name: "AnyResource", Elem: t.clone()}
	case 4:
		if t.K == "named" {
			d := k.decl(t.Name)
			if d != nil && len(d.Conforms) > 0 {
				return &c27T{K: "inter", Name: d.Conforms[0]}
			}
		}
		if t.K == "inter" {
			if d := k.conforming(t.Name); d != nil {
				return &c27T{K: "named", Name: d.Name}
			}
		}
		if t.K == "any" {
			return t.Elem.clone()
		}
		fallthrough
	default:
		// another nominal type of the same kind
		if t.K == "named" {
			d := k.decl(t.Name)
			var same []*c27Decl
			for _, o := range k.Decls {
				if o.Kind == d.Kind && o.Name != d.Name {
					same = append(same, o)
				}
			}
			if len(same) > 0 {
				return &c27T{K: "named", Name: same[rng.IntN(len(same))].Name}
			}
		}
		if !res {
			return &c27T{K: "prim", Name: "Bool"}
		}
		return &c27T{K: "opt", Elem: t.clone()}
	}
}

func indexOf(xs []string, x string) int {
	for i, y := range xs {
		if y == x {
			return i
		}
	}
	return 0
}

var c27Mutations = []c27Mutation{
	{"body-change", func(k *c27Contract, rng *rand.Rand) bool { k.Version++; return true }},
	{"function-add", func(k *c27Contract, rng *rand.Rand) bool { k.ExtraFuns++; return true }},
	{"qualify-type-names", func(k *c27Contract, rng *rand.Rand) bool { k.Qualify = !k.Qualify; return true }},
	{"field-add", func(k *c27Contract, rng *rand.Rand) bool {
		fs, _ := c27PickFields(k, rng)
		*fs = append(*fs, c27Field{Name: fmt.Sprintf("added%d", len(*fs)), Type: &c27T{K: "prim", Name: "Int"}, Var: true, Access: "access(all)"})
		return true
	}},
	{"field-remove", func(k *c27Contract, rng *rand.Rand) bool {
		fs, _ := c27PickFields(k, rng)
		if len(*fs) == 0 {
			return false
		}
		i := rng.IntN(len(*fs))
		*fs = append(append([]c27Field{}, (*fs)[:i]...), (*fs)[i+1:]...)
		return true
	}},
	{"field-retype", func(k *c27Contract, rng *rand.Rand) bool {
		fs, d := c27PickFields(k, rng)
		if len(*fs) == 0 {
			return false
		}
		i := rng.IntN(len(*fs))
		nt := c27Retype(k, (*fs)[i].Type, rng)
		if d != nil && d.Kind == "struct" && k.isResource(nt) {
			return false
		}
		(*fs)[i].Type = nt
		return true
	}},
	{"field-retype-nominal-sibling", func(k *c27Contract, rng *rand.Rand) bool {
		// S0 -> S1 (another declaration of the same kind), at any depth of the field type
		type site struct {
			t    *c27T
			sibs []*c27Decl
		}
		var sites []site
		var walk func(t *c27T)
		walk = func(t *c27T) {
			if t == nil {
				return
			}
			if t.K == "named" {
				if d := k.decl(t.Name); d != nil {
					var same []*c27Decl
					for _, o := range k.Decls {
						if o.Kind == d.Kind && o.Name != d.Name {
							same = append(same, o)
						}
					}
					if len(same) > 0 {
						sites = append(sites, site{t, same})
					}
				}
				return
			}
			if t.K == "array" || t.K == "fixed" || t.K == "dict" || t.K == "opt" {
				walk(t.Elem)
			}
		}
		for _, f := range c27AllFields(k) {
			walk(f.Type)
		}
		if len(sites) == 0 {
			return false
		}
		st := sites[rng.IntN(len(sites))]
		st.t.Name = st.sibs[rng.IntN(len(st.sibs))].Name
		return true
	}},
	{"field-unwrap-optional", func(k *c27Contract, rng *rand.Rand) bool {
		// T? -> T (a stored nil would have no valid reading); prefer fields whose stored value is nil
		var cands, nils []*c27Field
		for _, f := range c27AllFields(k) {
			if f.Type.K == "opt" {
				cands = append(cands, f)
				if f.Type.Nil {
					nils = append(nils, f)
				}
			}
		}
		if len(nils) > 0 && rng.IntN(3) != 0 {
			cands = nils
		}
		if len(cands) == 0 {
			return false
		}
		f := cands[rng.IntN(len(cands))]
		f.Type = f.Type.Elem.clone()
		return true
	}},
	{"field-wrap-optional", func(k *c27Contract, rng *rand.Rand) bool {
		var cands []*c27Field
		for _, f := range c27AllFields(k) {
			if f.Type.K != "opt" {
				cands = append(cands, f)
			}
		}
		if len(cands) == 0 {
			return false
		}
		f := cands[rng.IntN(len(cands))]
		f.Type = &c27T{K: "opt", Elem: f.Type.clone()}
		return true
	}},
	{"field-array-size", func(k *c27Contract, rng *rand.Rand) bool {
		// [T] <-> [T; 2], [T; 2] -> [T; 3]
		var cands []*c27Field
		for _, f := range c27AllFields(k) {
			if f.Type.K == "array" || f.Type.K == "fixed" {
				cands = append(cands, f)
			}
		}
		if len(cands) == 0 {
			return false
		}
		f := cands[rng.IntN(len(cands))]
		switch {
		case f.Type.K == "array":
			f.Type = &c27T{K: "fixed", Size: 2, Elem: f.Type.Elem.clone()}
		case rng.IntN(2) == 0:
			f.Type = &c27T{K: "array", Elem: f.Type.Elem.clone()}
		default:
			f.Type = &c27T{K: "fixed", Size: f.Type.Size + 1, Elem: f.Type.Elem.clone()}
		}
		return true
	}},
	{"field-reorder", func(k *c27Contract, rng *rand.Rand) bool {
		fs, _ := c27PickFields(k, rng)
		if len(*fs) < 2 {
			return false
		}
		i := rng.IntN(len(*fs) - 1)
		(*fs)[i], (*fs)[i+1] = (*fs)[i+1], (*fs)[i]
		return true
	}},
	{"field-rename", func(k *c27Contract, rng *rand.Rand) bool {
		fs, _ := c27PickFields(k, rng)
		if len(*fs) == 0 {
			return false
		}
		i := rng.IntN(len(*fs))
		(*fs)[i].Name = (*fs)[i].Name + "x"
		return true
	}},
	{"field-let-var", func(k *c27Contract, rng *rand.Rand) bool {
		fs, _ := c27PickFields(k, rng)
		if len(*fs) == 0 {
			return false
		}
		i := rng.IntN(len(*fs))
		(*fs)[i].Var = !(*fs)[i].Var
		return true
	}},
	{"field-access", func(k *c27Contract, rng *rand.Rand) bool {
		fs, _ := c27PickFields(k, rng)
		if len(*fs) == 0 {
			return false
		}
		i := rng.IntN(len(*fs))
		(*fs)[i].Access = []string{"access(self)", "access(contract)", "access(account)"}[rng.IntN(3)]
		return true
	}},
	{"decl-add", func(k *c27Contract, rng *rand.Rand) bool {
		kind := []string{"struct", "resource", "enum", "structInterface"}[rng.IntN(4)]
		d := &c27Decl{Kind: kind, Name: fmt.Sprintf("New%d", len(k.Decls))}
		if kind == "enum" {
			d.Cases = []string{"n0", "n1"}
		} else if kind == "struct" || kind == "resource" {
			d.Fields = []c27Field{{Name: "z", Type: &c27T{K: "prim", Name: "Int"}, Var: true, Access: "access(all)"}}
		}
		k.Decls = append(k.Decls, d)
		return true
	}},
	{"decl-remove", func(k *c27Contract, rng *rand.Rand) bool {
		return c27RemoveDecl(k, rng, false)
	}},
	{"decl-remove-with-pragma", func(k *c27Contract, rng *rand.Rand) bool {
		return c27RemoveDecl(k, rng, true)
	}},
	{"decl-rename", func(k *c27Contract, rng *rand.Rand) bool {
		var cands []*c27Decl
		for _, d := range k.Decls {
			if !k.referenced(d.Name) {
				cands = append(cands, d)
			}
		}
		if len(cands) == 0 {
			return false
		}
		d := cands[rng.IntN(len(cands))]
		d.Name = d.Name + "Renamed"
		return true
	}},
	{"conformance-add", func(k *c27Contract, rng *rand.Rand) bool {
		ds := c27CompositeDecls(k)
		d := ds[rng.IntN(len(ds))]
		want := "structInterface"
		if d.Kind == "resource" {
			want = "resourceInterface"
		}
		for _, i := range k.Decls {
			if i.Kind == want && indexOfOr(d.Conforms, i.Name) < 0 {
				d.Conforms = append(d.Conforms, i.Name)
				return true
			}
		}
		return false
	}},
	{"conformance-remove", func(k *c27Contract, rng *rand.Rand) bool {
		var cands []*c27Decl
		for _, d := range c27CompositeDecls(k) {
			if len(d.Conforms) > 0 {
				cands = append(cands, d)
			}
		}
		if len(cands) == 0 {
			return false
		}
		d := cands[rng.IntN(len(cands))]
		i := rng.IntN(len(d.Conforms))
		removed := d.Conforms[i]
		d.Conforms = append(append([]string{}, d.Conforms[:i]...), d.Conforms[i+1:]...)
		// keep the program well-typed: an interface-typed field needs a conforming declaration
		if k.conforming(removed) == nil && k.referenced(removed) {
			d.Conforms = append(d.Conforms, removed)
			return false
		}
		return true
	}},
	{"conformance-reorder", func(k *c27Contract, rng *rand.Rand) bool {
		for _, d := range c27CompositeDecls(k) {
			if len(d.Conforms) > 1 {
				d.Conforms[0], d.Conforms[1] = d.Conforms[1], d.Conforms[0]
				return true
			}
		}
		return false
	}},
	{"enum-case-append", func(k *c27Contract, rng *rand.Rand) bool {
		return c27Enum(k, rng, func(d *c27Decl) bool { d.Cases = append(d.Cases, fmt.Sprintf("x%d", len(d.Cases))); return true })
	}},
	{"enum-case-insert", func(k *c27Contract, rng *rand.Rand) bool {
		return c27Enum(k, rng, func(d *c27Decl) bool {
			i := rng.IntN(len(d.Cases))
			d.Cases = append(append(append([]string{}, d.Cases[:i]...), fmt.Sprintf("ins%d", len(d.Cases))), d.Cases[i:]...)
			return true
		})
	}},
	{"enum-case-remove", func(k *c27Contract, rng *rand.Rand) bool {
		return c27Enum(k, rng, func(d *c27Decl) bool {
			if len(d.Cases) < 2 {
				return false
			}
			i := rng.IntN(len(d.Cases))
			d.Cases = append(append([]string{}, d.Cases[:i]...), d.Cases[i+1:]...)
			return true
		})
	}},
	{"enum-case-reorder", func(k *c27Contract, rng *rand.Rand) bool {
		return c27Enum(k, rng, func(d *c27Decl) bool {
			if len(d.Cases) < 2 {
				return false
			}
			i := rng.IntN(len(d.Cases) - 1)
			d.Cases[i], d.Cases[i+1] = d.Cases[i+1], d.Cases[i]
			return true
		})
	}},
	{"enum-case-rename", func(k *c27Contract, rng *rand.Rand) bool {
		return c27Enum(k, rng, func(d *c27Decl) bool {
			i := rng.IntN(len(d.Cases))
			d.Cases[i] = d.Cases[i] + "r"
			return true
		})
	}},
	{"kind-change", func(k *c27Contract, rng *rand.Rand) bool {
		var cands []*c27Decl
		for _, d := range c27CompositeDecls(k) {
			if k.referenced(d.Name) {
				continue
			}
			hasRes := false
			for _, f := range d.Fields {
				if k.isResource(f.Type) {
					hasRes = true
				}
			}
			if !hasRes {
				cands = append(cands, d)
			}
		}
		if len(cands) == 0 {
			return false
		}
		d := cands[rng.IntN(len(cands))]
		if d.Kind == "struct" {
			d.Kind = "resource"
		} else {
			d.Kind = "struct"
		}
		d.Conforms = nil
		return true
	}},
	{"pragma-add-unused", func(k *c27Contract, rng *rand.Rand) bool {
		k.Pragmas = append(k.Pragmas, fmt.Sprintf("Never%d", len(k.Pragmas)))
		return true
	}},
	{"pragma-add-for-existing-type", func(k *c27Contract, rng *rand.Rand) bool {
		ds := c27CompositeDecls(k)
		k.Pragmas = append(k.Pragmas, ds[rng.IntN(len(ds))].Name)
		return true
	}},
	{"pragma-remove", func(k *c27Contract, rng *rand.Rand) bool {
		if len(k.Pragmas) == 0 {
			return false
		}
		k.Pragmas = k.Pragmas[1:]
		return true
	}},
}

func indexOfOr(xs []string, x string) int {
	for i, y := range xs {
		if y == x {
			return i
		}
	}
	return -1
}

func c27Enum(k *c27Contract, rng *rand.Rand, f func(d *c27Decl) bool) bool {
	var es []*c27Decl
	for _, d := range k.Decls {
		if d.Kind == "enum" {
			es = append(es, d)
		}
	}
	if len(es) == 0 {
		return false
	}
	return f(es[rng.IntN(len(es))])
}

func c27RemoveDecl(k *c27Contract, rng *rand.Rand, pragma bool) bool {
	var cands []int
	for i, d := range k.Decls {
		if !k.referenced(d.Name) {
			cands = append(cands, i)
		}
	}
	if len(cands) == 0 {
		return false
	}
	i := cands[rng.IntN(len(cands))]
	name := k.Decls[i].Name
	k.Decls = append(append([]*c27Decl{}, k.Decls[:i]...), k.Decls[i+1:]...)
	if pragma {
		k.Pragmas = append(k.Pragmas, name)
	}
	return true
}

// ---------------------------------------------------------------- census and probe

type c27Item struct {
	Path  string
	Type  *c27T  // static type of the stored value under A
	Enum  string // enum census item: declaration
	Case  string
	Raw   int
	Owner string // "" or "contract" (contract field: no path)
}

// census transaction for A and the list of stored items
func c27Census(a *c27Contract) (string, []c27Item) {
	var b strings.Builder
	var items []c27Item
	b.WriteString("import K from 0x1\ntransaction {\n    prepare(s: auth(Storage) &Account) {\n")
	save := func(path string, t *c27T, expr string) {
		mv, as := "", "="
		if a.isResource(t) {
			mv, as = "<- ", "<-"
		}
		fmt.Fprintf(&b, "        let x_%s: %s %s %s\n", path, a.ann(t, "K."), as, expr)
		fmt.Fprintf(&b, "        s.storage.save(%sx_%s, to: /storage/%s)\n", mv, path, path)
		items = append(items, c27Item{Path: path, Type: t})
	}
	// outside the contract resources are created through the factories
	ext := func(t *c27T) string {
		e := a.def(t, "K.")
		for _, d := range a.Decls {
			if d.Kind == "resource" {
				e = strings.ReplaceAll(e, "create K."+d.Name+"()", "K.new"+d.Name+"()")
			}
		}
		return e
	}
	firstOf := map[string]bool{}
	for _, d := range a.Decls {
		switch d.Kind {
		case "struct", "resource":
			t := &c27T{K: "named", Name: d.Name}
			save("v_"+d.Name, t, ext(t))
			if !firstOf[d.Kind] {
				firstOf[d.Kind] = true
				at := &c27T{K: "array", Elem: t}
				save("arr_"+d.Name, at, ext(at))
				dt := &c27T{K: "dict", Elem: t}
				save("dict_"+d.Name, dt, ext(dt))
				ot := &c27T{K: "opt", Elem: t}
				// optionals cannot be saved directly; wrap in an array of optionals
				oat := &c27T{K: "array", Elem: ot}
				save("optarr_"+d.Name, oat, ext(oat))
			}
		case "enum":
			for i, c := range d.Cases {
				path := fmt.Sprintf("e_%s_%s", d.Name, c)
				fmt.Fprintf(&b, "        s.storage.save(K.%s.%s, to: /storage/%s)\n", d.Name, c, path)
				items = append(items, c27Item{Path: path, Type: &c27T{K: "named", Name: d.Name}, Enum: d.Name, Case: c, Raw: i})
			}
		case "structInterface", "resourceInterface":
			if a.conforming(d.Name) != nil {
				it := &c27T{K: "array", Elem: &c27T{K: "inter", Name: d.Name}}
				save("iarr_"+d.Name, it, ext(it))
			}
		}
	}
	b.WriteString("    }\n}\n")
	for _, f := range a.Fields {
		items = append(items, c27Item{Path: f.Name, Type: f.Type, Owner: "contract"})
	}
	return b.String(), items
}

// c27Probe renders the probe script from B (declarations) and A (recorded meaning). Returns the script and the
// number of checks; items whose types B no longer declares (with the same kind) are outside the probe.
func c27Probe(a, b *c27Contract, items []c27Item) (string, int, []string) {
	var sb strings.Builder
	nchecks := 0
	var immediate []string // violations decidable without running (enum case no longer declared)
	sb.WriteString("import K from 0x1\n")
	sb.WriteString("access(all) fun chk(_ out: auth(Mutate) &[String], _ d: String, _ ok: Bool) { out.append((ok ? \"ok:\" : \"FAIL:\").concat(d)) }\n")
	sb.WriteString("access(all) fun main(): [String] {\n    let acct = getAuthAccount<auth(Storage) &Account>(0x1)\n    let out: [String] = []\n    let o = &out as auth(Mutate) &[String]\n    let kref = getAccount(0x1).contracts.borrow<&K>(name: \"K\")!\n")
	// is every nominal type reachable from t (under A: what is stored) still declared in B with the same kind?
	intact := func(t *c27T) bool {
		refs := map[string]bool{}
		a.refsOfType(t, refs)
		for n := range refs {
			da, db := a.decl(n), b.decl(n)
			if da == nil || db == nil || indexOfOr(b.Pragmas, n) >= 0 {
				return false
			}
			// a declaration whose kind changed is still "declared by B": its stored values are probed
			// (with B's kind) and will fail if such an update is ever accepted
		}
		return true
	}
	typeExpr := func(t *c27T) string { return "Type<" + b.ann(t, "K.") + ">()" }
	// checks on an expression of (B-)type t; depth-limited recursion into fields and elements
	var check func(pad, expr, desc string, t *c27T, depth int)
	nvar := 0
	check = func(pad, expr, desc string, t *c27T, depth int) {
		if t.K == "opt" {
			// read through a reference an optional field is an optional reference: unwrap, then check the inner type
			// (nil is a value of every optional type)
			nvar++
			u := fmt.Sprintf("u%d", nvar)
			nchecks++
			fmt.Fprintf(&sb, "%sif let %s = %s {\n", pad, u, expr)
			check(pad+"    ", u, desc+"!", t.Elem, depth)
			fmt.Fprintf(&sb, "%s} else { chk(o, \"type:%s\", true) }\n", pad, desc)
			return
		}
		nchecks++
		fmt.Fprintf(&sb, "%schk(o, \"type:%s\", %s.isInstance(%s))\n", pad, desc, expr, typeExpr(t))
		if depth >= 3 {
			return
		}
		switch t.K {
		case "named":
			d := b.decl(t.Name)
			if d == nil {
				return
			}
			if d.Kind == "struct" || d.Kind == "resource" {
				for _, f := range d.Fields {
					if f.Access != "access(all)" {
						continue
					}
					check(pad, expr+"."+f.Name, desc+"."+f.Name, f.Type, depth+1)
				}
				// conformances recorded under A
				if da := a.decl(t.Name); da != nil {
					for _, c := range da.Conforms {
						if ib := b.decl(c); ib != nil && a.decl(c) != nil && ib.Kind == a.decl(c).Kind {
							nchecks++
							it := &c27T{K: "inter", Name: c}
							fmt.Fprintf(&sb, "%schk(o, \"conformance:%s:%s\", %s.isInstance(%s))\n", pad, desc, c, expr, typeExpr(it))
						}
					}
				}
			}
		case "array", "fixed":
			check(pad, expr+"[0]", desc+"[0]", t.Elem, depth+1)
		case "dict":
			// (the entry's value may itself be nil: test the key)
			nchecks++
			fmt.Fprintf(&sb, "%schk(o, \"dict-entry:%s\", %s.containsKey(\"a\"))\n", pad, desc, expr)
		}
	}
	for _, it := range items {
		if !intact(it.Type) {
			continue
		}
		if it.Owner == "contract" {
			// contract field: B must still declare it to be probed (removed fields are not "declared by the new version")
			for _, f := range b.Fields {
				if f.Name == it.Path && f.Access == "access(all)" {
					check("    ", "kref."+f.Name, "K."+f.Name, f.Type, 0)
				}
			}
			continue
		}
		if it.Enum != "" {
			db := b.decl(it.Enum)
			nchecks++
			fmt.Fprintf(&sb, "    if let e = acct.storage.copy<K.%s>(from: /storage/%s) {\n", it.Enum, it.Path)
			fmt.Fprintf(&sb, "        chk(o, \"enum-raw:%s\", e.rawValue == %d)\n", it.Path, it.Raw)
			if indexOfOr(db.Cases, it.Case) >= 0 {
				nchecks++
				fmt.Fprintf(&sb, "        chk(o, \"enum-case:%s\", e == K.%s.%s)\n", it.Path, it.Enum, it.Case)
			} else {
				immediate = append(immediate, fmt.Sprintf("enum-case-missing:%s.%s", it.Enum, it.Case))
			}
			fmt.Fprintf(&sb, "    } else { chk(o, \"load:%s\", false) }\n", it.Path)
			continue
		}
		// the stored value's static type under A, rendered with B's declarations
		bt := it.Type
		refT := "&" + b.render(bt, "K.")
		nchecks++
		fmt.Fprintf(&sb, "    if let r_%s = acct.storage.borrow<%s>(from: /storage/%s) {\n", it.Path, refT, it.Path)
		fmt.Fprintf(&sb, "        chk(o, \"load:%s\", true)\n", it.Path)
		check("        ", "r_"+it.Path, it.Path, bt, 0)
		fmt.Fprintf(&sb, "    } else { chk(o, \"load:%s\", false) }\n", it.Path)
	}
	sb.WriteString("    return out\n}\n")
	return sb.String(), nchecks, immediate
}

// ---------------------------------------------------------------- case

type c27Pair struct {
	A, B      *c27Contract
	Mutations []string
}

func c27GenPair(rng *rand.Rand) c27Pair {
	a := c27Gen(rng)
	// a quarter of the pairs spell nominal types in qualified form (K.S0) in BOTH versions
	a.Qualify = rng.IntN(4) == 0
	b := a.clone()
	var kinds []string
	n := 1
	if rng.IntN(4) == 0 {
		n = 2
	}
	for len(kinds) < n {
		m := c27Mutations[rng.IntN(len(c27Mutations))]
		if m.Do(b, rng) {
			kinds = append(kinds, m.Kind)
		}
	}
	sort.Strings(kinds)
	if a.Source() == b.Source() {
		// the mutations cancelled out or were no-ops: not an update
		return c27GenPair(rng)
	}
	return c27Pair{A: a, B: b, Mutations: kinds}
}

const c27UpdateTx = `transaction(code: String) { prepare(s: auth(Contracts) &Account) { s.contracts.update(name: "K", code: code.utf8) } }`

func c27Run(c *core.Ctx) {
	per := c.Pick(8, 24)
	for i := 0; i < per; i++ {
		p := c27GenPair(c.Rng)
		srcA, srcB := p.A.Source(), p.B.Source()
		mk := strings.Join(p.Mutations, "+")
		c.Distinct(srcA + "\n=====\n" + srcB)
		census, items := c27Census(p.A)
		probe, nchecks, immediate := c27Probe(p.A, p.B, items)
		for _, eng := range host.AllEngines {
			c.Eval(1)
			h := host.New()
			wit := func(stage, observed string) map[string]any {
				return map[string]any{"engine": eng.String(), "mutations": p.Mutations, "contract_A": srcA, "contract_B": srcB,
					"census_tx": census, "probe_script": probe, "stage": stage, "observed": core.Clip(observed, 3000)}
			}
			if o := h.Deploy(eng, host.Addr(1), "K", srcA); o.Err != nil || o.Escaped != nil {
				c.Inc("generator_invalid_A")
				if host.Classify(o) != host.ClassUser {
					c.Violate("deploy-A:"+string(host.Classify(o)), "deploying the generated contract failed with a non-user error", wit("deploy A", host.ErrText(o)))
				} else {
					c.Note("invalid_A", core.Clip(host.ErrText(o), 1500)+"\n"+srcA)
				}
				break
			}
			if o := h.RunTx(eng, census, nil, addrs(1), nil); o.Err != nil || o.Escaped != nil {
				c.Inc("generator_invalid_census")
				c.Note("invalid_census", core.Clip(host.ErrText(o), 1500)+"\n"+srcA+"\n"+census)
				break
			}
			arg, _ := jsonString(srcB)
			o := h.RunTx(eng, c27UpdateTx, [][]byte{arg}, addrs(1), nil)
			if o.Escaped != nil || (o.Err != nil && host.Classify(o) != host.ClassUser) {
				c.Violate("update:"+string(host.Classify(o))+":"+mk, "contract update failed with a non-user error", wit("update", host.ErrText(o)))
				continue
			}
			if o.Err != nil {
				c.Inc("update_rejected")
				for _, m := range p.Mutations {
					c.Inc("rejected_" + m)
				}
				if !host.HasKind(o.Err, "ContractUpdateError") {
					// B does not even check: generator produced an ill-typed B (counted, not part of the property)
					c.Inc("rejected_not_by_validator")
				}
				continue
			}
			c.Inc("update_accepted")
			for _, m := range p.Mutations {
				c.Inc("accepted_" + m)
			}
			for _, im := range immediate {
				c.Violate("accepted:"+mk+":"+strings.SplitN(im, ":", 2)[0], "update accepted although a stored enum value's case is no longer declared: "+im, wit("accepted", im))
			}
			if eng == host.EngI && c.WantSample() && len(p.Mutations) > 0 && i == 0 {
				c.Sample(map[string]any{"mutations": p.Mutations, "contract_A": srcA, "contract_B": srcB, "probe_checks": nchecks})
			}
			po := h.RunScript(eng, probe, nil, nil)
			c.Eval(1)
			if po.Err != nil || po.Escaped != nil {
				c.Violate("probe-error:"+mk+":"+string(host.Classify(po))+":"+firstKind(po.Err),
					fmt.Sprintf("engine %s: update (%s) was accepted but reading the stored data failed", eng, mk), wit("probe", host.ErrText(po)))
				continue
			}
			arr, ok := po.Value.(cadence.Array)
			if !ok {
				c.Violate("probe-result:"+mk, "probe did not return an array", wit("probe", fmt.Sprint(po.Value)))
				continue
			}
			fails := 0
			for _, v := range arr.Values {
				s := strings.Trim(v.String(), "\"")
				if strings.HasPrefix(s, "FAIL:") {
					fails++
					kind := strings.SplitN(strings.TrimPrefix(s, "FAIL:"), ":", 2)[0]
					c.Violate("probe-fail:"+mk+":"+kind, fmt.Sprintf("engine %s: update (%s) was accepted but a stored value is no longer usable: %s", eng, mk, s), wit("probe", s))
				} else {
					c.Inc("probe_checks_ok")
				}
			}
			if fails == 0 {
				c.Inc("accepted_and_probed_ok")
			}
		}
	}
}

func firstKind(err error) string {
	ks := host.ErrKinds(err)
	if len(ks) == 0 {
		return "none"
	}
	return ks[len(ks)-1]
}

func jsonString(s string) ([]byte, error) {
	var b strings.Builder
	b.WriteString(`{"type":"String","value":"`)
	for _, r := range s {
		switch r {
		case '"':
			b.WriteString(`\"`)
		case '\\':
			b.WriteString(`\\`)
		case '\n':
			b.WriteString(`\n`)
		case '\t':
			b.WriteString(`\t`)
		default:
			b.WriteRune(r)
		}
	}
	b.WriteString(`"}`)
	return []byte(b.String()), nil
}

func init() {
	floors := map[string]int64{
		"update_accepted": 400, "update_rejected": 400, "accepted_and_probed_ok": 300, "probe_checks_ok": 20000,
	}
	for _, m := range c27Mutations {
		floors["seen_"+m.Kind] = 5
	}
	core.Register(&core.Prop{
		ID: "C27",
		Rule: "each case generates (A, B) pairs: A = random contract K with 1-2 struct and resource interfaces, 1-2 enums (2-4 cases), 3-4 structs and 2-3 resources whose fields draw from primitives, enums, nested structs/resources, interface-typed ({I}), AnyStruct/AnyResource, arrays, constant-sized arrays, dictionaries and optionals, plus contract fields; " +
			fmt.Sprintf("B = A with 1-2 of %d mutation kinds (", len(c27Mutations)) + "field add/remove/retype/retype to a sibling nominal type/optional wrap/unwrap/array size/reorder/rename/let-var/access, declaration add/remove/remove-with-#removedType/rename, conformance add/remove/reorder, enum case append/insert/remove/reorder/rename, struct<->resource kind change, #removedType pragma add/remove, body change, function add, qualified type names); " +
			"per engine: deploy A, store the census, update to B; accepted updates are probed; distinct = (A source, B source)",
		Assumptions: []string{
			"oracle is end-to-end: only accepted updates are judged, by a probe script that reads the stored values through B's declarations (isInstance with the declared types, enum rawValue and case equality, isInstance of the interfaces recorded under A)",
			"values whose (transitively stored) types B no longer declares, or lists in a #removedType pragma, are outside the probe; fields B declares with non-public access are not read",
			"the generator may produce an ill-typed B (rejected by the checker, counted as rejected_not_by_validator)",
		},
		NumCases: func(tier string) int {
			if tier == "thorough" {
				return 1600
			}
			return 128
		},
		Floors: floors,
		Run:    c27Run,
		Finalize: func(a *core.Agg) {
			for _, m := range c27Mutations {
				a.Counters["seen_"+m.Kind] = a.Counters["accepted_"+m.Kind] + a.Counters["rejected_"+m.Kind]
			}
			tot := a.Counters["update_accepted"] + a.Counters["update_rejected"]
			if tot > 0 && a.Counters["update_accepted"]*5 < tot {
				a.Inconclusive = append(a.Inconclusive, fmt.Sprintf("acceptance rate below 20%%: %d of %d", a.Counters["update_accepted"], tot))
			}
			if a.Counters["generator_invalid_A"]*20 > a.Evals {
				a.Inconclusive = append(a.Inconclusive, fmt.Sprintf("generator produced %d invalid A contracts", a.Counters["generator_invalid_A"]))
			}
		},
	})
}
