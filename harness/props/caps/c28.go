package caps

import (
	"fmt"
	"sort"
	"strings"
	"sync"

	"github.com/onflow/cadence/common"
	cerrors "github.com/onflow/cadence/errors"

	"verif/harness/core"
	"verif/harness/host"
)

// C28 — host failures are never swallowed (fault enumeration).
//
// A program of the corpus is run once fault-free from a fixed pre-state to record its host callback trace
// c_0..c_N-1. Then, for every call index i and every fault mode (error return, panic(error), panic(non-error))
// it is re-run from a clone of the same pre-state with exactly that call failing. The oracle only looks at
// the API boundary: the returned error chain, the recovered panic (none allowed), the returned script value
// and the callback log after the faulted call.

// ---------------------------------------------------------------- corpus

const c28C0 = `access(all) contract C0 {
    access(all) event Ev(x: Int)
    access(all) entitlement E
    access(all) resource R {
        access(all) var v: Int
        init(v: Int) { self.v = v }
        access(E) fun inc() { self.v = self.v + 1 }
    }
    access(all) struct S {
        access(all) let a: Int
        init(a: Int) { self.a = a }
    }
    access(all) var count: Int
    access(all) fun mk(_ v: Int): @R {
        self.count = self.count + 1
        emit Ev(x: v)
        return <- create R(v: v)
    }
    init() { self.count = 0 }
}`

const c28C1 = `access(all) contract C1 {
    access(all) var n: Int
    access(all) fun bump(): Int { self.n = self.n + 1; return self.n }
    init() { self.n = 0 }
}`

const c28U0 = `access(all) contract U0 {
    access(all) var x: Int
    access(all) fun f(): Int { return 1 }
    init() { self.x = 1 }
}`

const c28U0v2 = `access(all) contract U0 {
    access(all) var x: Int
    access(all) fun f(): Int { return 2 }
    access(all) fun g(): Int { return 3 }
    init() { self.x = 1 }
}`

const c28U0v3 = `access(all) contract U0 {
    access(all) var x: Int
    access(all) fun f(): Int { return 4 }
    init() { self.x = 1 }
}`

// incompatible: field type changed
const c28U0bad = `access(all) contract U0 {
    access(all) var x: String
    access(all) fun f(): Int { return 2 }
    init() { self.x = "" }
}`

// parses with the old (pre-1.0) parser only: makes an import call RecoverProgram
const c28Old = `pub contract Broken { pub fun f(): Int { return 1 } }`

const c28Ents = "auth(Storage, Contracts, Keys, Inbox, Capabilities) &Account"

type c28Snippet struct {
	Name   string
	Unique bool // at most one instance per program (touches a fixed name)
	Gen    func(k int) string
}

var c28Snippets = []c28Snippet{
	{"storage", false, func(k int) string {
		return fmt.Sprintf(`signer.storage.save([%d, 2, 3], to: /storage/a%d)
let x = signer.storage.load<[Int]>(from: /storage/a%d)
log(x)
signer.storage.save("hello", to: /storage/b%d)
log(signer.storage.borrow<&String>(from: /storage/b%d))
log(signer.storage.copy<String>(from: /storage/b%d))
log(signer.storage.check<Int>(from: /storage/b%d))
log(signer.storage.type(at: /storage/pre))
log(signer.storage.storagePaths.length)`, k, k, k, k, k, k, k)
	}},
	{"bigstore", false, func(k int) string {
		return fmt.Sprintf(`var xs: [String] = []
var i = 0
while i < 120 { xs.append("element-number-".concat(i.toString())); i = i + 1 }
signer.storage.save(xs, to: /storage/big%d)
let d: {String: [Int]} = {"a": [1, 2, 3], "b": []}
signer.storage.save(d, to: /storage/dict%d)`, k, k)
	}},
	{"preload", true, func(k int) string {
		return `let prev = signer.storage.load<[Int]>(from: /storage/pre)!
prev.append(9)
signer.storage.save(prev, to: /storage/pre)
if let r = signer.storage.borrow<auth(Mutate) &[Int]>(from: /storage/pre) { r.append(10) }`
	}},
	{"resource", false, func(k int) string {
		return fmt.Sprintf(`let r <- C0.mk(%d)
signer.storage.save(<-r, to: /storage/r%d)
let ref = signer.storage.borrow<auth(C0.E) &C0.R>(from: /storage/r%d)!
ref.inc()
log(ref.v)
log(ref.uuid)
let r2 <- C0.mk(7)
destroy r2
log(C0.count)`, k, k, k)
	}},
	{"resmove", true, func(k int) string {
		return `let old <- signer.storage.load<@C0.R>(from: /storage/preR)!
log(old.v)
signer.storage.save(<-old, to: /storage/preR2)`
	}},
	{"log", false, func(k int) string { return fmt.Sprintf(`log("snippet-%d")`, k) }},
	{"block", false, func(k int) string {
		return `let b = getCurrentBlock()
log(b.height)
log(b.id)
log(b.timestamp)
let b2 = getBlock(at: 3)
log(b2?.view)
log(getBlock(at: 1000) == nil)`
	}},
	{"random", false, func(k int) string {
		return `log(revertibleRandom<UInt64>())
log(revertibleRandom<UInt8>(modulo: 7))
log(revertibleRandom<UInt256>(modulo: 1000))`
	}},
	{"balance", false, func(k int) string {
		return `log(signer.balance)
log(signer.availableBalance)
log(signer.storage.used)
log(signer.storage.capacity)
let other = getAccount(0x2)
log(other.balance)
log(other.storage.used)`
	}},
	{"hash", false, func(k int) string {
		return `log(HashAlgorithm.SHA3_256.hash([1, 2, 3]))
log(HashAlgorithm.SHA2_256.hashWithTag([1], tag: "t"))`
	}},
	{"pubkey", false, func(k int) string {
		return `let pk = PublicKey(publicKey: "0102".decodeHex(), signatureAlgorithm: SignatureAlgorithm.ECDSA_P256)
log(pk.verify(signature: [1, 2], signedData: [3], domainSeparationTag: "tag", hashAlgorithm: HashAlgorithm.SHA3_256))
log(pk.verify(signature: [0], signedData: [3], domainSeparationTag: "tag", hashAlgorithm: HashAlgorithm.SHA2_256))`
	}},
	{"bls", false, func(k int) string {
		return `let bk = PublicKey(publicKey: "0a0b0c".decodeHex(), signatureAlgorithm: SignatureAlgorithm.BLS_BLS12_381)
log("@PublicKey.verifyPoP")
log(bk.verifyPoP([1]))
log("@BLS.aggregateSignatures")
log(BLS.aggregateSignatures([[1 as UInt8], [2 as UInt8]]))
log("@BLS.aggregatePublicKeys")
let agg = BLS.aggregatePublicKeys([bk])
log(agg?.publicKey)`
	}},
	{"keys", true, func(k int) string {
		return `let kk = PublicKey(publicKey: "0304".decodeHex(), signatureAlgorithm: SignatureAlgorithm.ECDSA_secp256k1)
let added = signer.keys.add(publicKey: kk, hashAlgorithm: HashAlgorithm.SHA3_256, weight: 100.0)
log(added.keyIndex)
log(signer.keys.get(keyIndex: 0)?.weight)
log(signer.keys.get(keyIndex: 55) == nil)
log(signer.keys.count)
signer.keys.forEach(fun (key: AccountKey): Bool { log(key.isRevoked); return true })
log(signer.keys.revoke(keyIndex: 0)?.isRevoked)`
	}},
	{"createacct", false, func(k int) string {
		return `let fresh = Account(payer: signer)
log(fresh.address)
fresh.storage.save(1, to: /storage/one)
let fk = PublicKey(publicKey: "0506".decodeHex(), signatureAlgorithm: SignatureAlgorithm.ECDSA_P256)
fresh.keys.add(publicKey: fk, hashAlgorithm: HashAlgorithm.SHA2_256, weight: 1.0)`
	}},
	{"contract_add", false, func(k int) string {
		code := fmt.Sprintf(`access(all) contract N%d {
    access(all) event Init(n: Int)
    access(all) var xs: [Int]
    init() {
        self.xs = [1, 2, 3]
        emit Init(n: %d)
        self.account.storage.save("from-init", to: /storage/init%d)
    }
}`, k, k, k)
		return fmt.Sprintf(`let dc = signer.contracts.add(name: "N%d", code: %s)
log(dc.name)
log(signer.contracts.names)`, k, hexLit(code))
	}},
	{"contract_update", true, func(k int) string {
		return fmt.Sprintf(`let du = signer.contracts.update(name: "U0", code: %s)
log(du.name)
log(signer.contracts.get(name: "U0")?.code?.length)`, hexLit(c28U0v2))
	}},
	{"contract_tryupdate", true, func(k int) string {
		return fmt.Sprintf(`log("TU-BEGIN")
let t1 = signer.contracts.tryUpdate(name: "U0", code: %s)
log("TU-END:".concat(t1.deployedContract == nil ? "fail" : "ok"))
log("TU-BEGIN")
let t2 = signer.contracts.tryUpdate(name: "U0", code: %s)
log("TU-END:".concat(t2.deployedContract == nil ? "fail" : "ok"))
signer.storage.save("after-tryupdate", to: /storage/afterTry)`, hexLit(c28U0v3), hexLit(c28U0bad))
	}},
	{"contract_misc", true, func(k int) string {
		return `log(signer.contracts.names)
log(signer.contracts.get(name: "C0")?.name)
log(signer.contracts.get(name: "Nope") == nil)
log(signer.contracts.borrow<&C0>(name: "C0")?.count)
let rem = signer.contracts.remove(name: "C1")
log(rem?.name)
log(signer.contracts.remove(name: "Nope") == nil)
log(getAccount(0x2).contracts.names)`
	}},
	{"caps", false, func(k int) string {
		return fmt.Sprintf(`let cap = signer.capabilities.storage.issue<&[Int]>(/storage/pre)
signer.capabilities.publish(cap, at: /public/q%d)
log(signer.capabilities.get<&[Int]>(/public/q%d).id)
log(signer.capabilities.borrow<&[Int]>(/public/q%d)?.length)
log(signer.capabilities.exists(/public/q%d))
log(cap.check())
log(cap.borrow()?.length)
let ctl = signer.capabilities.storage.getController(byCapabilityID: cap.id)!
ctl.setTag("t")
log(signer.capabilities.storage.getControllers(forPath: /storage/pre).length)
signer.capabilities.storage.forEachController(forPath: /storage/pre, fun (c: &StorageCapabilityController): Bool { log(c.capabilityID); return true })
ctl.retarget(/storage/other)
let acap = signer.capabilities.account.issue<&Account>()
log(acap.borrow()?.address)
log(signer.capabilities.account.getControllers().length)
signer.capabilities.account.getController(byCapabilityID: acap.id)!.delete()
ctl.delete()
log(signer.capabilities.unpublish(/public/q%d)?.id)`, k, k, k, k, k)
	}},
	{"caps_remote", false, func(k int) string {
		return `let remote = getAccount(0x2)
log(remote.capabilities.borrow<&[Int]>(/public/pre2)?.length)
let rc = remote.capabilities.get<&[Int]>(/public/pre2)
log(rc.check())
log(remote.capabilities.get<&String>(/public/pre2).id)
log(remote.capabilities.exists(/public/none))`
	}},
	{"inbox", false, func(k int) string {
		return fmt.Sprintf(`let icap = signer.capabilities.storage.issue<&[Int]>(/storage/pre)
signer.inbox.publish(icap, name: "mine%d", recipient: 0x2)
log(signer.inbox.unpublish<&[Int]>("mine%d")?.id)
signer.inbox.publish(icap, name: "kept%d", recipient: 0x2)`, k, k, k)
	}},
	{"inbox_claim", true, func(k int) string {
		return `let claimed = signer.inbox.claim<&[Int]>("fromB", provider: 0x2)
log(claimed!.borrow()!.length)
log(signer.inbox.claim<&[Int]>("nothing", provider: 0x2) == nil)`
	}},
	{"iterate", false, func(k int) string {
		return `log("@forEachStored")
signer.storage.forEachStored(fun (p: StoragePath, t: Type): Bool { log(p); return true })
log("@forEachPublic")
signer.storage.forEachPublic(fun (p: PublicPath, t: Type): Bool { log(t); return true })`
	}},
	{"contract_call", false, func(k int) string {
		return `log(C1.bump())
log(U0.f())
let s = C0.S(a: 4)
log(s.a)`
	}},
}

// A corpus program.
type c28Prog struct {
	Name    string
	Script  bool
	Src     string
	Args    [][]byte
	Signers []uint64
	// ExpectFail: the fault-free run is expected to fail (e.g. import of an unrecoverable old program)
	ExpectFail bool
}

type c28Block struct{ Name, Src string }

func c28Body(blocks []c28Block) string {
	var b strings.Builder
	for _, blk := range blocks {
		s := "log(\"@" + blk.Name + "\")\n" + blk.Src
		b.WriteString("        if true {\n")
		b.WriteString(indent(s, "            "))
		b.WriteString("\n        }\n")
	}
	return b.String()
}

const c28Imports = "import C0 from 0x1\nimport C1 from 0x1\nimport U0 from 0x1\n"

func c28Tx(name string, blocks []c28Block, withArgs bool) c28Prog {
	p := c28Prog{Name: name, Signers: []uint64{1}}
	params := ""
	pre := ""
	if withArgs {
		params = "(arg0: Int, arg1: String)"
		pre = "        log(arg0)\n        log(arg1)\n"
		p.Args = [][]byte{[]byte(`{"type":"Int","value":"5"}`), []byte(`{"type":"String","value":"s"}`)}
	}
	p.Src = c28Imports + "transaction" + params + " {\n    prepare(signer: " + c28Ents + ") {\n" + pre + c28Body(blocks) + "    }\n    execute {\n        log(\"@execute\")\n    }\n}\n"
	return p
}

func c28Script(name string, blocks []c28Block, withArgs bool) c28Prog {
	p := c28Prog{Name: name, Script: true}
	params := ""
	pre := ""
	if withArgs {
		params = "arg0: Int"
		pre = "    log(arg0)\n"
		p.Args = [][]byte{[]byte(`{"type":"Int","value":"5"}`)}
	}
	p.Src = c28Imports + "access(all) fun main(" + params + "): Int {\n    let signer = getAuthAccount<" + c28Ents + ">(0x1)\n" + pre + c28Body(blocks) + "    return 42\n}\n"
	return p
}

// the fixed part of the corpus: every snippet alone (as a transaction), a few as scripts, special programs
func c28BasePrograms() []c28Prog {
	var ps []c28Prog
	for i, s := range c28Snippets {
		ps = append(ps, c28Tx("tx:"+s.Name, []c28Block{{s.Name, s.Gen(0)}}, i%3 == 0))
	}
	for i, s := range c28Snippets {
		switch s.Name {
		case "storage", "block", "random", "hash", "pubkey", "bls", "caps_remote", "balance", "contract_misc", "resource", "contract_tryupdate":
			ps = append(ps, c28Script("script:"+s.Name, []c28Block{{s.Name, s.Gen(0)}}, i%2 == 0))
		}
	}
	ps = append(ps,
		c28Prog{Name: "script:import-recover", Script: true, ExpectFail: true,
			Src: "import Broken from 0x1\naccess(all) fun main(): Int { return Broken.f() }\n"},
		c28Prog{Name: "tx:import-recover", ExpectFail: true, Signers: []uint64{1},
			Src: "import Broken from 0x1\ntransaction { prepare(signer: &Account) { log(Broken.f()) } }\n"},
		c28Prog{Name: "script:import-string", Script: true,
			Src: "import \"lib\"\naccess(all) fun main(): Int { log(\"x\"); return 1 }\n"},
		c28Prog{Name: "tx:import-string", Signers: []uint64{1},
			Src: "import \"lib\"\ntransaction { prepare(signer: auth(Storage) &Account) { signer.storage.save(1, to: /storage/fromlib) } }\n"},
		c28Prog{Name: "tx:two-signers", Signers: []uint64{1, 2},
			Src: c28Imports + "transaction {\n    prepare(a: " + c28Ents + ", b: " + c28Ents + ") {\n" +
				"        let r <- C0.mk(1)\n        a.storage.save(<-r, to: /storage/moved)\n        let r2 <- a.storage.load<@C0.R>(from: /storage/moved)!\n        b.storage.save(<-r2, to: /storage/moved)\n" +
				"        let c = b.capabilities.storage.issue<&C0.R>(/storage/moved)\n        b.inbox.publish(c, name: \"gift\", recipient: a.address)\n        log(a.inbox.claim<&C0.R>(\"gift\", provider: b.address)!.borrow()!.v)\n    }\n}\n"},
		// programs WITHOUT imports that touch stored values of contract-declared types (types are loaded lazily)
		c28Prog{Name: "tx:noimport-iterate", Signers: []uint64{1},
			Src: "transaction {\n    prepare(signer: auth(Storage) &Account) {\n        log(\"@forEachStored\")\n        signer.storage.forEachStored(fun (p: StoragePath, t: Type): Bool { log(p); return true })\n        log(\"@forEachPublic\")\n        signer.storage.forEachPublic(fun (p: PublicPath, t: Type): Bool { log(p); return true })\n    }\n}\n"},
		c28Prog{Name: "script:noimport-iterate", Script: true,
			Src: "access(all) fun main(): Int {\n    var n = 0\n    log(\"@forEachStored\")\n    getAuthAccount<auth(Storage) &Account>(0x1).storage.forEachStored(fun (p: StoragePath, t: Type): Bool { n = n + 1; return true })\n    return n\n}\n"},
		c28Prog{Name: "tx:noimport-inspect", Signers: []uint64{1},
			Src: "transaction {\n    prepare(signer: auth(Storage) &Account) {\n        log(\"@storage.type\")\n        log(signer.storage.type(at: /storage/preR))\n        log(\"@storage.check\")\n        log(signer.storage.check<@AnyResource>(from: /storage/preR))\n        log(\"@storage.borrow\")\n        let r = signer.storage.borrow<&AnyResource>(from: /storage/preR)!\n        log(r.getType())\n        log(\"@CompositeType\")\n        log(CompositeType(\"A.0000000000000001.C0.R\") == nil)\n    }\n}\n"},
		c28Prog{Name: "tx:noimport-move", Signers: []uint64{1},
			Src: "transaction {\n    prepare(signer: auth(Storage) &Account) {\n        log(\"@storage.load\")\n        let r <- signer.storage.load<@AnyResource>(from: /storage/preR)!\n        log(\"@storage.save\")\n        signer.storage.save(<-r, to: /storage/preR3)\n    }\n}\n"},
		c28Prog{Name: "script:noimport-capability", Script: true,
			Src: "access(all) fun main(): Bool {\n    log(\"@capabilities.borrow\")\n    let r = getAccount(0x1).capabilities.borrow<&AnyResource>(/public/preRcap)\n    log(\"@capability.check\")\n    return getAccount(0x1).capabilities.get<&AnyResource>(/public/preRcap).check() && r != nil\n}\n"},
		// one commit that creates the account storage maps (and their index registers) of several fresh accounts
		c28Prog{Name: "tx:fresh-accounts", Signers: []uint64{5, 6, 7},
			Src: "transaction {\n    prepare(a: auth(Storage) &Account, b: auth(Storage) &Account, c: auth(Storage) &Account) {\n        a.storage.save(1, to: /storage/fresh)\n        b.storage.save(\"x\", to: /storage/fresh)\n        c.storage.save([1, 2], to: /storage/fresh)\n        log(\"@saved\")\n    }\n}\n"},
		c28Prog{Name: "script:declares-types", Script: true,
			Src: "access(all) struct P { access(all) let x: Int; init(x: Int) { self.x = x } }\naccess(all) resource Q {}\naccess(all) fun main(): Int { let q <- create Q(); log(q.uuid); destroy q; return P(x: 2).x + Int(getCurrentBlock().height) }\n"},
	)
	return ps
}

// c28RandomProgram composes 2..5 snippet instances into one transaction or script.
func c28RandomProgram(idx int, seed int64, tier string) c28Prog {
	rng := core.CaseRng(seed, "C28-program", tier, idx)
	n := 2 + rng.IntN(4)
	used := map[string]bool{}
	var blocks []c28Block
	var names []string
	for len(blocks) < n {
		s := c28Snippets[rng.IntN(len(c28Snippets))]
		if s.Unique && used[s.Name] {
			continue
		}
		used[s.Name] = true
		blocks = append(blocks, c28Block{s.Name, s.Gen(len(blocks))})
		names = append(names, s.Name)
	}
	name := fmt.Sprintf("r%d:%s", idx, strings.Join(names, "+"))
	if rng.IntN(4) == 0 {
		return c28Script("script:"+name, blocks, rng.IntN(2) == 0)
	}
	return c28Tx("tx:"+name, blocks, rng.IntN(2) == 0)
}

func c28NumRandom(tier string) int {
	if tier == "thorough" {
		return 1200
	}
	return 20
}

func c28Program(idx int, seed int64, tier string) c28Prog {
	base := c28BasePrograms()
	if idx < len(base) {
		return base[idx]
	}
	return c28RandomProgram(idx-len(base), seed, tier)
}

// ---------------------------------------------------------------- pre-state

var (
	c28BaseMu    sync.Mutex
	c28BaseHosts = map[host.Engine]*host.Host{}
)

// c28BaseHost builds (once per worker and engine) the pre-state all corpus programs start from.
func c28BaseHost(eng host.Engine) *host.Host {
	c28BaseMu.Lock()
	defer c28BaseMu.Unlock()
	if h, ok := c28BaseHosts[eng]; ok {
		return h
	}
	h := host.New()
	must := func(what string, o host.Outcome) {
		if o.Err != nil || o.Escaped != nil {
			panic("C28 setup failed: " + what + ": " + host.ErrText(o))
		}
	}
	must("deploy C0", h.Deploy(eng, host.Addr(1), "C0", c28C0))
	must("deploy C1", h.Deploy(eng, host.Addr(1), "C1", c28C1))
	must("deploy U0", h.Deploy(eng, host.Addr(1), "U0", c28U0))
	h.Codes[string(common.AddressLocation{Address: host.Addr(1), Name: "Broken"}.ID())] = []byte(c28Old)
	must("setup 1", h.RunTx(eng, `import C0 from 0x1
transaction {
    prepare(a: `+c28Ents+`, b: `+c28Ents+`) {
        a.storage.save([1, 2, 3], to: /storage/pre)
        a.storage.save(<- C0.mk(3), to: /storage/preR)
        let k = PublicKey(publicKey: "0708".decodeHex(), signatureAlgorithm: SignatureAlgorithm.ECDSA_P256)
        a.keys.add(publicKey: k, hashAlgorithm: HashAlgorithm.SHA3_256, weight: 1000.0)
        let rc = a.capabilities.storage.issue<&C0.R>(/storage/preR)
        a.capabilities.publish(rc, at: /public/preRcap)
        b.storage.save([4, 5], to: /storage/pre2)
        let c = b.capabilities.storage.issue<&[Int]>(/storage/pre2)
        b.capabilities.publish(c, at: /public/pre2)
        b.inbox.publish(c, name: "fromB", recipient: a.address)
    }
}`, nil, addrs(1, 2), nil))
	h.ResetTrace()
	c28BaseHosts[eng] = h
	return h
}

// ---------------------------------------------------------------- runs

type c28Run struct {
	Out  host.Outcome
	Recs []host.Rec
	Logs []string
	Fired []int
}

func c28Exec(p c28Prog, eng host.Engine, faults []host.Fault) c28Run {
	h := cloneHost(c28BaseHost(eng))
	h.RecordReads = true
	h.Faults = faults
	var out host.Outcome
	if p.Script {
		out = h.RunScript(eng, p.Src, p.Args, nil)
	} else {
		out = h.RunTx(eng, p.Src, p.Args, addrs(p.Signers...), nil)
	}
	return c28Run{Out: out, Recs: h.Recs, Logs: h.Logs, Fired: h.FaultsFired}
}

// carries reports whether the error chain carries the injected failure of call id in the given mode.
func c28Carries(err error, id int, mode host.FaultMode) bool {
	found := false
	host.Walk(err, func(e error) {
		switch x := e.(type) {
		case *host.Sentinel:
			if mode != host.FaultPanicNonError && x.ID == id {
				found = true
			}
		case cerrors.ExternalNonError:
			if p, ok := x.Recovered.(host.NonErrorPanic); ok && mode == host.FaultPanicNonError && p.ID == id {
				found = true
			}
		case *cerrors.ExternalNonError:
			if p, ok := x.Recovered.(host.NonErrorPanic); ok && mode == host.FaultPanicNonError && p.ID == id {
				found = true
			}
		case cerrors.ExternalError:
			if s, ok := x.Recovered.(*host.Sentinel); ok && mode != host.FaultPanicNonError && s.ID == id {
				found = true
			}
		}
	})
	return found
}

var c28Modes = []host.FaultMode{host.FaultError, host.FaultPanicError, host.FaultPanicNonError}

// c28Marker is the snippet marker ("@name") logged most recently before call i ("prologue" if none,
// "epilogue" after the execute-phase marker).
func c28Marker(recs []host.Rec, i int) string {
	m := "prologue"
	for j := 0; j < i && j < len(recs); j++ {
		if recs[j].Kind != host.KLog {
			continue
		}
		a := strings.Trim(recs[j].A, "\"")
		if strings.HasPrefix(a, "@") {
			m = a
		}
	}
	return m
}

func c28EngFamily(e host.Engine) string {
	if e == host.EngI {
		return "I"
	}
	return "VM"
}

func c28InTry(recs []host.Rec, i int) bool {
	in := false
	for j := 0; j < i && j < len(recs); j++ {
		if recs[j].Kind != host.KLog {
			continue
		}
		if strings.Contains(recs[j].A, "TU-BEGIN") {
			in = true
		} else if strings.Contains(recs[j].A, "TU-END") {
			in = false
		}
	}
	return in
}

// first TU-END marker logged after position i
func c28TryResultAfter(recs []host.Rec, i int) string {
	for j := i + 1; j < len(recs); j++ {
		if recs[j].Kind == host.KLog && strings.Contains(recs[j].A, "TU-END:") {
			if strings.Contains(recs[j].A, "TU-END:fail") {
				return "fail"
			}
			return "ok"
		}
	}
	return ""
}

// the documented exception: the failure is reported as interpreter.InvalidPublicKeyError (a user error type; it
// may wrap the host's error, which then still classifies the chain as external)
func c28IsInvalidKeyUserError(o host.Outcome) bool {
	if o.Err == nil {
		return false
	}
	return host.HasKind(o.Err, "InvalidPublicKeyError")
}

// outermost non-wrapper error type of the observed error (part of not-carried keys)
func c28OuterKind(err error) string {
	ks := host.ErrKinds(err)
	if len(ks) == 0 {
		return "none"
	}
	return ks[0]
}

type c28Witness struct {
	Program   string   `json:"program"`
	Name      string   `json:"name"`
	Script    bool     `json:"script"`
	Engine    string   `json:"engine"`
	Faults    []string `json:"faults"`
	FaultedAt string   `json:"faulted_call"`
	Expected  string   `json:"expected"`
	Observed  string   `json:"observed"`
	TraceTail []string `json:"trace_after_fault,omitempty"`
}

func c28Check(c *core.Ctx, p c28Prog, eng host.Engine, base c28Run, faults []host.Fault) (run c28Run, conclusive bool) {
	run = c28Exec(p, eng, faults)
	c.Eval(1)
	i := faults[0].AtSeq
	// deterministic replay up to the first fault
	if len(run.Recs) <= i || len(run.Fired) == 0 || run.Fired[0] != i {
		c.Inc("replay_diverged")
		return run, false
	}
	for j := 0; j <= i; j++ {
		if run.Recs[j].String() != base.Recs[j].String() {
			c.Inc("replay_diverged")
			return run, false
		}
	}
	// which of the planned faults actually fired
	var fired []host.Fault
	for _, f := range faults {
		for _, s := range run.Fired {
			if s == f.AtSeq {
				fired = append(fired, f)
			}
		}
	}
	if len(faults) > 1 {
		if len(fired) < 2 {
			c.Inc("double_second_not_reached")
			return run, false
		}
		c.Inc("double_faults_fired")
	}
	for _, f := range fired {
		c.Inc("fired_" + string(run.Recs[f.AtSeq].Kind) + "_" + f.Mode.String())
		c.Inc("fired_mode_" + f.Mode.String())
	}

	var fs []string
	for _, f := range faults {
		fs = append(fs, fmt.Sprintf("call #%d (%s) mode=%s", f.AtSeq, run.Recs[f.AtSeq].Kind, f.Mode))
	}
	wit := func(at int, expected, observed string) c28Witness {
		var tail []string
		for j := i; j < len(run.Recs) && j < i+30; j++ {
			tail = append(tail, core.Clip(run.Recs[j].String(), 200))
		}
		return c28Witness{Program: p.Src, Name: p.Name, Script: p.Script, Engine: eng.String(), Faults: fs,
			FaultedAt: core.Clip(run.Recs[at].String(), 200), Expected: expected, Observed: observed, TraceTail: tail}
	}
	keyOf := func(what string, f host.Fault, extra string) string {
		k := fmt.Sprintf("%s:%s:%s", what, run.Recs[f.AtSeq].Kind, f.Mode)
		if what == "not-carried" {
			k += ":" + c28EngFamily(eng)
		}
		if extra != "" {
			k += ":" + extra
		}
		return k
	}
	desc := func(f host.Fault) string {
		return fmt.Sprintf("engine %s: host callback %s (call #%d, in %s) failed with %s", eng, run.Recs[f.AtSeq].Kind, f.AtSeq, c28Marker(run.Recs, f.AtSeq), f.Mode)
	}

	lastFired := fired[len(fired)-1]
	if run.Out.Escaped != nil {
		c.Violate(keyOf("escaped", lastFired, c28Marker(run.Recs, lastFired.AtSeq)),
			desc(lastFired)+fmt.Sprintf(" and the panic escaped Execute*: %v", run.Out.Escaped),
			wit(lastFired.AtSeq, "error result, no escaping panic", host.ErrText(run.Out)))
		return run, true
	}

	// documented exception 2: failures inside contracts.tryUpdate may be absorbed into an unsuccessful result
	var effective []host.Fault
	for _, f := range fired {
		if c28InTry(run.Recs, f.AtSeq) {
			switch c28TryResultAfter(run.Recs, f.AtSeq) {
			case "fail":
				c.Inc("exception_tryupdate_unsuccessful_result")
				continue
			case "ok":
				c.Violate(keyOf("swallowed-in-tryUpdate", f, ""),
					desc(f)+" inside contracts.tryUpdate, but the DeploymentResult reports success",
					wit(f.AtSeq, "error carrying the host failure, or an unsuccessful DeploymentResult", "tryUpdate succeeded; execution error: "+host.ErrText(run.Out)))
				return run, true
			}
		}
		effective = append(effective, f)
	}
	if len(effective) == 0 {
		return run, true
	}
	eff := effective[len(effective)-1]

	carried := false
	for _, f := range fired {
		if c28Carries(run.Out.Err, f.AtSeq, f.Mode) {
			carried = true
		}
	}
	invalidKeyException := len(effective) == 1 && run.Recs[eff.AtSeq].Kind == host.KValidateKey && eff.Mode == host.FaultError && c28IsInvalidKeyUserError(run.Out)
	switch {
	case run.Out.Err == nil:
		val := ""
		if run.Out.Value != nil {
			val = fmt.Sprintf(" (script value %v)", run.Out.Value)
		}
		c.Violate(keyOf("swallowed", eff, c28Marker(run.Recs, eff.AtSeq)),
			desc(eff)+" and the execution reports success"+val,
			wit(eff.AtSeq, "execution fails with an error carrying the host failure", "success"+val))
		return run, true
	case invalidKeyException:
		// documented exception 1 (the user error may or may not wrap the host error)
		c.Inc("exception_invalid_public_key_user_error")
	case carried:
		c.Inc("outcome_error_carrying_host_failure")
	default:
		c.Violate(keyOf("not-carried", eff, c28OuterKind(run.Out.Err)),
			desc(eff)+"; the execution failed but its error chain does not carry the host failure",
			wit(eff.AtSeq, "error chain containing the injected sentinel", host.ErrText(run.Out)))
		return run, true
	}

	if run.Out.Value != nil {
		c.Violate(keyOf("value-with-error", eff, ""), desc(eff)+"; a result value was returned together with the error",
			wit(eff.AtSeq, "no result value", fmt.Sprint(run.Out.Value)))
	}
	// no ledger write after the (last) failure that was not absorbed by tryUpdate
	for j := eff.AtSeq + 1; j < len(run.Recs); j++ {
		if run.Recs[j].Kind == host.KSetValue {
			c.Violate(keyOf("setvalue-after-fault", eff, c28Marker(run.Recs, eff.AtSeq)),
				desc(eff)+"; SetValue was issued afterwards",
				wit(eff.AtSeq, "no ledger write after the failed host call", run.Recs[j].String()))
			break
		}
	}
	return run, true
}

func c28Faultable(k host.Kind) bool { return k != host.KOwnerChanged }

// every faultable callback kind of the host interface that Cadence can reach (ImplementationDebugLog and
// ValueExists have no call site in the runtime or atree; ResourceOwnerChanged has no error result and is not a
// fault point of the host)
var c28Kinds = []host.Kind{
	host.KGetValue, host.KSetValue, host.KAllocSlab, host.KLog, host.KEmit, host.KUUID, host.KAccountID,
	host.KGetCode, host.KGetProgram, host.KResolve, host.KGetContract, host.KUpdateContract, host.KRemoveContract,
	host.KContractNames, host.KSigners, host.KDecodeArg, host.KBlockHeight, host.KBlockAt, host.KRandom, host.KVerifySig,
	host.KHash, host.KBalance, host.KAvailBalance, host.KStorageUsed, host.KStorageCap, host.KValidateKey, host.KCreateAccount,
	host.KAddKey, host.KGetKey, host.KKeysCount, host.KRevokeKey, host.KBLSPop, host.KBLSAggSig, host.KBLSAggKey,
	host.KRecover, host.KCapGet, host.KCapPublish, host.KMinVersion,
}

func c28Engines(tier string) []host.Engine { return host.AllEngines }

func init() {
	floors := map[string]int64{
		"programs_faultfree_ok":               10,
		"outcome_error_carrying_host_failure": 2000,
		"exception_tryupdate_unsuccessful_result": 5,
		"exception_invalid_public_key_user_error": 3,
		"fired_mode_error-return":             500,
		"fired_mode_panic-error":              500,
		"fired_mode_panic-nonerror":           500,
		"double_faults_fired":                 20,
		"owner_changed_seen":                  5,
	}
	for _, k := range c28Kinds {
		for _, m := range c28Modes {
			floors["fired_"+string(k)+"_"+m.String()] = 1
		}
	}
	core.Register(&core.Prop{
		ID:    "C28",
		Level: "fault_enumeration",
		Rule: "corpus = every snippet of a 24-snippet pool alone (transactions and scripts), special programs (string-location import, import needing program recovery, two signers, script-declared types) and seeded random compositions of 2-5 snippets; " +
			"a case is one (program, engine): the fault-free callback trace is recorded (reads included) and EVERY call index is failed in each of the 3 modes (error return, panic(error), panic(non-error)) from a clone of the same pre-state; " +
			"double faults: for every single-fault run that makes further host calls after the fault, each of (up to 6 of) those calls is failed as well; distinct = (program, engine, call index, mode), non-trivial = the planned fault fired after an identical trace prefix",
		Assumptions: []string{
			"the injected failure is identified in the returned error chain by walking Unwrap()/ChildErrors(): *host.Sentinel for error modes, errors.ExternalNonError{Recovered: host.NonErrorPanic} for non-error panics; the class of the outer error is not part of the oracle",
			"documented exceptions: ValidatePublicKey error return => user-class InvalidPublicKeyError; failures between the program's TU-BEGIN/TU-END log markers (inside contracts.tryUpdate) => either a carried error or a logged unsuccessful DeploymentResult",
			"ResourceOwnerChanged (no error result, called inside atree mutation) is not a fault point of the host; ImplementationDebugLog and ValueExists have no call site in the runtime",
			"GetOrLoadProgram faults fail the lookup itself (before the load callback runs)",
		},
		NumCases: func(tier string) int {
			return (len(c28BasePrograms()) + c28NumRandom(tier)) * len(c28Engines(tier))
		},
		Floors: floors,
		Run:    c28RunCase,
		Finalize: func(a *core.Agg) {
			if d := a.Counters["replay_diverged"]; d*50 > a.Evals {
				a.Inconclusive = append(a.Inconclusive, fmt.Sprintf("replay diverged before the fault in %d of %d runs", d, a.Evals))
			}
		},
	})
}

func c28RunCase(c *core.Ctx) {
	engs := c28Engines(c.Tier)
	pi := c.Case / len(engs)
	eng := engs[c.Case%len(engs)]
	p := c28Program(pi, c.Seed, c.Tier)

	base := c28Exec(p, eng, nil)
	c.Eval(1)
	if base.Out.Escaped != nil {
		c.Violate("faultfree-escaped:"+p.Name, "panic escaped a fault-free run", map[string]any{"program": p.Src, "panic": fmt.Sprint(base.Out.Escaped)})
		return
	}
	if base.Out.Err != nil {
		c.Inc("programs_faultfree_fail")
		if !p.ExpectFail && !strings.Contains(p.Name, "+") {
			// a base program of the corpus is broken: harness problem, make it loud
			c.Violate("corpus-broken:"+p.Name, "base corpus program fails fault-free: "+host.ErrText(base.Out), map[string]any{"program": p.Src, "engine": eng.String()})
			return
		}
	} else {
		c.Inc("programs_faultfree_ok")
	}
	// determinism of the fault-free trace itself
	again := c28Exec(p, eng, nil)
	if len(again.Recs) != len(base.Recs) {
		c.Inc("replay_diverged")
		return
	}
	for _, r := range base.Recs {
		c.Inc("calls_" + string(r.Kind))
		if r.Kind == host.KOwnerChanged {
			c.Inc("owner_changed_seen")
		}
	}
	c.Max("trace_length", int64(len(base.Recs)))
	if c.WantSample() && c.Case%7 == 0 {
		kinds := map[string]int{}
		for _, r := range base.Recs {
			kinds[string(r.Kind)]++
		}
		c.Sample(map[string]any{"program": p.Name, "engine": eng.String(), "source": p.Src, "calls": len(base.Recs), "kinds": kinds})
	}

	doubleBudget := c.Pick(40, 120)
	for i := range base.Recs {
		if !c28Faultable(base.Recs[i].Kind) {
			continue
		}
		for _, m := range c28Modes {
			f := host.Fault{AtSeq: i, Mode: m}
			run, ok := c28Check(c, p, eng, base, []host.Fault{f})
			if !ok {
				continue
			}
			c.Distinct(fmt.Sprintf("%s|%s|%d|%d", p.Src, eng, i, m))
			// double faults: fail a host call made after (because of, or despite) the first failure
			if doubleBudget <= 0 {
				continue
			}
			var later []int
			for j := i + 1; j < len(run.Recs); j++ {
				if c28Faultable(run.Recs[j].Kind) {
					later = append(later, j)
				}
			}
			if len(later) == 0 {
				continue
			}
			c.Inc("single_runs_with_calls_after_fault")
			sort.Ints(later)
			step := 1
			if len(later) > 6 {
				step = len(later) / 6
			}
			for x := 0; x < len(later) && doubleBudget > 0; x += step {
				j := later[x]
				m2 := c28Modes[(i+j+int(m))%len(c28Modes)]
				doubleBudget--
				if _, ok := c28Check(c, p, eng, base, []host.Fault{f, {AtSeq: j, Mode: m2}}); ok {
					c.Distinct(fmt.Sprintf("%s|%s|%d|%d|%d|%d", p.Src, eng, i, m, j, m2))
				}
			}
		}
	}
}
