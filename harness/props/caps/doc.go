// Package caps holds the checks of group caps (see harness/groups.txt).
package caps
