package caps

import (
	"encoding/hex"
	"fmt"
	"sort"
	"strings"

	"github.com/onflow/cadence"
	"github.com/onflow/cadence/common"
	"github.com/onflow/cadence/stdlib"

	"verif/harness/host"
)

// cloneHost copies the persistent state of a host (ledger, slab indices, contract code store, UUID and
// account-id counters, keys) into a fresh host with an empty trace. Every run of a history / fault plan
// starts from such a clone so that runs are independent of each other.
func cloneHost(h *host.Host) *host.Host {
	n := host.New()
	n.Ledger = h.Ledger.Clone()
	for k, v := range h.Codes {
		n.Codes[k] = append([]byte(nil), v...)
	}
	n.UUID = h.UUID
	for k, v := range h.AccountIDs {
		n.AccountIDs[k] = v
	}
	for k, v := range h.Keys {
		n.Keys[k] = append([]*stdlib.AccountKey(nil), v...)
	}
	n.NextAccount = h.NextAccount
	n.Height = h.Height
	n.KeyValidationError = h.KeyValidationError
	n.RecordReads = h.RecordReads
	return n
}

// restoreHost rolls the persistent state of h back to snapshot s (what a transactional host does for a
// failed transaction).
func restoreHost(h, s *host.Host) {
	c := cloneHost(s)
	h.Ledger = c.Ledger
	h.Codes = c.Codes
	h.UUID = c.UUID
	h.AccountIDs = c.AccountIDs
	h.Keys = c.Keys
	h.NextAccount = c.NextAccount
}

func codesDump(codes map[string][]byte) []string {
	var ks []string
	for k, v := range codes {
		if len(v) > 0 {
			ks = append(ks, k)
		}
	}
	sort.Strings(ks)
	out := make([]string, len(ks))
	for i, k := range ks {
		out[i] = k + "=" + hex.EncodeToString(codes[k])
	}
	return out
}

func addrs(ns ...uint64) []common.Address {
	out := make([]common.Address, len(ns))
	for i, n := range ns {
		out[i] = host.Addr(n)
	}
	return out
}

func hexLit(code string) string { return fmt.Sprintf("\"%x\".decodeHex()", code) }

// eventStrings renders emitted events canonically (type id + fields).
func eventStrings(evs []cadence.Event) []string {
	out := make([]string, len(evs))
	for i, e := range evs {
		out[i] = e.String()
	}
	return out
}

func clipLines(ls []string, n int) []string {
	if len(ls) > n {
		return append(append([]string(nil), ls[:n]...), fmt.Sprintf("… (%d more)", len(ls)-n))
	}
	return ls
}

func indent(s, pad string) string {
	ls := strings.Split(s, "\n")
	for i := range ls {
		ls[i] = pad + ls[i]
	}
	return strings.Join(ls, "\n")
}
