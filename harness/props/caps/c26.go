package caps

import (
	"crypto/sha3"
	"fmt"
	"sort"
	"strings"

	"verif/harness/core"
	"verif/harness/host"
)

// C26 — contract deployment, update and removal follow the lifecycle model.
//
// A history is a sequence of transactions over 3 accounts and 3 contract names. Lifecycle transactions call
// contracts.add / update / tryUpdate / remove / get / borrow / names (each operation logs its result in a
// canonical form); call transactions import deployed contracts on a fresh runtime and call into them. A Go
// model (per account: name -> source variant, stored contract state) predicts every log line, which
// transactions fail, the host-side code store after every transaction and the AccountContract* events.

// ---------------------------------------------------------------- source pool

// A source variant is described by hand-written attributes; the update-compatibility table is derived from
// these attributes with the documented update rules (not from the validator).
type c26Variant struct {
	ID        string
	Valid     bool // parses, checks, declares exactly one contract / interface with the right name
	Interface bool
	Fields    map[string]string // field name -> type
	Nested    map[string]string // nested declaration name -> kind
	EnumCases []string          // cases of nested enum E (if any)
	StrFamily bool              // x is a String (bump appends "!")
	InitArg   bool              // init(v: Int)
	InitPanic bool
	InitX     int
	Src       func(name string) string
}

func c26Body(name, tag string, extra string, init string) string {
	return fmt.Sprintf(`access(all) contract %s {
    access(all) var x: Int
%s
    access(all) fun tag(): String { return "%s/%s" }
    access(all) fun bump(): Int { self.x = self.x + 1; return self.x }
    %s
}`, name, extra, name, tag, init)
}

var c26Variants = []*c26Variant{
	{ID: "P0", Valid: true, Fields: map[string]string{"x": "Int"}, InitX: 10,
		Src: func(n string) string { return c26Body(n, "P0", "", "init() { self.x = 10 }") }},
	{ID: "P1", Valid: true, Fields: map[string]string{"x": "Int"}, InitX: 11,
		Src: func(n string) string { return c26Body(n, "P1", "    // body changed", "init() { self.x = 11 }") }},
	{ID: "P2", Valid: true, Fields: map[string]string{"x": "Int"}, InitX: 12,
		Src: func(n string) string {
			return c26Body(n, "P2", "    access(all) fun extra(): Int { return 2 }", "init() { self.x = 12 }")
		}},
	{ID: "F", Valid: true, Fields: map[string]string{"x": "Int", "y": "Int"}, InitX: 20,
		Src: func(n string) string {
			return c26Body(n, "F", "    access(all) var y: Int", "init() { self.x = 20; self.y = 1 }")
		}},
	{ID: "E0", Valid: true, Fields: map[string]string{"x": "Int"}, Nested: map[string]string{"E": "enum"}, EnumCases: []string{"a", "b"}, InitX: 30,
		Src: func(n string) string {
			return c26Body(n, "E0", "    access(all) enum E: UInt8 { access(all) case a; access(all) case b }", "init() { self.x = 30 }")
		}},
	{ID: "E1", Valid: true, Fields: map[string]string{"x": "Int"}, Nested: map[string]string{"E": "enum"}, EnumCases: []string{"a", "b", "c"}, InitX: 31,
		Src: func(n string) string {
			return c26Body(n, "E1", "    access(all) enum E: UInt8 { access(all) case a; access(all) case b; access(all) case c }", "init() { self.x = 31 }")
		}},
	{ID: "S", Valid: true, Fields: map[string]string{"x": "Int"}, Nested: map[string]string{"S": "struct", "R": "resource"}, InitX: 40,
		Src: func(n string) string {
			return c26Body(n, "S", "    access(all) struct S { access(all) let a: Int; init() { self.a = 1 } }\n    access(all) resource R { }", "init() { self.x = 40 }")
		}},
	// an enum that is NOT the first nested declaration (removal must still be refused)
	{ID: "SE", Valid: true, Fields: map[string]string{"x": "Int"}, Nested: map[string]string{"S": "struct", "R": "resource", "E": "enum"}, EnumCases: []string{"a", "b"}, InitX: 41,
		Src: func(n string) string {
			return c26Body(n, "SE", "    access(all) event Made(v: Int)\n    access(all) struct S { access(all) let a: Int; init() { self.a = 1 } }\n    access(all) resource R { }\n    access(all) enum E: UInt8 { access(all) case a; access(all) case b }", "init() { self.x = 41 }")
		}},
	{ID: "G", Valid: true, Fields: map[string]string{"x": "Int"}, InitArg: true,
		Src: func(n string) string { return c26Body(n, "G", "", "init(v: Int) { self.x = v }") }},
	{ID: "X", Valid: true, Fields: map[string]string{"x": "Int"}, InitPanic: true,
		Src: func(n string) string { return c26Body(n, "X", "", "init() { self.x = 1; panic(\"init fails\") }") }},
	{ID: "T", Valid: true, Fields: map[string]string{"x": "String"}, StrFamily: true,
		Src: func(n string) string {
			return fmt.Sprintf(`access(all) contract %s {
    access(all) var x: String
    access(all) fun tag(): String { return "%s/T" }
    access(all) fun bump(): Int { self.x = self.x.concat("!"); return self.x.length }
    init() { self.x = "" }
}`, n, n)
		}},
	{ID: "I0", Valid: true, Interface: true,
		Src: func(n string) string { return fmt.Sprintf("access(all) contract interface %s { }", n) }},
	{ID: "I1", Valid: true, Interface: true,
		Src: func(n string) string {
			return fmt.Sprintf("access(all) contract interface %s { access(all) fun tag(): String }", n)
		}},
	// invalid sources
	{ID: "bad-parse", Src: func(n string) string { return fmt.Sprintf("access(all) contract %s { access(all) var x: Int", n) }},
	{ID: "bad-type", Src: func(n string) string {
		return fmt.Sprintf("access(all) contract %s { access(all) var x: Int; init() { self.x = \"s\" } }", n)
	}},
	{ID: "bad-name", Src: func(n string) string { return c26Body(n+"Other", "other", "", "init() { self.x = 1 }") }},
	{ID: "bad-two", Src: func(n string) string {
		return c26Body(n, "two", "", "init() { self.x = 1 }") + "\naccess(all) contract " + n + "Second { init() {} }"
	}},
	{ID: "bad-none", Src: func(n string) string { return "access(all) fun notAContract(): Int { return 1 }" }},
}

func c26VariantByID(id string) *c26Variant {
	for _, v := range c26Variants {
		if v.ID == id {
			return v
		}
	}
	panic("no variant " + id)
}

// c26Compatible is the hand-written update rule for the variant universe: same declaration kind; no field
// added, common fields keep their type (removing a field is allowed); every old nested declaration is still
// declared with the same kind (adding is allowed); enum cases of the old version are a prefix of the new ones.
func c26Compatible(old, nw *c26Variant) bool {
	if !nw.Valid {
		return false
	}
	if old.Interface != nw.Interface {
		return false
	}
	for f, t := range nw.Fields {
		ot, ok := old.Fields[f]
		if !ok || ot != t {
			return false
		}
	}
	for n, k := range old.Nested {
		if nw.Nested[n] != k {
			return false
		}
	}
	if len(nw.EnumCases) < len(old.EnumCases) {
		return false
	}
	for i, c := range old.EnumCases {
		if nw.EnumCases[i] != c {
			return false
		}
	}
	return true
}

// ---------------------------------------------------------------- model

type c26Contract struct {
	Variant *c26Variant
	Code    string
	// stored contract value (non-interface): counter family
	HasValue bool
	Str      bool
	X        int
}

type c26Key struct {
	Acct uint64
	Name string
}

type c26State map[c26Key]*c26Contract

func (s c26State) clone() c26State {
	n := c26State{}
	for k, v := range s {
		c := *v
		n[k] = &c
	}
	return n
}

func (s c26State) names(acct uint64) []string {
	var ns []string
	for k := range s {
		if k.Acct == acct {
			ns = append(ns, k.Name)
		}
	}
	sort.Strings(ns)
	return ns
}

func (s c26State) codes() []string {
	m := map[string][]byte{}
	for k, v := range s {
		m[fmt.Sprintf("A.%s.%s", host.Addr(k.Acct).Hex(), k.Name)] = []byte(v.Code)
	}
	return codesDump(m)
}

var c26Accounts = []uint64{1, 2, 3}
var c26Names = []string{"A", "B", "C"}

type c26Op struct {
	Kind    string // add update tryUpdate remove get names borrow call callBorrow
	Acct    uint64 // target account (== signer for mutating operations)
	Name    string
	Variant string
	WithArg bool // add passes v: 5
	Flags   string
}

type c26Tx struct {
	Signer uint64
	Ops    []c26Op
	Abort  bool // panic at the end
	Call   bool // pure call transaction (imports)
	Imports []c26Key
}

type c26Expect struct {
	OK     bool
	Logs   []string // "?" suffix entries accept true/false
	Events []string
	FailAt int // index of the op expected to fail (-1: the injected abort / import failure)
	FailOp string
	Ctx    []string // per operation: model context (used in violation keys)
}

func c26EventString(kind string, acct uint64, code string, name string) string {
	h := sha3.Sum256([]byte(code))
	parts := make([]string, len(h))
	for i, b := range h {
		parts[i] = fmt.Sprint(b)
	}
	return fmt.Sprintf("flow.AccountContract%s(address: 0x%s, codeHash: [%s], contract: \"%s\")", kind, host.Addr(acct).Hex(), strings.Join(parts, ", "), name)
}

// c26Apply predicts one transaction on state st (committed state); returns the expectation and the new
// committed state.
func c26Apply(st c26State, tx c26Tx) (c26Expect, c26State) {
	exp := c26Expect{OK: true, FailAt: -1}
	cur := st.clone()
	added := map[c26Key]bool{}
	if tx.Call {
		for _, im := range tx.Imports {
			if _, ok := st[im]; !ok {
				// import of a missing contract: checking fails, nothing runs
				return c26Expect{OK: false, FailAt: -1, FailOp: "import-missing"}, st
			}
		}
	}
	logf := func(i int, kind, res string) {
		exp.Logs = append(exp.Logs, fmt.Sprintf("%d:%s:%s", i, kind, res))
	}
	fail := func(i int, op c26Op) (c26Expect, c26State) {
		exp.OK = false
		exp.FailAt = i
		exp.FailOp = op.Kind + ":" + op.Flags
		exp.Events = nil
		return exp, st
	}
	for i, op := range tx.Ops {
		k := c26Key{op.Acct, op.Name}
		existing := cur[k]
		ctx := op.Flags
		switch {
		case op.Kind == "borrow" || op.Kind == "get":
			switch {
			case existing == nil:
				ctx = "missing"
			case added[k]:
				ctx = "added-in-same-tx"
			case existing.Variant.Interface:
				ctx = "interface"
			default:
				ctx = "deployed"
			}
		}
		exp.Ctx = append(exp.Ctx, ctx)
		switch op.Kind {
		case "add":
			v := c26VariantByID(op.Variant)
			code := v.Src(op.Name)
			if existing != nil || !v.Valid || v.InitPanic || (v.InitArg != op.WithArg && !v.Interface) {
				return fail(i, op)
			}
			c := &c26Contract{Variant: v, Code: code}
			if !v.Interface {
				c.HasValue = true
				c.Str = v.StrFamily
				c.X = v.InitX
				if v.InitArg {
					c.X = 5
				}
			}
			cur[k] = c
			added[k] = true
			exp.Events = append(exp.Events, c26EventString("Added", op.Acct, code, op.Name))
			logf(i, "add", op.Name)
		case "update", "tryUpdate":
			v := c26VariantByID(op.Variant)
			code := v.Src(op.Name)
			ok := existing != nil && c26Compatible(existing.Variant, v)
			if !ok {
				if op.Kind == "update" {
					return fail(i, op)
				}
				logf(i, "tryUpdate", "nil")
				continue
			}
			existing.Variant = v
			existing.Code = code
			exp.Events = append(exp.Events, c26EventString("Updated", op.Acct, code, op.Name))
			logf(i, op.Kind, op.Name)
		case "remove":
			if existing == nil {
				logf(i, "remove", "nil")
				continue
			}
			if existing.Variant.Nested["E"] == "enum" {
				return fail(i, op)
			}
			delete(cur, k)
			delete(added, k)
			exp.Events = append(exp.Events, c26EventString("Removed", op.Acct, existing.Code, op.Name))
			logf(i, "remove", op.Name)
		case "get":
			if existing == nil {
				logf(i, "get", "nil")
			} else {
				logf(i, "get", op.Name+"/"+fmt.Sprintf("%x", existing.Code))
			}
		case "names":
			ns := ""
			for _, n := range cur.names(op.Acct) {
				ns += n + ","
			}
			logf(i, "names", ns)
		case "borrow":
			switch {
			case existing == nil || !existing.HasValue:
				logf(i, "borrow", "false")
			case added[k]:
				// the contract value of a contract added in this transaction is written at the end of the
				// transaction; the statement does not say whether borrow sees it: accept both answers
				logf(i, "borrow", "?")
			default:
				logf(i, "borrow", "true")
			}
		case "call":
			// pure call transaction: the imported program is the committed one
			c := cur[k]
			c.X++
			logf(i, "call", fmt.Sprintf("%s/%s/%d", op.Name, c.Variant.ID, c.X))
		case "callBorrow":
			// borrow<&N>(name: M) through an import of N
			other := c26Key{op.Acct, op.Flags}
			if op.Flags == op.Name {
				logf(i, "callBorrow", fmt.Sprintf("%s/%s", op.Name, cur[k].Variant.ID))
			} else {
				// missing, an interface, or a contract of another type: never a &N
				_ = other
				logf(i, "callBorrow", "nil")
			}
		}
	}
	if tx.Abort {
		exp.OK = false
		exp.FailAt = len(tx.Ops)
		exp.FailOp = "abort"
		exp.Events = nil
		return exp, st
	}
	return exp, cur
}

// ---------------------------------------------------------------- rendering

func c26Render(tx c26Tx) string {
	var b strings.Builder
	for _, im := range tx.Imports {
		fmt.Fprintf(&b, "import %s from 0x%s\n", im.Name, host.Addr(im.Acct).Hex())
	}
	b.WriteString("transaction {\n    prepare(s: auth(Contracts) &Account) {\n")
	for i, op := range tx.Ops {
		target := "s"
		if op.Acct != tx.Signer {
			target = fmt.Sprintf("getAccount(0x%s)", host.Addr(op.Acct).Hex())
		}
		p := fmt.Sprintf("\"%d:%s:\"", i, op.Kind)
		switch op.Kind {
		case "add":
			arg := ""
			if op.WithArg {
				arg = ", v: 5"
			}
			fmt.Fprintf(&b, "        let r%d = s.contracts.add(name: \"%s\", code: %s%s)\n        log(%s.concat(r%d.name))\n", i, op.Name, hexLit(c26VariantByID(op.Variant).Src(op.Name)), arg, p, i)
		case "update":
			fmt.Fprintf(&b, "        let r%d = s.contracts.update(name: \"%s\", code: %s)\n        log(%s.concat(r%d.name))\n", i, op.Name, hexLit(c26VariantByID(op.Variant).Src(op.Name)), p, i)
		case "tryUpdate":
			fmt.Fprintf(&b, "        let r%d = s.contracts.tryUpdate(name: \"%s\", code: %s)\n        log(%s.concat(r%d.deployedContract?.name ?? \"nil\"))\n", i, op.Name, hexLit(c26VariantByID(op.Variant).Src(op.Name)), p, i)
		case "remove":
			fmt.Fprintf(&b, "        let r%d = s.contracts.remove(name: \"%s\")\n        log(%s.concat(r%d?.name ?? \"nil\"))\n", i, op.Name, p, i)
		case "get":
			fmt.Fprintf(&b, "        let r%d = %s.contracts.get(name: \"%s\")\n        log(%s.concat(r%d == nil ? \"nil\" : r%d!.name.concat(\"/\").concat(String.encodeHex(r%d!.code))))\n", i, target, op.Name, p, i, i, i)
		case "names":
			fmt.Fprintf(&b, "        var n%d = \"\"\n        for nm in %s.contracts.names { n%d = n%d.concat(nm).concat(\",\") }\n        log(%s.concat(n%d))\n", i, target, i, i, p, i)
		case "borrow":
			fmt.Fprintf(&b, "        log(%s.concat(%s.contracts.borrow<&AnyStruct>(name: \"%s\") != nil ? \"true\" : \"false\"))\n", p, target, op.Name)
		case "call":
			fmt.Fprintf(&b, "        log(%s.concat(%s.tag()).concat(\"/\").concat(%s.bump().toString()))\n", p, op.Name, op.Name)
		case "callBorrow":
			fmt.Fprintf(&b, "        log(%s.concat(getAccount(0x%s).contracts.borrow<&%s>(name: \"%s\")?.tag() ?? \"nil\"))\n", p, host.Addr(op.Acct).Hex(), op.Name, op.Flags)
		}
	}
	if tx.Abort {
		b.WriteString("        panic(\"abort\")\n")
	}
	b.WriteString("    }\n}\n")
	return b.String()
}

// ---------------------------------------------------------------- generation

func c26GenHistory(c *core.Ctx, ntx int) []c26Tx {
	rng := c.Rng
	st := c26State{}
	var txs []c26Tx
	validIDs := []string{"P0", "P1", "P2", "F", "E0", "E1", "S", "SE", "G", "T", "I0", "I1", "X"}
	badIDs := []string{"bad-parse", "bad-type", "bad-name", "bad-two", "bad-none"}
	for t := 0; t < ntx; t++ {
		signer := c26Accounts[rng.IntN(len(c26Accounts))]
		if rng.IntN(3) == 0 && len(st) > 0 {
			// call transaction
			tx := c26Tx{Signer: signer, Call: true}
			var have []c26Key
			for _, a := range c26Accounts {
				for _, n := range c26Names {
					if cc, ok := st[c26Key{a, n}]; ok && cc.HasValue {
						have = append(have, c26Key{a, n})
					}
				}
			}
			if len(have) == 0 {
				continue
			}
			// imports must have distinct names
			rng.Shuffle(len(have), func(i, j int) { have[i], have[j] = have[j], have[i] })
			seen := map[string]bool{}
			for _, k := range have {
				if !seen[k.Name] && len(tx.Imports) < 2 {
					seen[k.Name] = true
					tx.Imports = append(tx.Imports, k)
				}
			}
			if rng.IntN(12) == 0 {
				// import of a missing contract
				for _, a := range c26Accounts {
					for _, n := range c26Names {
						if _, ok := st[c26Key{a, n}]; !ok && !seen[n] {
							tx.Imports = append(tx.Imports, c26Key{a, n})
							seen[n] = true
						}
					}
					if len(tx.Imports) > 2 {
						break
					}
				}
			}
			for _, im := range tx.Imports {
				if cc, ok := st[im]; ok && cc.HasValue {
					for r := 0; r < 1+rng.IntN(2); r++ {
						tx.Ops = append(tx.Ops, c26Op{Kind: "call", Acct: im.Acct, Name: im.Name})
					}
					other := c26Names[rng.IntN(len(c26Names))]
					if rng.IntN(2) == 0 {
						other = im.Name
					}
					tx.Ops = append(tx.Ops, c26Op{Kind: "callBorrow", Acct: im.Acct, Name: im.Name, Flags: other})
				}
			}
			tx.Abort = rng.IntN(6) == 0
			_, st = c26Apply(st, tx)
			txs = append(txs, tx)
			continue
		}
		tx := c26Tx{Signer: signer}
		cur := st.clone()
		removed := map[c26Key]bool{}
		nops := 1 + rng.IntN(4)
		for i := 0; i < nops; i++ {
			name := c26Names[rng.IntN(len(c26Names))]
			k := c26Key{signer, name}
			existing := cur[k]
			op := c26Op{Acct: signer, Name: name}
			switch r := rng.IntN(20); {
			case r < 6:
				op.Kind = "add"
				if removed[k] {
					// add after remove of the same name within one transaction is refused by design
					// ("no contract deploy or update was recorded before"); outside the statement
					op.Kind = "names"
					break
				}
				if existing != nil && rng.IntN(4) != 0 {
					// prefer a free name
					for _, n := range c26Names {
						if cur[c26Key{signer, n}] == nil && !removed[c26Key{signer, n}] {
							op.Name = n
							break
						}
					}
				}
				op.Variant = validIDs[rng.IntN(len(validIDs))]
				if rng.IntN(6) == 0 {
					op.Variant = badIDs[rng.IntN(len(badIDs))]
				}
				v := c26VariantByID(op.Variant)
				op.WithArg = v.InitArg
				if rng.IntN(10) == 0 && v.Valid && !v.Interface {
					op.WithArg = !op.WithArg
				}
				op.Flags = op.Variant
			case r < 12:
				op.Kind = "update"
				if rng.IntN(2) == 0 {
					op.Kind = "tryUpdate"
				}
				if existing == nil && rng.IntN(5) != 0 {
					for _, n := range c26Names {
						if cur[c26Key{signer, n}] != nil {
							op.Name = n
							existing = cur[c26Key{signer, n}]
							break
						}
					}
				}
				op.Variant = validIDs[rng.IntN(len(validIDs))]
				if existing != nil && rng.IntN(4) != 0 {
					// prefer a compatible variant
					var comp []string
					for _, id := range validIDs {
						if c26Compatible(existing.Variant, c26VariantByID(id)) {
							comp = append(comp, id)
						}
					}
					if len(comp) > 0 {
						op.Variant = comp[rng.IntN(len(comp))]
					}
				}
				if rng.IntN(7) == 0 {
					op.Variant = badIDs[rng.IntN(len(badIDs))]
				}
				if existing != nil {
					op.Flags = existing.Variant.ID + "->" + op.Variant
				} else {
					op.Flags = "missing"
				}
			case r < 15:
				op.Kind = "remove"
				if existing != nil {
					op.Flags = existing.Variant.ID
				} else {
					op.Flags = "missing"
				}
			default:
				op.Kind = []string{"get", "names", "borrow"}[rng.IntN(3)]
				if rng.IntN(3) == 0 {
					op.Acct = c26Accounts[rng.IntN(len(c26Accounts))]
				}
				if op.Kind == "borrow" && cur[c26Key{op.Acct, op.Name}] != nil && st[c26Key{op.Acct, op.Name}] == nil && rng.IntN(4) != 0 {
					// borrow of a contract added in this transaction: keep it rare (outcome left open by the model)
					op.Kind = "get"
				}
			}
			k = c26Key{op.Acct, op.Name}
			tx.Ops = append(tx.Ops, op)
			// track the in-transaction state for generation purposes
			probe := c26Tx{Signer: signer, Ops: tx.Ops}
			e, after := c26Apply(st, probe)
			if !e.OK {
				// the transaction will fail here; occasionally add one more (never executed) operation
				if rng.IntN(3) == 0 {
					tx.Ops = append(tx.Ops, c26Op{Kind: "names", Acct: signer})
				}
				break
			}
			if op.Kind == "remove" && cur[k] != nil {
				removed[k] = true
			}
			cur = after
		}
		tx.Abort = rng.IntN(6) == 0
		_, st = c26Apply(st, tx)
		txs = append(txs, tx)
	}
	return txs
}

// ---------------------------------------------------------------- check

func c26LogsMatch(exp, got []string) (int, bool) {
	n := len(exp)
	if len(got) > n {
		n = len(got)
	}
	for i := 0; i < n; i++ {
		if i >= len(exp) || i >= len(got) {
			return i, false
		}
		e := exp[i]
		if strings.HasSuffix(e, ":?") {
			p := strings.TrimSuffix(e, "?")
			if got[i] != p+"true" && got[i] != p+"false" {
				return i, false
			}
			continue
		}
		if e != got[i] {
			return i, false
		}
	}
	return 0, true
}

func c26OpOfLog(tx c26Tx, line string) c26Op {
	var idx int
	if _, err := fmt.Sscanf(line, "%d:", &idx); err == nil && idx >= 0 && idx < len(tx.Ops) {
		return tx.Ops[idx]
	}
	return c26Op{Kind: "?"}
}

func c26Run(c *core.Ctx) {
	ntx := 8
	per := c.Pick(4, 10)
	for hi := 0; hi < per; hi++ {
		txs := c26GenHistory(c, ntx)
		var srcs []string
		for _, tx := range txs {
			srcs = append(srcs, c26Render(tx))
		}
		c.Distinct(strings.Join(srcs, "\n---\n"))
		if hi == 0 && c.WantSample() {
			c.Sample(map[string]any{"history": srcs})
		}
		for _, eng := range host.AllEngines {
			c26RunHistory(c, eng, txs, srcs)
		}
	}
}

func c26RunHistory(c *core.Ctx, eng host.Engine, txs []c26Tx, srcs []string) {
	h := host.New()
	st := c26State{}
	for ti, tx := range txs {
		exp, next := c26Apply(st, tx)
		snap := cloneHost(h)
		h.ResetTrace()
		out := h.RunTx(eng, srcs[ti], nil, addrs(tx.Signer), nil)
		c.Eval(1)
		for _, op := range tx.Ops {
			c.Inc("op_" + op.Kind)
		}
		logs := make([]string, len(h.Logs))
		for i, l := range h.Logs {
			logs[i] = strings.Trim(l, "\"")
		}
		wit := func(what, expected, observed string) map[string]any {
			return map[string]any{"engine": eng.String(), "tx_index": ti, "history": srcs[:ti+1], "what": what,
				"expected": expected, "observed": observed, "expected_logs": exp.Logs, "observed_logs": logs, "error": host.ErrText(out)}
		}
		cls := host.Classify(out)
		if cls == host.ClassInternal || cls == host.ClassEscaped || cls == host.ClassExternal {
			// never predicted by the model
			last := "start"
			if len(logs) < len(tx.Ops) {
				last = tx.Ops[len(logs)].Kind
				if len(logs) < len(exp.Ctx) {
					last += ":" + exp.Ctx[len(logs)]
				}
			}
			c.Violate(fmt.Sprintf("%s-error:%s:%s", cls, last, engFamily(eng)),
				fmt.Sprintf("engine %s: lifecycle transaction %d failed with an %s error", eng, ti, cls),
				wit("error class", "success or user error", string(cls)))
			return
		}
		ok := out.Err == nil
		if ok != exp.OK {
			c.Inc("mismatch_outcome")
			opk := exp.FailOp
			if exp.OK {
				// which operation failed? the first one without a log line
				opk = "?"
				if len(logs) < len(tx.Ops) {
					op := tx.Ops[len(logs)]
					opk = op.Kind + ":" + op.Flags
				}
			}
			c.Violate(fmt.Sprintf("outcome:expected-%v:%s", exp.OK, opk),
				fmt.Sprintf("engine %s: transaction %d: model expects success=%v (failing op %q), observed success=%v", eng, ti, exp.OK, exp.FailOp, ok),
				wit("transaction outcome", fmt.Sprint(exp.OK), fmt.Sprint(ok)))
			return
		}
		if i, same := c26LogsMatch(exp.Logs, logs); !same {
			line := ""
			if i < len(exp.Logs) {
				line = exp.Logs[i]
			} else {
				line = logs[i]
			}
			op := c26OpOfLog(tx, line)
			if i < len(exp.Ctx) {
				op.Flags = exp.Ctx[i]
			}
			c.Violate(fmt.Sprintf("result:%s:%s", op.Kind, op.Flags),
				fmt.Sprintf("engine %s: transaction %d: result %d of %s differs from the model", eng, ti, i, op.Kind),
				wit("operation results", fmt.Sprint(exp.Logs), fmt.Sprint(logs)))
			return
		}
		if ok {
			c.Inc("tx_ok")
			if tx.Call {
				c.Inc("call_tx_ok")
			}
			evs := eventStrings(h.Events)
			if strings.Join(evs, "\n") != strings.Join(exp.Events, "\n") {
				c.Violate("events:"+c26LastMutation(tx), fmt.Sprintf("engine %s: transaction %d: AccountContract* events differ from the model", eng, ti),
					wit("events", strings.Join(exp.Events, "\n"), strings.Join(evs, "\n")))
				return
			}
			c.Count("events_checked", int64(len(evs)))
			st = next
		} else {
			c.Inc("tx_failed")
			c.Inc("tx_failed_" + strings.SplitN(exp.FailOp, ":", 2)[0])
			// a transactional host discards the effects of a failed transaction
			restoreHost(h, snap)
		}
		// host-side code store == model
		got := strings.Join(codesDump(h.Codes), "\n")
		want := strings.Join(st.codes(), "\n")
		if got != want {
			c.Violate(fmt.Sprintf("codes:after-%v-tx:%s", ok, c26LastMutation(tx)),
				fmt.Sprintf("engine %s: transaction %d: host code store differs from the model", eng, ti),
				wit("code store", want, got))
			return
		}
		for _, op := range tx.Ops {
			if op.Kind == "tryUpdate" && ok {
				c.Inc("tryupdate_executed")
			}
		}
		for _, l := range exp.Logs {
			if strings.HasSuffix(l, ":tryUpdate:nil") && ok {
				c.Inc("tryupdate_failed_in_ok_tx")
			}
			if strings.Contains(l, ":call:") && ok {
				c.Inc("calls_checked")
			}
		}
	}
	c.Inc("histories_completed")
}

func c26LastMutation(tx c26Tx) string {
	last := "none"
	for _, op := range tx.Ops {
		switch op.Kind {
		case "add", "update", "tryUpdate", "remove":
			last = op.Kind
		}
	}
	return last
}

func engFamily(e host.Engine) string {
	if e == host.EngI {
		return "I"
	}
	return "VM"
}

func init() {
	core.Register(&core.Prop{
		ID: "C26",
		Rule: "seeded histories of 8 transactions over 3 accounts x 3 contract names; lifecycle transactions hold 1-4 operations among contracts.add/update/tryUpdate/remove/get/names/borrow with sources drawn from 13 valid variants (plain versions, added field, retyped field, enums with 2/3 cases, nested struct+resource, nested event+struct+resource followed by an enum, init argument, failing init, contract interfaces) and 5 invalid ones (parse error, type error, name mismatch, two declarations, no declaration); " +
			"call transactions import deployed contracts on a fresh runtime, call tag()/bump() and borrow<&N>; 1/6 of the transactions abort with panic; every history runs on I, V and Vp; distinct = history text",
		Assumptions: []string{
			"the host is transactional: after a failed transaction the harness restores ledger and code store from the pre-transaction snapshot (Cadence updates the host code store immediately during execution)",
			"update compatibility of the fixed variant universe is a hand-written attribute rule (kind kept, no field added or retyped, nested declarations kept, enum cases only appended)",
			"contracts.borrow of a contract added earlier in the same transaction may answer nil or non-nil (its value is written at the end of the transaction); add after remove of the same name within one transaction is not generated (refused by design)",
			"get/names observe code changes of the running transaction immediately; calls into contracts are only made from transactions that do not change contracts",
		},
		NumCases: func(tier string) int {
			if tier == "thorough" {
				return 2500
			}
			return 200
		},
		Floors: map[string]int64{
			"tx_ok": 1000, "tx_failed": 300, "tx_failed_abort": 50, "tx_failed_add": 50, "tx_failed_update": 50, "tx_failed_remove": 10,
			"tryupdate_failed_in_ok_tx": 50, "calls_checked": 300, "events_checked": 500, "histories_completed": 300,
			"op_add": 500, "op_update": 200, "op_tryUpdate": 200, "op_remove": 200, "op_get": 100, "op_names": 100, "op_borrow": 100, "op_call": 200, "op_callBorrow": 100,
		},
		Run: c26Run,
	})
}
