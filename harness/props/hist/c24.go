package hist

import (
	"fmt"
	"sort"
	"strings"

	"github.com/onflow/cadence/common"
	"github.com/onflow/cadence/runtime"

	"verif/harness/core"
	"verif/harness/host"
)

// C24 — failed transactions and all scripts write no ledger registers; successful transactions write only
// after their code has finished, and the writes are sufficient for later fresh reads.
//
// Observation: the ordered host callback log (h.Recs): SetValue records relative to the outcome and to the
// in-program end marker log("__END__").

const c24Marker = "__END__"

const c24Contract = `
access(all) contract F {
    access(all) event Ev(n: Int)
    access(all) var counter: Int
    access(all) resource R {
        access(all) var xs: [Int]
        init() { self.xs = [1, 2, 3] }
    }
    access(all) fun mk(): @R { return <- create R() }
    access(all) fun bump() { self.counter = self.counter + 1; emit Ev(n: self.counter) }
    access(all) fun boom() { panic("BOOM") }
    access(all) fun checked(_ n: Int): Int {
        pre { n > 0: "n must be positive" }
        post { result > 1: "result too small" }
        return n
    }
    init() { self.counter = 0 }
}`

const c24ContractD1 = `access(all) contract D { access(all) var v: [String]; access(all) fun get(): Int { return 1 }; init() { self.v = ["d1"] } }`
const c24ContractD2 = `access(all) contract D { access(all) var v: [String]; access(all) fun get(): Int { return 2 }; init() { self.v = ["d1"] } }`

// ---------------------------------------------------------------- templates

type c24tmpl struct {
	Name      string
	Params    string
	Args      [][]byte
	Signers   int
	Prepare   []string
	Execute   []string
	Pre, Post string
	Populated bool // needs the populated snapshot
	// Verify: read-only script whose single log line must equal Want after a successful run
	Verify string
	Want   string
}

func jsonInt(n int) []byte       { return []byte(fmt.Sprintf(`{"type":"Int","value":"%d"}`, n)) }
func jsonString(s string) []byte { return []byte(fmt.Sprintf(`{"type":"String","value":"%s"}`, s)) }

func hexCode(code string) string { return fmt.Sprintf("%x", code) }

var c24Tmpls = []c24tmpl{
	{
		Name: "save-array", Signers: 1,
		Prepare: []string{`a0.storage.save([1, 2, 3], to: /storage/t1)`},
		Verify:  `log(getAuthAccount<auth(Storage) &Account>(0x1).storage.copy<[Int]>(from: /storage/t1)!.length)`, Want: "3",
	},
	{
		Name: "resource-event-contract-state", Signers: 1,
		Prepare: []string{`let r <- F.mk()`, `a0.storage.save(<- r, to: /storage/t2)`, `F.bump()`},
		Execute: []string{`F.bump()`, `log(F.counter)`},
		Verify:  `log(getAuthAccount<auth(Storage) &Account>(0x1).storage.borrow<&F.R>(from: /storage/t2)!.xs.length + (F.counter >= 2 ? 100 : 0))`, Want: "103",
	},
	{
		Name: "two-signers", Signers: 2,
		Prepare: []string{`a0.storage.save("x", to: /storage/t3)`, `a1.storage.save({"k": 1}, to: /storage/t3)`},
		Verify:  `log(getAuthAccount<auth(Storage) &Account>(0x2).storage.copy<{String: Int}>(from: /storage/t3)!["k"]!)`, Want: "1",
	},
	{
		Name: "contract-add", Signers: 1,
		Prepare: []string{`a0.contracts.add(name: "N", code: "` + hexCode(strings.ReplaceAll(c24ContractD1, "contract D", "contract N")) + `".decodeHex())`},
		Verify:  `log(getAccount(0x1).contracts.names.contains("N"))`, Want: "true",
	},
	{
		Name: "contract-update", Signers: 1, Populated: true,
		Prepare: []string{`a0.contracts.update(name: "D", code: "` + hexCode(c24ContractD2) + `".decodeHex())`},
		Verify:  `log(getAccount(0x1).contracts.get(name: "D")!.code.length)`, Want: fmt.Sprint(len(c24ContractD2)),
	},
	{
		Name: "contract-remove", Signers: 1, Populated: true,
		Prepare: []string{`a0.contracts.remove(name: "D")`},
		Verify:  `log(getAccount(0x1).contracts.names.contains("D"))`, Want: "false",
	},
	{
		Name: "load-destroy-save-big", Signers: 1,
		Prepare: []string{
			`let old <- a0.storage.load<@F.R>(from: /storage/r)`, `destroy old`,
			`var big: [String] = []`, `var i = 0`, `while i < 150 { big.append("0123456789012345678901234567890123456789"); i = i + 1 }`,
			`a0.storage.save(big, to: /storage/t7)`,
		},
		Execute: []string{`F.bump()`},
		Verify:  `log(getAuthAccount<auth(Storage) &Account>(0x1).storage.copy<[String]>(from: /storage/t7)!.length)`, Want: "150",
	},
	{
		Name: "arguments", Signers: 1, Params: "(n: Int, s: String)", Args: [][]byte{jsonInt(42), jsonString("hello")},
		Prepare: []string{`a0.storage.save(n, to: /storage/t8n)`, `a0.storage.save(s, to: /storage/t8s)`},
		Verify:  `log(getAuthAccount<auth(Storage) &Account>(0x1).storage.copy<Int>(from: /storage/t8n)!)`, Want: "42",
	},
	{
		Name: "pre-post-mutate-through-ref", Signers: 1, Pre: "F.counter >= 0", Post: "F.counter > 0", Populated: true,
		Prepare: []string{`let r = a0.storage.borrow<auth(Mutate) &[Int]>(from: /storage/a)!`, `r.append(4)`, `r.remove(at: 0)`},
		Execute: []string{`F.bump()`, `let x = F.checked(2)`},
		Verify:  `log(getAuthAccount<auth(Storage) &Account>(0x1).storage.copy<[Int]>(from: /storage/a)![2])`, Want: "4",
	},
	{
		Name: "capability-issue-publish", Signers: 1, Populated: true,
		Prepare: []string{`let cap = a0.capabilities.storage.issue<&[Int]>(/storage/a)`, `a0.capabilities.publish(cap, at: /public/t10)`},
		Verify:  `log(getAccount(0x1).capabilities.borrow<&[Int]>(/public/t10)!.length)`, Want: "3",
	},
}

// a planted failure
type c24plant struct {
	Mode  string // parse type argcount argtype signers panic assert callee-pre callee-post tx-pre tx-post load-mismatch
	Block string // prepare | execute
	At    int    // statement index the failing statement is inserted before (len = at the end)
}

func (t c24tmpl) render(p *c24plant) (src string, args [][]byte, nsigners int) {
	args = t.Args
	nsigners = t.Signers
	var sb strings.Builder
	sb.WriteString("import F from 0x9\n")
	sb.WriteString("transaction" + t.Params + " {\n")
	prep := append([]string(nil), t.Prepare...)
	exec := append([]string(nil), t.Execute...)
	preC, postC := t.Pre, t.Post
	hasExec := t.Execute != nil
	insert := func(stmt string) {
		if p.Block == "execute" {
			hasExec = true
			at := p.At
			if at > len(exec) {
				at = len(exec)
			}
			exec = append(exec[:at], append([]string{stmt}, exec[at:]...)...)
		} else {
			at := p.At
			if at > len(prep) {
				at = len(prep)
			}
			prep = append(prep[:at], append([]string{stmt}, prep[at:]...)...)
		}
	}
	if p != nil {
		switch p.Mode {
		case "panic":
			insert(`F.boom()`)
		case "assert":
			insert(`assert(F.counter < 0, message: "ASSERT")`)
		case "callee-pre":
			insert(`let zz = F.checked(0)`)
		case "callee-post":
			insert(`let zz = F.checked(1)`)
		case "load-mismatch":
			// something of another type is stored first in the same transaction when the snapshot is fresh
			insert(`a0.storage.save(7, to: /storage/mm); let zz = a0.storage.load<String>(from: /storage/mm)`)
		case "type":
			insert(`let zz: Int = "not an int"`)
		case "tx-pre":
			preC = "F.counter < 0"
		case "tx-post":
			postC = "F.counter < 0"
		case "argcount":
			args = append(append([][]byte(nil), args...), jsonInt(1))
		case "argtype":
			if len(args) > 0 {
				args = append([][]byte{jsonString("wrong")}, args[1:]...)
			} else {
				args = [][]byte{jsonInt(1)}
			}
		case "signers":
			nsigners = t.Signers + 1
		}
	}
	// end marker: last statement of the last block that runs
	if hasExec {
		exec = append(exec, `log("`+c24Marker+`")`)
	} else {
		prep = append(prep, `log("`+c24Marker+`")`)
	}
	sb.WriteString("    prepare(")
	for i := 0; i < t.Signers; i++ {
		if i > 0 {
			sb.WriteString(", ")
		}
		fmt.Fprintf(&sb, "a%d: auth(Storage, Contracts, Capabilities) &Account", i)
	}
	sb.WriteString(") {\n")
	for _, s := range prep {
		sb.WriteString("        " + s + "\n")
	}
	sb.WriteString("    }\n")
	if preC != "" {
		sb.WriteString("    pre { " + preC + ": \"TXPRE\" }\n")
	}
	if hasExec {
		sb.WriteString("    execute {\n")
		for _, s := range exec {
			sb.WriteString("        " + s + "\n")
		}
		sb.WriteString("    }\n")
	}
	if postC != "" {
		sb.WriteString("    post { " + postC + ": \"TXPOST\" }\n")
	}
	sb.WriteString("}\n")
	src = sb.String()
	if p != nil && p.Mode == "parse" {
		switch p.At % 3 {
		case 0:
			src = src[:len(src)-2] // drop the closing brace
		case 1:
			src = strings.Replace(src, "prepare(", "prepare((", 1)
		default:
			src = src + "\n%%%"
		}
	}
	return
}

// ---------------------------------------------------------------- snapshots

type c24snap struct {
	ledger *host.Ledger
	codes  map[string][]byte
	uuid   uint64
}

func c24take(h *host.Host) c24snap {
	codes := make(map[string][]byte, len(h.Codes))
	for k, v := range h.Codes {
		codes[k] = v
	}
	return c24snap{ledger: h.Ledger.Clone(), codes: codes, uuid: h.UUID}
}

func (s c24snap) restore(h *host.Host) {
	h.Ledger = s.ledger.Clone()
	h.Codes = make(map[string][]byte, len(s.codes))
	for k, v := range s.codes {
		h.Codes[k] = v
	}
	h.UUID = s.uuid
	h.Programs = map[common.Location]*runtime.Program{}
	h.ResetTrace()
}

const c24PopulateTx = `import F from 0x9
transaction {
    prepare(a0: auth(Storage) &Account, a1: auth(Storage) &Account) {
        a0.storage.save([1, 2, 3], to: /storage/a)
        a0.storage.save(<- F.mk(), to: /storage/r)
        var big: [String] = []
        var i = 0
        while i < 120 { big.append("abcdefghijklmnopqrstuvwxyzabcdefghijklmnopqrstuvwxyz"); i = i + 1 }
        a0.storage.save(big, to: /storage/big)
        a1.storage.save([4, 5], to: /storage/a)
        F.bump()
    }
}`

// c24world builds a host with contract F (and, when populated, stored values in 0x1/0x2 and contract D at 0x1).
func c24world(eng host.Engine, populated bool) (*host.Host, string) {
	h := host.New()
	if o := h.Deploy(eng, host.Addr(9), "F", c24Contract); o.Err != nil || o.Escaped != nil {
		return nil, "deploy F: " + host.ErrText(o)
	}
	if populated {
		if o := h.RunTx(eng, c24PopulateTx, nil, []common.Address{host.Addr(1), host.Addr(2)}, nil); o.Err != nil || o.Escaped != nil {
			return nil, "populate: " + host.ErrText(o)
		}
		if o := h.Deploy(eng, host.Addr(1), "D", c24ContractD1); o.Err != nil || o.Escaped != nil {
			return nil, "deploy D: " + host.ErrText(o)
		}
	}
	h.ResetTrace()
	return h, ""
}

// ---------------------------------------------------------------- observation helpers

type c24obs struct {
	SetValues    []host.Rec
	FirstSet     int // index in Recs, -1
	MarkerAt     int // index in Recs of the marker log, -1
	AfterFirst   []host.Rec // program-attributable callbacks after the first SetValue
	RegClass     string
	ContractCode int
}

func c24observe(h *host.Host) c24obs {
	o := c24obs{FirstSet: -1, MarkerAt: -1}
	stored, slab, other := 0, 0, 0
	for i, r := range h.Recs {
		switch r.Kind {
		case host.KSetValue:
			if o.FirstSet < 0 {
				o.FirstSet = i
			}
			o.SetValues = append(o.SetValues, r)
			// A = hex(owner)/hex(key)
			key := r.A
			if j := strings.Index(key, "/"); j >= 0 {
				key = key[j+1:]
			}
			switch {
			case key == fmt.Sprintf("%x", "stored"):
				stored++
			case strings.HasPrefix(key, "24") && len(key) == 18:
				slab++
			default:
				other++
			}
		case host.KLog:
			if strings.Contains(r.A, c24Marker) && o.MarkerAt < 0 {
				o.MarkerAt = i
			}
			if o.FirstSet >= 0 {
				o.AfterFirst = append(o.AfterFirst, r)
			}
		case host.KEmit, host.KUUID:
			if o.FirstSet >= 0 {
				o.AfterFirst = append(o.AfterFirst, r)
			}
		case host.KUpdateContract, host.KRemoveContract:
			o.ContractCode++
		}
	}
	switch {
	case slab > 0 && stored > 0:
		o.RegClass = "stored+slab-registers"
	case slab > 0:
		o.RegClass = "slab-register"
	case stored > 0:
		o.RegClass = "stored-register"
	case other > 0:
		o.RegClass = "other-register"
	}
	return o
}

func recStrings(rs []host.Rec, n int) []string {
	var out []string
	for i, r := range rs {
		if i >= n {
			out = append(out, fmt.Sprintf("… %d more", len(rs)-n))
			break
		}
		out = append(out, core.Clip(r.String(), 200))
	}
	return out
}

func traceTail(h *host.Host, n int) []string {
	rs := h.Recs
	if len(rs) > n {
		rs = rs[len(rs)-n:]
	}
	return recStrings(rs, n)
}

// c24checkFailed: a failed transaction must have issued no SetValue.
// phase describes where it failed (used in the key).
func c24checkFailed(c *core.Ctx, h *host.Host, out host.Outcome, phase string, wit map[string]any) bool {
	ob := c24observe(h)
	c.Inc("failed_tx_checked")
	if len(ob.SetValues) == 0 {
		return true
	}
	wit["set_values"] = recStrings(ob.SetValues, 10)
	wit["error"] = core.Clip(host.ErrText(out), 800)
	wit["marker_logged_before_failure"] = ob.MarkerAt >= 0
	wit["trace_tail"] = traceTail(h, 25)
	c.Violate("failed-tx-writes:"+ob.RegClass+"-"+phase,
		fmt.Sprintf("a failed transaction issued %d SetValue call(s) (%s)", len(ob.SetValues), ob.RegClass), wit)
	return false
}

// c24checkSucceeded: writes only after the end marker, nothing program-attributable after the first write.
func c24checkSucceeded(c *core.Ctx, h *host.Host, name string, wit map[string]any) bool {
	ob := c24observe(h)
	c.Inc("successful_tx_checked")
	if len(ob.SetValues) > 0 {
		c.Inc("successful_tx_with_writes")
	}
	if ob.MarkerAt < 0 {
		wit["trace_tail"] = traceTail(h, 25)
		c.Violate("harness:end-marker-missing:"+name, "a successful transaction did not log its end marker", wit)
		return false
	}
	if ob.FirstSet >= 0 && ob.FirstSet < ob.MarkerAt {
		wit["set_values"] = recStrings(ob.SetValues, 10)
		wit["first_set_seq"] = ob.FirstSet
		wit["marker_seq"] = ob.MarkerAt
		c.Violate("write-before-end-marker:"+ob.RegClass+":"+name, "a SetValue was issued before the transaction's code finished", wit)
		return false
	}
	if len(ob.AfterFirst) > 0 {
		wit["after_first_write"] = recStrings(ob.AfterFirst, 10)
		c.Violate("program-callback-after-first-write:"+string(ob.AfterFirst[0].Kind)+":"+name,
			"ProgramLog / EmitEvent / GenerateUUID after the first SetValue", wit)
		return false
	}
	return true
}

// ---------------------------------------------------------------- task list

type c24task struct {
	Kind  string // hist | fail | scripts | sweep
	Tmpl  int
	Pop   bool
	Eng   host.Engine
	Gauge string // comp | mem | kinds
	Part  int
	Of    int
}

func c24tasks(tier string) []c24task {
	var ts []c24task
	nh, parts := 128, 1
	if tier == "thorough" {
		nh, parts = 3000, 6
	}
	for i := 0; i < nh; i++ {
		ts = append(ts, c24task{Kind: "hist", Part: i})
	}
	for ti, t := range c24Tmpls {
		for _, pop := range []bool{false, true} {
			if t.Populated && !pop {
				continue
			}
			ts = append(ts, c24task{Kind: "fail", Tmpl: ti, Pop: pop})
			for _, eng := range host.AllEngines {
				for _, g := range []string{"comp", "mem"} {
					for p := 0; p < parts; p++ {
						ts = append(ts, c24task{Kind: "sweep", Tmpl: ti, Pop: pop, Eng: eng, Gauge: g, Part: p, Of: parts})
					}
				}
				ts = append(ts, c24task{Kind: "sweep", Tmpl: ti, Pop: pop, Eng: eng, Gauge: "kinds", Of: 1})
			}
		}
	}
	for i := 0; i < 12; i++ {
		ts = append(ts, c24task{Kind: "scripts", Part: i})
	}
	return ts
}

func init() {
	core.Register(&core.Prop{
		ID: "C24",
		Rule: "case list = (a) C22-style storage histories with an end marker, on 3 engines, fresh and reused environment, each transaction checked, then 2 history transactions re-run as scripts through getAuthAccount; (b) 10 transaction templates (array save on a first-time account, resource+event+contract state, two signers, contract add / update / remove, load+destroy+large save, arguments, pre/post + mutation through a reference, capability issue/publish) x {fresh, populated} ledgers x 12 planted failure modes (parse, type, argument count/type, signer count, panic, failed assert, callee pre / post, transaction pre / post, type-mismatching load) at every statement position; (c) metering sweep: fault-free run under recording gauges, then re-run from the same ledger snapshot with the computation (memory) limit set just below every cumulative total at which a metering call happens (quick: 14 sampled calls incl. the last four; thorough: all, memory capped at 1500 evenly spread) and with every computation kind refused in turn; (d) storage-mutating scripts. Distinct = (template, snapshot, engine, failure plan / limit).",
		Assumptions: []string{
			"a register write is a host SetValue call (AllocateSlabIndex and contract-code updates are host-buffered calls, counted as monitors only)",
			"all limit values between two consecutive cumulative metering totals fail at the same metering call, so one limit per call covers every value 1..total",
			"the end marker is logged by the last statement of the last executed block; transaction post-conditions run after it",
		},
		NumCases: func(tier string) int { return len(c24tasks(tier)) },
		Floors: map[string]int64{
			"failed_tx_checked": 1500, "successful_tx_checked": 400, "successful_tx_with_writes": 300, "scripts_checked": 200, "scripts_mutating_storage": 60,
			"fail_mode_parse": 10, "fail_mode_type": 10, "fail_mode_argcount": 10, "fail_mode_argtype": 10, "fail_mode_signers": 10, "fail_mode_panic": 30, "fail_mode_assert": 30,
			"fail_mode_callee-pre": 30, "fail_mode_callee-post": 30, "fail_mode_tx-pre": 10, "fail_mode_tx-post": 10, "fail_mode_load-mismatch": 30,
			"sweep_comp_limits": 300, "sweep_mem_limits": 300, "sweep_kinds_refused": 100, "sweep_failed_after_code_finished": 40, "sweep_failed_during_execution": 200,
			"readbacks_ok": 15, "hist_final_dumps": 60,
		},
		Run: c24Run,
	})
}

func c24Run(c *core.Ctx) {
	ts := c24tasks(c.Tier)
	t := ts[c.Case]
	switch t.Kind {
	case "hist":
		c24Hist(c)
	case "fail":
		c24Fail(c, t)
	case "sweep":
		c24Sweep(c, t)
	case "scripts":
		c24Scripts(c, t)
	}
}

func signersN(n int) []common.Address {
	out := make([]common.Address, n)
	for i := range out {
		out[i] = host.Addr(uint64(i + 1))
	}
	return out
}

// ---------------------------------------------------------------- (b) planted failures

func c24Fail(c *core.Ctx, t c24task) {
	tm := c24Tmpls[t.Tmpl]
	var plants []c24plant
	for _, mode := range []string{"panic", "assert", "callee-pre", "callee-post", "load-mismatch", "type"} {
		for at := 0; at <= len(tm.Prepare); at++ {
			plants = append(plants, c24plant{Mode: mode, Block: "prepare", At: at})
		}
		for at := 0; at <= len(tm.Execute); at++ {
			if mode == "load-mismatch" {
				continue // a0 is not in scope in execute
			}
			plants = append(plants, c24plant{Mode: mode, Block: "execute", At: at})
		}
	}
	for _, mode := range []string{"tx-pre", "tx-post", "argcount", "argtype", "signers"} {
		plants = append(plants, c24plant{Mode: mode})
	}
	for i := 0; i < 3; i++ {
		plants = append(plants, c24plant{Mode: "parse", At: i})
	}
	for _, eng := range host.AllEngines {
		h, prob := c24world(eng, t.Pop)
		if h == nil {
			c.Violate("harness:c24-world", prob, map[string]any{"engine": eng.String()})
			return
		}
		snap := c24take(h)
		// fault-free run first: must succeed, ordered writes, readback
		src, args, ns := tm.render(nil)
		out := h.RunTx(eng, src, args, signersN(ns), nil)
		c.Eval(1)
		wit := map[string]any{"engine": eng.String(), "template": tm.Name, "populated": t.Pop, "transaction": src}
		if out.Err != nil || out.Escaped != nil {
			wit["error"] = host.ErrText(out)
			c.Violate("harness:c24-template-fails:"+tm.Name, "the fault-free template failed", wit)
			return
		}
		if c24checkSucceeded(c, h, tm.Name, wit) {
			c24Readback(c, h, eng, tm, wit)
		}
		c.Distinct(fmt.Sprintf("ok|%s|%v|%s", tm.Name, t.Pop, eng))
		for _, p := range plants {
			p := p
			snap.restore(h)
			src, args, ns := tm.render(&p)
			before := h.Ledger.Clone()
			out := h.RunTx(eng, src, args, signersN(ns), nil)
			c.Eval(1)
			wit := map[string]any{"engine": eng.String(), "template": tm.Name, "populated": t.Pop, "transaction": src, "planted": fmt.Sprintf("%+v", p), "signers": ns, "arguments": len(args)}
			if out.Escaped != nil {
				wit["error"] = host.ErrText(out)
				c.Violate("c24:escaped-panic:"+p.Mode, "a panic escaped ExecuteTransaction", wit)
				continue
			}
			if out.Err == nil {
				// a planted failure that does not fail is a harness problem (e.g. tx-post on a template that bumps the counter)
				wit["logs"] = clipLines(h.Logs, 10, 200)
				c.Violate("harness:c24-plant-did-not-fail:"+p.Mode+":"+tm.Name, "the planted failure did not make the transaction fail", wit)
				continue
			}
			c.Inc("fail_mode_" + p.Mode)
			c.Distinct(fmt.Sprintf("fail|%s|%v|%s|%+v", tm.Name, t.Pop, eng, p))
			if c24checkFailed(c, h, out, p.Mode, wit) {
				if d := before.Diff(h.Ledger); len(d) > 0 {
					wit["diff"] = clipLines(d, 10, 200)
					c.Violate("failed-tx-ledger-changed:"+p.Mode, "ledger bytes changed without a SetValue record", wit)
				}
			}
		}
		if c.WantSample() {
			s, _, _ := tm.render(&plants[len(plants)/2])
			c.Sample(map[string]any{"kind": "planted-failure", "template": tm.Name, "plant": fmt.Sprintf("%+v", plants[len(plants)/2]), "transaction": s})
		}
	}
}

func c24Readback(c *core.Ctx, h *host.Host, eng host.Engine, tm c24tmpl, wit map[string]any) {
	if tm.Verify == "" {
		return
	}
	src := "import F from 0x9\naccess(all) fun main() {\n    " + tm.Verify + "\n}\n"
	h.ResetTrace()
	out := h.RunScript(eng, src, nil, nil)
	c.Eval(1)
	got := ""
	if len(h.Logs) > 0 {
		got = unquote(h.Logs[0])
	}
	if out.Err != nil || got != tm.Want {
		w := map[string]any{"readback_script": src, "observed": got, "expected": tm.Want, "error": host.ErrText(out)}
		for k, v := range wit {
			w[k] = v
		}
		c.Violate("readback-mismatch:"+tm.Name, "a fresh read after the committed transaction does not see the expected value", w)
		return
	}
	c.Inc("readbacks_ok")
	if n := h.CountKind(host.KSetValue); n > 0 {
		c.Violate("script-writes:readback:"+tm.Name, fmt.Sprintf("a read-only script issued %d SetValue", n), map[string]any{"script": src, "engine": eng.String()})
	}
}

// ---------------------------------------------------------------- (c) metering sweep

func c24Sweep(c *core.Ctx, t c24task) {
	tm := c24Tmpls[t.Tmpl]
	eng := t.Eng
	h, prob := c24world(eng, t.Pop)
	if h == nil {
		c.Violate("harness:c24-world", prob, map[string]any{"engine": eng.String()})
		return
	}
	snap := c24take(h)
	src, args, ns := tm.render(nil)
	comp := &host.Gauge{Record: true, TrackByKind: true}
	mem := &host.Gauge{Record: true}
	out := h.RunTx(eng, src, args, signersN(ns), &host.Options{Config: host.DefaultConfig, Comp: comp, Mem: mem})
	c.Eval(1)
	base := map[string]any{"engine": eng.String(), "template": tm.Name, "populated": t.Pop, "transaction": src}
	if out.Err != nil || out.Escaped != nil {
		base["error"] = host.ErrText(out)
		c.Violate("harness:c24-template-fails-under-gauges:"+tm.Name, "the fault-free run under recording gauges failed", base)
		return
	}
	cp := func(extra map[string]any) map[string]any {
		w := map[string]any{}
		for k, v := range base {
			w[k] = v
		}
		for k, v := range extra {
			w[k] = v
		}
		return w
	}
	c24checkSucceeded(c, h, tm.Name, cp(map[string]any{"gauges": "recording"}))
	c.Max("comp_total", int64(comp.CompTotal))
	c.Max("mem_total", int64(mem.MemTotal))

	run := func(o *host.Options, desc map[string]any, label string) {
		snap.restore(h)
		out := h.RunTx(eng, src, args, signersN(ns), o)
		c.Eval(1)
		w := cp(desc)
		if out.Escaped != nil {
			w["error"] = host.ErrText(out)
			c.Violate("c24:escaped-panic:metering", "a panic escaped ExecuteTransaction under a metering limit", w)
			return
		}
		if out.Err == nil {
			c.Inc("sweep_limit_not_hit")
			c24checkSucceeded(c, h, tm.Name, w)
			return
		}
		ob := c24observe(h)
		phase := "during-execution-metering"
		if ob.MarkerAt >= 0 {
			phase = "before-commit-metering"
			c.Inc("sweep_failed_after_code_finished")
		} else {
			c.Inc("sweep_failed_during_execution")
		}
		c.Distinct(fmt.Sprintf("sweep|%s|%v|%s|%s", tm.Name, t.Pop, eng, label))
		c24checkFailed(c, h, out, phase, w)
	}

	switch t.Gauge {
	case "comp", "mem":
		// cumulative totals after each metering call: limit = total-1 fails exactly at that call
		var cums []uint64
		var tot uint64
		recs := comp.Recs
		if t.Gauge == "mem" {
			recs = mem.Recs
		}
		for _, r := range recs {
			if r.Amt == 0 {
				continue
			}
			tot += r.Amt
			if tot-1 >= 1 {
				cums = append(cums, tot-1)
			}
		}
		var limits []uint64
		if c.Quick() {
			// 10 evenly spread + the last four calls (commit phase)
			n := len(cums)
			for i := 0; i < 10 && n > 0; i++ {
				limits = append(limits, cums[(i*n)/10])
			}
			for i := n - 4; i < n; i++ {
				if i >= 0 {
					limits = append(limits, cums[i])
				}
			}
		} else {
			pick := cums
			if t.Gauge == "mem" && len(pick) > 1500 {
				// evenly spread 1500 + the last 20
				var p2 []uint64
				for i := 0; i < 1500; i++ {
					p2 = append(p2, pick[(i*len(pick))/1500])
				}
				p2 = append(p2, pick[len(pick)-20:]...)
				pick = p2
			}
			if t.Gauge == "comp" && tot <= 4000 {
				// literally every value 1..total-1
				pick = nil
				for v := uint64(1); v < tot; v++ {
					pick = append(pick, v)
				}
			}
			for i, v := range pick {
				if i%t.Of == t.Part {
					limits = append(limits, v)
				}
			}
		}
		limits = dedupU64(limits)
		for _, lim := range limits {
			if t.Gauge == "comp" {
				c.Inc("sweep_comp_limits")
				run(&host.Options{Config: host.DefaultConfig, Comp: &host.Gauge{CompLimit: lim}}, map[string]any{"computation_limit": lim, "fault_free_total": tot}, fmt.Sprintf("comp=%d", lim))
			} else {
				c.Inc("sweep_mem_limits")
				run(&host.Options{Config: host.DefaultConfig, Mem: &host.Gauge{MemLimit: lim}}, map[string]any{"memory_limit": lim, "fault_free_total": tot}, fmt.Sprintf("mem=%d", lim))
			}
		}
		if c.WantSample() {
			c.Sample(map[string]any{"kind": "metering-sweep", "gauge": t.Gauge, "template": tm.Name, "populated": t.Pop, "engine": eng.String(), "fault_free_total": tot, "metering_calls": len(recs), "limits_run": len(limits)})
		}
	case "kinds":
		var kinds []int
		for k := range comp.CompByKind {
			kinds = append(kinds, int(k))
		}
		sort.Ints(kinds)
		for _, k := range kinds {
			kind := common.ComputationKind(k)
			c.Inc("sweep_kinds_refused")
			run(&host.Options{Config: host.DefaultConfig, Comp: &host.Gauge{RefuseComp: map[common.ComputationKind]bool{kind: true}}},
				map[string]any{"refused_computation_kind": kind.String()}, "refuse="+kind.String())
		}
	}
}

func dedupU64(xs []uint64) []uint64 {
	sort.Slice(xs, func(i, j int) bool { return xs[i] < xs[j] })
	var out []uint64
	for i, x := range xs {
		if i == 0 || x != xs[i-1] {
			out = append(out, x)
		}
	}
	return out
}

// ---------------------------------------------------------------- (d) scripts

var c24ScriptBodies = []struct {
	Name   string
	Body   string
	Mutate bool
	Fails  bool
}{
	{"save-existing-account", `getAuthAccount<auth(Storage) &Account>(0x1).storage.save(5, to: /storage/fromScript)`, true, false},
	{"save-first-time-account", `getAuthAccount<auth(Storage) &Account>(0x7).storage.save([1, 2], to: /storage/fromScript)`, true, false},
	{"load-destroy-resource", `let r <- getAuthAccount<auth(Storage) &Account>(0x1).storage.load<@F.R>(from: /storage/r); destroy r`, true, false},
	{"mutate-through-reference", `let r = getAuthAccount<auth(Storage) &Account>(0x1).storage.borrow<auth(Mutate) &[Int]>(from: /storage/a)!; r.append(9); r.remove(at: 0)`, true, false},
	{"grow-stored-array", `let r = getAuthAccount<auth(Storage) &Account>(0x1).storage.borrow<auth(Mutate) &[String]>(from: /storage/big)!; var i = 0; while i < 300 { r.append("zzzzzzzzzzzzzzzzzzzzzzzzzzzzzzzzzzzzzzzzzzzzzzzz"); i = i + 1 }`, true, false},
	{"contract-state-and-event", `F.bump(); F.bump()`, true, false},
	{"contract-add", `getAuthAccount<auth(Contracts) &Account>(0x1).contracts.add(name: "S", code: "` + hexCode(strings.ReplaceAll(c24ContractD1, "contract D", "contract S")) + `".decodeHex())`, true, false},
	{"contract-update", `getAuthAccount<auth(Contracts) &Account>(0x1).contracts.update(name: "D", code: "` + hexCode(c24ContractD2) + `".decodeHex())`, true, false},
	{"contract-remove", `getAuthAccount<auth(Contracts) &Account>(0x1).contracts.remove(name: "D")`, true, false},
	{"capability-issue-publish", `let a = getAuthAccount<auth(Capabilities) &Account>(0x1); let cap = a.capabilities.storage.issue<&[Int]>(/storage/a); a.capabilities.publish(cap, at: /public/fromScript)`, true, false},
	{"mutate-then-panic", `getAuthAccount<auth(Storage) &Account>(0x1).storage.save(5, to: /storage/fromScript); F.boom()`, true, true},
	{"move-between-accounts", `let a = getAuthAccount<auth(Storage) &Account>(0x1); let b = getAuthAccount<auth(Storage) &Account>(0x2); let r <- a.storage.load<@F.R>(from: /storage/r)!; b.storage.save(<- r, to: /storage/moved)`, true, false},
	{"read-only", `log(getAuthAccount<auth(Storage) &Account>(0x1).storage.copy<[Int]>(from: /storage/a)!.length)`, false, false},
}

func c24Scripts(c *core.Ctx, t c24task) {
	for _, eng := range host.AllEngines {
		h, prob := c24world(eng, true)
		if h == nil {
			c.Violate("harness:c24-world", prob, map[string]any{"engine": eng.String()})
			return
		}
		snap := c24take(h)
		// each task runs all scripts, in a task-specific rotation, WITHOUT restoring the ledger between them in odd tasks
		n := len(c24ScriptBodies)
		for i := 0; i < n; i++ {
			sc := c24ScriptBodies[(i+t.Part)%n]
			if t.Part%2 == 0 {
				snap.restore(h)
			} else {
				h.ResetTrace()
			}
			before := h.Ledger.Clone()
			src := "import F from 0x9\naccess(all) fun main() {\n    " + sc.Body + "\n    log(\"" + c24Marker + "\")\n}\n"
			out := h.RunScript(eng, src, nil, nil)
			c.Eval(1)
			wit := map[string]any{"engine": eng.String(), "script": src, "error": host.ErrText(out)}
			if out.Escaped != nil {
				c.Violate("c24:escaped-panic:script:"+sc.Name, "a panic escaped ExecuteScript", wit)
				continue
			}
			if (out.Err != nil) != sc.Fails && t.Part%2 == 0 {
				c.Violate("harness:c24-script-outcome:"+sc.Name, "unexpected script outcome", wit)
				continue
			}
			c.Inc("scripts_checked")
			if sc.Mutate && out.Err == nil {
				c.Inc("scripts_mutating_storage")
			}
			c.Distinct(fmt.Sprintf("script|%s|%s|%d", sc.Name, eng, t.Part%2))
			ob := c24observe(h)
			if len(ob.SetValues) > 0 {
				wit["set_values"] = recStrings(ob.SetValues, 10)
				c.Violate("script-writes:"+sc.Name+":"+ob.RegClass, fmt.Sprintf("a script issued %d SetValue call(s)", len(ob.SetValues)), wit)
				continue
			}
			if d := before.Diff(h.Ledger); len(d) > 0 {
				wit["diff"] = clipLines(d, 10, 200)
				c.Violate("script-ledger-changed:"+sc.Name, "ledger bytes changed during a script", wit)
			}
		}
	}
}

// ---------------------------------------------------------------- (a) histories

func (t c22tx) renderScript() string {
	var sb strings.Builder
	sb.WriteString("import T from 0x9\naccess(all) fun main() {\n")
	for i, a := range t.Accts {
		fmt.Fprintf(&sb, "        let a%d = getAuthAccount<auth(Storage) &Account>(0x%x)\n", i, a+1)
	}
	for i, op := range t.Ops {
		sb.WriteString("        " + op.render(i) + "\n")
	}
	sb.WriteString("        log(\"" + c24Marker + "\")\n}\n")
	return sb.String()
}

func c24Hist(c *core.Ctx) {
	ntx := 8
	reuse := c.Case%2 == 1
	type step struct {
		tx    c22tx
		src   string
		fails bool
		mode  string
	}
	model := &c22model{}
	ctr := 0
	var steps []step
	var hist strings.Builder
	for i := 0; i < ntx; i++ {
		t := c22genTx(c.Rng, model, &ctr)
		t.Marker = true
		st := step{tx: t, src: t.render()}
		work := model.clone()
		for j, op := range t.Ops {
			if t.AbortAt == j {
				st.fails, st.mode = true, "panic"
				break
			}
			if p := work.apply(op, t.Accts); p.Fail {
				st.fails = true
				st.mode = "storage-op:" + strings.SplitN(p.Class, ":", 2)[0]
				break
			}
		}
		if !st.fails && t.AbortAt == len(t.Ops) {
			st.fails, st.mode = true, "panic"
		}
		if !st.fails {
			model = work
		}
		steps = append(steps, st)
		hist.WriteString(st.src)
	}
	// two more transactions generated against the final model, run as SCRIPTS
	var scripts []string
	for i := 0; i < 2; i++ {
		t := c22genTx(c.Rng, model, &ctr)
		t.AbortAt = -1
		scripts = append(scripts, t.renderScript())
	}
	c.Distinct(hist.String())
	for _, eng := range host.AllEngines {
		s := newSession(eng, reuse)
		if o := s.deploy(host.Addr(c22ContractAddr), "T", c22Contract); o.Err != nil || o.Escaped != nil {
			c.Violate("harness:deploy-failed", "cannot deploy the C22 contract: "+host.ErrText(o), map[string]any{"engine": eng.String()})
			return
		}
		ok := true
		for i, st := range steps {
			before := s.h.Ledger.Clone()
			o := s.tx(st.src, st.tx.signers())
			c.Eval(1)
			wit := map[string]any{"engine": eng.String(), "mode": s.mode(), "tx_index": i, "transaction": st.src, "history": s.history(i + 1)}
			if o.Escaped != nil {
				c.Violate("c24:escaped-panic:history", "a panic escaped ExecuteTransaction", wit)
				ok = false
				break
			}
			if (o.Err != nil) != st.fails {
				// the history itself is C22's subject; here it only means the model lost track
				c.Inc("hist_model_diverged")
				ok = false
				break
			}
			if st.fails {
				if !c24checkFailed(c, s.h, o, st.mode, wit) {
					ok = false
					break
				}
				if d := before.Diff(s.h.Ledger); len(d) > 0 {
					wit["diff"] = clipLines(d, 10, 200)
					c.Violate("failed-tx-ledger-changed:"+st.mode, "ledger bytes changed in a failed transaction", wit)
				}
			} else {
				c24checkSucceeded(c, s.h, "history", wit)
			}
		}
		if !ok {
			continue
		}
		// scripts that mutate storage through getAuthAccount: no writes, ledger unchanged
		for _, sc := range scripts {
			before := s.h.Ledger.Clone()
			o := s.script(sc)
			c.Eval(1)
			c.Inc("scripts_checked")
			if o.Err == nil {
				c.Inc("scripts_mutating_storage")
			}
			if n := s.h.CountKind(host.KSetValue); n > 0 || len(before.Diff(s.h.Ledger)) > 0 {
				ob := c24observe(s.h)
				c.Violate("script-writes:history-script:"+ob.RegClass, fmt.Sprintf("a script issued %d SetValue call(s)", n),
					map[string]any{"engine": eng.String(), "script": sc, "set_values": recStrings(ob.SetValues, 10), "error": host.ErrText(o)})
			}
		}
		// sufficiency: a fresh read-only script sees exactly the model
		o := s.script(c22DumpScript)
		c.Eval(1)
		if o.Err != nil {
			c.Violate("c24:final-dump-failed", host.ErrText(o), map[string]any{"engine": eng.String(), "history": s.history(ntx)})
			continue
		}
		expLines, _ := model.expectedDump()
		var gotLines []string
		for _, l := range s.logs() {
			if !strings.Contains(l, " paths:") {
				gotLines = append(gotLines, l)
			}
		}
		if strings.Join(gotLines, "\n") != strings.Join(expLines, "\n") {
			c.Violate("insufficient-writes:history", "a fresh read after the history does not see the model's contents",
				map[string]any{"engine": eng.String(), "mode": s.mode(), "observed": gotLines, "expected": expLines, "history": s.history(ntx)})
			continue
		}
		c.Inc("hist_final_dumps")
	}
}
