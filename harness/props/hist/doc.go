// Package hist holds the checks of group hist (see harness/groups.txt).
package hist
