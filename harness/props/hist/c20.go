package hist

import (
	"fmt"
	"math/rand/v2"
	"sort"
	"strconv"
	"strings"

	"github.com/onflow/cadence/common"

	"verif/harness/core"
	"verif/harness/host"
)

// C20 — arrays and dictionaries behave like their list / finite-map models.
//
// A case is one history on ONE container (variable-sized array, constant-sized array or dictionary) of one
// element kind, kept in one place (script-local variable, account storage through an authorized reference,
// field of a stored struct through a reference, or loaded / operated on as an owned value / saved back).
// Elements are abstract ids n; T.mk(n) builds the element of the kind and T.idOf / T.idOfR validate it and
// give the id back, so every log line is a list of ids (or a rolling hash of it) the Go model predicts.

type c20kind struct {
	Name  string
	ET    string // element type
	RT    string // type of an element obtained through a reference to the container
	Prim  bool   // primitive: RT == ET
	Eq    bool   // equatable (contains / firstIndex)
	Big   bool   // not inlinable (> max inline size)
	Mk    string
	IdOf  string // body over `e`
	IdOfR string
}

var c20Kinds = []c20kind{
	{Name: "Int", ET: "Int", RT: "Int", Prim: true, Eq: true,
		Mk: "return n", IdOf: "return e"},
	{Name: "Str", ET: "String", RT: "String", Prim: true, Eq: true,
		Mk:   `return "s".concat(n.toString())`,
		IdOf: `if e.length < 2 || e.slice(from: 0, upTo: 1) != "s" { return -2 }; return Int.fromString(e.slice(from: 1, upTo: e.length)) ?? -1`},
	{Name: "BigStr", ET: "String", RT: "String", Prim: true, Eq: true, Big: true,
		Mk:   `return "b".concat(n.toString()).concat(":").concat(T.pad)`,
		IdOf: `let parts = e.split(separator: ":"); if parts.length != 2 || parts[1] != T.pad { return -2 }; return Int.fromString(parts[0].slice(from: 1, upTo: parts[0].length)) ?? -1`},
	{Name: "Nested", ET: "[Int]", RT: "&[Int]", Big: false,
		Mk:   `return [n, n + 1, n + 2]`,
		IdOf: `if e.length != 3 || e[1] != e[0] + 1 || e[2] != e[0] + 2 { return -2 }; return e[0]`},
	{Name: "NestedBig", ET: "[Int]", RT: "&[Int]", Big: true,
		Mk:   `var a: [Int] = []; var i = 0; while i < 80 { a.append(n + i); i = i + 1 }; return a`,
		IdOf: `if e.length != 80 || e[79] != e[0] + 79 || e[40] != e[0] + 40 { return -2 }; return e[0]`},
	{Name: "P", ET: "T.P", RT: "&T.P",
		Mk: `return T.P(n)`, IdOf: `return e.n`},
	{Name: "Q", ET: "T.Q", RT: "&T.Q", Big: true,
		Mk:   `return T.Q(n)`,
		IdOf: `if e.pad != T.pad || e.arr.length != 2 || e.arr[0] != e.n || e.f3 != e.n + 3 { return -2 }; return e.n`},
}

type c20shape struct {
	Kind  int    // element kind
	Cont  string // varr | carr | dict
	N     int    // carr size
	KeyS  bool   // dict: String keys (else Int)
	Mode  string // local | ref | boxref | loadsave | boxload
}

func (s c20shape) k() c20kind { return c20Kinds[s.Kind] }

func (s c20shape) KT() string {
	if s.KeyS {
		return "String"
	}
	return "Int"
}

func (s c20shape) CT() string {
	switch s.Cont {
	case "varr":
		return "[" + s.k().ET + "]"
	case "carr":
		return fmt.Sprintf("[%s; %d]", s.k().ET, s.N)
	}
	return "{" + s.KT() + ": " + s.k().ET + "}"
}

func (s c20shape) viaRef() bool { return s.Mode == "ref" || s.Mode == "boxref" }
func (s c20shape) isBox() bool  { return s.Mode == "boxref" || s.Mode == "boxload" }

func (s c20shape) String() string {
	return fmt.Sprintf("%s of %s (%s) in %s", s.Cont, s.k().Name, s.CT(), s.Mode)
}

func (s c20shape) contract() string {
	k := s.k()
	idOfR := k.IdOfR
	if idOfR == "" {
		idOfR = k.IdOf
	}
	key, keyID := "return n", "return k"
	if s.KeyS {
		key = `return "k".concat(n.toString())`
		keyID = `if k.length < 2 || k.slice(from: 0, upTo: 1) != "k" { return -2 }; return Int.fromString(k.slice(from: 1, upTo: k.length)) ?? -1`
	}
	return fmt.Sprintf(`
access(all) contract T {
    access(all) let pad: String
    access(all) struct P { access(all) let n: Int; init(_ n: Int) { self.n = n } }
    access(all) struct Q {
        access(all) let n: Int
        access(all) let pad: String
        access(all) let arr: [Int]
        access(all) let f1: Int
        access(all) let f2: Int
        access(all) let f3: Int
        access(all) let f4: UInt64
        access(all) let f5: String
        init(_ n: Int) { self.n = n; self.pad = T.pad; self.arr = [n, n]; self.f1 = n + 1; self.f2 = n + 2; self.f3 = n + 3; self.f4 = 4; self.f5 = "five" }
    }
    access(all) struct Box {
        access(mapping Identity) var xs: %[1]s
        init(_ xs: %[1]s) { self.xs = xs }
    }
    access(all) fun mk(_ n: Int): %[2]s { %[4]s }
    access(all) view fun idOf(_ e: %[2]s): Int { %[5]s }
    access(all) view fun idOfR(_ e: %[3]s): Int { %[6]s }
    access(all) view fun key(_ n: Int): %[7]s { %[8]s }
    access(all) view fun keyId(_ k: %[7]s): Int { %[9]s }
    init() {
        var p = "xyzw"
        while p.length < 2000 { p = p.concat(p) }
        self.pad = p.slice(from: 0, upTo: 2000)
    }
}`, s.CT(), k.ET, k.RT, k.Mk, k.IdOf, idOfR, s.KT(), key, keyID)
}

// ---------------------------------------------------------------- model

type c20model struct {
	arr  []int
	dict map[int]int
}

func (m *c20model) clone() *c20model {
	n := &c20model{arr: append([]int(nil), m.arr...)}
	if m.dict != nil {
		n.dict = make(map[int]int, len(m.dict))
		for k, v := range m.dict {
			n.dict[k] = v
		}
	}
	return n
}

const c20Mod = 1000000007
const c20ListMax = 48

func digestList(ids []int) string {
	h := 0
	for _, id := range ids {
		h = (h*31 + id + 7) % c20Mod
	}
	s := fmt.Sprintf("len=%d h=%d ", len(ids), h)
	if len(ids) <= c20ListMax {
		for _, id := range ids {
			s += strconv.Itoa(id) + ","
		}
	}
	return s
}

func digestDict(d map[int]int) string {
	h := 0
	for k, v := range d { // order-independent sum
		h = (h + ((k*1009+v*31+13)%c20Mod)*((k+v)%1000+1)) % c20Mod
	}
	return fmt.Sprintf("len=%d h=%d", len(d), h)
}

// ---------------------------------------------------------------- program text helpers

type c20gen struct {
	s   c20shape
	r   *rand.Rand
	ctr int // next fresh element id
	x   string
}

func (g *c20gen) idf(viaRef bool) string {
	if viaRef {
		return "T.idOfR"
	}
	return "T.idOf"
}

func pre(i int) string { return fmt.Sprintf(`"%d|"`, i) }

// digestArrStmt logs the digest of array expression x (already bound to a variable or reference).
// idf == "" means the elements are Ints that are their own id.
func digestArrStmt(i int, x, idf string) string {
	id := fmt.Sprintf("%s(%s[j%d])", idf, x, i)
	if idf == "" {
		id = fmt.Sprintf("%s[j%d]", x, i)
	}
	return fmt.Sprintf(`var h%[1]d = 0; var l%[1]d = ""; var j%[1]d = 0; let n%[1]d = %[2]s.length
        while j%[1]d < n%[1]d { let id = %[3]s; h%[1]d = (h%[1]d * 31 + id + 7) %% 1000000007; if n%[1]d <= 48 { l%[1]d = l%[1]d.concat(id.toString()).concat(",") }; j%[1]d = j%[1]d + 1 }
        log(%[4]s.concat("len=").concat(n%[1]d.toString()).concat(" h=").concat(h%[1]d.toString()).concat(" ").concat(l%[1]d))`,
		i, x, id, pre(i))
}

func digestDictStmt(i int, x, idf string) string {
	return fmt.Sprintf(`var h%[1]d = 0
        for k%[1]d in %[2]s.keys { let kk = T.keyId(k%[1]d); let vv = %[3]s(%[2]s[k%[1]d]!); h%[1]d = (h%[1]d + ((kk * 1009 + vv * 31 + 13) %% 1000000007) * ((kk + vv) %% 1000 + 1)) %% 1000000007 }
        log(%[4]s.concat("len=").concat(%[2]s.length.toString()).concat(" h=").concat(h%[1]d.toString()))`,
		i, x, idf, pre(i))
}

func mkList(ids []int) string {
	parts := make([]string, len(ids))
	for i, id := range ids {
		parts[i] = fmt.Sprintf("T.mk(%d)", id)
	}
	return "[" + strings.Join(parts, ", ") + "]"
}

// c20op: rendered statement(s) + predicted log (Fail: must fail with an index error).
type c20op struct {
	Name   string
	Src    string
	Want   string
	Check  func(got string) string // for order-free results
	Fail   bool
	Mutate bool
}

func (g *c20gen) fresh() int {
	g.ctr++
	return g.ctr
}

// pickElem: a fresh id, or (for duplicates) an existing one
func (g *c20gen) pickElem(m *c20model) int {
	if len(m.arr) > 0 && g.r.IntN(5) == 0 {
		return m.arr[g.r.IntN(len(m.arr))]
	}
	return g.fresh()
}

func (g *c20gen) index(n int, invalid bool, inclusiveEnd bool) int {
	if invalid {
		switch g.r.IntN(3) {
		case 0:
			return -1 - g.r.IntN(3)
		case 1:
			if inclusiveEnd {
				return n + 1
			}
			return n
		}
		return n + 1 + g.r.IntN(50)
	}
	if inclusiveEnd {
		return g.r.IntN(n + 1)
	}
	return g.r.IntN(n)
}

// biased index: ends and middle more often
func (g *c20gen) validIndex(n int) int {
	switch g.r.IntN(4) {
	case 0:
		return 0
	case 1:
		return n - 1
	}
	return g.r.IntN(n)
}

func (g *c20gen) arrOp(i int, m *c20model, allowInvalid bool) c20op {
	s := g.s
	x := g.x
	viaRef := s.viaRef()
	idf := g.idf(viaRef)
	n := len(m.arr)
	invalid := allowInvalid && g.r.IntN(200) < 3
	p := pre(i)
	constant := s.Cont == "carr"
	var names []string
	if constant {
		names = []string{"get", "get", "set", "set", "reverse", "filter", "map", "toVar", "length", "iter"}
		if s.k().Eq {
			names = append(names, "contains", "firstIndex")
		}
	} else {
		names = []string{"append", "append", "append", "appendAll", "insert", "insert", "remove", "remove", "removeFirst", "removeLast",
			"get", "get", "set", "set", "slice", "slice", "reverse", "concat", "filter", "map", "toConst", "length", "iter"}
		if s.k().Eq {
			names = append(names, "contains", "firstIndex", "firstIndex")
		}
	}
	name := names[g.r.IntN(len(names))]
	if invalid {
		cands := []string{"get", "set"}
		if !constant {
			cands = []string{"get", "set", "insert", "remove", "slice", "removeFirst", "removeLast"}
		}
		name = cands[g.r.IntN(len(cands))]
		if (name == "removeFirst" || name == "removeLast") && n != 0 {
			name = "get"
		}
	}
	if n == 0 && !invalid {
		switch name {
		case "get", "set", "remove", "removeFirst", "removeLast":
			if constant {
				name = "length"
			} else {
				name = "append"
			}
		}
	}
	op := c20op{Name: name}
	switch name {
	case "append":
		e := g.pickElem(m)
		op.Src = fmt.Sprintf("%s.append(T.mk(%d)); log(%s.concat(%s.length.toString()))", x, e, p, x)
		m.arr = append(m.arr, e)
		op.Want = strconv.Itoa(len(m.arr))
		op.Mutate = true
	case "appendAll":
		k := g.r.IntN(6)
		var es []int
		for j := 0; j < k; j++ {
			es = append(es, g.pickElem(m))
		}
		lit := mkList(es)
		if k == 0 {
			lit = "[] as [" + s.k().ET + "]"
		}
		op.Src = fmt.Sprintf("%s.appendAll(%s); log(%s.concat(%s.length.toString()))", x, lit, p, x)
		m.arr = append(m.arr, es...)
		op.Want = strconv.Itoa(len(m.arr))
		op.Mutate = true
	case "insert":
		e := g.pickElem(m)
		at := g.index(n, invalid, true)
		if !invalid && g.r.IntN(3) == 0 {
			at = []int{0, n}[g.r.IntN(2)]
		}
		op.Src = fmt.Sprintf("%s.insert(at: %d, T.mk(%d)); log(%s.concat(%s.length.toString()))", x, at, e, p, x)
		if at < 0 || at > n {
			op.Fail = true
			break
		}
		m.arr = append(m.arr, 0)
		copy(m.arr[at+1:], m.arr[at:])
		m.arr[at] = e
		op.Want = strconv.Itoa(len(m.arr))
		op.Mutate = true
	case "remove":
		at := g.index(n, invalid, false)
		if !invalid {
			at = g.validIndex(n)
		}
		op.Src = fmt.Sprintf("let e%d = %s.remove(at: %d); log(%s.concat(T.idOf(e%d).toString()))", i, x, at, p, i)
		if at < 0 || at >= n {
			op.Fail = true
			break
		}
		op.Want = strconv.Itoa(m.arr[at])
		m.arr = append(m.arr[:at], m.arr[at+1:]...)
		op.Mutate = true
	case "removeFirst":
		op.Src = fmt.Sprintf("let e%d = %s.removeFirst(); log(%s.concat(T.idOf(e%d).toString()))", i, x, p, i)
		if n == 0 {
			op.Fail = true
			break
		}
		op.Want = strconv.Itoa(m.arr[0])
		m.arr = m.arr[1:]
		op.Mutate = true
	case "removeLast":
		op.Src = fmt.Sprintf("let e%d = %s.removeLast(); log(%s.concat(T.idOf(e%d).toString()))", i, x, p, i)
		if n == 0 {
			op.Fail = true
			break
		}
		op.Want = strconv.Itoa(m.arr[n-1])
		m.arr = m.arr[:n-1]
		op.Mutate = true
	case "get":
		at := g.index(n, invalid, false)
		if !invalid {
			at = g.validIndex(n)
		}
		op.Src = fmt.Sprintf("log(%s.concat(%s(%s[%d]).toString()))", p, idf, x, at)
		if at < 0 || at >= n {
			op.Fail = true
			break
		}
		op.Want = strconv.Itoa(m.arr[at])
	case "set":
		e := g.pickElem(m)
		at := g.index(n, invalid, false)
		if !invalid {
			at = g.validIndex(n)
		}
		op.Src = fmt.Sprintf("%s[%d] = T.mk(%d); log(%s.concat(%s(%s[%d]).toString()))", x, at, e, p, idf, x, at)
		if at < 0 || at >= n {
			op.Fail = true
			break
		}
		m.arr[at] = e
		op.Want = strconv.Itoa(e)
		op.Mutate = true
	case "slice":
		var from, to int
		if invalid {
			switch g.r.IntN(4) {
			case 0:
				from, to = -1, n
			case 1:
				from, to = 0, n+1
			case 2:
				from, to = n+1, n+1
			default:
				from, to = n/2+1, n/2 // from > upTo
			}
		} else {
			from = g.r.IntN(n + 1)
			to = from + g.r.IntN(n-from+1)
			if g.r.IntN(4) == 0 {
				to = n
			}
		}
		op.Src = fmt.Sprintf("let t%d = %s.slice(from: %d, upTo: %d)\n        %s", i, x, from, to, digestArrStmt(i, fmt.Sprintf("t%d", i), idf))
		if from < 0 || to < 0 || from > to || to > n {
			op.Fail = true
			break
		}
		op.Want = digestList(m.arr[from:to])
	case "reverse":
		op.Src = fmt.Sprintf("let t%d = %s.reverse()\n        %s", i, x, digestArrStmt(i, fmt.Sprintf("t%d", i), idf))
		rev := make([]int, n)
		for j, v := range m.arr {
			rev[n-1-j] = v
		}
		op.Want = digestList(rev)
	case "concat":
		k := g.r.IntN(4)
		var es []int
		for j := 0; j < k; j++ {
			es = append(es, g.fresh())
		}
		lit := mkList(es)
		if k == 0 {
			lit = "[] as [" + s.k().ET + "]"
		}
		// through a reference to fielded elements the result holds references: digest with the same id function
		op.Src = fmt.Sprintf("let t%d = %s.concat(%s)\n        %s", i, x, lit, digestArrStmt(i, fmt.Sprintf("t%d", i), idf))
		op.Want = digestList(append(append([]int(nil), m.arr...), es...))
	case "filter":
		mod := 2 + g.r.IntN(3)
		rem := g.r.IntN(mod)
		pt := s.k().ET
		if viaRef {
			pt = s.k().RT
		}
		op.Src = fmt.Sprintf("let t%d = %s.filter(view fun (e: %s): Bool { return %s(e) %% %d == %d })\n        %s",
			i, x, pt, idf, mod, rem, digestArrStmt(i, fmt.Sprintf("t%d", i), idf))
		var out []int
		for _, v := range m.arr {
			if v%mod == rem {
				out = append(out, v)
			}
		}
		op.Want = digestList(out)
	case "map":
		mul := 2 + g.r.IntN(3)
		pt := s.k().ET
		if viaRef {
			pt = s.k().RT
		}
		op.Src = fmt.Sprintf("let t%d = %s.map(fun (e: %s): Int { return %s(e) * %d + 1 })\n        %s",
			i, x, pt, idf, mul, digestArrStmt(i, fmt.Sprintf("t%d", i), ""))
		out := make([]int, n)
		for j, v := range m.arr {
			out[j] = v*mul + 1
		}
		op.Want = digestList(out)
	case "contains":
		e := g.pickElem(m)
		if n > 0 && g.r.IntN(2) == 0 {
			e = m.arr[g.r.IntN(n)]
		}
		op.Src = fmt.Sprintf("log(%s.concat(%s.contains(T.mk(%d)) ? \"true\" : \"false\"))", p, x, e)
		op.Want = "false"
		for _, v := range m.arr {
			if v == e {
				op.Want = "true"
			}
		}
	case "firstIndex":
		e := g.fresh()
		if n > 0 && g.r.IntN(4) != 0 {
			e = m.arr[g.r.IntN(n)]
		}
		op.Src = fmt.Sprintf("log(%s.concat((%s.firstIndex(of: T.mk(%d)) ?? -1).toString()))", p, x, e)
		op.Want = "-1"
		for j, v := range m.arr {
			if v == e {
				op.Want = strconv.Itoa(j)
				break
			}
		}
	case "toConst":
		sz := n
		if g.r.IntN(3) == 0 {
			sz = n + 1 - 2*g.r.IntN(2)
			if sz < 0 {
				sz = 1
			}
		}
		if sz > 64 { // keep the type small; a mismatch is then certain
			sz = 64
		}
		et := s.k().ET
		if viaRef && !s.k().Prim {
			et = s.k().RT
		}
		op.Src = fmt.Sprintf("if let t%[1]d = %[2]s.toConstantSized<[%[3]s; %[4]d]>() {\n        %[5]s\n        } else { log(%[6]s.concat(\"nil\")) }",
			i, x, et, sz, digestArrStmt(i, fmt.Sprintf("t%d", i), idf), p)
		if sz == n {
			op.Want = digestList(m.arr)
		} else {
			op.Want = "nil"
		}
	case "toVar":
		op.Src = fmt.Sprintf("let t%d = %s.toVariableSized()\n        %s", i, x, digestArrStmt(i, fmt.Sprintf("t%d", i), idf))
		op.Want = digestList(m.arr)
	case "length":
		op.Src = fmt.Sprintf("log(%s.concat(%s.length.toString()))", p, x)
		op.Want = strconv.Itoa(n)
	case "iter":
		op.Src = fmt.Sprintf(`var h%[1]d = 0; var c%[1]d = 0
        for e%[1]d in %[2]s { h%[1]d = (h%[1]d * 31 + %[3]s(e%[1]d) + 7) %% 1000000007; c%[1]d = c%[1]d + 1 }
        log(%[4]s.concat("n=").concat(c%[1]d.toString()).concat(" h=").concat(h%[1]d.toString()))`, i, x, idf, p)
		h := 0
		for _, id := range m.arr {
			h = (h*31 + id + 7) % c20Mod
		}
		op.Want = fmt.Sprintf("n=%d h=%d", n, h)
	}
	return op
}

func (g *c20gen) fillArr(i int, m *c20model, count int) c20op {
	base := g.ctr + 1
	g.ctr += count
	op := c20op{Name: "fill", Mutate: true}
	op.Src = fmt.Sprintf("var f%[1]d = 0; while f%[1]d < %[2]d { %[3]s.append(T.mk(%[4]d + f%[1]d)); f%[1]d = f%[1]d + 1 }; log(%[5]s.concat(%[3]s.length.toString()))",
		i, count, g.x, base, pre(i))
	for j := 0; j < count; j++ {
		m.arr = append(m.arr, base+j)
	}
	op.Want = strconv.Itoa(len(m.arr))
	return op
}

// drainArr removes `count` elements: alternately last, first and middle; logs a hash of the removed ids
func (g *c20gen) drainArr(i int, m *c20model, count int) c20op {
	op := c20op{Name: "drain", Mutate: true}
	op.Src = fmt.Sprintf(`var d%[1]d = 0; var h%[1]d = 0
        while d%[1]d < %[2]d {
            var id = 0
            if d%[1]d %% 3 == 0 { id = T.idOf(%[3]s.removeLast()) } else if d%[1]d %% 3 == 1 { id = T.idOf(%[3]s.removeFirst()) } else { id = T.idOf(%[3]s.remove(at: %[3]s.length / 2)) }
            h%[1]d = (h%[1]d * 31 + id + 7) %% 1000000007
            d%[1]d = d%[1]d + 1
        }
        log(%[4]s.concat(%[3]s.length.toString()).concat(" h=").concat(h%[1]d.toString()))`, i, count, g.x, pre(i))
	h := 0
	for d := 0; d < count; d++ {
		var id int
		n := len(m.arr)
		switch d % 3 {
		case 0:
			id = m.arr[n-1]
			m.arr = m.arr[:n-1]
		case 1:
			id = m.arr[0]
			m.arr = m.arr[1:]
		default:
			at := n / 2
			id = m.arr[at]
			m.arr = append(m.arr[:at], m.arr[at+1:]...)
		}
		h = (h*31 + id + 7) % c20Mod
	}
	op.Want = fmt.Sprintf("%d h=%d", len(m.arr), h)
	return op
}

// ---------------------------------------------------------------- dictionary operations

func (g *c20gen) pickKey(m *c20model, universe int) int {
	if len(m.dict) > 0 && g.r.IntN(2) == 0 {
		// an existing key (deterministic choice: the smallest key >= random point, wrapping)
		keys := sortedKeys(m.dict)
		return keys[g.r.IntN(len(keys))]
	}
	return g.r.IntN(universe)
}

func sortedKeys(d map[int]int) []int {
	ks := make([]int, 0, len(d))
	for k := range d {
		ks = append(ks, k)
	}
	sort.Ints(ks)
	return ks
}

func parseIDs(s string) ([]int, bool) {
	var out []int
	for _, p := range splitList(s, ",") {
		v, err := strconv.Atoi(p)
		if err != nil {
			return nil, false
		}
		out = append(out, v)
	}
	return out, true
}

func (g *c20gen) dictOp(i int, m *c20model, universe int) c20op {
	s := g.s
	x := g.x
	idf := g.idf(s.viaRef())
	p := pre(i)
	names := []string{"insert", "insert", "insert", "remove", "remove", "get", "get", "set", "set", "setnil", "containsKey",
		"keys", "values", "forEachKey", "iter", "length", "snapshot"}
	name := names[g.r.IntN(len(names))]
	op := c20op{Name: name}
	optID := func(e string) string {
		return fmt.Sprintf("(%s == nil ? \"nil\" : T.idOf(%s!).toString())", e, e)
	}
	switch name {
	case "insert":
		k, v := g.pickKey(m, universe), g.fresh()
		op.Src = fmt.Sprintf("let o%d = %s.insert(key: T.key(%d), T.mk(%d)); log(%s.concat(%s))", i, x, k, v, p, optID(fmt.Sprintf("o%d", i)))
		if old, ok := m.dict[k]; ok {
			op.Want = strconv.Itoa(old)
		} else {
			op.Want = "nil"
		}
		m.dict[k] = v
		op.Mutate = true
	case "remove":
		k := g.pickKey(m, universe)
		op.Src = fmt.Sprintf("let o%d = %s.remove(key: T.key(%d)); log(%s.concat(%s))", i, x, k, p, optID(fmt.Sprintf("o%d", i)))
		if old, ok := m.dict[k]; ok {
			op.Want = strconv.Itoa(old)
			delete(m.dict, k)
			op.Mutate = true
		} else {
			op.Want = "nil"
		}
	case "get":
		k := g.pickKey(m, universe)
		op.Src = fmt.Sprintf("if let v%d = %s[T.key(%d)] { log(%s.concat(%s(v%d).toString())) } else { log(%s.concat(\"nil\")) }", i, x, k, p, idf, i, p)
		if v, ok := m.dict[k]; ok {
			op.Want = strconv.Itoa(v)
		} else {
			op.Want = "nil"
		}
	case "set":
		k, v := g.pickKey(m, universe), g.fresh()
		op.Src = fmt.Sprintf("%s[T.key(%d)] = T.mk(%d); log(%s.concat(%s.length.toString()))", x, k, v, p, x)
		m.dict[k] = v
		op.Want = strconv.Itoa(len(m.dict))
		op.Mutate = true
	case "setnil":
		k := g.pickKey(m, universe)
		op.Src = fmt.Sprintf("%s[T.key(%d)] = nil; log(%s.concat(%s.length.toString()))", x, k, p, x)
		if _, ok := m.dict[k]; ok {
			delete(m.dict, k)
			op.Mutate = true
		}
		op.Want = strconv.Itoa(len(m.dict))
	case "containsKey":
		k := g.pickKey(m, universe)
		op.Src = fmt.Sprintf("log(%s.concat(%s.containsKey(T.key(%d)) ? \"true\" : \"false\"))", p, x, k)
		_, ok := m.dict[k]
		op.Want = strconv.FormatBool(ok)
	case "length":
		op.Src = fmt.Sprintf("log(%s.concat(%s.length.toString()))", p, x)
		op.Want = strconv.Itoa(len(m.dict))
	case "keys", "values", "iter", "forEachKey":
		// multiset hash of the enumerated ids (order-free) + count
		stop := 0
		var loop string
		switch name {
		case "keys":
			loop = fmt.Sprintf("for q in %s.keys { let id = T.keyId(q); ACC }", x)
		case "values":
			loop = fmt.Sprintf("for q in %s.values { let id = %s(q); ACC }", x, idf)
		case "iter":
			loop = fmt.Sprintf("for q in %s { let id = T.keyId(q); ACC }", x)
		case "forEachKey":
			if g.r.IntN(2) == 0 {
				stop = 1 + g.r.IntN(4)
			}
			ret := "true"
			if stop > 0 {
				ret = fmt.Sprintf("c%d < %d", i, stop)
			}
			loop = fmt.Sprintf("%s.forEachKey(fun (q: %s): Bool { let id = T.keyId(q); ACC; return %s })", x, s.KT(), ret)
		}
		acc := fmt.Sprintf("h%[1]d = (h%[1]d + (id * 7919 + 11) %% 1000000007 * (id %% 97 + 1)) %% 1000000007; c%[1]d = c%[1]d + 1; if c%[1]d <= 48 { l%[1]d = l%[1]d.concat(id.toString()).concat(\",\") }", i)
		op.Src = fmt.Sprintf("var h%[1]d = 0; var c%[1]d = 0; var l%[1]d = \"\"\n        %[2]s\n        log(%[3]s.concat(c%[1]d.toString()).concat(\" \").concat(h%[1]d.toString()).concat(\" \").concat(l%[1]d))",
			i, strings.ReplaceAll(loop, "ACC", acc), p)
		want := map[int]int{} // id -> multiplicity
		if name == "values" {
			for _, v := range m.dict {
				want[v]++
			}
		} else {
			for k := range m.dict {
				want[k]++
			}
		}
		total := len(m.dict)
		hashOf := func(ids map[int]int) int {
			h := 0
			for id, c := range ids {
				for j := 0; j < c; j++ {
					h = (h + (id*7919+11)%c20Mod*(id%97+1)) % c20Mod
				}
			}
			return h
		}
		wantH := hashOf(want)
		op.Check = func(got string) string {
			parts := strings.SplitN(got, " ", 3)
			if len(parts) != 3 {
				return "malformed enumeration log " + got
			}
			cnt, _ := strconv.Atoi(parts[0])
			h, _ := strconv.Atoi(parts[1])
			ids, okp := parseIDs(parts[2])
			if !okp {
				return "malformed id list " + parts[2]
			}
			seen := map[int]int{}
			for _, id := range ids {
				seen[id]++
				if seen[id] > want[id] {
					return fmt.Sprintf("%s enumerated id %d more often (%d) than the model holds it (%d)", name, id, seen[id], want[id])
				}
			}
			if stop > 0 {
				exp := stop
				if total < stop {
					exp = total
				}
				if cnt != exp {
					return fmt.Sprintf("forEachKey visited %d keys, expected %d (size %d, stop after %d)", cnt, exp, total, stop)
				}
				return ""
			}
			if cnt != total {
				return fmt.Sprintf("%s enumerated %d entries, the model holds %d", name, cnt, total)
			}
			if h != wantH {
				return fmt.Sprintf("%s enumerated a different multiset (hash %d, model %d)", name, h, wantH)
			}
			return ""
		}
	case "snapshot":
		// keys, values, forEachKey and for-in in ONE snapshot: multisets + mutual consistency of the orders
		if len(m.dict) > 150 {
			op.Name = "length"
			op.Src = fmt.Sprintf("log(%s.concat(%s.length.toString()))", p, x)
			op.Want = strconv.Itoa(len(m.dict))
			break
		}
		op.Src = fmt.Sprintf(`var s%[1]d = "K:"
        let ks%[1]d = %[2]s.keys
        let vs%[1]d = %[2]s.values
        for q in ks%[1]d { s%[1]d = s%[1]d.concat(T.keyId(q).toString()).concat(",") }
        s%[1]d = s%[1]d.concat(" V:")
        for q in vs%[1]d { s%[1]d = s%[1]d.concat(%[3]s(q).toString()).concat(",") }
        s%[1]d = s%[1]d.concat(" F:")
        %[2]s.forEachKey(fun (q: %[4]s): Bool { s%[1]d = s%[1]d.concat(T.keyId(q).toString()).concat(","); return true })
        s%[1]d = s%[1]d.concat(" I:")
        for q in %[2]s { s%[1]d = s%[1]d.concat(T.keyId(q).toString()).concat(",") }
        log(%[5]s.concat(s%[1]d))`, i, x, idf, s.KT(), p)
		snap := m.clone().dict
		op.Check = func(got string) string {
			secs := strings.Split(got, " ")
			if len(secs) != 4 {
				return "malformed snapshot " + got
			}
			var lists [4][]int
			for j, tag := range []string{"K:", "V:", "F:", "I:"} {
				if !strings.HasPrefix(secs[j], tag) {
					return "malformed snapshot section " + secs[j]
				}
				ids, okp := parseIDs(secs[j][2:])
				if !okp {
					return "malformed snapshot ids " + secs[j]
				}
				lists[j] = ids
			}
			ks, vs, fs, is := lists[0], lists[1], lists[2], lists[3]
			if len(ks) != len(snap) || len(vs) != len(snap) || len(fs) != len(snap) || len(is) != len(snap) {
				return fmt.Sprintf("snapshot sizes keys=%d values=%d forEachKey=%d for-in=%d, model %d", len(ks), len(vs), len(fs), len(is), len(snap))
			}
			seen := map[int]bool{}
			for _, k := range ks {
				if _, ok := snap[k]; !ok || seen[k] {
					return fmt.Sprintf("keys contains %d which is absent from the model or repeated", k)
				}
				seen[k] = true
			}
			var wantV, gotV []string
			for _, v := range snap {
				wantV = append(wantV, strconv.Itoa(v))
			}
			for _, v := range vs {
				gotV = append(gotV, strconv.Itoa(v))
			}
			if !sameMultiset(wantV, gotV) {
				return "values is not the model's multiset of values"
			}
			for j := range ks {
				if vs[j] != snap[ks[j]] {
					return fmt.Sprintf("ORDER: values[%d]=%d is not the value of keys[%d]=%d (%d)", j, vs[j], j, ks[j], snap[ks[j]])
				}
				if fs[j] != ks[j] || is[j] != ks[j] {
					return fmt.Sprintf("ORDER: position %d: keys=%d forEachKey=%d for-in=%d", j, ks[j], fs[j], is[j])
				}
			}
			return ""
		}
	}
	return op
}

func (g *c20gen) fillDict(i int, m *c20model, lo, count int) c20op {
	base := g.ctr + 1
	g.ctr += count
	op := c20op{Name: "fill", Mutate: true}
	op.Src = fmt.Sprintf("var f%[1]d = 0; while f%[1]d < %[2]d { %[3]s[T.key(%[4]d + f%[1]d)] = T.mk(%[5]d + f%[1]d); f%[1]d = f%[1]d + 1 }; log(%[6]s.concat(%[3]s.length.toString()))",
		i, count, g.x, lo, base, pre(i))
	for j := 0; j < count; j++ {
		m.dict[lo+j] = base + j
	}
	op.Want = strconv.Itoa(len(m.dict))
	return op
}

func (g *c20gen) drainDict(i int, m *c20model, lo, count int) c20op {
	op := c20op{Name: "drain", Mutate: true}
	op.Src = fmt.Sprintf(`var d%[1]d = 0; var r%[1]d = 0
        while d%[1]d < %[2]d { if %[3]s.remove(key: T.key(%[4]d + d%[1]d)) != nil { r%[1]d = r%[1]d + 1 }; d%[1]d = d%[1]d + 1 }
        log(%[5]s.concat(%[3]s.length.toString()).concat(" removed=").concat(r%[1]d.toString()))`, i, count, g.x, lo, pre(i))
	removed := 0
	for j := 0; j < count; j++ {
		if _, ok := m.dict[lo+j]; ok {
			delete(m.dict, lo+j)
			removed++
		}
	}
	op.Want = fmt.Sprintf("%d removed=%d", len(m.dict), removed)
	return op
}

// ---------------------------------------------------------------- history

type c20group struct {
	ops   []c20op
	src   string
	fail  bool      // last op must fail
	after *c20model // committed model after the group
	final string    // digest log expected at the end of the group (when not failing)
}

func (s c20shape) digestFinal(i int, x string, viaRef bool) string {
	idf := "T.idOf"
	if viaRef {
		idf = "T.idOfR"
	}
	if s.Cont == "dict" {
		return digestDictStmt(i, x, idf)
	}
	return digestArrStmt(i, x, idf)
}

func (m *c20model) digest(s c20shape) string {
	if s.Cont == "dict" {
		return digestDict(m.dict)
	}
	return digestList(m.arr)
}

func (s c20shape) initExpr(m *c20model, g *c20gen) string {
	switch s.Cont {
	case "varr":
		return "[]"
	case "dict":
		return "{}"
	}
	ids := make([]int, s.N)
	for i := range ids {
		ids[i] = g.fresh()
	}
	m.arr = ids
	return mkList(ids)
}

func (s c20shape) wrapTx(body string, footer string) string {
	var hdr string
	switch s.Mode {
	case "ref":
		hdr = fmt.Sprintf("let r = a.storage.borrow<auth(Mutate) &%s>(from: /storage/c)!", s.CT())
	case "boxref":
		hdr = "let b = a.storage.borrow<auth(Mutate) &T.Box>(from: /storage/c)!\n        let r = b.xs"
	case "loadsave":
		hdr = fmt.Sprintf("var xs = a.storage.load<%s>(from: /storage/c)!", s.CT())
	case "boxload":
		hdr = "var box = a.storage.load<T.Box>(from: /storage/c)!"
	}
	return fmt.Sprintf("import T from 0x9\ntransaction {\n    prepare(a: auth(Storage) &Account) {\n        %s\n        %s\n        %s\n    }\n}\n", hdr, body, footer)
}

func (s c20shape) target() string {
	switch s.Mode {
	case "ref", "boxref":
		return "r"
	case "boxload":
		return "box.xs"
	}
	return "xs"
}

func (s c20shape) footer() string {
	switch s.Mode {
	case "loadsave":
		return "a.storage.save(xs, to: /storage/c)"
	case "boxload":
		return "a.storage.save(box, to: /storage/c)"
	}
	return ""
}

func (s c20shape) setupTx(init string) string {
	v := fmt.Sprintf("let xs: %s = %s", s.CT(), init)
	save := "a.storage.save(xs, to: /storage/c)"
	if s.isBox() {
		save = "a.storage.save(T.Box(xs), to: /storage/c)"
	}
	return fmt.Sprintf("import T from 0x9\ntransaction {\n    prepare(a: auth(Storage) &Account) {\n        %s\n        %s\n    }\n}\n", v, save)
}

func (s c20shape) finalScript() string {
	var hdr string
	if s.isBox() {
		hdr = "let b = getAuthAccount<auth(Storage) &Account>(0x1).storage.borrow<&T.Box>(from: /storage/c)!\n    let r = b.xs"
	} else {
		hdr = fmt.Sprintf("let r = getAuthAccount<auth(Storage) &Account>(0x1).storage.borrow<&%s>(from: /storage/c)!", s.CT())
	}
	return fmt.Sprintf("import T from 0x9\naccess(all) fun main() {\n    %s\n    %s\n}\n", hdr, s.digestFinal(0, "r", true))
}

var c20Sizes = map[string][]int{
	"quick":    {0, 1, 3, 34, 36, 125},
	"thorough": {0, 1, 3, 34, 36, 125, 128, 500, 2000},
}

func c20pickShape(r *rand.Rand, tier string, cs int) (c20shape, int) {
	s := c20shape{}
	s.Kind = cs % len(c20Kinds)
	switch (cs / len(c20Kinds)) % 5 {
	case 0, 1:
		s.Cont = "varr"
	case 2:
		s.Cont = "carr"
	default:
		s.Cont = "dict"
	}
	s.Mode = []string{"local", "ref", "boxref", "loadsave", "boxload"}[(cs/(5*len(c20Kinds)))%5]
	s.KeyS = r.IntN(2) == 0
	sizes := c20Sizes[tier]
	size := sizes[r.IntN(len(sizes))]
	if s.k().Big && size > 40 && r.IntN(4) != 0 {
		size = 36
	}
	if s.Cont == "carr" {
		s.N = []int{0, 1, 3, 8, 40}[r.IntN(5)]
		size = s.N
	}
	return s, size
}

func c20Build(r *rand.Rand, tier string, cs int) (s c20shape, setup string, groups []c20group, script string) {
	s, size := c20pickShape(r, tier, cs)
	g := &c20gen{s: s, r: r, x: s.target()}
	nops := 60
	if tier == "thorough" {
		nops = 200
	}
	model := &c20model{dict: map[int]int{}}
	init := s.initExpr(model, g)
	setup = s.setupTx(init)
	universe := size*2 + 8
	local := s.Mode == "local"
	i := 0
	var localBody strings.Builder
	opsLeft := nops
	first := true
	for opsLeft > 0 {
		gsz := 4 + r.IntN(13)
		if gsz > opsLeft {
			gsz = opsLeft
		}
		work := model.clone()
		grp := c20group{}
		var body strings.Builder
		for j := 0; j < gsz; j++ {
			var op c20op
			cur := len(work.arr)
			if s.Cont == "dict" {
				cur = len(work.dict)
			}
			switch {
			case s.Cont != "carr" && first && j == 0 && size > 0:
				if s.Cont == "dict" {
					op = g.fillDict(i, work, 0, size)
				} else {
					op = g.fillArr(i, work, size)
				}
			case s.Cont == "varr" && r.IntN(40) == 0 && cur > 0:
				cnt := cur
				if r.IntN(2) == 0 {
					cnt = 1 + r.IntN(cur)
				}
				op = g.drainArr(i, work, cnt)
			case s.Cont == "varr" && r.IntN(40) == 0 && cur < size:
				op = g.fillArr(i, work, size-cur+r.IntN(4))
			case s.Cont == "dict" && r.IntN(40) == 0 && cur > 0:
				op = g.drainDict(i, work, r.IntN(universe/2+1), 1+r.IntN(universe))
			case s.Cont == "dict" && r.IntN(40) == 0:
				op = g.fillDict(i, work, r.IntN(universe/2+1), 1+r.IntN(size+2))
			case s.Cont == "dict":
				op = g.dictOp(i, work, universe)
			default:
				// an invalid index aborts the transaction; in a script it ends the history: only as the very last op
				allowInvalid := !local || opsLeft == 1
				op = g.arrOp(i, work, allowInvalid)
			}
			grp.ops = append(grp.ops, op)
			body.WriteString("        " + op.Src + "\n")
			i++
			opsLeft--
			if op.Fail {
				grp.fail = true
				break
			}
		}
		first = false
		if !grp.fail {
			model = work
			grp.final = model.digest(s)
		}
		grp.after = model.clone()
		if local {
			localBody.WriteString(body.String())
			// group boundary: digest of the whole container
			if !grp.fail {
				localBody.WriteString("        " + s.digestFinal(1000000+i, "xs", false) + "\n")
			}
		} else {
			grp.src = s.wrapTx(strings.TrimSpace(body.String()), s.digestFinal(1000000+i, g.x, s.viaRef())+"\n        "+s.footer())
		}
		groups = append(groups, grp)
		if grp.fail && local {
			break
		}
	}
	if local {
		script = fmt.Sprintf("import T from 0x9\naccess(all) fun main() {\n        var xs: %s = %s\n%s}\n", s.CT(), init, localBody.String())
	}
	return
}

func init() {
	core.Register(&core.Prop{
		ID: "C20",
		Rule: "one case = one history of 60 (quick) / 200 (thorough) operations on one container: shape cycles deterministically over {[T] x2, [T; N], {K: T} x2} x 7 element kinds (Int, small String, 2 KB String, nested [Int] of 3 and of 80, small struct, large struct) x 5 locations (script-local variable; stored container through auth(Mutate) reference; field of a stored struct through a reference; load / owned ops / save back; same with the container in a struct field); sizes driven to 0, 1, 3, 34-36, 125-128 (thorough also 500, 2000) by bulk fill / drain operations so atree slab split and merge thresholds are crossed both ways; operations grouped into transactions of 4-16 (fresh runtime each, digest of the whole container logged at every commit), ~1.5% invalid indices (the transaction must fail with an index error and roll back); 3 engines; distinct = rendered history; non-trivial = at least one mutating operation committed",
		Assumptions: []string{
			"reference model: Go slice / map over abstract element ids; T.mk / T.idOf / T.idOfR (contract helpers) build and validate elements",
			"dictionary iteration order is not modelled: keys / values / forEachKey / for-in are compared as multisets; within ONE snapshot keys, values, forEachKey and for-in must agree on the order (DESIGN §C20)",
			"an invalid index must produce a user error whose kind names an index / slice / bounds problem",
		},
		NumCases: func(tier string) int {
			if tier == "thorough" {
				return 1750
			}
			return 350
		},
		Floors: map[string]int64{
			"ops_checked": 12000, "groups_committed": 1300, "groups_failed_invalid_index": 80, "final_readbacks": 200,
			"cont_varr": 28, "cont_carr": 14, "cont_dict": 28, "mode_local": 14, "mode_ref": 14, "mode_boxref": 14, "mode_loadsave": 14, "mode_boxload": 14,
			"kind_big": 30, "size_ge_100": 30, "op_slice": 130, "op_reverse": 140, "op_filter": 140, "op_map": 140, "op_insert": 400, "op_remove": 300,
			"op_snapshot": 90, "op_forEachKey": 90, "op_drain": 80, "op_toConst": 60, "op_firstIndex": 80, "op_concat": 70, "op_appendAll": 60,
			"op_keys": 90, "op_values": 90, "op_containsKey": 90, "op_contains": 55, "op_toVar": 75,
		},
		Run: c20Run,
	})
}

func c20IndexError(kind string) bool {
	return strings.Contains(kind, "Index") || strings.Contains(kind, "Slice") || strings.Contains(kind, "Bounds")
}

func c20Run(c *core.Ctx) {
	s, setup, groups, script := c20Build(c.Rng, c.Tier, c.Case)
	local := s.Mode == "local"
	// monitors (model side)
	c.Inc("cont_" + s.Cont)
	c.Inc("mode_" + s.Mode)
	if s.k().Big {
		c.Inc("kind_big")
	}
	mutated := false
	var text strings.Builder
	text.WriteString(s.String())
	for _, g := range groups {
		for _, op := range g.ops {
			c.Inc("op_" + op.Name)
			if op.Mutate && !g.fail {
				mutated = true
			}
			text.WriteString(op.Src)
		}
		if n := len(g.after.arr) + len(g.after.dict); n >= 100 {
			c.Inc("size_ge_100")
		}
	}
	if mutated {
		c.Distinct(text.String())
	}
	if c.WantSample() {
		smp := map[string]any{"shape": s.String(), "groups": len(groups)}
		if local {
			smp["script"] = core.Clip(script, 3000)
		} else {
			smp["first_transaction"] = core.Clip(groups[0].src, 3000)
		}
		c.Sample(smp)
	}

	for _, eng := range host.AllEngines {
		se := newSession(eng, false)
		base := func(extra map[string]any) map[string]any {
			w := map[string]any{"engine": eng.String(), "shape": s.String(), "contract": s.contract()}
			for k, v := range extra {
				w[k] = v
			}
			return w
		}
		if o := se.deploy(host.Addr(9), "T", s.contract()); o.Err != nil || o.Escaped != nil {
			c.Violate("harness:c20-deploy:"+s.k().Name+":"+s.Cont, "cannot deploy the C20 contract: "+host.ErrText(o), base(nil))
			return
		}
		// checkLogs compares the logs of one execution against the predictions of the ops
		checkLogs := func(ops []c20op, finals []string, logs []string, o host.Outcome, src string, mustFail bool) bool {
			wit := func(extra map[string]any) map[string]any {
				w := base(map[string]any{"program": core.Clip(src, 20000), "observed_logs": clipLines(logs, 40, 400), "error": host.ErrText(o), "history": se.history(3)})
				for k, v := range extra {
					w[k] = v
				}
				return w
			}
			cls, kind := errClassKind(o)
			if cls == host.ClassInternal || cls == host.ClassEscaped || cls == host.ClassOther {
				c.Violate("c20:non-user-failure:"+s.Cont+":"+s.k().Name+":"+kind, "a container history produced a non-user failure", wit(nil))
				return false
			}
			// index logs by prefix
			byIdx := map[string]string{}
			for _, l := range logs {
				if k := strings.Index(l, "|"); k > 0 {
					byIdx[l[:k]] = l[k+1:]
				}
			}
			// ops are numbered globally: recover the numbers from the sources ("<n>|")
			for j, op := range ops {
				num := opNumber(op.Src)
				got, present := byIdx[num]
				last := j == len(ops)-1
				if op.Fail {
					if present || o.Err == nil {
						c.Violate(fmt.Sprintf("c20:missing-index-error:%s:%s:%s", s.Cont, op.Name, accessClass(s)), "an operation with an invalid index did not fail", wit(map[string]any{"op": op.Src}))
						return false
					}
					if !c20IndexError(kind) {
						c.Violate(fmt.Sprintf("c20:wrong-error-kind:%s:%s:%s", s.Cont, op.Name, kind), "an invalid index failed with an error that is not an index error", wit(map[string]any{"op": op.Src}))
						return false
					}
					c.Inc("errkind_" + kind)
					c.Inc("ops_checked")
					return true
				}
				if !present {
					c.Violate(fmt.Sprintf("c20:unexpected-failure:%s:%s:%s:%s:%s", s.Cont, s.k().Name, op.Name, accessClass(s), kind),
						"the model predicts a result, the operation did not log one (execution failed or stopped)", wit(map[string]any{"op": op.Src, "expected": op.Want}))
					return false
				}
				c.Inc("ops_checked")
				if op.Check != nil {
					if prob := op.Check(got); prob != "" {
						key := "multiset"
						if strings.HasPrefix(prob, "ORDER") {
							key = "order-consistency"
						}
						c.Violate(fmt.Sprintf("c20:dict-%s:%s:%s:%s", key, op.Name, s.k().Name, accessClass(s)), prob, wit(map[string]any{"op": op.Src, "observed": got}))
						return false
					}
				} else if got != op.Want {
					c.Violate(fmt.Sprintf("c20:result:%s:%s:%s:%s", s.Cont, op.Name, s.k().Name, accessClass(s)),
						fmt.Sprintf("operation %s logged %q, the model predicts %q", op.Name, core.Clip(got, 300), core.Clip(op.Want, 300)),
						wit(map[string]any{"op": op.Src, "observed": got, "expected": op.Want}))
					return false
				}
				_ = last
			}
			if mustFail {
				return true
			}
			if o.Err != nil {
				c.Violate(fmt.Sprintf("c20:unexpected-failure:%s:%s:end:%s:%s", s.Cont, s.k().Name, accessClass(s), kind), "all operations logged their results but the execution failed", wit(nil))
				return false
			}
			// group-end digests (logged with numbers >= 1000000, in order)
			var digs []string
			for _, l := range logs {
				if k := strings.Index(l, "|"); k >= 7 {
					digs = append(digs, l[k+1:])
				}
			}
			if len(digs) != len(finals) {
				c.Violate("c20:digest-count", fmt.Sprintf("%d container digests logged, expected %d", len(digs), len(finals)), wit(nil))
				return false
			}
			for j := range finals {
				if digs[j] != finals[j] {
					c.Violate(fmt.Sprintf("c20:contents:%s:%s:%s", s.Cont, s.k().Name, accessClass(s)),
						fmt.Sprintf("container contents after the group: %q, the model predicts %q", core.Clip(digs[j], 300), core.Clip(finals[j], 300)),
						wit(map[string]any{"observed": digs[j], "expected": finals[j]}))
					return false
				}
			}
			return true
		}

		if local {
			o := se.script(script)
			c.Eval(1)
			var ops []c20op
			var finals []string
			mustFail := false
			for _, g := range groups {
				ops = append(ops, g.ops...)
				if g.fail {
					mustFail = true
				} else {
					finals = append(finals, g.final)
				}
			}
			if checkLogs(ops, finals, se.logs(), o, script, mustFail) {
				if mustFail {
					c.Inc("groups_failed_invalid_index")
				} else {
					c.Count("groups_committed", int64(len(groups)))
				}
				c.Inc("final_readbacks")
			}
			continue
		}

		if o := se.tx(setup, []common.Address{host.Addr(1)}); o.Err != nil || o.Escaped != nil {
			c.Violate("harness:c20-setup:"+s.Cont+":"+s.k().Name+":"+s.Mode, "setup transaction failed: "+host.ErrText(o), base(map[string]any{"program": setup}))
			return
		}
		ok := true
		for _, g := range groups {
			o := se.tx(g.src, []common.Address{host.Addr(1)})
			c.Eval(1)
			var finals []string
			if !g.fail {
				finals = []string{g.final}
			}
			if !checkLogs(g.ops, finals, se.logs(), o, g.src, g.fail) {
				ok = false
				break
			}
			if g.fail {
				c.Inc("groups_failed_invalid_index")
			} else {
				c.Inc("groups_committed")
			}
		}
		if !ok {
			continue
		}
		// final contents read back by a fresh script
		fs := s.finalScript()
		o := se.script(fs)
		c.Eval(1)
		want := groups[len(groups)-1].after.digest(s)
		logs := se.logs()
		if o.Err != nil || len(logs) != 1 || !strings.HasSuffix(logs[0], "|"+want) {
			c.Violate(fmt.Sprintf("c20:final-contents:%s:%s:%s", s.Cont, s.k().Name, accessClass(s)),
				fmt.Sprintf("final stored contents read back as %v (err %q), the model predicts %q", clipLines(logs, 3, 300), core.Clip(host.ErrText(o), 300), core.Clip(want, 300)),
				base(map[string]any{"program": fs, "history": se.history(3)}))
			continue
		}
		c.Inc("final_readbacks")
	}
}

func accessClass(s c20shape) string { return s.Mode }

// opNumber extracts the op number from the first `"<n>|"` literal of the source.
func opNumber(src string) string {
	i := strings.Index(src, "|\"")
	if i < 0 {
		return ""
	}
	j := i
	for j > 0 && src[j-1] >= '0' && src[j-1] <= '9' {
		j--
	}
	return src[j:i]
}
