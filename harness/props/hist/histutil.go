package hist

import (
	"fmt"
	"sort"
	"strconv"
	"strings"

	"github.com/onflow/cadence/common"

	"verif/harness/core"
	"verif/harness/host"
)

// session = one engine's host whose ledger evolves over a history. In "fresh" mode every
// transaction runs through host.RunTx (new runtime + environment + program cache); in "reuse" mode
// through host.ReuseSession (one runtime and environment kept, as embedders do).
type session struct {
	h     *host.Host
	eng   host.Engine
	reuse *host.ReuseSession
	// trace of executed transactions (for witnesses)
	txs []string
}

func newSession(eng host.Engine, reuse bool) *session {
	h := host.New()
	s := &session{h: h, eng: eng}
	if reuse {
		s.reuse = h.NewReuseSession(eng)
	}
	return s
}

func (s *session) mode() string {
	if s.reuse != nil {
		return "reuse-env"
	}
	return "fresh"
}

// tx runs one transaction; the host trace is reset first, so h.Logs / h.Recs describe this transaction only.
func (s *session) tx(code string, signers []common.Address) host.Outcome {
	s.h.ResetTrace()
	s.txs = append(s.txs, fmt.Sprintf("// signers %v\n%s", signers, code))
	if s.reuse != nil {
		return s.reuse.RunTx(code, nil, signers, nil, nil)
	}
	return s.h.RunTx(s.eng, code, nil, signers, nil)
}

func (s *session) deploy(addr common.Address, name, code string) host.Outcome {
	tx := fmt.Sprintf(`transaction { prepare(signer: auth(Contracts) &Account) { signer.contracts.add(name: "%s", code: "%x".decodeHex()) } }`, name, code)
	s.h.ResetTrace()
	if s.reuse != nil {
		return s.reuse.RunTx(tx, nil, []common.Address{addr}, nil, nil)
	}
	return s.h.RunTx(s.eng, tx, nil, []common.Address{addr}, nil)
}

func (s *session) script(code string) host.Outcome {
	s.h.ResetTrace()
	return s.h.RunScript(s.eng, code, nil, nil)
}

// history returns the last n transactions for a witness.
func (s *session) history(n int) []string {
	t := s.txs
	if len(t) > n {
		t = t[len(t)-n:]
	}
	out := make([]string, len(t))
	for i, x := range t {
		out[i] = core.Clip(x, 6000)
	}
	return out
}

func errClassKind(o host.Outcome) (host.ErrClass, string) {
	cls := host.Classify(o)
	if o.Err == nil {
		return cls, ""
	}
	ks := host.ErrKinds(o.Err)
	k := ""
	if len(ks) > 0 {
		k = ks[len(ks)-1]
	}
	return cls, k
}

func sortedCopy(xs []string) []string {
	out := append([]string(nil), xs...)
	sort.Strings(out)
	return out
}

func sameMultiset(a, b []string) bool {
	if len(a) != len(b) {
		return false
	}
	x, y := sortedCopy(a), sortedCopy(b)
	for i := range x {
		if x[i] != y[i] {
			return false
		}
	}
	return true
}

func splitList(s, sep string) []string {
	if s == "" {
		return nil
	}
	parts := strings.Split(s, sep)
	if parts[len(parts)-1] == "" {
		parts = parts[:len(parts)-1]
	}
	return parts
}

func addrLit(n int) string { return fmt.Sprintf("0x%x", n) }

func clipLines(xs []string, n, each int) []string {
	if len(xs) > n {
		xs = xs[:n]
	}
	out := make([]string, len(xs))
	for i, x := range xs {
		out[i] = core.Clip(x, each)
	}
	return out
}

// logs returns the program logs of the last execution with the string quoting of log(String) removed.
func (s *session) logs() []string {
	out := make([]string, len(s.h.Logs))
	for i, l := range s.h.Logs {
		out[i] = unquote(l)
	}
	return out
}

func unquote(l string) string {
	if len(l) >= 2 && l[0] == '"' {
		if u, err := strconv.Unquote(l); err == nil {
			return u
		}
	}
	return l
}
