package hist

import (
	"fmt"
	"math/rand/v2"
	"strings"

	"github.com/onflow/cadence/common"

	"verif/harness/audit"
	"verif/harness/core"
	"verif/harness/host"
)

// C23 — committed storage is always healthy.
//
// Monitor: the ledger auditor (audit.Inspect: atree.CheckStorageHealth on a fresh runtime storage over the
// ledger bytes + an independent slab graph built from the decoded registers + account roots read from the
// `stored` registers + a walk decoding every stored value) after EVERY committed transaction of
//   (1) C22-style typed-path histories, (2) C20-style container histories, (3) a dedicated slab-stress profile.

const c23Contract = `
access(all) contract Z {
    access(all) let pad: String
    access(all) let longpad: String

    // dictionary keys too large to be inlined in the map slab (own StorableSlab): long strings and huge integers
    access(all) fun longKey(_ k: Int): String {
        let lens = [300, 700, 2000]
        return k.toString().concat(":").concat(self.longpad.slice(from: 0, upTo: lens[k % 3]))
    }
    access(all) fun bigKey(_ k: Int): Int { return (1 << 4000) + k }
    access(all) fun bigUKey(_ k: Int): UInt { return (UInt(1) << 3000) + UInt(k) }
    access(all) fun longKeyDict(_ n: Int, _ m: Int, _ big: Bool): {String: [String]} {
        var d: {String: [String]} = {}
        var i = 0
        while i < n { d[self.longKey(i)] = self.arr1(m, big); i = i + 1 }
        return d
    }
    access(all) fun bigKeyDict(_ n: Int): {Int: String} {
        var d: {Int: String} = {}
        var i = 0
        while i < n { d[self.bigKey(i)] = i.toString(); i = i + 1 }
        return d
    }

    access(all) fun str(_ n: Int, _ big: Bool): String {
        if big { return n.toString().concat(":").concat(self.pad) }
        return n.toString()
    }
    access(all) fun arr1(_ n: Int, _ big: Bool): [String] {
        var a: [String] = []
        var i = 0
        while i < n { a.append(self.str(i, big)); i = i + 1 }
        return a
    }
    access(all) fun arr2(_ n: Int, _ m: Int, _ big: Bool): [[String]] {
        var a: [[String]] = []
        var i = 0
        while i < n { a.append(self.arr1(m, big)); i = i + 1 }
        return a
    }
    access(all) fun arr3(_ n: Int, _ m: Int, _ k: Int, _ big: Bool): [[[String]]] {
        var a: [[[String]]] = []
        var i = 0
        while i < n { a.append(self.arr2(m, k, big)); i = i + 1 }
        return a
    }
    access(all) fun dict1(_ n: Int, _ m: Int, _ big: Bool): {String: [String]} {
        var d: {String: [String]} = {}
        var i = 0
        while i < n { d["k".concat(i.toString())] = self.arr1(m, big); i = i + 1 }
        return d
    }
    access(all) fun dict2(_ n: Int, _ m: Int): {String: {String: [Int]}} {
        var d: {String: {String: [Int]}} = {}
        var i = 0
        while i < n {
            var inner: {String: [Int]} = {}
            var j = 0
            while j < m { inner["j".concat(j.toString())] = [i, j, i + j]; j = j + 1 }
            d["k".concat(i.toString())] = inner
            i = i + 1
        }
        return d
    }

    access(all) struct SNode {
        access(all) var kids: [SNode]
        access(all) var m: {String: [String]}
        access(all) var label: String
        init(depth: Int, width: Int, big: Bool) {
            self.kids = []
            self.m = Z.dict1(width, 2, big)
            self.label = Z.str(depth, big)
            if depth > 1 {
                var i = 0
                while i < width { self.kids.append(SNode(depth: depth - 1, width: width, big: big)); i = i + 1 }
            }
        }
        access(all) fun grow(_ n: Int, _ big: Bool) {
            var i = 0
            while i < n { self.m["g".concat(i.toString())] = Z.arr1(3, big); i = i + 1 }
        }
        access(all) fun prune() {
            if self.kids.length > 0 { self.kids.removeLast() }
            if self.m.length > 0 { self.m.remove(key: self.m.keys[0]) }
        }
    }
    access(all) attachment SAtt for SNode {
        access(all) var notes: [String]
        init() { self.notes = Z.arr1(4, true) }
    }

    access(all) resource Node {
        access(all) var kids: @[Node]
        access(all) var dict: @{String: Node}
        access(all) var data: [String]
        access(all) var nested: [[Int]]
        access(all) var opt: @Node?
        access(all) var deep: [[[String]]]
        access(all) var dd: {String: {String: [Int]}}
        access(all) var s: SNode
        access(all) fun setS(_ s: SNode) { self.s = s }
        init(depth: Int, width: Int, big: Bool) {
            self.s = SNode(depth: 1, width: 1, big: big)
            self.kids <- []
            self.dict <- {}
            self.data = Z.arr1(width, big)
            self.nested = [[depth, width], [1, 2, 3]]
            self.deep = depth == 1 ? Z.arr3(2, width, 2, big) : []
            self.dd = depth == 2 ? Z.dict2(width, 2) : {}
            if depth > 2 {
                self.opt <- create Node(depth: 1, width: width, big: big)
            } else {
                self.opt <- nil
            }
            if depth > 1 {
                var i = 0
                while i < width {
                    self.kids.append(<- create Node(depth: depth - 1, width: width, big: big))
                    i = i + 1
                }
                let old <- self.dict["d"] <- create Node(depth: depth - 1, width: 1, big: big)
                destroy old
            }
        }
        access(all) fun addKid(_ n: @Node) { self.kids.append(<- n) }
        access(all) fun removeKid(at: Int): @Node { return <- self.kids.remove(at: at) }
        access(all) fun putDict(_ k: String, _ n: @Node) { let old <- self.dict[k] <- n; destroy old }
        access(all) fun takeDict(_ k: String): @Node? { return <- self.dict.remove(key: k) }
        access(all) fun setOpt(_ n: @Node?) { let old <- self.opt <- n; destroy old }
        access(all) fun swapKids() {
            // NOTE: self.kids[0] <-> self.kids[n-1] fails with "member kids is used before it has been initialized"
            // on all engines (the resource-typed field is moved out while the left side is evaluated), so swap by hand
            if self.kids.length >= 2 {
                let first <- self.kids.remove(at: 0)
                let last <- self.kids.removeLast()
                self.kids.insert(at: 0, <- last)
                self.kids.append(<- first)
            }
            if self.nested.length >= 2 { self.nested[0] <-> self.nested[self.nested.length - 1] }
        }
        access(all) fun growData(_ n: Int, _ big: Bool) {
            var i = 0
            while i < n { self.data.append(Z.str(i, big)); i = i + 1 }
        }
        access(all) fun shrinkData(_ n: Int) {
            var i = 0
            while i < n && self.data.length > 0 { self.data.removeLast(); i = i + 1 }
        }
        // in-place mutation of 3-deep struct containers held by a stored resource
        access(all) fun deepMutate(_ i: Int, _ n: Int, _ big: Bool) {
            if self.deep.length == 0 { self.deep.appendAll(Z.arr3(2, 2, 2, big)); return }
            let a = i % self.deep.length
            if self.deep[a].length == 0 { self.deep[a].appendAll(Z.arr2(2, n, big)); return }
            let b = i % self.deep[a].length
            if self.deep[a][b].length > n { self.deep[a][b].removeLast() } else { self.deep[a][b].append(Z.str(i, big)) }
            if i % 3 == 0 { self.deep[a][0] = Z.arr1(n, big) }
            if i % 5 == 0 { self.deep[a].remove(at: 0) }
            if i % 7 == 0 { self.deep.remove(at: a) }
            if i % 11 == 0 { self.nested[0].append(i); self.nested.append([i, i]) }
            if i % 13 == 0 && self.nested.length > 1 { self.nested.remove(at: 0) }
        }
        access(all) fun ddMutate(_ k: Int, _ j: Int) {
            let key = "k".concat(k.toString())
            if let inner = &self.dd[key] as auth(Mutate) &{String: [Int]}? {
                inner["j".concat(j.toString())] = [1, 2, 3, 4, 5, 6, 7, 8]
                inner.remove(key: "j".concat(((j + 1) % 5).toString()))
            } else {
                self.dd[key] = {"j0": [0], "j1": [1, 1]}
            }
            if j == 0 { self.dd.remove(key: "k".concat(((k + 1) % 7).toString())) }
        }
        // prune removes (and destroys) the first kid found at the given depth below this node
        access(all) fun prune(_ depth: Int) {
            if self.kids.length == 0 { return }
            if depth <= 1 {
                let k <- self.kids.remove(at: 0)
                destroy k
                return
            }
            let r = &self.kids[0] as &Node
            r.prune(depth - 1)
        }
        access(all) fun growLeaf(_ depth: Int, _ n: Int, _ big: Bool) {
            if depth <= 1 || self.kids.length == 0 { self.growData(n, big); return }
            let r = &self.kids[self.kids.length - 1] as &Node
            r.growLeaf(depth - 1, n, big)
        }
    }
    access(all) attachment Att for Node {
        access(all) var notes: [String]
        access(all) var tree: [[String]]
        init() { self.notes = []; self.tree = Z.arr2(2, 2, false) }
        access(all) fun add(_ n: Int, _ big: Bool) {
            var i = 0
            while i < n { self.notes.append(Z.str(i, big)); i = i + 1 }
        }
    }
    access(all) fun mkTree(_ depth: Int, _ width: Int, _ big: Bool): @Node { return <- create Node(depth: depth, width: width, big: big) }
    access(all) fun abort() { panic("ABORT") }

    init() {
        var p = "0123456789"
        while p.length < 1100 { p = p.concat(p) }
        self.pad = p
        var q = "abcdefghij"
        while q.length < 2000 { q = q.concat(q) }
        self.longpad = q
    }
}`

type c23gen struct {
	r *rand.Rand
	n int
}

func (g *c23gen) b() string {
	if g.r.IntN(3) == 0 {
		return "true"
	}
	return "false"
}

func (g *c23gen) acct() string { return []string{"a", "b"}[g.r.IntN(2)] }

func (g *c23gen) tree() string {
	depth := 1 + g.r.IntN(4)
	width := 1 + g.r.IntN(3)
	if depth == 4 {
		width = 1 + g.r.IntN(2)
	}
	return fmt.Sprintf("Z.mkTree(%d, %d, %s)", depth, width, g.b())
}

func (g *c23gen) sz() int { return []int{0, 1, 2, 3, 5, 12, 40}[g.r.IntN(7)] }

// op returns one state-adaptive statement group (never fails for type reasons) and its class.
func (g *c23gen) op() (string, string) {
	g.n++
	i := g.n
	A, B := g.acct(), g.acct()
	pn := fmt.Sprintf("/storage/n%d", g.r.IntN(2))
	qn := fmt.Sprintf("/storage/n%d", g.r.IntN(2))
	k := g.r.IntN(7)
	idx := g.r.IntN(50)
	switch g.r.IntN(44) {
	case 0, 1:
		return fmt.Sprintf("if %s.storage.type(at: %s) == nil { %s.storage.save(<- %s, to: %s) }", A, pn, A, g.tree(), pn), "node-save"
	case 2:
		return fmt.Sprintf("if let old%d <- %s.storage.load<@Z.Node>(from: %s) { destroy old%d }\n        %s.storage.save(<- %s, to: %s)", i, A, pn, i, A, g.tree(), pn), "node-overwrite"
	case 3:
		return fmt.Sprintf(`if let n%[1]d <- %[2]s.storage.load<@Z.Node>(from: %[3]s) {
            if %[4]s.storage.type(at: %[5]s) == nil { %[4]s.storage.save(<- n%[1]d, to: %[5]s) } else { %[4]s.storage.borrow<&Z.Node>(from: %[5]s)!.addKid(<- n%[1]d) }
        }`, i, A, pn, B, qn), "node-move-to-account"
	case 4:
		return fmt.Sprintf("destroy %s.storage.load<@Z.Node>(from: %s)", A, pn), "node-destroy-stored"
	case 5:
		return fmt.Sprintf("if let t%[1]d = %[2]s.storage.borrow<&Z.Node>(from: %[3]s) { if t%[1]d.kids.length > 0 { let k%[1]d <- t%[1]d.removeKid(at: Int(%[4]d) %% t%[1]d.kids.length); destroy k%[1]d } }", i, A, pn, idx), "node-remove-kid-through-ref"
	case 6:
		return fmt.Sprintf(`if let t%[1]d = %[2]s.storage.borrow<&Z.Node>(from: %[3]s) { if t%[1]d.kids.length > 0 {
            let k%[1]d <- t%[1]d.removeKid(at: Int(%[6]d) %% t%[1]d.kids.length)
            if let u%[1]d = %[4]s.storage.borrow<&Z.Node>(from: %[5]s) { u%[1]d.putDict("g%[7]d", <- k%[1]d) } else { %[4]s.storage.save(<- k%[1]d, to: %[5]s) }
        } }`, i, A, pn, B, qn, idx, k), "node-graft-kid"
	case 7:
		return fmt.Sprintf("if let t%[1]d = %[2]s.storage.borrow<&Z.Node>(from: %[3]s) { t%[1]d.prune(%[4]d) }", i, A, pn, 1+g.r.IntN(3)), "node-prune-deep"
	case 8:
		return fmt.Sprintf("if let t%[1]d = %[2]s.storage.borrow<&Z.Node>(from: %[3]s) { t%[1]d.growLeaf(%[4]d, %[5]d, %[6]s) }", i, A, pn, 1+g.r.IntN(4), g.sz(), g.b()), "node-grow-leaf"
	case 9:
		return fmt.Sprintf("if let t%[1]d = %[2]s.storage.borrow<&Z.Node>(from: %[3]s) { t%[1]d.shrinkData(%[4]d) }", i, A, pn, g.sz()), "node-shrink-data"
	case 10, 33, 34:
		return fmt.Sprintf(`if let n%[1]d <- %[2]s.storage.load<@Z.Node>(from: %[3]s) {
            if n%[1]d[Z.Att] == nil { let m%[1]d <- attach Z.Att() to <- n%[1]d; %[2]s.storage.save(<- m%[1]d, to: %[3]s) }
            else { remove Z.Att from n%[1]d; %[2]s.storage.save(<- n%[1]d, to: %[3]s) }
        }`, i, A, pn), "node-attach-or-remove-attachment"
	case 11:
		return fmt.Sprintf("if let t%[1]d = %[2]s.storage.borrow<&Z.Node>(from: %[3]s) { if let at%[1]d = t%[1]d[Z.Att] { at%[1]d.add(%[4]d, %[5]s) } }", i, A, pn, g.sz(), g.b()), "attachment-grow-through-ref"
	case 12:
		arg := "nil"
		if g.r.IntN(3) != 0 {
			arg = "<- " + g.tree()
		}
		return fmt.Sprintf("if let t%[1]d = %[2]s.storage.borrow<&Z.Node>(from: %[3]s) { t%[1]d.setOpt(%[4]s) }", i, A, pn, arg), "node-replace-optional-field"
	case 13:
		return fmt.Sprintf("if let t%[1]d = %[2]s.storage.borrow<&Z.Node>(from: %[3]s) { t%[1]d.putDict(\"g%[4]d\", <- %[5]s) }", i, A, pn, k, g.tree()), "node-dict-replace"
	case 14:
		return fmt.Sprintf("if let t%[1]d = %[2]s.storage.borrow<&Z.Node>(from: %[3]s) { destroy t%[1]d.takeDict(\"%[4]s\") }", i, A, pn, []string{"d", fmt.Sprintf("g%d", k)}[g.r.IntN(2)]), "node-dict-remove"
	case 15:
		return fmt.Sprintf("if let t%[1]d = %[2]s.storage.borrow<&Z.Node>(from: %[3]s) { t%[1]d.swapKids() }", i, A, pn), "node-swap-kids"
	case 16:
		return fmt.Sprintf("%[1]s.storage.load<[[String]]>(from: /storage/a2)\n        %[1]s.storage.save(Z.arr2(%[2]d, %[3]d, %[4]s), to: /storage/a2)", A, g.sz(), g.sz()%13, g.b()), "array2-overwrite"
	case 17:
		return fmt.Sprintf("if let r%[1]d = %[2]s.storage.borrow<auth(Mutate) &[[String]]>(from: /storage/a2) { if r%[1]d.length > 0 { r%[1]d[Int(%[3]d) %% r%[1]d.length] = Z.arr1(%[4]d, %[5]s) } }", i, A, idx, g.sz(), g.b()), "array2-replace-child-through-ref"
	case 18:
		return fmt.Sprintf(`if let v0%[1]d = %[2]s.storage.load<[[String]]>(from: /storage/a2) {
            var v%[1]d = v0%[1]d
            if v%[1]d.length > 0 {
                let j%[1]d = Int(%[3]d) %% v%[1]d.length
                if v%[1]d[j%[1]d].length > 0 { v%[1]d[j%[1]d].remove(at: Int(%[3]d) %% v%[1]d[j%[1]d].length) } else { v%[1]d[j%[1]d].appendAll(Z.arr1(%[4]d, %[5]s)) }
            }
            %[6]s.storage.load<[[String]]>(from: /storage/a2)
            %[6]s.storage.save(v%[1]d, to: /storage/a2)
        }`, i, A, idx, g.sz(), g.b(), B), "array2-load-nested-remove-save-other-account"
	case 19:
		return fmt.Sprintf("if let t%[1]d = %[2]s.storage.borrow<&Z.Node>(from: %[3]s) { t%[1]d.deepMutate(%[4]d, %[5]d, %[6]s) }", i, A, pn, idx, g.sz()%13, g.b()), "node-deep-struct-mutation-in-place"
	case 20:
		return fmt.Sprintf("if let r%[1]d = %[2]s.storage.borrow<auth(Mutate) &[[String]]>(from: /storage/a2) { if r%[1]d.length > 0 { r%[1]d.remove(at: Int(%[3]d) %% r%[1]d.length) } else { r%[1]d.appendAll(Z.arr2(%[4]d, 3, %[5]s)) } }", i, A, idx, g.sz(), g.b()), "array2-remove-child"
	case 21:
		return fmt.Sprintf("%[1]s.storage.load<[[[String]]]>(from: /storage/a3)\n        %[1]s.storage.save(Z.arr3(%[2]d, %[3]d, %[4]d, %[5]s), to: /storage/a3)", A, g.sz()%6, g.sz()%6, g.sz()%13, g.b()), "array3-overwrite"
	case 22:
		return fmt.Sprintf("if let t%[1]d = %[2]s.storage.borrow<&Z.Node>(from: %[3]s) { t%[1]d.ddMutate(%[4]d, %[5]d) }", i, A, pn, k, g.r.IntN(5)), "node-nested-dict-mutation-in-place"
	case 23:
		return fmt.Sprintf("%[1]s.storage.load<{String: [String]}>(from: /storage/d1)\n        %[1]s.storage.save(Z.dict1(%[2]d, %[3]d, %[4]s), to: /storage/d1)", A, g.sz(), g.sz()%13, g.b()), "dict1-overwrite"
	case 24:
		return fmt.Sprintf(`if let r%[1]d = %[2]s.storage.borrow<auth(Mutate) &{String: [String]}>(from: /storage/d1) {
            r%[1]d["k%[3]d"] = Z.arr1(%[4]d, %[5]s)
            if %[3]d %% 2 == 0 { r%[1]d.remove(key: "k%[6]d") }
        }`, i, A, k, g.sz(), g.b(), g.r.IntN(7)), "dict1-mutation-through-ref"
	case 25:
		return fmt.Sprintf("%[1]s.storage.load<{String: {String: [Int]}}>(from: /storage/d2)\n        %[1]s.storage.save(Z.dict2(%[2]d, %[3]d), to: /storage/d2)", A, g.sz(), g.sz()%13), "dict2-overwrite"
	case 26:
		return fmt.Sprintf(`if let r%[1]d = %[2]s.storage.borrow<auth(Mutate) &{String: {String: [Int]}}>(from: /storage/d2) {
            r%[1]d["k%[3]d"] = {"j0": [0], "j%[4]d": [1, 2, 3, 4, 5, 6, 7, 8]}
            r%[1]d.remove(key: "k%[5]d")
        }`, i, A, k, g.r.IntN(5), g.r.IntN(7)), "dict2-replace-child-through-ref"
	case 27:
		return fmt.Sprintf("%[1]s.storage.load<Z.SNode>(from: /storage/s)\n        %[1]s.storage.save(Z.SNode(depth: %[2]d, width: %[3]d, big: %[4]s), to: /storage/s)", A, 1+g.r.IntN(4), 1+g.r.IntN(2), g.b()), "struct-tree-overwrite"
	case 28:
		return fmt.Sprintf(`if let s%[1]d = %[2]s.storage.load<Z.SNode>(from: /storage/s) {
            var t%[1]d = s%[1]d
            if %[3]d %% 2 == 0 { t%[1]d.grow(%[4]d, %[5]s) } else { t%[1]d.prune() }
            if %[3]d %% 3 == 0 { let w%[1]d = attach Z.SAtt() to t%[1]d; %[6]s.storage.load<Z.SNode>(from: /storage/s); %[6]s.storage.save(w%[1]d, to: /storage/s) }
            else { %[6]s.storage.load<Z.SNode>(from: /storage/s); %[6]s.storage.save(t%[1]d, to: /storage/s) }
        }`, i, A, idx, g.sz(), g.b(), B), "struct-tree-load-mutate-save-other-account"
	case 35:
		return fmt.Sprintf("%[1]s.storage.load<{String: [String]}>(from: /storage/dk)\n        %[1]s.storage.save(Z.longKeyDict(%[2]d, %[3]d, %[4]s), to: /storage/dk)", A, g.r.IntN(8), g.sz()%6, g.b()), "longkey-dict-overwrite"
	case 36, 37:
		return fmt.Sprintf(`if let r%[1]d = %[2]s.storage.borrow<auth(Mutate) &{String: [String]}>(from: /storage/dk) {
            r%[1]d[Z.longKey(%[3]d)] = Z.arr1(%[4]d, %[5]s)
            r%[1]d.remove(key: Z.longKey(%[6]d))
            r%[1]d[Z.longKey(%[7]d)] = nil
            let o%[1]d = r%[1]d.insert(key: Z.longKey(%[8]d), ["x"])
        } else { %[2]s.storage.save(Z.longKeyDict(3, 1, false), to: /storage/dk) }`, i, A, k, g.sz()%6, g.b(), g.r.IntN(7), g.r.IntN(7), g.r.IntN(7)), "longkey-dict-insert-remove-through-ref"
	case 38, 39:
		return fmt.Sprintf(`if let r%[1]d = %[2]s.storage.borrow<auth(Mutate) &{Int: String}>(from: /storage/dbi) {
            r%[1]d[Z.bigKey(%[3]d)] = "v%[3]d"
            r%[1]d.remove(key: Z.bigKey(%[4]d))
            r%[1]d[Z.bigKey(%[5]d)] = nil
        } else { %[2]s.storage.save(Z.bigKeyDict(%[6]d), to: /storage/dbi) }`, i, A, k, g.r.IntN(7), g.r.IntN(7), 1+g.r.IntN(6)), "bigintkey-dict-insert-remove-through-ref"
	case 40:
		return fmt.Sprintf(`if let d0%[1]d = %[2]s.storage.load<{String: [String]}>(from: /storage/dk) {
            var d%[1]d = d0%[1]d
            d%[1]d.remove(key: Z.longKey(%[3]d))
            d%[1]d[Z.longKey(%[4]d)] = nil
            d%[1]d[Z.longKey(%[5]d)] = Z.arr1(2, %[6]s)
            %[7]s.storage.load<{String: [String]}>(from: /storage/dk)
            %[7]s.storage.save(d%[1]d, to: /storage/dk)
        }`, i, A, k, g.r.IntN(7), g.r.IntN(7), g.b(), B), "longkey-dict-load-remove-save-other-account"
	case 41:
		return fmt.Sprintf("if let t%[1]d = %[2]s.storage.borrow<&Z.Node>(from: %[3]s) { if %[4]d %% 2 == 0 { t%[1]d.putDict(Z.longKey(%[5]d), <- %[6]s) } else { destroy t%[1]d.takeDict(Z.longKey(%[5]d)) } }", i, A, pn, idx, k%4, g.tree()), "node-dict-longkey-put-or-take"
	case 42:
		return fmt.Sprintf(`if let r%[1]d = %[2]s.storage.borrow<auth(Mutate) &{UInt: [Int]}>(from: /storage/dbu) {
            r%[1]d[Z.bigUKey(%[3]d)] = [1, 2, 3]
            r%[1]d.remove(key: Z.bigUKey(%[4]d))
        } else { %[2]s.storage.save({Z.bigUKey(0): [0], Z.bigUKey(1): [1]}, to: /storage/dbu) }`, i, A, k, g.r.IntN(7)), "biguintkey-dict-insert-remove-through-ref"
	case 29:
		return fmt.Sprintf(`%[1]s.storage.load<[Z.SNode]>(from: /storage/sa)
        var sa%[2]d: [Z.SNode] = []
        var q%[2]d = 0
        while q%[2]d < %[3]d { sa%[2]d.append(Z.SNode(depth: %[4]d, width: %[5]d, big: %[6]s)); q%[2]d = q%[2]d + 1 }
        %[1]s.storage.save(sa%[2]d, to: /storage/sa)`, A, i, g.sz()%6, 1+g.r.IntN(3), 1+g.r.IntN(2), g.b()), "structarr-overwrite"
	case 30:
		return fmt.Sprintf(`if let r%[1]d = %[2]s.storage.borrow<auth(Mutate) &[Z.SNode]>(from: /storage/sa) {
            if r%[1]d.length > 0 { r%[1]d[Int(%[3]d) %% r%[1]d.length] = Z.SNode(depth: %[4]d, width: %[5]d, big: %[6]s) } else { r%[1]d.append(Z.SNode(depth: %[4]d, width: %[5]d, big: %[6]s)) }
        }`, i, A, idx, 1+g.r.IntN(3), 1+g.r.IntN(2), g.b()), "structarr-replace-element-through-ref"
	case 31:
		return fmt.Sprintf("if let t%[1]d = %[2]s.storage.borrow<&Z.Node>(from: %[3]s) { t%[1]d.setS(Z.SNode(depth: %[4]d, width: %[5]d, big: %[6]s)) }", i, A, pn, 1+g.r.IntN(3), 1+g.r.IntN(2), g.b()), "node-struct-field-overwrite"
	case 32:
		return fmt.Sprintf(`if let r%[1]d = %[2]s.storage.borrow<auth(Mutate) &{String: Z.SNode}>(from: /storage/sd) {
            r%[1]d["k%[3]d"] = Z.SNode(depth: %[4]d, width: %[5]d, big: %[6]s)
            if %[3]d %% 3 == 0 { r%[1]d.remove(key: "k%[7]d") }
        } else { %[2]s.storage.save({"k0": Z.SNode(depth: 2, width: 2, big: %[6]s)}, to: /storage/sd) }`, i, A, k, 1+g.r.IntN(3), 1+g.r.IntN(2), g.b(), g.r.IntN(7)), "structdict-replace-through-ref"
	default:
		return fmt.Sprintf("if let r%[1]d = %[2]s.storage.borrow<auth(Mutate) &Z.SNode>(from: /storage/s) { if %[3]d %% 2 == 0 { r%[1]d.grow(%[4]d, %[5]s) } else { r%[1]d.prune() } }", i, A, idx, g.sz(), g.b()), "struct-tree-mutate-through-ref"
	}
}

func (g *c23gen) tx() (string, []string, bool) {
	n := 1 + g.r.IntN(4)
	var sb strings.Builder
	var classes []string
	sb.WriteString("import Z from 0x9\ntransaction {\n    prepare(a: auth(Storage) &Account, b: auth(Storage) &Account) {\n")
	for j := 0; j < n; j++ {
		src, cls := g.op()
		sb.WriteString("        " + src + "\n")
		classes = append(classes, cls)
	}
	abort := g.r.IntN(100) < 12
	if abort {
		sb.WriteString("        Z.abort()\n")
	}
	sb.WriteString("    }\n}\n")
	return sb.String(), classes, abort
}

func c23audit(c *core.Ctx, s *session, profile string, lastClasses []string, extra map[string]any) bool {
	rep := audit.Inspect(s.h.Ledger)
	c.Inc("audits")
	c.Count("slabs_audited", int64(rep.Slabs))
	c.Count("values_walked", int64(rep.StoredValues))
	c.Count("tombstone_registers_seen", int64(rep.Tombstones))
	c.Max("slabs_in_one_ledger", int64(rep.Slabs))
	c.Max("value_depth", int64(rep.MaxDepth))
	if rep.Attachments > 0 {
		c.Inc("audits_with_attachments")
	}
	if len(rep.Resources) > 0 {
		c.Inc("audits_with_resources")
	}
	if rep.Slabs >= 20 {
		c.Inc("audits_ge_20_slabs")
	}
	if len(rep.Problems) == 0 {
		return true
	}
	seen := map[string]bool{}
	for _, p := range rep.Problems {
		if seen[p.Class] {
			continue
		}
		seen[p.Class] = true
		var all []string
		for _, q := range rep.Problems {
			all = append(all, q.String())
		}
		w := map[string]any{
			"engine": s.eng.String(), "mode": s.mode(), "profile": profile, "problems": clipLines(all, 12, 400),
			"last_transaction_ops": lastClasses, "history": s.history(6),
			"registers": rep.Registers, "slabs": rep.Slabs,
		}
		for k, v := range extra {
			w[k] = v
		}
		lc := "-"
		if len(lastClasses) == 1 {
			lc = lastClasses[0]
		}
		c.Violate(fmt.Sprintf("unhealthy:%s:%s:%s", p.Class, profile, lc), "committed storage is not healthy: "+p.String(), w)
	}
	return false
}

func c23Counts(tier string) (stress, c22n, c20n int) {
	if tier == "thorough" {
		return 3000, 1500, 700
	}
	return 192, 96, 105
}

func init() {
	core.Register(&core.Prop{
		ID: "C23",
		Rule: "audit of the whole ledger after EVERY committed transaction of three history profiles, each on 3 engines with separately evolving ledgers: (1) slab-stress: 8 (quick) / 12 (thorough) transactions of 1-4 state-adaptive operations over 2 of 3 accounts: resource trees 1-4 deep with array / dictionary / optional resource fields and nested struct arrays, saved, overwritten by smaller / larger ones, moved to another account or grafted into another stored tree, destroyed while stored, pruned / grown at depth through references, attachments attached / removed / grown on stored values, 2- and 3-deep struct arrays and dictionaries overwritten and mutated through references (child replacement, nested removal and growth with 1 KB strings), struct trees load-mutate-save across accounts; 12% of transactions abort; odd cases reuse one environment; (2) C22 typed-path histories; (3) C20 container histories (stored modes). Distinct = rendered history.",
		Assumptions: []string{
			"the auditor's decoders are Cadence's exported ones (interpreter.DecodeStorable / DecodeTypeInfo, atree.DecodeSlab); the slab graph, root set and account-root comparison are recomputed independently of runtime.Storage.CheckHealth",
			"healthy = atree.CheckStorageHealth passes on a fresh storage with all slabs loaded; every `$` register decodes as a slab; no dangling, doubly referenced or cross-account slab reference; root slabs == account storage-map roots named by the `stored` registers; every stored value can be walked and decoded; container counts match iteration",
		},
		NumCases: func(tier string) int { a, b, d := c23Counts(tier); return a + b + d },
		Floors: map[string]int64{
			"audits": 1500, "tx_committed": 1500, "tx_failed": 300, "audits_with_attachments": 25, "audits_with_resources": 600, "audits_ge_20_slabs": 400,
			"profile_stress": 30, "profile_c22": 20, "profile_c20": 20, "slabs_audited": 40000, "values_walked": 5000,
			"op_node-move-to-account": 60, "op_node-destroy-stored": 60, "op_node-overwrite": 60, "op_node-prune-deep": 60, "op_array2-replace-child-through-ref": 60,
			"op_array2-load-nested-remove-save-other-account": 60, "op_node-deep-struct-mutation-in-place": 60, "op_node-nested-dict-mutation-in-place": 60,
			"op_node-attach-or-remove-attachment": 60, "op_attachment-grow-through-ref": 60, "op_dict1-mutation-through-ref": 60, "op_dict2-replace-child-through-ref": 60,
			"op_node-graft-kid": 60, "op_node-dict-replace": 60, "op_node-replace-optional-field": 60, "op_struct-tree-load-mutate-save-other-account": 60,
			"op_structarr-replace-element-through-ref": 50, "op_node-struct-field-overwrite": 50, "op_structdict-replace-through-ref": 50, "op_structarr-overwrite": 50,
			"op_longkey-dict-insert-remove-through-ref": 60, "op_bigintkey-dict-insert-remove-through-ref": 60, "op_longkey-dict-load-remove-save-other-account": 30, "op_node-dict-longkey-put-or-take": 30,
			"op_array2-overwrite": 60, "op_array3-overwrite": 60, "op_dict1-overwrite": 60, "op_dict2-overwrite": 60, "op_struct-tree-overwrite": 60,
		},
		Run: c23Run,
	})
}

func c23Run(c *core.Ctx) {
	nStress, nC22, _ := c23Counts(c.Tier)
	switch {
	case c.Case < nStress:
		c.Inc("profile_stress")
		c23Stress(c)
	case c.Case < nStress+nC22:
		c.Inc("profile_c22")
		c23FromC22(c)
	default:
		c.Inc("profile_c20")
		c23FromC20(c, c.Case-nStress-nC22)
	}
}

func c23Stress(c *core.Ctx) {
	ntx := c.Pick(8, 12)
	g := &c23gen{r: c.Rng}
	type step struct {
		src     string
		classes []string
		abort   bool
		signers []common.Address
	}
	var steps []step
	var text strings.Builder
	for i := 0; i < ntx; i++ {
		src, cls, abort := g.tx()
		a := 1 + c.Rng.IntN(3)
		b := 1 + (a+c.Rng.IntN(2))%3
		steps = append(steps, step{src, cls, abort, []common.Address{host.Addr(uint64(a)), host.Addr(uint64(b))}})
		text.WriteString(src)
	}
	c.Distinct(text.String())
	if c.WantSample() {
		c.Sample(map[string]any{"profile": "slab-stress", "transaction": steps[0].src, "transactions": ntx})
	}
	reuse := c.Case%2 == 1
	for _, eng := range host.AllEngines {
		s := newSession(eng, reuse)
		if o := s.deploy(host.Addr(9), "Z", c23Contract); o.Err != nil || o.Escaped != nil {
			c.Violate("harness:c23-deploy", "cannot deploy the C23 contract: "+host.ErrText(o), map[string]any{"engine": eng.String()})
			return
		}
		for i, st := range steps {
			o := s.tx(st.src, st.signers)
			c.Eval(1)
			cls, kind := errClassKind(o)
			if cls == host.ClassInternal || cls == host.ClassEscaped || cls == host.ClassOther {
				c.Violate("c23:non-user-failure:"+kind+":"+strings.Join(st.classes, "+"), "a slab-stress transaction produced a non-user failure",
					map[string]any{"engine": eng.String(), "mode": s.mode(), "error": host.ErrText(o), "tx_index": i, "history": s.history(6)})
				break
			}
			if o.Err != nil {
				c.Inc("tx_failed")
				if strings.Contains(kind, "sema.") || strings.Contains(kind, "parser.") || strings.Contains(kind, "Parsing") {
					c.Violate("harness:c23-tx-rejected:"+kind, "a generated slab-stress transaction does not check: "+core.Clip(host.ErrText(o), 1500), map[string]any{"transaction": st.src})
					break
				}
				if !st.abort {
					c.Inc("tx_failed_unplanned_" + kind)
				}
				continue
			}
			if st.abort {
				c.Violate("harness:c23-abort-did-not-abort", "abort transaction succeeded", map[string]any{"transaction": st.src})
			}
			c.Inc("tx_committed")
			for _, k := range st.classes {
				c.Inc("op_" + k)
			}
			if !c23audit(c, s, "slab-stress", st.classes, map[string]any{"tx_index": i}) {
				break
			}
		}
	}
}

func c23FromC22(c *core.Ctx) {
	ntx := c.Pick(8, 12)
	model := &c22model{}
	ctr := 0
	type step struct {
		tx  c22tx
		src string
	}
	var steps []step
	var text strings.Builder
	for i := 0; i < ntx; i++ {
		t := c22genTx(c.Rng, model, &ctr)
		work := model.clone()
		failed := false
		for j, op := range t.Ops {
			if t.AbortAt == j {
				failed = true
				break
			}
			if p := work.apply(op, t.Accts); p.Fail {
				failed = true
				break
			}
		}
		if !failed && t.AbortAt != len(t.Ops) {
			model = work
		}
		steps = append(steps, step{t, t.render()})
		text.WriteString(steps[i].src)
	}
	c.Distinct(text.String())
	reuse := c.Case%2 == 1
	for _, eng := range host.AllEngines {
		s := newSession(eng, reuse)
		if o := s.deploy(host.Addr(c22ContractAddr), "T", c22Contract); o.Err != nil || o.Escaped != nil {
			c.Violate("harness:deploy-failed", host.ErrText(o), nil)
			return
		}
		for i, st := range steps {
			o := s.tx(st.src, st.tx.signers())
			c.Eval(1)
			if o.Err != nil || o.Escaped != nil {
				c.Inc("tx_failed")
				continue
			}
			c.Inc("tx_committed")
			if !c23audit(c, s, "c22-history", nil, map[string]any{"tx_index": i}) {
				break
			}
		}
	}
}

func c23FromC20(c *core.Ctx, idx int) {
	// only the stored modes: skip "local" shapes by remapping the case index onto modes 1..4
	nk := len(c20Kinds)
	shapeIdx := idx % (nk * 5)
	mode := 1 + (idx/(nk*5))%4
	cs := shapeIdx + mode*nk*5
	s, setup, groups, _ := c20Build(c.Rng, c.Tier, cs)
	var text strings.Builder
	for _, g := range groups {
		text.WriteString(g.src)
	}
	c.Distinct(s.String() + text.String())
	for _, eng := range host.AllEngines {
		se := newSession(eng, false)
		if o := se.deploy(host.Addr(9), "T", s.contract()); o.Err != nil || o.Escaped != nil {
			c.Violate("harness:c20-deploy", host.ErrText(o), nil)
			return
		}
		if o := se.tx(setup, []common.Address{host.Addr(1)}); o.Err != nil {
			c.Violate("harness:c20-setup", host.ErrText(o), nil)
			return
		}
		c.Inc("tx_committed")
		if !c23audit(c, se, "c20-history:"+s.Cont+":"+s.k().Name+":"+s.Mode, nil, nil) {
			continue
		}
		for i, g := range groups {
			o := se.tx(g.src, []common.Address{host.Addr(1)})
			c.Eval(1)
			if o.Err != nil || o.Escaped != nil {
				c.Inc("tx_failed")
				continue
			}
			c.Inc("tx_committed")
			if !c23audit(c, se, "c20-history:"+s.Cont+":"+s.k().Name+":"+s.Mode, nil, map[string]any{"group": i}) {
				break
			}
		}
	}
}
