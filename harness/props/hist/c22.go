package hist

import (
	"fmt"
	"math/rand/v2"
	"regexp"
	"sort"
	"strconv"
	"strings"

	"github.com/onflow/cadence/common"

	"verif/harness/audit"
	"verif/harness/core"
	"verif/harness/host"
)

// C22 — account storage behaves as a typed path-indexed map across transactions.
//
// Reference model: map (account, path) -> (type, payload) with a HAND-WRITTEN "stored type <= T" table
// for the fixed type universe below (never sema). Every generated operation logs its result; the model
// predicts every log line, every failing operation (the transaction then aborts and the model rolls
// back), and the final contents (read back by a fresh script and, independently, by the ledger auditor).

const c22ContractAddr = 9

const c22Contract = `
access(all) contract T {
    access(all) entitlement E
    access(all) struct interface SI { access(all) fun tag(): String }
    access(all) resource interface RI { access(all) fun tag(): String }
    access(all) struct S { access(all) let v: Int; init(_ v: Int) { self.v = v } }
    access(all) struct S2: SI {
        access(all) let v: Int
        init(_ v: Int) { self.v = v }
        access(all) fun tag(): String { return "S2:".concat(self.v.toString()) }
    }
    access(all) resource R: RI {
        access(all) let v: Int
        init(_ v: Int) { self.v = v }
        access(all) fun tag(): String { return "R:".concat(self.v.toString()) }
        access(E) fun sec(): Int { return self.v }
    }
    access(all) resource R2 { access(all) let v: Int; init(_ v: Int) { self.v = v } }
    access(all) let pad: String
    init() {
        var p = "xyzw"
        while p.length < 2000 { p = p.concat(p) }
        self.pad = p.slice(from: 0, upTo: 2000)
    }
    // large values: not inlined in the storage map (own slabs)
    access(all) fun bigStr(_ n: Int): String { return "s".concat(n.toString()).concat(":").concat(self.pad) }
    access(all) fun bigInts(_ n: Int): [Int] {
        var a: [Int] = []
        var i = 0
        while i < 320 { a.append(n + i); i = i + 1 }
        return a
    }
    access(all) fun bigDict(_ n: Int): {String: Int} {
        var d: {String: Int} = {"k": n}
        var i = 0
        while i < 119 { d["e".concat(i.toString())] = i; i = i + 1 }
        return d
    }
    access(all) fun abort() { panic("ABORT") }
    access(all) fun mkR(_ v: Int): @R { return <- create R(v) }
    access(all) fun mkR2(_ v: Int): @R2 { return <- create R2(v) }
    access(all) fun show(_ x: AnyStruct): String {
        if let v = x as? Int { return "Int(".concat(v.toString()).concat(")") }
        if let v = x as? String {
            if v.length > 100 {
                let parts = v.split(separator: ":")
                return "String(big ".concat(parts[0]).concat(",").concat(v.length.toString()).concat(")")
            }
            return "String(".concat(v).concat(")")
        }
        if let v = x as? [Int] {
            if v.length > 8 {
                return "[Int]big(".concat(v[0].toString()).concat(",").concat(v.length.toString()).concat(",").concat(v[v.length - 1].toString()).concat(")")
            }
            var s = "[Int]("
            for e in v { s = s.concat(e.toString()).concat(",") }
            return s.concat(")")
        }
        if let v = x as? {String: Int} {
            if v.length != 1 { return "{String:Int}(length ".concat(v.length.toString()).concat(",k=").concat((v["k"] ?? -1).toString()).concat(")") }
            return "{String:Int}(k=".concat((v["k"] ?? -1).toString()).concat(")")
        }
        if let v = x as? S { return "S(".concat(v.v.toString()).concat(")") }
        if let v = x as? S2 { return "S2(".concat(v.v.toString()).concat(")") }
        return "?"
    }
    access(all) fun showR(_ x: &AnyResource): String {
        if let v = x as? &R { return "R(".concat(v.v.toString()).concat(")") }
        if let v = x as? &R2 { return "R2(".concat(v.v.toString()).concat(")") }
        return "?"
    }
}`

const (
	c22Accounts = 3
	c22Paths    = 24
	c22NTypes   = 8
)

// stored value types
var c22TypeName = [c22NTypes]string{"Int", "String", "[Int]", "{String: Int}", "T.S", "T.S2", "T.R", "T.R2"}
var c22TypeID = [c22NTypes]string{"Int", "String", "[Int]", "{String:Int}",
	"A.0000000000000009.T.S", "A.0000000000000009.T.S2", "A.0000000000000009.T.R", "A.0000000000000009.T.R2"}

func c22IsRes(t int) bool { return t >= 6 }

type mval struct {
	T   int
	N   int
	Big bool // large variant (types String, [Int], {String: Int}): stored in its own slabs, never inlined
}

var c22Pad = strings.Repeat("xyzw", 500)

const c22BigInts = 320
const c22BigDictExtra = 119

func (v mval) show() string {
	switch v.T {
	case 0:
		return fmt.Sprintf("Int(%d)", v.N)
	case 1:
		if v.Big {
			return fmt.Sprintf("String(big s%d,%d)", v.N, len(fmt.Sprintf("s%d:", v.N))+len(c22Pad))
		}
		return fmt.Sprintf("String(s%d)", v.N)
	case 2:
		if v.Big {
			return fmt.Sprintf("[Int]big(%d,%d,%d)", v.N, c22BigInts, v.N+c22BigInts-1)
		}
		return fmt.Sprintf("[Int](%d,%d,)", v.N, v.N+1)
	case 3:
		if v.Big {
			return fmt.Sprintf("{String:Int}(length %d,k=%d)", c22BigDictExtra+1, v.N)
		}
		return fmt.Sprintf("{String:Int}(k=%d)", v.N)
	case 4:
		return fmt.Sprintf("S(%d)", v.N)
	case 5:
		return fmt.Sprintf("S2(%d)", v.N)
	case 6:
		return fmt.Sprintf("R(%d)", v.N)
	}
	return fmt.Sprintf("R2(%d)", v.N)
}

// literal is the Cadence expression creating the value (argument of save).
func (v mval) literal() string {
	switch v.T {
	case 0:
		return fmt.Sprint(v.N)
	case 1:
		if v.Big {
			return fmt.Sprintf("T.bigStr(%d)", v.N)
		}
		return fmt.Sprintf(`"s%d"`, v.N)
	case 2:
		if v.Big {
			return fmt.Sprintf("T.bigInts(%d)", v.N)
		}
		return fmt.Sprintf("[%d, %d]", v.N, v.N+1)
	case 3:
		if v.Big {
			return fmt.Sprintf("T.bigDict(%d)", v.N)
		}
		return fmt.Sprintf(`{"k": %d}`, v.N)
	case 4:
		return fmt.Sprintf("T.S(%d)", v.N)
	case 5:
		return fmt.Sprintf("T.S2(%d)", v.N)
	case 6:
		return fmt.Sprintf("<- T.mkR(%d)", v.N)
	}
	return fmt.Sprintf("<- T.mkR2(%d)", v.N)
}

// auditString is the auditor's canonical rendering (uuid stripped).
func (v mval) auditString() string {
	switch v.T {
	case 0:
		return fmt.Sprint(v.N)
	case 1:
		if v.Big {
			return fmt.Sprintf(`"s%d:%s"`, v.N, c22Pad)
		}
		return fmt.Sprintf(`"s%d"`, v.N)
	case 2:
		if v.Big {
			parts := make([]string, c22BigInts)
			for i := range parts {
				parts[i] = strconv.Itoa(v.N + i)
			}
			return "[" + strings.Join(parts, ", ") + "]"
		}
		return fmt.Sprintf("[%d, %d]", v.N, v.N+1)
	case 3:
		if v.Big {
			ents := []string{fmt.Sprintf(`"k": %d`, v.N)}
			for i := 0; i < c22BigDictExtra; i++ {
				ents = append(ents, fmt.Sprintf(`"e%d": %d`, i, i))
			}
			sort.Strings(ents) // the auditor sorts entries by the rendered key; `"e…"` < `"k"` and the key prefix decides
			return "{" + strings.Join(ents, ", ") + "}"
		}
		return fmt.Sprintf(`{"k": %d}`, v.N)
	}
	return fmt.Sprintf("%s(v: %d)", c22TypeID[v.T], v.N)
}

func set(ts ...int) (s [c22NTypes]bool) {
	for _, t := range ts {
		s[t] = true
	}
	return
}

// type arguments of load / copy / check, with the hand-written subtype table:
// Sub[t] == "a stored value of type t is a subtype of this type argument".
type c22targ struct {
	Src string
	Res bool // resource-kinded (usable with load/check, not copy)
	Sub [c22NTypes]bool
}

var c22Targs = []c22targ{
	{"Int", false, set(0)},
	{"String", false, set(1)},
	{"[Int]", false, set(2)},
	{"{String: Int}", false, set(3)},
	{"T.S", false, set(4)},
	{"T.S2", false, set(5)},
	{"AnyStruct", false, set(0, 1, 2, 3, 4, 5)},
	{"{T.SI}", false, set(5)},
	{"[AnyStruct]", false, set(2)},
	{"Integer", false, set(0)},
	{"{String: AnyStruct}", false, set(3)},
	{"@T.R", true, set(6)},
	{"@T.R2", true, set(7)},
	{"@AnyResource", true, set(6, 7)},
	{"@{T.RI}", true, set(6)},
}

// reference type arguments of borrow, and the read performed through the reference
type c22bref struct {
	Src  string
	Sub  [c22NTypes]bool
	Expr string               // Cadence expression over `r` yielding String
	Want func(v mval) string // model's value of Expr
}

func wantN(v mval) string { return fmt.Sprint(v.N) }
func wantLen(v mval) string {
	if v.Big {
		return strconv.Itoa(c22BigInts)
	}
	return "2"
}
func wantRef(v mval) string { return "ref" }

var c22Brefs = []c22bref{
	{"&Int", set(0), `r.toString()`, wantN},
	{"&String", set(1), `r.concat("")`, func(v mval) string {
		if v.Big {
			return fmt.Sprintf("s%d:%s", v.N, c22Pad)
		}
		return fmt.Sprintf("s%d", v.N)
	}},
	{"&[Int]", set(2), `r[0].toString()`, wantN},
	{"auth(Mutate) &[Int]", set(2), `r.length.toString()`, wantLen},
	{"&[AnyStruct]", set(2), `r.length.toString()`, wantLen},
	{"&{String: Int}", set(3), `(r["k"] ?? -1).toString()`, wantN},
	{"&T.S", set(4), `r.v.toString()`, wantN},
	{"&T.S2", set(5), `r.v.toString()`, wantN},
	{"&{T.SI}", set(5), `r.tag()`, func(v mval) string { return fmt.Sprintf("S2:%d", v.N) }},
	{"&AnyStruct", set(0, 1, 2, 3, 4, 5), `"ref"`, wantRef},
	{"&T.R", set(6), `r.v.toString()`, wantN},
	{"auth(T.E) &T.R", set(6), `r.sec().toString()`, wantN},
	{"&{T.RI}", set(6), `r.tag()`, func(v mval) string { return fmt.Sprintf("R:%d", v.N) }},
	{"&AnyResource", set(6, 7), `"ref"`, wantRef},
	{"&T.R2", set(7), `r.v.toString()`, wantN},
}

type c22op struct {
	Kind  string // save load move copy borrow check type paths each
	S     int    // signer index
	P     int
	V     mval
	T     int // c22Targs index / c22Brefs index
	S2    int
	P2    int
	K     int
	Ps    []int // fill: paths saved to in one operation
}

type c22model struct {
	st [c22Accounts][c22Paths]*mval
}

func (m *c22model) clone() *c22model {
	n := &c22model{}
	for a := range m.st {
		for p := range m.st[a] {
			if v := m.st[a][p]; v != nil {
				c := *v
				n.st[a][p] = &c
			}
		}
	}
	return n
}

func (m *c22model) bigCount(a int) int {
	n := 0
	for p := 0; p < c22Paths; p++ {
		if v := m.st[a][p]; v != nil && v.Big {
			n++
		}
	}
	return n
}

// values written by a fill operation: a mix of small types
func c22fillValue(base, i int) mval {
	return mval{T: []int{0, 4, 2, 1, 5}[i%5], N: base + i}
}

func (m *c22model) occupied(a int) []int {
	var ps []int
	for p := 0; p < c22Paths; p++ {
		if m.st[a][p] != nil {
			ps = append(ps, p)
		}
	}
	return ps
}

// prediction of one operation
type c22pred struct {
	EnumBig  int // enumerations: number of large (non-inlined) values the account holds
	EnumMany int // enumerations: number of occupied paths
	Class string // narrow class for violation keys
	Fail  bool
	Exact string                  // expected log payload (when Check == nil)
	Check func(got string) string // returns a problem or ""
}

// paths 6.. have long identifiers so that a storage map with ~20 entries outgrows one slab
func pathStr(p int) string {
	if p >= 6 {
		return fmt.Sprintf("/storage/p%d_a_rather_long_storage_path_identifier_to_fill_the_storage_map_slab", p)
	}
	return fmt.Sprintf("/storage/p%d", p)
}

// apply runs op on the model. accts maps signer index to account index.
func (m *c22model) apply(op c22op, accts []int) c22pred {
	a := accts[op.S]
	cur := m.st[a][op.P]
	stored := "empty"
	if cur != nil {
		stored = c22TypeName[cur.T]
	}
	switch op.Kind {
	case "fill":
		for i, p := range op.Ps {
			if m.st[a][p] != nil {
				return c22pred{Class: "fill:onto=occupied", Fail: true}
			}
			v := c22fillValue(op.V.N, i)
			m.st[a][p] = &v
		}
		return c22pred{Class: fmt.Sprintf("fill:n=%d", len(op.Ps)), Exact: "filled"}
	case "save":
		cls := fmt.Sprintf("save:%s:onto=%s", c22TypeName[op.V.T], stored)
		if cur != nil {
			return c22pred{Class: cls, Fail: true}
		}
		v := op.V
		m.st[a][op.P] = &v
		return c22pred{Class: cls, Exact: "saved"}
	case "load", "copy", "move":
		ta := c22Targs[op.T]
		cls := fmt.Sprintf("%s:T=%s:stored=%s", op.Kind, ta.Src, stored)
		if cur == nil {
			return c22pred{Class: cls, Exact: "nil"}
		}
		if op.Kind == "load" || op.Kind == "move" {
			// load removes first, then checks the type; a mismatch aborts the transaction anyway
			m.st[a][op.P] = nil
		}
		if !ta.Sub[cur.T] {
			return c22pred{Class: cls, Fail: true}
		}
		if op.Kind == "move" {
			b := accts[op.S2]
			if m.st[b][op.P2] != nil {
				return c22pred{Class: cls + ":target-occupied", Fail: true}
			}
			v := *cur
			m.st[b][op.P2] = &v
			return c22pred{Class: cls, Exact: "moved"}
		}
		return c22pred{Class: cls, Exact: cur.show()}
	case "borrow":
		br := c22Brefs[op.T]
		cls := fmt.Sprintf("borrow:T=%s:stored=%s", br.Src, stored)
		if cur == nil {
			return c22pred{Class: cls, Exact: "nil"}
		}
		if !br.Sub[cur.T] {
			return c22pred{Class: cls, Fail: true}
		}
		return c22pred{Class: cls, Exact: br.Want(*cur)}
	case "check":
		ta := c22Targs[op.T]
		cls := fmt.Sprintf("check:T=%s:stored=%s", ta.Src, stored)
		if cur != nil && ta.Sub[cur.T] {
			return c22pred{Class: cls, Exact: "true"}
		}
		return c22pred{Class: cls, Exact: "false"}
	case "type":
		cls := "type:stored=" + stored
		if cur == nil {
			return c22pred{Class: cls, Exact: "nil"}
		}
		return c22pred{Class: cls, Exact: c22TypeID[cur.T]}
	case "paths":
		var want []string
		for _, p := range m.occupied(a) {
			want = append(want, pathStr(p))
		}
		return c22pred{EnumBig: m.bigCount(a), EnumMany: len(want), Class: fmt.Sprintf("storagePaths:n=%d", len(want)), Check: func(got string) string {
			g := splitList(got, ";")
			if !sameMultiset(g, want) {
				return fmt.Sprintf("storagePaths enumerated %v, occupied paths are %v", g, want)
			}
			return ""
		}}
	case "each":
		want := map[string]string{}
		for _, p := range m.occupied(a) {
			want[pathStr(p)] = c22TypeID[m.st[a][p].T]
		}
		n := len(want)
		k := op.K
		expectCount := n
		if k < n {
			expectCount = k
		}
		return c22pred{EnumBig: m.bigCount(a), EnumMany: n, Class: fmt.Sprintf("forEachStored:stop-after=%d:n=%d", k, n), Check: func(got string) string {
			g := splitList(got, ";")
			seen := map[string]bool{}
			for _, e := range g {
				i := strings.Index(e, "=")
				if i < 0 {
					return "malformed entry " + e
				}
				p, t := e[:i], e[i+1:]
				if seen[p] {
					return "path visited twice: " + p
				}
				seen[p] = true
				wt, ok := want[p]
				if !ok {
					return "forEachStored visited unoccupied path " + p
				}
				if wt != t {
					return fmt.Sprintf("forEachStored reports type %s at %s, stored type is %s", t, p, wt)
				}
			}
			if len(g) != expectCount {
				return fmt.Sprintf("forEachStored visited %d paths, expected %d (occupied %d, callback returns false after %d)", len(g), expectCount, n, k)
			}
			return ""
		}}
	}
	panic("unknown op " + op.Kind)
}

// render writes the Cadence statements of op number i.
func (op c22op) render(i int) string {
	a := fmt.Sprintf("a%d", op.S)
	p := pathStr(op.P)
	pre := fmt.Sprintf(`"%d|"`, i)
	switch op.Kind {
	case "fill":
		var sb strings.Builder
		for j, q := range op.Ps {
			fmt.Fprintf(&sb, "%s.storage.save(%s, to: %s)\n        ", a, c22fillValue(op.V.N, j).literal(), pathStr(q))
		}
		fmt.Fprintf(&sb, "log(%s.concat(\"filled\"))", pre)
		return sb.String()
	case "save":
		return fmt.Sprintf("%s.storage.save(%s, to: %s)\n        log(%s.concat(\"saved\"))", a, op.V.literal(), p, pre)
	case "load":
		ta := c22Targs[op.T]
		if ta.Res {
			return fmt.Sprintf("if let x%d <- %s.storage.load<%s>(from: %s) { log(%s.concat(T.showR(&x%d as &AnyResource))); destroy x%d } else { log(%s.concat(\"nil\")) }",
				i, a, ta.Src, p, pre, i, i, pre)
		}
		return fmt.Sprintf("if let x%d = %s.storage.load<%s>(from: %s) { log(%s.concat(T.show(x%d))) } else { log(%s.concat(\"nil\")) }",
			i, a, ta.Src, p, pre, i, pre)
	case "move":
		ta := c22Targs[op.T]
		b := fmt.Sprintf("a%d", op.S2)
		q := pathStr(op.P2)
		if ta.Res {
			return fmt.Sprintf("if let x%d <- %s.storage.load<%s>(from: %s) { %s.storage.save(<- x%d, to: %s); log(%s.concat(\"moved\")) } else { log(%s.concat(\"nil\")) }",
				i, a, ta.Src, p, b, i, q, pre, pre)
		}
		return fmt.Sprintf("if let x%d = %s.storage.load<%s>(from: %s) { %s.storage.save(x%d, to: %s); log(%s.concat(\"moved\")) } else { log(%s.concat(\"nil\")) }",
			i, a, ta.Src, p, b, i, q, pre, pre)
	case "copy":
		ta := c22Targs[op.T]
		return fmt.Sprintf("if let x%d = %s.storage.copy<%s>(from: %s) { log(%s.concat(T.show(x%d))) } else { log(%s.concat(\"nil\")) }",
			i, a, ta.Src, p, pre, i, pre)
	case "borrow":
		br := c22Brefs[op.T]
		expr := fixIdent(br.Expr, i)
		return fmt.Sprintf("if let r%d = %s.storage.borrow<%s>(from: %s) { log(%s.concat(%s)) } else { log(%s.concat(\"nil\")) }",
			i, a, br.Src, p, pre, expr, pre)
	case "check":
		ta := c22Targs[op.T]
		return fmt.Sprintf("log(%s.concat(%s.storage.check<%s>(from: %s) ? \"true\" : \"false\"))", pre, a, ta.Src, p)
	case "type":
		return fmt.Sprintf("log(%s.concat(%s.storage.type(at: %s)?.identifier ?? \"nil\"))", pre, a, p)
	case "paths":
		return fmt.Sprintf("var s%d = \"\"\n        for q%d in %s.storage.storagePaths { s%d = s%d.concat(q%d.toString()).concat(\";\") }\n        log(%s.concat(s%d))",
			i, i, a, i, i, i, pre, i)
	case "each":
		return fmt.Sprintf("var s%d = \"\"\n        var n%d = 0\n        %s.storage.forEachStored(fun (path: StoragePath, type: Type): Bool {\n            s%d = s%d.concat(path.toString()).concat(\"=\").concat(type.identifier).concat(\";\")\n            n%d = n%d + 1\n            return n%d < %d\n        })\n        log(%s.concat(s%d))",
			i, i, a, i, i, i, i, i, op.K, pre, i)
	}
	panic("unknown op")
}

var identR = regexp.MustCompile(`\br\b`)

func fixIdent(expr string, i int) string {
	return identR.ReplaceAllString(expr, fmt.Sprintf("r%d", i))
}

type c22tx struct {
	Accts   []int // account index (0..2) per signer
	Ops     []c22op
	AbortAt int  // -1 none; otherwise panic after this many ops
	Marker  bool // C24: log("__END__") as the last statement
}

func (t c22tx) render() string {
	var sb strings.Builder
	sb.WriteString("import T from 0x9\ntransaction {\n    prepare(")
	for i := range t.Accts {
		if i > 0 {
			sb.WriteString(", ")
		}
		fmt.Fprintf(&sb, "a%d: auth(Storage) &Account", i)
	}
	sb.WriteString(") {\n")
	for i, op := range t.Ops {
		if t.AbortAt == i {
			sb.WriteString("        T.abort()\n")
		}
		sb.WriteString("        " + op.render(i) + "\n")
	}
	if t.AbortAt == len(t.Ops) {
		sb.WriteString("        T.abort()\n")
	}
	if t.Marker {
		sb.WriteString("        log(\"__END__\")\n")
	}
	sb.WriteString("    }\n}\n")
	return sb.String()
}

func (t c22tx) signers() []common.Address {
	out := make([]common.Address, len(t.Accts))
	for i, a := range t.Accts {
		out[i] = host.Addr(uint64(a + 1))
	}
	return out
}

// genTx generates one transaction guided by (a clone of) the model so that most operations are meaningful.
func c22genTx(r *rand.Rand, m *c22model, ctr *int) c22tx {
	t := c22tx{AbortAt: -1}
	first := r.IntN(c22Accounts)
	// prefer, as first signer, an account holding large (non-inlined) values or many paths
	var interesting []int
	for a := 0; a < c22Accounts; a++ {
		if m.bigCount(a) > 0 || len(m.occupied(a)) >= 12 {
			interesting = append(interesting, a)
		}
	}
	if len(interesting) > 0 && r.IntN(100) < 60 {
		first = interesting[r.IntN(len(interesting))]
	}
	if r.IntN(2) == 0 {
		t.Accts = []int{first}
	} else {
		b := (first + 1 + r.IntN(c22Accounts-1)) % c22Accounts
		t.Accts = []int{first, b}
	}
	nops := 1 + r.IntN(8)
	sim := m.clone()
	// often the FIRST operation of the transaction (fresh runtime, nothing loaded yet) is an enumeration
	enumFirst := r.IntN(100) < 40
	for len(t.Ops) < nops {
		var op c22op
		var after *c22model
		var pred c22pred
		for try := 0; try < 5; try++ {
			op = c22genOp(r, sim, t.Accts, ctr)
			if enumFirst && len(t.Ops) == 0 {
				op = c22op{Kind: "paths"}
				if r.IntN(2) == 0 {
					op = c22op{Kind: "each", K: []int{1, 3, 100, 100}[r.IntN(4)]}
				}
			}
			after = sim.clone()
			pred = after.apply(op, t.Accts)
			if !pred.Fail || r.IntN(100) < 30 {
				break
			}
		}
		t.Ops = append(t.Ops, op)
		if pred.Fail {
			// everything after a failing operation is dead code; still generate it (type-checks) but stop guiding
			continue
		}
		sim = after
	}
	if r.IntN(4) == 0 {
		t.AbortAt = r.IntN(len(t.Ops) + 1)
	}
	return t
}

var c22kinds = []struct {
	k string
	w int
}{{"save", 26}, {"load", 12}, {"move", 10}, {"copy", 10}, {"borrow", 13}, {"check", 10}, {"type", 6}, {"paths", 6}, {"each", 7}, {"fill", 7}}

func c22genOp(r *rand.Rand, m *c22model, accts []int, ctr *int) c22op {
	tot := 0
	for _, k := range c22kinds {
		tot += k.w
	}
	x := r.IntN(tot)
	kind := ""
	for _, k := range c22kinds {
		if x < k.w {
			kind = k.k
			break
		}
		x -= k.w
	}
	op := c22op{Kind: kind, S: r.IntN(len(accts))}
	a := accts[op.S]
	occ := m.occupied(a)
	pickPath := func(wantOccupied bool) int {
		if wantOccupied && len(occ) > 0 && r.IntN(100) < 75 {
			return occ[r.IntN(len(occ))]
		}
		if !wantOccupied && len(occ) < c22Paths && r.IntN(100) < 75 {
			for {
				p := r.IntN(c22Paths)
				if m.st[a][p] == nil {
					return p
				}
			}
		}
		return r.IntN(c22Paths)
	}
	pickT := func(stored *mval, allowRes, allowStruct bool) int {
		var cands, match []int
		for i, ta := range c22Targs {
			if (ta.Res && !allowRes) || (!ta.Res && !allowStruct) {
				continue
			}
			cands = append(cands, i)
			if stored != nil && ta.Sub[stored.T] {
				match = append(match, i)
			}
		}
		if len(match) > 0 && r.IntN(100) < 60 {
			return match[r.IntN(len(match))]
		}
		return cands[r.IntN(len(cands))]
	}
	switch kind {
	case "save":
		op.P = pickPath(false)
		*ctr++
		op.V = mval{T: r.IntN(c22NTypes), N: *ctr * 10}
		if r.IntN(100) < 45 {
			// large variant: own slabs, never inlined in the storage map
			op.V.T = 1 + r.IntN(3)
			op.V.Big = true
		}
	case "fill":
		// save small values to many empty paths at once (grows the storage map past one slab)
		var empty []int
		for p := 0; p < c22Paths; p++ {
			if m.st[a][p] == nil {
				empty = append(empty, p)
			}
		}
		n := 6 + r.IntN(14)
		if n > len(empty) {
			n = len(empty)
		}
		r.Shuffle(len(empty), func(i, j int) { empty[i], empty[j] = empty[j], empty[i] })
		op.Ps = append([]int(nil), empty[:n]...)
		*ctr += 30
		op.V = mval{N: *ctr * 10}
	case "load", "move":
		op.P = pickPath(true)
		op.T = pickT(m.st[a][op.P], true, true)
		if kind == "move" {
			op.S2 = r.IntN(len(accts))
			b := accts[op.S2]
			// prefer an empty target
			op.P2 = r.IntN(c22Paths)
			for try := 0; try < 3 && m.st[b][op.P2] != nil; try++ {
				op.P2 = r.IntN(c22Paths)
			}
		}
	case "copy":
		op.P = pickPath(true)
		op.T = pickT(m.st[a][op.P], false, true)
	case "check":
		op.P = pickPath(true)
		op.T = pickT(m.st[a][op.P], true, true)
	case "borrow":
		op.P = pickPath(true)
		st := m.st[a][op.P]
		var match []int
		for i, b := range c22Brefs {
			if st != nil && b.Sub[st.T] {
				match = append(match, i)
			}
		}
		if len(match) > 0 && r.IntN(100) < 60 {
			op.T = match[r.IntN(len(match))]
		} else {
			op.T = r.IntN(len(c22Brefs))
		}
	case "type":
		op.P = pickPath(true)
	case "paths":
	case "each":
		op.K = []int{1, 2, 3, 100}[r.IntN(4)]
	}
	return op
}

var c22DumpScript = strings.Replace(`import T from 0x9
access(all) fun main() {
    let addrs: [Address] = [0x1, 0x2, 0x3]
    let paths: [StoragePath] = [PATHS]
    for addr in addrs {
        let a = getAuthAccount<auth(Storage) &Account>(addr)
        for p in paths {
            var line = addr.toString().concat(p.toString()).concat("=")
            if let t = a.storage.type(at: p) {
                line = line.concat(t.identifier).concat("=")
                // NOTE: no as?-casts on storage references here (a storage reference may be cast to any
                // reference type; the type is only checked on dereference)
                switch t.identifier {
                case "A.0000000000000009.T.R":
                    line = line.concat("R(").concat(a.storage.borrow<&T.R>(from: p)!.v.toString()).concat(")")
                case "A.0000000000000009.T.R2":
                    line = line.concat("R2(").concat(a.storage.borrow<&T.R2>(from: p)!.v.toString()).concat(")")
                default:
                    line = line.concat(T.show(a.storage.copy<AnyStruct>(from: p)!))
                }
            } else {
                line = line.concat("empty")
            }
            log(line)
        }
        var s = addr.toString().concat(" paths:")
        for q in a.storage.storagePaths { s = s.concat(q.toString()).concat(";") }
        log(s)
    }
}`, "PATHS", c22AllPaths(), 1)

func c22AllPaths() string {
	ps := make([]string, c22Paths)
	for p := range ps {
		ps[p] = pathStr(p)
	}
	return strings.Join(ps, ", ")
}

func (m *c22model) expectedDump() (lines []string, paths [][]string) {
	for a := 0; a < c22Accounts; a++ {
		addr := fmt.Sprintf("0x%016x", a+1)
		var ps []string
		for p := 0; p < c22Paths; p++ {
			if v := m.st[a][p]; v != nil {
				lines = append(lines, fmt.Sprintf("%s%s=%s=%s", addr, pathStr(p), c22TypeID[v.T], v.show()))
				ps = append(ps, pathStr(p))
			} else {
				lines = append(lines, fmt.Sprintf("%s%s=empty", addr, pathStr(p)))
			}
		}
		paths = append(paths, ps)
	}
	return
}

var uuidRe = regexp.MustCompile(`uuid: \d+, `)

func (m *c22model) expectedAudit() []string {
	var out []string
	for a := 0; a < c22Accounts; a++ {
		for p := 0; p < c22Paths; p++ {
			if v := m.st[a][p]; v != nil {
				out = append(out, fmt.Sprintf("0x%016x%s = %s : %s", a+1, pathStr(p), v.auditString(), c22TypeID[v.T]))
			}
		}
	}
	return sortedCopy(out)
}

func c22NumTx(tier string) int {
	if tier == "thorough" {
		return 14
	}
	return 10
}

func init() {
	core.Register(&core.Prop{
		ID: "C22",
		Rule: "one case = one history of 10 (quick) / 14 (thorough) transactions of 1-8 storage operations (save, load<T>, load-and-save-elsewhere, copy<T>, borrow<&T>+read, check<T>, type(at:), storagePaths, forEachStored with early stop) over 1-2 signers out of 3 accounts x 6 paths x 8 value types, 15 type arguments (exact / super / interface-intersection / covariant container / unrelated / other kind) and 15 reference types; 25% of transactions abort by panic, others abort by a model-predicted failing operation; each history runs on I, V and Vp with a separately evolving ledger, even cases through fresh runtime+environment per transaction, odd cases on ONE reused environment; distinct = rendered history text; non-trivial = at least one committed transaction that changes storage",
		Assumptions: []string{
			"reference model: Go map (account,path)->(type,payload) and a hand-written 'stored type <= T' table for the fixed universe (no use of sema)",
			"the helper functions T.show / T.showR (as? casts, concat, toString) render values faithfully; dynamic casts are the subject of C09",
			"failing operations are only required to fail with a user-class error before logging (the statement says 'fails'), error kinds are recorded as monitors",
		},
		NumCases: func(tier string) int {
			if tier == "thorough" {
				return 12000
			}
			return 800
		},
		Floors: map[string]int64{
			"tx_committed": 1000, "tx_aborted_by_panic": 350, "tx_aborted_by_failing_op": 200,
			"fail_save_occupied": 35, "fail_type_mismatch": 160, "result_nil": 1500, "result_value": 2500,
			"check_true": 230, "check_false": 400, "paths_enumerations": 370, "foreach_early_stop": 330,
			"final_dumps": 480, "mode_reuse_env": 80, "mode_fresh": 80, "supertype_hits": 600,
			"audit_dump_compared": 480,
			"enum_first_op": 700, "enum_first_op_account_with_large_values": 300, "enum_first_op_account_ge_20_paths": 80,
		},
		Run: c22Run,
	})
}

// c22enumMonitors counts enumerations that are the first operation of a transaction (nothing loaded yet)
// on accounts holding large values / enough paths for the storage map to span several slabs.
func c22enumMonitors(c *core.Ctx, preds []c22pred, p c22pred) {
	isFirst := len(preds) > 0 && preds[0].Class == p.Class && preds[0].EnumMany == p.EnumMany && preds[0].EnumBig == p.EnumBig
	if !isFirst {
		return
	}
	c.Inc("enum_first_op")
	if p.EnumBig > 0 {
		c.Inc("enum_first_op_account_with_large_values")
	}
	if p.EnumMany >= 20 {
		c.Inc("enum_first_op_account_ge_20_paths")
	}
}

func c22Run(c *core.Ctx) {
	ntx := c22NumTx(c.Tier)
	reuse := c.Case%2 == 1
	// generate the history once against the model; predictions are the same for all engines
	type step struct {
		tx    c22tx
		src   string
		preds []c22pred // predictions of the ops executed before the transaction ends
		fail  string    // "" committed, "panic", "op"
		after *c22model
	}
	model := &c22model{}
	ctr := 0
	var steps []step
	var hist strings.Builder
	changed := false
	for i := 0; i < ntx; i++ {
		t := c22genTx(c.Rng, model, &ctr)
		st := step{tx: t, src: t.render()}
		work := model.clone()
		for j, op := range t.Ops {
			if t.AbortAt == j {
				st.fail = "panic"
				break
			}
			p := work.apply(op, t.Accts)
			st.preds = append(st.preds, p)
			if p.Fail {
				st.fail = "op"
				break
			}
		}
		if st.fail == "" && t.AbortAt == len(t.Ops) {
			st.fail = "panic"
		}
		if st.fail == "" {
			for a := range work.st {
				for p := range work.st[a] {
					x, y := work.st[a][p], model.st[a][p]
					if (x == nil) != (y == nil) || (x != nil && *x != *y) {
						changed = true
					}
				}
			}
			model = work
		}
		st.after = model.clone()
		steps = append(steps, st)
		hist.WriteString(st.src)
	}
	if changed {
		c.Distinct(hist.String())
	}
	if c.WantSample() {
		c.Sample(map[string]any{"mode": map[bool]string{false: "fresh", true: "reuse-env"}[reuse], "first_tx": steps[0].src, "transactions": ntx})
	}
	// monitors that depend only on the model
	for _, st := range steps {
		switch st.fail {
		case "":
			c.Inc("tx_committed")
		case "panic":
			c.Inc("tx_aborted_by_panic")
		case "op":
			c.Inc("tx_aborted_by_failing_op")
		}
		for _, p := range st.preds {
			switch {
			case p.Fail && strings.HasPrefix(p.Class, "save"):
				c.Inc("fail_save_occupied")
			case p.Fail && strings.HasSuffix(p.Class, "target-occupied"):
				c.Inc("fail_save_occupied")
			case p.Fail:
				c.Inc("fail_type_mismatch")
			case p.Exact == "nil":
				c.Inc("result_nil")
			case strings.HasPrefix(p.Class, "check") && p.Exact == "true":
				c.Inc("check_true")
			case strings.HasPrefix(p.Class, "check"):
				c.Inc("check_false")
			case strings.HasPrefix(p.Class, "storagePaths"):
				c.Inc("paths_enumerations")
				c22enumMonitors(c, st.preds, p)
			case strings.HasPrefix(p.Class, "forEachStored"):
				if !strings.Contains(p.Class, "stop-after=100") {
					c.Inc("foreach_early_stop")
				}
				c22enumMonitors(c, st.preds, p)
			case p.Check == nil:
				c.Inc("result_value")
				if strings.Contains(p.Class, "T=AnyStruct") || strings.Contains(p.Class, "T=@AnyResource") || strings.Contains(p.Class, "T={") ||
					strings.Contains(p.Class, "T=[AnyStruct]") || strings.Contains(p.Class, "T=Integer") || strings.Contains(p.Class, "T=@{") ||
					strings.Contains(p.Class, "T=&Any") || strings.Contains(p.Class, "T=&{") || strings.Contains(p.Class, "T=&[AnyStruct]") {
					c.Inc("supertype_hits")
				}
			}
		}
	}
	if reuse {
		c.Inc("mode_reuse_env")
	} else {
		c.Inc("mode_fresh")
	}

	for _, eng := range host.AllEngines {
		s := newSession(eng, reuse)
		if o := s.deploy(host.Addr(c22ContractAddr), "T", c22Contract); o.Err != nil || o.Escaped != nil {
			c.Violate("harness:deploy-failed", "cannot deploy the C22 contract: "+host.ErrText(o), map[string]any{"engine": eng.String()})
			return
		}
		ok := true
		for i, st := range steps {
			o := s.tx(st.src, st.tx.signers())
			c.Eval(1)
			logs := s.logs()
			wit := func(extra map[string]any) map[string]any {
				w := map[string]any{
					"engine": eng.String(), "mode": s.mode(), "tx_index": i, "transaction": st.src,
					"signers": fmt.Sprint(st.tx.signers()), "observed_logs": clipLines(logs, 20, 300), "error": host.ErrText(o),
					"history": s.history(i + 2),
				}
				for k, v := range extra {
					w[k] = v
				}
				return w
			}
			cls, kind := errClassKind(o)
			if cls == host.ClassInternal || cls == host.ClassEscaped || cls == host.ClassOther {
				c.Violate("c22:non-user-failure:"+kind, "a storage history produced a non-user failure", wit(nil))
				ok = false
				break
			}
			// logs: one per executed operation, in order
			nExp := len(st.preds)
			if st.fail == "op" {
				nExp--
			}
			bad := false
			for j := 0; j < len(logs) && j < nExp; j++ {
				pre := fmt.Sprintf("%d|", j)
				if !strings.HasPrefix(logs[j], pre) {
					c.Violate("c22:log-order:"+st.preds[j].Class, "log lines out of order", wit(map[string]any{"op": j}))
					bad = true
					break
				}
				got := logs[j][len(pre):]
				p := st.preds[j]
				if p.Check != nil {
					if prob := p.Check(got); prob != "" {
						c.Violate("c22:enumeration:"+p.Class, prob, wit(map[string]any{"op": j, "observed": got}))
						bad = true
						break
					}
				} else if got != p.Exact {
					c.Violate("c22:result:"+p.Class, fmt.Sprintf("operation %d logged %q, the model predicts %q", j, got, p.Exact),
						wit(map[string]any{"op": j, "observed": got, "expected": p.Exact}))
					bad = true
					break
				}
			}
			if bad {
				ok = false
				break
			}
			switch st.fail {
			case "":
				if o.Err != nil {
					opc := "end"
					if len(logs) < len(st.preds) {
						opc = st.preds[len(logs)].Class
					}
					c.Violate("c22:unexpected-failure:"+opc+":"+kind, "the model predicts success, the transaction failed", wit(map[string]any{"failed_at_op": len(logs)}))
					ok = false
				} else if len(logs) != nExp {
					c.Violate("c22:log-count", fmt.Sprintf("%d log lines, expected %d", len(logs), nExp), wit(nil))
					ok = false
				}
			case "panic":
				if o.Err == nil || !strings.Contains(o.Err.Error(), "ABORT") {
					c.Violate("c22:abort-not-reached", "the transaction should have reached its panic(\"ABORT\")", wit(nil))
					ok = false
				} else if len(logs) != nExp {
					c.Violate("c22:log-count", fmt.Sprintf("%d log lines before the abort, expected %d", len(logs), nExp), wit(nil))
					ok = false
				}
			case "op":
				p := st.preds[len(st.preds)-1]
				if o.Err == nil || len(logs) > nExp {
					c.Violate("c22:missing-failure:"+p.Class, fmt.Sprintf("operation %d must fail (%s) but did not", nExp, p.Class), wit(map[string]any{"op": nExp}))
					ok = false
				} else if len(logs) < nExp {
					c.Violate("c22:unexpected-failure:"+st.preds[len(logs)].Class+":"+kind, "the transaction failed earlier than the model predicts", wit(map[string]any{"failed_at_op": len(logs)}))
					ok = false
				} else if strings.Contains(o.Err.Error(), "ABORT") {
					c.Violate("c22:missing-failure:"+p.Class, "the failing operation was passed (the later ABORT was reached)", wit(nil))
					ok = false
				} else {
					c.Inc("errkind_" + kind)
				}
			}
			if !ok {
				break
			}
		}
		if !ok {
			// the engine's ledger no longer follows the model: stop this engine's history
			continue
		}
		// final read-only dump on a fresh runtime
		final := steps[len(steps)-1].after
		o := s.script(c22DumpScript)
		c.Eval(1)
		if o.Err != nil || o.Escaped != nil {
			c.Violate("c22:final-dump-failed", "the final read-only script failed: "+host.ErrText(o), map[string]any{"engine": eng.String(), "mode": s.mode(), "history": s.history(ntx)})
			continue
		}
		c.Inc("final_dumps")
		expLines, expPaths := final.expectedDump()
		var gotLines []string
		gotPaths := map[string][]string{}
		for _, l := range s.logs() {
			if i := strings.Index(l, " paths:"); i > 0 {
				gotPaths[l[:i]] = splitList(l[i+7:], ";")
			} else {
				gotLines = append(gotLines, l)
			}
		}
		for i := range expLines {
			g := ""
			if i < len(gotLines) {
				g = gotLines[i]
			}
			if g != expLines[i] {
				c.Violate("c22:final-state", fmt.Sprintf("final contents differ from the model: observed %q, expected %q", g, expLines[i]),
					map[string]any{"engine": eng.String(), "mode": s.mode(), "observed": gotLines, "expected": expLines, "history": s.history(ntx)})
				break
			}
		}
		for a := 0; a < c22Accounts; a++ {
			addr := fmt.Sprintf("0x%016x", a+1)
			if !sameMultiset(gotPaths[addr], expPaths[a]) {
				c.Violate("c22:final-storagePaths", fmt.Sprintf("final storagePaths of %s = %v, model %v", addr, gotPaths[addr], expPaths[a]),
					map[string]any{"engine": eng.String(), "mode": s.mode(), "history": s.history(ntx)})
				break
			}
		}
		// independent observation: the ledger bytes themselves (auditor), uuid stripped
		vals, err := audit.DumpValues(s.h.Ledger)
		if err != nil {
			c.Violate("c22:ledger-not-walkable", err.Error(), map[string]any{"engine": eng.String(), "mode": s.mode(), "history": s.history(ntx)})
			continue
		}
		var got []string
		for _, v := range vals {
			if strings.Contains(v, "/storage/") && !strings.HasPrefix(v, "0x0000000000000009") {
				got = append(got, uuidRe.ReplaceAllString(v, ""))
			}
		}
		c.Inc("audit_dump_compared")
		exp := final.expectedAudit()
		if strings.Join(sortedCopy(got), "\n") != strings.Join(exp, "\n") {
			c.Violate("c22:ledger-contents", "the values decoded from the ledger registers differ from the model",
				map[string]any{"engine": eng.String(), "mode": s.mode(), "observed": got, "expected": exp, "history": s.history(ntx)})
		}
	}
}
