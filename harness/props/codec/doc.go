// Package codec holds the checks of group codec (see harness/groups.txt).
package codec
