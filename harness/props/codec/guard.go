package codec

import (
	"fmt"
	"runtime"
	"runtime/debug"
	"strings"
	"sync/atomic"
	"syscall"
	"time"
)

// guard runs decoder calls on a dedicated OS thread, recovers Go panics that escape a call (with
// the panic site) and measures the CPU time the thread spent in each call. A batch that does not
// finish within the wall limit is abandoned (the in-flight input is reported as unbounded); the
// thread keeps spinning but the check goes on with a fresh guard thread.

type guardOutcome struct {
	Index    int
	Panicked bool
	PanicVal string
	Site     string // first cadence frame below the (last) panic
	Stack    string
	TimedOut bool
	CPU      time.Duration
}

type guardJob struct {
	n    int
	f    func(i int)
	cur  *atomic.Int64
	done chan []guardOutcome
}

type guard struct {
	jobs chan guardJob
}

const (
	// guardStallCPU: an input is abandoned as "unbounded" when the process has burnt this much CPU
	// time since the guard thread started on it (process CPU time does not depend on machine load,
	// wall-clock time does: the checks of other groups share the cores).
	guardStallCPU = 45 * time.Second
	// guardCPULimit is the per-input CPU-time bound: inputs are a few KiB (at most a few hundred KiB
	// for the deep-nesting mutants) and decode in well under a millisecond; 5 s of thread CPU time
	// is three to four orders of magnitude above that and far above GC noise.
	guardCPULimit = 5 * time.Second
)

func threadCPU() time.Duration {
	var ru syscall.Rusage
	const rusageThread = 1
	if err := syscall.Getrusage(rusageThread, &ru); err != nil {
		return 0
	}
	return time.Duration(ru.Utime.Nano() + ru.Stime.Nano())
}

func processCPU() time.Duration {
	var ru syscall.Rusage
	if err := syscall.Getrusage(syscall.RUSAGE_SELF, &ru); err != nil {
		return 0
	}
	return time.Duration(ru.Utime.Nano() + ru.Stime.Nano())
}

func newGuard() *guard {
	g := &guard{jobs: make(chan guardJob)}
	go func() {
		runtime.LockOSThread()
		defer runtime.UnlockOSThread()
		for j := range g.jobs {
			var bad []guardOutcome
			for i := 0; i < j.n; i++ {
				j.cur.Store(int64(i))
				o := runOne(i, j.f)
				if o.Panicked || o.CPU > guardCPULimit {
					bad = append(bad, o)
				}
			}
			j.done <- bad
		}
	}()
	return g
}

func runOne(i int, f func(int)) (out guardOutcome) {
	out.Index = i
	start := threadCPU()
	defer func() {
		if r := recover(); r != nil {
			st := string(debug.Stack())
			out.Panicked = true
			out.PanicVal = fmt.Sprintf("%T: %v", r, r)
			if len(out.PanicVal) > 600 {
				out.PanicVal = out.PanicVal[:600] + "…"
			}
			out.Site = panicSite(st)
			out.Stack = st
		}
		out.CPU = threadCPU() - start
	}()
	f(i)
	return
}

// each calls f(0..n-1) under the guard and returns the outcomes that panicked or exceeded the CPU
// bound. The returned guard must be used for the next call (a fresh one after an abandoned batch).
func (g *guard) each(n int, f func(i int)) ([]guardOutcome, *guard) {
	done := make(chan []guardOutcome, 1)
	var cur atomic.Int64
	cur.Store(-1)
	g.jobs <- guardJob{n: n, f: f, cur: &cur, done: done}
	last := int64(-2)
	cpu0 := processCPU()
	tick := time.NewTicker(250 * time.Millisecond)
	defer tick.Stop()
	for {
		select {
		case o := <-done:
			return o, g
		case <-tick.C:
			if at := cur.Load(); at != last {
				last, cpu0 = at, processCPU()
			} else if processCPU()-cpu0 > guardStallCPU {
				return []guardOutcome{{Index: int(max(at, 0)), TimedOut: true}}, newGuard()
			}
		}
	}
}

func (g *guard) one(f func()) (guardOutcome, *guard) {
	os, ng := g.each(1, func(int) { f() })
	if len(os) > 0 {
		return os[0], ng
	}
	return guardOutcome{}, ng
}

// panicSite returns the function of the first cadence frame below the last panic of the stack
// (a panic re-raised by a deferred function appears above the original one).
func panicSite(stack string) string {
	lines := strings.Split(stack, "\n")
	last := -1
	for i, l := range lines {
		if strings.HasPrefix(strings.TrimSpace(l), "panic(") {
			last = i
		}
	}
	for i := last + 1; i < len(lines); i++ {
		l := strings.TrimSpace(lines[i])
		if strings.HasPrefix(l, "github.com/onflow/cadence") || strings.HasPrefix(l, "github.com/fxamacker") || strings.HasPrefix(l, "encoding/json") {
			if k := strings.LastIndex(l, "("); k > 0 {
				l = l[:k]
			}
			return l
		}
	}
	return "unknown"
}
