package codec

import (
	"math/rand/v2"
)

// tape is the source of all generator decisions. In recording mode every draw comes from the
// seeded PRNG and is appended to rec; in replay mode draws come from a (possibly edited) list of
// earlier choices, missing entries read as 0. Every generator in this package is written so that
// the choice 0 is the simplest alternative, therefore "shrinking a value" is "making the tape
// smaller" (see shrink.go) and any tape yields a valid value.
type tape struct {
	rng    *rand.Rand
	replay []uint32
	isRep  bool
	pos    int
	rec    []uint32
}

func newTape(r *rand.Rand) *tape { return &tape{rng: r} }

func replayTape(choices []uint32) *tape { return &tape{replay: choices, isRep: true} }

// draw returns a choice in [0,n).
func (t *tape) draw(n int) int {
	if n <= 1 {
		return 0
	}
	var v int
	if t.isRep {
		if t.pos < len(t.replay) {
			v = int(t.replay[t.pos] % uint32(n))
		}
	} else {
		v = t.rng.IntN(n)
	}
	t.pos++
	t.rec = append(t.rec, uint32(v))
	return v
}

// chance is true with probability num/den; false is the simple choice.
func (t *tape) chance(num, den int) bool {
	return t.draw(den) >= den-num
}

// weighted picks an index with the given weights; index 0 should be the simplest alternative.
func (t *tape) weighted(w ...int) int {
	total := 0
	for _, x := range w {
		total += x
	}
	v := t.draw(total)
	for i, x := range w {
		if v < x {
			return i
		}
		v -= x
	}
	return len(w) - 1
}

// small draws a small size, biased to little values: 0 is the simplest.
func (t *tape) small(max int) int {
	if max <= 0 {
		return 0
	}
	// two draws: a magnitude class then the value, so that shrinking moves towards 0
	switch t.weighted(5, 3, 1) {
	case 0:
		return t.draw(min(max, 2) + 1)
	case 1:
		return t.draw(min(max, 4) + 1)
	default:
		return t.draw(max + 1)
	}
}

func (t *tape) u64() uint64 {
	return uint64(t.draw(1<<16)) | uint64(t.draw(1<<16))<<16 | uint64(t.draw(1<<16))<<32 | uint64(t.draw(1<<16))<<48
}

func (t *tape) choices() []uint32 { return append([]uint32(nil), t.rec...) }
