package codec

import (
	"bytes"
	"errors"
	"fmt"
	"math/rand/v2"
	"strings"

	"github.com/onflow/cadence"
	"github.com/onflow/cadence/encoding/ccf"

	"verif/harness/core"
)

// C42 — CCF round-trips, is canonical in deterministic mode, and never crashes.

var sortedEncMode = func() ccf.EncMode {
	m, err := ccf.EncOptions{
		SortCompositeFields:   ccf.SortBytewiseLexical,
		SortIntersectionTypes: ccf.SortBytewiseLexical,
		SortEntitlementTypes:  ccf.SortBytewiseLexical,
	}.EncMode()
	if err != nil {
		panic(err)
	}
	return m
}()

var strictDecMode = func() ccf.DecMode {
	m, err := ccf.DecOptions{
		EnforceSortCompositeFields:   ccf.EnforceSortBytewiseLexical,
		EnforceSortIntersectionTypes: ccf.EnforceSortBytewiseLexical,
		EnforceSortEntitlementTypes:  ccf.EnforceSortBytewiseLexical,
	}.DecMode()
	if err != nil {
		panic(err)
	}
	return m
}()

func isAttachmentFieldError(err error) bool {
	var e ccf.AttachmentFieldNotSupportedEncodingError
	return errors.As(err, &e)
}

// ccfEncode encodes under protection. skip=true: the value is outside CCF's domain by design.
func ccfEncode(leg string, enc func(cadence.Value) ([]byte, error), v cadence.Value) (b []byte, f *failure, skip bool) {
	var err error
	if f := protect(leg+"-encode", func() { b, err = enc(v) }); f != nil {
		return nil, f, false
	}
	if err != nil {
		if isAttachmentFieldError(err) {
			return nil, nil, true
		}
		return nil, &failure{Class: leg + "-encode-error", Detail: err.Error()}, false
	}
	return b, nil, false
}

func ccfDecode(leg string, dec func([]byte) (cadence.Value, error), b []byte) (v cadence.Value, f *failure) {
	var err error
	if f := protect(leg+"-decode", func() { v, err = dec(b) }); f != nil {
		f.Extra["ccf_hex"] = hexClip(b, 3000)
		return nil, f
	}
	if err != nil {
		return nil, &failure{Class: leg + "-decode-error", Detail: err.Error(), Extra: map[string]any{"ccf_hex": hexClip(b, 3000)}}
	}
	if v == nil {
		return nil, &failure{Class: leg + "-decode-nil", Detail: "decoder returned neither a value nor an error", Extra: map[string]any{"ccf_hex": hexClip(b, 3000)}}
	}
	return v, nil
}

// ccfEqual compares an original with its decoded counterpart: values, static types (inline
// level), embedded types (full level), and the library's own ID()/Equal() on the value's type and
// on the embedded types.
func ccfEqual(leg string, v, d cadence.Value, b []byte) *failure {
	if diff := newComparer(cmpCCF).value("value", v, d); diff != "" {
		return &failure{Class: leg + "-value", Detail: diff, Extra: map[string]any{"ccf_hex": hexClip(b, 3000), "decoded": clipS(describeValue(d, 1), 6000)}}
	}
	if diff := typeIDsAgree("value", v, d, true); diff != "" {
		return &failure{Class: leg + "-type-id", Detail: diff, Extra: map[string]any{"ccf_hex": hexClip(b, 3000)}}
	}
	if nilChainDepth(v) == 0 {
		if diff := libTypeAgreement("value.Type()", v.Type(), d.Type(), map[[2]cadence.Type]bool{}); diff != "" {
			return &failure{Class: leg + "-type-Equal", Detail: diff, Extra: map[string]any{"ccf_hex": hexClip(b, 3000)}}
		}
	}
	if diff := embeddedTypePairs(v, d, func(where string, ta, tb cadence.Type) string {
		return libTypeAgreement(where, ta, tb, map[[2]cadence.Type]bool{})
	}); diff != "" {
		return &failure{Class: leg + "-type-Equal", Detail: diff, Extra: map[string]any{"ccf_hex": hexClip(b, 3000)}}
	}
	return nil
}

// ccfRoundTrip: default mode and deterministic (fully sorted) mode.
func ccfRoundTrip(v cadence.Value) (fail *failure, def []byte, sorted []byte, outside bool) {
	def, f, skip := ccfEncode("ccf-default", ccf.Encode, v)
	if skip {
		return nil, nil, nil, true
	}
	if f != nil {
		return f, nil, nil, false
	}
	d, f := ccfDecode("ccf-default", func(b []byte) (cadence.Value, error) { return ccf.Decode(nil, b) }, def)
	if f != nil {
		return f, def, nil, false
	}
	if f := ccfEqual("ccf-default-roundtrip", v, d, def); f != nil {
		return f, def, nil, false
	}

	sorted, f, _ = ccfEncode("ccf-sorted", sortedEncMode.Encode, v)
	if f != nil {
		return f, def, nil, false
	}
	// the strict decoder accepts the canonical encoding
	sd, f := ccfDecode("ccf-sorted-strict", func(b []byte) (cadence.Value, error) { return strictDecMode.Decode(nil, b) }, sorted)
	if f != nil {
		return f, def, sorted, false
	}
	if f := ccfEqual("ccf-sorted-roundtrip", v, sd, sorted); f != nil {
		return f, def, sorted, false
	}
	// canonical encodings are stable: the decoded value encodes to the same bytes
	again, f, _ := ccfEncode("ccf-sorted-reencode", sortedEncMode.Encode, sd)
	if f != nil {
		return f, def, sorted, false
	}
	if !bytes.Equal(again, sorted) {
		return &failure{Class: "ccf-sorted-reencode-differs", Detail: fmt.Sprintf("value kind %T", v),
			Extra: map[string]any{"ccf_hex": hexClip(sorted, 3000), "reencoded_hex": hexClip(again, 3000)}}, def, sorted, false
	}
	return nil, def, sorted, false
}

// ccfCanonicity compares the canonical encoding of v with the encodings of a permuted presentation p
// of the same logical value.
func ccfCanonicity(v, p cadence.Value, sorted []byte) *failure {
	ps, f, skip := ccfEncode("ccf-sorted-permuted", sortedEncMode.Encode, p)
	if skip {
		return nil
	}
	if f != nil {
		return f
	}
	if !bytes.Equal(ps, sorted) {
		i := 0
		for i < len(ps) && i < len(sorted) && ps[i] == sorted[i] {
			i++
		}
		return &failure{Class: "ccf-canonicity", Detail: "deterministic-mode encodings of two presentations of one value differ: " + permutationDifference(v, p),
			Extra: map[string]any{"canonical_hex": hexClip(sorted, 3000), "permuted_hex": hexClip(ps, 3000), "first_difference_at": i,
				"permuted_presentation": clipS(describeValue(p, 1), 6000)}}
	}
	// strictness: the unsorted-mode encoding of the permuted presentation is either the canonical
	// encoding or must be rejected by the strict decoder; the lenient decoder must accept it
	pu, f, _ := ccfEncode("ccf-default-permuted", ccf.Encode, p)
	if f != nil {
		return f
	}
	ld, f := ccfDecode("ccf-default-permuted", func(b []byte) (cadence.Value, error) { return ccf.Decode(nil, b) }, pu)
	if f != nil {
		return f
	}
	if f := ccfEqual("ccf-default-permuted-roundtrip", p, ld, pu); f != nil {
		return f
	}
	if !bytes.Equal(pu, sorted) {
		var err error
		var sv cadence.Value
		if f := protect("ccf-strict-decode", func() { sv, err = strictDecMode.Decode(nil, pu) }); f != nil {
			return f
		}
		if err == nil {
			return &failure{Class: "ccf-strictness", Detail: "the strict decoder accepted a non-canonical (unsorted) encoding: " + permutationDifference(v, p),
				Extra: map[string]any{"canonical_hex": hexClip(sorted, 3000), "unsorted_hex": hexClip(pu, 3000), "decoded": clipS(describeValue(sv, 1), 3000),
					"permuted_presentation": clipS(describeValue(p, 1), 6000)}}
		}
		return &failure{Class: "", Detail: "rejected"}
	}
	return nil
}

// permutationDifference names the first kind of ordering in which two presentations differ.
func permutationDifference(v, p cadence.Value) string {
	a, b := describeValue(v, 1), describeValue(p, 1)
	i := 0
	for i < len(a) && i < len(b) && a[i] == b[i] {
		i++
	}
	lo := max(0, i-40)
	return fmt.Sprintf("presentations first differ near %q vs %q", clipS(a[lo:], 90), clipS(b[lo:min(len(b), lo+90)], 90))
}

// unsortDictionary swaps two key/value pairs of the top-level dictionary of an encoding (lengths
// stay consistent). ok=false when the encoding is not a top-level dictionary with two distinct keys.
func unsortDictionary(r *rand.Rand, enc []byte) ([]byte, bool) {
	root, rest, ok := parseCBOR(enc, 0)
	if !ok || len(rest) != 0 || root.major != 6 || len(root.kids) != 1 {
		return nil, false
	}
	msg := root.kids[0]
	if msg.major != 4 || len(msg.kids) != 2 {
		return nil, false
	}
	if root.arg == 129 {
		// typedefs + [type, value]
		msg = msg.kids[1]
		if msg.major != 4 || len(msg.kids) != 2 {
			return nil, false
		}
	}
	val := msg.kids[1]
	if val.major != 4 || len(val.kids) < 4 || len(val.kids)%2 != 0 {
		return nil, false
	}
	n := len(val.kids) / 2
	i := r.IntN(n)
	j := (i + 1 + r.IntN(n-1)) % n
	var bi, bj bytes.Buffer
	val.kids[2*i].encode(&bi)
	val.kids[2*j].encode(&bj)
	if bytes.Equal(bi.Bytes(), bj.Bytes()) {
		return nil, false
	}
	val.kids[2*i], val.kids[2*j] = val.kids[2*j], val.kids[2*i]
	val.kids[2*i+1], val.kids[2*j+1] = val.kids[2*j+1], val.kids[2*i+1]
	var out bytes.Buffer
	root.encode(&out)
	return out.Bytes(), true
}

func buildDictionary(t *tape) cadence.Value {
	g := newGen(t, true)
	k := g.keyType(1)
	vt := g.staticType(1)
	dt := cadence.NewDictionaryType(k, vt)
	for tries := 0; tries < 6; tries++ {
		var pairs []cadence.KeyValuePair
		seen := map[string]bool{}
		for i := 0; i < 2+t.draw(4); i++ {
			key := g.value(k, 1)
			if ks := dictKey(key); !seen[ks] {
				seen[ks] = true
				pairs = append(pairs, cadence.KeyValuePair{Key: key, Value: g.value(vt, 1)})
			}
		}
		if len(pairs) >= 2 {
			return cadence.NewDictionary(pairs).WithType(dt)
		}
	}
	return cadence.NewDictionary([]cadence.KeyValuePair{
		{Key: g.value(cadence.StringType, 0), Value: g.value(vt, 1)},
	}).WithType(cadence.NewDictionaryType(cadence.StringType, vt))
}

func init() {
	core.Register(&core.Prop{
		ID:    "C42",
		Level: "exploration",
		Rule:  "each case generates fully typed values (as C41, restricted to CCF's domain: at most one initializer per composite type, no attachments hung on composite values) and checks: default-mode and deterministic-mode encode→decode equality with equal types; byte-identical deterministic encodings for a second, permuted presentation of the same value (dictionary entries, intersection members, entitlements and composite field order shuffled); acceptance of canonical bytes and rejection of non-canonical bytes by the strict decoder; rejection of swapped dictionary entries; then CBOR-level and byte-level mutants are decoded by the lenient and the strict decoder under a CPU-time guard. Distinct by FNV-64 of encodings / mutant bytes",
		Assumptions: []string{
			"equality oracle: the harness' own structural comparison (eq.go): values exactly, static types of values at the level CCF carries them (type definitions: kind, ID, fields by name; interfaces by ID; no initializers), type values in full; dictionaries as key→value maps, composite fields by name; Optional^k(nil) and Optional^j(nil) are the same nil (CCF encodes both as one nil and rebuilds the nesting from the static type)",
			"\"equal type\" also requires the library's own Type.ID() and Type.Equal() to agree",
			"values are inside CCF's documented domain (complete type information, valid UTF-8, unique dictionary keys)",
			"robustness: a Go panic escaping ccf.Decode (or ccf.Encode of a generated value), a worker death or > 5 s thread CPU time on one input are violations",
		},
		NumCases: func(tier string) int {
			if tier == "thorough" {
				return 512
			}
			return 64
		},
		Floors: map[string]int64{
			"values": 3000, "roundtrip_ok": 2000, "sorted_roundtrip_ok": 2000, "canonical_same_bytes": 1500, "presentation_differs": 300,
			"strict_rejected_unsorted": 100, "unsorted_same_as_canonical": 500,
			"dict_swapped_rejected_lenient": 100, "dict_swapped_rejected_strict": 100,
			"mutants": 30000, "mut_bytes": 8000, "mut_tree": 8000, "mut_shape": 100, "mutant_decoded_value": 500, "mutant_decode_error": 10000,
			"kind_v:Struct": 100, "kind_v:Resource": 40, "kind_v:Event": 40, "kind_v:Contract": 10, "kind_v:Enum": 40, "kind_v:Attachment": 5,
			"kind_v:Array": 100, "kind_v:Dictionary": 100, "kind_v:Optional(nil)": 100, "kind_v:Optional(some)": 100,
			"kind_v:Path": 40, "kind_v:Type": 300, "kind_v:Capability": 100, "kind_v:InclusiveRange": 20,
			"kind_t:Function": 100, "kind_t:Intersection": 100, "kind_t:ReferenceConjunctionAuth": 40, "kind_t:ReferenceDisjunctionAuth": 20,
			"kind_t:ReferenceMapAuth": 40, "kind_t:Capability": 100, "kind_t:recursive-or-repeated": 40, "kind_t:StructInterface": 40,
			"primitive_types_as_type_values": 100,
		},
		Run: runC42,
	})
}

func runC42(c *core.Ctx) {
	rep := newReporter(c)
	nValues := c.Pick(280, 900)
	nMutants := c.Pick(3000, 10000)
	nDicts := c.Pick(20, 60)
	build := func(t *tape) cadence.Value { return buildValue(t, true) }
	check := func(v cadence.Value) *failure { f, _, _, _ := ccfRoundTrip(v); return f }

	var pool [][]byte
	addPool := func(b []byte) {
		if len(b) == 0 || len(b) > 20000 {
			return
		}
		if len(pool) < 96 {
			pool = append(pool, b)
		} else {
			pool[c.Rng.IntN(len(pool))] = b
		}
	}

	if c.Case%16 == 0 {
		for _, p := range allPrimitives {
			c.Eval(1)
			c.Inc("primitive_types_as_type_values")
			if f, _, _, _ := ccfRoundTrip(cadence.NewTypeValue(p)); f != nil {
				c.Violate(f.Class+":type-value-of-primitive:"+safeID(p), f.Class+": type value of primitive "+safeID(p)+": "+f.Detail,
					map[string]any{"type": safeID(p), "detail": f.Detail})
			}
			// and as the static element type of an (empty) array value
			arr := cadence.NewArray([]cadence.Value{}).WithType(cadence.NewVariableSizedArrayType(p))
			if f, _, _, _ := ccfRoundTrip(arr); f != nil {
				c.Violate(f.Class+":inline-type-of-primitive:"+safeID(p), f.Class+": empty array of primitive "+safeID(p)+": "+f.Detail,
					map[string]any{"type": safeID(p), "detail": f.Detail})
			}
		}
	}

	if c.Case == 0 {
		for _, nv := range targetedValues() {
			c.Eval(1)
			f, _, _, outside := ccfRoundTrip(nv.Value)
			if f != nil && !outside {
				w := map[string]any{"targeted": nv.Name, "value": clipS(describeValue(nv.Value, 1), 4000), "detail": f.Detail}
				for k, x := range f.Extra {
					w[k] = x
				}
				c.Violate(targetedKey(f, nv.Name), f.Class+": "+f.Detail+" — targeted value "+nv.Name, w)
			}
		}
	}

	for i := 0; i < nValues; i++ {
		t := newTape(c.Rng)
		v, finite := tryBuild(build, t)
		if !finite {
			c.Inc("no_finite_value_skipped")
			continue
		}
		choices := t.choices()
		c.Eval(1)
		c.Inc("values")
		countKinds(c, v)
		f, def, sorted, outside := ccfRoundTrip(v)
		if outside {
			c.Inc("outside_ccf_domain")
			continue
		}
		if def != nil {
			c.DistinctHash(hash64(def))
			addPool(def)
		}
		if sorted != nil {
			addPool(sorted)
		}
		if f != nil {
			rep.report(f, choices, build, check)
			continue
		}
		c.Inc("roundtrip_ok")
		c.Inc("sorted_roundtrip_ok")

		// ---- canonicity and strictness under a permuted presentation
		permSeed := c.Rng.Uint64()
		mkPerm := func() *rand.Rand { return rand.New(rand.NewPCG(permSeed, 77)) }
		p := buildPresentation(replayTape(choices), true, mkPerm())
		if describeValue(p, 1) != describeValue(v, 1) {
			c.Inc("presentation_differs")
		}
		c.Eval(1)
		cf := ccfCanonicity(v, p, sorted)
		switch {
		case cf == nil:
			c.Inc("canonical_same_bytes")
			c.Inc("unsorted_same_as_canonical")
		case cf.Class == "":
			c.Inc("canonical_same_bytes")
			c.Inc("strict_rejected_unsorted")
		default:
			// attribute the failure to the ordering classes that provoke it on their own
			var classes []string
			for _, bit := range []uint8{permFields, permDict, permIntersection, permEntitlements} {
				pp := buildPresentationMask(replayTape(choices), true, mkPerm(), bit)
				if g := ccfCanonicity(v, pp, sorted); g != nil && g.Class == cf.Class {
					classes = append(classes, permClassNames[bit])
				}
			}
			attribution := "order of " + strings.Join(classes, "+")
			if len(classes) == 0 {
				attribution = "only a combination of orderings"
			}
			strict := cf.Class == "ccf-strictness"
			if strict {
				// what the strict decoder let through: the orderings that are not canonical in the
				// presentation it accepted
				attribution = "unsorted " + strings.Join(unsortedClasses(p), "+") + " accepted"
			}
			cf.Detail = attribution + " [at " + cf.Detail + "]"
			// shrink with the same permutation seed
			rep.reportTape(cf, choices, build, func(vv cadence.Value, ch []uint32) *failure {
				ff, _, ss, out := ccfRoundTrip(vv)
				if ff != nil || out {
					return nil
				}
				pp, _ := safeBuild(func(tt *tape) cadence.Value { return buildPresentation(tt, true, mkPerm()) }, ch)
				if pp == nil {
					return nil
				}
				g := ccfCanonicity(vv, pp, ss)
				if g == nil || g.Class == "" {
					return nil
				}
				if strict {
					if g.Class != "ccf-strictness" {
						return nil
					}
					g.Detail = "unsorted " + strings.Join(unsortedClasses(pp), "+") + " accepted [at " + g.Detail + "]"
					return g
				}
				g.Detail = attribution + " [at " + g.Detail + "]"
				return g
			})
		}
		if c.WantSample() && i%41 == 7 {
			c.Sample(map[string]any{"value": clipS(describeValue(v, 1), 500), "ccf_hex": hexClip(def, 300), "deterministic_ccf_hex": hexClip(sorted, 300)})
		}
	}

	// ---- dictionary order is always enforced
	for i := 0; i < nDicts; i++ {
		t := newTape(c.Rng)
		dv := buildDictionary(t)
		enc, f, _ := ccfEncode("ccf-default", ccf.Encode, dv)
		if f != nil || enc == nil {
			continue
		}
		sw, ok := unsortDictionary(c.Rng, enc)
		if !ok {
			c.Inc("dict_swap_not_applicable")
			continue
		}
		c.Eval(1)
		c.DistinctHash(hash64(sw))
		for _, mode := range []struct {
			name string
			dec  func([]byte) (cadence.Value, error)
		}{
			{"lenient", func(b []byte) (cadence.Value, error) { return ccf.Decode(nil, b) }},
			{"strict", func(b []byte) (cadence.Value, error) { return strictDecMode.Decode(nil, b) }},
		} {
			var got cadence.Value
			var err error
			if pf := protect("ccf-"+mode.name+"-decode", func() { got, err = mode.dec(sw) }); pf != nil {
				c.Violate(pf.key(), pf.Class+": "+pf.Detail, map[string]any{"ccf_hex": hexClip(sw, 3000), "stack": pf.Extra["stack"]})
				continue
			}
			if err == nil {
				c.Violate("ccf-dictionary-order-not-enforced:"+mode.name+"-decoder",
					"the "+mode.name+" decoder accepted a dictionary whose entries are not sorted by encoded key",
					map[string]any{"original_hex": hexClip(enc, 3000), "swapped_hex": hexClip(sw, 3000), "value": clipS(describeValue(dv, 1), 3000), "decoded": clipS(describeValue(got, 1), 3000)})
				continue
			}
			c.Inc("dict_swapped_rejected_" + mode.name)
		}
	}
	if len(pool) == 0 {
		return
	}

	// ---- robustness
	type mutant struct {
		b    []byte
		kind string
	}
	muts := make([]mutant, 0, nMutants+8)
	for len(muts) < nMutants {
		src := pool[c.Rng.IntN(len(pool))]
		other := pool[c.Rng.IntN(len(pool))]
		switch k := c.Rng.IntN(20); {
		case k < 8:
			muts = append(muts, mutant{mutateBytes(c.Rng, src, other), "bytes"})
		default:
			if m, ok := mutateCBOR(c.Rng, src, other); ok {
				muts = append(muts, mutant{m, "tree"})
			}
		}
	}
	for i := 0; i < 4; i++ {
		muts = append(muts, mutant{cborShapeMutant(c.Rng, pool[c.Rng.IntN(len(pool))]), "shape"})
	}
	g := newGuard()
	decoded := make([]int8, len(muts))
	decodeBoth := func(b []byte) int8 {
		v1, e1 := ccf.Decode(nil, b)
		v2, e2 := strictDecMode.Decode(nil, b)
		switch {
		case (e1 == nil && v1 == nil) || (e2 == nil && v2 == nil):
			return 3
		case e1 == nil:
			return 1
		}
		return 2
	}
	bad, g := g.each(len(muts), func(i int) { decoded[i] = decodeBoth(muts[i].b) })
	close(g.jobs)
	for i, m := range muts {
		c.Eval(1)
		c.Inc("mutants")
		c.Inc("mut_" + m.kind)
		c.DistinctHash(hash64(m.b))
		switch decoded[i] {
		case 1:
			c.Inc("mutant_decoded_value")
		case 2:
			c.Inc("mutant_decode_error")
		case 3:
			// (nil, nil): e.g. 130([Never, nil]); not a crash, the statement allows it
			c.Inc("mutant_decoded_nil_value")
		}
	}
	for _, o := range bad {
		m := muts[o.Index]
		w := map[string]any{"input_hex": hexClip(m.b, 4000), "input_len": len(m.b), "mutation": m.kind, "cpu_ms": o.CPU.Milliseconds()}
		switch {
		case o.TimedOut:
			c.Violate("ccf-decode:unbounded-time", "ccf.Decode did not return", w)
		case o.Panicked:
			min := minimizeBytes(m.b, func(b []byte) bool {
				o2 := runOne(0, func(int) { decodeBoth(b) })
				return o2.Panicked && o2.Site == o.Site
			})
			w["minimal_input_hex"] = hexClip(min, 4000)
			w["panic"] = o.PanicVal
			w["stack"] = clipS(o.Stack, 5000)
			c.Violate("ccf-decode:escaped-panic:"+o.Site, fmt.Sprintf("a Go panic escaped ccf.Decode: %s (minimal input: %s)", clipS(o.PanicVal, 200), hexClip(min, 200)), w)
		default:
			c.Violate("ccf-decode:cpu-time-bound", fmt.Sprintf("ccf.Decode used %v CPU time on a %d-byte input", o.CPU, len(m.b)), w)
		}
	}
}
