package codec

import (
	"sort"

	"github.com/onflow/cadence"
)

// unsortedClasses lists the ordering classes in which a presentation of a value is not in CCF's
// canonical order (length first, then bytewise): field lists of composite types, intersection
// members, entitlement sets. It is the harness' own reading of the "Deterministic CCF Encoding
// Requirements" and is used to attribute strictness failures.
func unsortedClasses(v cadence.Value) []string {
	found := map[string]bool{}
	seen := map[cadence.Type]bool{}
	var walkType func(t cadence.Type)
	lessOrEqual := func(a, b string) bool {
		return len(a) < len(b) || (len(a) == len(b) && a <= b)
	}
	walkType = func(t cadence.Type) {
		if isNilType(t) {
			return
		}
		switch t := t.(type) {
		case *cadence.OptionalType:
			walkType(t.Type)
		case *cadence.VariableSizedArrayType:
			walkType(t.ElementType)
		case *cadence.ConstantSizedArrayType:
			walkType(t.ElementType)
		case *cadence.DictionaryType:
			walkType(t.KeyType)
			walkType(t.ElementType)
		case *cadence.InclusiveRangeType:
			walkType(t.ElementType)
		case *cadence.CapabilityType:
			walkType(t.BorrowType)
		case *cadence.ReferenceType:
			if a, ok := t.Authorization.(*cadence.EntitlementSetAuthorization); ok {
				for i := 1; i < len(a.Entitlements); i++ {
					if !lessOrEqual(string(a.Entitlements[i-1]), string(a.Entitlements[i])) {
						found["entitlements"] = true
					}
				}
			}
			walkType(t.Type)
		case *cadence.IntersectionType:
			for i, m := range t.Types {
				if i > 0 && !lessOrEqual(safeID(t.Types[i-1]), safeID(m)) {
					found["intersection-members"] = true
				}
				walkType(m)
			}
		case *cadence.FunctionType:
			for _, tp := range t.TypeParameters {
				walkType(tp.TypeBound)
			}
			for _, p := range t.Parameters {
				walkType(p.Type)
			}
			walkType(t.ReturnType)
		default:
			ni, ok := nominalOf(t)
			if !ok || seen[t] {
				return
			}
			seen[t] = true
			for i, f := range ni.Fields {
				if i > 0 && !lessOrEqual(ni.Fields[i-1].Identifier, f.Identifier) {
					found["composite-fields"] = true
				}
				walkType(f.Type)
			}
			if ni.HasExtra {
				walkType(ni.Extra)
			}
			for _, in := range ni.Inits {
				for _, p := range in {
					walkType(p.Type)
				}
			}
		}
	}
	var walk func(v cadence.Value)
	walk = func(v cadence.Value) {
		switch v := v.(type) {
		case nil:
		case cadence.Optional:
			walk(v.Value)
		case cadence.Array:
			if v.ArrayType != nil {
				walkType(v.ArrayType)
			}
			for _, e := range v.Values {
				walk(e)
			}
		case cadence.Dictionary:
			if v.DictionaryType != nil {
				walkType(v.DictionaryType)
			}
			for _, p := range v.Pairs {
				walk(p.Key)
				walk(p.Value)
			}
		case *cadence.InclusiveRange:
			if v.InclusiveRangeType != nil {
				walkType(v.InclusiveRangeType)
			}
		case cadence.TypeValue:
			walkType(v.StaticType)
		case cadence.Capability:
			walkType(v.BorrowType)
		case cadence.Function:
			if v.FunctionType != nil {
				walkType(v.FunctionType)
			}
		default:
			if ci, ok := compositeOf(v); ok {
				if ci.Type != nil {
					walkType(ci.Type)
				}
				for _, f := range ci.Values {
					walk(f)
				}
			}
		}
	}
	walk(v)
	out := make([]string, 0, len(found))
	for k := range found {
		out = append(out, k)
	}
	sort.Strings(out)
	return out
}
