package codec

import (
	_ "unsafe" // go:linkname

	"github.com/onflow/cadence"
)

// The ordered field lists of cadence composite types and values are unexported; the codecs reach
// them through these linknames and so does the harness (read-only).

//go:linkname getCompositeTypeFields github.com/onflow/cadence.getCompositeTypeFields
func getCompositeTypeFields(cadence.CompositeType) []cadence.Field

//go:linkname getInterfaceTypeFields github.com/onflow/cadence.getInterfaceTypeFields
func getInterfaceTypeFields(cadence.InterfaceType) []cadence.Field

//go:linkname getCompositeFieldValues github.com/onflow/cadence.getCompositeFieldValues
func getCompositeFieldValues(cadence.Composite) []cadence.Value

func fieldsOf(t cadence.CompositeType) []cadence.Field { return getCompositeTypeFields(t) }

func fieldValuesOf(v cadence.Composite) []cadence.Value { return getCompositeFieldValues(v) }

// nominalInfo is the uniform view of the nine nominal type kinds.
type nominalInfo struct {
	Kind   string
	ID     string
	Fields []cadence.Field
	Inits  [][]cadence.Parameter
	// Extra is the raw type of an enum or the base type of an attachment
	Extra    cadence.Type
	HasExtra bool
}

func nominalOf(t cadence.Type) (nominalInfo, bool) {
	switch t := t.(type) {
	case *cadence.StructType:
		return nominalInfo{Kind: "Struct", ID: t.ID(), Fields: fieldsOf(t), Inits: t.Initializers}, true
	case *cadence.ResourceType:
		return nominalInfo{Kind: "Resource", ID: t.ID(), Fields: fieldsOf(t), Inits: t.Initializers}, true
	case *cadence.EventType:
		// an event type has exactly one initializer (nil and empty parameter lists are the same)
		return nominalInfo{Kind: "Event", ID: t.ID(), Fields: fieldsOf(t), Inits: [][]cadence.Parameter{t.Initializer}}, true
	case *cadence.ContractType:
		return nominalInfo{Kind: "Contract", ID: t.ID(), Fields: fieldsOf(t), Inits: t.Initializers}, true
	case *cadence.EnumType:
		return nominalInfo{Kind: "Enum", ID: t.ID(), Fields: fieldsOf(t), Inits: t.Initializers, Extra: t.RawType, HasExtra: true}, true
	case *cadence.AttachmentType:
		return nominalInfo{Kind: "Attachment", ID: t.ID(), Fields: fieldsOf(t), Inits: t.Initializers, Extra: t.BaseType, HasExtra: true}, true
	case *cadence.StructInterfaceType:
		return nominalInfo{Kind: "StructInterface", ID: t.ID(), Fields: getInterfaceTypeFields(t), Inits: t.Initializers}, true
	case *cadence.ResourceInterfaceType:
		return nominalInfo{Kind: "ResourceInterface", ID: t.ID(), Fields: getInterfaceTypeFields(t), Inits: t.Initializers}, true
	case *cadence.ContractInterfaceType:
		return nominalInfo{Kind: "ContractInterface", ID: t.ID(), Fields: getInterfaceTypeFields(t), Inits: t.Initializers}, true
	}
	return nominalInfo{}, false
}

func isInterfaceKind(k string) bool {
	return k == "StructInterface" || k == "ResourceInterface" || k == "ContractInterface"
}

// compositeOf is the uniform view of the six composite value kinds.
type compositeInfo struct {
	Kind   string
	Type   cadence.CompositeType
	Values []cadence.Value
}

func compositeOf(v cadence.Value) (compositeInfo, bool) {
	switch v := v.(type) {
	case cadence.Struct:
		if v.StructType == nil {
			return compositeInfo{Kind: "Struct", Values: fieldValuesOf(v)}, true
		}
		return compositeInfo{Kind: "Struct", Type: v.StructType, Values: fieldValuesOf(v)}, true
	case cadence.Resource:
		if v.ResourceType == nil {
			return compositeInfo{Kind: "Resource", Values: fieldValuesOf(v)}, true
		}
		return compositeInfo{Kind: "Resource", Type: v.ResourceType, Values: fieldValuesOf(v)}, true
	case cadence.Event:
		if v.EventType == nil {
			return compositeInfo{Kind: "Event", Values: fieldValuesOf(v)}, true
		}
		return compositeInfo{Kind: "Event", Type: v.EventType, Values: fieldValuesOf(v)}, true
	case cadence.Contract:
		if v.ContractType == nil {
			return compositeInfo{Kind: "Contract", Values: fieldValuesOf(v)}, true
		}
		return compositeInfo{Kind: "Contract", Type: v.ContractType, Values: fieldValuesOf(v)}, true
	case cadence.Enum:
		if v.EnumType == nil {
			return compositeInfo{Kind: "Enum", Values: fieldValuesOf(v)}, true
		}
		return compositeInfo{Kind: "Enum", Type: v.EnumType, Values: fieldValuesOf(v)}, true
	case cadence.Attachment:
		if v.AttachmentType == nil {
			return compositeInfo{Kind: "Attachment", Values: fieldValuesOf(v)}, true
		}
		return compositeInfo{Kind: "Attachment", Type: v.AttachmentType, Values: fieldValuesOf(v)}, true
	}
	return compositeInfo{}, false
}
