package codec

import (
	"fmt"
	"math"
	"math/rand/v2"

	"github.com/onflow/cadence"
	"github.com/onflow/cadence/common"
	"github.com/onflow/cadence/interpreter"
)

// ------------------------------------------------------------------ nominal types

type nomKind int

const (
	nkStruct nomKind = iota
	nkResource
	nkEvent
	nkContract
	nkEnum
	nkAttachment
	nkStructIface
	nkResourceIface
	nkContractIface
	nkCount
)

func (k nomKind) String() string {
	return [...]string{"Struct", "Resource", "Event", "Contract", "Enum", "Attachment", "StructInterface", "ResourceInterface", "ContractInterface"}[k]
}

func (k nomKind) isInterface() bool { return k >= nkStructIface }

type nominal struct {
	kind   nomKind
	typ    cadence.Type
	fields []cadence.Field // shares its backing array with the type's field list
	done   bool
	// typeOnly nominals were made by the liberal type generator: they may contain direct cycles
	// and are never instantiated as values.
	typeOnly bool
	// wrapAtStart is gen.wrapCount when the construction of this nominal began.
	wrapAtStart int
	// pos[k] is the position, in the type's field list, of the k-th field in generation order
	// (the identity unless a presentation permutation is active).
	pos []int
}

// gen produces types and values of one "world": a set of nominal types with unique IDs, each
// represented by exactly one Go pointer (the codecs key repeated/recursive types by pointer or ID).
type gen struct {
	t *tape
	// ccf restricts the world to what CCF can represent by design: at most one initializer per
	// composite type, no attachments hung on composite values.
	ccf bool
	// importable restricts values to ones the JSON decoder can read back (no Attachment values)
	noms   []*nominal
	byType map[cadence.Type]*nominal
	leaves map[nomKind]*nominal
	// perm, when set, permutes the *presentation* of the generated value without touching the tape:
	// the order of fields in type definitions (and of the field values accordingly), of dictionary
	// entries, of intersection members and of entitlements. Two builds from the same tape, one with
	// and one without perm, are the same logical value.
	// hidden is a nominal under construction that must not be referenced right now (an attachment
	// while its base type is generated)
	hidden map[*nominal]bool
	perm   *rand.Rand
	// permMask selects the orderings perm applies to (permFields | permDict | ...); 0 means all.
	permMask  uint8
	nameSeq   int
	wrapCount int
	maxNoms   int
	// feature switches (parts per 100 at the relevant choice points). The defaults keep the known
	// weak spots of the codecs rare, so that most generated values exercise the rest.
	rare int
}

func newGen(t *tape, ccf bool) *gen {
	return &gen{t: t, ccf: ccf, maxNoms: 6, rare: 3, byType: map[cadence.Type]*nominal{}}
}

const (
	permFields uint8 = 1 << iota
	permDict
	permIntersection
	permEntitlements
)

var permClassNames = map[uint8]string{permFields: "composite-fields", permDict: "dictionary-entries", permIntersection: "intersection-members", permEntitlements: "entitlements"}

// permFor returns the presentation PRNG for an ordering class. The PRNG is always advanced the same
// way whether or not the class is selected, so that single-class presentations use the same
// permutations as the all-class presentation.
func (g *gen) shuffle(class uint8, n int, swap func(i, j int)) {
	if g.perm == nil {
		return
	}
	if g.permMask != 0 && g.permMask&class == 0 {
		g.perm.Shuffle(n, func(i, j int) {})
		return
	}
	g.perm.Shuffle(n, swap)
}

// permutation returns the identity, or a random permutation when a presentation seed is set.
func (g *gen) permutation(n int) []int {
	p := make([]int, n)
	for i := range p {
		p[i] = i
	}
	g.shuffle(permFields, n, func(i, j int) { p[i], p[j] = p[j], p[i] })
	return p
}

var contractNames = []string{"C", "D", "Token", "A", "Zz", "c"}
var typeNames = []string{"Foo", "Bar", "A", "B", "AA", "Ab", "a", "Z", "Fo", "Baz", "I", "J", "Vault", "NFT", "R", "S", "T", "Item", "X", "Y"}
var fieldNames = []string{"a", "b", "c", "aa", "ab", "ba", "z", "x1", "x10", "x2", "B", "A", "_", "foo", "fooBar", "id", "uuid", "balance", "owner", "y", "zz", "q", "Q", "value"}

var addrPool = [][8]byte{
	{0, 0, 0, 0, 0, 0, 0, 1},
	{0, 0, 0, 0, 0, 0, 0, 2},
	{0xf8, 0xd6, 0xe0, 0x58, 0x6b, 0x0a, 0x20, 0xc7},
	{0, 0, 0, 0, 0, 0, 0, 0},
	{0xff, 0xff, 0xff, 0xff, 0xff, 0xff, 0xff, 0xff},
	{0, 0, 0, 0, 0, 0, 1, 0},
}

// location draws a location and the first segment of the qualified identifier it forces.
func (g *gen) location() (common.Location, string) {
	switch g.t.weighted(12, 3, 1, 1, 1, 1) {
	case 0:
		name := contractNames[g.t.draw(len(contractNames))]
		return common.AddressLocation{Address: common.Address(addrPool[g.t.draw(len(addrPool))]), Name: name}, name
	case 1:
		return common.StringLocation([]string{"test", "x", "some_file"}[g.t.draw(3)]), ""
	case 2:
		var l common.ScriptLocation
		l[0] = 1
		l[31] = byte(g.t.draw(3))
		return l, ""
	case 3:
		var l common.TransactionLocation
		l[0] = 2
		l[31] = byte(g.t.draw(3))
		return l, ""
	case 4:
		return common.IdentifierLocation([]string{"ident", "Crypto"}[g.t.draw(2)]), ""
	default:
		return common.REPLLocation{}, ""
	}
}

func (g *gen) freshQualifiedName(prefix string) string {
	// unique within the world; the pool is walked in a fixed order so that shrinking names is free
	n := g.nameSeq
	g.nameSeq++
	name := typeNames[n%len(typeNames)]
	if n >= len(typeNames) {
		name = fmt.Sprintf("%s%d", name, n/len(typeNames))
	}
	if g.t.chance(1, 6) {
		// nested declaration
		name = typeNames[(n+7)%len(typeNames)] + "." + name
	}
	if prefix != "" {
		return prefix + "." + name
	}
	return name
}

func (g *gen) fieldNameSet(n int) []string {
	// distinct names; start index drawn so that different orders (sorted / unsorted) appear
	start := g.t.draw(len(fieldNames))
	step := 1 + 2*g.t.draw(3) // 1,3,5: all coprime to 24
	out := make([]string, n)
	for i := range out {
		out[i] = fieldNames[(start+i*step)%len(fieldNames)]
	}
	return out
}

// parameters draws a parameter list. Styles: 0 unique labels and identifiers; 1 declaration style
// without argument labels (all labels empty, identifiers unique); 2 function-type style (labels and
// identifiers all empty), as the runtime exports `fun(Int, Int): Void`; 3 all labels "_".
func (g *gen) parameters(depth int, typ func(int) cadence.Type) []cadence.Parameter {
	n := g.t.small(3)
	if n == 0 {
		if g.t.chance(1, 2) {
			return nil
		}
		return []cadence.Parameter{}
	}
	style := g.t.weighted(100-3*g.rare, g.rare, g.rare, g.rare)
	ids := g.fieldNameSet(n)
	ps := make([]cadence.Parameter, n)
	for i := range ps {
		switch style {
		case 0:
			ps[i].Identifier = ids[i]
			if i == 0 && g.t.chance(1, 3) {
				ps[i].Label = "_"
			} else if i == 1 && g.t.chance(1, 3) {
				ps[i].Label = ""
			} else {
				ps[i].Label = "l" + ids[i]
			}
		case 1:
			ps[i].Identifier = ids[i]
		case 2:
		case 3:
			ps[i].Identifier = ids[i]
			ps[i].Label = "_"
		}
		ps[i].Type = typ(depth - 1)
	}
	return ps
}

func (g *gen) initializers(depth int, typ func(int) cadence.Type) [][]cadence.Parameter {
	switch g.t.weighted(4, 4, 1, 1) {
	case 0:
		return nil
	case 1:
		return [][]cadence.Parameter{g.parameters(depth, typ)}
	case 2:
		return [][]cadence.Parameter{}
	default:
		if g.ccf {
			// CCF encodes at most one initializer (the encoder returns an error otherwise, by design)
			return [][]cadence.Parameter{g.parameters(depth, typ)}
		}
		return [][]cadence.Parameter{g.parameters(depth, typ), g.parameters(depth, typ)}
	}
}

var enumRawTypes = []cadence.Type{cadence.UInt8Type, cadence.Int8Type, cadence.UInt16Type, cadence.Int64Type, cadence.UInt64Type, cadence.Word8Type, cadence.Int128Type, cadence.UInt256Type, cadence.IntType}

// newNominal creates a nominal type of the kind. fieldType generates field types; paramType the
// types used in initializers (always the liberal generator: initializers are never instantiated).
func (g *gen) newNominal(kind nomKind, depth int, typeOnly bool, fieldType func(int) cadence.Type) *nominal {
	loc, prefix := g.location()
	qi := g.freshQualifiedName(prefix)
	if kind == nkContract || kind == nkContractIface {
		if al, ok := loc.(common.AddressLocation); ok && g.t.chance(2, 3) {
			// a contract's own type: A.<addr>.<Name>
			qi = al.Name
			// must stay unique in the world
			for _, n := range g.noms {
				if n.typ.ID() == string(common.NewTypeIDFromQualifiedName(nil, loc, qi)) {
					qi = g.freshQualifiedName(prefix)
					break
				}
			}
		}
	}
	nf := 0
	if depth > 0 {
		nf = g.t.small(4)
	} else {
		nf = g.t.draw(3)
	}
	if kind == nkEnum {
		nf = 1
	}
	names := g.fieldNameSet(nf)
	fields := make([]cadence.Field, nf)
	pos := g.permutation(nf)
	for k := range names {
		fields[pos[k]].Identifier = names[k]
		fields[pos[k]].Type = cadence.IntType // placeholder until generated below
	}
	n := &nominal{kind: kind, fields: fields, typeOnly: typeOnly, wrapAtStart: g.wrapCount, pos: pos}
	switch kind {
	case nkStruct:
		n.typ = cadence.NewStructType(loc, qi, fields, nil)
	case nkResource:
		n.typ = cadence.NewResourceType(loc, qi, fields, nil)
	case nkEvent:
		n.typ = cadence.NewEventType(loc, qi, fields, nil)
	case nkContract:
		n.typ = cadence.NewContractType(loc, qi, fields, nil)
	case nkEnum:
		raw := enumRawTypes[g.t.draw(len(enumRawTypes))]
		fields[0] = cadence.Field{Identifier: "rawValue", Type: raw}
		n.typ = cadence.NewEnumType(loc, qi, raw, fields, nil)
	case nkAttachment:
		n.typ = cadence.NewAttachmentType(loc, qi, cadence.AnyStructType, fields, nil)
	case nkStructIface:
		n.typ = cadence.NewStructInterfaceType(loc, qi, fields, nil)
	case nkResourceIface:
		n.typ = cadence.NewResourceInterfaceType(loc, qi, fields, nil)
	case nkContractIface:
		n.typ = cadence.NewContractInterfaceType(loc, qi, fields, nil)
	}
	g.noms = append(g.noms, n)
	g.byType[n.typ] = n

	if kind != nkEnum {
		for k := range names {
			fields[pos[k]].Type = fieldType(depth - 1)
		}
	}
	paramType := func(d int) cadence.Type { return g.anyType(d) }
	switch t := n.typ.(type) {
	case *cadence.StructType:
		t.Initializers = g.initializers(depth, paramType)
	case *cadence.ResourceType:
		t.Initializers = g.initializers(depth, paramType)
	case *cadence.ContractType:
		t.Initializers = g.initializers(depth, paramType)
	case *cadence.EventType:
		// an event's initializer mirrors its fields
		if g.t.chance(4, 5) {
			ps := make([]cadence.Parameter, len(fields))
			for k := range names {
				f := fields[pos[k]]
				ps[k] = cadence.Parameter{Identifier: f.Identifier, Type: f.Type}
				if !g.t.chance(g.rare, 100) {
					ps[k].Label = f.Identifier
				}
			}
			t.Initializer = ps
		} else {
			t.Initializer = g.parameters(depth, paramType)
		}
	case *cadence.EnumType:
		if g.t.chance(1, 3) {
			t.Initializers = [][]cadence.Parameter{{{Label: "rawValue", Identifier: "rawValue", Type: t.RawType}}}
		}
	case *cadence.AttachmentType:
		t.Initializers = g.initializers(depth, paramType)
		if g.t.chance(1, 2) {
			// any type that does not mention the attachment itself
			if g.hidden == nil {
				g.hidden = map[*nominal]bool{}
			}
			g.hidden[n] = true
			t.BaseType = g.anyType(depth - 1)
			delete(g.hidden, n)
		}
	case *cadence.StructInterfaceType:
		t.Initializers = g.initializers(depth, paramType)
	case *cadence.ResourceInterfaceType:
		t.Initializers = g.initializers(depth, paramType)
	case *cadence.ContractInterfaceType:
		t.Initializers = g.initializers(depth, paramType)
	}
	n.done = true
	return n
}

// pickNominal returns a nominal of one of the kinds: an existing one or a new one.
// forValue: the type will be instantiated; then typeOnly nominals are excluded and a nominal under
// construction is only eligible when a cycle-breaking wrapper (optional, array, dictionary) was
// entered since its construction began.
func (g *gen) pickNominal(depth int, forValue bool, kinds ...nomKind) *nominal {
	var cands []*nominal
	for _, n := range g.noms {
		if g.hidden[n] {
			continue
		}
		ok := false
		for _, k := range kinds {
			if n.kind == k {
				ok = true
			}
		}
		if !ok {
			continue
		}
		if forValue {
			if n.typeOnly {
				continue
			}
			if !n.done && n.wrapAtStart >= g.wrapCount {
				continue
			}
		}
		cands = append(cands, n)
	}
	canCreate := len(g.noms) < g.maxNoms
	if len(cands) == 0 || (canCreate && g.t.chance(1, 2)) {
		kind := kinds[g.t.draw(len(kinds))]
		if forValue {
			return g.newNominal(kind, depth, false, func(d int) cadence.Type { return g.staticType(d) })
		}
		return g.newNominal(kind, depth, true, func(d int) cadence.Type { return g.anyType(d) })
	}
	return cands[g.t.draw(len(cands))]
}

// ------------------------------------------------------------------ primitive tables

// allPrimitives lists every defined, non-deprecated primitive static type as a cadence.Type
// (the JSON-CDC decoder's table of simple types is built from the same enumeration).
var allPrimitives = func() []cadence.PrimitiveType {
	var out []cadence.PrimitiveType
	for ty := interpreter.PrimitiveStaticType(1); ty < interpreter.PrimitiveStaticType_Count; ty++ {
		if !ty.IsDefined() || ty.IsDeprecated() { //nolint:staticcheck
			continue
		}
		if ty == interpreter.PrimitiveStaticTypeCapability { //nolint:staticcheck
			// the unparameterised legacy capability type is not part of either format
			continue
		}
		if ty == interpreter.PrimitiveStaticTypeInvalid {
			// the invalid type is not exportable
			continue
		}
		out = append(out, cadence.PrimitiveType(ty))
	}
	return out
}()

// concreteValuePrims are primitive types that have exportable values of exactly that type.
var concreteValuePrims = []cadence.Type{
	cadence.IntType, cadence.StringType, cadence.BoolType, cadence.AddressType, cadence.UFix64Type,
	cadence.Int8Type, cadence.Int16Type, cadence.Int32Type, cadence.Int64Type, cadence.Int128Type, cadence.Int256Type,
	cadence.UIntType, cadence.UInt8Type, cadence.UInt16Type, cadence.UInt32Type, cadence.UInt64Type, cadence.UInt128Type, cadence.UInt256Type,
	cadence.Word8Type, cadence.Word16Type, cadence.Word32Type, cadence.Word64Type, cadence.Word128Type, cadence.Word256Type,
	cadence.Fix64Type, cadence.Fix128Type, cadence.UFix128Type,
	cadence.CharacterType, cadence.VoidType,
	cadence.StoragePathType, cadence.PublicPathType, cadence.PrivatePathType,
	cadence.MetaType,
}

var integerPrims = []cadence.Type{
	cadence.IntType, cadence.Int8Type, cadence.Int16Type, cadence.Int32Type, cadence.Int64Type, cadence.Int128Type, cadence.Int256Type,
	cadence.UIntType, cadence.UInt8Type, cadence.UInt16Type, cadence.UInt32Type, cadence.UInt64Type, cadence.UInt128Type, cadence.UInt256Type,
	cadence.Word8Type, cadence.Word16Type, cadence.Word32Type, cadence.Word64Type, cadence.Word128Type, cadence.Word256Type,
}

var signedIntegerPrims = integerPrims[:7]
var fixedSizeUnsignedPrims = integerPrims[8:]
var fixedPointPrims = []cadence.Type{cadence.Fix64Type, cadence.UFix64Type, cadence.Fix128Type, cadence.UFix128Type}
var signedFixedPointPrims = []cadence.Type{cadence.Fix64Type, cadence.Fix128Type}

// hashable key types with values of exactly that type
var hashablePrims = append(append([]cadence.Type{cadence.StringType, cadence.IntType, cadence.BoolType, cadence.AddressType, cadence.CharacterType,
	cadence.StoragePathType, cadence.PublicPathType, cadence.PrivatePathType, cadence.MetaType},
	integerPrims[1:]...), fixedPointPrims...)

// abstract static types a value can be typed with
var abstractPrims = []cadence.Type{
	cadence.AnyStructType, cadence.AnyResourceType, cadence.HashableStructType,
	cadence.NumberType, cadence.SignedNumberType, cadence.IntegerType, cadence.SignedIntegerType,
	cadence.FixedSizeUnsignedIntegerType, cadence.FixedPointType, cadence.SignedFixedPointType,
	cadence.PathType, cadence.CapabilityPathType, cadence.AnyType,
	cadence.AnyStructAttachmentType, cadence.AnyResourceAttachmentType,
}

var entitlementIDs = []common.TypeID{
	"A.0000000000000001.C.E", "Mutate", "A.0000000000000002.D.Withdraw", "Insert", "S.test.E2", "Remove",
	"A.0000000000000001.C.F", "A.f8d6e0586b0a20c7.Token.Owner", "Storage", "A.0000000000000001.C.EE", "Z", "Aa",
}
var entitlementMapIDs = []common.TypeID{"A.0000000000000001.C.M", "Identity", "AccountMapping", "S.test.Map"}

func (g *gen) authorization() cadence.Authorization {
	switch g.t.weighted(5, 3, 2, 2) {
	case 0:
		return cadence.UnauthorizedAccess
	case 1, 2:
		n := 1 + g.t.small(3)
		start := g.t.draw(len(entitlementIDs))
		step := []int{1, 5, 7}[g.t.draw(3)]
		ents := make([]common.TypeID, n)
		for i := range ents {
			ents[i] = entitlementIDs[(start+i*step)%len(entitlementIDs)]
		}
		kind := cadence.Conjunction
		if g.t.chance(1, 3) {
			kind = cadence.Disjunction
		}
		g.shuffle(permEntitlements, len(ents), func(i, j int) { ents[i], ents[j] = ents[j], ents[i] })
		return cadence.NewEntitlementSetAuthorization(nil, ents, kind)
	default:
		return cadence.NewEntitlementMapAuthorization(nil, entitlementMapIDs[g.t.draw(len(entitlementMapIDs))])
	}
}

var arraySizes = []uint{1, 0, 2, 3, 255, 256, 65536, 1 << 32, 1 << 53, 1<<53 + 1, math.MaxInt64, math.MaxUint64, 1<<63 + 1, 1000000007}

// ------------------------------------------------------------------ liberal type generator

// anyType generates a type of any kind (for type values, borrow types, function signatures,
// initializer parameters). The types need not be instantiable.
func (g *gen) anyType(depth int) cadence.Type {
	if depth <= 0 {
		switch g.t.weighted(6, 2, 1) {
		case 0:
			return concreteValuePrims[g.t.draw(len(concreteValuePrims))]
		case 1:
			return allPrimitives[g.t.draw(len(allPrimitives))]
		default:
			if len(g.noms) > 0 {
				if n := g.noms[g.t.draw(len(g.noms))]; !g.hidden[n] {
					return n.typ
				}
			}
			return cadence.IntType
		}
	}
	switch g.t.weighted(
		10, // 0 concrete primitive
		6,  // 1 any primitive
		4,  // 2 optional
		3,  // 3 variable array
		2,  // 4 constant array
		3,  // 5 dictionary
		1,  // 6 inclusive range
		8,  // 7 nominal
		3,  // 8 function
		4,  // 9 reference
		3,  // 10 intersection
		3,  // 11 capability
		1,  // 12 bytes
	) {
	case 0:
		return concreteValuePrims[g.t.draw(len(concreteValuePrims))]
	case 1:
		return allPrimitives[g.t.draw(len(allPrimitives))]
	case 2:
		return cadence.NewOptionalType(g.anyType(depth - 1))
	case 3:
		return cadence.NewVariableSizedArrayType(g.anyType(depth - 1))
	case 4:
		return cadence.NewConstantSizedArrayType(arraySizes[g.t.draw(len(arraySizes))], g.anyType(depth-1))
	case 5:
		var k cadence.Type
		if g.t.chance(1, 4) {
			k = g.anyType(depth - 1)
		} else {
			k = hashablePrims[g.t.draw(len(hashablePrims))]
		}
		return cadence.NewDictionaryType(k, g.anyType(depth-1))
	case 6:
		// InclusiveRange<T: Integer>
		if g.t.chance(1, 8) {
			return cadence.NewInclusiveRangeType([]cadence.Type{cadence.IntegerType, cadence.SignedIntegerType, cadence.FixedSizeUnsignedIntegerType}[g.t.draw(3)])
		}
		return cadence.NewInclusiveRangeType(integerPrims[g.t.draw(len(integerPrims))])
	case 7:
		kinds := []nomKind{nkStruct, nkResource, nkEvent, nkContract, nkEnum, nkAttachment, nkStructIface, nkResourceIface, nkContractIface}
		return g.pickNominal(depth, false, kinds[g.t.draw(len(kinds))]).typ
	case 8:
		return g.functionType(depth)
	case 9:
		return cadence.NewReferenceType(g.authorization(), g.anyType(depth-1))
	case 10:
		return g.intersectionType(depth, false)
	case 11:
		if g.t.chance(1, 6) {
			return cadence.NewCapabilityType(nil)
		}
		return cadence.NewCapabilityType(g.anyType(depth - 1))
	default:
		return cadence.TheBytesType
	}
}

func (g *gen) functionType(depth int) *cadence.FunctionType {
	typ := func(d int) cadence.Type { return g.anyType(d) }
	purity := cadence.FunctionPurityImpure
	if g.t.chance(1, 3) {
		purity = cadence.FunctionPurityView
	}
	var tps []cadence.TypeParameter
	switch g.t.weighted(6, 1, 2) {
	case 1:
		tps = []cadence.TypeParameter{}
	case 2:
		n := 1 + g.t.draw(2)
		for i := 0; i < n; i++ {
			tp := cadence.TypeParameter{Name: []string{"T", "U"}[i]}
			if g.t.chance(1, 2) {
				tp.TypeBound = g.anyType(depth - 1)
			}
			tps = append(tps, tp)
		}
	}
	params := g.parameters(depth, typ)
	var ret cadence.Type = cadence.VoidType
	if g.t.chance(1, 2) {
		ret = g.anyType(depth - 1)
	}
	return cadence.NewFunctionType(purity, tps, params, ret)
}

func (g *gen) intersectionType(depth int, forValue bool) *cadence.IntersectionType {
	n := 1 + g.t.small(2)
	resource := g.t.chance(1, 3)
	var types []cadence.Type
	seen := map[string]bool{}
	for i := 0; i < n; i++ {
		kind := nkStructIface
		if resource {
			kind = nkResourceIface
		}
		if !forValue && g.t.chance(g.rare, 100) {
			kind = nkContractIface
		}
		nm := g.pickNominal(depth-1, false, kind)
		if seen[nm.typ.ID()] {
			continue
		}
		seen[nm.typ.ID()] = true
		types = append(types, nm.typ)
	}
	g.shuffle(permIntersection, len(types), func(i, j int) { types[i], types[j] = types[j], types[i] })
	return cadence.NewIntersectionType(types)
}

// ------------------------------------------------------------------ static types of values

// staticType generates a type that genValue can instantiate. Every cycle of the type graph passes
// through an optional, an array or a dictionary.
func (g *gen) staticType(depth int) cadence.Type {
	if depth <= 0 {
		if g.t.chance(1, 5) {
			return abstractPrims[g.t.draw(3)]
		}
		return concreteValuePrims[g.t.draw(len(concreteValuePrims))]
	}
	switch g.t.weighted(
		12, // 0 concrete primitive
		5,  // 1 optional
		4,  // 2 variable array
		2,  // 3 constant array
		4,  // 4 dictionary
		8,  // 5 composite
		5,  // 6 abstract primitive
		2,  // 7 interface / intersection
		2,  // 8 reference
		2,  // 9 capability
		2,  // 10 inclusive range
		1,  // 11 function (rare: CCF cannot read function-typed slots back)
	) {
	case 0:
		return concreteValuePrims[g.t.draw(len(concreteValuePrims))]
	case 1:
		g.wrapCount++
		defer func() { g.wrapCount-- }()
		return cadence.NewOptionalType(g.staticType(depth - 1))
	case 2:
		g.wrapCount++
		defer func() { g.wrapCount-- }()
		return cadence.NewVariableSizedArrayType(g.staticType(depth - 1))
	case 3:
		return cadence.NewConstantSizedArrayType(uint(g.t.draw(4)), g.staticType(depth-1))
	case 4:
		k := g.keyType(depth)
		g.wrapCount++
		defer func() { g.wrapCount-- }()
		return cadence.NewDictionaryType(k, g.staticType(depth-1))
	case 5:
		return g.pickNominal(depth, true, g.valueNomKind()).typ
	case 6:
		return abstractPrims[g.t.draw(len(abstractPrims))]
	case 7:
		if g.t.chance(1, 2) {
			return g.intersectionType(depth, true)
		}
		return g.pickNominal(depth-1, false, []nomKind{nkStructIface, nkResourceIface, nkContractIface}[g.t.weighted(4, 2, 1)]).typ
	case 8:
		return cadence.NewReferenceType(g.authorization(), g.staticType(depth-1))
	case 9:
		if g.t.chance(1, 8) {
			return cadence.NewCapabilityType(nil)
		}
		return cadence.NewCapabilityType(g.anyType(depth - 1))
	case 10:
		return cadence.NewInclusiveRangeType(integerPrims[g.t.draw(len(integerPrims))])
	default:
		if g.t.chance(g.rare*4, 100) {
			return g.functionType(depth - 1)
		}
		return cadence.IntType
	}
}

func (g *gen) valueNomKind() nomKind {
	return []nomKind{nkStruct, nkResource, nkEvent, nkEnum, nkContract, nkAttachment}[g.t.weighted(8, 4, 4, 3, 1, 1)]
}

func (g *gen) keyType(depth int) cadence.Type {
	switch g.t.weighted(10, 2, 1) {
	case 0:
		return hashablePrims[g.t.draw(len(hashablePrims))]
	case 1:
		return g.pickNominal(depth-1, true, nkEnum).typ
	default:
		return cadence.HashableStructType
	}
}

// typeKind names the kind of a type for coverage counters and keys.
func typeKind(t cadence.Type) string {
	switch t := t.(type) {
	case nil:
		return "nil"
	case cadence.PrimitiveType:
		return "Primitive"
	case cadence.BytesType:
		return "Bytes"
	case *cadence.OptionalType:
		return "Optional"
	case *cadence.VariableSizedArrayType:
		return "VariableSizedArray"
	case *cadence.ConstantSizedArrayType:
		return "ConstantSizedArray"
	case *cadence.DictionaryType:
		return "Dictionary"
	case *cadence.InclusiveRangeType:
		return "InclusiveRange"
	case *cadence.StructType:
		return "Struct"
	case *cadence.ResourceType:
		return "Resource"
	case *cadence.EventType:
		return "Event"
	case *cadence.ContractType:
		return "Contract"
	case *cadence.EnumType:
		return "Enum"
	case *cadence.AttachmentType:
		return "Attachment"
	case *cadence.StructInterfaceType:
		return "StructInterface"
	case *cadence.ResourceInterfaceType:
		return "ResourceInterface"
	case *cadence.ContractInterfaceType:
		return "ContractInterface"
	case *cadence.FunctionType:
		return "Function"
	case *cadence.ReferenceType:
		switch t.Authorization.(type) {
		case cadence.Unauthorized:
			return "Reference"
		case cadence.EntitlementMapAuthorization:
			return "ReferenceMapAuth"
		case *cadence.EntitlementSetAuthorization:
			if a := t.Authorization.(*cadence.EntitlementSetAuthorization); a.Kind == cadence.Disjunction {
				return "ReferenceDisjunctionAuth"
			}
			return "ReferenceConjunctionAuth"
		}
		return "Reference"
	case *cadence.IntersectionType:
		return "Intersection"
	case *cadence.CapabilityType:
		return "Capability"
	case cadence.TypeID:
		return "TypeID"
	case *cadence.DeprecatedReferenceType:
		return "DeprecatedReference"
	case *cadence.DeprecatedRestrictedType:
		return "DeprecatedRestricted"
	}
	return fmt.Sprintf("%T", t)
}
