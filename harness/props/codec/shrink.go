package codec

import (
	"github.com/onflow/cadence"
)

// Shrinking works on the tape of generator choices (gen_tape.go): a candidate tape is replayed
// through the same generator, which always yields a valid value; it is kept when the rebuilt value
// still fails in the same way and is smaller (rendered size, then tape order). The result is a
// small witness whose failure description gives a stable, narrow violation key.

type shrinkResult struct {
	Choices []uint32
	Value   cadence.Value
	Evals   int
}

func safeBuild(build func(*tape) cadence.Value, choices []uint32) (v cadence.Value, canon []uint32) {
	defer func() {
		if r := recover(); r != nil {
			v, canon = nil, nil
		}
	}()
	t := replayTape(choices)
	v = build(t)
	return v, t.choices()
}

func tapeLess(a, b []uint32) bool {
	if len(a) != len(b) {
		return len(a) < len(b)
	}
	for i := range a {
		if a[i] != b[i] {
			return a[i] < b[i]
		}
	}
	return false
}

// shrinkTape minimises choices. fails reports whether a rebuilt value (and its canonical tape) still
// shows the failure.
func shrinkTape(choices []uint32, build func(*tape) cadence.Value, fails func(cadence.Value, []uint32) bool, budget int) shrinkResult {
	best, bestTape := safeBuild(build, choices)
	if best == nil {
		return shrinkResult{Choices: choices}
	}
	bestSize := len(describeValue(best, 1))
	evals := 0

	try := func(cand []uint32) bool {
		if evals >= budget {
			return false
		}
		v, canon := safeBuild(build, cand)
		if v == nil {
			return false
		}
		size := len(describeValue(v, 1))
		if size > bestSize || (size == bestSize && !tapeLess(canon, bestTape)) {
			return false
		}
		evals++
		if !fails(v, canon) {
			return false
		}
		best, bestTape, bestSize = v, canon, size
		return true
	}

	improved := true
	for improved && evals < budget {
		improved = false
		// 1. cut the tail (missing entries read as 0)
		for cut := len(bestTape) / 2; cut >= 1; cut /= 2 {
			for len(bestTape) > cut && try(bestTape[:len(bestTape)-cut]) {
				improved = true
			}
		}
		// 2. delete chunks
		for _, chunk := range []int{16, 8, 4, 2, 1} {
			for i := 0; i+chunk <= len(bestTape); {
				cand := append(append([]uint32{}, bestTape[:i]...), bestTape[i+chunk:]...)
				if try(cand) {
					improved = true
				} else {
					i++
				}
				if evals >= budget {
					break
				}
			}
		}
		// 3. zero, then lower, then (small alphabets) any other value at each position
		for i := 0; i < len(bestTape) && evals < budget; i++ {
			cur := bestTape[i]
			if cur == 0 {
				continue
			}
			set := func(v uint32) bool {
				cand := append([]uint32{}, bestTape...)
				cand[i] = v
				return try(cand)
			}
			if set(0) {
				improved = true
				continue
			}
			done := false
			for v := uint32(1); v < cur && v <= 24; v++ {
				if set(v) {
					improved, done = true, true
					break
				}
			}
			if done {
				continue
			}
			if cur > 24 && set(cur/2) {
				improved = true
			}
		}
		// 4. alternatives above the current choice (a different kind can be smaller)
		for i := 0; i < len(bestTape) && i < 40 && evals < budget; i++ {
			cur := bestTape[i]
			for v := cur + 1; v <= cur+48 && v < 64; v++ {
				cand := append([]uint32{}, bestTape...)
				cand[i] = v
				if try(cand) {
					improved = true
					break
				}
			}
		}
	}
	return shrinkResult{Choices: bestTape, Value: best, Evals: evals}
}
