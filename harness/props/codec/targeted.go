package codec

import (
	"math"

	"github.com/onflow/cadence"
	"github.com/onflow/cadence/common"
)

// Hand-built values of shapes the random generator reaches rarely (or only in combination).
// They are checked by the same oracles as generated values in case 0 of C41, C42 and C43; the name
// becomes part of the violation key.

type namedValue struct {
	Name  string
	Value cadence.Value
}

func targetedValues() []namedValue {
	loc := common.AddressLocation{Address: common.Address{0, 0, 0, 0, 0, 0, 0, 1}, Name: "C"}
	var out []namedValue
	add := func(name string, v cadence.Value) { out = append(out, namedValue{name, v}) }

	newStruct := func(qi string, fields []cadence.Field) *cadence.StructType {
		return cadence.NewStructType(loc, qi, fields, nil)
	}
	anyArray := cadence.NewVariableSizedArrayType(cadence.AnyStructType)

	// mutually recursive composites with an abstract field, visited "outer first"
	{
		fa := []cadence.Field{{Identifier: "x", Type: cadence.AnyStructType}, {Identifier: "b"}}
		A := newStruct("C.A", fa)
		B := newStruct("C.B", []cadence.Field{{Identifier: "a", Type: cadence.NewOptionalType(A)}})
		fa[1].Type = cadence.NewOptionalType(B)
		inner := newStruct("C.Inner", []cadence.Field{})
		a1 := cadence.NewStruct([]cadence.Value{cadence.NewInt(1), cadence.NewOptional(nil)}).WithType(A)
		a2 := cadence.NewStruct([]cadence.Value{cadence.NewStruct([]cadence.Value{}).WithType(inner), cadence.NewOptional(nil)}).WithType(A)
		b1 := cadence.NewStruct([]cadence.Value{cadence.NewOptional(a2)}).WithType(B)
		add("mutually-recursive-types-with-abstract-field", cadence.NewArray([]cadence.Value{a1, b1}).WithType(anyArray))
		add("mutually-recursive-types-with-abstract-field-reversed", cadence.NewArray([]cadence.Value{b1, a1}).WithType(anyArray))
	}
	// covariant containers: the value's own type is a proper subtype of the slot's static type
	{
		intArray := cadence.NewArray([]cadence.Value{cadence.NewInt(1), cadence.NewInt(2)}).WithType(cadence.NewVariableSizedArrayType(cadence.IntType))
		add("covariant-array-in-array-slot", cadence.NewArray([]cadence.Value{intArray}).WithType(cadence.NewVariableSizedArrayType(anyArray)))
		S := newStruct("C.S", []cadence.Field{{Identifier: "a", Type: anyArray}})
		add("covariant-array-in-field", cadence.NewStruct([]cadence.Value{intArray}).WithType(S))
		dictT := cadence.NewDictionaryType(cadence.StringType, cadence.AnyStructType)
		intDict := cadence.NewDictionary([]cadence.KeyValuePair{{Key: cadence.String("a"), Value: cadence.NewInt(1)}}).
			WithType(cadence.NewDictionaryType(cadence.StringType, cadence.IntType))
		S2 := newStruct("C.S2", []cadence.Field{{Identifier: "d", Type: dictT}})
		add("covariant-dictionary-in-field", cadence.NewStruct([]cadence.Value{intDict}).WithType(S2))
		S3 := newStruct("C.S3", []cadence.Field{{Identifier: "a", Type: cadence.NewOptionalType(anyArray)}})
		add("covariant-array-in-optional-field", cadence.NewStruct([]cadence.Value{cadence.NewOptional(intArray)}).WithType(S3))
		// same element type: must work
		add("array-in-array-slot-same-type", cadence.NewArray([]cadence.Value{
			cadence.NewArray([]cadence.Value{cadence.NewInt(1)}).WithType(anyArray)}).WithType(cadence.NewVariableSizedArrayType(anyArray)))
	}
	// optionals
	{
		add("some-void", cadence.NewOptional(cadence.Void{}))
		add("nil", cadence.NewOptional(nil))
		add("some-nil", cadence.NewOptional(cadence.NewOptional(nil)))
		S := newStruct("C.O", []cadence.Field{
			{Identifier: "a", Type: cadence.NewOptionalType(cadence.NewOptionalType(cadence.IntType))},
			{Identifier: "b", Type: cadence.NewOptionalType(cadence.NewOptionalType(cadence.AnyStructType))},
			{Identifier: "c", Type: cadence.NewOptionalType(cadence.AnyStructType)},
		})
		add("nested-optional-fields-nil", cadence.NewStruct([]cadence.Value{cadence.NewOptional(nil), cadence.NewOptional(nil), cadence.NewOptional(nil)}).WithType(S))
		add("nested-optional-fields-some", cadence.NewStruct([]cadence.Value{
			cadence.NewOptional(cadence.NewOptional(cadence.NewInt(5))),
			cadence.NewOptional(cadence.NewOptional(cadence.String("x"))),
			cadence.NewOptional(cadence.NewOptional(cadence.NewInt(7))),
		}).WithType(S))
	}
	// function types
	{
		two := cadence.NewFunctionType(cadence.FunctionPurityImpure, nil, []cadence.Parameter{{Type: cadence.IntType}, {Type: cadence.IntType}}, cadence.VoidType)
		add("type-of-function-with-two-unlabelled-parameters", cadence.NewTypeValue(two))
		one := cadence.NewFunctionType(cadence.FunctionPurityView, nil, []cadence.Parameter{{Label: "a", Identifier: "b", Type: cadence.IntType}}, cadence.VoidType)
		add("type-of-view-function", cadence.NewTypeValue(one))
		add("function-value", cadence.NewFunction(one))
		add("empty-array-of-functions", cadence.NewArray([]cadence.Value{}).WithType(cadence.NewVariableSizedArrayType(one)))
		generic := cadence.NewFunctionType(cadence.FunctionPurityImpure, []cadence.TypeParameter{{Name: "T"}, {Name: "U", TypeBound: cadence.AnyStructType}}, nil, cadence.VoidType)
		add("type-of-generic-function", cadence.NewTypeValue(generic))
		init2 := cadence.NewStructType(loc, "C.I2", []cadence.Field{}, [][]cadence.Parameter{{{Identifier: "a", Type: cadence.IntType}, {Identifier: "b", Type: cadence.IntType}}})
		add("type-with-initializer-without-labels", cadence.NewTypeValue(init2))
	}
	// recursive and repeated nominal types in type values
	{
		params := []cadence.Parameter{{Label: "other", Identifier: "other"}}
		foo := cadence.NewStructType(loc, "C.Foo", []cadence.Field{{Identifier: "x", Type: cadence.IntType}}, [][]cadence.Parameter{params})
		params[0].Type = cadence.NewOptionalType(foo)
		add("type-recursive-through-initializer", cadence.NewTypeValue(foo))

		fields := []cadence.Field{{Identifier: "next"}}
		node := cadence.NewResourceType(loc, "C.Node", fields, nil)
		fields[0].Type = cadence.NewOptionalType(node)
		add("type-recursive-through-field", cadence.NewTypeValue(node))

		// an attachment whose base type refers back to the attachment (through an initializer of the base)
		baseParams := []cadence.Parameter{{Label: "att", Identifier: "att"}}
		base := cadence.NewStructType(loc, "C.Base", []cadence.Field{{Identifier: "x", Type: cadence.IntType}}, [][]cadence.Parameter{baseParams})
		att := cadence.NewAttachmentType(loc, "C.Att", base, []cadence.Field{{Identifier: "k", Type: cadence.IntType}}, nil)
		baseParams[0].Type = cadence.NewOptionalType(att)
		add("type-attachment-base-refers-back-to-attachment", cadence.NewTypeValue(att))

		bar := cadence.NewStructType(loc, "C.Bar", []cadence.Field{}, nil)
		rep := cadence.NewStructType(loc, "C.Rep", []cadence.Field{{Identifier: "a", Type: bar}},
			[][]cadence.Parameter{{{Label: "a", Identifier: "a", Type: bar}}})
		add("type-repeated-in-field-and-initializer", cadence.NewTypeValue(rep))

		si := cadence.NewStructInterfaceType(loc, "C.SI", nil, nil)
		ri := cadence.NewResourceInterfaceType(loc, "C.RI", nil, nil)
		add("type-intersection-of-interfaces", cadence.NewTypeValue(cadence.NewIntersectionType([]cadence.Type{si})))
		add("capability-of-intersection", cadence.NewCapability(1, cadence.Address{1}, cadence.NewReferenceType(cadence.UnauthorizedAccess, cadence.NewIntersectionType([]cadence.Type{ri}))))
		add("type-intersection-of-primitives", cadence.NewTypeValue(cadence.NewIntersectionType([]cadence.Type{cadence.AnyStructType})))
	}
	// sizes
	{
		for _, n := range []uint{0, 1 << 53, 1<<53 + 1, math.MaxInt64, math.MaxUint64} {
			add("type-constant-sized-array-size-boundary", cadence.NewTypeValue(cadence.NewConstantSizedArrayType(n, cadence.IntType)))
		}
	}
	// a type value as dictionary key whose ID depends on a large array size
	{
		big := cadence.NewConstantSizedArrayType(1<<53+1, cadence.IntType)
		add("dictionary-keyed-by-type-with-large-array-size", cadence.NewDictionary([]cadence.KeyValuePair{
			{Key: cadence.NewTypeValue(big), Value: cadence.NewInt(1)},
		}).WithType(cadence.NewDictionaryType(cadence.MetaType, cadence.IntType)))
	}
	// attachments
	{
		at := cadence.NewAttachmentType(loc, "C.Att", cadence.AnyStructType, []cadence.Field{{Identifier: "x", Type: cadence.IntType}}, nil)
		av := cadence.NewAttachment([]cadence.Value{cadence.NewInt(1)}).WithType(at)
		add("attachment-value", av)
		base := newStruct("C.Base", []cadence.Field{})
		at2 := cadence.NewAttachmentType(loc, "C.Att2", base, []cadence.Field{{Identifier: "b", Type: base}}, nil)
		add("type-of-attachment-whose-base-type-is-also-a-field-type", cadence.NewTypeValue(at2))
		S := newStruct("C.WithAtt", []cadence.Field{{Identifier: "a", Type: cadence.IntType}})
		add("struct-with-attachment", cadence.NewStruct([]cadence.Value{cadence.NewInt(1), av}).WithType(S))
	}
	// capabilities
	{
		add("capability-without-borrow-type", cadence.NewCapability(1, cadence.Address{1}, nil))
		add("type-value-nil", cadence.TypeValue{})
		add("array-of-capabilities-without-borrow-type", cadence.NewArray([]cadence.Value{
			cadence.NewCapability(1, cadence.Address{1}, cadence.NewReferenceType(cadence.UnauthorizedAccess, cadence.IntType)),
		}).WithType(cadence.NewVariableSizedArrayType(cadence.NewCapabilityType(nil))))
	}
	// references as static types (CCF encodes the referenced value)
	{
		refT := cadence.NewReferenceType(cadence.UnauthorizedAccess, cadence.StringType)
		add("array-of-references", cadence.NewArray([]cadence.Value{cadence.String("x")}).WithType(cadence.NewVariableSizedArrayType(refT)))
		refAny := cadence.NewReferenceType(cadence.UnauthorizedAccess, cadence.AnyStructType)
		add("array-of-references-to-anystruct", cadence.NewArray([]cadence.Value{cadence.String("x"), cadence.NewInt(1)}).WithType(cadence.NewVariableSizedArrayType(refAny)))
	}
	// enums as dictionary keys, dictionary key order by encoded bytes versus by value
	{
		et := cadence.NewEnumType(loc, "C.E", cadence.UInt8Type, []cadence.Field{{Identifier: "rawValue", Type: cadence.UInt8Type}}, nil)
		mk := func(n uint8) cadence.Value { return cadence.NewEnum([]cadence.Value{cadence.NewUInt8(n)}).WithType(et) }
		add("dictionary-with-enum-keys", cadence.NewDictionary([]cadence.KeyValuePair{
			{Key: mk(200), Value: cadence.NewInt(1)}, {Key: mk(3), Value: cadence.NewInt(2)}, {Key: mk(24), Value: cadence.NewInt(3)},
		}).WithType(cadence.NewDictionaryType(et, cadence.IntType)))
		add("dictionary-int-keys-negative-and-positive", cadence.NewDictionary([]cadence.KeyValuePair{
			{Key: cadence.NewInt(-1), Value: cadence.Bool(true)}, {Key: cadence.NewInt(256), Value: cadence.Bool(false)},
			{Key: cadence.NewInt(1), Value: cadence.Bool(true)}, {Key: cadence.NewInt(-300), Value: cadence.Bool(true)},
		}).WithType(cadence.NewDictionaryType(cadence.IntType, cadence.BoolType)))
		add("dictionary-hashable-keys-of-different-types", cadence.NewDictionary([]cadence.KeyValuePair{
			{Key: cadence.String("b"), Value: cadence.NewInt(1)}, {Key: cadence.NewInt(1), Value: cadence.NewInt(2)}, {Key: cadence.Bool(true), Value: cadence.NewInt(3)},
		}).WithType(cadence.NewDictionaryType(cadence.HashableStructType, cadence.IntType)))
	}
	return out
}
