package codec

import (
	"bytes"
	"fmt"
	"math/rand/v2"
	"strings"

	"github.com/onflow/cadence"
	jsoncdc "github.com/onflow/cadence/encoding/json"

	"verif/harness/core"
)

// C41 — JSON-Cadence round-trips; decoding is robust.

// jsonRoundTrip is the round-trip oracle for one value. It returns the failure (nil if the
// statement holds for v) and the encoding.
func jsonRoundTrip(v cadence.Value) (*failure, []byte) {
	var enc []byte
	var err error
	if f := protect("json-encode", func() { enc, err = jsoncdc.Encode(v) }); f != nil {
		return f, nil
	}
	if err != nil {
		return &failure{Class: "json-encode-error", Detail: err.Error()}, nil
	}
	var dec cadence.Value
	if f := protect("json-decode", func() { dec, err = jsoncdc.Decode(nil, enc) }); f != nil {
		f.Extra["json"] = clipS(string(enc), 6000)
		return f, enc
	}
	if err != nil {
		f := &failure{Class: "json-roundtrip-decode-error", Detail: err.Error(), Extra: map[string]any{"json": clipS(string(enc), 6000)}}
		if i := strings.Index(f.Detail, " (at "); i >= 0 && reTypeIDTok.MatchString(f.Detail[:i]) {
			// an unresolved back-reference to a type: which construct of the enclosing type holds it
			if site := jsonSiteOfPath(enc, strings.TrimSuffix(f.Detail[i+5:], ")")); site != "" {
				f.Site = "back-reference in " + site
			}
		}
		return f, enc
	}
	// equality modulo the erasure the statement allows
	if d := newComparer(cmpJSON).value("value", v, dec); d != "" {
		return &failure{Class: "json-roundtrip-value", Detail: d, Extra: map[string]any{
			"json": clipS(string(enc), 6000), "decoded": clipS(describeValue(dec, 1), 6000)}}, enc
	}
	// re-encoding gives the same bytes
	var enc2 []byte
	if f := protect("json-reencode", func() { enc2, err = jsoncdc.Encode(dec) }); f != nil {
		return f, enc
	}
	if err != nil {
		return &failure{Class: "json-reencode-error", Detail: err.Error(), Extra: map[string]any{"json": clipS(string(enc), 6000)}}, enc
	}
	if !bytes.Equal(enc, enc2) {
		i := 0
		for i < len(enc) && i < len(enc2) && enc[i] == enc2[i] {
			i++
		}
		lo := max(0, i-60)
		return &failure{Class: "json-reencode-differs", Detail: fmt.Sprintf("value kind %T", v), Extra: map[string]any{
			"json": clipS(string(enc), 6000), "reencoded": clipS(string(enc2), 6000), "first_difference_at": i,
			"context_original": clipS(string(enc[lo:]), 200), "context_reencoded": clipS(string(enc2[lo:min(len(enc2), lo+200)]), 200)}}, enc
	}
	// every embedded type decodes to an equal type in the library's own sense (ID and Equal)
	if d := embeddedTypePairs(v, dec, func(where string, ta, tb cadence.Type) string {
		return libTypeAgreement(where, ta, tb, map[[2]cadence.Type]bool{})
	}); d != "" {
		return &failure{Class: "json-roundtrip-type-Equal", Detail: d, Extra: map[string]any{"json": clipS(string(enc), 6000)}}, enc
	}
	return nil, enc
}

// targetedJSONInputs are fixed hostile inputs always tried in case 0 (shapes the mutators reach only rarely).
var targetedJSONInputs = []string{
	`{"type":"Type","value":{"staticType":{"kind":"Restriction"}}}`,
	`{"type":"Type","value":{"staticType":{"kind":"Restriction","typeID":"","type":{"kind":"Int"},"restrictions":[]}}}`,
	`{"type":"Capability","value":{"borrowType":{"kind":"Restriction"},"address":"0x1","id":"1"}}`,
	`{"type":"Address","value":"0x000000000000000001"}`,
	`{"type":"Address","value":"0x"}`,
	`{"type":"Address","value":"0"}`,
	`{"type":"Type","value":{"staticType":{"kind":"ConstantSizedArray","type":{"kind":"Int"},"size":-1}}}`,
	`{"type":"Type","value":{"staticType":{"kind":"ConstantSizedArray","type":{"kind":"Int"},"size":1e400}}}`,
	`{"type":"Path","value":{"domain":"nope","identifier":"x"}}`,
	`{"type":"Struct","value":{"id":"S","fields":[]}}`,
	`{"type":"Struct","value":{"id":"A.1","fields":[]}}`,
	`{"type":"Struct","value":{"id":"A.0000000000000001.C","fields":[{"name":"a","value":{"type":"Path","value":{"domain":"x","identifier":"y"}}}]}}`,
	`{"type":"InclusiveRange","value":{"start":{"type":"Array","value":[]},"end":{"type":"Int","value":"1"},"step":{"type":"Int","value":"1"}}}`,
	`{"type":"Function","value":{"functionType":""}}`,
	`{"type":"Function","value":{"functionType":{"kind":"Int"}}}`,
	`{"type":"Type","value":{"staticType":{"kind":"Function","parameters":[],"return":""}}}`,
	`{"type":"Type","value":{"staticType":{"kind":"Reference","type":"","authorization":{"kind":"EntitlementMapAuthorization","entitlements":[]}}}}`,
	`{"type":"Type","value":{"staticType":{"kind":"Reference","type":"","authorization":{"kind":"EntitlementConjunctionSet","entitlements":null}}}}`,
	`{"type":"Type","value":{"staticType":{"kind":"Enum","typeID":"PublicKey","initializers":[],"fields":[],"type":""}}}`,
	`{"type":"Type","value":{"staticType":{"kind":"Event","typeID":"S.x.E","initializers":[],"fields":[],"type":""}}}`,
	`{"type":"Type","value":{"staticType":{"kind":"Struct","typeID":"S.x.S","initializers":[[{"label":"","id":"","type":"S.x.S"}]],"fields":[],"type":""}}}`,
	`{"type":"Enum","value":{"id":"S.x.E","fields":[]}}`,
	`{"type":"Character","value":""}`,
	`{"type":"Character","value":"ab"}`,
	`{"type":"String","value":"\ud800"}`,
	`{"type":"UFix64","value":"1"}`,
	`{"type":"Fix128","value":"-0.0000000000000000000000001"}`,
	`{"type":"UFix128","value":"340282366920938.463463374607431768211456"}`,
	`{"type":"Int","value":"0x10"}`,
	`{"type":"Int","value":"1_000"}`,
	`{"type":"Void","value":null}`,
	`{"type":"Optional"}`,
	`{"value":{"type":"Int","value":"1"}}`,
	`{"type":"Capability","value":{"borrowType":"","address":"0x1","id":"1","path":{"type":"Path","value":{"domain":"public","identifier":"x"}}}}`,
}

func init() {
	core.Register(&core.Prop{
		ID:    "C41",
		Level: "exploration",
		Rule:  "each case generates values from a seeded, depth-bounded, recursive generator of fully typed cadence.Values (every value kind; type values, capability borrow types and function values over every cadence.Type kind incl. recursive, repeated and parameterised types) and checks encode→decode→re-encode; then it decodes byte-level, JSON-tree-level and text-level mutants of the encodings under a CPU-time guard. A case is distinct by the FNV-64 hash of the encoding (values) or of the mutant bytes (mutants); all are non-trivial (each is decoded by the real decoder)",
		Assumptions: []string{
			"equality oracle: the harness' own structural comparison of values and types (eq.go), erasing exactly container element/key types and the declared field types of composite values; dictionaries compared as key→value maps, composite fields by name",
			"\"equal type\" additionally means the library's own Type.ID() and Type.Equal() agree for every type embedded in type values, capabilities and function values",
			"robustness: json.Decode must return; a Go panic that escapes it, a worker death, or more than 5 s thread CPU time for one input are violations",
			"values are restricted to ones whose strings are valid UTF-8 (the encoder is not required to handle others)",
		},
		NumCases: func(tier string) int {
			if tier == "thorough" {
				return 512
			}
			return 64
		},
		Floors: map[string]int64{
			"values": 4000, "roundtrip_ok": 3000, "mutants": 30000, "mut_bytes": 8000, "mut_tree": 8000, "mut_text": 1500, "mut_deep": 20,
			"mutant_decoded_value": 1000, "mutant_decode_error": 10000,
			"kind_v:Struct": 100, "kind_v:Resource": 40, "kind_v:Event": 40, "kind_v:Contract": 10, "kind_v:Enum": 40, "kind_v:Attachment": 5,
			"kind_v:Array": 100, "kind_v:Dictionary": 100, "kind_v:Optional(nil)": 100, "kind_v:Optional(some)": 100,
			"kind_v:Path": 40, "kind_v:Type": 400, "kind_v:Capability": 100, "kind_v:Function": 40, "kind_v:InclusiveRange": 20,
			"kind_t:Function": 100, "kind_t:Intersection": 100, "kind_t:ReferenceConjunctionAuth": 40, "kind_t:ReferenceDisjunctionAuth": 20,
			"kind_t:ReferenceMapAuth": 40, "kind_t:Reference": 40, "kind_t:Capability": 100, "kind_t:InclusiveRange": 20,
			"kind_t:ConstantSizedArray": 40, "kind_t:Dictionary": 100, "kind_t:recursive-or-repeated": 40,
			"kind_t:StructInterface": 40, "kind_t:ResourceInterface": 20, "kind_t:ContractInterface": 10, "kind_t:Attachment": 20,
			"kind_t:Enum": 40, "kind_t:Event": 40, "kind_t:Contract": 20, "kind_t:type-parameter-bound": 10, "kind_t:nil": 5,
			"primitive_types_as_type_values": 100,
		},
		Run: runC41,
	})
}

func runC41(c *core.Ctx) {
	rep := newReporter(c)
	nValues := c.Pick(320, 1000)
	nMutants := c.Pick(3000, 10000)
	build := func(t *tape) cadence.Value { return buildValue(t, false) }
	check := func(v cadence.Value) *failure { f, _ := jsonRoundTrip(v); return f }

	var pool [][]byte
	addPool := func(b []byte) {
		if len(b) == 0 || len(b) > 20000 {
			return
		}
		if len(pool) < 96 {
			pool = append(pool, b)
		} else {
			pool[c.Rng.IntN(len(pool))] = b
		}
	}

	// every primitive type once as a type value (case 0 of each worker shard covers the table)
	if c.Case%16 == 0 {
		for _, p := range allPrimitives {
			v := cadence.NewTypeValue(p)
			c.Eval(1)
			c.Inc("primitive_types_as_type_values")
			if f, _ := jsonRoundTrip(v); f != nil {
				f.Detail = "primitive " + safeID(p) + ": " + f.Detail
				c.Violate(f.Class+":type-value-of-primitive:"+safeID(p), f.Class+": "+f.Detail, map[string]any{"type": safeID(p), "detail": f.Detail})
			}
		}
	}

	if c.Case == 0 {
		for _, nv := range targetedValues() {
			c.Eval(1)
			if f, _ := jsonRoundTrip(nv.Value); f != nil {
				w := map[string]any{"targeted": nv.Name, "value": clipS(describeValue(nv.Value, 1), 4000), "detail": f.Detail}
				for k, x := range f.Extra {
					w[k] = x
				}
				c.Violate(targetedKey(f, nv.Name), f.Class+": "+f.Detail+" — targeted value "+nv.Name, w)
			}
		}
	}

	for i := 0; i < nValues; i++ {
		t := newTape(c.Rng)
		v, finite := tryBuild(build, t)
		if !finite {
			c.Inc("no_finite_value_skipped")
			continue
		}
		c.Eval(1)
		c.Inc("values")
		countKinds(c, v)
		f, enc := jsonRoundTrip(v)
		if enc != nil {
			c.DistinctHash(hash64(enc))
			addPool(enc)
		}
		if f != nil {
			rep.report(f, t.choices(), build, check)
			continue
		}
		c.Inc("roundtrip_ok")
		if c.WantSample() && i%37 == 5 {
			c.Sample(map[string]any{"value": clipS(describeValue(v, 1), 600), "json": clipS(string(enc), 600)})
		}
	}
	if len(pool) == 0 {
		return
	}

	// ---- robustness
	type mutant struct {
		b    []byte
		kind string
	}
	muts := make([]mutant, 0, nMutants+len(targetedJSONInputs))
	if c.Case == 0 {
		for _, s := range targetedJSONInputs {
			muts = append(muts, mutant{[]byte(s), "targeted"})
		}
	}
	for len(muts) < cap(muts) {
		src := pool[c.Rng.IntN(len(pool))]
		other := pool[c.Rng.IntN(len(pool))]
		switch k := c.Rng.IntN(20); {
		case k < 8:
			muts = append(muts, mutant{mutateBytes(c.Rng, src, other), "bytes"})
		case k < 18:
			if m, ok := mutateJSON(c.Rng, src, other); ok {
				muts = append(muts, mutant{m, "tree"})
			}
		default:
			muts = append(muts, mutant{jsonTextMutant(c.Rng, src), "text"})
		}
	}
	for i := 0; i < 2; i++ {
		muts = append(muts, mutant{jsonDeepMutant(c.Rng, pool[c.Rng.IntN(len(pool))]), "deep"})
	}
	g := newGuard()
	decoded := make([]int8, len(muts)) // 1 value, 2 error
	bad, g := g.each(len(muts), func(i int) {
		v, err := jsoncdc.Decode(nil, muts[i].b)
		switch {
		case err != nil:
			decoded[i] = 2
		case v != nil:
			decoded[i] = 1
		default:
			decoded[i] = 3
		}
	})
	close(g.jobs)
	for i, m := range muts {
		c.Eval(1)
		c.Inc("mutants")
		c.Inc("mut_" + m.kind)
		c.DistinctHash(hash64(m.b))
		switch decoded[i] {
		case 1:
			c.Inc("mutant_decoded_value")
		case 2:
			c.Inc("mutant_decode_error")
		case 3:
			c.Violate("json-decode:nil-value-and-nil-error", "json.Decode returned neither a value nor an error",
				map[string]any{"input": clipS(string(m.b), 4000), "mutation": m.kind})
		}
	}
	for _, o := range bad {
		m := muts[o.Index]
		w := map[string]any{"input": clipS(string(m.b), 4000), "input_hex": hexClip(m.b, 2000), "mutation": m.kind, "cpu_ms": o.CPU.Milliseconds()}
		switch {
		case o.TimedOut:
			c.Violate("json-decode:unbounded-time", "json.Decode did not return within the wall-clock limit", w)
		case o.Panicked:
			min := minimizeBytes(m.b, func(b []byte) bool {
				o2 := runOne(0, func(int) { _, _ = jsoncdc.Decode(nil, b) })
				return o2.Panicked && o2.Site == o.Site
			})
			w["minimal_input"] = clipS(string(min), 4000)
			w["panic"] = o.PanicVal
			w["stack"] = clipS(o.Stack, 5000)
			c.Violate("json-decode:escaped-panic:"+o.Site, fmt.Sprintf("a Go panic escaped json.Decode: %s (minimal input: %s)", clipS(o.PanicVal, 200), clipS(string(min), 300)), w)
		default:
			c.Violate("json-decode:cpu-time-bound", fmt.Sprintf("json.Decode used %v CPU time on a %d-byte input", o.CPU, len(m.b)), w)
		}
	}
}

// minimizeBytes greedily removes chunks of the input while the predicate keeps holding.
func minimizeBytes(in []byte, still func([]byte) bool) []byte {
	cur := append([]byte(nil), in...)
	if len(cur) > 1<<16 {
		return cur
	}
	budget := 1500
	for chunk := len(cur) / 2; chunk >= 1; chunk /= 2 {
		for i := 0; i+chunk <= len(cur) && budget > 0; {
			cand := append(append([]byte(nil), cur[:i]...), cur[i+chunk:]...)
			budget--
			if still(cand) {
				cur = cand
			} else {
				i += chunk
			}
		}
	}
	return cur
}

var _ = rand.Int
