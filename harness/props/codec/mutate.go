package codec

import (
	"bytes"
	"encoding/binary"
	"encoding/json"
	"math/rand/v2"
	"sort"
	"strings"
)

// ------------------------------------------------------------------ byte-level mutations

var interestingBytes = []byte{0x00, 0xff, 0x7f, 0x80, '"', '\\', '{', '}', '[', ']', ':', ',', '0', '9', '-', 'e', '.', ' ', 0xd8, 0x82, 0x9f, 0xf6, 0x1b, 0x5b, 0x7b, 0x9b, 0xbb, 0xdb, 0xc2, 0xc3}

// mutateBytes applies 1..3 byte-level edits (flip, set, delete, duplicate, insert, truncate, swap, splice).
func mutateBytes(r *rand.Rand, in []byte, other []byte) []byte {
	b := append([]byte(nil), in...)
	n := 1 + r.IntN(3)
	for k := 0; k < n; k++ {
		if len(b) == 0 {
			b = append(b, byte(r.IntN(256)))
			continue
		}
		switch r.IntN(10) {
		case 0: // flip a bit
			i := r.IntN(len(b))
			b[i] ^= 1 << r.IntN(8)
		case 1: // set a byte to an interesting value
			b[r.IntN(len(b))] = interestingBytes[r.IntN(len(interestingBytes))]
		case 2: // random byte
			b[r.IntN(len(b))] = byte(r.IntN(256))
		case 3: // delete a range
			i := r.IntN(len(b))
			l := 1 + r.IntN(min(8, len(b)-i))
			b = append(b[:i], b[i+l:]...)
		case 4: // duplicate a range
			i := r.IntN(len(b))
			l := 1 + r.IntN(min(16, len(b)-i))
			dup := append([]byte(nil), b[i:i+l]...)
			b = append(b[:i+l], append(dup, b[i+l:]...)...)
		case 5: // insert interesting bytes
			i := r.IntN(len(b) + 1)
			ins := make([]byte, 1+r.IntN(4))
			for j := range ins {
				ins[j] = interestingBytes[r.IntN(len(interestingBytes))]
			}
			b = append(b[:i], append(ins, b[i:]...)...)
		case 6: // truncate
			b = b[:r.IntN(len(b))]
		case 7: // swap two bytes
			i, j := r.IntN(len(b)), r.IntN(len(b))
			b[i], b[j] = b[j], b[i]
		case 8: // splice with another encoding
			if len(other) > 0 {
				i := r.IntN(len(b))
				j := r.IntN(len(other))
				b = append(append([]byte(nil), b[:i]...), other[j:]...)
			}
		case 9: // overwrite a window with 0xff / 0x00
			i := r.IntN(len(b))
			l := 1 + r.IntN(min(9, len(b)-i))
			v := byte(0xff)
			if r.IntN(2) == 0 {
				v = 0
			}
			for j := i; j < i+l; j++ {
				b[j] = v
			}
		}
	}
	return b
}

// ------------------------------------------------------------------ JSON-structure mutations

var jsonTypeTags = []string{
	"Void", "Optional", "Bool", "Character", "String", "Address", "Int", "Int8", "Int16", "Int32", "Int64", "Int128", "Int256",
	"UInt", "UInt8", "UInt16", "UInt32", "UInt64", "UInt128", "UInt256", "Word8", "Word16", "Word32", "Word64", "Word128", "Word256",
	"Fix64", "Fix128", "UFix64", "UFix128", "Array", "Dictionary", "Struct", "Resource", "Attachment", "Event", "Contract", "Path",
	"Type", "Capability", "Enum", "Function", "InclusiveRange", "Link", "Bytes", "", "type",
}

var jsonKindTags = []string{
	"Function", "Intersection", "Optional", "Restriction", "VariableSizedArray", "Capability", "Dictionary", "InclusiveRange",
	"ConstantSizedArray", "Reference", "Struct", "Resource", "Event", "Contract", "StructInterface", "ResourceInterface",
	"ContractInterface", "Enum", "Attachment", "Int", "String", "AnyStruct", "Never", "Bytes", "Account", "Storage", "Unauthorized",
	"EntitlementMapAuthorization", "EntitlementConjunctionSet", "EntitlementDisjunctionSet", "Entitlement", "EntitlementMap", "", "AuthAccount", "Link",
}

var jsonKeys = []string{
	"type", "kind", "value", "key", "name", "fields", "initializers", "id", "targetPath", "borrowType", "domain", "identifier",
	"staticType", "address", "path", "authorization", "authorized", "entitlements", "size", "typeID", "restrictions", "types", "label",
	"parameters", "typeParameters", "return", "typeBound", "purity", "functionType", "element", "start", "end", "step",
}

var jsonWeirdStrings = []string{
	"", "A.1", "A.zz.C", "S", "A.0000000000000001", "I.x", ".", "A.0000000000000001.C.Foo.Bar.Baz", "PublicKey", "HashAlgorithm",
	"0x", "0x1", "0xzz", "0x0000000000000000000001", "-0", "+1", "1e3", "0x10", " 1", "1.0", "-1", "340282366920938463463374607431768211456",
	"1.000000001", "-.5", "1.", ".5", "99999999999999999999999999999999999999999999.0", "storage", "private", "public", "view", "NaN",
	"\u0000", "\xed\xa0\x80", "s.01.Foo", "t.02.Foo", "REPL.Foo", "A.0000000000000001.", "fun(): Void",
}

type jsonPath struct {
	parent any // map[string]any or []any
	key    string
	idx    int
}

func collectJSON(node any, parent any, key string, idx int, out *[]jsonPath) {
	*out = append(*out, jsonPath{parent, key, idx})
	switch n := node.(type) {
	case map[string]any:
		keys := make([]string, 0, len(n))
		for k := range n {
			keys = append(keys, k)
		}
		sort.Strings(keys)
		for _, k := range keys {
			collectJSON(n[k], n, k, 0, out)
		}
	case []any:
		for i, e := range n {
			collectJSON(e, n, "", i, out)
		}
	}
}

func randomJSONScalar(r *rand.Rand) any {
	switch r.IntN(12) {
	case 0:
		return nil
	case 1:
		return true
	case 2:
		return json.Number("1")
	case 3:
		return json.Number("-1")
	case 4:
		return json.Number("1e400")
	case 5:
		return json.Number("1.5")
	case 6:
		return json.Number("18446744073709551616")
	case 7:
		return []any{}
	case 8:
		return map[string]any{}
	case 9:
		return strings.Repeat("9", 2000)
	case 10:
		return jsonWeirdStrings[r.IntN(len(jsonWeirdStrings))]
	default:
		return json.Number("9007199254740993")
	}
}

// mutateJSON parses the encoding, applies 1..3 structural edits and renders it again. ok=false when
// the input is not JSON (never for encoder output).
func mutateJSON(r *rand.Rand, in []byte, donor []byte) ([]byte, bool) {
	dec := json.NewDecoder(bytes.NewReader(in))
	dec.UseNumber()
	var root any
	if err := dec.Decode(&root); err != nil {
		return nil, false
	}
	var donorRoot any
	if len(donor) > 0 {
		dd := json.NewDecoder(bytes.NewReader(donor))
		dd.UseNumber()
		_ = dd.Decode(&donorRoot)
	}
	holder := []any{root}
	n := 1 + r.IntN(3)
	for k := 0; k < n; k++ {
		var paths []jsonPath
		collectJSON(holder[0], holder, "", 0, &paths)
		p := paths[r.IntN(len(paths))]
		get := func() any {
			switch par := p.parent.(type) {
			case map[string]any:
				return par[p.key]
			case []any:
				return par[p.idx]
			}
			return nil
		}
		set := func(v any) {
			switch par := p.parent.(type) {
			case map[string]any:
				par[p.key] = v
			case []any:
				par[p.idx] = v
			}
		}
		cur := get()
		switch r.IntN(14) {
		case 0: // change a type tag
			if m, ok := cur.(map[string]any); ok {
				if _, has := m["type"]; has {
					m["type"] = jsonTypeTags[r.IntN(len(jsonTypeTags))]
					break
				}
			}
			set(randomJSONScalar(r))
		case 1: // change a kind tag
			if m, ok := cur.(map[string]any); ok {
				if _, has := m["kind"]; has {
					m["kind"] = jsonKindTags[r.IntN(len(jsonKindTags))]
					break
				}
			}
			set(randomJSONScalar(r))
		case 2: // remove a key
			if m, ok := cur.(map[string]any); ok && len(m) > 0 {
				keys := make([]string, 0, len(m))
				for k := range m {
					keys = append(keys, k)
				}
				sort.Strings(keys)
				delete(m, keys[r.IntN(len(keys))])
			} else {
				set(nil)
			}
		case 3: // rename a key
			if m, ok := cur.(map[string]any); ok && len(m) > 0 {
				keys := make([]string, 0, len(m))
				for k := range m {
					keys = append(keys, k)
				}
				sort.Strings(keys)
				k := keys[r.IntN(len(keys))]
				v := m[k]
				delete(m, k)
				m[jsonKeys[r.IntN(len(jsonKeys))]] = v
			} else {
				set(randomJSONScalar(r))
			}
		case 4: // add a key
			if m, ok := cur.(map[string]any); ok {
				m[jsonKeys[r.IntN(len(jsonKeys))]] = randomJSONScalar(r)
			} else {
				set(map[string]any{"type": jsonTypeTags[r.IntN(len(jsonTypeTags))], "value": cur})
			}
		case 5: // wrong JSON type
			set(randomJSONScalar(r))
		case 6: // swap "value" and "type"/"kind"
			if m, ok := cur.(map[string]any); ok {
				if v, has := m["value"]; has {
					if t, has2 := m["type"]; has2 {
						m["value"], m["type"] = t, v
						break
					}
				}
				if v, has := m["type"]; has {
					if t, has2 := m["kind"]; has2 {
						m["type"], m["kind"] = t, v
						break
					}
				}
			}
			set(randomJSONScalar(r))
		case 7: // array edits
			if a, ok := cur.([]any); ok {
				switch {
				case len(a) > 0 && r.IntN(2) == 0:
					i := r.IntN(len(a))
					set(append(append([]any{}, a[:i]...), a[i+1:]...))
				case len(a) > 0:
					i := r.IntN(len(a))
					set(append(append([]any{}, a[:i+1]...), a[i:]...))
				default:
					set([]any{randomJSONScalar(r)})
				}
			} else {
				set([]any{cur})
			}
		case 8: // weird string
			if _, ok := cur.(string); ok {
				set(jsonWeirdStrings[r.IntN(len(jsonWeirdStrings))])
			} else {
				set(jsonWeirdStrings[r.IntN(len(jsonWeirdStrings))])
			}
		case 9: // transplant a node of the donor (or of this document)
			src := donorRoot
			if src == nil || r.IntN(2) == 0 {
				src = holder[0]
			}
			var sp []jsonPath
			h2 := []any{src}
			collectJSON(src, h2, "", 0, &sp)
			q := sp[r.IntN(len(sp))]
			var v any
			switch par := q.parent.(type) {
			case map[string]any:
				v = par[q.key]
			case []any:
				v = par[q.idx]
			}
			set(deepCopyJSON(v))
		case 10: // numeric string extremes
			if s, ok := cur.(string); ok && len(s) > 0 && (s[0] == '-' || (s[0] >= '0' && s[0] <= '9')) {
				set([]string{strings.Repeat("9", 100), "-" + strings.Repeat("9", 100), "256", "-129", "65536", "4294967296", "18446744073709551616",
					"9223372036854775808", "-9223372036854775809", "0.000000001", "184467440737.09551616", "-92233720368.54775809", s + "0", "0" + s, s + ".0",
					"170141183460469231731687303715884105728", "340282366920938463463374607431768211456.0", "1" + strings.Repeat("0", 5000)}[r.IntN(18)])
			} else {
				set(randomJSONScalar(r))
			}
		case 11: // wrap 1..3 levels in optionals / arrays
			v := cur
			for i := 0; i < 1+r.IntN(3); i++ {
				if r.IntN(2) == 0 {
					v = map[string]any{"type": "Optional", "value": v}
				} else {
					v = map[string]any{"type": "Array", "value": []any{v}}
				}
			}
			set(v)
		case 12: // size edits
			if m, ok := cur.(map[string]any); ok {
				if _, has := m["size"]; has {
					m["size"] = []any{json.Number("-1"), json.Number("1e30"), json.Number("1.5"), "3", nil, json.Number("18446744073709551616"), json.Number("9007199254740993")}[r.IntN(7)]
					break
				}
			}
			set(randomJSONScalar(r))
		case 13: // empty object / array
			if r.IntN(2) == 0 {
				set(map[string]any{})
			} else {
				set([]any{})
			}
		}
	}
	out, err := json.Marshal(holder[0])
	if err != nil {
		return nil, false
	}
	return out, true
}

func deepCopyJSON(v any) any {
	switch n := v.(type) {
	case map[string]any:
		m := make(map[string]any, len(n))
		for k, e := range n {
			m[k] = deepCopyJSON(e)
		}
		return m
	case []any:
		a := make([]any, len(n))
		for i, e := range n {
			a[i] = deepCopyJSON(e)
		}
		return a
	}
	return v
}

// jsonTextMutant: text-level structure edits that a parsed tree cannot express: duplicate keys,
// trailing data, leading junk, huge numbers, alternate key spellings.
func jsonTextMutant(r *rand.Rand, in []byte) []byte {
	s := strings.TrimSpace(string(in))
	switch r.IntN(7) {
	case 0: // duplicate "type" key with another tag
		if strings.HasSuffix(s, "}") {
			return []byte(s[:len(s)-1] + `,"type":"` + jsonTypeTags[r.IntN(len(jsonTypeTags))] + `"}`)
		}
	case 1: // duplicate "value" key
		if strings.HasSuffix(s, "}") {
			return []byte(s[:len(s)-1] + `,"value":null}`)
		}
	case 2: // moderately deep nesting
		depth := 2 + r.IntN(60)
		return []byte(strings.Repeat(`{"type":"Optional","value":`, depth) + s + strings.Repeat("}", depth))
	case 3: // trailing data
		return []byte(s + s)
	case 4: // top-level not an object / truncated
		return []byte([]string{"[]", "null", "1", `"x"`, "true", "", "{", `{"type":`, `{"type":"Int","value":"1"`}[r.IntN(9)])
	case 5: // huge JSON number where a string is expected
		return []byte(strings.Replace(s, `"value":"`, `"value":1e999,"x":"`, 1))
	case 6: // upper-case / alternate keys
		return []byte(strings.Replace(s, `"type"`, `"Type"`, 1+r.IntN(2)))
	}
	return []byte(s + " ")
}

// jsonDeepMutant nests a value, an array or a type thousands of levels deep (around the JSON
// reader's own limit of 10 000).
func jsonDeepMutant(r *rand.Rand, in []byte) []byte {
	s := strings.TrimSpace(string(in))
	switch r.IntN(3) {
	case 0:
		depth := []int{1000, 5000, 9998, 10001, 20000}[r.IntN(5)]
		if len(s) > 4000 {
			s = `{"type":"Void"}`
		}
		return []byte(strings.Repeat(`{"type":"Optional","value":`, depth) + s + strings.Repeat("}", depth))
	case 1:
		depth := []int{1000, 5000, 9990, 10001}[r.IntN(4)]
		return []byte(`{"type":"Array","value":` + strings.Repeat("[", depth) + strings.Repeat("]", depth) + `}`)
	default:
		depth := []int{100, 2000, 9990}[r.IntN(3)]
		return []byte(`{"type":"Type","value":{"staticType":` + strings.Repeat(`{"kind":"Optional","type":`, depth) + `{"kind":"Int"}` + strings.Repeat("}", depth) + `}}`)
	}
}

// ------------------------------------------------------------------ CBOR-structure mutations

// cnode is one CBOR data item as parsed by the harness' own minimal CBOR reader.
type cnode struct {
	major   byte
	arg     uint64
	width   int // 0 = minimal; 1,2,4,8 = forced argument width (non-canonical when larger than needed)
	indef   bool
	payload []byte
	kids    []*cnode
	simple  bool // major 7
	raw     []byte
}

func parseCBOR(b []byte, depth int) (*cnode, []byte, bool) {
	if len(b) == 0 || depth > 2000 {
		return nil, nil, false
	}
	ib := b[0]
	n := &cnode{major: ib >> 5}
	info := ib & 0x1f
	b = b[1:]
	switch {
	case info < 24:
		n.arg = uint64(info)
	case info == 24:
		if len(b) < 1 {
			return nil, nil, false
		}
		n.arg, b, n.width = uint64(b[0]), b[1:], 1
	case info == 25:
		if len(b) < 2 {
			return nil, nil, false
		}
		n.arg, b, n.width = uint64(binary.BigEndian.Uint16(b)), b[2:], 2
	case info == 26:
		if len(b) < 4 {
			return nil, nil, false
		}
		n.arg, b, n.width = uint64(binary.BigEndian.Uint32(b)), b[4:], 4
	case info == 27:
		if len(b) < 8 {
			return nil, nil, false
		}
		n.arg, b, n.width = binary.BigEndian.Uint64(b), b[8:], 8
	default:
		return nil, nil, false
	}
	switch n.major {
	case 0, 1:
	case 2, 3:
		if uint64(len(b)) < n.arg {
			return nil, nil, false
		}
		n.payload, b = append([]byte(nil), b[:n.arg]...), b[n.arg:]
	case 4, 5:
		cnt := n.arg
		if n.major == 5 {
			cnt *= 2
		}
		if cnt > uint64(len(b)) {
			return nil, nil, false
		}
		for i := uint64(0); i < cnt; i++ {
			k, rest, ok := parseCBOR(b, depth+1)
			if !ok {
				return nil, nil, false
			}
			n.kids = append(n.kids, k)
			b = rest
		}
	case 6:
		k, rest, ok := parseCBOR(b, depth+1)
		if !ok {
			return nil, nil, false
		}
		n.kids = []*cnode{k}
		b = rest
	case 7:
		n.simple = true
	}
	return n, b, true
}

func cborHead(buf *bytes.Buffer, major byte, arg uint64, width int) {
	m := major << 5
	need := 0
	switch {
	case arg < 24:
		need = 0
	case arg <= 0xff:
		need = 1
	case arg <= 0xffff:
		need = 2
	case arg <= 0xffffffff:
		need = 4
	default:
		need = 8
	}
	if width < need {
		width = need
	}
	switch width {
	case 0:
		buf.WriteByte(m | byte(arg))
	case 1:
		buf.WriteByte(m | 24)
		buf.WriteByte(byte(arg))
	case 2:
		buf.WriteByte(m | 25)
		var x [2]byte
		binary.BigEndian.PutUint16(x[:], uint16(arg))
		buf.Write(x[:])
	case 4:
		buf.WriteByte(m | 26)
		var x [4]byte
		binary.BigEndian.PutUint32(x[:], uint32(arg))
		buf.Write(x[:])
	default:
		buf.WriteByte(m | 27)
		var x [8]byte
		binary.BigEndian.PutUint64(x[:], arg)
		buf.Write(x[:])
	}
}

func (n *cnode) encode(buf *bytes.Buffer) {
	if n.raw != nil {
		buf.Write(n.raw)
		return
	}
	switch n.major {
	case 0, 1:
		cborHead(buf, n.major, n.arg, n.width)
	case 2, 3:
		if n.indef {
			buf.WriteByte(n.major<<5 | 31)
			cborHead(buf, n.major, uint64(len(n.payload)), 0)
			buf.Write(n.payload)
			buf.WriteByte(0xff)
			return
		}
		cborHead(buf, n.major, n.arg, n.width)
		buf.Write(n.payload)
	case 4, 5:
		if n.indef {
			buf.WriteByte(n.major<<5 | 31)
			for _, k := range n.kids {
				k.encode(buf)
			}
			buf.WriteByte(0xff)
			return
		}
		cborHead(buf, n.major, n.arg, n.width)
		for _, k := range n.kids {
			k.encode(buf)
		}
	case 6:
		cborHead(buf, 6, n.arg, n.width)
		for _, k := range n.kids {
			k.encode(buf)
		}
	case 7:
		cborHead(buf, 7, n.arg, n.width)
	}
}

func collectCBOR(n *cnode, out *[]*cnode) {
	*out = append(*out, n)
	for _, k := range n.kids {
		collectCBOR(k, out)
	}
}

func cloneCBOR(n *cnode) *cnode {
	c := *n
	c.payload = append([]byte(nil), n.payload...)
	c.kids = make([]*cnode, len(n.kids))
	for i, k := range n.kids {
		c.kids[i] = cloneCBOR(k)
	}
	return &c
}

// CCF tag numbers (encoding/ccf/consts.go) plus neighbours and generic CBOR tags.
var cborTags = []uint64{0, 1, 2, 3, 24, 55799, 127, 128, 129, 130, 131, 136, 137, 138, 139, 140, 141, 142, 143, 144, 145, 146, 147, 148,
	160, 161, 162, 163, 164, 165, 166, 176, 177, 178, 179, 184, 185, 186, 187, 188, 189, 190, 191, 192, 193, 194, 195, 196, 197,
	208, 209, 210, 211, 212, 213, 214, 224, 225, 226, 227, 255, 256, 65535, 1 << 32, 1<<64 - 1}

var cborUints = []uint64{0, 1, 2, 3, 23, 24, 42, 50, 51, 52, 100, 118, 119, 120, 121, 122, 123, 124, 125, 126, 200, 255, 256, 65535, 65536, 1<<32 - 1, 1 << 32, 1<<53 + 1, 1<<63 - 1, 1 << 63, 1<<64 - 1}

// mutateCBOR parses the encoding with the harness' reader, applies 1..3 structural edits and
// serialises it again (lengths are kept consistent unless the edit is a length lie).
func mutateCBOR(r *rand.Rand, in []byte, donor []byte) ([]byte, bool) {
	root, rest, ok := parseCBOR(in, 0)
	if !ok || len(rest) != 0 {
		return nil, false
	}
	var donorRoot *cnode
	if len(donor) > 0 {
		if d, rr, ok := parseCBOR(donor, 0); ok && len(rr) == 0 {
			donorRoot = d
		}
	}
	wrapper := &cnode{major: 6, arg: 0, kids: []*cnode{root}}
	n := 1 + r.IntN(3)
	for k := 0; k < n; k++ {
		var nodes []*cnode
		collectCBOR(wrapper.kids[0], &nodes)
		t := nodes[r.IntN(len(nodes))]
		switch r.IntN(16) {
		case 0: // change a tag number
			if t.major == 6 {
				t.arg = cborTags[r.IntN(len(cborTags))]
			} else {
				*t = cnode{major: 6, arg: cborTags[r.IntN(len(cborTags))], kids: []*cnode{cloneCBOR(t)}}
			}
		case 1: // change an unsigned / negative integer argument
			if t.major <= 1 {
				t.arg = cborUints[r.IntN(len(cborUints))]
				if r.IntN(4) == 0 {
					t.major ^= 1
				}
			} else {
				*t = cnode{major: byte(r.IntN(2)), arg: cborUints[r.IntN(len(cborUints))]}
			}
		case 2: // length lie: keep children, change the declared count
			if t.major == 4 || t.major == 5 || t.major == 2 || t.major == 3 {
				switch r.IntN(5) {
				case 0:
					t.arg++
				case 1:
					if t.arg > 0 {
						t.arg--
					}
				case 2:
					t.arg = cborUints[r.IntN(len(cborUints))]
				case 3:
					t.arg = 20_000_000
				default:
					t.arg = 20_000_001
				}
			} else {
				t.width = 8
			}
		case 3: // drop a child (consistent length)
			if (t.major == 4) && len(t.kids) > 0 {
				i := r.IntN(len(t.kids))
				t.kids = append(t.kids[:i], t.kids[i+1:]...)
				t.arg = uint64(len(t.kids))
			} else {
				*t = cnode{major: 7, arg: 22, simple: true}
			}
		case 4: // duplicate a child (consistent length)
			if t.major == 4 && len(t.kids) > 0 {
				i := r.IntN(len(t.kids))
				t.kids = append(t.kids[:i+1], append([]*cnode{cloneCBOR(t.kids[i])}, t.kids[i+1:]...)...)
				t.arg = uint64(len(t.kids))
			} else {
				*t = cnode{major: 4, arg: 2, kids: []*cnode{cloneCBOR(t), cloneCBOR(t)}}
			}
		case 5: // swap two children
			if len(t.kids) > 1 {
				i, j := r.IntN(len(t.kids)), r.IntN(len(t.kids))
				t.kids[i], t.kids[j] = t.kids[j], t.kids[i]
			} else {
				t.width = []int{1, 2, 4, 8}[r.IntN(4)]
			}
		case 6: // replace by a simple value / float
			*t = cnode{major: 7, arg: []uint64{20, 21, 22, 23, 0, 19, 24, 255}[r.IntN(8)], simple: true}
			if t.arg == 24 || t.arg == 255 {
				t.raw = []byte{0xf8, byte(t.arg)}
			}
			if r.IntN(4) == 0 {
				t.raw = [][]byte{{0xf9, 0x7e, 0x00}, {0xfa, 0x7f, 0x80, 0, 0}, {0xfb, 0x40, 0x09, 0x21, 0xfb, 0x54, 0x44, 0x2d, 0x18}, {0xff}}[r.IntN(4)]
			}
		case 7: // indefinite length
			if t.major >= 2 && t.major <= 5 {
				t.indef = true
			} else {
				t.width = 8
			}
		case 8: // non-canonical argument width
			t.width = []int{1, 2, 4, 8}[r.IntN(4)]
		case 9: // bytes <-> text, edit payload
			if t.major == 2 || t.major == 3 {
				switch r.IntN(4) {
				case 0:
					t.major ^= 1
				case 1:
					t.payload = append(t.payload, 0xff, 0xfe)
					t.arg = uint64(len(t.payload))
				case 2:
					t.payload = nil
					t.arg = 0
				default:
					t.payload = bytes.Repeat([]byte{'A'}, 1+r.IntN(70000))
					t.arg = uint64(len(t.payload))
				}
			} else {
				*t = cnode{major: 3, arg: 1, payload: []byte{0xff}}
			}
		case 10: // transplant a node (from the donor or from this encoding)
			src := donorRoot
			if src == nil || r.IntN(2) == 0 {
				src = wrapper.kids[0]
			}
			var sn []*cnode
			collectCBOR(src, &sn)
			*t = *cloneCBOR(sn[r.IntN(len(sn))])
		case 11: // array <-> map
			if t.major == 4 {
				t.major = 5
				t.arg = uint64(len(t.kids) / 2)
				t.kids = t.kids[:len(t.kids)/2*2]
			} else if t.major == 5 {
				t.major = 4
				t.arg = uint64(len(t.kids))
			} else {
				*t = cnode{major: 5, arg: 1, kids: []*cnode{cloneCBOR(t), cloneCBOR(t)}}
			}
		case 12: // wrap in a ccf-type-and-value message with a random simple type
			*t = cnode{major: 6, arg: 130, kids: []*cnode{{major: 4, arg: 2, kids: []*cnode{
				{major: 6, arg: 137, kids: []*cnode{{major: 0, arg: cborUints[r.IntN(24)]}}},
				cloneCBOR(t),
			}}}}
		case 13: // bignum edits
			*t = cnode{major: 6, arg: uint64(2 + r.IntN(2)), kids: []*cnode{{major: 2, arg: 0}}}
			switch r.IntN(4) {
			case 0: // leading zero
				t.kids[0].payload = []byte{0, 1}
			case 1: // empty
			case 2: // huge
				t.kids[0].payload = bytes.Repeat([]byte{0xff}, 40)
			default:
				t.kids[0].payload = []byte{0x7f}
			}
			t.kids[0].arg = uint64(len(t.kids[0].payload))
		case 14: // clear children of a tag / array
			if t.major == 4 {
				t.kids = nil
				t.arg = 0
			} else {
				*t = cnode{major: 4, arg: 0}
			}
		case 15: // add a child
			if t.major == 4 {
				t.kids = append(t.kids, &cnode{major: 7, arg: 22, simple: true})
				t.arg = uint64(len(t.kids))
			} else {
				*t = cnode{major: 4, arg: 1, kids: []*cnode{cloneCBOR(t)}}
			}
		}
	}
	var buf bytes.Buffer
	wrapper.kids[0].encode(&buf)
	return buf.Bytes(), true
}

// cborTextMutant: whole-message shapes (deep nesting, trailing data, truncations of the head).
func cborShapeMutant(r *rand.Rand, in []byte) []byte {
	switch r.IntN(7) {
	case 0: // deep optional-type nesting around Int with a nil value
		depth := []int{100, 1000, 20000, 32766, 32768, 40000}[r.IntN(6)]
		var buf bytes.Buffer
		buf.Write([]byte{0xd8, 130, 0x82})
		for i := 0; i < depth; i++ {
			buf.Write([]byte{0xd8, 138})
		}
		buf.Write([]byte{0xd8, 137, 0x04, 0xf6})
		return buf.Bytes()
	case 1: // deeply nested arrays as the value of [AnyStruct]
		depth := []int{100, 5000, 32760, 40000}[r.IntN(4)]
		var buf bytes.Buffer
		buf.Write([]byte{0xd8, 130, 0x82, 0xd8, 139, 0xd8, 137, 0x18, 39})
		for i := 0; i < depth; i++ {
			buf.WriteByte(0x81)
		}
		buf.WriteByte(0x80)
		return buf.Bytes()
	case 2: // nested type-and-value messages
		depth := []int{10, 1000, 10000}[r.IntN(3)]
		var buf bytes.Buffer
		for i := 0; i < depth; i++ {
			buf.Write([]byte{0xd8, 130, 0x82, 0xd8, 137, 0x18, 39})
		}
		buf.Write([]byte{0xd8, 130, 0x82, 0xd8, 137, 0x04, 0xc2, 0x41, 0x01})
		return buf.Bytes()
	case 3: // trailing data
		return append(append([]byte(nil), in...), in...)
	case 4: // only the first k bytes
		if len(in) > 0 {
			return append([]byte(nil), in[:r.IntN(len(in))]...)
		}
	case 5: // deep type-value nesting
		depth := []int{100, 10000, 33000}[r.IntN(3)]
		var buf bytes.Buffer
		buf.Write([]byte{0xd8, 130, 0x82, 0xd8, 137, 0x18, 41})
		for i := 0; i < depth; i++ {
			buf.Write([]byte{0xd8, 186})
		}
		buf.Write([]byte{0xd8, 185, 0x04})
		return buf.Bytes()
	case 6: // type definitions with a huge declared count
		return []byte{0xd8, 129, 0x82, 0x9b, 0x00, 0x00, 0x00, 0x01, 0x00, 0x00, 0x00, 0x00}
	}
	return append([]byte(nil), in...)
}
