package codec

import (
	"fmt"
	"sort"

	"github.com/onflow/cadence"
)

// Independent structural comparison of cadence values and types. Every function returns "" when
// the two sides agree, otherwise a short path-qualified description of the first difference (its
// normalised form is used in violation keys).
//
// Levels of type comparison:
//   full    everything a type value carries: kind, ID, fields (by name), initializers (in order),
//           raw/base type, function signature with purity and type parameters, authorizations
//           (entitlement sets as sets), intersection members (as a set by ID), sizes.
//   inline  what CCF carries for the static types of *values* (type definitions + inline types):
//           composite types by kind, ID and fields (by name, inline level); interface types by kind
//           and ID; function types by kind only; no initializers, no raw/base type.
//
// Modes of value comparison:
//   cmpCCF    exact: every container/composite carries its static type (inline level); type values
//             and function values at full level; capability borrow types at inline level.
//   cmpJSON   JSON-Cadence erasure: container types are not carried (ignored); composite types by
//             kind, ID and field names only; type values, function values and capability borrow
//             types at full level.
//   cmpCross  JSON-decoded against CCF-decoded: like cmpJSON but capability borrow types at inline
//             level (CCF carries no more).

type cmpMode int

const (
	cmpCCF cmpMode = iota
	cmpJSON
	cmpCross
)

type comparer struct {
	mode cmpMode
	// collapseNil treats Optional^k(nil) and Optional^j(nil) as equal (k, j >= 1): CCF encodes
	// both as a single nil and rebuilds the nesting from the static type.
	collapseNil bool
	// typeValuesByID compares type values by their type ID only
	typeValuesByID bool
	seenFull       map[[2]cadence.Type]bool
	seenInline     map[[2]cadence.Type]bool
}

func newComparer(mode cmpMode) *comparer {
	return &comparer{mode: mode, collapseNil: mode != cmpJSON, seenFull: map[[2]cadence.Type]bool{}, seenInline: map[[2]cadence.Type]bool{}}
}

func goKind(x any) string { return fmt.Sprintf("%T", x) }

func sameLocation(a, b cadence.Type) bool {
	type located interface {
		CompositeTypeLocation() interface{ ID() string }
	}
	la, qa, oka := locationOf(a)
	lb, qb, okb := locationOf(b)
	if !oka || !okb {
		return oka == okb
	}
	return la == lb && qa == qb
}

func locationOf(t cadence.Type) (loc any, qi string, ok bool) {
	switch t := t.(type) {
	case cadence.CompositeType:
		return t.CompositeTypeLocation(), t.CompositeTypeQualifiedIdentifier(), true
	case cadence.InterfaceType:
		return t.InterfaceTypeLocation(), t.InterfaceTypeQualifiedIdentifier(), true
	}
	return nil, "", false
}

func (c *comparer) auth(path string, a, b cadence.Authorization) string {
	if goKind(a) != goKind(b) {
		return fmt.Sprintf("%s.authorization: kind %T vs %T", path, a, b)
	}
	switch a := a.(type) {
	case cadence.EntitlementMapAuthorization:
		if a.TypeID != b.(cadence.EntitlementMapAuthorization).TypeID {
			return fmt.Sprintf("%s.authorization.map: %s vs %s", path, a.TypeID, b.(cadence.EntitlementMapAuthorization).TypeID)
		}
	case *cadence.EntitlementSetAuthorization:
		bb := b.(*cadence.EntitlementSetAuthorization)
		if a.Kind != bb.Kind {
			return fmt.Sprintf("%s.authorization.setKind: %v vs %v", path, a.Kind, bb.Kind)
		}
		x := make([]string, len(a.Entitlements))
		y := make([]string, len(bb.Entitlements))
		for i, e := range a.Entitlements {
			x[i] = string(e)
		}
		for i, e := range bb.Entitlements {
			y[i] = string(e)
		}
		sort.Strings(x)
		sort.Strings(y)
		if fmt.Sprint(x) != fmt.Sprint(y) {
			return fmt.Sprintf("%s.authorization.entitlements: %v vs %v", path, x, y)
		}
	}
	return ""
}

func (c *comparer) params(path string, full bool, a, b []cadence.Parameter) string {
	if len(a) != len(b) {
		return fmt.Sprintf("%s: %d vs %d parameters", path, len(a), len(b))
	}
	for i := range a {
		if a[i].Label != b[i].Label {
			return fmt.Sprintf("%s[%d].label: %q vs %q", path, i, a[i].Label, b[i].Label)
		}
		if a[i].Identifier != b[i].Identifier {
			return fmt.Sprintf("%s[%d].identifier: %q vs %q", path, i, a[i].Identifier, b[i].Identifier)
		}
		if d := c.typ(fmt.Sprintf("%s[].type", path), full, a[i].Type, b[i].Type); d != "" {
			return d
		}
	}
	return ""
}

func (c *comparer) typeFull(path string, a, b cadence.Type) string { return c.typ(path, true, a, b) }

func (c *comparer) typeInline(path string, a, b cadence.Type) string {
	return c.typ(path, false, a, b)
}

func isNilType(t cadence.Type) bool {
	if t == nil {
		return true
	}
	// typed nil pointers inside the interface
	switch t := t.(type) {
	case *cadence.OptionalType:
		return t == nil
	case *cadence.VariableSizedArrayType:
		return t == nil
	case *cadence.ConstantSizedArrayType:
		return t == nil
	case *cadence.DictionaryType:
		return t == nil
	case *cadence.InclusiveRangeType:
		return t == nil
	case *cadence.FunctionType:
		return t == nil
	case *cadence.ReferenceType:
		return t == nil
	case *cadence.IntersectionType:
		return t == nil
	case *cadence.CapabilityType:
		return t == nil
	case *cadence.StructType:
		return t == nil
	case *cadence.ResourceType:
		return t == nil
	case *cadence.EventType:
		return t == nil
	case *cadence.ContractType:
		return t == nil
	case *cadence.EnumType:
		return t == nil
	case *cadence.AttachmentType:
		return t == nil
	case *cadence.StructInterfaceType:
		return t == nil
	case *cadence.ResourceInterfaceType:
		return t == nil
	case *cadence.ContractInterfaceType:
		return t == nil
	}
	return false
}

func (c *comparer) typ(path string, full bool, a, b cadence.Type) string {
	na, nb := isNilType(a), isNilType(b)
	if na || nb {
		if na != nb {
			return fmt.Sprintf("%s: nil-ness %v vs %v", path, na, nb)
		}
		return ""
	}
	if goKind(a) != goKind(b) {
		return fmt.Sprintf("%s: kind %s vs %s", path, typeKindPlain(a), typeKindPlain(b))
	}
	switch a := a.(type) {
	case cadence.PrimitiveType:
		if a != b.(cadence.PrimitiveType) {
			return fmt.Sprintf("%s: primitive %s vs %s", path, safeID(a), safeID(b))
		}
	case cadence.BytesType:
	case cadence.TypeID:
		if a != b.(cadence.TypeID) {
			return fmt.Sprintf("%s: TypeID %s vs %s", path, a, b)
		}
	case *cadence.OptionalType:
		return c.typ(path+".Optional", full, a.Type, b.(*cadence.OptionalType).Type)
	case *cadence.VariableSizedArrayType:
		return c.typ(path+".VariableSizedArray", full, a.ElementType, b.(*cadence.VariableSizedArrayType).ElementType)
	case *cadence.ConstantSizedArrayType:
		bb := b.(*cadence.ConstantSizedArrayType)
		if a.Size != bb.Size {
			return fmt.Sprintf("%s.ConstantSizedArray.size: %d vs %d", path, a.Size, bb.Size)
		}
		return c.typ(path+".ConstantSizedArray", full, a.ElementType, bb.ElementType)
	case *cadence.DictionaryType:
		bb := b.(*cadence.DictionaryType)
		if d := c.typ(path+".Dictionary.key", full, a.KeyType, bb.KeyType); d != "" {
			return d
		}
		return c.typ(path+".Dictionary.value", full, a.ElementType, bb.ElementType)
	case *cadence.InclusiveRangeType:
		return c.typ(path+".InclusiveRange", full, a.ElementType, b.(*cadence.InclusiveRangeType).ElementType)
	case *cadence.CapabilityType:
		return c.typ(path+".Capability", full, a.BorrowType, b.(*cadence.CapabilityType).BorrowType)
	case *cadence.ReferenceType:
		bb := b.(*cadence.ReferenceType)
		if d := c.auth(path+".Reference", a.Authorization, bb.Authorization); d != "" {
			return d
		}
		return c.typ(path+".Reference", full, a.Type, bb.Type)
	case *cadence.IntersectionType:
		bb := b.(*cadence.IntersectionType)
		ma := map[string]cadence.Type{}
		mb := map[string]cadence.Type{}
		for _, m := range a.Types {
			ma[safeID(m)] = m
		}
		for _, m := range bb.Types {
			mb[safeID(m)] = m
		}
		if len(a.Types) != len(bb.Types) || len(ma) != len(mb) {
			return fmt.Sprintf("%s.Intersection: %d vs %d members", path, len(a.Types), len(bb.Types))
		}
		ids := make([]string, 0, len(ma))
		for id := range ma {
			ids = append(ids, id)
		}
		sort.Strings(ids)
		for _, id := range ids {
			m2, ok := mb[id]
			if !ok {
				return fmt.Sprintf("%s.Intersection: member %s missing", path, id)
			}
			if d := c.typ(path+".Intersection[]", full, ma[id], m2); d != "" {
				return d
			}
		}
	case *cadence.FunctionType:
		if !full {
			// CCF's inline types carry "a function" only
			return ""
		}
		bb := b.(*cadence.FunctionType)
		if a.Purity != bb.Purity {
			return fmt.Sprintf("%s.Function.purity: %d vs %d", path, a.Purity, bb.Purity)
		}
		if len(a.TypeParameters) != len(bb.TypeParameters) {
			return fmt.Sprintf("%s.Function.typeParameters: %d vs %d", path, len(a.TypeParameters), len(bb.TypeParameters))
		}
		for i, tp := range a.TypeParameters {
			if tp.Name != bb.TypeParameters[i].Name {
				return fmt.Sprintf("%s.Function.typeParameters[%d].name: %q vs %q", path, i, tp.Name, bb.TypeParameters[i].Name)
			}
			if d := c.typ(path+".Function.typeParameters[].bound", full, tp.TypeBound, bb.TypeParameters[i].TypeBound); d != "" {
				return d
			}
		}
		if d := c.params(path+".Function.parameters", full, a.Parameters, bb.Parameters); d != "" {
			return d
		}
		return c.typ(path+".Function.return", full, a.ReturnType, bb.ReturnType)
	case *cadence.DeprecatedReferenceType, *cadence.DeprecatedRestrictedType:
		if safeID(a) != safeID(b) {
			return fmt.Sprintf("%s: deprecated type %s vs %s", path, safeID(a), safeID(b))
		}
	default:
		na, ok := nominalOf(a)
		if !ok {
			return fmt.Sprintf("%s: unsupported type %T", path, a)
		}
		nb, _ := nominalOf(b)
		p := path + "." + na.Kind
		if na.ID != nb.ID {
			return fmt.Sprintf("%s.id: %s vs %s", p, na.ID, nb.ID)
		}
		if !sameLocation(a, b) {
			return fmt.Sprintf("%s.location: %s location/qualified identifier differ", p, na.ID)
		}
		if !full && isInterfaceKind(na.Kind) {
			return ""
		}
		seen := c.seenInline
		if full {
			seen = c.seenFull
		}
		pair := [2]cadence.Type{a, b}
		if seen[pair] {
			return ""
		}
		seen[pair] = true
		if full && na.HasExtra {
			if d := c.typ(p+".rawOrBaseType", full, na.Extra, nb.Extra); d != "" {
				return d
			}
		}
		if d := c.fields(p, full, na.Fields, nb.Fields); d != "" {
			return d
		}
		if full {
			if len(na.Inits) != len(nb.Inits) {
				return fmt.Sprintf("%s.initializers: %d vs %d", p, len(na.Inits), len(nb.Inits))
			}
			for i := range na.Inits {
				if d := c.params(p+".initializers[]", full, na.Inits[i], nb.Inits[i]); d != "" {
					return d
				}
			}
		}
	}
	return ""
}

func typeKindPlain(t cadence.Type) string {
	if _, ok := t.(*cadence.ReferenceType); ok {
		return "Reference"
	}
	return typeKind(t)
}

func (c *comparer) fields(p string, full bool, fa, fb []cadence.Field) string {
	if len(fa) != len(fb) {
		return fmt.Sprintf("%s.fields: %d vs %d", p, len(fa), len(fb))
	}
	mb := map[string]cadence.Type{}
	for _, f := range fb {
		mb[f.Identifier] = f.Type
	}
	if len(mb) != len(fb) {
		return fmt.Sprintf("%s.fields: duplicate field names on the decoded side", p)
	}
	for _, f := range fa {
		tb, ok := mb[f.Identifier]
		if !ok {
			return fmt.Sprintf("%s.fields: field %q missing", p, f.Identifier)
		}
		if d := c.typ(p+".fields[].type", full, f.Type, tb); d != "" {
			return d
		}
	}
	return ""
}

// nilChainDepth returns k >= 1 when v is Optional^k(nil), else 0.
func nilChainDepth(v cadence.Value) int {
	k := 0
	for {
		o, ok := v.(cadence.Optional)
		if !ok {
			return 0
		}
		k++
		if o.Value == nil {
			return k
		}
		v = o.Value
	}
}

// dictKey is the identity of a dictionary key (hashable values only).
func dictKey(v cadence.Value) string {
	switch v := v.(type) {
	case cadence.TypeValue:
		return "Type:" + safeID(v.StaticType)
	case cadence.Enum:
		id := ""
		if v.EnumType != nil {
			id = v.EnumType.ID()
		}
		s := "Enum:" + id
		for _, f := range fieldValuesOf(v) {
			s += ":" + describeValue(f, 0)
		}
		return s
	}
	return describeValue(v, 0)
}

func (c *comparer) value(path string, a, b cadence.Value) string {
	if a == nil || b == nil {
		if (a == nil) != (b == nil) {
			return fmt.Sprintf("%s: nil value %v vs %v", path, a == nil, b == nil)
		}
		return ""
	}
	if goKind(a) != goKind(b) {
		return fmt.Sprintf("%s: value kind %T vs %T", path, a, b)
	}
	switch a := a.(type) {
	case cadence.Optional:
		bb := b.(cadence.Optional)
		ka, kb := nilChainDepth(a), nilChainDepth(bb)
		if ka > 0 || kb > 0 {
			if ka == 0 || kb == 0 {
				return fmt.Sprintf("%s.Optional: nil vs non-nil", path)
			}
			if ka != kb && !c.collapseNil {
				return fmt.Sprintf("%s.Optional: nil nested %d vs %d deep", path, ka, kb)
			}
			return ""
		}
		return c.value(path+".Optional", a.Value, bb.Value)

	case cadence.Array:
		bb := b.(cadence.Array)
		if c.mode == cmpCCF {
			var ta, tb cadence.Type
			if a.ArrayType != nil {
				ta = a.ArrayType
			}
			if bb.ArrayType != nil {
				tb = bb.ArrayType
			}
			if d := c.typeInline(path+".Array.type", ta, tb); d != "" {
				return d
			}
		}
		if len(a.Values) != len(bb.Values) {
			return fmt.Sprintf("%s.Array: length %d vs %d", path, len(a.Values), len(bb.Values))
		}
		for i := range a.Values {
			if d := c.value(path+".Array[]", a.Values[i], bb.Values[i]); d != "" {
				return d
			}
		}

	case cadence.Dictionary:
		bb := b.(cadence.Dictionary)
		if c.mode == cmpCCF {
			var ta, tb cadence.Type
			if a.DictionaryType != nil {
				ta = a.DictionaryType
			}
			if bb.DictionaryType != nil {
				tb = bb.DictionaryType
			}
			if d := c.typeInline(path+".Dictionary.type", ta, tb); d != "" {
				return d
			}
		}
		if len(a.Pairs) != len(bb.Pairs) {
			return fmt.Sprintf("%s.Dictionary: %d vs %d entries", path, len(a.Pairs), len(bb.Pairs))
		}
		mb := map[string]cadence.KeyValuePair{}
		for _, p := range bb.Pairs {
			mb[dictKey(p.Key)] = p
		}
		for _, p := range a.Pairs {
			q, ok := mb[dictKey(p.Key)]
			if !ok {
				return fmt.Sprintf("%s.Dictionary: key %s missing", path, goKind(p.Key))
			}
			if d := c.value(path+".Dictionary.key", p.Key, q.Key); d != "" {
				return d
			}
			if d := c.value(path+".Dictionary.value", p.Value, q.Value); d != "" {
				return d
			}
		}

	case *cadence.InclusiveRange:
		bb := b.(*cadence.InclusiveRange)
		if c.mode == cmpCCF {
			var ta, tb cadence.Type
			if a.InclusiveRangeType != nil {
				ta = a.InclusiveRangeType
			}
			if bb.InclusiveRangeType != nil {
				tb = bb.InclusiveRangeType
			}
			if d := c.typeInline(path+".InclusiveRange.type", ta, tb); d != "" {
				return d
			}
		}
		if d := c.value(path+".InclusiveRange.start", a.Start, bb.Start); d != "" {
			return d
		}
		if d := c.value(path+".InclusiveRange.end", a.End, bb.End); d != "" {
			return d
		}
		return c.value(path+".InclusiveRange.step", a.Step, bb.Step)

	case cadence.Path:
		bb := b.(cadence.Path)
		if a.Domain != bb.Domain || a.Identifier != bb.Identifier {
			return fmt.Sprintf("%s.Path: %d/%q vs %d/%q", path, a.Domain, a.Identifier, bb.Domain, bb.Identifier)
		}

	case cadence.TypeValue:
		if c.typeValuesByID {
			if ia, ib := safeID(a.StaticType), safeID(b.(cadence.TypeValue).StaticType); ia != ib {
				return fmt.Sprintf("%s.Type: type ID %s vs %s", path, ia, ib)
			}
			return ""
		}
		return c.typeFull(path+".Type", a.StaticType, b.(cadence.TypeValue).StaticType)

	case cadence.Function:
		bb := b.(cadence.Function)
		var ta, tb cadence.Type
		if a.FunctionType != nil {
			ta = a.FunctionType
		}
		if bb.FunctionType != nil {
			tb = bb.FunctionType
		}
		return c.typeFull(path+".Function", ta, tb)

	case cadence.Capability:
		bb := b.(cadence.Capability)
		if a.ID != bb.ID {
			return fmt.Sprintf("%s.Capability.id: %d vs %d", path, a.ID, bb.ID)
		}
		if a.Address != bb.Address {
			return fmt.Sprintf("%s.Capability.address: %x vs %x", path, a.Address, bb.Address)
		}
		if (a.DeprecatedPath == nil) != (bb.DeprecatedPath == nil) {
			return fmt.Sprintf("%s.Capability.path: presence differs", path)
		}
		if c.mode == cmpJSON {
			return c.typeFull(path+".Capability.borrowType", a.BorrowType, bb.BorrowType)
		}
		return c.typeInline(path+".Capability.borrowType", a.BorrowType, bb.BorrowType)

	default:
		ca, ok := compositeOf(a)
		if !ok {
			return c.scalar(path, a, b)
		}
		cb, _ := compositeOf(b)
		p := path + "." + ca.Kind
		if (ca.Type == nil) != (cb.Type == nil) {
			return fmt.Sprintf("%s.type: nil-ness differs", p)
		}
		if ca.Type == nil {
			return fmt.Sprintf("%s.type: composite value without type", p)
		}
		var fa, fb []cadence.Field
		fa, fb = fieldsOf(ca.Type), fieldsOf(cb.Type)
		if c.mode == cmpCCF {
			if d := c.typeInline(p+".type", ca.Type, cb.Type); d != "" {
				return d
			}
		} else {
			if ca.Type.ID() != cb.Type.ID() {
				return fmt.Sprintf("%s.type.id: %s vs %s", p, ca.Type.ID(), cb.Type.ID())
			}
			if !sameLocation(ca.Type, cb.Type) {
				return fmt.Sprintf("%s.type.location: location/qualified identifier differ for %s", p, ca.Type.ID())
			}
		}
		if len(ca.Values) != len(cb.Values) {
			return fmt.Sprintf("%s: %d vs %d field values", p, len(ca.Values), len(cb.Values))
		}
		if len(ca.Values) < len(fa) || len(cb.Values) < len(fb) {
			return fmt.Sprintf("%s: fewer field values than field types", p)
		}
		// named fields by name
		named := func(fs []cadence.Field, vs []cadence.Value) (map[string]cadence.Value, int) {
			m := map[string]cadence.Value{}
			n := 0
			for i, f := range fs {
				if i < len(vs) {
					m[f.Identifier] = vs[i]
					n++
				}
			}
			return m, n
		}
		ma, nfa := named(fa, ca.Values)
		mb, nfb := named(fb, cb.Values)
		if nfa != nfb || len(ma) != len(mb) {
			return fmt.Sprintf("%s: %d vs %d named fields", p, nfa, nfb)
		}
		for _, f := range fa {
			vb, ok := mb[f.Identifier]
			if !ok {
				return fmt.Sprintf("%s: field %q missing", p, f.Identifier)
			}
			if d := c.value(p+".field", ma[f.Identifier], vb); d != "" {
				return d
			}
		}
		// extra (attachment) values in order
		for i := nfa; i < len(ca.Values); i++ {
			if d := c.value(p+".extra", ca.Values[i], cb.Values[i]); d != "" {
				return d
			}
		}
	}
	return ""
}

func (c *comparer) scalar(path string, a, b cadence.Value) string {
	bad := func() string {
		return fmt.Sprintf("%s: %s vs %s", path, describeValue(a, 0), describeValue(b, 0))
	}
	switch a := a.(type) {
	case cadence.Void:
	case cadence.Bool:
		if a != b.(cadence.Bool) {
			return bad()
		}
	case cadence.String:
		if a != b.(cadence.String) {
			return bad()
		}
	case cadence.Character:
		if a != b.(cadence.Character) {
			return bad()
		}
	case cadence.Address:
		if a != b.(cadence.Address) {
			return bad()
		}
	case cadence.Int8, cadence.Int16, cadence.Int32, cadence.Int64, cadence.UInt8, cadence.UInt16, cadence.UInt32, cadence.UInt64,
		cadence.Word8, cadence.Word16, cadence.Word32, cadence.Word64, cadence.Fix64, cadence.UFix64, cadence.Fix128, cadence.UFix128:
		if a != b {
			return bad()
		}
	case cadence.Int:
		if a.Value.Cmp(b.(cadence.Int).Value) != 0 {
			return bad()
		}
	case cadence.Int128:
		if a.Value.Cmp(b.(cadence.Int128).Value) != 0 {
			return bad()
		}
	case cadence.Int256:
		if a.Value.Cmp(b.(cadence.Int256).Value) != 0 {
			return bad()
		}
	case cadence.UInt:
		if a.Value.Cmp(b.(cadence.UInt).Value) != 0 {
			return bad()
		}
	case cadence.UInt128:
		if a.Value.Cmp(b.(cadence.UInt128).Value) != 0 {
			return bad()
		}
	case cadence.UInt256:
		if a.Value.Cmp(b.(cadence.UInt256).Value) != 0 {
			return bad()
		}
	case cadence.Word128:
		if a.Value.Cmp(b.(cadence.Word128).Value) != 0 {
			return bad()
		}
	case cadence.Word256:
		if a.Value.Cmp(b.(cadence.Word256).Value) != 0 {
			return bad()
		}
	default:
		return fmt.Sprintf("%s: unsupported value kind %T", path, a)
	}
	return ""
}

// typeIDOf returns the ID of the value's type when the value carries complete type information.
func typeIDOf(v cadence.Value) (id string, ok bool) {
	defer func() {
		if r := recover(); r != nil {
			id, ok = "", false
		}
	}()
	if v == nil {
		return "", false
	}
	t := v.Type()
	if !typeComplete(t, 0) {
		return "", false
	}
	return t.ID(), true
}

func typeComplete(t cadence.Type, d int) bool {
	if isNilType(t) || d > 50 {
		return false
	}
	switch t := t.(type) {
	case *cadence.OptionalType:
		return typeComplete(t.Type, d+1)
	case *cadence.VariableSizedArrayType:
		return typeComplete(t.ElementType, d+1)
	case *cadence.ConstantSizedArrayType:
		return typeComplete(t.ElementType, d+1)
	case *cadence.DictionaryType:
		return typeComplete(t.KeyType, d+1) && typeComplete(t.ElementType, d+1)
	case *cadence.InclusiveRangeType:
		return typeComplete(t.ElementType, d+1)
	case *cadence.CapabilityType:
		return t.BorrowType == nil || typeComplete(t.BorrowType, d+1)
	case *cadence.ReferenceType:
		return t.Authorization != nil && typeComplete(t.Type, d+1)
	case *cadence.IntersectionType:
		for _, m := range t.Types {
			if !typeComplete(m, d+1) {
				return false
			}
		}
	case *cadence.FunctionType:
		for _, p := range t.Parameters {
			if !typeComplete(p.Type, d+1) {
				return false
			}
		}
		return typeComplete(t.ReturnType, d+1)
	}
	return true
}

// typeIDsAgree walks two decoded values in parallel and compares the type IDs of every pair of
// sub-values for which both sides carry complete type information.
func typeIDsAgree(path string, a, b cadence.Value, collapseNil bool) string {
	if a == nil || b == nil {
		return ""
	}
	ia, oka := typeIDOf(a)
	ib, okb := typeIDOf(b)
	if oka && okb && ia != ib {
		if !(collapseNil && nilChainDepth(a) > 0 && nilChainDepth(b) > 0) {
			return fmt.Sprintf("%s: type ID %s vs %s", path, ia, ib)
		}
	}
	switch a := a.(type) {
	case cadence.Optional:
		if bb, ok := b.(cadence.Optional); ok && nilChainDepth(a) == 0 && nilChainDepth(bb) == 0 {
			return typeIDsAgree(path+".Optional", a.Value, bb.Value, collapseNil)
		}
	case cadence.Array:
		if bb, ok := b.(cadence.Array); ok && len(a.Values) == len(bb.Values) {
			for i := range a.Values {
				if d := typeIDsAgree(path+".Array[]", a.Values[i], bb.Values[i], collapseNil); d != "" {
					return d
				}
			}
		}
	case cadence.Dictionary:
		if bb, ok := b.(cadence.Dictionary); ok {
			mb := map[string]cadence.KeyValuePair{}
			for _, p := range bb.Pairs {
				mb[dictKey(p.Key)] = p
			}
			for _, p := range a.Pairs {
				if q, ok := mb[dictKey(p.Key)]; ok {
					if d := typeIDsAgree(path+".Dictionary.key", p.Key, q.Key, collapseNil); d != "" {
						return d
					}
					if d := typeIDsAgree(path+".Dictionary.value", p.Value, q.Value, collapseNil); d != "" {
						return d
					}
				}
			}
		}
	default:
		ca, ok := compositeOf(a)
		if !ok || ca.Type == nil {
			return ""
		}
		cb, ok := compositeOf(b)
		if !ok || cb.Type == nil {
			return ""
		}
		fa, fb := fieldsOf(ca.Type), fieldsOf(cb.Type)
		mb := map[string]cadence.Value{}
		for i, f := range fb {
			if i < len(cb.Values) {
				mb[f.Identifier] = cb.Values[i]
			}
		}
		for i, f := range fa {
			if i < len(ca.Values) {
				if vb, ok := mb[f.Identifier]; ok {
					if d := typeIDsAgree(path+"."+ca.Kind+".field", ca.Values[i], vb, collapseNil); d != "" {
						return d
					}
				}
			}
		}
	}
	return ""
}
