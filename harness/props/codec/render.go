package codec

import (
	"fmt"
	"regexp"
	"sort"
	"strconv"
	"strings"

	"github.com/onflow/cadence"
)

// Renderings of types and values for witnesses, dictionary-key identity and violation keys.
// They read the Go data of the values directly (never the codecs, never Value.String()).

type typeRenderer struct {
	seen map[cadence.Type]bool
	sb   strings.Builder
	// brief: nominal types as Kind(ID) only
	brief bool
}

func describeType(t cadence.Type) string {
	r := &typeRenderer{seen: map[cadence.Type]bool{}}
	r.typ(t, 0)
	return r.sb.String()
}

func briefType(t cadence.Type) string {
	r := &typeRenderer{seen: map[cadence.Type]bool{}, brief: true}
	r.typ(t, 0)
	return r.sb.String()
}

func (r *typeRenderer) params(ps []cadence.Parameter, d int) {
	r.sb.WriteString("(")
	for i, p := range ps {
		if i > 0 {
			r.sb.WriteString(", ")
		}
		fmt.Fprintf(&r.sb, "%q %q: ", p.Label, p.Identifier)
		r.typ(p.Type, d+1)
	}
	r.sb.WriteString(")")
}

func describeAuth(a cadence.Authorization) string {
	switch a := a.(type) {
	case nil:
		return "auth(<nil>)"
	case cadence.Unauthorized:
		return ""
	case cadence.EntitlementMapAuthorization:
		return "auth(mapping " + string(a.TypeID) + ") "
	case *cadence.EntitlementSetAuthorization:
		sep := ", "
		if a.Kind == cadence.Disjunction {
			sep = " | "
		}
		parts := make([]string, len(a.Entitlements))
		for i, e := range a.Entitlements {
			parts[i] = string(e)
		}
		return "auth(" + strings.Join(parts, sep) + ") "
	}
	return fmt.Sprintf("auth(%T) ", a)
}

func (r *typeRenderer) typ(t cadence.Type, d int) {
	if d > 60 {
		r.sb.WriteString("…")
		return
	}
	switch t := t.(type) {
	case nil:
		r.sb.WriteString("<nil>")
	case cadence.PrimitiveType:
		r.sb.WriteString(safeID(t))
	case cadence.BytesType:
		r.sb.WriteString("Bytes")
	case cadence.TypeID:
		r.sb.WriteString("TypeID(" + string(t) + ")")
	case *cadence.OptionalType:
		r.sb.WriteString("(")
		r.typ(t.Type, d+1)
		r.sb.WriteString(")?")
	case *cadence.VariableSizedArrayType:
		r.sb.WriteString("[")
		r.typ(t.ElementType, d+1)
		r.sb.WriteString("]")
	case *cadence.ConstantSizedArrayType:
		r.sb.WriteString("[")
		r.typ(t.ElementType, d+1)
		r.sb.WriteString("; " + strconv.FormatUint(uint64(t.Size), 10) + "]")
	case *cadence.DictionaryType:
		r.sb.WriteString("{")
		r.typ(t.KeyType, d+1)
		r.sb.WriteString(": ")
		r.typ(t.ElementType, d+1)
		r.sb.WriteString("}")
	case *cadence.InclusiveRangeType:
		r.sb.WriteString("InclusiveRange<")
		r.typ(t.ElementType, d+1)
		r.sb.WriteString(">")
	case *cadence.FunctionType:
		if t.Purity == cadence.FunctionPurityView {
			r.sb.WriteString("view ")
		} else if t.Purity != cadence.FunctionPurityImpure {
			fmt.Fprintf(&r.sb, "purity%d ", t.Purity)
		}
		r.sb.WriteString("fun")
		if t.TypeParameters != nil {
			r.sb.WriteString("<")
			for i, tp := range t.TypeParameters {
				if i > 0 {
					r.sb.WriteString(", ")
				}
				r.sb.WriteString(tp.Name)
				if tp.TypeBound != nil {
					r.sb.WriteString(": ")
					r.typ(tp.TypeBound, d+1)
				}
			}
			r.sb.WriteString(">")
		}
		r.params(t.Parameters, d)
		r.sb.WriteString(": ")
		r.typ(t.ReturnType, d+1)
	case *cadence.ReferenceType:
		r.sb.WriteString(describeAuth(t.Authorization) + "&")
		r.typ(t.Type, d+1)
	case *cadence.DeprecatedReferenceType:
		fmt.Fprintf(&r.sb, "deprecated(auth=%v)&", t.Authorized)
		r.typ(t.Type, d+1)
	case *cadence.IntersectionType:
		r.sb.WriteString("{")
		for i, m := range t.Types {
			if i > 0 {
				r.sb.WriteString(", ")
			}
			r.typ(m, d+1)
		}
		r.sb.WriteString("}")
	case *cadence.CapabilityType:
		r.sb.WriteString("Capability<")
		r.typ(t.BorrowType, d+1)
		r.sb.WriteString(">")
	default:
		ni, ok := nominalOf(t)
		if !ok {
			fmt.Fprintf(&r.sb, "%T", t)
			return
		}
		if r.seen[t] || r.brief {
			r.sb.WriteString(ni.Kind + "(" + ni.ID + ")")
			return
		}
		r.seen[t] = true
		r.sb.WriteString(ni.Kind + " " + ni.ID)
		if ni.HasExtra {
			r.sb.WriteString(" <")
			r.typ(ni.Extra, d+1)
			r.sb.WriteString(">")
		}
		r.sb.WriteString(" {")
		for i, f := range ni.Fields {
			if i > 0 {
				r.sb.WriteString("; ")
			}
			r.sb.WriteString(f.Identifier + ": ")
			r.typ(f.Type, d+1)
		}
		if ni.Inits == nil {
			r.sb.WriteString("}")
			return
		}
		r.sb.WriteString("} inits[")
		for i, in := range ni.Inits {
			if i > 0 {
				r.sb.WriteString(", ")
			}
			r.params(in, d)
		}
		r.sb.WriteString("]")
	}
}

func safeID(t cadence.Type) (s string) {
	defer func() {
		if r := recover(); r != nil {
			s = fmt.Sprintf("<ID() panics: %v>", r)
		}
	}()
	if t == nil {
		return "<nil>"
	}
	return t.ID()
}

// describeValue renders a value with its full content. typeDetail 0: container and composite
// types by ID only; 1: with full types.
func describeValue(v cadence.Value, typeDetail int) string {
	var sb strings.Builder
	renderValue(&sb, v, typeDetail, 0)
	return sb.String()
}

func renderValue(sb *strings.Builder, v cadence.Value, td int, d int) {
	if d > 200 {
		sb.WriteString("…")
		return
	}
	ty := func(t cadence.Type) string {
		if td > 0 {
			return describeType(t)
		}
		return briefType(t)
	}
	switch v := v.(type) {
	case nil:
		sb.WriteString("<nil value>")
	case cadence.Void:
		sb.WriteString("Void")
	case cadence.Bool:
		fmt.Fprintf(sb, "Bool(%v)", bool(v))
	case cadence.String:
		fmt.Fprintf(sb, "String(%q)", string(v))
	case cadence.Character:
		fmt.Fprintf(sb, "Character(%q)", string(v))
	case cadence.Bytes:
		fmt.Fprintf(sb, "Bytes(%x)", []byte(v))
	case cadence.Address:
		fmt.Fprintf(sb, "Address(0x%x)", [8]byte(v))
	case cadence.Int:
		sb.WriteString("Int(" + v.Value.String() + ")")
	case cadence.Int8:
		fmt.Fprintf(sb, "Int8(%d)", int8(v))
	case cadence.Int16:
		fmt.Fprintf(sb, "Int16(%d)", int16(v))
	case cadence.Int32:
		fmt.Fprintf(sb, "Int32(%d)", int32(v))
	case cadence.Int64:
		fmt.Fprintf(sb, "Int64(%d)", int64(v))
	case cadence.Int128:
		sb.WriteString("Int128(" + v.Value.String() + ")")
	case cadence.Int256:
		sb.WriteString("Int256(" + v.Value.String() + ")")
	case cadence.UInt:
		sb.WriteString("UInt(" + v.Value.String() + ")")
	case cadence.UInt8:
		fmt.Fprintf(sb, "UInt8(%d)", uint8(v))
	case cadence.UInt16:
		fmt.Fprintf(sb, "UInt16(%d)", uint16(v))
	case cadence.UInt32:
		fmt.Fprintf(sb, "UInt32(%d)", uint32(v))
	case cadence.UInt64:
		fmt.Fprintf(sb, "UInt64(%d)", uint64(v))
	case cadence.UInt128:
		sb.WriteString("UInt128(" + v.Value.String() + ")")
	case cadence.UInt256:
		sb.WriteString("UInt256(" + v.Value.String() + ")")
	case cadence.Word8:
		fmt.Fprintf(sb, "Word8(%d)", uint8(v))
	case cadence.Word16:
		fmt.Fprintf(sb, "Word16(%d)", uint16(v))
	case cadence.Word32:
		fmt.Fprintf(sb, "Word32(%d)", uint32(v))
	case cadence.Word64:
		fmt.Fprintf(sb, "Word64(%d)", uint64(v))
	case cadence.Word128:
		sb.WriteString("Word128(" + v.Value.String() + ")")
	case cadence.Word256:
		sb.WriteString("Word256(" + v.Value.String() + ")")
	case cadence.Fix64:
		fmt.Fprintf(sb, "Fix64(raw %d)", int64(v))
	case cadence.UFix64:
		fmt.Fprintf(sb, "UFix64(raw %d)", uint64(v))
	case cadence.Fix128:
		fmt.Fprintf(sb, "Fix128(hi %#x lo %#x)", uint64(v.Hi), uint64(v.Lo))
	case cadence.UFix128:
		fmt.Fprintf(sb, "UFix128(hi %#x lo %#x)", uint64(v.Hi), uint64(v.Lo))
	case cadence.Optional:
		if v.Value == nil {
			sb.WriteString("nil")
			return
		}
		sb.WriteString("Some(")
		renderValue(sb, v.Value, td, d+1)
		sb.WriteString(")")
	case cadence.Array:
		var at cadence.Type
		if v.ArrayType != nil {
			at = v.ArrayType
		}
		sb.WriteString("Array<" + ty(at) + ">[")
		for i, e := range v.Values {
			if i > 0 {
				sb.WriteString(", ")
			}
			renderValue(sb, e, td, d+1)
		}
		sb.WriteString("]")
	case cadence.Dictionary:
		var dt cadence.Type
		if v.DictionaryType != nil {
			dt = v.DictionaryType
		}
		sb.WriteString("Dictionary<" + ty(dt) + ">{")
		for i, p := range v.Pairs {
			if i > 0 {
				sb.WriteString(", ")
			}
			renderValue(sb, p.Key, td, d+1)
			sb.WriteString(": ")
			renderValue(sb, p.Value, td, d+1)
		}
		sb.WriteString("}")
	case *cadence.InclusiveRange:
		if v == nil {
			sb.WriteString("<nil range>")
			return
		}
		var rt cadence.Type
		if v.InclusiveRangeType != nil {
			rt = v.InclusiveRangeType
		}
		sb.WriteString("Range<" + ty(rt) + ">(")
		renderValue(sb, v.Start, td, d+1)
		sb.WriteString(", ")
		renderValue(sb, v.End, td, d+1)
		sb.WriteString(", ")
		renderValue(sb, v.Step, td, d+1)
		sb.WriteString(")")
	case cadence.Path:
		fmt.Fprintf(sb, "Path(%d/%q)", v.Domain, v.Identifier)
	case cadence.TypeValue:
		sb.WriteString("Type<" + describeType(v.StaticType) + ">")
	case cadence.Capability:
		fmt.Fprintf(sb, "Capability(id %d, 0x%x, borrow ", uint64(v.ID), [8]byte(v.Address))
		sb.WriteString(describeType(v.BorrowType))
		if v.DeprecatedPath != nil {
			fmt.Fprintf(sb, ", path %d/%q", v.DeprecatedPath.Domain, v.DeprecatedPath.Identifier)
		}
		sb.WriteString(")")
	case cadence.Function:
		if v.FunctionType == nil {
			sb.WriteString("Function(<nil>)")
			return
		}
		sb.WriteString("Function(" + describeType(v.FunctionType) + ")")
	default:
		ci, ok := compositeOf(v)
		if !ok {
			fmt.Fprintf(sb, "%T", v)
			return
		}
		var fields []cadence.Field
		if ci.Type != nil {
			sb.WriteString(ci.Kind + " " + ty(ci.Type) + "{")
			fields = fieldsOf(ci.Type)
		} else {
			sb.WriteString(ci.Kind + " <untyped>{")
		}
		for i, fv := range ci.Values {
			if i > 0 {
				sb.WriteString(", ")
			}
			if i < len(fields) {
				sb.WriteString(fields[i].Identifier + ": ")
			} else {
				sb.WriteString("<extra>: ")
			}
			renderValue(sb, fv, td, d+1)
		}
		sb.WriteString("}")
	}
}

var (
	reHex    = regexp.MustCompile(`0x[0-9a-fA-F]+`)
	reLongHx = regexp.MustCompile(`[0-9a-f]{16,}`)
	reDigits = regexp.MustCompile(`[0-9]+`)
	reQuoted = regexp.MustCompile(`"(?:[^"\\]|\\.)*"`)
)

// normalizeKey strips run-specific content (numbers, addresses, quoted text) from a message so
// that it can serve as part of a violation key.
func normalizeKey(s string) string {
	s = reQuoted.ReplaceAllString(s, `"…"`)
	s = reHex.ReplaceAllString(s, "#")
	s = reLongHx.ReplaceAllString(s, "#")
	s = reDigits.ReplaceAllString(s, "#")
	s = strings.Join(strings.Fields(s), " ")
	if len(s) > 160 {
		s = s[:160]
	}
	return s
}

// valueKinds lists the value and type kinds occurring in a value (coverage counters).
func valueKinds(v cadence.Value, into map[string]bool) {
	switch v := v.(type) {
	case nil:
		return
	case cadence.Optional:
		if v.Value == nil {
			into["v:Optional(nil)"] = true
		} else {
			into["v:Optional(some)"] = true
			valueKinds(v.Value, into)
		}
	case cadence.Array:
		into["v:Array"] = true
		if v.ArrayType != nil {
			typeKinds(v.ArrayType, into, map[cadence.Type]bool{})
		}
		for _, e := range v.Values {
			valueKinds(e, into)
		}
	case cadence.Dictionary:
		into["v:Dictionary"] = true
		if v.DictionaryType != nil {
			typeKinds(v.DictionaryType, into, map[cadence.Type]bool{})
		}
		for _, p := range v.Pairs {
			valueKinds(p.Key, into)
			valueKinds(p.Value, into)
		}
	case *cadence.InclusiveRange:
		into["v:InclusiveRange"] = true
		valueKinds(v.Start, into)
	case cadence.TypeValue:
		into["v:Type"] = true
		typeKinds(v.StaticType, into, map[cadence.Type]bool{})
	case cadence.Capability:
		into["v:Capability"] = true
		typeKinds(v.BorrowType, into, map[cadence.Type]bool{})
	case cadence.Function:
		into["v:Function"] = true
		typeKinds(v.FunctionType, into, map[cadence.Type]bool{})
	case cadence.Path:
		into["v:Path"] = true
	default:
		if ci, ok := compositeOf(v); ok {
			into["v:"+ci.Kind] = true
			if ci.Type != nil {
				typeKinds(ci.Type, into, map[cadence.Type]bool{})
				if len(ci.Values) > len(fieldsOf(ci.Type)) {
					into["v:composite-with-attachment"] = true
				}
			}
			for _, f := range ci.Values {
				valueKinds(f, into)
			}
			return
		}
		if t := v.Type(); t != nil {
			into["v:"+safeID(t)] = true
		}
	}
}

func typeKinds(t cadence.Type, into map[string]bool, seen map[cadence.Type]bool) {
	if t == nil {
		into["t:nil"] = true
		return
	}
	into["t:"+typeKind(t)] = true
	switch t := t.(type) {
	case cadence.PrimitiveType:
		into["t:prim:"+safeID(t)] = true
	case *cadence.OptionalType:
		typeKinds(t.Type, into, seen)
	case *cadence.VariableSizedArrayType:
		typeKinds(t.ElementType, into, seen)
	case *cadence.ConstantSizedArrayType:
		typeKinds(t.ElementType, into, seen)
	case *cadence.DictionaryType:
		typeKinds(t.KeyType, into, seen)
		typeKinds(t.ElementType, into, seen)
	case *cadence.InclusiveRangeType:
		typeKinds(t.ElementType, into, seen)
	case *cadence.ReferenceType:
		typeKinds(t.Type, into, seen)
	case *cadence.CapabilityType:
		typeKinds(t.BorrowType, into, seen)
	case *cadence.IntersectionType:
		for _, m := range t.Types {
			typeKinds(m, into, seen)
		}
	case *cadence.FunctionType:
		for _, tp := range t.TypeParameters {
			if tp.TypeBound != nil {
				into["t:type-parameter-bound"] = true
				typeKinds(tp.TypeBound, into, seen)
			}
		}
		for _, p := range t.Parameters {
			typeKinds(p.Type, into, seen)
		}
		typeKinds(t.ReturnType, into, seen)
	default:
		ni, ok := nominalOf(t)
		if !ok {
			return
		}
		if seen[t] {
			into["t:recursive-or-repeated"] = true
			return
		}
		seen[t] = true
		if ni.HasExtra && ni.Extra != nil {
			typeKinds(ni.Extra, into, seen)
		}
		for _, f := range ni.Fields {
			typeKinds(f.Type, into, seen)
		}
		for _, in := range ni.Inits {
			for _, p := range in {
				typeKinds(p.Type, into, seen)
			}
		}
	}
}

func sortedKeys(m map[string]bool) []string {
	out := make([]string, 0, len(m))
	for k := range m {
		out = append(out, k)
	}
	sort.Strings(out)
	return out
}
