package codec

import (
	"encoding/hex"
	"encoding/json"
	"fmt"
	"hash/fnv"
	"math/rand/v2"
	"regexp"
	"runtime/debug"
	"strconv"
	"strings"

	"github.com/onflow/cadence"

	"verif/harness/core"
)

// failure is one observed disagreement with a property statement.
type failure struct {
	// Class: which leg failed and how (e.g. "json-decode-error").
	Class string
	// Detail: error text or difference path; normalised it forms the rest of the key.
	Detail string
	// Site, when set, replaces the JSON error path in the key: the construct of the innermost
	// enclosing nominal type in which the error position lies (fields, initializers, type).
	Site string
	// Extra goes into the witness only.
	Extra map[string]any
}

// generic path segments of the JSON decoder's error paths: they say where in the document the
// error is, not which construct is concerned.
var genericSegments = map[string]bool{"value": true, "type": true, "types": true, "fields": true, "key": true, "staticType": true,
	"borrowType": true, "functionType": true, "element": true, "return": true, "parameters": true, "": true}

// path components of the comparer that only say where a sub-value sits
var genericDiffParents = map[string]bool{"value": true, "field": true, "Array[]": true, "extra": true, "key": true, "start": true,
	"end": true, "step": true, "Optional": true, "Dictionary": true, "Struct": true, "Resource": true, "Event": true, "Contract": true,
	"Enum": true, "Attachment": true, "Type": true, "x": true, "Function": true, "Capability": true}

var (
	reTypeIDTok     = regexp.MustCompile(`\b(?:A|S|s|t|I)\.[A-Za-z0-9_]+(?:\.[A-Za-z0-9_]+)*|\bREPL\.[A-Za-z0-9_.]+`)
	reIndex         = regexp.MustCompile(`\[[0-9]*\]`)
	reTrailingNames = regexp.MustCompile(`\s*\([^()]*,[^()]*\)\s*$`)
	reSimpleTypeID  = regexp.MustCompile(`simple type ID ([0-9]+)`)
)

// keyDetail reduces a failure detail to the part that identifies the defect class: the message with
// type IDs, numbers and quoted text normalised; a JSON error path "(at .a.b[0].c)" reduced to its
// construct-specific segment (the first "initializers", else the last one); a difference path reduced to its last two components.
func keyDetail(d string) string {
	where := ""
	if i := strings.Index(d, " [at "); i >= 0 {
		d = d[:i]
	}
	if i := strings.Index(d, " (at "); i >= 0 {
		path := strings.TrimSuffix(d[i+5:], ")")
		d = d[:i]
		var segs []string
		for _, sg := range strings.Split(reIndex.ReplaceAllString(path, ""), ".") {
			if !genericSegments[sg] {
				segs = append(segs, sg)
			}
		}
		last := ""
		backRef := reTypeIDTok.MatchString(d)
		for _, sg := range segs {
			last = sg
			if sg == "initializers" && backRef {
				// an unresolved type-ID back-reference anywhere below an initializer list: the
				// construct concerned is the initializer list
				break
			}
		}
		where = " @" + last
	}
	if i := strings.Index(d, ": "); i >= 0 && !strings.Contains(d[:i], " ") {
		// difference path "a.b.c: x vs y"
		var parts []string
		for _, pc := range strings.Split(d[:i], ".") {
			if !genericDiffParents[pc] {
				parts = append(parts, pc)
			}
		}
		if len(parts) > 2 {
			parts = parts[len(parts)-2:]
		}
		if len(parts) == 0 {
			parts = []string{"value"}
		}
		d = strings.Join(parts, ".") + d[i:]
	}
	d = reTypeIDTok.ReplaceAllString(d, "<typeID>")
	// differences of identifiers: the identifiers themselves are run-specific
	if i := strings.Index(d, "id: "); i >= 0 && strings.Contains(d[i:], " vs ") {
		d = d[:i] + "id: <id> vs <id>"
	}
	// a trailing parenthesis quoting the offending names: "... are not sorted (aa, b)"
	d = reTrailingNames.ReplaceAllString(d, "")
	// messages that end in user-controlled text
	for _, marker := range []string{"found duplicate parameter label", "found duplicate parameter identifier", "found duplicate type parameter name"} {
		if i := strings.Index(d, marker); i >= 0 {
			d = d[:i+len(marker)]
		}
	}
	// the simple type ID is part of the defect's identity (51 = Function)
	keep := ""
	if m := reSimpleTypeID.FindStringSubmatch(d); m != nil {
		keep = " (simple type ID " + m[1] + ")"
	}
	return normalizeKey(d) + keep + where
}

func (f *failure) key() string {
	if f.Site != "" {
		d := f.Detail
		if i := strings.Index(d, " (at "); i >= 0 {
			d = d[:i]
		}
		return f.Class + ":" + keyDetail(d) + " @" + f.Site
	}
	return f.Class + ":" + keyDetail(f.Detail)
}

// jsonSiteOfPath walks a JSON-Cadence document along a decoder error path (".value.staticType.
// fields[0].type") and returns the key taken out of the innermost enclosing nominal type object
// ("fields", "initializers" or "type" for a raw/base type); "" when the path crosses no nominal type.
func jsonSiteOfPath(enc []byte, path string) string {
	var doc any
	if err := json.Unmarshal(enc, &doc); err != nil {
		return ""
	}
	nominalKinds := map[string]bool{"Struct": true, "Resource": true, "Event": true, "Contract": true, "Enum": true, "Attachment": true,
		"StructInterface": true, "ResourceInterface": true, "ContractInterface": true}
	site := ""
	cur := doc
	for _, seg := range strings.Split(strings.TrimPrefix(path, "."), ".") {
		name := seg
		var idx []int
		for {
			i := strings.Index(name, "[")
			if i < 0 {
				break
			}
			j := strings.Index(name[i:], "]")
			if j < 0 {
				break
			}
			n, _ := strconv.Atoi(name[i+1 : i+j])
			idx = append(idx, n)
			name = name[:i] + name[i+j+1:]
		}
		obj, ok := cur.(map[string]any)
		if !ok {
			return site
		}
		if k, _ := obj["kind"].(string); nominalKinds[k] {
			// the decoder reads initializers, then a raw/base type, then fields, whereas the encoder
			// writes fields first: the outermost early-read construct on the path is what matters
			switch {
			case name == "initializers" || site == "initializers":
				site = "initializers"
			case name == "type" || site == "type":
				site = "type"
			default:
				site = name
			}
		}
		cur = obj[name]
		for _, n := range idx {
			arr, ok := cur.([]any)
			if !ok || n >= len(arr) {
				return site
			}
			cur = arr[n]
		}
	}
	return site
}

// topBuilder builds the top-level value of a case from a tape.
type topBuilder func(t *tape) cadence.Value

func buildValue(t *tape, ccfDomain bool) cadence.Value {
	return buildPresentation(t, ccfDomain, nil)
}

// buildPresentation builds the value of a tape; with perm it builds a permuted presentation of the
// same logical value (see gen.perm).
func buildPresentation(t *tape, ccfDomain bool, perm *rand.Rand) cadence.Value {
	return buildPresentationMask(t, ccfDomain, perm, 0)
}

func buildPresentationMask(t *tape, ccfDomain bool, perm *rand.Rand, mask uint8) cadence.Value {
	g := newGen(t, ccfDomain)
	g.perm = perm
	g.permMask = mask
	depth := 1 + t.small(3)
	switch t.weighted(10, 5, 2, 1) {
	case 0:
		st := g.staticType(depth)
		return g.value(st, depth+1)
	case 1:
		if t.chance(g.rare, 100) {
			return cadence.TypeValue{}
		}
		return cadence.NewTypeValue(g.anyType(depth + 1))
	case 2:
		var bt cadence.Type
		if !t.chance(g.rare, 100) {
			bt = g.anyType(depth)
		}
		return cadence.NewCapability(cadence.UInt64(t.draw(1000)), g.address(), bt)
	default:
		return cadence.NewFunction(g.functionType(depth))
	}
}

// reporter de-duplicates failures per worker, shrinks the first occurrences of each signature and
// turns them into violations.
type reporter struct {
	c        *core.Ctx
	shrunk   map[string]int
	maxPerSg int
}

// shrunkByProp counts, per property and key, the failures already shrunk and reported by this
// worker process (cases of a worker run one after the other).
var shrunkByProp = map[string]map[string]int{}

func newReporter(c *core.Ctx) *reporter {
	m := shrunkByProp[c.Prop]
	if m == nil {
		m = map[string]int{}
		shrunkByProp[c.Prop] = m
	}
	return &reporter{c: c, shrunk: m, maxPerSg: 2}
}

func clipS(s string, n int) string {
	if len(s) > n {
		return s[:n] + "…"
	}
	return s
}

// report handles a failure found for the value built from choices. check re-runs the oracle on a
// rebuilt value and returns its failure (nil when it passes).
func (r *reporter) report(f *failure, choices []uint32, build topBuilder, check func(cadence.Value) *failure) {
	r.reportTape(f, choices, build, func(v cadence.Value, _ []uint32) *failure { return check(v) })
}

// reportTape is report for oracles that need the tape of the rebuilt value (e.g. to build a second
// presentation of it).
func (r *reporter) reportTape(f *failure, choices []uint32, build topBuilder, check func(cadence.Value, []uint32) *failure) {
	sg := f.key()
	r.c.Inc("failures_raw")
	if r.shrunk[sg] >= r.maxPerSg {
		r.c.Inc("failures_repeat_not_shrunk")
		return
	}
	r.shrunk[sg]++
	final := f
	res := shrinkTape(choices, build, func(v cadence.Value, canon []uint32) bool {
		g := check(v, canon)
		// the rebuilt value must fail in the same way (same key)
		if g == nil || g.key() != sg {
			return false
		}
		final = g
		return true
	}, 500)
	var v cadence.Value
	if res.Value != nil {
		v = res.Value
		if g := check(v, res.Choices); g != nil && g.key() == sg {
			final = g
		}
	} else {
		v, _ = safeBuild(build, choices)
	}
	w := map[string]any{
		"class":        final.Class,
		"detail":       clipS(final.Detail, 2000),
		"value":        clipS(describeValue(v, 1), 6000),
		"tape":         res.Choices,
		"shrink_evals": res.Evals,
	}
	for k, x := range final.Extra {
		w[k] = x
	}
	key := final.key()
	if strings.HasSuffix(final.Class, "-panic") {
		// the panic message alone does not tell different defects apart: add the shape of the
		// minimal value
		key += " in " + valueSkeleton(v)
	}
	if strings.HasSuffix(final.Class, "-decode-error") && strings.Contains(final.Detail, "type not found for CCF type ID") {
		// an unresolved back-reference: which construct holds it is only visible in the minimal value
		if strings.Contains(describeValue(v, 1), "Attachment ") {
			key += " in a value with an attachment type"
		} else {
			key += " in " + valueSkeleton(v)
		}
	}
	r.c.Violate(key, clipS(final.Class+": "+final.Detail+" — minimal value: "+describeValue(v, 1), 1500), w)
}

// valueSkeleton renders the kinds of a value without names, numbers or text.
func valueSkeleton(v cadence.Value) string {
	top := strings.TrimPrefix(goKind(v), "cadence.")
	if tv, ok := v.(cadence.TypeValue); ok {
		top = "Type<" + typeKindPlain(tv.StaticType) + ">"
	}
	m := map[string]bool{}
	valueKinds(v, m)
	var ks []string
	for _, k := range sortedKeys(m) {
		if strings.HasPrefix(k, "v:") && !strings.HasPrefix(k, "v:Optional") {
			ks = append(ks, strings.TrimPrefix(k, "v:"))
		}
	}
	return top + " with value kinds {" + strings.Join(ks, ",") + "}"
}

// targetedKey is the violation key of a failure found on a hand-built value.
func targetedKey(f *failure, name string) string {
	if strings.HasSuffix(f.Class, "-panic") {
		return f.key() + " in targeted:" + name
	}
	return f.key()
}

func hash64(b []byte) uint64 {
	h := fnv.New64a()
	_, _ = h.Write(b)
	return h.Sum64()
}

// protect runs f and converts an escaping Go panic into a failure of class cls+"-panic" keyed by
// the panic site.
func protect(cls string, f func()) (fail *failure) {
	defer func() {
		if r := recover(); r != nil {
			st := string(debug.Stack())
			fail = &failure{
				Class:  cls + "-panic",
				Detail: panicSite(st) + ": " + firstLine(clipS(fmt.Sprintf("%T: %v", r, r), 300)),
				Extra:  map[string]any{"stack": clipS(st, 5000)},
			}
		}
	}()
	f()
	return nil
}

func firstLine(s string) string {
	if i := strings.IndexAny(s, "\n"); i >= 0 {
		s = s[:i]
	}
	if i := strings.Index(s, " goroutine "); i >= 0 {
		s = s[:i]
	}
	return s
}

func hexClip(b []byte, n int) string {
	if len(b) > n {
		return hex.EncodeToString(b[:n]) + "…"
	}
	return hex.EncodeToString(b)
}

// countKinds adds the value/type kinds of v to the monitor counters.
func countKinds(c *core.Ctx, v cadence.Value) {
	m := map[string]bool{}
	valueKinds(v, m)
	for _, k := range sortedKeys(m) {
		if strings.HasPrefix(k, "t:prim:") {
			continue
		}
		c.Inc("kind_" + k)
	}
}

// libTypeAgreement checks the library's own notion of type equality between an original type and
// its decoded counterpart that the structural comparison found equal: same ID() and Equal() in
// both directions. It returns a description naming the smallest sub-term where Equal fails.
func libTypeAgreement(path string, a, b cadence.Type, seen map[[2]cadence.Type]bool) string {
	if isNilType(a) || isNilType(b) {
		return ""
	}
	if seen[[2]cadence.Type{a, b}] {
		return ""
	}
	seen[[2]cadence.Type{a, b}] = true
	ida, idb := safeID(a), safeID(b)
	if ida != idb {
		return fmt.Sprintf("%s: ID() %s vs %s", path, ida, idb)
	}
	eq1, eq2 := safeEqual(a, b), safeEqual(b, a)
	if eq1 == "true" && eq2 == "true" {
		return ""
	}
	// descend to the smallest failing sub-term
	var kids [][2]cadence.Type
	switch a := a.(type) {
	case *cadence.OptionalType:
		kids = append(kids, [2]cadence.Type{a.Type, b.(*cadence.OptionalType).Type})
	case *cadence.VariableSizedArrayType:
		kids = append(kids, [2]cadence.Type{a.ElementType, b.(*cadence.VariableSizedArrayType).ElementType})
	case *cadence.ConstantSizedArrayType:
		kids = append(kids, [2]cadence.Type{a.ElementType, b.(*cadence.ConstantSizedArrayType).ElementType})
	case *cadence.DictionaryType:
		bb := b.(*cadence.DictionaryType)
		kids = append(kids, [2]cadence.Type{a.KeyType, bb.KeyType}, [2]cadence.Type{a.ElementType, bb.ElementType})
	case *cadence.InclusiveRangeType:
		kids = append(kids, [2]cadence.Type{a.ElementType, b.(*cadence.InclusiveRangeType).ElementType})
	case *cadence.CapabilityType:
		kids = append(kids, [2]cadence.Type{a.BorrowType, b.(*cadence.CapabilityType).BorrowType})
	case *cadence.ReferenceType:
		kids = append(kids, [2]cadence.Type{a.Type, b.(*cadence.ReferenceType).Type})
	case *cadence.FunctionType:
		bb := b.(*cadence.FunctionType)
		for i := range a.Parameters {
			if i < len(bb.Parameters) {
				kids = append(kids, [2]cadence.Type{a.Parameters[i].Type, bb.Parameters[i].Type})
			}
		}
		for i := range a.TypeParameters {
			if i < len(bb.TypeParameters) {
				kids = append(kids, [2]cadence.Type{a.TypeParameters[i].TypeBound, bb.TypeParameters[i].TypeBound})
			}
		}
		kids = append(kids, [2]cadence.Type{a.ReturnType, bb.ReturnType})
	}
	for _, k := range kids {
		if d := libTypeAgreement(path+"."+typeKindPlain(a), k[0], k[1], seen); d != "" {
			return d
		}
	}
	detail := typeKindPlain(a)
	if it, ok := a.(*cadence.IntersectionType); ok && len(it.Types) > 0 {
		if _, isNominal := nominalOf(it.Types[0]); isNominal {
			detail += " with nominal (pointer) members"
		} else {
			detail += " with " + typeKindPlain(it.Types[0]) + " members"
		}
	}
	return fmt.Sprintf("%sType.Equal is %s / %s (original.Equal(decoded) / decoded.Equal(original)) for structurally equal types with equal ID() [at %s, ID %s]", detail, eq1, eq2, path, ida)
}

func safeEqual(a, b cadence.Type) (s string) {
	defer func() {
		if r := recover(); r != nil {
			s = fmt.Sprintf("panic(%v)", r)
		}
	}()
	return fmt.Sprint(a.Equal(b))
}

// embeddedTypePairs walks an original value and its decoded counterpart and calls f for every pair
// of types embedded in type values, capabilities and function values.
func embeddedTypePairs(a, b cadence.Value, f func(where string, ta, tb cadence.Type) string) string {
	if a == nil || b == nil || goKind(a) != goKind(b) {
		return ""
	}
	switch a := a.(type) {
	case cadence.TypeValue:
		return f("Type", a.StaticType, b.(cadence.TypeValue).StaticType)
	case cadence.Capability:
		return f("Capability.borrowType", a.BorrowType, b.(cadence.Capability).BorrowType)
	case cadence.Function:
		bb := b.(cadence.Function)
		if a.FunctionType != nil && bb.FunctionType != nil {
			return f("Function", a.FunctionType, bb.FunctionType)
		}
	case cadence.Optional:
		return embeddedTypePairs(a.Value, b.(cadence.Optional).Value, f)
	case cadence.Array:
		bb := b.(cadence.Array)
		for i := range a.Values {
			if i < len(bb.Values) {
				if d := embeddedTypePairs(a.Values[i], bb.Values[i], f); d != "" {
					return d
				}
			}
		}
	case cadence.Dictionary:
		bb := b.(cadence.Dictionary)
		mb := map[string]cadence.KeyValuePair{}
		for _, p := range bb.Pairs {
			mb[dictKey(p.Key)] = p
		}
		for _, p := range a.Pairs {
			if q, ok := mb[dictKey(p.Key)]; ok {
				if d := embeddedTypePairs(p.Key, q.Key, f); d != "" {
					return d
				}
				if d := embeddedTypePairs(p.Value, q.Value, f); d != "" {
					return d
				}
			}
		}
	default:
		ca, ok := compositeOf(a)
		if !ok || ca.Type == nil {
			return ""
		}
		cb, ok := compositeOf(b)
		if !ok || cb.Type == nil {
			return ""
		}
		fb := fieldsOf(cb.Type)
		mb := map[string]cadence.Value{}
		for i, fd := range fb {
			if i < len(cb.Values) {
				mb[fd.Identifier] = cb.Values[i]
			}
		}
		for i, fd := range fieldsOf(ca.Type) {
			if i < len(ca.Values) {
				if vb, ok := mb[fd.Identifier]; ok {
					if d := embeddedTypePairs(ca.Values[i], vb, f); d != "" {
						return d
					}
				}
			}
		}
	}
	return ""
}
