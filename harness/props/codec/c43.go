package codec

import (
	"github.com/onflow/cadence"
	"github.com/onflow/cadence/encoding/ccf"
	jsoncdc "github.com/onflow/cadence/encoding/json"

	"verif/harness/core"
)

// C43 — JSON-Cadence and CCF decode to the same value.

type crossResult struct {
	fail     *failure
	jsonLeg  bool // false: the JSON leg did not produce a decoded value (C41's business)
	ccfLeg   bool // false: the CCF leg did not produce a decoded value (C42's business)
	jsonEnc  []byte
	ccfEnc   []byte
	compared bool
}

func crossDecode(v cadence.Value) (res crossResult) {
	var jv, cv cadence.Value
	var err error
	if f := protect("json", func() {
		res.jsonEnc, err = jsoncdc.Encode(v)
		if err == nil {
			jv, err = jsoncdc.Decode(nil, res.jsonEnc)
		}
	}); f == nil && err == nil && jv != nil {
		res.jsonLeg = true
	}
	err = nil
	if f := protect("ccf", func() {
		res.ccfEnc, err = ccf.Encode(v)
		if err == nil {
			cv, err = ccf.Decode(nil, res.ccfEnc)
		}
	}); f == nil && err == nil && cv != nil {
		res.ccfLeg = true
	}
	if !res.jsonLeg || !res.ccfLeg {
		return
	}
	res.compared = true
	extra := func() map[string]any {
		return map[string]any{
			"json": clipS(string(res.jsonEnc), 5000), "ccf_hex": hexClip(res.ccfEnc, 3000),
			"decoded_from_json": clipS(describeValue(jv, 1), 5000), "decoded_from_ccf": clipS(describeValue(cv, 1), 5000),
		}
	}
	if d := newComparer(cmpCross).value("value", jv, cv); d != "" {
		res.fail = &failure{Class: "json-vs-ccf-value", Detail: d, Extra: extra()}
		return
	}
	if d := typeIDsAgree("value", jv, cv, true); d != "" {
		res.fail = &failure{Class: "json-vs-ccf-type-id", Detail: d, Extra: extra()}
		return
	}
	// both must also agree with the original on the type ID where the original carries it
	if d := typeIDsAgree("value", v, cv, true); d != "" {
		res.fail = &failure{Class: "original-vs-ccf-type-id", Detail: d, Extra: extra()}
		return
	}
	if d := typeIDsAgree("value", v, jv, true); d != "" {
		res.fail = &failure{Class: "original-vs-json-type-id", Detail: d, Extra: extra()}
	}
	return
}

func init() {
	core.Register(&core.Prop{
		ID:    "C43",
		Level: "exploration",
		Rule:  "each case generates fully typed values inside the domain of both codecs (generator of C41/C42) and compares the value decoded from the JSON-Cadence encoding with the value decoded from the CCF encoding: structurally (modulo the JSON-Cadence erasure) and by the type ID of every nested value for which both sides carry complete type information. Values for which one codec does not produce a decoded value are counted and left to C41/C42. Distinct by the FNV-64 hash of the JSON encoding",
		Assumptions: []string{
			"comparison: the harness' own structural comparison (eq.go) in cross mode: container element/key types ignored, composite types by kind, ID and field names, capability borrow types at the level CCF carries them, type values in full; dictionaries as maps, fields by name; Optional^k(nil) collapses",
			"type IDs are read with Value.Type().ID() of the decoded values",
		},
		NumCases: func(tier string) int {
			if tier == "thorough" {
				return 512
			}
			return 64
		},
		Floors: map[string]int64{
			"values": 4000, "compared": 3000, "agree": 3000, "type_ids_compared": 3000,
			"kind_v:Struct": 100, "kind_v:Resource": 40, "kind_v:Event": 40, "kind_v:Enum": 40, "kind_v:Array": 100, "kind_v:Dictionary": 100,
			"kind_v:Optional(nil)": 100, "kind_v:Optional(some)": 100, "kind_v:Path": 40, "kind_v:Type": 300, "kind_v:Capability": 100,
			"kind_v:InclusiveRange": 20, "kind_t:Function": 100, "kind_t:Intersection": 100, "kind_t:recursive-or-repeated": 40,
		},
		Run: func(c *core.Ctx) {
			rep := newReporter(c)
			n := c.Pick(400, 1200)
			build := func(t *tape) cadence.Value { return buildValue(t, true) }
			check := func(v cadence.Value) *failure { return crossDecode(v).fail }
			if c.Case == 0 {
				for _, nv := range targetedValues() {
					c.Eval(1)
					r := crossDecode(nv.Value)
					if r.fail != nil {
						w := map[string]any{"targeted": nv.Name, "value": clipS(describeValue(nv.Value, 1), 4000), "detail": r.fail.Detail}
						for k, x := range r.fail.Extra {
							w[k] = x
						}
						c.Violate(r.fail.key(), r.fail.Class+": "+r.fail.Detail+" — targeted value "+nv.Name, w)
					}
				}
			}
			for i := 0; i < n; i++ {
				t := newTape(c.Rng)
				v, finite := tryBuild(build, t)
				if !finite {
					c.Inc("no_finite_value_skipped")
					continue
				}
				c.Eval(1)
				c.Inc("values")
				countKinds(c, v)
				r := crossDecode(v)
				if r.jsonEnc != nil {
					c.DistinctHash(hash64(r.jsonEnc))
				}
				if !r.jsonLeg {
					c.Inc("json_leg_no_value")
				}
				if !r.ccfLeg {
					c.Inc("ccf_leg_no_value")
				}
				if !r.compared {
					continue
				}
				c.Inc("compared")
				if _, ok := typeIDOf(v); ok {
					c.Inc("type_ids_compared")
				}
				if r.fail != nil {
					rep.report(r.fail, t.choices(), build, check)
					continue
				}
				c.Inc("agree")
				if c.WantSample() && i%53 == 11 {
					c.Sample(map[string]any{"value": clipS(describeValue(v, 1), 400), "json": clipS(string(r.jsonEnc), 400), "ccf_hex": hexClip(r.ccfEnc, 200)})
				}
			}
		},
	})
}
