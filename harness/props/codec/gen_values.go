package codec

import (
	"fmt"
	"math/big"
	"strings"

	"github.com/onflow/cadence"
	"github.com/onflow/cadence/common"
	"github.com/onflow/cadence/fixedpoint"

	"verif/harness/num"
)

// ------------------------------------------------------------------ numbers

var intBoundaries = func() map[string][]*big.Int {
	m := map[string][]*big.Int{}
	for _, t := range num.IntTypes {
		bs := num.Boundary(t)
		// zero first: the simplest choice
		out := []*big.Int{big.NewInt(0)}
		for _, b := range bs {
			if b.Sign() != 0 {
				out = append(out, b)
			}
		}
		m[t.Name] = out
	}
	return m
}()

var fixBoundaries = func() map[string][]*big.Int {
	m := map[string][]*big.Int{}
	for _, t := range num.FixTypes {
		bs := num.FixBoundary(t)
		out := []*big.Int{big.NewInt(0)}
		for _, b := range bs {
			if b.Sign() != 0 {
				out = append(out, b)
			}
		}
		m[t.Name] = out
	}
	return m
}()

func (g *gen) bigFor(t num.IntType) *big.Int {
	bs := intBoundaries[t.Name]
	if !g.t.chance(1, 4) {
		return bs[g.t.draw(len(bs))]
	}
	// random magnitude
	bits := t.Bits
	if bits == 0 {
		bits = 64 * (1 + g.t.draw(5))
	}
	k := 1 + g.t.draw(bits)
	x := new(big.Int)
	for i := 0; i < (k+63)/64; i++ {
		x.Lsh(x, 64)
		x.Or(x, new(big.Int).SetUint64(g.t.u64()))
	}
	x.And(x, new(big.Int).Sub(new(big.Int).Lsh(big.NewInt(1), uint(k)), big.NewInt(1)))
	if t.Signed && g.t.chance(1, 2) {
		x.Neg(x)
	}
	if !t.InRange(x) {
		if t.Bits != 0 {
			x = t.Wrap(x)
		} else {
			x.Abs(x)
		}
	}
	return x
}

func (g *gen) rawFor(t num.FixType) *big.Int {
	bs := fixBoundaries[t.Name]
	if !g.t.chance(1, 4) {
		return bs[g.t.draw(len(bs))]
	}
	k := 1 + g.t.draw(t.Bits)
	x := new(big.Int)
	for i := 0; i < (k+63)/64; i++ {
		x.Lsh(x, 64)
		x.Or(x, new(big.Int).SetUint64(g.t.u64()))
	}
	x.And(x, new(big.Int).Sub(new(big.Int).Lsh(big.NewInt(1), uint(k)), big.NewInt(1)))
	if t.Signed && g.t.chance(1, 2) {
		x.Neg(x)
	}
	for !t.InRangeRaw(x) {
		x.Rsh(x, 1)
	}
	return x
}

func must[T any](v T, err error) T {
	if err != nil {
		panic(fmt.Sprintf("generator: %v", err))
	}
	return v
}

// makeInt builds the cadence integer value of the named type from its mathematical value.
func makeInt(name string, b *big.Int) cadence.Value {
	b = new(big.Int).Set(b)
	switch name {
	case "Int":
		return cadence.NewIntFromBig(b)
	case "Int8":
		return cadence.NewInt8(int8(b.Int64()))
	case "Int16":
		return cadence.NewInt16(int16(b.Int64()))
	case "Int32":
		return cadence.NewInt32(int32(b.Int64()))
	case "Int64":
		return cadence.NewInt64(b.Int64())
	case "Int128":
		return must(cadence.NewInt128FromBig(b))
	case "Int256":
		return must(cadence.NewInt256FromBig(b))
	case "UInt":
		return must(cadence.NewUIntFromBig(b))
	case "UInt8":
		return cadence.NewUInt8(uint8(b.Uint64()))
	case "UInt16":
		return cadence.NewUInt16(uint16(b.Uint64()))
	case "UInt32":
		return cadence.NewUInt32(uint32(b.Uint64()))
	case "UInt64":
		return cadence.NewUInt64(b.Uint64())
	case "UInt128":
		return must(cadence.NewUInt128FromBig(b))
	case "UInt256":
		return must(cadence.NewUInt256FromBig(b))
	case "Word8":
		return cadence.NewWord8(uint8(b.Uint64()))
	case "Word16":
		return cadence.NewWord16(uint16(b.Uint64()))
	case "Word32":
		return cadence.NewWord32(uint32(b.Uint64()))
	case "Word64":
		return cadence.NewWord64(b.Uint64())
	case "Word128":
		return must(cadence.NewWord128FromBig(b))
	case "Word256":
		return must(cadence.NewWord256FromBig(b))
	}
	panic("makeInt: " + name)
}

// makeFix builds the fixed-point value from the raw scaled integer.
func makeFix(name string, raw *big.Int) cadence.Value {
	switch name {
	case "Fix64":
		return cadence.Fix64(raw.Int64())
	case "UFix64":
		return cadence.UFix64(raw.Uint64())
	case "Fix128":
		return cadence.Fix128(fixedpoint.Fix128FromBigInt(new(big.Int).Set(raw)))
	case "UFix128":
		return cadence.UFix128(fixedpoint.UFix128FromBigInt(new(big.Int).Set(raw)))
	}
	panic("makeFix: " + name)
}

// ------------------------------------------------------------------ strings

var stringPool = []string{
	"", "a", "foo", "Hello, World!", "\"quoted\" \\ back", "line\nbreak\ttab\r", "\x00\x01\x1f", "<html>&amp;</html>",
	"  ", "\u00e9", "e\u0301", "\u65e5\u672c\u8a9e", "\U0001F468\u200d\U0001F469\u200d\U0001F467\u200d\U0001F466", "\U0001F1E9\U0001F1EA\U0001F1EB\U0001F1F7",
	"\ufffd", "\U0010ffff", "a\u0300\u0301\u0302", " leading and trailing ",
	"0x1", "null", "{\"type\":\"Int\",\"value\":\"1\"}", "\u2028\u2029", "\ufeffbom", "\u03a9\u2248\u00e7\u221a\u222b", "\u200d",
	strings.Repeat("x", 300), strings.Repeat("\U0001F642", 70),
	"/", "\\u0041", "\x7f", "\u0080", "\ud7ff", "\ue000", "\u0000\u0000",
}

var characterPool = []string{"a", "Z", "0", " ", "\n", "\x00", "\"", "\\", "\u00e9", "e\u0301", "\u65e5",
	"\U0001F468\u200d\U0001F469\u200d\U0001F467\u200d\U0001F466", "\U0001F1E9\U0001F1EA", "\ufffd", "\U0010ffff", "\u2028", "<", "\r\n", "a\u0300\u0301"}

var pathIdentifiers = []string{"foo", "a", "flowTokenVault", "x_1", "", "with space", "\u00e9", "foo.bar", "\"q\"", "\U0001F642", strings.Repeat("p", 200)}

func (g *gen) str() string {
	if g.t.chance(1, 8) {
		// concatenation of pool entries
		return stringPool[g.t.draw(len(stringPool))] + stringPool[g.t.draw(len(stringPool))]
	}
	return stringPool[g.t.draw(len(stringPool))]
}

// ------------------------------------------------------------------ values

func (g *gen) address() cadence.Address {
	if g.t.chance(1, 3) {
		var b [8]byte
		u := g.t.u64()
		for i := range b {
			b[i] = byte(u >> (8 * i))
		}
		return cadence.NewAddress(b)
	}
	return cadence.NewAddress(addrPool[g.t.draw(len(addrPool))])
}

func (g *gen) path(domains ...common.PathDomain) cadence.Path {
	return cadence.Path{Domain: domains[g.t.draw(len(domains))], Identifier: pathIdentifiers[g.t.draw(len(pathIdentifiers))]}
}

func (g *gen) primValue(t cadence.PrimitiveType, depth int) cadence.Value {
	name := t.ID()
	for _, it := range num.IntTypes {
		if it.Name == name {
			return makeInt(name, g.bigFor(it))
		}
	}
	for _, ft := range num.FixTypes {
		if ft.Name == name {
			return makeFix(name, g.rawFor(ft))
		}
	}
	switch t {
	case cadence.StringType:
		return cadence.String(g.str())
	case cadence.CharacterType:
		return cadence.Character(characterPool[g.t.draw(len(characterPool))])
	case cadence.BoolType:
		return cadence.Bool(g.t.draw(2) == 1)
	case cadence.AddressType:
		return g.address()
	case cadence.VoidType:
		return cadence.Void{}
	case cadence.StoragePathType:
		return g.path(common.PathDomainStorage)
	case cadence.PublicPathType:
		return g.path(common.PathDomainPublic)
	case cadence.PrivatePathType:
		return g.path(common.PathDomainPrivate)
	case cadence.PathType:
		return g.path(common.PathDomainStorage, common.PathDomainPublic, common.PathDomainPrivate)
	case cadence.CapabilityPathType:
		return g.path(common.PathDomainPublic, common.PathDomainPrivate)
	case cadence.MetaType:
		if g.t.chance(g.rare, 100) {
			return cadence.TypeValue{}
		}
		return cadence.NewTypeValue(g.anyType(depth))
	case cadence.NumberType:
		if g.t.chance(1, 3) {
			return g.value(fixedPointPrims[g.t.draw(len(fixedPointPrims))], depth)
		}
		return g.value(integerPrims[g.t.draw(len(integerPrims))], depth)
	case cadence.SignedNumberType:
		if g.t.chance(1, 3) {
			return g.value(signedFixedPointPrims[g.t.draw(len(signedFixedPointPrims))], depth)
		}
		return g.value(signedIntegerPrims[g.t.draw(len(signedIntegerPrims))], depth)
	case cadence.IntegerType:
		return g.value(integerPrims[g.t.draw(len(integerPrims))], depth)
	case cadence.SignedIntegerType:
		return g.value(signedIntegerPrims[g.t.draw(len(signedIntegerPrims))], depth)
	case cadence.FixedSizeUnsignedIntegerType:
		return g.value(fixedSizeUnsignedPrims[g.t.draw(len(fixedSizeUnsignedPrims))], depth)
	case cadence.FixedPointType:
		return g.value(fixedPointPrims[g.t.draw(len(fixedPointPrims))], depth)
	case cadence.SignedFixedPointType:
		return g.value(signedFixedPointPrims[g.t.draw(len(signedFixedPointPrims))], depth)
	case cadence.HashableStructType:
		return g.value(g.keyTypeConcrete(depth), depth)
	case cadence.AnyStructType, cadence.AnyType:
		return g.value(g.staticType(min(depth-1, 2)), depth-1)
	case cadence.AnyResourceType:
		if depth <= 0 {
			return g.value(g.leafNominal(nkResource).typ, depth-1)
		}
		switch g.t.weighted(5, 1, 1) {
		case 0:
			return g.value(g.pickNominal(depth-1, true, nkResource).typ, depth-1)
		case 1:
			g.wrapCount++
			et := g.pickNominal(depth-1, true, nkResource).typ
			g.wrapCount--
			return g.value(cadence.NewVariableSizedArrayType(et), depth-1)
		default:
			g.wrapCount++
			et := g.pickNominal(depth-1, true, nkResource).typ
			g.wrapCount--
			return g.value(cadence.NewOptionalType(et), depth-1)
		}
	case cadence.AnyStructAttachmentType, cadence.AnyResourceAttachmentType:
		return g.value(g.nominalForSlot(depth, nkAttachment).typ, depth-1)
	}
	panic("primValue: no value for static type " + name)
}

// nominalForSlot picks the concrete composite type for a value in an abstract or interface-typed
// slot. When the depth budget is used up it returns a field-less leaf type, so that a composite
// whose own field has an interface type cannot contain itself without end.
func (g *gen) nominalForSlot(depth int, kind nomKind) *nominal {
	if depth <= 0 {
		return g.leafNominal(kind)
	}
	return g.pickNominal(depth-1, true, kind)
}

func (g *gen) leafNominal(kind nomKind) *nominal {
	if g.leaves == nil {
		g.leaves = map[nomKind]*nominal{}
	}
	if n, ok := g.leaves[kind]; ok {
		return n
	}
	loc, prefix := g.location()
	qi := g.freshQualifiedName(prefix)
	n := &nominal{kind: kind, done: true, fields: []cadence.Field{}}
	switch kind {
	case nkStruct:
		n.typ = cadence.NewStructType(loc, qi, n.fields, nil)
	case nkResource:
		n.typ = cadence.NewResourceType(loc, qi, n.fields, nil)
	case nkContract:
		n.typ = cadence.NewContractType(loc, qi, n.fields, nil)
	case nkAttachment:
		n.typ = cadence.NewAttachmentType(loc, qi, cadence.AnyStructType, n.fields, nil)
	default:
		panic("leafNominal: kind")
	}
	g.noms = append(g.noms, n)
	g.byType[n.typ] = n
	g.leaves[kind] = n
	return n
}

func (g *gen) keyTypeConcrete(depth int) cadence.Type {
	if depth > 0 && g.t.chance(1, 6) {
		return g.pickNominal(depth-1, true, nkEnum).typ
	}
	return hashablePrims[g.t.draw(len(hashablePrims))]
}

// nilOf returns the nil value for an optional static type. Two presentations exist for nested
// optionals: the single Optional{nil} (what the runtime exports) and the one nested to the depth of
// the static type (what the CCF decoder builds).
func (g *gen) nilOf(t *cadence.OptionalType) cadence.Value {
	v := cadence.NewOptional(nil)
	if g.t.chance(1, 3) {
		for {
			inner, ok := t.Type.(*cadence.OptionalType)
			if !ok {
				break
			}
			v = cadence.NewOptional(v)
			t = inner
		}
	}
	return v
}

// value produces a value whose run-time type is a subtype of the static type t, carrying complete
// type information.
func (g *gen) value(t cadence.Type, depth int) cadence.Value {
	if depth < -48 {
		// a composite type that (mutually) contains itself without an optional / container in
		// between has no finite value
		panic(noFiniteValue{})
	}
	switch t := t.(type) {
	case cadence.PrimitiveType:
		return g.primValue(t, depth)

	case *cadence.OptionalType:
		if depth <= 0 || g.t.chance(1, 3) {
			return g.nilOf(t)
		}
		return cadence.NewOptional(g.value(t.Type, depth-1))

	case *cadence.VariableSizedArrayType:
		n := 0
		if depth > 0 {
			n = g.t.small(4)
		}
		vs := make([]cadence.Value, n)
		for i := range vs {
			vs[i] = g.value(t.ElementType, depth-1)
		}
		return cadence.NewArray(vs).WithType(g.maybeNarrowArray(t, vs))

	case *cadence.ConstantSizedArrayType:
		vs := make([]cadence.Value, t.Size)
		for i := range vs {
			vs[i] = g.value(t.ElementType, depth-1)
		}
		return cadence.NewArray(vs).WithType(t)

	case *cadence.DictionaryType:
		n := 0
		if depth > 0 {
			n = g.t.small(4)
		}
		var pairs []cadence.KeyValuePair
		seen := map[string]bool{}
		for i := 0; i < n; i++ {
			k := g.value(t.KeyType, depth-1)
			ks := keyString(k)
			if seen[ks] {
				continue
			}
			seen[ks] = true
			pairs = append(pairs, cadence.KeyValuePair{Key: k, Value: g.value(t.ElementType, depth-1)})
		}
		if pairs == nil {
			pairs = []cadence.KeyValuePair{}
		}
		g.shuffle(permDict, len(pairs), func(i, j int) { pairs[i], pairs[j] = pairs[j], pairs[i] })
		return cadence.NewDictionary(pairs).WithType(t)

	case *cadence.InclusiveRangeType:
		return cadence.NewInclusiveRange(
			g.value(t.ElementType, depth-1),
			g.value(t.ElementType, depth-1),
			g.value(t.ElementType, depth-1),
		).WithType(t)

	case *cadence.StructType:
		fs := g.fieldValues(t, depth)
		if !g.ccf && g.t.chance(g.rare, 100) {
			// an attachment hung on the value: exported as an extra, unnamed field value
			fs = append(fs, g.value(g.nominalForSlot(depth, nkAttachment).typ, depth-1))
		}
		return cadence.NewStruct(fs).WithType(t)
	case *cadence.ResourceType:
		return cadence.NewResource(g.fieldValues(t, depth)).WithType(t)
	case *cadence.EventType:
		return cadence.NewEvent(g.fieldValues(t, depth)).WithType(t)
	case *cadence.ContractType:
		return cadence.NewContract(g.fieldValues(t, depth)).WithType(t)
	case *cadence.EnumType:
		return cadence.NewEnum(g.fieldValues(t, depth)).WithType(t)
	case *cadence.AttachmentType:
		return cadence.NewAttachment(g.fieldValues(t, depth)).WithType(t)

	case *cadence.StructInterfaceType:
		return g.value(g.nominalForSlot(depth, nkStruct).typ, depth-1)
	case *cadence.ResourceInterfaceType:
		return g.value(g.nominalForSlot(depth, nkResource).typ, depth-1)
	case *cadence.ContractInterfaceType:
		return g.value(g.nominalForSlot(depth, nkContract).typ, depth-1)
	case *cadence.IntersectionType:
		if len(t.Types) > 0 {
			return g.value(t.Types[0], depth)
		}
		return g.value(cadence.AnyStructType, depth)

	case *cadence.ReferenceType:
		return g.value(t.Type, depth)

	case *cadence.CapabilityType:
		bt := t.BorrowType
		if bt == nil && !g.t.chance(1, 4) {
			bt = cadence.NewReferenceType(g.authorization(), g.anyType(depth-1))
		}
		return cadence.NewCapability(cadence.UInt64(g.bigFor(num.IntTypeByName("UInt64")).Uint64()), g.address(), bt)

	case *cadence.FunctionType:
		return cadence.NewFunction(t)
	}
	panic(fmt.Sprintf("value: no value for static type %T", t))
}

// maybeNarrowArray sometimes types an array value with a proper subtype of its slot's static type
// (arrays are covariant: an [Int] value can sit in an [AnyStruct] slot and keeps its own type).
func (g *gen) maybeNarrowArray(t *cadence.VariableSizedArrayType, vs []cadence.Value) cadence.ArrayType {
	if len(vs) == 0 || !g.t.chance(g.rare, 100) {
		return t
	}
	first := vs[0].Type()
	if first == nil || first.Equal(t.ElementType) {
		return t
	}
	for _, v := range vs[1:] {
		if vt := v.Type(); vt == nil || !vt.Equal(first) {
			return t
		}
	}
	return cadence.NewVariableSizedArrayType(first)
}

// fieldValues generates the field values of a composite in the generation order of its fields and
// places them at the positions the (possibly permuted) type definition gives them.
func (g *gen) fieldValues(t cadence.CompositeType, depth int) []cadence.Value {
	fields := fieldsOf(t)
	out := make([]cadence.Value, len(fields))
	if n := g.byType[t]; n != nil && len(n.pos) == len(fields) {
		for _, p := range n.pos {
			out[p] = g.value(fields[p].Type, depth-1)
		}
		return out
	}
	for i, f := range fields {
		out[i] = g.value(f.Type, depth-1)
	}
	return out
}

// keyString is a canonical rendering of a dictionary key used to keep generated keys distinct and
// to compare dictionaries as maps (kind + content; independent of the codecs).
func keyString(v cadence.Value) string {
	return describeValue(v, 0)
}

// noFiniteValue is raised by value() for generated types that have no finite value.
type noFiniteValue struct{}

// tryBuild runs build; ok is false when the generated type has no finite value.
func tryBuild(build func(*tape) cadence.Value, t *tape) (v cadence.Value, ok bool) {
	defer func() {
		if r := recover(); r != nil {
			if _, is := r.(noFiniteValue); is {
				v, ok = nil, false
				return
			}
			panic(r)
		}
	}()
	return build(t), true
}
