package codec

import (
	"fmt"
	"math/big"
	"strings"

	"github.com/onflow/cadence"
	"github.com/onflow/cadence/common"
	"github.com/onflow/cadence/encoding/ccf"
	jsoncdc "github.com/onflow/cadence/encoding/json"

	"verif/harness/core"
	"verif/harness/host"
	"verif/harness/num"
)

// C29 — entry-point arguments are validated against parameter types.

// ------------------------------------------------------------------ the declared world

const c29Contract = `
access(all) contract C0 {
    access(all) struct S {
        access(all) let a: Int
        access(all) let b: String
        init(a: Int, b: String) { self.a = a; self.b = b }
    }
    access(all) struct T {
        access(all) let s: S
        access(all) let xs: [Int8]
        access(all) let o: UInt8?
        init(s: S, xs: [Int8], o: UInt8?) { self.s = s; self.xs = xs; self.o = o }
    }
    access(all) struct interface SI {
        access(all) let a: Int
    }
    access(all) struct U: SI {
        access(all) let a: Int
        init(a: Int) { self.a = a }
    }
    access(all) enum E: UInt8 {
        access(all) case a
        access(all) case b
        access(all) case c
    }
    access(all) struct Rec {
        access(all) let next: [Rec]
        access(all) let d: {String: Int}
        init(next: [Rec], d: {String: Int}) { self.next = next; self.d = d }
    }
    access(all) struct WithAny {
        access(all) let v: AnyStruct
        access(all) let k: {E: Fix64}
        init(v: AnyStruct, k: {E: Fix64}) { self.v = v; self.k = k }
    }
    access(all) struct Empty {
        init() {}
    }
    access(all) resource R {
        access(all) let x: Int
        init(x: Int) { self.x = x }
    }
    access(all) event Ev(x: Int)
    access(all) fun createR(): @R { return <- create R(x: 1) }
    init() {}
}
`

type ptKind int

const (
	pkPrim     ptKind = iota // concrete primitive with values of exactly that type
	pkAbstract               // AnyStruct, HashableStruct, Number, ...
	pkOpt
	pkVArr
	pkCArr
	pkDict
	pkNominal // struct or enum of the prelude
	pkIface   // C0.SI
	pkInter   // {C0.SI}
	pkRange
	pkCap    // Capability<&Int>: importable as a type, no importable values
	pkNonImp // parameter types that are not importable at all (checker rejects the entry point)
)

type ptype struct {
	kind ptKind
	name string
	elem *ptype
	key  *ptype
	size int
	nom  *pnominal
}

type pfield struct {
	name string
	typ  *ptype
}

type pnominal struct {
	name   string // "S"
	kind   string // Struct | Enum | Resource | Event
	fields []pfield
	ifaces []string
	cases  int
	typ    cadence.CompositeType
}

var c29Addr = common.Address{0, 0, 0, 0, 0, 0, 0, 1}
var c29Loc = common.AddressLocation{Address: c29Addr, Name: "C0"}

func prim(name string) *ptype     { return &ptype{kind: pkPrim, name: name} }
func abstract(name string) *ptype { return &ptype{kind: pkAbstract, name: name} }
func opt(t *ptype) *ptype         { return &ptype{kind: pkOpt, elem: t} }
func varr(t *ptype) *ptype        { return &ptype{kind: pkVArr, elem: t} }
func dict(k, v *ptype) *ptype     { return &ptype{kind: pkDict, key: k, elem: v} }

var c29Noms = func() map[string]*pnominal {
	m := map[string]*pnominal{}
	def := func(n *pnominal) *pnominal { m[n.name] = n; return n }
	S := def(&pnominal{name: "S", kind: "Struct", fields: []pfield{{"a", prim("Int")}, {"b", prim("String")}}})
	def(&pnominal{name: "T", kind: "Struct", fields: []pfield{
		{"s", &ptype{kind: pkNominal, nom: S}}, {"xs", varr(prim("Int8"))}, {"o", opt(prim("UInt8"))}}})
	def(&pnominal{name: "U", kind: "Struct", fields: []pfield{{"a", prim("Int")}}, ifaces: []string{"SI"}})
	E := def(&pnominal{name: "E", kind: "Enum", fields: []pfield{{"rawValue", prim("UInt8")}}, cases: 3})
	rec := def(&pnominal{name: "Rec", kind: "Struct"})
	rec.fields = []pfield{{"next", varr(&ptype{kind: pkNominal, nom: rec})}, {"d", dict(prim("String"), prim("Int"))}}
	def(&pnominal{name: "WithAny", kind: "Struct", fields: []pfield{{"v", abstract("AnyStruct")}, {"k", dict(&ptype{kind: pkNominal, nom: E}, prim("Fix64"))}}})
	def(&pnominal{name: "Empty", kind: "Struct"})
	def(&pnominal{name: "R", kind: "Resource", fields: []pfield{{"x", prim("Int")}}})
	def(&pnominal{name: "Ev", kind: "Event", fields: []pfield{{"x", prim("Int")}}})
	// cadence types (fields filled afterwards: Rec is recursive)
	for _, n := range m {
		fs := make([]cadence.Field, len(n.fields))
		qi := "C0." + n.name
		switch n.kind {
		case "Struct":
			n.typ = cadence.NewStructType(c29Loc, qi, fs, nil)
		case "Enum":
			n.typ = cadence.NewEnumType(c29Loc, qi, cadence.UInt8Type, fs, nil)
		case "Resource":
			n.typ = cadence.NewResourceType(c29Loc, qi, fs, nil)
		case "Event":
			n.typ = cadence.NewEventType(c29Loc, qi, fs, nil)
		}
	}
	for _, n := range m {
		fs := fieldsOf(n.typ)
		for i, f := range n.fields {
			fs[i] = cadence.Field{Identifier: f.name, Type: f.typ.cadenceType()}
		}
	}
	return m
}()

func nominalT(name string) *ptype { return &ptype{kind: pkNominal, nom: c29Noms[name]} }

var c29SIType = cadence.NewStructInterfaceType(c29Loc, "C0.SI", []cadence.Field{{Identifier: "a", Type: cadence.IntType}}, nil)

var primByName = func() map[string]cadence.Type {
	m := map[string]cadence.Type{}
	for _, t := range concreteValuePrims {
		m[t.ID()] = t
	}
	for _, t := range abstractPrims {
		m[t.ID()] = t
	}
	m["Path"] = cadence.PathType
	m["CapabilityPath"] = cadence.CapabilityPathType
	return m
}()

func (t *ptype) src() string {
	switch t.kind {
	case pkPrim, pkAbstract, pkNonImp:
		return t.name
	case pkOpt:
		return "(" + t.elem.src() + ")?"
	case pkVArr:
		return "[" + t.elem.src() + "]"
	case pkCArr:
		return fmt.Sprintf("[%s; %d]", t.elem.src(), t.size)
	case pkDict:
		return "{" + t.key.src() + ": " + t.elem.src() + "}"
	case pkNominal:
		return "C0." + t.nom.name
	case pkIface:
		return "{C0.SI}"
	case pkInter:
		return "{C0.SI}"
	case pkRange:
		return "InclusiveRange<" + t.elem.src() + ">"
	case pkCap:
		return "Capability<&Int>"
	}
	return "?"
}

func (t *ptype) cadenceType() cadence.Type {
	switch t.kind {
	case pkPrim, pkAbstract:
		if ct, ok := primByName[t.name]; ok {
			return ct
		}
		panic("c29: no cadence type for " + t.name)
	case pkOpt:
		return cadence.NewOptionalType(t.elem.cadenceType())
	case pkVArr:
		return cadence.NewVariableSizedArrayType(t.elem.cadenceType())
	case pkCArr:
		return cadence.NewConstantSizedArrayType(uint(t.size), t.elem.cadenceType())
	case pkDict:
		return cadence.NewDictionaryType(t.key.cadenceType(), t.elem.cadenceType())
	case pkNominal:
		return t.nom.typ
	case pkIface, pkInter:
		return cadence.NewIntersectionType([]cadence.Type{c29SIType})
	case pkRange:
		return cadence.NewInclusiveRangeType(t.elem.cadenceType())
	case pkCap:
		return cadence.NewCapabilityType(cadence.NewReferenceType(cadence.UnauthorizedAccess, cadence.IntType))
	}
	return cadence.AnyStructType
}

var c29ConcretePrims = []string{"Int", "String", "Bool", "Address", "UFix64", "Int8", "Int16", "Int32", "Int64", "Int128", "Int256",
	"UInt", "UInt8", "UInt16", "UInt32", "UInt64", "UInt128", "UInt256", "Word8", "Word16", "Word32", "Word64", "Word128", "Word256",
	"Fix64", "Fix128", "UFix128", "Character", "StoragePath", "PublicPath", "PrivatePath", "Type"}

var c29Abstracts = []string{"AnyStruct", "HashableStruct", "Number", "SignedNumber", "Integer", "SignedInteger", "FixedSizeUnsignedInteger",
	"FixedPoint", "SignedFixedPoint", "Path", "CapabilityPath"}

var c29HashableKeys = []string{"String", "Int", "Bool", "Address", "Character", "UInt8", "Int64", "Word16", "UFix64", "Fix64", "StoragePath", "PublicPath", "UInt256", "Type"}

var c29NonImportable = []string{"@C0.R", "&Int", "fun(): Void", "@AnyResource", "&C0.S", "@[C0.R]", "C0.Ev"}

func numericMembers(abstractName string) []string {
	var out []string
	for _, it := range num.IntTypes {
		signedInt := it.Signed
		fixedUnsigned := !it.Signed && it.Bits != 0
		switch abstractName {
		case "Number", "Integer", "AnyStruct", "HashableStruct":
			out = append(out, it.Name)
		case "SignedNumber", "SignedInteger":
			if signedInt {
				out = append(out, it.Name)
			}
		case "FixedSizeUnsignedInteger":
			if fixedUnsigned {
				out = append(out, it.Name)
			}
		}
	}
	for _, ft := range num.FixTypes {
		switch abstractName {
		case "Number", "FixedPoint", "AnyStruct", "HashableStruct":
			out = append(out, ft.Name)
		case "SignedNumber", "SignedFixedPoint":
			if ft.Signed {
				out = append(out, ft.Name)
			}
		}
	}
	return out
}

func contains(xs []string, s string) bool {
	for _, x := range xs {
		if x == s {
			return true
		}
	}
	return false
}

// ------------------------------------------------------------------ generation of parameter types and arguments

type c29gen struct {
	g *gen
	t *tape
}

func (cg *c29gen) paramType(depth int) *ptype {
	t := cg.t
	if depth <= 0 {
		if t.chance(1, 4) {
			return abstract(c29Abstracts[t.draw(len(c29Abstracts))])
		}
		return prim(c29ConcretePrims[t.draw(len(c29ConcretePrims))])
	}
	switch t.weighted(8, 4, 4, 3, 1, 3, 6, 2, 1, 1, 1) {
	case 0:
		return prim(c29ConcretePrims[t.draw(len(c29ConcretePrims))])
	case 1:
		return abstract(c29Abstracts[t.draw(len(c29Abstracts))])
	case 2:
		return opt(cg.paramType(depth - 1))
	case 3:
		return varr(cg.paramType(depth - 1))
	case 4:
		return &ptype{kind: pkCArr, elem: cg.paramType(depth - 1), size: t.draw(4)}
	case 5:
		var k *ptype
		switch t.weighted(8, 2, 1) {
		case 0:
			k = prim(c29HashableKeys[t.draw(len(c29HashableKeys))])
		case 1:
			k = nominalT("E")
		default:
			k = abstract("HashableStruct")
		}
		return dict(k, cg.paramType(depth-1))
	case 6:
		return nominalT([]string{"S", "T", "U", "E", "Rec", "WithAny", "Empty"}[t.draw(7)])
	case 7:
		return &ptype{kind: pkInter}
	case 8:
		return &ptype{kind: pkRange, elem: prim([]string{"Int", "UInt8", "Int64", "Word16", "Int256", "UInt"}[t.draw(6)])}
	case 9:
		return &ptype{kind: pkCap}
	default:
		return &ptype{kind: pkNonImp, name: c29NonImportable[t.draw(len(c29NonImportable))]}
	}
}

var c29Strings = []string{"", "a", "foo", "Hello, World!", "\"quoted\" \\ back", "line\nbreak\ttab", "\x00\x01", "<html>&amp;</html>", "\u00e9",
	"\u65e5\u672c\u8a9e", "\U0001F468\u200d\U0001F469", "\U0010ffff", "0x1", "null", "{\"type\":\"Int\"}", "\u2028", strings.Repeat("x", 300), "/", "\\u0041"}

var c29TypeValues = []cadence.Type{
	cadence.IntType, cadence.StringType, cadence.NewOptionalType(cadence.BoolType), cadence.NewVariableSizedArrayType(cadence.StringType),
	cadence.NewDictionaryType(cadence.StringType, cadence.IntType), cadence.AnyStructType, cadence.NeverType,
	cadence.NewReferenceType(cadence.UnauthorizedAccess, cadence.IntType), cadence.NewCapabilityType(cadence.NewReferenceType(cadence.UnauthorizedAccess, cadence.IntType)),
	cadence.NewConstantSizedArrayType(3, cadence.UInt8Type), cadence.MetaType, cadence.AnyResourceType,
	cadence.NewFunctionType(cadence.FunctionPurityImpure, nil, []cadence.Parameter{{Type: cadence.IntType}}, cadence.VoidType),
	cadence.NewInclusiveRangeType(cadence.IntType),
}

// arg generates a value conforming to t.
func (cg *c29gen) arg(t *ptype, depth int) cadence.Value {
	tp := cg.t
	switch t.kind {
	case pkPrim:
		switch t.name {
		case "Type":
			if tp.chance(1, 4) {
				return cadence.NewTypeValue(c29Noms[[]string{"S", "E", "R", "T"}[tp.draw(4)]].typ)
			}
			return cadence.NewTypeValue(c29TypeValues[tp.draw(len(c29TypeValues))])
		case "Character":
			// the checker of the harness' own conformance needs no model of grapheme clusters: single
			// code points and well-known clusters only
			return cadence.Character([]string{"a", "Z", "0", " ", "\u00e9", "\u65e5", "\U0001F1E9\U0001F1EA", "\n"}[tp.draw(8)])
		case "String":
			// strings are normalised (NFC) on import: only NFC-stable strings, so that "the script
			// received the argument" can be checked by plain equality
			return cadence.String(c29Strings[tp.draw(len(c29Strings))])
		}
		return cg.g.primValue(primByName[t.name].(cadence.PrimitiveType), depth)
	case pkAbstract:
		switch t.name {
		case "AnyStruct":
			return cg.arg(cg.paramTypeImportableConcrete(min(depth-1, 2)), depth-1)
		case "HashableStruct":
			if tp.chance(1, 5) {
				return cg.arg(nominalT("E"), depth)
			}
			return cg.arg(prim(c29HashableKeys[tp.draw(len(c29HashableKeys))]), depth)
		case "Path":
			return cg.g.path(common.PathDomainStorage, common.PathDomainPublic, common.PathDomainPrivate)
		case "CapabilityPath":
			return cg.g.path(common.PathDomainPublic, common.PathDomainPrivate)
		}
		ms := numericMembers(t.name)
		return cg.arg(prim(ms[tp.draw(len(ms))]), depth)
	case pkOpt:
		if depth <= 0 || tp.chance(1, 3) {
			return cadence.NewOptional(nil)
		}
		return cadence.NewOptional(cg.arg(t.elem, depth-1))
	case pkVArr:
		n := 0
		if depth > 0 {
			n = tp.small(3)
		}
		vs := make([]cadence.Value, n)
		for i := range vs {
			vs[i] = cg.arg(t.elem, depth-1)
		}
		return cadence.NewArray(vs).WithType(cadence.NewVariableSizedArrayType(t.elem.cadenceType()))
	case pkCArr:
		vs := make([]cadence.Value, t.size)
		for i := range vs {
			vs[i] = cg.arg(t.elem, depth-1)
		}
		return cadence.NewArray(vs).WithType(cadence.NewConstantSizedArrayType(uint(t.size), t.elem.cadenceType()))
	case pkDict:
		n := 0
		if depth > 0 {
			n = tp.small(3)
		}
		pairs := []cadence.KeyValuePair{}
		seen := map[string]bool{}
		for i := 0; i < n; i++ {
			k := cg.arg(t.key, depth-1)
			if ks := dictKey(k); !seen[ks] {
				seen[ks] = true
				pairs = append(pairs, cadence.KeyValuePair{Key: k, Value: cg.arg(t.elem, depth-1)})
			}
		}
		return cadence.NewDictionary(pairs).WithType(cadence.NewDictionaryType(t.key.cadenceType(), t.elem.cadenceType()))
	case pkNominal:
		return cg.nominalValue(t.nom, depth)
	case pkIface, pkInter:
		return cg.nominalValue(c29Noms["U"], depth)
	case pkRange:
		it := num.IntTypeByName(t.elem.name)
		a, b := cg.g.bigFor(it), cg.g.bigFor(it)
		step := big.NewInt(1)
		if a.Cmp(b) > 0 {
			if !it.Signed {
				a, b = b, a
			} else {
				step = big.NewInt(-1)
			}
		}
		if tp.chance(1, 2) {
			step = new(big.Int).Mul(step, big.NewInt(int64(1+tp.draw(5))))
		}
		return cadence.NewInclusiveRange(makeInt(it.Name, a), makeInt(it.Name, b), makeInt(it.Name, step)).
			WithType(cadence.NewInclusiveRangeType(t.elem.cadenceType()))
	case pkCap:
		return cadence.NewCapability(1, cadence.Address(c29Addr), cadence.NewReferenceType(cadence.UnauthorizedAccess, cadence.IntType))
	case pkNonImp:
		return cg.nonImportableValue()
	}
	panic("c29 arg")
}

// paramTypeImportableConcrete: a type with conforming importable values, for AnyStruct slots.
func (cg *c29gen) paramTypeImportableConcrete(depth int) *ptype {
	for i := 0; i < 8; i++ {
		t := cg.paramType(depth)
		if t.kind != pkCap && t.kind != pkNonImp && !(t.kind == pkAbstract && t.name == "AnyStruct") {
			return t
		}
	}
	return prim("Int")
}

func (cg *c29gen) nominalValue(n *pnominal, depth int) cadence.Value {
	fs := make([]cadence.Value, len(n.fields))
	for i, f := range n.fields {
		if n.kind == "Enum" {
			fs[i] = cadence.NewUInt8(uint8(cg.t.draw(n.cases)))
			continue
		}
		fs[i] = cg.arg(f.typ, depth-1)
	}
	return makeComposite(n.kind, n.typ, fs)
}

func makeComposite(kind string, t cadence.CompositeType, fs []cadence.Value) cadence.Value {
	switch t := t.(type) {
	case *cadence.StructType:
		return cadence.NewStruct(fs).WithType(t)
	case *cadence.EnumType:
		return cadence.NewEnum(fs).WithType(t)
	case *cadence.ResourceType:
		return cadence.NewResource(fs).WithType(t)
	case *cadence.EventType:
		return cadence.NewEvent(fs).WithType(t)
	case *cadence.ContractType:
		return cadence.NewContract(fs).WithType(t)
	case *cadence.AttachmentType:
		return cadence.NewAttachment(fs).WithType(t)
	}
	panic("makeComposite " + kind)
}

func (cg *c29gen) nonImportableValue() cadence.Value {
	switch cg.t.draw(6) {
	case 0:
		return cadence.NewResource([]cadence.Value{cadence.NewInt(1)}).WithType(c29Noms["R"].typ.(*cadence.ResourceType))
	case 1:
		return cadence.NewEvent([]cadence.Value{cadence.NewInt(1)}).WithType(c29Noms["Ev"].typ.(*cadence.EventType))
	case 2:
		return cadence.NewContract([]cadence.Value{}).WithType(cadence.NewContractType(c29Loc, "C0", []cadence.Field{}, nil))
	case 3:
		return cadence.NewFunction(cadence.NewFunctionType(cadence.FunctionPurityImpure, nil, []cadence.Parameter{}, cadence.VoidType))
	case 4:
		return cadence.NewCapability(1, cadence.Address(c29Addr), cadence.NewReferenceType(cadence.UnauthorizedAccess, cadence.IntType))
	default:
		return cadence.NewArray([]cadence.Value{
			cadence.NewResource([]cadence.Value{cadence.NewInt(1)}).WithType(c29Noms["R"].typ.(*cadence.ResourceType)),
		}).WithType(cadence.NewVariableSizedArrayType(c29Noms["R"].typ))
	}
}

// corrupt returns a variant of a conforming value that is wrong somewhere (or, for a field
// reordering, still right): the description says what was done.
func (cg *c29gen) corrupt(v cadence.Value, depth int) (cadence.Value, string) {
	tp := cg.t
	// descend with some probability
	descend := tp.chance(1, 2)
	switch x := v.(type) {
	case cadence.Optional:
		if x.Value != nil && descend {
			inner, how := cg.corrupt(x.Value, depth-1)
			return cadence.NewOptional(inner), "optional>" + how
		}
	case cadence.Array:
		if len(x.Values) > 0 && descend {
			i := tp.draw(len(x.Values))
			vs := append([]cadence.Value{}, x.Values...)
			var how string
			vs[i], how = cg.corrupt(vs[i], depth-1)
			return cadence.NewArray(vs).WithType(x.ArrayType), "array-element>" + how
		}
		if tp.chance(1, 3) {
			// wrong length (matters for constant-sized arrays only)
			vs := append(append([]cadence.Value{}, x.Values...), cadence.NewInt(7))
			return cadence.NewArray(vs).WithType(x.ArrayType), "array-extra-element-of-type-Int"
		}
	case cadence.Dictionary:
		if len(x.Pairs) > 0 && descend {
			i := tp.draw(len(x.Pairs))
			ps := append([]cadence.KeyValuePair{}, x.Pairs...)
			var how string
			if tp.chance(1, 2) {
				ps[i].Value, how = cg.corrupt(ps[i].Value, depth-1)
				return cadence.NewDictionary(ps).WithType(x.DictionaryType), "dictionary-value>" + how
			}
			ps[i].Key, how = cg.corrupt(ps[i].Key, depth-1)
			return cadence.NewDictionary(ps).WithType(x.DictionaryType), "dictionary-key>" + how
		}
	case cadence.Struct:
		fields := fieldsOf(x.StructType)
		vals := fieldValuesOf(x)
		if len(fields) > 0 && descend {
			i := tp.draw(len(fields))
			vs := append([]cadence.Value{}, vals...)
			var how string
			vs[i], how = cg.corrupt(vs[i], depth-1)
			return cadence.NewStruct(vs).WithType(x.StructType), "field-value>" + how
		}
		loc, qi := x.StructType.Location, x.StructType.QualifiedIdentifier
		mk := func(fs []cadence.Field, vs []cadence.Value) cadence.Value {
			return cadence.NewStruct(vs).WithType(cadence.NewStructType(loc, qi, fs, nil))
		}
		switch tp.draw(9) {
		case 0:
			if len(fields) > 0 {
				i := tp.draw(len(fields))
				return mk(append(append([]cadence.Field{}, fields[:i]...), fields[i+1:]...), append(append([]cadence.Value{}, vals[:i]...), vals[i+1:]...)), "missing-field"
			}
		case 1:
			return mk(append(append([]cadence.Field{}, fields...), cadence.Field{Identifier: "extra", Type: cadence.IntType}), append(append([]cadence.Value{}, vals...), cadence.NewInt(1))), "extra-field"
		case 2:
			if len(fields) > 0 {
				i := tp.draw(len(fields))
				fs := append([]cadence.Field{}, fields...)
				fs[i].Identifier = fs[i].Identifier + "x"
				return mk(fs, vals), "renamed-field"
			}
		case 3:
			if len(fields) > 1 {
				fs := append([]cadence.Field{}, fields...)
				vs := append([]cadence.Value{}, vals...)
				fs[0], fs[len(fs)-1] = fs[len(fs)-1], fs[0]
				vs[0], vs[len(vs)-1] = vs[len(vs)-1], vs[0]
				return mk(fs, vs), "reordered-fields(still conforming)"
			}
		case 4:
			return cadence.NewStruct(vals).WithType(cadence.NewStructType(c29Loc, "C0.Nope", fields, nil)), "unknown-type-id"
		case 5:
			return cadence.NewStruct(vals).WithType(cadence.NewStructType(common.AddressLocation{Address: common.Address{0, 0, 0, 0, 0, 0, 0, 9}, Name: "C0"}, qi, fields, nil)), "wrong-address"
		case 6:
			return cadence.NewResource(vals).WithType(cadence.NewResourceType(loc, qi, fields, nil)), "struct-as-resource-kind"
		case 7:
			other := c29Noms[[]string{"S", "U", "Empty", "T"}[tp.draw(4)]]
			if other.typ.ID() != x.StructType.ID() {
				return cadence.NewStruct(vals).WithType(cadence.NewStructType(loc, "C0."+other.name, fields, nil)), "type-id-of-another-struct"
			}
		case 8:
			if len(fields) > 1 {
				// duplicate field name
				fs := append([]cadence.Field{}, fields...)
				fs[1].Identifier = fs[0].Identifier
				return mk(fs, vals), "duplicate-field-name"
			}
		}
	case cadence.Enum:
		switch tp.draw(3) {
		case 0:
			return cadence.NewEnum([]cadence.Value{cadence.NewUInt16(1)}).WithType(x.EnumType), "enum-raw-value-of-wrong-type"
		case 1:
			return cadence.NewEnum([]cadence.Value{}).WithType(cadence.NewEnumType(c29Loc, "C0.E", cadence.UInt8Type, []cadence.Field{}, nil)), "enum-without-raw-value"
		default:
			return cadence.NewStruct(fieldValuesOf(x)).WithType(cadence.NewStructType(c29Loc, "C0.E", fieldsOf(x.EnumType), nil)), "enum-as-struct-kind"
		}
	case *cadence.InclusiveRange:
		it := x.InclusiveRangeType.ElementType.ID()
		switch tp.draw(3) {
		case 0:
			return cadence.NewInclusiveRange(x.Start, x.End, makeInt(it, big.NewInt(0))).WithType(x.InclusiveRangeType), "range-step-zero"
		case 1:
			other := "Int16"
			if it == "Int16" {
				other = "Int32"
			}
			return cadence.NewInclusiveRange(x.Start, makeInt(other, big.NewInt(3)), x.Step).WithType(x.InclusiveRangeType), "range-end-of-other-integer-type"
		default:
			return cadence.NewInclusiveRange(x.Start, cadence.String("x"), x.Step).WithType(x.InclusiveRangeType), "range-end-not-an-integer"
		}
	}
	// replace the whole (sub-)value by a value of another type
	for i := 0; i < 6; i++ {
		ot := cg.paramType(1)
		nv := cg.arg(ot, 1)
		if goKind(nv) != goKind(v) {
			return nv, "replaced-by-" + strings.TrimPrefix(goKind(nv), "cadence.")
		}
	}
	return cadence.NewStruct([]cadence.Value{}).WithType(c29Noms["Empty"].typ.(*cadence.StructType)), "replaced-by-Empty-struct"
}

// ------------------------------------------------------------------ the conformance oracle

// primName names the primitive type of a scalar value ("" for containers, composites and the like,
// whose Type() may be incomplete after JSON decoding).
func primName(v cadence.Value) string {
	switch v.(type) {
	case nil, cadence.Optional, cadence.Array, cadence.Dictionary, *cadence.InclusiveRange, cadence.Struct, cadence.Resource, cadence.Event,
		cadence.Contract, cadence.Enum, cadence.Attachment, cadence.Capability, cadence.Function, cadence.TypeValue, cadence.Path:
		return ""
	}
	if t, ok := v.Type().(cadence.PrimitiveType); ok {
		return t.ID()
	}
	return ""
}

// conforms decides, independently of the runtime, whether the argument value is an importable
// value whose run-time type is a subtype of the parameter type and which is well-formed with
// respect to the declarations of contract C0.
func conforms(v cadence.Value, t *ptype) bool {
	switch t.kind {
	case pkNonImp, pkCap:
		return false
	case pkOpt:
		if o, ok := v.(cadence.Optional); ok {
			if o.Value == nil {
				return true
			}
			return conforms(o.Value, t.elem)
		}
		// T is a subtype of T?
		return conforms(v, t.elem)
	case pkPrim:
		return conformsPrim(v, t.name)
	case pkAbstract:
		switch t.name {
		case "AnyStruct":
			return wellFormed(v)
		case "HashableStruct":
			return hashableArg(v) && wellFormed(v)
		case "Path":
			_, ok := v.(cadence.Path)
			return ok && wellFormed(v)
		case "CapabilityPath":
			p, ok := v.(cadence.Path)
			return ok && (p.Domain == common.PathDomainPublic || p.Domain == common.PathDomainPrivate)
		}
		pn := primName(v)
		return pn != "" && contains(numericMembers(t.name), pn)
	case pkVArr:
		a, ok := v.(cadence.Array)
		if !ok {
			return false
		}
		for _, e := range a.Values {
			if !conforms(e, t.elem) {
				return false
			}
		}
		return true
	case pkCArr:
		a, ok := v.(cadence.Array)
		if !ok || len(a.Values) != t.size {
			return false
		}
		for _, e := range a.Values {
			if !conforms(e, t.elem) {
				return false
			}
		}
		return true
	case pkDict:
		d, ok := v.(cadence.Dictionary)
		if !ok {
			return false
		}
		for _, p := range d.Pairs {
			if !hashableArg(p.Key) || !conforms(p.Key, t.key) || !conforms(p.Value, t.elem) {
				return false
			}
		}
		return true
	case pkNominal:
		return conformsNominal(v, t.nom)
	case pkIface, pkInter:
		ci, ok := compositeOf(v)
		if !ok || ci.Type == nil {
			return false
		}
		for _, n := range c29Noms {
			if n.typ.ID() == ci.Type.ID() && contains(n.ifaces, "SI") {
				return conformsNominal(v, n)
			}
		}
		return false
	case pkRange:
		r, ok := v.(*cadence.InclusiveRange)
		if !ok {
			return false
		}
		for _, m := range []cadence.Value{r.Start, r.End, r.Step} {
			if m == nil || !conformsPrim(m, t.elem.name) {
				return false
			}
		}
		s, e, st := num.ToBig(r.Start), num.ToBig(r.End), num.ToBig(r.Step)
		if st.Sign() == 0 {
			return false
		}
		if s.Cmp(e) < 0 && st.Sign() < 0 || s.Cmp(e) > 0 && st.Sign() > 0 {
			return false
		}
		return true
	}
	return false
}

func conformsPrim(v cadence.Value, name string) bool {
	if v == nil {
		return false
	}
	switch name {
	case "Type":
		tv, ok := v.(cadence.TypeValue)
		return ok && importableTypeValue(tv.StaticType)
	case "StoragePath", "PublicPath", "PrivatePath":
		p, ok := v.(cadence.Path)
		if !ok {
			return false
		}
		want := map[string]common.PathDomain{"StoragePath": common.PathDomainStorage, "PublicPath": common.PathDomainPublic, "PrivatePath": common.PathDomainPrivate}[name]
		return p.Domain == want
	}
	return primName(v) == name
}

// importableTypeValue: the type must exist (nominal types must be declared in C0).
func importableTypeValue(t cadence.Type) bool {
	if t == nil {
		return false
	}
	switch t := t.(type) {
	case cadence.PrimitiveType:
		return true
	case *cadence.OptionalType:
		return importableTypeValue(t.Type)
	case *cadence.VariableSizedArrayType:
		return importableTypeValue(t.ElementType)
	case *cadence.ConstantSizedArrayType:
		return importableTypeValue(t.ElementType)
	case *cadence.DictionaryType:
		return importableTypeValue(t.KeyType) && importableTypeValue(t.ElementType)
	case *cadence.ReferenceType:
		return importableTypeValue(t.Type)
	case *cadence.CapabilityType:
		return t.BorrowType == nil || importableTypeValue(t.BorrowType)
	case *cadence.InclusiveRangeType:
		return importableTypeValue(t.ElementType)
	case *cadence.FunctionType:
		for _, p := range t.Parameters {
			if !importableTypeValue(p.Type) {
				return false
			}
		}
		return importableTypeValue(t.ReturnType)
	case cadence.CompositeType:
		for _, n := range c29Noms {
			if n.typ.ID() == t.ID() && goKind(n.typ) == goKind(t) {
				return true
			}
		}
		return false
	}
	return false
}

func conformsNominal(v cadence.Value, n *pnominal) bool {
	if n.kind != "Struct" && n.kind != "Enum" {
		return false // resources and events are not importable
	}
	ci, ok := compositeOf(v)
	if !ok || ci.Type == nil || ci.Kind != n.kind {
		return false
	}
	if ci.Type.ID() != n.typ.ID() || ci.Type.CompositeTypeLocation() != common.Location(c29Loc) {
		return false
	}
	fs := fieldsOf(ci.Type)
	if len(fs) != len(n.fields) || len(ci.Values) != len(fs) {
		return false
	}
	seen := map[string]bool{}
	for i, f := range fs {
		if seen[f.Identifier] {
			return false
		}
		seen[f.Identifier] = true
		var decl *pfield
		for k := range n.fields {
			if n.fields[k].name == f.Identifier {
				decl = &n.fields[k]
			}
		}
		if decl == nil {
			return false
		}
		if n.kind == "Enum" {
			u, ok := ci.Values[i].(cadence.UInt8)
			if !ok {
				return false
			}
			_ = u // any raw value has the enum's type; the statement does not ask for a declared case
			continue
		}
		if !conforms(ci.Values[i], decl.typ) {
			return false
		}
	}
	return true
}

// wellFormed: an importable value that conforms to its own run-time type (for AnyStruct slots).
func wellFormed(v cadence.Value) bool {
	switch x := v.(type) {
	case nil:
		return false
	case cadence.Optional:
		return x.Value == nil || wellFormed(x.Value)
	case cadence.Array:
		for _, e := range x.Values {
			if !wellFormed(e) {
				return false
			}
		}
		return true
	case cadence.Dictionary:
		for _, p := range x.Pairs {
			if !hashableArg(p.Key) || !wellFormed(p.Key) || !wellFormed(p.Value) {
				return false
			}
		}
		return true
	case cadence.TypeValue:
		return importableTypeValue(x.StaticType)
	case cadence.Path:
		return true
	case *cadence.InclusiveRange:
		pn := primName(x.Start)
		return contains(numericMembers("Integer"), pn) && conforms(v, &ptype{kind: pkRange, elem: prim(pn)})
	case cadence.Capability, cadence.Function, cadence.Resource, cadence.Event, cadence.Contract, cadence.Attachment:
		return false
	case cadence.Struct, cadence.Enum:
		ci, _ := compositeOf(v)
		if ci.Type == nil {
			return false
		}
		for _, n := range c29Noms {
			if n.typ.ID() == ci.Type.ID() {
				return conformsNominal(v, n)
			}
		}
		return false
	}
	return primName(v) != ""
}

func hashableArg(v cadence.Value) bool {
	switch v.(type) {
	case cadence.Enum, cadence.Path, cadence.TypeValue, cadence.String, cadence.Character, cadence.Bool, cadence.Address:
		return true
	}
	return contains(numericMembers("Number"), primName(v))
}

// ------------------------------------------------------------------ the check

type c29Case struct {
	param  *ptype
	arg    cadence.Value
	how    string // how the argument was made
	expect bool
}

func (cg *c29gen) makeCase() c29Case {
	t := cg.t
	depth := 1 + t.small(2)
	p := cg.paramType(depth)
	var v cadence.Value
	how := "conforming"
	switch t.weighted(5, 3, 2, 1) {
	case 0:
		v = cg.arg(p, depth+1)
	case 1:
		base := cg.arg(p, depth+1)
		v, how = cg.corrupt(base, depth)
		how = "corrupted:" + how
	case 2:
		q := cg.paramType(depth)
		v = cg.arg(q, depth+1)
		how = "value-of-other-type:" + q.src()
	default:
		v = cg.nonImportableValue()
		how = "non-importable-kind:" + strings.TrimPrefix(goKind(v), "cadence.")
	}
	return c29Case{param: p, arg: v, how: how, expect: conforms(v, p)}
}

func c29Script(p *ptype) string {
	if p.kind == pkNonImp {
		if strings.HasPrefix(p.name, "@") {
			return fmt.Sprintf("import C0 from 0x0000000000000001\naccess(all) fun main(x: %s) { destroy x }", p.name)
		}
		return fmt.Sprintf("import C0 from 0x0000000000000001\naccess(all) fun main(x: %s) { }", p.name)
	}
	return fmt.Sprintf("import C0 from 0x0000000000000001\naccess(all) fun main(x: %s): [AnyStruct] {\n    return [x, x.getType().identifier, x.getType().isSubtype(of: Type<%s>())]\n}", p.src(), p.src())
}

func c29Tx(p *ptype) string {
	if p.kind == pkNonImp && strings.HasPrefix(p.name, "@") {
		return fmt.Sprintf("import C0 from 0x0000000000000001\ntransaction(x: %s) { prepare(acct: &Account) { destroy x } }", p.name)
	}
	if p.kind == pkNonImp {
		return fmt.Sprintf("import C0 from 0x0000000000000001\ntransaction(x: %s) { prepare(acct: &Account) { } }", p.name)
	}
	return fmt.Sprintf("import C0 from 0x0000000000000001\ntransaction(x: %s) { prepare(acct: &Account) { let y: AnyStruct = x; log(y) } }", p.src())
}

func init() {
	core.Register(&core.Prop{
		ID:    "C29",
		Level: "exploration",
		Rule:  "each case deploys contract C0 (structs, an interface, an enum, a recursive struct, a struct with an AnyStruct field, a resource, an event) and runs entry points `fun main(x: T)` / `transaction(x: T)` for generated parameter types T (primitives, abstract supertypes, optionals, arrays, constant-sized arrays, dictionaries, structs, enums, intersections, ranges, capabilities, non-importable types) with generated arguments: conforming, corrupted at a random nested position (wrong element, missing/extra/renamed/duplicate/reordered field, wrong type ID/address/kind, wrong raw type, bad range), of another type, or of a non-importable kind; encoded as JSON-Cadence or CCF; on interpreter and VM. A case is distinct by (T, encoded argument) and non-trivial always (the argument goes through decoding, import and validation)",
		Assumptions: []string{
			"conformance oracle: the harness' own function conforms(value, T) over the declarations of C0 (structural recursion; composites by kind, type ID, address and exact field set; T <: T?; abstract numeric supertypes by membership tables; ranges by their construction rules); an accepted argument must conform; a rejection must be a user-class error (host.Classify)",
			"a conforming argument may be rejected (the statement allows it); such cases are only counted",
			"returned values are compared with the harness' structural comparison modulo the static types of containers; the run-time type test is `x.getType().isSubtype(of: Type<T>())` evaluated by the script",
			"script results must round-trip through JSON-Cadence (C41 oracle) and CCF (C42 oracle)",
		},
		NumCases: func(tier string) int {
			if tier == "thorough" {
				return 512
			}
			return 64
		},
		Floors: map[string]int64{
			"arguments": 1500, "accepted": 1000, "rejected_user": 1000, "expect_conforming": 600, "expect_nonconforming": 600,
			"enc_json": 700, "enc_ccf": 700, "engine_I": 1500, "engine_V": 1500, "tx_runs": 500,
			"returned_equal": 500, "returned_subtype_true": 500, "return_roundtrip_json_ok": 300, "return_roundtrip_ccf_ok": 200,
			"how_conforming": 600, "how_corrupted": 400, "how_value-of-other-type": 250, "how_non-importable-kind": 100,
			"script_return_scenarios": 200, "targeted_arguments": 40,
		},
		Run: runC29,
	})
}

func runC29(c *core.Ctx) {
	h := host.New()
	if out := h.Deploy(host.EngI, c29Addr, "C0", c29Contract); out.Err != nil || out.Escaped != nil {
		c.Violate("c29-harness:deploy-failed", "cannot deploy C0: "+host.ErrText(out), nil)
		return
	}
	n := c.Pick(120, 250)
	for i := 0; i < n; i++ {
		t := newTape(c.Rng)
		cg := &c29gen{g: newGen(t, true), t: t}
		cs := cg.makeCase()
		c29Run(c, h, cs, i)
	}
	if c.Case%8 == 0 {
		c29ReturnScenarios(c, h)
	}
	if c.Case == 0 {
		c29Targeted(c, h)
	}
}

func c29Run(c *core.Ctx, h *host.Host, cs c29Case, i int) {
	c.Inc("arguments")
	c.Inc("how_" + strings.SplitN(cs.how, ":", 2)[0])
	useCCF := i%2 == 1
	var enc []byte
	var err error
	encName := "json"
	if useCCF {
		encName = "ccf"
		if f := protect("ccf-encode", func() { enc, err = ccf.Encode(cs.arg) }); f != nil || err != nil {
			// the argument cannot be expressed in CCF (e.g. inconsistent typing of a corrupted value): use JSON
			useCCF = false
			encName = "json"
		}
	}
	if !useCCF {
		if f := protect("json-encode", func() { enc, err = jsoncdc.Encode(cs.arg) }); f != nil || err != nil {
			c.Inc("argument_not_encodable")
			return
		}
	}
	c.Inc("enc_" + encName)
	if useCCF {
		h.DecodeArgs = func(b []byte, _ cadence.Type) (cadence.Value, error) { return ccf.Decode(nil, b) }
	} else {
		h.DecodeArgs = nil
	}
	// The oracle judges the value the runtime receives from the decoder (an encoding can lose a
	// corruption: CCF keys type definitions by type ID, JSON-Cadence carries no container types).
	var received cadence.Value
	var derr error
	if pf := protect("decode", func() {
		if useCCF {
			received, derr = ccf.Decode(nil, enc)
		} else {
			received, derr = jsoncdc.Decode(nil, enc)
		}
	}); pf != nil || derr != nil || received == nil {
		cs.expect = false
		c.Inc("argument_not_decodable")
	} else {
		cs.expect = conforms(received, cs.param)
		cs.arg = received
	}
	if cs.expect {
		c.Inc("expect_conforming")
	} else {
		c.Inc("expect_nonconforming")
	}
	c.Distinct(cs.param.src() + "\x00" + string(enc))

	witness := func(extra map[string]any) map[string]any {
		w := map[string]any{
			"parameter_type": cs.param.src(), "argument": clipS(describeValue(cs.arg, 1), 3000), "argument_made": cs.how,
			"encoding": encName, "conforms": cs.expect,
		}
		if useCCF {
			w["argument_ccf_hex"] = hexClip(enc, 3000)
		} else {
			w["argument_json"] = clipS(string(enc), 3000)
		}
		for k, v := range extra {
			w[k] = v
		}
		return w
	}
	shape := func() string { return cs.param.kindClass() + "<-" + howClass(cs.how) }

	script := c29Script(cs.param)
	type run struct {
		name string
		out  host.Outcome
	}
	var runs []run
	for _, eng := range []host.Engine{host.EngI, host.EngV} {
		h.ResetTrace()
		out := h.RunScript(eng, script, [][]byte{enc}, nil)
		c.Eval(1)
		c.Inc("engine_" + eng.String())
		runs = append(runs, run{"script/" + eng.String(), out})
	}
	if i%3 == 0 {
		eng := host.EngI
		if i%2 == 0 {
			eng = host.EngV
		}
		h.ResetTrace()
		out := h.RunTx(eng, c29Tx(cs.param), [][]byte{enc}, []common.Address{host.Addr(1)}, nil)
		c.Eval(1)
		c.Inc("tx_runs")
		runs = append(runs, run{"transaction/" + eng.String(), out})
	}

	for _, r := range runs {
		cls := host.Classify(r.out)
		switch cls {
		case host.ClassNone:
			c.Inc("accepted")
			if !cs.expect {
				c.Violate("accepted-nonconforming:"+shape(),
					fmt.Sprintf("%s accepted an argument that does not conform to parameter type %s (%s): %s", r.name, cs.param.src(), cs.how, clipS(describeValue(cs.arg, 0), 300)),
					witness(map[string]any{"run": r.name, "program": script}))
				continue
			}
		case host.ClassUser:
			c.Inc("rejected_user")
			if cs.expect {
				c.Inc("conforming_but_rejected")
				if c.WantSample() {
					c.Note("conforming_but_rejected_example", fmt.Sprintf("%s <- %s: %s", cs.param.src(), clipS(describeValue(cs.arg, 0), 200), clipS(host.ErrText(r.out), 300)))
				}
			}
			continue
		default:
			c.Violate(fmt.Sprintf("rejected-with-%s-error:%s%s", cls, normalizeKey(firstLine(lastErrLine(host.ErrText(r.out)))), errorSite(host.ErrText(r.out))),
				fmt.Sprintf("%s rejected the argument with a %s-class error instead of a user error: %s", r.name, cls, clipS(host.ErrText(r.out), 600)),
				witness(map[string]any{"run": r.name, "error": clipS(host.ErrText(r.out), 3000), "error_kinds": host.ErrKinds(r.out.Err), "program": script}))
			continue
		}
		if !strings.HasPrefix(r.name, "script/") || cs.param.kind == pkNonImp {
			continue
		}
		// accepted by a script: the returned triple [x, identifier, isSubtype]
		arr, ok := r.out.Value.(cadence.Array)
		if !ok || len(arr.Values) != 3 {
			c.Violate("c29-harness:unexpected-script-result", "script did not return the triple", witness(map[string]any{"result": fmt.Sprint(r.out.Value)}))
			continue
		}
		got := arr.Values[0]
		want := cs.arg
		if cs.param.kind == pkOpt {
			// T <: T?: an argument with fewer optional layers than the parameter type arrives boxed
			for someDepth(got) > someDepth(want) {
				got = got.(cadence.Optional).Value
			}
		}
		cmp := newComparer(cmpCross)
		// type values are imported by type ID: the declared type comes back, not the argument's copy
		cmp.typeValuesByID = true
		if d := cmp.value("x", want, got); d != "" {
			c.Violate("returned-value-differs:"+keyDetail(d),
				fmt.Sprintf("%s: the value the script received differs from the argument: %s", r.name, d),
				witness(map[string]any{"run": r.name, "returned": clipS(describeValue(arr.Values[0], 1), 3000), "difference": d}))
		} else {
			c.Inc("returned_equal")
		}
		if b, ok := arr.Values[2].(cadence.Bool); !ok || !bool(b) {
			c.Violate("runtime-type-not-subtype:"+shape(),
				fmt.Sprintf("%s: run-time type %v of the received value is not a subtype of %s", r.name, arr.Values[1], cs.param.src()),
				witness(map[string]any{"run": r.name, "runtime_type": fmt.Sprint(arr.Values[1])}))
		} else {
			c.Inc("returned_subtype_true")
		}
		if strings.HasSuffix(r.name, "/I") {
			c29ReturnRoundTrip(c, r.out.Value, "echo of "+cs.param.src(), script)
		}
	}
	// both engines and the transaction must take the same decision
	first := host.Classify(runs[0].out)
	for _, r := range runs[1:] {
		if (host.Classify(r.out) == host.ClassNone) != (first == host.ClassNone) {
			c.Violate("entry-points-disagree:"+shape(),
				fmt.Sprintf("%s and %s disagree on accepting the argument for %s", runs[0].name, r.name, cs.param.src()),
				witness(map[string]any{"first": host.ErrText(runs[0].out), "second": host.ErrText(r.out)}))
		}
	}
}

// someDepth counts the Some layers around a non-nil value.
func someDepth(v cadence.Value) int {
	n := 0
	for {
		o, ok := v.(cadence.Optional)
		if !ok || o.Value == nil {
			return n
		}
		n++
		v = o.Value
	}
}

// errorSite returns the first cadence frame of a stack trace embedded in an error text.
func errorSite(s string) string {
	for _, l := range strings.Split(s, "\n") {
		l = strings.TrimSpace(l)
		if strings.HasPrefix(l, "github.com/onflow/cadence/") && !strings.HasPrefix(l, "github.com/onflow/cadence/errors.") {
			if i := strings.LastIndex(l, "("); i > 0 {
				l = l[:i]
			}
			return " @" + strings.TrimPrefix(l, "github.com/onflow/cadence/")
		}
	}
	return ""
}

func lastErrLine(s string) string {
	// the last line that starts with "error:" carries the innermost message
	last := ""
	for _, l := range strings.Split(s, "\n") {
		l = strings.TrimSpace(l)
		if strings.HasPrefix(l, "error:") && l != "error: Execution failed:" {
			last = l
		}
	}
	if last != "" {
		return last
	}
	return s
}

// howClass reduces the description of how an argument was made to its class: the way it was made
// and, for corruptions, the innermost edit without the concrete replacement type.
func howClass(how string) string {
	parts := strings.SplitN(how, ":", 2)
	if parts[0] != "corrupted" || len(parts) < 2 {
		return parts[0]
	}
	steps := strings.Split(parts[1], ">")
	last := steps[len(steps)-1]
	if i := strings.Index(last, "replaced-by-"); i >= 0 {
		last = "replaced-by-value-of-another-type"
	}
	return "corrupted:" + last
}

func (t *ptype) kindClass() string {
	switch t.kind {
	case pkPrim:
		return "primitive"
	case pkAbstract:
		return "abstract " + t.name
	case pkNominal:
		return t.nom.kind
	}
	return t.kindName()
}

func (t *ptype) kindName() string {
	switch t.kind {
	case pkPrim:
		return t.name
	case pkAbstract:
		return t.name
	case pkOpt:
		return "Optional"
	case pkVArr:
		return "Array"
	case pkCArr:
		return "ConstantSizedArray"
	case pkDict:
		return "Dictionary"
	case pkNominal:
		return t.nom.kind + " " + t.nom.name
	case pkIface, pkInter:
		return "Intersection"
	case pkRange:
		return "InclusiveRange"
	case pkCap:
		return "Capability"
	case pkNonImp:
		return "non-importable " + t.name
	}
	return "?"
}

// c29ReturnRoundTrip: values returned by scripts must round-trip through both codecs.
func c29ReturnRoundTrip(c *core.Ctx, v cadence.Value, what string, program string) {
	if v == nil {
		return
	}
	if f, _ := jsonRoundTrip(v); f != nil {
		c.Violate("return-value:"+f.key(), "script result does not round-trip through JSON-Cadence ("+what+"): "+f.Class+": "+f.Detail,
			map[string]any{"program": program, "value": clipS(describeValue(v, 1), 4000), "detail": f.Detail, "extra": f.Extra})
	} else {
		c.Inc("return_roundtrip_json_ok")
	}
	f, _, _, outside := ccfRoundTrip(v)
	switch {
	case outside:
		c.Inc("return_outside_ccf_domain")
	case f != nil:
		c.Violate("return-value:"+f.key(), "script result does not round-trip through CCF ("+what+"): "+f.Class+": "+f.Detail,
			map[string]any{"program": program, "value": clipS(describeValue(v, 1), 4000), "detail": f.Detail, "extra": f.Extra})
	default:
		c.Inc("return_roundtrip_ccf_ok")
	}
}

// scripts whose results exercise the exporter (types, functions, nested optionals, covariant
// containers, references, ranges, attachments, paths, capabilities)
var c29ReturnScripts = []string{
	`access(all) fun main(): AnyStruct { return Type<C0.S>() }`,
	`access(all) fun main(): AnyStruct { return Type<C0.Rec>() }`,
	`access(all) fun main(): AnyStruct { return Type<@C0.R>() }`,
	`access(all) fun main(): AnyStruct { return Type<C0.E>() }`,
	`access(all) fun main(): AnyStruct { return Type<{C0.SI}>() }`,
	`access(all) fun main(): AnyStruct { return Type<C0.Ev>() }`,
	`access(all) fun main(): AnyStruct { return Type<C0>() }`,
	`access(all) fun main(): AnyStruct { return Type<fun(Int): Void>() }`,
	`access(all) fun main(): AnyStruct { return Type<fun(Int, Int): Void>() }`,
	`access(all) fun main(): AnyStruct { return Type<view fun(): Int>() }`,
	`access(all) fun main(): AnyStruct { return Type<auth(Mutate) &[Int]>() }`,
	`access(all) fun main(): AnyStruct { return Type<auth(Mutate | Insert) &[Int]>() }`,
	`access(all) fun main(): AnyStruct { return Type<auth(Mutate, Insert) &[Int]>() }`,
	`access(all) fun main(): AnyStruct { return Type<Capability<&{C0.SI}>>() }`,
	`access(all) fun main(): AnyStruct { return Type<Capability>() }`,
	`access(all) fun main(): AnyStruct { return Type<InclusiveRange<UInt8>>() }`,
	`access(all) fun main(): AnyStruct { return Type<[Int; 3]>() }`,
	`access(all) fun main(): AnyStruct { return Type<{String: [Int?]}>() }`,
	`access(all) fun main(): AnyStruct { return Type<&Account>() }`,
	`access(all) fun main(): AnyStruct { return Type<auth(Storage, Contracts) &Account>() }`,
	`access(all) fun main(): AnyStruct { return Type<PublicKey>() }`,
	`access(all) fun main(): AnyStruct { return Type<HashAlgorithm>() }`,
	`access(all) fun main(): AnyStruct { return Type<Never>() }`,
	`access(all) fun main(): AnyStruct { let x: Int?? = nil; return [x] }`,
	`access(all) fun main(): AnyStruct { let x: Int?? = 5; return [x] }`,
	`access(all) fun main(): AnyStruct { let x: [Int] = [1, 2]; let y: [[AnyStruct]] = [x]; return y }`,
	`access(all) fun main(): AnyStruct { let x: {String: Int} = {"a": 1}; let y: [{String: AnyStruct}] = [x]; return y }`,
	`access(all) fun main(): AnyStruct { return C0.WithAny(v: [1, 2], k: {C0.E.b: 1.5, C0.E.a: -2.0}) }`,
	`access(all) fun main(): AnyStruct { return C0.WithAny(v: C0.S(a: 1, b: "x"), k: {}) }`,
	`access(all) fun main(): AnyStruct { return C0.Rec(next: [C0.Rec(next: [], d: {"k": 1})], d: {}) }`,
	`access(all) fun main(): AnyStruct { return [1 as Int8, 2 as Int16, 3.0 as UFix64] }`,
	`access(all) fun main(): AnyStruct { return InclusiveRange(1, 10, step: 2) }`,
	`access(all) fun main(): AnyStruct { return InclusiveRange(10 as UInt8, 1 as UInt8) }`,
	`access(all) fun main(): AnyStruct { return fun (a: Int, b: Int): Int { return a } }`,
	`access(all) fun main(): AnyStruct { return fun (): Void {} }`,
	`access(all) fun main(): AnyStruct { return C0.createR }`,
	`access(all) fun main(): AnyStruct { let s = "x"; return &s as &String }`,
	`access(all) fun main(): AnyStruct { let s = C0.S(a: 1, b: "y"); return [&s as &C0.S] }`,
	`access(all) fun main(): AnyStruct { return /storage/foo }`,
	`access(all) fun main(): AnyStruct { return [/public/a, /storage/b] }`,
	`access(all) fun main(): AnyStruct { let p: Path = /public/a; return p }`,
	`access(all) fun main(): AnyStruct { return () }`,
	`access(all) fun main(): Void? { return () }`,
	`access(all) fun main(): AnyStruct { return "\u{1F468}\u{200D}\u{1F469}" }`,
	`access(all) fun main(): AnyStruct { let c: Character = "\u{E9}"; return c }`,
	`access(all) fun main(): AnyStruct { return 0x1 as Address }`,
	`access(all) fun main(): AnyStruct { return [UFix128.max, UFix128.min] }`,
	`access(all) fun main(): AnyStruct { return [Fix128.max, Fix128.min, -0.000000000000000000000001 as Fix128] }`,
	`access(all) fun main(): AnyStruct { return [Int256.min, Int256.max, UInt256.max, Word256.max, Int128.min] }`,
	`access(all) fun main(): AnyStruct { return {1: "a", 2: "b", 300: "c", -1: "d"} }`,
	`access(all) fun main(): AnyStruct { return {"b": 1, "a": 2, "aa": 3} }`,
	`access(all) fun main(): AnyStruct { return {C0.E.c: 1, C0.E.a: 2} }`,
	`access(all) fun main(): AnyStruct { return {Type<Int>(): 1, Type<String>(): 2} }`,
	`access(all) fun main(): AnyStruct { let d: {HashableStruct: AnyStruct} = {1: "x", "k": 2, true: nil}; return d }`,
	`access(all) fun main(): AnyStruct { return C0.E.b }`,
	`access(all) fun main(): AnyStruct { return HashAlgorithm.SHA3_256 }`,
	`access(all) fun main(): AnyStruct { return PublicKey(publicKey: [1, 2], signatureAlgorithm: SignatureAlgorithm.ECDSA_P256) }`,
	`access(all) fun main(): @AnyResource { return <- C0.createR() }`,
	`access(all) fun main(): @[C0.R] { return <- [<- C0.createR(), <- C0.createR()] }`,
	`access(all) fun main(): @{String: C0.R} { return <- {"a": <- C0.createR()} }`,
	`access(all) fun main(): @C0.R? { return <- C0.createR() }`,
	`access(all) struct A1 { access(all) let a: Int; init() { self.a = 1 } }
	 access(all) attachment Att for A1 { access(all) let x: Int; init() { self.x = 2 } }
	 access(all) fun main(): AnyStruct { return attach Att() to A1() }`,
	`access(all) struct Loc { access(all) let f: fun(): Int; init() { self.f = fun(): Int { return 1 } } }
	 access(all) fun main(): AnyStruct { return Loc() }`,
	`access(all) struct interface LI {}
	 access(all) struct L1: LI { access(all) let xs: [{LI}]; init(xs: [{LI}]) { self.xs = xs } }
	 access(all) fun main(): AnyStruct { return L1(xs: [L1(xs: [])]) }`,
	`access(all) struct G { access(all) let a: [AnyStruct]; init() { let x: [Int] = [1]; self.a = x } }
	 access(all) fun main(): AnyStruct { return G() }`,
	`access(all) struct G2 { access(all) let a: Int??; access(all) let b: AnyStruct?; init() { self.a = nil; self.b = nil } }
	 access(all) fun main(): AnyStruct { return G2() }`,
	`access(all) fun main(): AnyStruct { return getAccount(0x1).capabilities.get<&Int>(/public/x) }`,
	`access(all) fun main(): AnyStruct { return [getAccount(0x1).capabilities.get<&Int>(/public/x)] }`,
}

func c29ReturnScenarios(c *core.Ctx, h *host.Host) {
	h.DecodeArgs = nil
	for _, src := range c29ReturnScripts {
		prog := "import C0 from 0x0000000000000001\n" + src
		for _, eng := range []host.Engine{host.EngI, host.EngV} {
			h.ResetTrace()
			out := h.RunScript(eng, prog, nil, nil)
			c.Eval(1)
			c.Inc("script_return_scenarios")
			switch host.Classify(out) {
			case host.ClassNone:
				if eng == host.EngI {
					c29ReturnRoundTrip(c, out.Value, "scenario", prog)
				}
			case host.ClassUser:
				c.Inc("script_return_scenario_user_error")
			default:
				c.Violate("return-scenario:"+string(host.Classify(out))+"-error:"+normalizeKey(firstLine(lastErrLine(host.ErrText(out)))),
					"a script returning a value failed with a non-user error: "+clipS(host.ErrText(out), 500), map[string]any{"program": prog, "engine": eng.String(), "error": clipS(host.ErrText(out), 3000)})
			}
		}
	}
}

// c29TargetedArgs: fixed (parameter type, JSON-Cadence argument) pairs of shapes the generator
// reaches only now and then. Only the outcome class is judged (accepted or user-class rejection);
// accepted results must round-trip.
var c29TargetedArgs = []struct{ name, param, arg string }{
	{"empty-array-for-AnyStruct", "AnyStruct", `{"type":"Array","value":[]}`},
	{"empty-array-for-Int", "Int", `{"type":"Array","value":[]}`},
	{"nested-empty-array", "[[Int8]]", `{"type":"Array","value":[{"type":"Array","value":[{"type":"Array","value":[]}]}]}`},
	{"empty-dictionary-for-AnyStruct", "AnyStruct", `{"type":"Dictionary","value":[]}`},
	{"enum-key-without-raw-value", "{C0.E: Int}", `{"type":"Dictionary","value":[{"key":{"type":"Enum","value":{"id":"A.0000000000000001.C0.E","fields":[]}},"value":{"type":"Int","value":"1"}}]}`},
	{"array-in-place-of-Int8-inside-dictionary", "{String: [Int8]}", `{"type":"Dictionary","value":[{"key":{"type":"String","value":"a"},"value":{"type":"Array","value":[{"type":"Array","value":[{"type":"Int8","value":"1"}]}]}}]}`},
	{"struct-in-place-of-Int8-inside-dictionary", "{String: [Int8]}", `{"type":"Dictionary","value":[{"key":{"type":"String","value":"a"},"value":{"type":"Array","value":[{"type":"Struct","value":{"id":"A.0000000000000001.C0.Empty","fields":[]}}]}}]}`},
	{"event-among-Int8-elements-in-struct-field", "C0.T", `{"type":"Struct","value":{"id":"A.0000000000000001.C0.T","fields":[{"name":"s","value":{"type":"Struct","value":{"id":"A.0000000000000001.C0.S","fields":[{"name":"a","value":{"type":"Int","value":"1"}},{"name":"b","value":{"type":"String","value":"x"}}]}}},{"name":"xs","value":{"type":"Array","value":[{"type":"Int8","value":"1"},{"type":"Event","value":{"id":"A.0000000000000001.C0.Ev","fields":[{"name":"x","value":{"type":"Int","value":"1"}}]}}]}},{"name":"o","value":{"type":"Optional","value":null}}]}}`},
	{"array-in-place-of-Int8", "[Int8]", `{"type":"Array","value":[{"type":"Array","value":[{"type":"Int8","value":"1"}]}]}`},
	{"function-type-value", "Type", `{"type":"Type","value":{"staticType":{"kind":"Function","typeID":"","parameters":[],"return":{"kind":"Void"},"purity":""}}}`},
	{"function-type-without-return-type", "Type", `{"type":"Type","value":{"staticType":{"kind":"Function","parameters":[],"return":""}}}`},
	{"nil-type-value", "Type", `{"type":"Type","value":{"staticType":""}}`},
	{"unknown-composite-type-value", "Type", `{"type":"Type","value":{"staticType":{"kind":"Struct","typeID":"A.0000000000000001.C0.Nope","fields":[],"initializers":[],"type":""}}}`},
	{"capability-without-borrow-type", "AnyStruct", `{"type":"Capability","value":{"borrowType":"","address":"0x1","id":"1"}}`},
	{"capability", "Capability<&Int>", `{"type":"Capability","value":{"borrowType":{"kind":"Reference","type":{"kind":"Int"},"authorization":{"kind":"Unauthorized","entitlements":null}},"address":"0x1","id":"1"}}`},
	{"non-optional-elements-for-optional-array", "[Int?]", `{"type":"Array","value":[{"type":"Int","value":"1"}]}`},
	{"non-optional-for-nested-optional", "Int??", `{"type":"Int","value":"1"}`},
	{"contract-value", "AnyStruct", `{"type":"Contract","value":{"id":"A.0000000000000001.C0","fields":[]}}`},
	{"function-value", "AnyStruct", `{"type":"Function","value":{"functionType":{"kind":"Function","typeID":"","parameters":[],"return":{"kind":"Void"},"purity":""}}}`},
	{"resource-value-for-AnyStruct", "AnyStruct", `{"type":"Resource","value":{"id":"A.0000000000000001.C0.R","fields":[{"name":"x","value":{"type":"Int","value":"1"}}]}}`},
	{"array-of-struct-and-resource", "AnyStruct", `{"type":"Array","value":[{"type":"Int","value":"1"},{"type":"Resource","value":{"id":"A.0000000000000001.C0.R","fields":[{"name":"x","value":{"type":"Int","value":"1"}}]}}]}`},
	{"event-value", "AnyStruct", `{"type":"Event","value":{"id":"A.0000000000000001.C0.Ev","fields":[{"name":"x","value":{"type":"Int","value":"1"}}]}}`},
	{"range-of-strings", "AnyStruct", `{"type":"InclusiveRange","value":{"start":{"type":"String","value":"a"},"end":{"type":"String","value":"b"},"step":{"type":"String","value":"c"}}}`},
	{"range-step-zero", "InclusiveRange<Int>", `{"type":"InclusiveRange","value":{"start":{"type":"Int","value":"1"},"end":{"type":"Int","value":"2"},"step":{"type":"Int","value":"0"}}}`},
	{"public-key-invalid", "PublicKey", `{"type":"Struct","value":{"id":"PublicKey","fields":[{"name":"publicKey","value":{"type":"Array","value":[]}},{"name":"signatureAlgorithm","value":{"type":"Enum","value":{"id":"SignatureAlgorithm","fields":[{"name":"rawValue","value":{"type":"UInt8","value":"200"}}]}}}]}}`},
	{"public-key-missing-fields", "PublicKey", `{"type":"Struct","value":{"id":"PublicKey","fields":[]}}`},
	{"hash-algorithm-unknown-raw-value", "HashAlgorithm", `{"type":"Enum","value":{"id":"HashAlgorithm","fields":[{"name":"rawValue","value":{"type":"UInt8","value":"250"}}]}}`},
	{"unknown-builtin-composite", "AnyStruct", `{"type":"Struct","value":{"id":"Block","fields":[]}}`},
	{"character-of-two-graphemes", "Character", `{"type":"Character","value":"ab"}`},
	{"path-unknown-domain", "Path", `{"type":"Path","value":{"domain":"nope","identifier":"x"}}`},
	{"address-too-long", "Address", `{"type":"Address","value":"0x000000000000000001"}`},
	{"deep-optional-nesting", "AnyStruct", strings.Repeat(`{"type":"Optional","value":`, 2000) + `null` + strings.Repeat("}", 2000)},
}

func c29Targeted(c *core.Ctx, h *host.Host) {
	h.DecodeArgs = nil
	for _, ta := range c29TargetedArgs {
		src := fmt.Sprintf("import C0 from 0x0000000000000001\naccess(all) fun main(x: %s): AnyStruct { return x }", ta.param)
		for _, eng := range []host.Engine{host.EngI, host.EngV} {
			h.ResetTrace()
			out := h.RunScript(eng, src, [][]byte{[]byte(ta.arg)}, nil)
			c.Eval(1)
			c.Inc("targeted_arguments")
			switch cls := host.Classify(out); cls {
			case host.ClassNone:
				c.Inc("targeted_accepted")
				if eng == host.EngI {
					c29ReturnRoundTrip(c, out.Value, "targeted "+ta.name, src)
				}
			case host.ClassUser:
				c.Inc("targeted_rejected_user")
			default:
				c.Violate(fmt.Sprintf("rejected-with-%s-error:%s%s", cls, normalizeKey(firstLine(lastErrLine(host.ErrText(out)))), errorSite(host.ErrText(out))),
					fmt.Sprintf("targeted argument %s for parameter type %s rejected with a %s-class error instead of a user error: %s", ta.name, ta.param, cls, clipS(host.ErrText(out), 500)),
					map[string]any{"targeted": ta.name, "parameter_type": ta.param, "argument_json": clipS(ta.arg, 3000), "engine": eng.String(), "program": src,
						"error": clipS(host.ErrText(out), 3000), "error_kinds": host.ErrKinds(out.Err)})
			}
		}
	}
}
