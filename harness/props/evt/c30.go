package evt

import (
	"fmt"
	"os"
	"strings"

	"github.com/onflow/cadence/runtime"

	"verif/harness/core"
	"verif/harness/host"
)

// C30 — every execution is bounded by the metering and depth limits (restated as BOUNDED PROGRESS).
//
// With a computation limit L, a memory limit M (host gauges) and a call-depth limit D (runtime.Config),
// an execution of a program whose termination guards were removed must
//   (a) end,
//   (b) normally or with a USER-class error (computation / memory metering error, call-depth error,
//       or an ordinary user error such as an overflow),
//   (c) without killing the worker process (a Go stack overflow is fatal: the parent reports the dead worker),
//   (d) without starving the gauge: never more than 30 s of process CPU time between two gauge calls
//       while an execution runs (supervisor goroutine, see c30_super.go),
//   (e) recursion deeper than the configured call-depth limit fails with the call-depth error on every engine.

var limitsL = []uint64{200, 200, 200, 5000, 5000, 5000, 100000, 100000}
var limitsM = []uint64{1 << 20, 16 << 20}
var limitsD = []uint64{20, 200, 0}

func effDepth(d uint64) int {
	if d == 0 {
		return 2000
	}
	return int(d)
}

func depthName(d uint64) string {
	if d == 0 {
		return "default"
	}
	return fmt.Sprint(d)
}

// endOf classifies how an execution ended.
func endOf(o host.Outcome) (end string, ok bool) {
	if o.Escaped != nil {
		return "escaped-panic", false
	}
	if o.Err == nil {
		return "normal", true
	}
	cls := host.Classify(o)
	switch {
	case cls == host.ClassInternal:
		return "internal:" + lastKind(o), false
	case cls != host.ClassUser:
		return string(cls) + ":" + lastKind(o), false
	case hasKind(o, "CallStackLimitExceededError"):
		return "call-depth", true
	case hasKind(o, "ComputationMeteringError"):
		return "computation", true
	case hasKind(o, "MemoryMeteringError"):
		return "memory", true
	}
	return "user:" + lastKind(o), true
}

type run30 struct {
	end    string
	ok     bool
	out    host.Outcome
	comp   uint64
	mem    uint64
	breach *breach
}

func exec30(c *core.Ctx, eng host.Engine, p *prog30, L, M, D uint64) run30 {
	h := host.New()
	h.NoRecord = true
	if p.contract {
		if o := h.Deploy(eng, host.Addr(1), "C0", c30Contract); !succeeded(o) {
			c.Violate("helper-contract-deploy-failed", host.ErrText(o), nil)
		}
	}
	g := &host.Gauge{CompLimit: L, MemLimit: M, OnCall: sup.onGaugeCall}
	opt := &host.Options{
		Config: runtime.Config{ResourceOwnerChangeHandlerEnabled: true, StackDepthLimit: D},
		Mem:    g, Comp: g,
	}
	cpu0 := processCPU()
	sup.begin(p.feature)
	var o host.Outcome
	if p.tx {
		o = h.RunTx(eng, p.src, nil, signers(1), opt)
	} else {
		o = h.RunScript(eng, p.src, nil, opt)
	}
	br := sup.end()
	c.Eval(1)
	cpuMs := int64((processCPU() - cpu0).Milliseconds())
	c.Max("exec_cpu_ms", cpuMs)
	if os.Getenv("VERIF_C30_PROFILE") != "" {
		c.Max("cpu_ms:"+p.feature+"/"+eng.String(), cpuMs)
	}
	c.Max("gauge_gap_cpu_ms", sup.maxGap.Load()/1e6)
	c.Count("gauge_calls", int64(g.Calls))
	if L != 0 && g.CompTotal > L {
		c.Max("computation_overshoot", int64(g.CompTotal-L))
	}
	end, ok := endOf(o)
	// the script result / logs may be huge: drop them
	h.Logs = nil
	return run30{end: end, ok: ok, out: o, comp: g.CompTotal, mem: g.MemTotal, breach: br}
}

func init() {
	core.Register(&core.Prop{
		ID: "C30",
		Rule: "per case 12 programs from a generator with termination guards removed (while-true and growing-bound loops, loops over growing containers/strings/ranges, self/mutual/closure/method/default-function/" +
			"condition/callback/initializer/contract/cross-location/forEachAttachment recursion without fuel, unbounded value and run-time type nesting followed by export/log/copy/cast/save/equality/subtyping, " +
			"every internally looping built-in of String/Array/Dictionary/InclusiveRange/big integers/fixed point driven to sizes only the limits can stop, mutating iteration callbacks, storage loops) plus guarded over-deep recursions, " +
			"each run on 3 engines under computation limit L in {200, 5000, 100000}, memory limit M in {1 MiB, 16 MiB} (host gauges) and call-depth limit D in {20, 200, default}; distinct = program text x limits",
		Assumptions: []string{
			"bounded-progress restatement: an execution must end by itself; between two gauge calls at most 30 s of process CPU time (getrusage) may pass while an execution runs (VERIF_C30_GAP_S overrides for self-tests)",
			"a worker that dies (Go stack overflow, out of memory) is reported by the parent as a violation; the wall-clock watchdog of the parent stays inconclusive-only",
			"over-deep recursion is guarded recursion of 3*D nested calls with L = 100000 and M = 16 MiB, far from the computation limit; under-deep recursion is only counted",
			"an unguarded recursion with L = 100000 is far from the computation limit at every D, so all engines must end it with the same limit class",
		},
		NumCases: func(tier string) int {
			if tier == "thorough" {
				return 800
			}
			return 64
		},
		Floors: map[string]int64{
			"end:computation": 300, "end:memory": 20, "end:call-depth": 50, "end:user-other": 10,
			"family:loop": 25, "family:recursion": 25, "family:nesting": 20, "family:builtin": 50, "family:callback": 8,
			"deep_recursion_over_checked": 60, "deep_recursion_under_ok": 20, "templates_covered": int64(len(templates30)),
			"L:200": 100, "L:5000": 100, "L:100000": 60, "D:20": 60, "D:200": 60, "D:default": 40,
		},
		Finalize: func(a *core.Agg) {
			n := int64(0)
			for k := range a.Counters {
				if strings.HasPrefix(k, "tmpl:") {
					n++
				}
			}
			a.Counters["templates_covered"] = n
		},
		Run: runC30,
	})
}

func runC30(c *core.Ctx) {
	r := c.Rng
	type job struct {
		p       *prog30
		L, M, D uint64
	}
	var jobs []job
	nt := len(templates30)
	for j := 0; j < 10; j++ {
		var t tmpl30
		if j < 6 {
			t = templates30[(c.Case*6+j)%nt] // round robin: every template is covered
		} else {
			t = pick(r, templates30)
		}
		p := &prog30{feature: t.feature, family: t.family, src: t.gen(r), tx: t.tx, contract: t.needC0}
		D := pick(r, limitsD)
		if t.family == "recursion" && D == 0 && !chance(r, 1, 6) {
			// on the pinned tree the interpreter needs ~10 s of CPU to unwind an error raised 2000 calls deep
			// (reported); keep the default depth limit for a sixth of the recursion programs only
			D = limitsD[r.IntN(2)]
		}
		jobs = append(jobs, job{p, pick(r, limitsL), pick(r, limitsM), D})
	}
	if c.Case%64 == 5 {
		// a configured call-depth limit above the default: error unwinding through a 5000-deep call stack
		// (on the pinned tree the interpreter needs 60-120 s of CPU for it; once per 64 cases)
		jobs = append(jobs, job{&prog30{feature: "self-recursion", family: "recursion",
			src: "access(all) fun f(_ n: Int): Int { return f(n + 1) + 1 }\n" + script("  f(0)")}, 100000, 16 << 20, 5000})
	}
	// guarded recursion: over-deep (3*D) and under-deep (D/2)
	for j := 0; j < 2; j++ {
		shape := deepShapes[(c.Case*2+j)%len(deepShapes)]
		D := limitsD[(c.Case+j)%len(limitsD)]
		if D == 0 && (c.Case/3)%4 != 0 {
			D = limitsD[(c.Case/3)%2]
		}
		factor := 3
		levels := 3 * effDepth(D)
		if j == 1 && chance(r, 1, 2) {
			factor = 0
			levels = effDepth(D) / 4
		}
		src, needC0 := deepRecursion(shape, levels)
		jobs = append(jobs, job{&prog30{feature: "guarded-recursion-" + shape, family: "deep-recursion", src: src, contract: needC0, depthT: factor}, 100000, 16 << 20, D})
	}

	for _, jb := range jobs {
		p := jb.p
		ends := map[host.Engine]string{}
		for _, eng := range host.AllEngines {
			res := exec30(c, eng, p, jb.L, jb.M, jb.D)
			ends[eng] = res.end
			wit := map[string]any{"engine": eng.String(), "program": p.src, "computation_limit": jb.L, "memory_limit": jb.M,
				"stack_depth_limit": depthName(jb.D), "ended": res.end, "computation_used": res.comp, "memory_used": res.mem, "error": core.Clip(host.ErrText(res.out), 1500)}
			if res.breach != nil {
				wit["gap_cpu_s"] = res.breach.GapCPU.Seconds()
				wit["goroutines"] = core.Clip(res.breach.Dump, 12000)
				what := "feature=" + p.feature
				if strings.Count(res.breach.Dump, ").RecoverErrors(") >= 5 && strings.Count(res.breach.Dump, "panic(") >= 5 {
					// one root cause whatever the recursion shape: recover / re-panic at every level of a deep call stack
					what = "error-unwinding-through-deep-call-stack"
				}
				c.Violate(fmt.Sprintf("unmetered-work %s [%s]", what, eng),
					fmt.Sprintf("engine %s: %.0f s of CPU time passed without a single gauge call while executing (feature %s)", eng, res.breach.GapCPU.Seconds(), p.feature), wit)
			}
			if !res.ok {
				c.Violate(fmt.Sprintf("ended-with-%s feature=%s [%s]", res.end, p.feature, eng),
					fmt.Sprintf("engine %s: execution under limits ended with %s, neither normally nor with a user-class error", eng, res.end), wit)
				continue
			}
			switch {
			case strings.HasPrefix(res.end, "user:"):
				c.Inc("end:user-other")
				c.Inc("end:" + res.end)
			default:
				c.Inc("end:" + res.end)
			}
			if p.family == "deep-recursion" {
				if p.depthT > 0 {
					c.Inc("deep_recursion_over_checked")
					switch res.end {
					case "call-depth":
					case "normal":
						// a configured limit that is ignored is one defect whatever the recursion shape;
						// under the default limit the shape tells which call path escapes the limiter
						what := "D=configured"
						if jb.D == 0 {
							what = "D=default shape=" + strings.TrimPrefix(p.feature, "guarded-recursion-")
						}
						c.Violate(fmt.Sprintf("call-depth-limit-not-enforced %s [%s]", what, eng),
							fmt.Sprintf("engine %s: a recursion of %d nested calls returned normally although the configured call-depth limit is %s", eng, p.depthT*effDepth(jb.D), depthName(jb.D)), wit)
					default:
						c.Inc("deep_recursion_hit_other_limit")
					}
				} else if res.end == "normal" {
					c.Inc("deep_recursion_under_ok")
				} else {
					c.Inc("deep_recursion_under_failed")
				}
			}
		}
		c.Inc("family:" + p.family)
		c.Inc("tmpl:" + p.feature)
		c.Inc(fmt.Sprintf("L:%d", jb.L))
		c.Inc("D:" + depthName(jb.D))
		c.Distinct(fmt.Sprintf("%s|%d|%d|%d", p.src, jb.L, jb.M, jb.D))
		// unguarded recursion far from the computation limit: the same limit class on every engine
		if p.family == "recursion" && jb.L == 100000 {
			c.Inc("recursion_same_way_checked")
			a, b, d := ends[host.EngI], ends[host.EngV], ends[host.EngVp]
			if a != b || a != d {
				c.Violate(fmt.Sprintf("recursion-fails-differently feature=%s I=%s V=%s Vp=%s", p.feature, a, b, d),
					fmt.Sprintf("unbounded recursion (%s) under L=%d M=%d D=%s ended with %s on I, %s on V, %s on Vp", p.feature, jb.L, jb.M, depthName(jb.D), a, b, d),
					map[string]any{"program": p.src, "computation_limit": jb.L, "memory_limit": jb.M, "stack_depth_limit": depthName(jb.D)})
			}
		}
		if c.WantSample() && p.family != "deep-recursion" {
			c.Sample(map[string]any{"feature": p.feature, "program": p.src, "L": jb.L, "M": jb.M, "D": depthName(jb.D), "ended_I": ends[host.EngI], "ended_V": ends[host.EngV]})
		}
	}
}
