package evt

import (
	"fmt"
	"math/rand/v2"
	"strings"

	"github.com/onflow/cadence/common"

	"verif/harness/host"
)

// sb is a small source builder.
type sb struct{ strings.Builder }

func (b *sb) p(format string, a ...any) {
	if len(a) == 0 {
		b.WriteString(format)
	} else {
		fmt.Fprintf(&b.Builder, format, a...)
	}
	b.WriteByte('\n')
}

func addrLoc(addr uint64) string { return fmt.Sprintf("A.%016x", addr) }

// scriptLoc is the location prefix of declarations of a script run by host.RunScript
// (common.ScriptLocation{0x1, 0}).
var scriptLoc = "s.01" + strings.Repeat("00", 31)

func signers(addrs ...uint64) []common.Address {
	var out []common.Address
	for _, a := range addrs {
		out = append(out, host.Addr(a))
	}
	return out
}

func succeeded(o host.Outcome) bool { return o.Err == nil && o.Escaped == nil }

func pick[T any](r *rand.Rand, xs []T) T { return xs[r.IntN(len(xs))] }

func chance(r *rand.Rand, num, den int) bool { return r.IntN(den) < num }

// lastKind is the innermost non-wrapper error type name ("" when there is no error).
func lastKind(o host.Outcome) string {
	if o.Escaped != nil {
		return "ESCAPED"
	}
	if o.Err == nil {
		return ""
	}
	ks := host.ErrKinds(o.Err)
	if len(ks) == 0 {
		return "?"
	}
	k := ks[len(ks)-1]
	k = strings.TrimPrefix(k, "*")
	if i := strings.LastIndex(k, "."); i >= 0 {
		k = k[i+1:]
	}
	return k
}

func hasKind(o host.Outcome, sub string) bool {
	return o.Err != nil && host.HasKind(o.Err, sub)
}
