package evt

import (
	"fmt"
	"math/rand/v2"
	"sort"
	"strings"

	"github.com/onflow/cadence"

	"verif/harness/core"
	"verif/harness/host"
)

// C49 — attachments follow their lifecycle rules.
//
// A Go-side model of base -> {attachment type -> state} predicts every observation of generated
// programs (log lines and destruction events). Bases: resource C0.R and struct C0.S.

const c49Contract = `access(all) contract C0 {
  access(all) entitlement X
  access(all) resource interface RI { access(all) var f: Int }
  access(all) struct interface SI { access(all) var f: Int }
  access(all) resource R: RI {
    access(all) var f: Int
    access(all) let id: Int
    access(all) event ResourceDestroyed(f: Int = self.f, id: Int = self.id)
    init(f: Int, id: Int) { self.f = f; self.id = id }
    access(all) fun setF(_ v: Int) { self.f = v }
    access(X) fun xf(): Int { return self.f }
  }
  access(all) struct S: SI {
    access(all) var f: Int
    access(all) let id: Int
    init(f: Int, id: Int) { self.f = f; self.id = id }
    access(all) fun setF(_ v: Int) { self.f = v }
    access(X) fun xf(): Int { return self.f }
  }
  access(all) attachment RA0 for R {
    access(all) var x: Int
    access(all) event ResourceDestroyed(x: Int = self.x, bf: Int = base.f, bid: Int = base.id)
    init(x: Int) { self.x = x }
    access(all) fun baseF(): Int { return base.f }
    access(all) fun baseId(): Int { return base.id }
    access(all) fun selfX(): Int { return self.x }
    access(all) fun setX(_ v: Int) { self.x = v }
    access(X) fun xOnly(): Int { return base.xf() * 1000 + self.x }
  }
  access(all) attachment RA1 for R {
    access(all) var x: Int
    access(all) event ResourceDestroyed(bid: Int = base.id, x: Int = self.x, bf: Int = base.f, other: Int? = base[RA0]?.x)
    init(x: Int) { self.x = x }
    access(all) fun baseF(): Int { return base.f }
    access(all) fun baseId(): Int { return base.id }
    access(all) fun selfX(): Int { return self.x }
    access(all) fun setX(_ v: Int) { self.x = v }
    access(X) fun xOnly(): Int { return base.xf() * 1000 + self.x }
  }
  access(all) attachment IA for RI {
    access(all) var x: Int
    access(all) event ResourceDestroyed(x: Int = self.x, bf: Int = base.f)
    init(x: Int) { self.x = x }
    access(all) fun baseF(): Int { return base.f }
    access(all) fun selfX(): Int { return self.x }
    access(all) fun setX(_ v: Int) { self.x = v }
  }
  access(all) attachment GA for AnyResource {
    access(all) var x: Int
    access(all) event ResourceDestroyed(x: Int = self.x)
    init(x: Int) { self.x = x }
    access(all) fun selfX(): Int { return self.x }
    access(all) fun setX(_ v: Int) { self.x = v }
  }
  access(all) attachment SA0 for S {
    access(all) var x: Int
    init(x: Int) { self.x = x }
    access(all) fun baseF(): Int { return base.f }
    access(all) fun baseId(): Int { return base.id }
    access(all) fun selfX(): Int { return self.x }
    access(all) fun setX(_ v: Int) { self.x = v }
    access(X) fun xOnly(): Int { return base.xf() * 1000 + self.x }
  }
  access(all) attachment SA1 for S {
    access(all) var x: Int
    init(x: Int) { self.x = x }
    access(all) fun baseF(): Int { return base.f }
    access(all) fun baseId(): Int { return base.id }
    access(all) fun selfX(): Int { return self.x }
    access(all) fun setX(_ v: Int) { self.x = v }
    access(X) fun xOnly(): Int { return base.xf() * 1000 + self.x }
  }
  access(all) attachment ISA for SI {
    access(all) var x: Int
    init(x: Int) { self.x = x }
    access(all) fun baseF(): Int { return base.f }
    access(all) fun selfX(): Int { return self.x }
    access(all) fun setX(_ v: Int) { self.x = v }
  }
  access(all) attachment GSA for AnyStruct {
    access(all) var x: Int
    init(x: Int) { self.x = x }
    access(all) fun selfX(): Int { return self.x }
    access(all) fun setX(_ v: Int) { self.x = v }
  }
  access(all) resource Box {
    access(all) var r: @R?
    init(_ r: @R) { self.r <- r }
    access(all) fun take(): @R { let x <- self.r <- nil; return <- x! }
    access(all) fun poke(_ v: Int) { self.r?.setF(v) }
  }
  access(all) struct SBox {
    access(all) var s: S
    init(_ s: S) { self.s = s }
  }
  access(all) fun mkR(f: Int, id: Int): @R { return <- create R(f: f, id: id) }
  access(all) fun mkBox(_ r: @R): @Box { return <- create Box(<- r) }
  access(all) fun passR(_ r: @R): @R { return <- r }
  access(all) fun passS(_ s: S): S { return s }
  access(all) fun attachRA0(_ r: @R, _ x: Int): @R { return <- attach RA0(x: x) to <- r }
  access(all) fun attachSA0(_ s: S, _ x: Int): S { return attach SA0(x: x) to s }
}
`

// contract49 returns the contract; without entitled members when ent is false (on the pinned tree the VM
// fails to evaluate default destruction events of attachments whose base or own type has entitled members,
// which would otherwise end most VM histories at their first destruction).
func contract49(ent bool) string {
	if ent {
		return c49Contract
	}
	var out []string
	for _, l := range strings.Split(c49Contract, "\n") {
		if strings.Contains(l, "access(X) fun") {
			continue
		}
		out = append(out, l)
	}
	return strings.Join(out, "\n")
}

const loc49 = "A.0000000000000001.C0."

type adecl struct {
	name      string
	res       bool
	baseF     bool
	baseID    bool
	xOnly     bool
	eventKind int // 0 none, 1 (x,bf,bid), 2 RA1, 3 (x,bf), 4 (x)
}

var resAtts = []*adecl{
	{name: "RA0", res: true, baseF: true, baseID: true, xOnly: true, eventKind: 1},
	{name: "RA1", res: true, baseF: true, baseID: true, xOnly: true, eventKind: 2},
	{name: "IA", res: true, baseF: true, eventKind: 3},
	{name: "GA", res: true, eventKind: 4},
}
var structAtts = []*adecl{
	{name: "SA0", baseF: true, baseID: true, xOnly: true},
	{name: "SA1", baseF: true, baseID: true, xOnly: true},
	{name: "ISA", baseF: true},
	{name: "GSA"},
}

type matt struct {
	d *adecl
	x int64
}

type mbase struct {
	res  bool
	id   int
	f    int64
	atts []*matt
}

func (b *mbase) att(d *adecl) *matt {
	for _, a := range b.atts {
		if a.d == d {
			return a
		}
	}
	return nil
}

func (b *mbase) clone() *mbase {
	n := &mbase{res: b.res, id: b.id, f: b.f}
	for _, a := range b.atts {
		n.atts = append(n.atts, &matt{a.d, a.x})
	}
	return n
}

func (b *mbase) removeAtt(d *adecl) {
	for i, a := range b.atts {
		if a.d == d {
			b.atts = append(b.atts[:i:i], b.atts[i+1:]...)
			return
		}
	}
}

func (b *mbase) typeName() string {
	if b.res {
		return "C0.R"
	}
	return "C0.S"
}

// destruction events (canonical strings) of an attachment / a base
func attEvent(a *matt, b *mbase) (string, bool) {
	switch a.d.eventKind {
	case 1:
		return fmt.Sprintf("%s%s.ResourceDestroyed{bf=%d,bid=%d,x=%d}", loc49, a.d.name, b.f, b.id, a.x), true
	case 2:
		other := "nil"
		if o := b.att(resAtts[0]); o != nil {
			other = fmt.Sprint(o.x)
		}
		return fmt.Sprintf("%s%s.ResourceDestroyed{bf=%d,bid=%d,other=%s,x=%d}", loc49, a.d.name, b.f, b.id, other, a.x), true
	case 3:
		return fmt.Sprintf("%s%s.ResourceDestroyed{bf=%d,x=%d}", loc49, a.d.name, b.f, a.x), true
	case 4:
		return fmt.Sprintf("%s%s.ResourceDestroyed{x=%d}", loc49, a.d.name, a.x), true
	}
	return "", false
}

func baseEvents(b *mbase) []string {
	out := []string{fmt.Sprintf("%sR.ResourceDestroyed{f=%d,id=%d}", loc49, b.f, b.id)}
	for _, a := range b.atts {
		if e, ok := attEvent(a, b); ok {
			out = append(out, e)
		}
	}
	return out
}

func canonEvent(e cadence.Event) string {
	fs := cadence.FieldsMappedByName(e)
	var names []string
	for n := range fs {
		names = append(names, n)
	}
	sort.Strings(names)
	var parts []string
	for _, n := range names {
		v := fs[n]
		s := "<nil>"
		if v != nil {
			s = v.String()
		}
		parts = append(parts, n+"="+s)
	}
	return e.EventType.ID() + "{" + strings.Join(parts, ",") + "}"
}

// ---------------------------------------------------------------- state and programs

type slot49 struct {
	path string
	acct int // 1 or 2
	b    *mbase
}

type state49 struct {
	slots  []*slot49
	nextID int
	nextP  int
}

func (s *state49) clone() *state49 {
	n := &state49{nextID: s.nextID, nextP: s.nextP}
	for _, sl := range s.slots {
		n.slots = append(n.slots, &slot49{sl.path, sl.acct, sl.b.clone()})
	}
	return n
}

type expLog struct {
	want  string
	op    string
	group int // >0: unordered group
}

type prog49 struct {
	src    string
	isTx   bool
	logs   []expLog
	events []string
	fail   string // expected failure kind ("" = must succeed)
	failOp string
	feats  map[string]int
}

type lv49 struct {
	name string
	b    *mbase
}

type gen49 struct {
	r      *rand.Rand
	st     *state49
	p      *prog49
	b      sb
	live   []*lv49 // resource variables
	svars  []*lv49 // struct variables (all remain usable)
	nv     int
	ngroup int
	isTx   bool
	ent    bool // the contract variant with entitled members
}

func (g *gen49) feat(f string) { g.p.feats[f]++ }
func (g *gen49) fresh(prefix string) string {
	g.nv++
	return fmt.Sprintf("%s%d", prefix, g.nv)
}
func (g *gen49) num() int64 { return int64(g.r.IntN(900) + 1) }

func (g *gen49) log(expr, want, op string) {
	g.b.p("    log(%s)", expr)
	g.p.logs = append(g.p.logs, expLog{want: want, op: op})
}

func (g *gen49) drop(v *lv49) {
	for i, x := range g.live {
		if x == v {
			g.live = append(g.live[:i:i], g.live[i+1:]...)
			return
		}
	}
}

func attsOf(b *mbase) []*adecl {
	if b.res {
		return resAtts
	}
	return structAtts
}

// probe logs observations of the attachments of the base denoted by expr (a value or reference expression).
// mode: "value" | "ref" | "authref" (expr is then a reference with entitlement X).
func (g *gen49) probe(expr string, b *mbase, mode, op string) {
	r := g.r
	op = op + "/" + mode
	for _, d := range attsOf(b) {
		if !chance(r, 3, 5) {
			continue
		}
		a := b.att(d)
		t := "C0." + d.name
		if chance(r, 1, 2) {
			g.log(fmt.Sprintf("%s[%s] == nil", expr, t), fmt.Sprint(a == nil), op+" presence")
		}
		if a == nil {
			g.log(fmt.Sprintf("%s[%s]?.selfX()", expr, t), "nil", op+" absent-access")
			continue
		}
		g.log(fmt.Sprintf("%s[%s]!.selfX()", expr, t), fmt.Sprint(a.x), op+" self-field")
		if d.baseF {
			g.log(fmt.Sprintf("%s[%s]!.baseF()", expr, t), fmt.Sprint(b.f), op+" base-field")
		}
		if d.baseID && chance(r, 1, 2) {
			g.log(fmt.Sprintf("%s[%s]!.baseId()", expr, t), fmt.Sprint(b.id), op+" base-identity")
		}
		if d.xOnly && g.ent && mode != "ref" {
			// value access is fully entitled; authref carries X
			g.log(fmt.Sprintf("%s[%s]!.xOnly()", expr, t), fmt.Sprint(b.f*1000+a.x), op+" entitled-function")
			g.feat("entitled_access")
		}
	}
	g.feat("probe_" + mode)
}

// probeVar probes a variable directly and/or through references.
func (g *gen49) probeVar(name string, b *mbase, op string) {
	switch g.r.IntN(4) {
	case 0, 1:
		g.probe(name, b, "value", op)
	case 2:
		rn := g.fresh("q")
		g.b.p("    let %s = &%s as &%s", rn, name, b.typeName())
		g.probe(rn, b, "ref", op)
	case 3:
		rn := g.fresh("q")
		g.b.p("    let %s = &%s as auth(C0.X) &%s", rn, name, b.typeName())
		g.probe(rn, b, "authref", op)
	}
}

func (g *gen49) forEach(expr string, b *mbase, op string) {
	g.ngroup++
	kind := "AnyStructAttachment"
	if b.res {
		kind = "AnyResourceAttachment"
	}
	tag := fmt.Sprintf("FE%d ", g.ngroup)
	g.b.p("    %s.forEachAttachment(fun (a: &%s) { log(%q.concat(a.getType().identifier)) })", expr, kind, tag)
	for _, a := range b.atts {
		g.p.logs = append(g.p.logs, expLog{want: fmt.Sprintf("%q", tag+loc49+a.d.name), op: op + " forEachAttachment", group: g.ngroup})
	}
	// a sentinel line closes the group (also when the group is empty)
	g.log(fmt.Sprintf("%q", tag+"end"), fmt.Sprintf("%q", tag+"end"), op+" forEachAttachment-end")
	g.feat("for_each_attachment")
}

func (g *gen49) newR() *lv49 {
	g.st.nextID++
	b := &mbase{res: true, id: g.st.nextID, f: g.num()}
	v := &lv49{g.fresh("v"), b}
	g.b.p("    let %s <- C0.mkR(f: %d, id: %d)", v.name, b.f, b.id)
	g.live = append(g.live, v)
	return v
}

func (g *gen49) pickLive() *lv49 {
	if len(g.live) == 0 {
		return g.newR()
	}
	return pick(g.r, g.live)
}

// rename: the resource moves to a new variable.
func (g *gen49) moved(v *lv49, name string) *lv49 {
	g.drop(v)
	n := &lv49{name, v.b}
	g.live = append(g.live, n)
	return n
}

func (g *gen49) attachRes(v *lv49, d *adecl) *lv49 {
	n := g.fresh("v")
	x := g.num()
	if d.name == "RA0" && chance(g.r, 1, 3) {
		g.b.p("    let %s <- C0.attachRA0(<- %s, %d)", n, v.name, x)
	} else {
		g.b.p("    let %s <- attach C0.%s(x: %d) to <- %s", n, d.name, x, v.name)
	}
	v.b.atts = append(v.b.atts, &matt{d, x})
	return g.moved(v, n)
}

func (g *gen49) resOp() {
	r := g.r
	switch r.IntN(16) {
	case 0:
		g.newR()
		g.feat("create_resource")
	case 1, 2, 3:
		v := g.pickLive()
		var cands []*adecl
		for _, d := range resAtts {
			if v.b.att(d) == nil {
				cands = append(cands, d)
			}
		}
		if len(cands) == 0 {
			return
		}
		nv := g.attachRes(v, pick(r, cands))
		g.probeVar(nv.name, nv.b, "attach")
		g.feat("attach_resource")
	case 4:
		v := g.pickLive()
		v.b.f = g.num()
		g.b.p("    %s.setF(%d)", v.name, v.b.f)
		g.probeVar(v.name, v.b, "set-base-field")
	case 5:
		v := g.pickLive()
		if len(v.b.atts) == 0 {
			return
		}
		a := pick(r, v.b.atts)
		a.x = g.num()
		g.b.p("    %s[C0.%s]!.setX(%d)", v.name, a.d.name, a.x)
		g.probeVar(v.name, v.b, "set-attachment-field")
	case 6, 7, 8:
		g.moveRes(g.pickLive())
	case 9:
		v := g.pickLive()
		g.forEach(v.name, v.b, "resource")
	case 10, 11:
		v := g.pickLive()
		d := pick(r, resAtts)
		if len(v.b.atts) > 0 && chance(r, 2, 3) {
			d = pick(r, v.b.atts).d
		}
		if a := v.b.att(d); a != nil {
			if e, ok := attEvent(a, v.b); ok {
				g.p.events = append(g.p.events, e)
			}
			v.b.removeAtt(d)
			g.feat("remove_resource_attachment")
		} else {
			g.feat("remove_absent")
		}
		g.b.p("    remove C0.%s from %s", d.name, v.name)
		g.probe(v.name, v.b, "value", "remove")
	case 12:
		v := g.pickLive()
		g.p.events = append(g.p.events, baseEvents(v.b)...)
		g.b.p("    destroy %s", v.name)
		g.drop(v)
		g.feat("destroy_base")
		if len(v.b.atts) > 0 {
			g.feat("destroy_base_with_attachments")
		}
	case 13:
		if !g.isTx {
			return
		}
		g.saveRes(g.pickLive())
	case 14, 15:
		if !g.isTx || len(g.st.slots) == 0 {
			return
		}
		var rs []*slot49
		for _, s := range g.st.slots {
			if s.b.res {
				rs = append(rs, s)
			}
		}
		if len(rs) == 0 {
			return
		}
		s := pick(r, rs)
		acct := acctName(s.acct)
		switch r.IntN(4) {
		case 0:
			// in-place observation through a storage reference
			q := g.fresh("q")
			if chance(r, 1, 2) {
				g.b.p("    let %s = %s.storage.borrow<&C0.R>(from: /storage/%s)!", q, acct, s.path)
				g.probe(q, s.b, "ref", "stored")
			} else {
				g.b.p("    let %s = %s.storage.borrow<auth(C0.X) &C0.R>(from: /storage/%s)!", q, acct, s.path)
				g.probe(q, s.b, "authref", "stored")
			}
			g.feat("probe_in_storage")
		case 1:
			// in-place mutation through a storage reference, then observation
			s.b.f = g.num()
			g.b.p("    %s.storage.borrow<&C0.R>(from: /storage/%s)!.setF(%d)", acct, s.path, s.b.f)
			if len(s.b.atts) > 0 {
				a := pick(r, s.b.atts)
				a.x = g.num()
				g.b.p("    %s.storage.borrow<&C0.R>(from: /storage/%s)![C0.%s]!.setX(%d)", acct, s.path, a.d.name, a.x)
			}
			q := g.fresh("q")
			g.b.p("    let %s = %s.storage.borrow<&C0.R>(from: /storage/%s)!", q, acct, s.path)
			g.probe(q, s.b, "ref", "mutated-in-storage")
			g.feat("mutate_in_storage")
		default:
			n := g.fresh("v")
			g.b.p("    let %s <- %s.storage.load<@C0.R>(from: /storage/%s)!", n, acct, s.path)
			g.removeSlot(s)
			v := &lv49{n, s.b}
			g.live = append(g.live, v)
			g.probeVar(v.name, v.b, "loaded")
			g.feat("load_resource")
		}
	}
}

func acctName(a int) string {
	if a == 2 {
		return "acct2"
	}
	return "acct"
}

func (g *gen49) removeSlot(s *slot49) {
	for i, x := range g.st.slots {
		if x == s {
			g.st.slots = append(g.st.slots[:i:i], g.st.slots[i+1:]...)
			return
		}
	}
}

func (g *gen49) saveRes(v *lv49) {
	g.st.nextP++
	s := &slot49{path: fmt.Sprintf("r%d", g.st.nextP), acct: 1 + g.r.IntN(2), b: v.b}
	g.b.p("    %s.storage.save(<- %s, to: /storage/%s)", acctName(s.acct), v.name, s.path)
	g.st.slots = append(g.st.slots, s)
	g.drop(v)
	g.feat("save_resource")
	if s.acct == 2 {
		g.feat("move_to_other_account")
	}
}

// moveRes moves a resource through a variable / container / function / storage and observes it at every station.
func (g *gen49) moveRes(v *lv49) {
	r := g.r
	b := v.b
	n := g.fresh("v")
	mutate := func(place string) {
		if chance(r, 1, 2) {
			b.f = g.num()
			g.b.p("    %s.setF(%d)", place, b.f)
		}
		if len(b.atts) > 0 && chance(r, 1, 2) {
			a := pick(r, b.atts)
			a.x = g.num()
			g.b.p("    %s[C0.%s]!.setX(%d)", place, a.d.name, a.x)
		}
	}
	kinds := []string{"variable", "array", "dictionary", "optional", "function", "box"}
	if g.isTx {
		kinds = append(kinds, "storage", "storage")
	}
	kind := pick(r, kinds)
	op := "moved(" + kind + ")"
	switch kind {
	case "variable":
		g.b.p("    let %s <- %s", n, v.name)
	case "array":
		a := g.fresh("a")
		g.b.p("    let %s <- [<- %s]", a, v.name)
		g.probe(a+"[0]", b, "value", "inside(array)")
		mutate(a + "[0]")
		if chance(r, 1, 6) {
			g.b.p("    destroy %s", a)
			g.p.events = append(g.p.events, baseEvents(b)...)
			g.drop(v)
			g.feat("destroy_in_container")
			return
		}
		g.b.p("    let %s <- %s.removeFirst()", n, a)
		g.b.p("    destroy %s", a)
	case "dictionary":
		d := g.fresh("d")
		g.b.p("    let %s <- {\"k\": <- %s}", d, v.name)
		if chance(r, 1, 6) {
			g.b.p("    destroy %s", d)
			g.p.events = append(g.p.events, baseEvents(b)...)
			g.drop(v)
			g.feat("destroy_in_container")
			return
		}
		g.b.p("    let %s <- %s.remove(key: \"k\")!", n, d)
		g.b.p("    destroy %s", d)
	case "optional":
		o := g.fresh("o")
		g.b.p("    let %s: @C0.R? <- %s", o, v.name)
		g.b.p("    let %s <- %s!", n, o)
	case "function":
		g.b.p("    let %s <- C0.passR(<- %s)", n, v.name)
	case "box":
		bx := g.fresh("b")
		g.b.p("    let %s <- C0.mkBox(<- %s)", bx, v.name)
		if chance(r, 1, 2) {
			b.f = g.num()
			g.b.p("    %s.poke(%d)", bx, b.f)
		}
		if chance(r, 1, 6) {
			g.b.p("    destroy %s", bx)
			g.p.events = append(g.p.events, baseEvents(b)...)
			g.drop(v)
			g.feat("destroy_in_container")
			return
		}
		g.b.p("    let %s <- %s.take()", n, bx)
		g.b.p("    destroy %s", bx)
	case "storage":
		g.st.nextP++
		p := fmt.Sprintf("t%d", g.st.nextP)
		acct := acctName(1 + r.IntN(2))
		g.b.p("    %s.storage.save(<- %s, to: /storage/%s)", acct, v.name, p)
		q := g.fresh("q")
		g.b.p("    let %s = %s.storage.borrow<auth(C0.X) &C0.R>(from: /storage/%s)!", q, acct, p)
		g.probe(q, b, "authref", "inside(storage)")
		mutate(q)
		g.b.p("    let %s <- %s.storage.load<@C0.R>(from: /storage/%s)!", n, acct, p)
	}
	nv := g.moved(v, n)
	g.probeVar(nv.name, nv.b, op)
	g.feat("move_" + kind)
}

// ---- structs

func (g *gen49) newS() *lv49 {
	g.st.nextID++
	b := &mbase{id: g.st.nextID, f: g.num()}
	v := &lv49{g.fresh("s"), b}
	g.b.p("    var %s = C0.S(f: %d, id: %d)", v.name, b.f, b.id)
	g.svars = append(g.svars, v)
	return v
}

func (g *gen49) pickS() *lv49 {
	if len(g.svars) == 0 {
		return g.newS()
	}
	return pick(g.r, g.svars)
}

func (g *gen49) structOp() {
	r := g.r
	switch r.IntN(14) {
	case 0:
		g.newS()
	case 1, 2, 3:
		v := g.pickS()
		var cands []*adecl
		for _, d := range structAtts {
			if v.b.att(d) == nil {
				cands = append(cands, d)
			}
		}
		if len(cands) == 0 {
			return
		}
		d := pick(r, cands)
		n := &lv49{g.fresh("s"), v.b.clone()}
		x := g.num()
		if d.name == "SA0" && chance(r, 1, 3) {
			g.b.p("    var %s = C0.attachSA0(%s, %d)", n.name, v.name, x)
		} else {
			g.b.p("    var %s = attach C0.%s(x: %d) to %s", n.name, d.name, x, v.name)
		}
		n.b.atts = append(n.b.atts, &matt{d, x})
		g.svars = append(g.svars, n)
		g.probeVar(n.name, n.b, "attach")
		// the source struct is a copy source: it must be unchanged
		g.probe(v.name, v.b, "value", "attach-source")
		g.feat("attach_struct")
	case 4:
		v := g.pickS()
		v.b.f = g.num()
		g.b.p("    %s.setF(%d)", v.name, v.b.f)
		g.probeVar(v.name, v.b, "set-base-field")
	case 5:
		v := g.pickS()
		if len(v.b.atts) == 0 {
			return
		}
		a := pick(r, v.b.atts)
		a.x = g.num()
		g.b.p("    %s[C0.%s]!.setX(%d)", v.name, a.d.name, a.x)
		g.probeVar(v.name, v.b, "set-attachment-field")
	case 6, 7, 8, 9:
		g.copyStruct(g.pickS())
	case 10:
		v := g.pickS()
		g.forEach(v.name, v.b, "struct")
	case 11, 12:
		v := g.pickS()
		d := pick(r, structAtts)
		if len(v.b.atts) > 0 && chance(r, 2, 3) {
			d = pick(r, v.b.atts).d
		}
		if v.b.att(d) != nil {
			g.feat("remove_struct_attachment")
		}
		v.b.removeAtt(d)
		g.b.p("    remove C0.%s from %s", d.name, v.name)
		g.probe(v.name, v.b, "value", "remove")
	case 13:
		if !g.isTx {
			return
		}
		var ss []*slot49
		for _, s := range g.st.slots {
			if !s.b.res {
				ss = append(ss, s)
			}
		}
		if len(ss) == 0 {
			return
		}
		s := pick(r, ss)
		acct := acctName(s.acct)
		switch r.IntN(3) {
		case 0:
			q := g.fresh("q")
			g.b.p("    let %s = %s.storage.borrow<auth(C0.X) &C0.S>(from: /storage/%s)!", q, acct, s.path)
			g.probe(q, s.b, "authref", "stored")
			g.feat("probe_in_storage")
		case 1:
			s.b.f = g.num()
			g.b.p("    %s.storage.borrow<&C0.S>(from: /storage/%s)!.setF(%d)", acct, s.path, s.b.f)
			if len(s.b.atts) > 0 {
				a := pick(r, s.b.atts)
				a.x = g.num()
				g.b.p("    %s.storage.borrow<&C0.S>(from: /storage/%s)![C0.%s]!.setX(%d)", acct, s.path, a.d.name, a.x)
			}
			q := g.fresh("q")
			g.b.p("    let %s = %s.storage.borrow<&C0.S>(from: /storage/%s)!", q, acct, s.path)
			g.probe(q, s.b, "ref", "mutated-in-storage")
			g.feat("mutate_in_storage")
		case 2:
			n := &lv49{g.fresh("s"), s.b.clone()}
			g.b.p("    var %s = %s.storage.copy<C0.S>(from: /storage/%s)!", n.name, acct, s.path)
			g.svars = append(g.svars, n)
			g.probeVar(n.name, n.b, "copied-from-storage")
			g.feat("load_struct")
		}
	}
}

// copyStruct copies a struct along some path, then mutates one side and observes both (independence).
func (g *gen49) copyStruct(v *lv49) {
	r := g.r
	n := &lv49{g.fresh("s"), v.b.clone()}
	kinds := []string{"variable", "array", "dictionary", "optional", "function", "box"}
	if g.isTx {
		kinds = append(kinds, "storage", "storage")
	}
	kind := pick(r, kinds)
	switch kind {
	case "variable":
		g.b.p("    var %s = %s", n.name, v.name)
	case "array":
		a := g.fresh("a")
		g.b.p("    let %s = [%s]", a, v.name)
		g.probe(a+"[0]", n.b, "value", "inside(array)")
		g.b.p("    var %s = %s[0]", n.name, a)
	case "dictionary":
		d := g.fresh("d")
		g.b.p("    let %s = {\"k\": %s}", d, v.name)
		g.b.p("    var %s = %s[\"k\"]!", n.name, d)
	case "optional":
		o := g.fresh("o")
		g.b.p("    let %s: C0.S? = %s", o, v.name)
		g.b.p("    var %s = %s!", n.name, o)
	case "function":
		g.b.p("    var %s = C0.passS(%s)", n.name, v.name)
	case "box":
		bx := g.fresh("b")
		g.b.p("    let %s = C0.SBox(%s)", bx, v.name)
		g.probe(bx+".s", n.b, "value", "inside(box)")
		g.b.p("    var %s = %s.s", n.name, bx)
	case "storage":
		g.st.nextP++
		s := &slot49{path: fmt.Sprintf("s%d", g.st.nextP), acct: 1 + r.IntN(2), b: v.b.clone()}
		acct := acctName(s.acct)
		g.b.p("    %s.storage.save(%s, to: /storage/%s)", acct, v.name, s.path)
		g.st.slots = append(g.st.slots, s)
		q := g.fresh("q")
		g.b.p("    let %s = %s.storage.borrow<&C0.S>(from: /storage/%s)!", q, acct, s.path)
		g.probe(q, s.b, "ref", "inside(storage)")
		g.b.p("    var %s = %s.storage.copy<C0.S>(from: /storage/%s)!", n.name, acct, s.path)
		g.feat("save_struct")
	}
	g.svars = append(g.svars, n)
	op := "copied(" + kind + ")"
	g.probeVar(n.name, n.b, op)
	// independence: mutate the copy (or the original) and observe both
	side, other := n, v
	if chance(r, 1, 2) {
		side, other = v, n
	}
	side.b.f = g.num()
	g.b.p("    %s.setF(%d)", side.name, side.b.f)
	if len(side.b.atts) > 0 {
		a := pick(r, side.b.atts)
		a.x = g.num()
		g.b.p("    %s[C0.%s]!.setX(%d)", side.name, a.d.name, a.x)
	}
	if len(side.b.atts) > 0 && chance(r, 1, 4) {
		d := pick(r, side.b.atts).d
		side.b.removeAtt(d)
		g.b.p("    remove C0.%s from %s", d.name, side.name)
	}
	g.probe(side.name, side.b, "value", op+" mutated-side")
	g.probe(other.name, other.b, "value", op+" other-side")
	g.feat("copy_" + kind)
}

func genProg49(r *rand.Rand, st *state49, isTx, ent bool) (*prog49, *state49) {
	snapshot := st.clone()
	p := &prog49{isTx: isTx, feats: map[string]int{}}
	g := &gen49{r: r, st: st, p: p, isTx: isTx, ent: ent}
	willFail := chance(r, 1, 6)
	n := 4 + r.IntN(8)
	resLeaning := chance(r, 1, 2)
	for i := 0; i < n; i++ {
		if chance(r, 1, 2) == resLeaning || chance(r, 1, 4) {
			g.resOp()
		} else {
			g.structOp()
		}
	}
	if willFail {
		// duplicate attachment: must fail with the duplicate-attachment user error and leave no trace
		if chance(r, 1, 2) {
			v := g.pickLive()
			if len(v.b.atts) == 0 {
				v = g.attachRes(v, pick(r, resAtts))
			}
			d := pick(r, v.b.atts).d
			n := g.fresh("v")
			if d.name == "RA0" && chance(r, 1, 2) {
				g.b.p("    let %s <- C0.attachRA0(<- %s, 1)", n, v.name)
			} else {
				g.b.p("    let %s <- attach C0.%s(x: 1) to <- %s", n, d.name, v.name)
			}
			g.moved(v, n)
			p.failOp = "duplicate-attach(resource)"
		} else {
			v := g.pickS()
			if len(v.b.atts) == 0 {
				d := pick(r, structAtts)
				x := g.num()
				g.b.p("    %s = attach C0.%s(x: %d) to %s", v.name, d.name, x, v.name)
				v.b.atts = append(v.b.atts, &matt{d, x})
			}
			d := pick(r, v.b.atts).d
			if d.name == "SA0" && chance(r, 1, 2) {
				g.b.p("    let %s = C0.attachSA0(%s, 1)", g.fresh("s"), v.name)
			} else {
				g.b.p("    let %s = attach C0.%s(x: 1) to %s", g.fresh("s"), d.name, v.name)
			}
			p.failOp = "duplicate-attach(struct)"
		}
		p.fail = "DuplicateAttachmentError"
	}
	for len(g.live) > 0 {
		v := g.live[0]
		if isTx && !willFail && chance(r, 1, 2) {
			g.saveRes(v)
		} else {
			if !willFail {
				p.events = append(p.events, baseEvents(v.b)...)
			}
			g.b.p("    destroy %s", v.name)
			g.drop(v)
		}
	}
	var out sb
	out.p("import C0 from 0x1")
	if isTx {
		out.p("transaction {")
		out.p("  prepare(acct: auth(Storage) &Account, acct2: auth(Storage) &Account) {")
		out.WriteString(g.b.String())
		out.p("  }")
		out.p("}")
	} else {
		out.p("access(all) fun main() {")
		out.WriteString(g.b.String())
		out.p("}")
	}
	p.src = out.String()
	if willFail {
		return p, snapshot
	}
	return p, st
}

// ---------------------------------------------------------------- oracle

func compareLogs(obs []string, exp []expLog) (string, string) {
	i := 0
	for j := 0; j < len(exp); {
		e := exp[j]
		if e.group == 0 {
			if i >= len(obs) {
				return e.op + " observation-missing", fmt.Sprintf("log #%d missing: expected %s (%s)", j, e.want, e.op)
			}
			if obs[i] != e.want {
				return e.op + " wrong-value", fmt.Sprintf("log #%d (%s): expected %s, observed %s", j, e.op, e.want, obs[i])
			}
			i++
			j++
			continue
		}
		// unordered group: consume expectations of this group and observed lines with the group's tag
		var want []string
		k := j
		for k < len(exp) && exp[k].group == e.group {
			want = append(want, exp[k].want)
			k++
		}
		tag := want[0][:strings.Index(want[0], " ")+1]
		var got []string
		for i < len(obs) && strings.HasPrefix(obs[i], tag) && !strings.HasSuffix(obs[i], "end\"") {
			got = append(got, obs[i])
			i++
		}
		sort.Strings(want)
		sort.Strings(got)
		if strings.Join(want, "|") != strings.Join(got, "|") {
			return e.op + " set-mismatch", fmt.Sprintf("forEachAttachment visited %v, the model has %v", got, want)
		}
		j = k
	}
	// an empty group expectation produces no exp entries: extra observed lines are checked here
	if i != len(obs) {
		return "extra-observation", fmt.Sprintf("%d more log lines than the model predicts, first: %s", len(obs)-i, obs[i])
	}
	return "", ""
}

func compareEvents(obs []cadence.Event, exp []string) (string, string) {
	var got []string
	for _, e := range obs {
		if strings.HasPrefix(e.EventType.ID(), "flow.") {
			continue
		}
		got = append(got, canonEvent(e))
	}
	want := append([]string{}, exp...)
	sort.Strings(got)
	sort.Strings(want)
	gi, wi := 0, 0
	for gi < len(got) || wi < len(want) {
		switch {
		case wi >= len(want) || (gi < len(got) && got[gi] < want[wi]):
			cls := "unexpected-or-duplicate-destruction-event"
			return cls + " " + eventClass(got[gi]), "delivered but not predicted by the model (or delivered twice): " + got[gi]
		case gi >= len(got) || want[wi] < got[gi]:
			return "missing-or-wrong-destruction-event " + eventClass(want[wi]), "predicted by the model but not delivered (with these values): " + want[wi] + "; delivered: " + strings.Join(got, " ; ")
		default:
			gi++
			wi++
		}
	}
	return "", ""
}

func eventClass(s string) string {
	s = strings.TrimPrefix(s, loc49)
	if i := strings.Index(s, "."); i > 0 {
		s = s[:i]
	}
	if s == "R" {
		return "base"
	}
	return "attachment:" + s
}

func init() {
	core.Register(&core.Prop{
		ID: "C49",
		Rule: "per case a history of 6-10 generated transactions (two signers = two accounts) and scripts over a deployed contract with resource base R, struct base S, attachments for R, S, " +
			"their interfaces and AnyResource/AnyStruct; operations attach (also duplicate => must fail), v[A] directly / through references / through entitled references, attachment functions reading base.f, base.id, self.x, " +
			"moves through variables, arrays, dictionaries, optionals, functions, a wrapping resource, storage and another account with in-place mutation at each station, forEachAttachment, remove, destroy (also inside containers), " +
			"struct copies along the same paths with one-sided mutation; every observation is a log line or a destruction event predicted by a Go model; 3 engines in lockstep; distinct = distinct program text",
		Assumptions: []string{
			"log lines and delivered events are the observations; forEachAttachment order is not judged (set comparison)",
			"the authorization of attachment references is used only as an access path (entitled functions are called through entitled references and owned values); it is not itself judged",
			"a program that fails identically on all three engines with a checker error is a generator slip (counted, floor-protected), a failure on some engines only is a violation",
		},
		NumCases: func(tier string) int {
			if tier == "thorough" {
				return 4000
			}
			return 96
		},
		Floors: map[string]int64{
			"successful_executions": 300, "log_lines_checked": 8000, "events_checked": 400, "duplicate_attach_rejected": 60,
			"feat:attach_resource": 100, "feat:attach_struct": 70, "feat:remove_resource_attachment": 15, "feat:remove_struct_attachment": 10, "feat:remove_absent": 20,
			"feat:destroy_base_with_attachments": 10, "feat:destroy_in_container": 5, "feat:for_each_attachment": 60,
			"feat:move_variable": 10, "feat:move_array": 10, "feat:move_dictionary": 10, "feat:move_optional": 10, "feat:move_function": 10, "feat:move_box": 10, "feat:move_storage": 10,
			"feat:copy_variable": 10, "feat:copy_array": 10, "feat:copy_dictionary": 10, "feat:copy_optional": 10, "feat:copy_function": 10, "feat:copy_box": 10, "feat:copy_storage": 10,
			"feat:load_resource": 15, "feat:load_struct": 3, "feat:mutate_in_storage": 10, "feat:probe_in_storage": 10, "feat:move_to_other_account": 20,
			"feat:probe_value": 300, "feat:probe_ref": 100, "feat:probe_authref": 100, "feat:entitled_access": 40,
			"cases_with_entitled_members": 10, "cases_without_entitled_members": 10,
		},
		Run: runC49,
	})
}

func runC49(c *core.Ctx) {
	r := c.Rng
	st := &state49{}
	ent := chance(r, 1, 2)
	contract := contract49(ent)
	if ent {
		c.Inc("cases_with_entitled_members")
	} else {
		c.Inc("cases_without_entitled_members")
	}
	var progs []*prog49
	n := 6 + r.IntN(5)
	for i := 0; i < n; i++ {
		var p *prog49
		p, st = genProg49(r, st, chance(r, 3, 4), ent)
		progs = append(progs, p)
	}
	hosts := map[host.Engine]*host.Host{}
	alive := map[host.Engine]bool{}
	for _, eng := range host.AllEngines {
		h := host.New()
		if o := h.Deploy(eng, host.Addr(1), "C0", contract); !succeeded(o) {
			c.Violate(fmt.Sprintf("[%s] deploy-failed", eng), "the attachment contract does not deploy: "+host.ErrText(o), map[string]any{"contract": contract})
			continue
		}
		hosts[eng] = h
		alive[eng] = true
	}
	for pi, p := range progs {
		type res struct {
			o      host.Outcome
			logs   []string
			events []cadence.Event
		}
		results := map[host.Engine]res{}
		for _, eng := range host.AllEngines {
			if !alive[eng] {
				continue
			}
			h := hosts[eng]
			h.ResetTrace()
			var o host.Outcome
			if p.isTx {
				o = h.RunTx(eng, p.src, nil, signers(1, 2), nil)
			} else {
				o = h.RunScript(eng, p.src, nil, nil)
			}
			c.Eval(1)
			results[eng] = res{o, append([]string{}, h.Logs...), append([]cadence.Event{}, h.Events...)}
		}
		wit := func(eng host.Engine, extra map[string]any) map[string]any {
			m := map[string]any{"engine": eng.String(), "contract": contract, "program": p.src}
			var prior []string
			for _, q := range progs[:pi] {
				prior = append(prior, q.src)
			}
			m["prior_programs"] = prior
			for k, v := range extra {
				m[k] = v
			}
			return m
		}
		// a program rejected by the checker on every engine is a generator slip
		allChecker := len(results) > 0
		for _, rs := range results {
			if succeeded(rs.o) || !(hasKind(rs.o, "CheckerError") || hasKind(rs.o, "sema.")) {
				allChecker = false
			}
		}
		if allChecker {
			c.Inc("generator_rejected")
			for eng, rs := range results {
				c.Note("generator_rejected", core.Clip(host.ErrText(rs.o), 1200)+"\n"+p.src)
				_ = eng
				break
			}
			return
		}
		for _, eng := range host.AllEngines {
			rs, ok := results[eng]
			if !ok {
				continue
			}
			if p.fail != "" {
				switch {
				case succeeded(rs.o):
					c.Violate(fmt.Sprintf("[%s] %s not-rejected", eng, p.failOp), "engine "+eng.String()+": attaching an attachment type that the base already has succeeded", wit(eng, nil))
					alive[eng] = false
				case host.Classify(rs.o) != host.ClassUser:
					// not a user error at all: the same key as any other unexpected failure (one defect, one key)
					c.Violate(fmt.Sprintf("[%s] unexpected-failure %s:%s", eng, host.Classify(rs.o), lastKind(rs.o)),
						"engine "+eng.String()+": a program ending in a duplicate attach failed, but not with a user error: "+host.ErrText(rs.o), wit(eng, nil))
					alive[eng] = false
				case !hasKind(rs.o, p.fail):
					c.Violate(fmt.Sprintf("[%s] %s wrong-error %s", eng, p.failOp, lastKind(rs.o)),
						"engine "+eng.String()+": duplicate attach did not fail with the duplicate-attachment user error: "+host.ErrText(rs.o), wit(eng, nil))
					alive[eng] = false
				default:
					c.Inc("duplicate_attach_rejected")
				}
				continue
			}
			if !succeeded(rs.o) {
				c.Violate(fmt.Sprintf("[%s] unexpected-failure %s:%s", eng, host.Classify(rs.o), lastKind(rs.o)),
					"engine "+eng.String()+": a program the model predicts to succeed failed: "+host.ErrText(rs.o), wit(eng, nil))
				alive[eng] = false
				continue
			}
			c.Inc("successful_executions")
			c.Count("log_lines_checked", int64(len(rs.logs)))
			c.Count("events_checked", int64(len(rs.events)))
			if key, msg := compareLogs(rs.logs, p.logs); key != "" {
				c.Violate(fmt.Sprintf("[%s] %s", eng, key), "engine "+eng.String()+": "+msg, wit(eng, map[string]any{"observed_logs": rs.logs}))
				alive[eng] = false
			}
			if key, msg := compareEvents(rs.events, p.events); key != "" {
				c.Violate(fmt.Sprintf("[%s] %s", eng, key), "engine "+eng.String()+": "+msg, wit(eng, nil))
				alive[eng] = false
			}
			if eng == host.EngI {
				c.Distinct(p.src)
				for f, n := range p.feats {
					c.Count("feat:"+f, int64(n))
				}
				if pi == 0 && c.WantSample() {
					c.Sample(map[string]any{"program": p.src, "logs": len(rs.logs), "events": len(rs.events)})
				}
			}
		}
	}
}
