package evt

import (
	"fmt"
	"math/rand/v2"
	"strings"
)

// Generator of C30: programs whose termination guards are REMOVED. Only the limits can stop them
// (or an ordinary user error such as an overflow or a mutation-during-iteration error).

type prog30 struct {
	feature  string // the loop / recursion / built-in the program is about (key of the unmetered-work monitor)
	family   string // loop | recursion | deep-recursion | nesting | builtin | callback
	src      string
	tx       bool
	contract bool // needs the helper contract C0 at 0x1
	depthT   int  // deep-recursion: the recursion is guarded and reaches exactly depthT*D levels
}

const c30Contract = `access(all) contract C0 {
  access(all) struct interface CB { access(all) fun call(_ n: Int): Int }
  access(all) fun run(_ cb: {CB}, _ n: Int): Int { return cb.call(n + 1) }
  access(all) resource R { access(all) var f: Int; init() { self.f = 1 } }
  access(all) attachment A for R { access(all) fun id(): Int { return 1 } }
  access(all) attachment B for R { access(all) fun id(): Int { return 2 } }
  access(all) fun mk(): @R { return <- attach A() to <- create R() }
  access(all) fun addB(_ r: @R): @R { return <- attach B() to <- r }
  access(all) fun spin(_ n: Int): Int { return self.spin(n + 1) }
}
`

type tmpl30 struct {
	feature string
	family  string
	tx      bool
	needC0  bool
	gen     func(r *rand.Rand) string
}

func script(body string) string { return "access(all) fun main() {\n" + body + "\n}\n" }
func scriptR(ret, body string) string {
	return "access(all) fun main(): " + ret + " {\n" + body + "\n}\n"
}
func txn(body string) string {
	return "import C0 from 0x1\ntransaction {\n  prepare(acct: auth(Storage) &Account) {\n" + body + "\n  }\n}\n"
}

func small(r *rand.Rand) int { return 1 + r.IntN(9) }

// grow returns statements that double `v` k times (a bounded build phase), for builtins probed at size.
func growString(r *rand.Rand) (string, int) {
	k := 8 + r.IntN(9) // 2^8 .. 2^16 copies
	seed := pick(r, []string{"ab", "xyz", "a,b;", "0f", "\\u{e9}t\\u{e9}", "Aa"})
	return fmt.Sprintf("  var s = \"%s\"\n  var i = 0\n  while i < %d { s = s.concat(s); i = i + 1 }", seed, k), k
}

func growArray(r *rand.Rand) string {
	k := 8 + r.IntN(9)
	return fmt.Sprintf("  var a: [Int] = [%d, %d, %d]\n  var i = 0\n  while i < %d { a = a.concat(a); i = i + 1 }", small(r), small(r), small(r), k)
}

var templates30 = []tmpl30{
	// ---------------------------------------------------------------- loops
	{"while-true-empty", "loop", false, false, func(r *rand.Rand) string { return script("  while true {}") }},
	{"while-true-counter", "loop", false, false, func(r *rand.Rand) string {
		return script(fmt.Sprintf("  var i = %d\n  while true { i = i + %d }", small(r), small(r)))
	}},
	{"while-true-continue", "loop", false, false, func(r *rand.Rand) string {
		return script("  var i = 0\n  while true { i = i + 1; if i % 2 == 0 { continue } }")
	}},
	{"while-growing-bound", "loop", false, false, func(r *rand.Rand) string {
		return script(fmt.Sprintf("  var n = %d\n  var i = 0\n  while i < n { i = i + 1; n = n + %d }", small(r), 1+r.IntN(3)))
	}},
	{"while-over-growing-array", "loop", false, false, func(r *rand.Rand) string {
		return script("  var a = [1]\n  var i = 0\n  while i < a.length { a.append(i); i = i + 1 }")
	}},
	{"while-over-growing-string", "loop", false, false, func(r *rand.Rand) string {
		return script("  var s = \"a\"\n  var i = 0\n  while i < s.length { s = s.concat(\"bc\"); i = i + 1 }")
	}},
	{"for-in-array-appending", "loop", false, false, func(r *rand.Rand) string {
		return script("  let a = [1, 2, 3]\n  for x in a { a.append(x) }")
	}},
	{"for-in-huge-range", "loop", false, false, func(r *rand.Rand) string {
		return script(fmt.Sprintf("  var n = 0\n  for i in InclusiveRange(0, 1 << %d) { n = n + 1 }", 40+r.IntN(200)))
	}},
	{"for-in-huge-range-step", "loop", false, false, func(r *rand.Rand) string {
		return script(fmt.Sprintf("  var n: UInt64 = 0\n  for i in InclusiveRange(0 as UInt64, 18446744073709551615, step: %d) { n = n + 1 }", small(r)))
	}},
	{"nested-while-true", "loop", false, false, func(r *rand.Rand) string {
		return script("  var n = 0\n  while true { for x in [1, 2, 3] { n = n + x }; var j = 0; while j < 3 { j = j + 1 } }")
	}},
	{"while-true-switch", "loop", false, false, func(r *rand.Rand) string {
		return script("  var i = 0\n  while true { switch i % 3 { case 0: i = i + 1\n case 1: i = i + 2\n default: i = i + 3 } }")
	}},
	{"for-over-doubling-string-characters", "loop", false, false, func(r *rand.Rand) string {
		return script("  var s = \"ab\"\n  var n = 0\n  while true { for c in s { n = n + 1 }; s = s.concat(s) }")
	}},
	{"for-over-growing-dictionary-keys", "loop", false, false, func(r *rand.Rand) string {
		return script("  let d: {Int: Int} = {0: 0}\n  var n = 1\n  while true { for k in d.keys { d[k + n] = k }; n = n * 2 }")
	}},
	{"while-true-optional-binding", "loop", false, false, func(r *rand.Rand) string {
		return script("  let d: {Int: Int} = {0: 0}\n  var k = 0\n  while true { if let v = d[k] { d[k + 1] = v + 1\n k = k + 1 } }")
	}},
	// ---------------------------------------------------------------- recursion without fuel
	{"self-recursion", "recursion", false, false, func(r *rand.Rand) string {
		return "access(all) fun f(_ n: Int): Int { return f(n + 1) + 1 }\n" + script("  f(0)")
	}},
	{"mutual-recursion", "recursion", false, false, func(r *rand.Rand) string {
		return "access(all) fun f(_ n: Int): Int { return g(n + 1) }\naccess(all) fun g(_ n: Int): Int { return h(n) + 1 }\naccess(all) fun h(_ n: Int): Int { return f(n) }\n" + script("  f(0)")
	}},
	{"closure-recursion", "recursion", false, false, func(r *rand.Rand) string {
		return script("  var f: fun(Int): Int = fun (_ n: Int): Int { return n }\n  let g = fun (_ n: Int): Int { return f(n + 1) }\n  f = g\n  g(0)")
	}},
	{"method-recursion", "recursion", false, false, func(r *rand.Rand) string {
		return "access(all) struct S { access(all) fun f(_ n: Int): Int { return self.f(n + 1) } }\n" + script("  S().f(0)")
	}},
	{"default-function-recursion", "recursion", false, false, func(r *rand.Rand) string {
		return "access(all) struct interface I { access(all) fun f(): Int { return self.g() }\n access(all) fun g(): Int }\naccess(all) struct S: I { access(all) fun g(): Int { return self.f() } }\n" + script("  S().f()")
	}},
	{"precondition-recursion", "recursion", false, false, func(r *rand.Rand) string {
		return "access(all) view fun f(_ n: Int): Int { pre { f(n + 1) > 0 } return 1 }\n" + script("  f(0)")
	}},
	{"postcondition-recursion", "recursion", false, false, func(r *rand.Rand) string {
		return "access(all) view fun f(_ n: Int): Int { post { f(n + 1) > 0 } return 1 }\n" + script("  f(0)")
	}},
	{"map-callback-recursion", "recursion", false, false, func(r *rand.Rand) string {
		return "access(all) fun f(_ x: Int): Int { return [x].map(f)[0] }\n" + script("  f(0)")
	}},
	{"filter-callback-recursion", "recursion", false, false, func(r *rand.Rand) string {
		return "access(all) view fun f(_ x: Int): Bool { return [x].filter(f).length > 0 }\n" + script("  f(0)")
	}},
	{"forEachKey-callback-recursion", "recursion", false, false, func(r *rand.Rand) string {
		return "access(all) fun f(_ k: Int): Bool { let d: {Int: Int} = {k + 1: 0}\n d.forEachKey(f)\n return true }\n" + script("  f(0)")
	}},
	{"initializer-recursion", "recursion", false, false, func(r *rand.Rand) string {
		return "access(all) struct S { access(all) let n: Int\n init(_ n: Int) { self.n = S(n + 1).n } }\n" + script("  S(0)")
	}},
	{"reference-method-recursion", "recursion", false, false, func(r *rand.Rand) string {
		return "access(all) struct S { access(all) fun f(_ n: Int): Int { let r = &self as &S\n return r.f(n + 1) } }\n" + script("  S().f(0)")
	}},
	{"function-array-recursion", "recursion", false, false, func(r *rand.Rand) string {
		return "access(all) fun f(_ n: Int): Int { let fs = [f]\n return fs[0](n + 1) }\n" + script("  f(0)")
	}},
	{"contract-function-recursion", "recursion", false, true, func(r *rand.Rand) string {
		return "import C0 from 0x1\n" + script("  C0.spin(0)")
	}},
	{"cross-location-callback-recursion", "recursion", false, true, func(r *rand.Rand) string {
		return "import C0 from 0x1\naccess(all) struct K: C0.CB { access(all) fun call(_ n: Int): Int { return C0.run(self, n) } }\n" + script("  C0.run(K(), 0)")
	}},
	{"forEachAttachment-callback-recursion", "recursion", false, true, func(r *rand.Rand) string {
		return "import C0 from 0x1\naccess(all) fun f(_ a: &AnyResourceAttachment) { let r <- C0.mk()\n r.forEachAttachment(f)\n destroy r }\n" +
			script("  let r <- C0.mk()\n  r.forEachAttachment(f)\n  destroy r")
	}},
	// ---------------------------------------------------------------- value nesting, then an operation that recurses over it
	{"array-nesting-unbounded", "nesting", false, false, func(r *rand.Rand) string {
		return script("  var a: [AnyStruct] = []\n  while true { a = [a] }")
	}},
	{"optional-nesting-unbounded", "nesting", false, false, func(r *rand.Rand) string {
		return script("  var x: AnyStruct = 1\n  while true { let y: AnyStruct? = x\n x = y }")
	}},
	{"dictionary-nesting-unbounded", "nesting", false, false, func(r *rand.Rand) string {
		return script("  var d: {String: AnyStruct} = {}\n  while true { d = {\"k\": d} }")
	}},
	{"struct-chain-unbounded", "nesting", false, false, func(r *rand.Rand) string {
		return "access(all) struct N { access(all) let next: AnyStruct\n init(_ n: AnyStruct) { self.next = n } }\n" + script("  var n: AnyStruct = 0\n  while true { n = N(n) }")
	}},
	{"type-nesting-unbounded", "nesting", false, false, func(r *rand.Rand) string {
		c := pick(r, []string{"VariableSizedArrayType(t)", "OptionalType(t)", "ConstantSizedArrayType(type: t, size: 2)", "DictionaryType(key: Type<String>(), value: t)!", "ReferenceType(entitlements: [], type: t)!"})
		return script("  var t = Type<Int>()\n  while true { t = " + c + " }")
	}},
	{"nested-array-export", "nesting", false, false, func(r *rand.Rand) string {
		return scriptR("AnyStruct", fmt.Sprintf("  var a: [AnyStruct] = []\n  var i = 0\n  while i < %d { a = [a]; i = i + 1 }\n  return a", 100*small(r)*small(r)))
	}},
	{"nested-optional-export", "nesting", false, false, func(r *rand.Rand) string {
		return scriptR("AnyStruct", fmt.Sprintf("  var x: AnyStruct = 1\n  var i = 0\n  while i < %d { let y: AnyStruct? = x\n x = y\n i = i + 1 }\n  return x", 100*small(r)*small(r)))
	}},
	{"nested-struct-export", "nesting", false, false, func(r *rand.Rand) string {
		return "access(all) struct N { access(all) let next: AnyStruct\n init(_ n: AnyStruct) { self.next = n } }\n" +
			scriptR("AnyStruct", fmt.Sprintf("  var n: AnyStruct = 0\n  var i = 0\n  while i < %d { n = N(n); i = i + 1 }\n  return n", 100*small(r)*small(r)))
	}},
	{"nested-array-log", "nesting", false, false, func(r *rand.Rand) string {
		return script(fmt.Sprintf("  var a: [AnyStruct] = []\n  var i = 0\n  while i < %d { a = [a]; i = i + 1 }\n  log(a)", 100*small(r)*small(r)))
	}},
	{"nested-array-copy-and-cast", "nesting", false, false, func(r *rand.Rand) string {
		return script(fmt.Sprintf("  var a: [AnyStruct] = []\n  var i = 0\n  while i < %d { a = [a]; i = i + 1 }\n  while true { let b = a\n let c = b as? [AnyStruct]\n let t = b.getType()\n let z = b.isInstance(Type<[AnyStruct]>()) }", 100*small(r)*small(r)))
	}},
	{"nested-array-save", "nesting", true, true, func(r *rand.Rand) string {
		return txn(fmt.Sprintf("    var a: [AnyStruct] = []\n    var i = 0\n    while i < %d { a = [a]; i = i + 1 }\n    acct.storage.save(a, to: /storage/deep)\n    let b = acct.storage.copy<[AnyStruct]>(from: /storage/deep)", 100*small(r)*small(r)))
	}},
	{"nested-type-equality-subtype-identifier", "nesting", false, false, func(r *rand.Rand) string {
		n := 200 * small(r) * small(r)
		return scriptR("Bool", fmt.Sprintf("  var t = Type<Int>()\n  var u = Type<Int>()\n  var i = 0\n  while i < %d { t = OptionalType(t); u = OptionalType(u); i = i + 1 }\n  var ok = true\n  while true { ok = ok && t == u && t.isSubtype(of: u) && t.identifier.length > 0 }\n  return ok", n))
	}},
	{"static-deep-array-equality", "nesting", false, false, func(r *rand.Rand) string {
		d := 6 + r.IntN(9)
		ty := strings.Repeat("[", d) + "Int" + strings.Repeat("]", d)
		lit := strings.Repeat("[", d) + "1" + strings.Repeat("]", d)
		return scriptR("Bool", fmt.Sprintf("  let a: %s = %s\n  let b: %s = %s\n  var ok = true\n  while true { ok = ok && a == b }\n  return ok", ty, lit, ty, lit))
	}},
	// ---------------------------------------------------------------- built-ins that loop internally, driven by an unguarded loop
	{"String.concat-doubling", "builtin", false, false, func(r *rand.Rand) string {
		return script("  var s = \"ab\"\n  while true { s = s.concat(s) }")
	}},
	{"String.concat-linear", "builtin", false, false, func(r *rand.Rand) string {
		g, _ := growString(r)
		return script(g + "\n  while true { s = s.concat(\"x\") }")
	}},
	{"String.join", "builtin", false, false, func(r *rand.Rand) string {
		return script("  var a = [\"ab\", \"cd\"]\n  var s = \",\"\n  while true { s = String.join(a, separator: s)\n a = a.concat(a) }")
	}},
	{"String.replaceAll-doubling", "builtin", false, false, func(r *rand.Rand) string {
		return script("  var s = \"aXa\"\n  while true { s = s.replaceAll(of: \"a\", with: \"aa\") }")
	}},
	{"String.replaceAll-at-size", "builtin", false, false, func(r *rand.Rand) string {
		g, _ := growString(r)
		return script(g + "\n  while true { let t = s.replaceAll(of: \"a\", with: \"b\") }")
	}},
	{"String.split", "builtin", false, false, func(r *rand.Rand) string {
		g, _ := growString(r)
		return script(g + "\n  while true { let p = s.split(separator: \"a\") }")
	}},
	{"String.slice", "builtin", false, false, func(r *rand.Rand) string {
		g, _ := growString(r)
		return script(g + "\n  let n = s.length\n  while true { let t = s.slice(from: 1, upTo: n - 1) }")
	}},
	{"String.index-and-length", "builtin", false, false, func(r *rand.Rand) string {
		g, _ := growString(r)
		return script(g + "\n  var k = 0\n  while true { let c = s[s.length - 1]\n k = k + 1 }")
	}},
	{"String.contains-index-count", "builtin", false, false, func(r *rand.Rand) string {
		g, _ := growString(r)
		return script(g + "\n  var n = 0\n  while true { if s.contains(\"zzz\") { n = n + 1 }\n n = n + s.count(\"b\") + s.index(of: \"zzz\") }")
	}},
	{"String.toLower-utf8", "builtin", false, false, func(r *rand.Rand) string {
		g, _ := growString(r)
		return script(g + "\n  while true { let t = s.toLower()\n let u = s.utf8 }")
	}},
	{"String.equality-comparison", "builtin", false, false, func(r *rand.Rand) string {
		g, _ := growString(r)
		return script(g + "\n  let t = s.concat(\"\")\n  var n = 0\n  while true { if s == t { n = n + 1 }\n if s < t { n = n + 1 } }")
	}},
	{"String.fromUTF8", "builtin", false, false, func(r *rand.Rand) string {
		return script("  var b: [UInt8] = [97, 98, 99]\n  while true { let s = String.fromUTF8(b)\n b = b.concat(b) }")
	}},
	{"String.decodeHex-encodeHex", "builtin", false, false, func(r *rand.Rand) string {
		return script("  var s = \"0a1b\"\n  while true { let b = s.decodeHex()\n s = String.encodeHex(b.concat(b)) }")
	}},
	{"String.fromCharacters", "builtin", false, false, func(r *rand.Rand) string {
		return script("  var cs: [Character] = [\"a\", \"b\"]\n  while true { let s = String.fromCharacters(cs)\n cs = cs.concat(cs) }")
	}},
	{"Array.concat-reverse", "builtin", false, false, func(r *rand.Rand) string {
		return script("  var a = [1, 2, 3]\n  while true { a = a.concat(a).reverse() }")
	}},
	{"Array.reverse-at-size", "builtin", false, false, func(r *rand.Rand) string {
		return script(growArray(r) + "\n  while true { let b = a.reverse() }")
	}},
	{"Array.map-filter", "builtin", false, false, func(r *rand.Rand) string {
		return script(growArray(r) + "\n  while true { let b = a.map(fun (x: Int): Int { return x + 1 })\n let c = a.filter(view fun (x: Int): Bool { return x > 1 }) }")
	}},
	{"Array.contains-firstIndex", "builtin", false, false, func(r *rand.Rand) string {
		return script(growArray(r) + "\n  var n = 0\n  while true { if a.contains(-1) { n = n + 1 }\n n = n + (a.firstIndex(of: -1) ?? 0) }")
	}},
	{"Array.equality", "builtin", false, false, func(r *rand.Rand) string {
		return script(growArray(r) + "\n  let b = a.concat([])\n  var n = 0\n  while true { if a == b { n = n + 1 } }")
	}},
	{"Array.slice", "builtin", false, false, func(r *rand.Rand) string {
		return script(growArray(r) + "\n  let n = a.length\n  while true { let b = a.slice(from: 0, upTo: n) }")
	}},
	{"Array.appendAll-self", "builtin", false, false, func(r *rand.Rand) string {
		return script("  var a = [1, 2]\n  while true { a.appendAll(a) }")
	}},
	{"Array.insert-front-remove-front", "builtin", false, false, func(r *rand.Rand) string {
		return script(growArray(r) + "\n  while true { a.insert(at: 0, 7)\n a.insert(at: 0, 8)\n let x = a.remove(at: 0) }")
	}},
	{"Array.toVariableSized-toConstantSized", "builtin", false, false, func(r *rand.Rand) string {
		return script("  let c: [Int; 8] = [1, 2, 3, 4, 5, 6, 7, 8]\n  var a: [[Int]] = []\n  while true { a.append(c.toVariableSized())\n let d = a[0].toConstantSized<[Int; 8]>() }")
	}},
	{"Array.copy-on-assignment", "builtin", false, false, func(r *rand.Rand) string {
		return script(growArray(r) + "\n  while true { let b = a\n let c = [b, b] }")
	}},
	{"Dictionary.insert-keys-values", "builtin", false, false, func(r *rand.Rand) string {
		return script("  let d: {Int: Int} = {}\n  var i = 0\n  while true { d[i] = i\n i = i + 1\n let k = d.keys\n let v = d.values }")
	}},
	{"Dictionary.containsKey-remove", "builtin", false, false, func(r *rand.Rand) string {
		return script("  let d: {String: Int} = {}\n  var i = 0\n  while true { d[i.toString()] = i\n if d.containsKey(\"x\") { i = i + 1 }\n let x = d.remove(key: (i / 2).toString())\n i = i + 1 }")
	}},
	{"InclusiveRange.contains", "builtin", false, false, func(r *rand.Rand) string {
		return script("  let rg = InclusiveRange(0, 1 << 300, step: 7)\n  var n = 0\n  var k = 0\n  while true { if rg.contains(k) { n = n + 1 }\n k = k + 13 }")
	}},
	{"Int.squaring", "builtin", false, false, func(r *rand.Rand) string {
		return script(fmt.Sprintf("  var x = %d\n  while true { x = x * x }", 2+small(r)))
	}},
	{"UInt.squaring-plus", "builtin", false, false, func(r *rand.Rand) string {
		return script(fmt.Sprintf("  var x: UInt = %d\n  while true { x = x * x + x }", 2+small(r)))
	}},
	{"Int.division-modulo-at-size", "builtin", false, false, func(r *rand.Rand) string {
		return script(fmt.Sprintf("  var x = %d\n  var i = 0\n  while i < %d { x = x * x; i = i + 1 }\n  var y = x / 3\n  while true { y = x / (y %% 1000003 + 2) + x %% 7 }", 2+small(r), 10+r.IntN(8)))
	}},
	{"Int.shift-left-doubling", "builtin", false, false, func(r *rand.Rand) string {
		return script("  var x = 1\n  var n = 1\n  while true { x = 1 << n\n n = n * 2 }")
	}},
	{"Int.shift-left-huge", "builtin", false, false, func(r *rand.Rand) string {
		return script(fmt.Sprintf("  var x = 1\n  while true { x = x << %d }", 1000*small(r)*small(r)*small(r)))
	}},
	{"Int.shift-right-at-size", "builtin", false, false, func(r *rand.Rand) string {
		return script(fmt.Sprintf("  let x = 1 << %d\n  var y = 0\n  while true { y = x >> 3 }", 100000*small(r)))
	}},
	{"Int.toString-fromString", "builtin", false, false, func(r *rand.Rand) string {
		return script("  var x = 7\n  while true { let s = x.toString()\n x = Int.fromString(s.concat(s))! }")
	}},
	{"Int.bigEndianBytes", "builtin", false, false, func(r *rand.Rand) string {
		return script("  var x = 258\n  while true { let b = x.toBigEndianBytes()\n x = Int.fromBigEndianBytes(b.concat(b))! }")
	}},
	{"UInt256.saturating-and-words", "builtin", false, false, func(r *rand.Rand) string {
		return script("  var x: UInt256 = 3\n  var w: Word256 = 3\n  while true { x = x.saturatingMultiply(x)\n w = w * w + 1 }")
	}},
	{"Fix128-arithmetic", "builtin", false, false, func(r *rand.Rand) string {
		return script("  var x: UFix128 = 1.000001\n  var y: Fix64 = 1.5\n  while true { x = x * x / x\n y = y * 1.0 }")
	}},
	{"String-template-and-toString", "builtin", false, false, func(r *rand.Rand) string {
		return script("  var s = \"\"\n  var i = 0\n  while true { s = s.concat(i.toString())\n i = i + 1 }")
	}},
	// ---------------------------------------------------------------- callbacks that mutate the iterated container
	{"forEachKey-mutating-callback", "callback", false, false, func(r *rand.Rand) string {
		return script("  let d: {Int: Int} = {1: 1}\n  d.forEachKey(fun (k: Int): Bool { d[k + 1000] = 1\n return true })")
	}},
	{"forEachKey-unbounded-outer", "callback", false, false, func(r *rand.Rand) string {
		return script("  let d: {Int: Int} = {1: 1, 2: 2}\n  var n = 0\n  while true { d.forEachKey(fun (k: Int): Bool { n = n + k\n return true })\n d[n] = n }")
	}},
	{"map-mutating-callback", "callback", false, false, func(r *rand.Rand) string {
		return script("  let a = [1, 2, 3]\n  let b = a.map(fun (x: Int): Int { a.append(x)\n return x })")
	}},
	{"forEachStored-mutating-callback", "callback", true, true, func(r *rand.Rand) string {
		return txn("    acct.storage.save(1, to: /storage/a0)\n    var n = 0\n    acct.storage.forEachStored(fun (path: StoragePath, type: Type): Bool {\n      n = n + 1\n      acct.storage.save(n, to: StoragePath(identifier: \"b\".concat(n.toString()))!)\n      return true\n    })")
	}},
	{"forEachStored-unbounded-outer", "callback", true, true, func(r *rand.Rand) string {
		return txn("    var n = 0\n    while true {\n      acct.storage.save(n, to: StoragePath(identifier: \"c\".concat(n.toString()))!)\n      acct.storage.forEachStored(fun (path: StoragePath, type: Type): Bool { n = n + 1\n return true })\n    }")
	}},
	{"forEachAttachment-mutating-callback", "callback", false, true, func(r *rand.Rand) string {
		return "import C0 from 0x1\n" + script("  var r <- C0.mk()\n  var n = 0\n  r.forEachAttachment(fun (a: &AnyResourceAttachment) { n = n + 1 })\n  let r2 <- C0.addB(<- r)\n  while true { r2.forEachAttachment(fun (a: &AnyResourceAttachment) { n = n + 1 }) }\n  destroy r2")
	}},
	{"storage-save-load-unbounded", "callback", true, true, func(r *rand.Rand) string {
		return txn("    var a: [Int] = [1, 2, 3]\n    while true {\n      acct.storage.save(a, to: /storage/grow)\n      a = acct.storage.load<[Int]>(from: /storage/grow)!\n      a = a.concat(a)\n    }")
	}},
}

// deepRecursion builds a GUARDED recursion that reaches exactly `levels` nested calls and then returns.
var deepShapes = []string{"self", "mutual", "method", "closure", "default-function", "contract"}

func deepRecursion(shape string, levels int) (src string, needC0 bool) {
	switch shape {
	case "self":
		return fmt.Sprintf("access(all) fun f(_ n: Int): Int { if n == 0 { return 0 }\n return f(n - 1) + 1 }\n%s", scriptR("Int", fmt.Sprintf("  return f(%d)", levels))), false
	case "mutual":
		return fmt.Sprintf("access(all) fun f(_ n: Int): Int { if n == 0 { return 0 }\n return g(n - 1) + 1 }\naccess(all) fun g(_ n: Int): Int { if n == 0 { return 0 }\n return f(n - 1) + 1 }\n%s", scriptR("Int", fmt.Sprintf("  return f(%d)", levels))), false
	case "method":
		return fmt.Sprintf("access(all) struct S { access(all) fun f(_ n: Int): Int { if n == 0 { return 0 }\n return self.f(n - 1) + 1 } }\n%s", scriptR("Int", fmt.Sprintf("  return S().f(%d)", levels))), false
	case "closure":
		return scriptR("Int", fmt.Sprintf("  var f: fun(Int): Int = fun (_ n: Int): Int { return n }\n  let g = fun (_ n: Int): Int { if n == 0 { return 0 }\n return f(n - 1) + 1 }\n  f = g\n  return g(%d)", levels)), false
	case "default-function":
		return fmt.Sprintf("access(all) struct interface I { access(all) fun f(_ n: Int): Int { if n == 0 { return 0 }\n return self.f(n - 1) + 1 } }\naccess(all) struct S: I {}\n%s", scriptR("Int", fmt.Sprintf("  return S().f(%d)", levels))), false
	case "contract":
		return "import C0 from 0x1\naccess(all) struct K: C0.CB { access(all) let stop: Int\n init(_ s: Int) { self.stop = s }\n access(all) fun call(_ n: Int): Int { if n >= self.stop { return n }\n return C0.run(self, n) } }\n" +
			scriptR("Int", fmt.Sprintf("  return C0.run(K(%d), 0)", levels)), true
	}
	panic("bad shape")
}
