package evt

import (
	"fmt"
	"math/big"
	"math/rand/v2"
	"strings"
)

// ---------------------------------------------------------------- declarations

type eventDecl struct {
	loc    string // "A.<addr>" or the script location
	qual   string // qualified identifier: "C0.E3", "C0.R1.ResourceDestroyed", "E0" (script)
	params []fieldDecl
}

func (e *eventDecl) id() string { return e.loc + "." + e.qual }

func (e *eventDecl) paramList() string {
	var ps []string
	for _, p := range e.params {
		ps = append(ps, p.name+": "+p.t.src())
	}
	return strings.Join(ps, ", ")
}

// emitSite is a contract function that emits an event when called.
type emitSite struct {
	call  string // "C0.emitE3"
	ev    *eventDecl
	kind  string  // param | literal | condition | iface-condition | init | local | imported-call
	fixed []*eval // literal sites: the values baked into the contract
	times int     // events delivered per call
}

// dparam is one parameter of a default destruction event.
type dparam struct {
	name  string
	t     *ety
	kind  string // self.f | self.g.x | self.d[k] | self.uuid | literal | self.inner?.f | self.kids.length | self[A]?.x | base.f | base.g.x | base.d[k] | base.uuid | base[A]?.x
	field string
	sub   int // index of the struct sub-field
	key   string
	lit   *eval
	att   *attDecl
}

type resDecl struct {
	contract string
	loc      string
	name     string
	prims    []fieldDecl
	g        *structDecl // struct-typed field g (nil = none)
	hasDict  bool
	innerOf  *resDecl
	kidsOf   *resDecl
	namedOf  *resDecl
	ifaces   []*ifaceDecl
	ev       *eventDecl
	dparams  []dparam
	atts     []*attDecl // attachments declared for this resource
}

func (d *resDecl) qual() string { return d.contract + "." + d.name }

// in renders the type name as written inside the given contract (unqualified in its own contract:
// base types of attachment declarations are resolved before the contract's own name is in scope).
func (d *resDecl) in(contract string) string {
	if d.contract == contract {
		return d.name
	}
	return d.qual()
}

type ifaceDecl struct {
	contract string
	loc      string
	name     string
	field    fieldDecl
	ev       *eventDecl
	dparams  []dparam
}

type attDecl struct {
	contract string
	loc      string
	name     string
	base     *resDecl
	prims    []fieldDecl
	ev       *eventDecl
	dparams  []dparam
}

func (d *attDecl) qual() string { return d.contract + "." + d.name }

func (d *attDecl) in(contract string) string {
	if d.contract == contract {
		return d.name
	}
	return d.qual()
}

// ---------------------------------------------------------------- resource model

type mres struct {
	decl  *resDecl
	att   *attDecl
	ord   int // creation ordinal within the history (decides the uuid)
	prim  map[string]*eval
	g     *eval
	dkeys []string
	dvals map[string]*big.Int
	inner *mres
	kids  []*mres
	nkeys []string
	named map[string]*mres
	atts  []*mres
}

func (m *mres) attOf(d *attDecl) *mres {
	for _, a := range m.atts {
		if a.att == d {
			return a
		}
	}
	return nil
}

type expEvent struct {
	ev   *eventDecl
	vals []*eval
	site string // what produced the expectation (for keys)
	dk   []string
}

// uuidEval is a placeholder resolved per engine from the observed GenerateUUID results.
type uuidRef struct {
	v   *eval
	ord int
}

type evalCtx struct {
	uuids []uuidRef
}

var tyUInt64 = tNum("UInt64")

func (c *evalCtx) uuid(ord int) *eval {
	v := &eval{t: tyUInt64, big: big.NewInt(-1)}
	c.uuids = append(c.uuids, uuidRef{v, ord})
	return v
}

func optOf(t *ety, v *eval) *eval { return &eval{t: tOpt(t), inner: v} }

// evalDParam evaluates one default argument on the model (self, base) at destruction time.
func (c *evalCtx) evalDParam(p dparam, self, base *mres) *eval {
	intv := func(x *big.Int) *eval { return &eval{t: tyInt, big: x} }
	dictGet := func(m *mres) *eval {
		if x, ok := m.dvals[p.key]; ok {
			return optOf(tyInt, intv(x))
		}
		return optOf(tyInt, nil)
	}
	switch p.kind {
	case "self.f":
		return self.prim[p.field]
	case "self.f->optional":
		return optOf(p.t.elem, self.prim[p.field])
	case "base.f->optional":
		return optOf(p.t.elem, base.prim[p.field])
	case "self.g.x":
		return self.g.elems[p.sub]
	case "self.d[k]":
		return dictGet(self)
	case "self.uuid":
		return c.uuid(self.ord)
	case "literal", "literal->optional":
		return p.lit
	case "self.inner?.f":
		if self.inner == nil {
			return optOf(p.t.elem, nil)
		}
		return optOf(p.t.elem, self.inner.prim[p.field])
	case "self.kids.length":
		return intv(big.NewInt(int64(len(self.kids))))
	case "self[A]?.x":
		a := self.attOf(p.att)
		if a == nil {
			return optOf(p.t.elem, nil)
		}
		return optOf(p.t.elem, a.prim[p.field])
	case "base.f":
		return base.prim[p.field]
	case "base.g.x":
		return base.g.elems[p.sub]
	case "base.d[k]":
		return dictGet(base)
	case "base.uuid":
		return c.uuid(base.ord)
	case "base[A]?.x":
		a := base.attOf(p.att)
		if a == nil {
			return optOf(p.t.elem, nil)
		}
		return optOf(p.t.elem, a.prim[p.field])
	}
	panic("bad dparam " + p.kind)
}

func dkinds(ps []dparam) []string {
	var out []string
	for _, p := range ps {
		out = append(out, p.kind)
	}
	return out
}

// destroyAttachment: events of destroying one attachment of base.
func (c *evalCtx) destroyAttachment(a *mres, base *mres, site string) []expEvent {
	var out []expEvent
	if a.att.ev != nil {
		e := expEvent{ev: a.att.ev, site: site + "/attachment", dk: dkinds(a.att.dparams)}
		for _, p := range a.att.dparams {
			e.vals = append(e.vals, c.evalDParam(p, a, base))
		}
		out = append(out, e)
	}
	return out
}

// destroy: all events of destroying m (own, interfaces, attachments, nested resources), evaluated now.
func (c *evalCtx) destroy(m *mres, site string) []expEvent {
	var out []expEvent
	if m.decl.ev != nil {
		e := expEvent{ev: m.decl.ev, site: site, dk: dkinds(m.decl.dparams)}
		for _, p := range m.decl.dparams {
			e.vals = append(e.vals, c.evalDParam(p, m, nil))
		}
		out = append(out, e)
	}
	for _, i := range m.decl.ifaces {
		e := expEvent{ev: i.ev, site: site + "/interface", dk: dkinds(i.dparams)}
		for _, p := range i.dparams {
			e.vals = append(e.vals, c.evalDParam(p, m, nil))
		}
		out = append(out, e)
	}
	for _, a := range m.atts {
		out = append(out, c.destroyAttachment(a, m, site)...)
	}
	nested := site
	if !strings.HasSuffix(site, "/nested") {
		nested = site + "/nested"
	}
	if m.inner != nil {
		out = append(out, c.destroy(m.inner, nested)...)
	}
	for _, k := range m.kids {
		out = append(out, c.destroy(k, nested)...)
	}
	for _, k := range m.nkeys {
		out = append(out, c.destroy(m.named[k], nested)...)
	}
	return out
}

// ---------------------------------------------------------------- world generation

type world48 struct {
	r        *rand.Rand
	structs  []*structDecl
	events   []*eventDecl
	sites    []*emitSite
	res      []*resDecl
	atts     []*attDecl
	ifaces   []*ifaceDecl
	c0, c1   string
	features map[string]int
}

const (
	loc0 = "A.0000000000000001"
	loc1 = "A.0000000000000002"
)

func (w *world48) tg() *tgen { return &tgen{r: w.r, structs: w.structs} }

func (w *world48) genStruct(contract, loc string, i int) *structDecl {
	g := w.tg()
	sd := &structDecl{loc: loc, qual: fmt.Sprintf("%s.S%d", contract, i)}
	n := 1 + w.r.IntN(4)
	for j := 0; j < n; j++ {
		var t *ety
		if chance(w.r, 1, 2) {
			t = g.primType()
			if chance(w.r, 1, 3) {
				t = tOpt(t)
			}
		} else {
			// (a struct with a reference-typed field is accepted as an event parameter type by the checker
			// but is not exportable at run time: emit fails with a user error; such structs are not generated)
			for t = g.typ(2); !t.storable(); t = g.typ(2) {
			}
		}
		sd.fields = append(sd.fields, fieldDecl{fmt.Sprintf("m%d", j), t})
	}
	return sd
}

func structSrc(b *sb, sd *structDecl) {
	name := sd.qual[strings.LastIndex(sd.qual, ".")+1:]
	b.p("  access(all) struct %s {", name)
	var ps, as []string
	for _, f := range sd.fields {
		b.p("    access(all) let %s: %s", f.name, f.t.src())
		ps = append(ps, f.name+": "+f.t.src())
		as = append(as, "self."+f.name+" = "+f.name)
	}
	b.p("    init(%s) { %s }", strings.Join(ps, ", "), strings.Join(as, "; "))
	b.p("  }")
}

func (w *world48) genEvent(contract, loc string, i int) *eventDecl {
	g := w.tg()
	ev := &eventDecl{loc: loc, qual: fmt.Sprintf("%s.E%d", contract, i)}
	n := w.r.IntN(6)
	if chance(w.r, 1, 8) {
		n = 8 + w.r.IntN(8)
	}
	for j := 0; j < n; j++ {
		ev.params = append(ev.params, fieldDecl{fmt.Sprintf("%c%d", 'a'+byte((j*7+i)%26), j), g.typ(3)})
	}
	// shuffle the names' alphabetical order relative to the declaration order on purpose (field order oracle)
	return ev
}

func argList(ev *eventDecl, f func(i int, p fieldDecl) string) string {
	var as []string
	for i, p := range ev.params {
		as = append(as, p.name+": "+f(i, p))
	}
	return strings.Join(as, ", ")
}

func fnParams(ev *eventDecl) string {
	var ps []string
	for i, p := range ev.params {
		ps = append(ps, fmt.Sprintf("_ p%d: %s", i, p.t.src()))
	}
	return strings.Join(ps, ", ")
}

func pArgs(ev *eventDecl) string {
	return argList(ev, func(i int, _ fieldDecl) string { return fmt.Sprintf("p%d", i) })
}

// emitFuncs writes the emitting functions of one event into its contract and records the sites.
func (w *world48) emitFuncs(b *sb, contract string, ev *eventDecl, idx int) {
	g := w.tg()
	short := ev.qual[strings.LastIndex(ev.qual, ".")+1:]
	add := func(name, kind string, fixed []*eval, times int) {
		w.sites = append(w.sites, &emitSite{call: contract + "." + name, ev: ev, kind: kind, fixed: fixed, times: times})
	}
	// 1. plain function with parameters
	b.p("  access(all) fun emit%s(%s) { emit %s(%s) }", short, fnParams(ev), short, pArgs(ev))
	add("emit"+short, "param", nil, 1)
	// 2. literal arguments
	if chance(w.r, 2, 3) {
		var vals []*eval
		for _, p := range ev.params {
			vals = append(vals, g.value(p.t, 2))
		}
		b.p("  access(all) fun lit%s() { emit %s(%s) }", short, short, argList(ev, func(i int, _ fieldDecl) string { return vals[i].lit() }))
		add("lit"+short, "literal", vals, 1)
	}
	switch idx % 4 {
	case 0:
		// 3. emit in pre and post conditions
		b.p("  access(all) fun cnd%s(%s): Int {", short, fnParams(ev))
		b.p("    pre { emit %s(%s) }", short, pArgs(ev))
		b.p("    post { emit %s(%s) }", short, pArgs(ev))
		b.p("    return 1")
		b.p("  }")
		add("cnd"+short, "condition", nil, 2)
	case 1:
		// 4. inherited interface condition
		b.p("  access(all) struct interface SI%s { access(all) fun go(%s) { pre { emit %s(%s) } } }", short, fnParams(ev), short, pArgs(ev))
		b.p("  access(all) struct Impl%s: SI%s { access(all) fun go(%s) {} }", short, short, fnParams(ev))
		var as []string
		for i := range ev.params {
			as = append(as, fmt.Sprintf("p%d", i))
		}
		b.p("  access(all) fun ifc%s(%s) { Impl%s().go(%s) }", short, fnParams(ev), short, strings.Join(as, ", "))
		add("ifc"+short, "iface-condition", nil, 1)
	case 2:
		// 5. emission inside a struct initializer
		b.p("  access(all) struct Em%s { init(%s) { emit %s(%s) } }", short, fnParams(ev), short, pArgs(ev))
		var as []string
		for i := range ev.params {
			as = append(as, fmt.Sprintf("p%d", i))
		}
		b.p("  access(all) fun ini%s(%s) { let x = Em%s(%s) }", short, fnParams(ev), short, strings.Join(as, ", "))
		add("ini"+short, "init", nil, 1)
	case 3:
		// 6. arguments taken from locals / a container round trip
		b.p("  access(all) fun loc%s(%s) {", short, fnParams(ev))
		for i, p := range ev.params {
			if p.t.k == kRef || i%2 == 1 {
				b.p("    let q%d = p%d", i, i)
			} else {
				b.p("    let arr%d: [%s] = [p%d]", i, p.t.src(), i)
				b.p("    let q%d = arr%d[0]", i, i)
			}
		}
		b.p("    emit %s(%s)", short, argList(ev, func(i int, _ fieldDecl) string { return fmt.Sprintf("q%d", i) }))
		b.p("  }")
		add("loc"+short, "local", nil, 1)
	}
}

var dprimNames = []string{"Int", "UInt64", "Int8", "Word16", "UFix64", "Fix64", "Int256", "UInt128"}

func (w *world48) dprimType() *ety {
	r := w.r
	var t *ety
	switch r.IntN(8) {
	case 0, 1, 2:
		t = tNum(pick(r, dprimNames))
	case 3:
		t = tyString
	case 4:
		t = tyBool
	case 5:
		t = tyAddr
	case 6:
		t = tyChar
	default:
		t = &ety{k: kPath, name: pick(r, pathTypeNames[:2])}
	}
	if chance(r, 1, 4) {
		t = tOpt(t)
	}
	return t
}

func (w *world48) genIface(contract, loc string, i int) *ifaceDecl {
	d := &ifaceDecl{contract: contract, loc: loc, name: fmt.Sprintf("RI%d", i)}
	d.field = fieldDecl{fmt.Sprintf("tag%d", i), w.dprimType()}
	d.ev = &eventDecl{loc: loc, qual: contract + "." + d.name + ".ResourceDestroyed"}
	d.dparams = append(d.dparams, dparam{name: "t", t: d.field.t, kind: "self.f", field: d.field.name})
	if chance(w.r, 1, 2) {
		d.dparams = append(d.dparams, dparam{name: "u", t: tyUInt64, kind: "self.uuid"})
	}
	for _, p := range d.dparams {
		d.ev.params = append(d.ev.params, fieldDecl{p.name, p.t})
	}
	return d
}

// primStructs: structs (of the given list) having at least one primitive field.
func primSubfields(sd *structDecl) []int {
	var out []int
	for i, f := range sd.fields {
		if f.t.primitive() {
			out = append(out, i)
		}
	}
	return out
}

func (w *world48) genRes(contract, loc string, i int, nestable []*resDecl, ifaces []*ifaceDecl) *resDecl {
	r := w.r
	d := &resDecl{contract: contract, loc: loc, name: fmt.Sprintf("R%d", i)}
	if contract == "C1" {
		d.name = fmt.Sprintf("Q%d", i)
	}
	n := 1 + r.IntN(3)
	for j := 0; j < n; j++ {
		d.prims = append(d.prims, fieldDecl{fmt.Sprintf("f%d", j), w.dprimType()})
	}
	for _, ifc := range ifaces {
		if chance(r, 1, 3) {
			d.ifaces = append(d.ifaces, ifc)
			d.prims = append(d.prims, ifc.field)
		}
	}
	var cands []*structDecl
	for _, s := range w.structs {
		if len(primSubfields(s)) > 0 && (&ety{k: kStruct, sd: s}).storable() {
			cands = append(cands, s)
		}
	}
	if len(cands) > 0 && chance(r, 1, 2) {
		d.g = pick(r, cands)
	}
	d.hasDict = chance(r, 1, 2)
	if len(nestable) > 0 {
		if chance(r, 2, 3) {
			d.innerOf = pick(r, nestable)
		}
		if chance(r, 1, 3) {
			d.kidsOf = pick(r, nestable)
		}
		if chance(r, 1, 3) {
			d.namedOf = pick(r, nestable)
		}
	}
	return d
}

// genDParams chooses the default-destruction-event parameters of a resource (after attachments are known).
func (w *world48) genResEvent(d *resDecl) {
	r := w.r
	if chance(r, 1, 8) {
		return // no default event
	}
	d.ev = &eventDecl{loc: d.loc, qual: d.qual() + ".ResourceDestroyed"}
	n := r.IntN(6)
	for j := 0; j < n; j++ {
		name := fmt.Sprintf("%c%d", 'z'-byte(j*3%26), j)
		var p dparam
		switch r.IntN(9) {
		case 0, 1:
			f := pick(r, d.prims)
			p = dparam{t: f.t, kind: "self.f", field: f.name}
			if f.t.k != kOpt && chance(r, 1, 4) {
				p.t = tOpt(f.t) // optional parameter fed by a non-optional field
				p.kind = "self.f->optional"
			}
		case 2:
			if d.g == nil {
				continue
			}
			si := pick(r, primSubfields(d.g))
			p = dparam{t: d.g.fields[si].t, kind: "self.g.x", sub: si, field: d.g.fields[si].name}
		case 3:
			if !d.hasDict {
				continue
			}
			p = dparam{t: tOpt(tyInt), kind: "self.d[k]", key: pick(r, dictKeys)}
		case 4:
			p = dparam{t: tyUInt64, kind: "self.uuid"}
		case 5:
			t := w.dprimType()
			p = dparam{t: t, kind: "literal", lit: w.tg().value(t, 0)}
			if t.k == kOpt && p.lit.inner != nil {
				p.kind = "literal->optional"
			}
		case 6:
			if d.innerOf == nil {
				continue
			}
			var fs []fieldDecl
			for _, f := range d.innerOf.prims {
				if f.t.k != kOpt {
					fs = append(fs, f)
				}
			}
			if len(fs) == 0 {
				continue
			}
			f := pick(r, fs)
			p = dparam{t: tOpt(f.t), kind: "self.inner?.f", field: f.name}
		case 7:
			if d.kidsOf == nil {
				continue
			}
			p = dparam{t: tyInt, kind: "self.kids.length"}
		case 8:
			if len(d.atts) == 0 {
				continue
			}
			a := pick(r, d.atts)
			var fs []fieldDecl
			for _, f := range a.prims {
				if f.t.k != kOpt {
					fs = append(fs, f)
				}
			}
			if len(fs) == 0 {
				continue
			}
			f := pick(r, fs)
			p = dparam{t: tOpt(f.t), kind: "self[A]?.x", field: f.name, att: a}
		}
		p.name = name
		d.dparams = append(d.dparams, p)
		d.ev.params = append(d.ev.params, fieldDecl{p.name, p.t})
	}
}

var dictKeys = []string{"k", "j", "zz"}

func (w *world48) genAtt(contract, loc string, i int, base *resDecl) *attDecl {
	r := w.r
	d := &attDecl{contract: contract, loc: loc, name: fmt.Sprintf("A%d", i), base: base}
	if contract == "C1" {
		d.name = fmt.Sprintf("B%d", i)
	}
	n := 1 + r.IntN(2)
	for j := 0; j < n; j++ {
		d.prims = append(d.prims, fieldDecl{fmt.Sprintf("x%d", j), w.dprimType()})
	}
	return d
}

func (w *world48) genAttEvent(d *attDecl) {
	r := w.r
	if chance(r, 1, 8) {
		return
	}
	base := d.base
	d.ev = &eventDecl{loc: d.loc, qual: d.qual() + ".ResourceDestroyed"}
	n := 1 + r.IntN(5)
	for j := 0; j < n; j++ {
		name := fmt.Sprintf("%c%d", 'm'-byte(j*5%12), j)
		var p dparam
		switch r.IntN(9) {
		case 0, 1:
			f := pick(r, d.prims)
			p = dparam{t: f.t, kind: "self.f", field: f.name}
		case 2, 3:
			f := pick(r, base.prims)
			p = dparam{t: f.t, kind: "base.f", field: f.name}
		case 4:
			// (base.g.x is rejected by the checker: member access through the base reference yields a reference)
			f := pick(r, base.prims)
			p = dparam{t: f.t, kind: "base.f", field: f.name}
			if f.t.k != kOpt && chance(r, 1, 2) {
				p.t = tOpt(f.t) // optional parameter fed by a non-optional field
				p.kind = "base.f->optional"
			}
		case 5:
			// (base.d[k] is rejected by the checker as well: base.d is reference-typed)
			f := pick(r, d.prims)
			p = dparam{t: f.t, kind: "self.f", field: f.name}
		case 6:
			p = dparam{t: tyUInt64, kind: "base.uuid"}
		case 7:
			t := w.dprimType()
			p = dparam{t: t, kind: "literal", lit: w.tg().value(t, 0)}
			if t.k == kOpt && p.lit.inner != nil {
				p.kind = "literal->optional"
			}
		case 8:
			var others []*attDecl
			for _, a := range base.atts {
				if a != d && a.contract == d.contract { // (a qualified attachment type C0.A0 in a default argument crashes the checker: reported separately)
					others = append(others, a)
				}
			}
			if len(others) == 0 {
				continue
			}
			a := pick(r, others)
			var fs []fieldDecl
			for _, f := range a.prims {
				if f.t.k != kOpt {
					fs = append(fs, f)
				}
			}
			if len(fs) == 0 {
				continue
			}
			f := pick(r, fs)
			p = dparam{t: tOpt(f.t), kind: "base[A]?.x", field: f.name, att: a}
		}
		p.name = name
		d.dparams = append(d.dparams, p)
		d.ev.params = append(d.ev.params, fieldDecl{p.name, p.t})
	}
}

func dparamExpr(p dparam, contract string) string {
	switch p.kind {
	case "self.f", "self.f->optional":
		return "self." + p.field
	case "base.f->optional":
		return "base." + p.field
	case "self.g.x":
		return "self.g." + p.field
	case "self.d[k]":
		return fmt.Sprintf("self.d[%q]", p.key)
	case "self.uuid":
		return "self.uuid"
	case "literal", "literal->optional":
		return dlit(p.lit)
	case "self.inner?.f":
		return "self.inner?." + p.field
	case "self.kids.length":
		return "self.kids.length"
	case "self[A]?.x":
		return "self[" + p.att.in(contract) + "]?." + p.field
	case "base.f":
		return "base." + p.field
	case "base.g.x":
		return "base.g." + p.field
	case "base.d[k]":
		return fmt.Sprintf("base.d[%q]", p.key)
	case "base.uuid":
		return "base.uuid"
	case "base[A]?.x":
		return "base[" + p.att.in(contract) + "]?." + p.field
	}
	panic("bad dparam")
}

// dlit renders a literal allowed as a default argument (no casts: plain literals only).
func dlit(v *eval) string {
	switch v.t.k {
	case kNum:
		return numLit(v.t.name, v.big)
	case kOpt:
		if v.inner == nil {
			return "nil"
		}
		return dlit(v.inner)
	case kChar:
		return `"` + escString(v.s) + `"`
	case kAddr:
		return fmt.Sprintf("0x%x", v.addr)
	}
	return v.lit()
}

func defaultEventSrc(b *sb, ps []dparam, contract string) {
	var parts []string
	for _, p := range ps {
		parts = append(parts, fmt.Sprintf("%s: %s = %s", p.name, p.t.src(), dparamExpr(p, contract)))
	}
	b.p("    access(all) event ResourceDestroyed(%s)", strings.Join(parts, ", "))
}

func setterName(f string) string { return "set_" + f }

func (w *world48) resSrc(b *sb, d *resDecl) {
	conf := ""
	if len(d.ifaces) > 0 {
		var ns []string
		for _, i := range d.ifaces {
			ns = append(ns, i.name)
		}
		conf = ": " + strings.Join(ns, ", ")
	}
	b.p("  access(all) resource %s%s {", d.name, conf)
	var ps, as []string
	for _, f := range d.prims {
		acc := "all"
		if f.name == "f1" {
			// an entitled member: destruction-event defaults (`self.f1`, `base.f1`) are evaluated with full authorization
			acc = "Ent"
		}
		b.p("    access(%s) var %s: %s", acc, f.name, f.t.src())
		b.p("    access(all) fun %s(_ v: %s) { self.%s = v }", setterName(f.name), f.t.src(), f.name)
		ps = append(ps, f.name+": "+f.t.src())
		as = append(as, "self."+f.name+" = "+f.name)
	}
	if d.g != nil {
		b.p("    access(all) var g: %s", d.g.qual)
		b.p("    access(all) fun set_g(_ v: %s) { self.g = v }", d.g.qual)
		ps = append(ps, "g: "+d.g.qual)
		as = append(as, "self.g = g")
	}
	if d.hasDict {
		b.p("    access(all) var d: {String: Int}")
		b.p("    access(all) fun setD(_ k: String, _ v: Int) { self.d[k] = v }")
		b.p("    access(all) fun delD(_ k: String) { self.d.remove(key: k) }")
		as = append(as, "self.d = {}")
	}
	if d.innerOf != nil {
		b.p("    access(all) var inner: @%s?", d.innerOf.in(d.contract))
		b.p("    access(all) fun putInner(_ r: @%s) { let old <- self.inner <- r; destroy old }", d.innerOf.in(d.contract))
		b.p("    access(all) fun dropInner() { let old <- self.inner <- nil; destroy old }")
		as = append(as, "self.inner <- nil")
	}
	if d.kidsOf != nil {
		b.p("    access(all) var kids: @[%s]", d.kidsOf.in(d.contract))
		b.p("    access(all) fun addKid(_ r: @%s) { self.kids.append(<- r) }", d.kidsOf.in(d.contract))
		b.p("    access(all) fun dropKid() { destroy self.kids.removeLast() }")
		as = append(as, "self.kids <- []")
	}
	if d.namedOf != nil {
		b.p("    access(all) var named: @{String: %s}", d.namedOf.in(d.contract))
		b.p("    access(all) fun putNamed(_ k: String, _ r: @%s) { let old <- self.named[k] <- r; destroy old }", d.namedOf.in(d.contract))
		as = append(as, "self.named <- {}")
	}
	if d.ev != nil {
		defaultEventSrc(b, d.dparams, d.contract)
	}
	b.p("    init(%s) { %s }", strings.Join(ps, ", "), strings.Join(as, "; "))
	b.p("  }")
	// constructor function
	var fps, cas []string
	i := 0
	for _, f := range d.prims {
		fps = append(fps, fmt.Sprintf("_ a%d: %s", i, f.t.src()))
		cas = append(cas, fmt.Sprintf("%s: a%d", f.name, i))
		i++
	}
	if d.g != nil {
		fps = append(fps, fmt.Sprintf("_ a%d: %s", i, d.g.qual))
		cas = append(cas, fmt.Sprintf("g: a%d", i))
	}
	b.p("  access(all) fun mk%s(%s): @%s { return <- create %s(%s) }", d.name, strings.Join(fps, ", "), d.name, d.name, strings.Join(cas, ", "))
}

func (w *world48) ifaceSrc(b *sb, d *ifaceDecl) {
	b.p("  access(all) resource interface %s {", d.name)
	b.p("    access(all) var %s: %s", d.field.name, d.field.t.src())
	defaultEventSrc(b, d.dparams, d.contract)
	b.p("  }")
}

func (w *world48) attSrc(b *sb, d *attDecl) {
	bq := d.base.in(d.contract)
	b.p("  access(all) attachment %s for %s {", d.name, bq)
	var ps, as, fps, cas []string
	for i, f := range d.prims {
		b.p("    access(all) var %s: %s", f.name, f.t.src())
		b.p("    access(all) fun %s(_ v: %s) { self.%s = v }", setterName(f.name), f.t.src(), f.name)
		ps = append(ps, f.name+": "+f.t.src())
		as = append(as, "self."+f.name+" = "+f.name)
		fps = append(fps, fmt.Sprintf("_ a%d: %s", i, f.t.src()))
		cas = append(cas, fmt.Sprintf("%s: a%d", f.name, i))
	}
	if d.ev != nil {
		defaultEventSrc(b, d.dparams, d.contract)
	}
	b.p("    init(%s) { %s }", strings.Join(ps, ", "), strings.Join(as, "; "))
	b.p("  }")
	fps = append([]string{"_ r: @" + bq}, fps...)
	b.p("  access(all) fun att%s(%s): @%s { return <- attach %s(%s) to <- r }", d.name, strings.Join(fps, ", "), bq, d.name, strings.Join(cas, ", "))
	b.p("  access(all) fun rem%s(_ r: @%s): @%s { remove %s from r; return <- r }", d.name, bq, bq, d.name)
}

func newWorld48(r *rand.Rand) *world48 {
	w := &world48{r: r, features: map[string]int{}}
	var b0, b1 sb
	// ---- C0
	b0.p("access(all) contract C0 {")
	b0.p("  access(all) entitlement Ent")
	ns := 1 + r.IntN(3)
	for i := 0; i < ns; i++ {
		sd := w.genStruct("C0", loc0, i)
		w.structs = append(w.structs, sd)
		structSrc(&b0, sd)
	}
	ne := 3 + r.IntN(4)
	var ev0 []*eventDecl
	for i := 0; i < ne; i++ {
		ev := w.genEvent("C0", loc0, i)
		ev0 = append(ev0, ev)
		b0.p("  access(all) event E%d(%s)", i, ev.paramList())
	}
	for i, ev := range ev0 {
		w.events = append(w.events, ev)
		w.emitFuncs(&b0, "C0", ev, i+r.IntN(4))
	}
	// resources
	var ifs0 []*ifaceDecl
	for i := 0; i < r.IntN(3); i++ {
		ifc := w.genIface("C0", loc0, i)
		ifs0 = append(ifs0, ifc)
		w.ifaces = append(w.ifaces, ifc)
	}
	nr := 2 + r.IntN(2)
	var res0 []*resDecl
	for i := 0; i < nr; i++ {
		d := w.genRes("C0", loc0, i, res0, ifs0)
		if chance(r, 1, 4) {
			d.innerOf = d // self-nesting type
		}
		res0 = append(res0, d)
	}
	na := 1 + r.IntN(3)
	var atts0 []*attDecl
	for i := 0; i < na; i++ {
		a := w.genAtt("C0", loc0, i, pick(r, res0))
		atts0 = append(atts0, a)
		a.base.atts = append(a.base.atts, a)
	}
	for _, d := range res0 {
		w.genResEvent(d)
	}
	for _, a := range atts0 {
		w.genAttEvent(a)
	}
	for _, d := range ifs0 {
		w.ifaceSrc(&b0, d)
	}
	for _, d := range res0 {
		w.resSrc(&b0, d)
	}
	for _, a := range atts0 {
		w.attSrc(&b0, a)
	}
	b0.p("}")
	w.res = append(w.res, res0...)
	w.atts = append(w.atts, atts0...)

	// ---- C1 (another account, imports C0)
	b1.p("import C0 from 0x1")
	b1.p("access(all) contract C1 {")
	b1.p("  access(all) entitlement Ent")
	if chance(r, 2, 3) {
		sd := w.genStruct("C1", loc1, 0)
		w.structs = append(w.structs, sd)
		structSrc(&b1, sd)
	}
	ne1 := 1 + r.IntN(3)
	var ev1 []*eventDecl
	for i := 0; i < ne1; i++ {
		ev := w.genEvent("C1", loc1, i)
		ev1 = append(ev1, ev)
		b1.p("  access(all) event E%d(%s)", i, ev.paramList())
	}
	for i, ev := range ev1 {
		w.events = append(w.events, ev)
		w.emitFuncs(&b1, "C1", ev, i+r.IntN(4))
	}
	// pass-through calls into C0's emitting functions
	nsites := len(w.sites)
	for i := 0; i < nsites; i++ {
		s := w.sites[i]
		if !strings.HasPrefix(s.call, "C0.") || s.kind == "literal" || !chance(r, 1, 3) {
			continue
		}
		name := "via_" + strings.TrimPrefix(s.call, "C0.")
		var as []string
		for j := range s.ev.params {
			as = append(as, fmt.Sprintf("p%d", j))
		}
		b1.p("  access(all) fun %s(%s) { %s(%s) }", name, fnParams(s.ev), s.call, strings.Join(as, ", "))
		w.sites = append(w.sites, &emitSite{call: "C1." + name, ev: s.ev, kind: "imported-call", times: s.times})
	}
	// a resource of C1 nesting resources of C0, and an attachment declared in C1 for a resource of C0
	q := w.genRes("C1", loc1, 0, res0, nil)
	if q.innerOf == nil {
		q.innerOf = pick(r, res0)
	}
	var atts1 []*attDecl
	if chance(r, 2, 3) {
		a := w.genAtt("C1", loc1, 0, pick(r, res0))
		atts1 = append(atts1, a)
		a.base.atts = append(a.base.atts, a)
		w.genAttEvent(a)
	}
	w.genResEvent(q)
	w.resSrc(&b1, q)
	for _, a := range atts1 {
		w.attSrc(&b1, a)
	}
	b1.p("}")
	w.res = append(w.res, q)
	w.atts = append(w.atts, atts1...)
	w.c0, w.c1 = b0.String(), b1.String()
	return w
}
