// Package evt holds the checks of group evt (see harness/groups.txt).
package evt
