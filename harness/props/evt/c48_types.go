package evt

import (
	"fmt"
	"math/big"
	"math/rand/v2"
	"reflect"
	"strings"

	"golang.org/x/text/unicode/norm"

	"github.com/onflow/cadence"
	"github.com/onflow/cadence/common"

	"verif/harness/num"
)

// ---------------------------------------------------------------- model types

type tkind uint8

const (
	kNum tkind = iota
	kStr
	kChar
	kBool
	kAddr
	kPath
	kType
	kOpt
	kArr
	kCArr
	kDict
	kStruct
	kRef
)

// ety is the generator's own description of an event-parameter type.
type ety struct {
	k         tkind
	name      string // kNum: numeric type name (possibly an abstract supertype); kPath: path type name
	elem, key *ety
	n         int
	sd        *structDecl
}

type fieldDecl struct {
	name string
	t    *ety
}

type structDecl struct {
	loc    string // location prefix of the type ID: "A.<addr>" or the script location
	qual   string // qualified identifier, also the source form ("C0.S0", or "T0" in a script)
	fields []fieldDecl
}

func (s *structDecl) id() string { return s.loc + "." + s.qual }

var fixNames = []string{"Fix64", "UFix64", "Fix128", "UFix128"}

func isFix(name string) bool { return strings.Contains(name, "Fix") }

var abstractNums = map[string][]string{}
var abstractNames = []string{"Number", "SignedNumber", "Integer", "SignedInteger", "FixedSizeUnsignedInteger", "FixedPoint", "SignedFixedPoint"}
var concreteNums []string

func init() {
	for _, t := range num.IntTypes {
		concreteNums = append(concreteNums, t.Name)
		abstractNums["Number"] = append(abstractNums["Number"], t.Name)
		abstractNums["Integer"] = append(abstractNums["Integer"], t.Name)
		if t.Signed {
			abstractNums["SignedNumber"] = append(abstractNums["SignedNumber"], t.Name)
			abstractNums["SignedInteger"] = append(abstractNums["SignedInteger"], t.Name)
		} else if t.Bits != 0 {
			abstractNums["FixedSizeUnsignedInteger"] = append(abstractNums["FixedSizeUnsignedInteger"], t.Name)
		}
	}
	for _, f := range num.FixTypes {
		concreteNums = append(concreteNums, f.Name)
		abstractNums["Number"] = append(abstractNums["Number"], f.Name)
		abstractNums["FixedPoint"] = append(abstractNums["FixedPoint"], f.Name)
		if f.Signed {
			abstractNums["SignedNumber"] = append(abstractNums["SignedNumber"], f.Name)
			abstractNums["SignedFixedPoint"] = append(abstractNums["SignedFixedPoint"], f.Name)
		}
	}
}

var pathTypeDomains = map[string][]string{
	"StoragePath":    {"storage"},
	"PublicPath":     {"public"},
	"PrivatePath":    {"private"},
	"CapabilityPath": {"public", "private"},
	"Path":           {"storage", "public", "private"},
}
var pathTypeNames = []string{"StoragePath", "PublicPath", "PrivatePath", "CapabilityPath", "Path"}

func tNum(n string) *ety { return &ety{k: kNum, name: n} }
func tOpt(e *ety) *ety   { return &ety{k: kOpt, elem: e} }
func tArr(e *ety) *ety   { return &ety{k: kArr, elem: e} }

var (
	tyString = &ety{k: kStr}
	tyChar   = &ety{k: kChar}
	tyBool   = &ety{k: kBool}
	tyAddr   = &ety{k: kAddr}
	tyType   = &ety{k: kType}
	tyInt    = tNum("Int")
)

// src renders the type as Cadence source. Contract-declared structs are always written
// qualified (C0.S0), which is valid inside and outside the declaring contract.
func (t *ety) src() string {
	switch t.k {
	case kNum, kPath:
		return t.name
	case kStr:
		return "String"
	case kChar:
		return "Character"
	case kBool:
		return "Bool"
	case kAddr:
		return "Address"
	case kType:
		return "Type"
	case kOpt:
		return t.elem.src() + "?"
	case kArr:
		return "[" + t.elem.src() + "]"
	case kCArr:
		return fmt.Sprintf("[%s; %d]", t.elem.src(), t.n)
	case kDict:
		return "{" + t.key.src() + ": " + t.elem.src() + "}"
	case kStruct:
		return t.sd.qual
	case kRef:
		return "&" + t.elem.src()
	}
	panic("bad type")
}

// shape is a normalised rendering used in violation keys (struct names dropped).
func (t *ety) shape() string {
	switch t.k {
	case kOpt:
		return t.elem.shape() + "?"
	case kArr:
		return "[" + t.elem.shape() + "]"
	case kCArr:
		return "[" + t.elem.shape() + ";n]"
	case kDict:
		return "{" + t.key.shape() + ":" + t.elem.shape() + "}"
	case kStruct:
		return "struct"
	case kRef:
		return "&" + t.elem.shape()
	}
	return t.src()
}

// primitive: allowed as the type of a default-destruction-event parameter.
func (t *ety) primitive() bool {
	switch t.k {
	case kNum, kStr, kChar, kBool, kAddr, kPath:
		return true
	case kOpt:
		return t.elem.primitive()
	}
	return false
}

// storable: no reference anywhere inside (may be the type of a resource field).
func (t *ety) storable() bool {
	switch t.k {
	case kRef:
		return false
	case kOpt, kArr, kCArr:
		return t.elem.storable()
	case kDict:
		return t.key.storable() && t.elem.storable()
	case kStruct:
		for _, f := range t.sd.fields {
			if !f.t.storable() {
				return false
			}
		}
	}
	return true
}

// ---------------------------------------------------------------- model values

// eval is a model value. Its t is the DYNAMIC type (always concrete for numbers).
type eval struct {
	t     *ety
	big   *big.Int // kNum: integer value, or the raw scaled integer of a fixed-point value
	s     string   // kStr/kChar: content; kPath: identifier; kType: expected type ID
	tsrc  string   // kType: the source form of the type argument
	dom   string   // kPath: domain
	b     bool
	addr  uint64
	elems []*eval // kArr/kCArr: elements; kStruct: field values in declaration order; kDict: values
	keys  []*eval // kDict
	inner *eval   // kOpt: nil == nil; kRef: referent
}

func (v *eval) isNil() bool { return v.t.k == kOpt && v.inner == nil }

func escString(s string) string {
	var b strings.Builder
	for _, r := range s {
		switch {
		case r == '"':
			b.WriteString(`\"`)
		case r == '\\':
			b.WriteString(`\\`)
		case r == '\n':
			b.WriteString(`\n`)
		case r == '\t':
			b.WriteString(`\t`)
		case r < 0x20 || r > 0x7e:
			fmt.Fprintf(&b, `\u{%x}`, r)
		default:
			b.WriteRune(r)
		}
	}
	return b.String()
}

func numLit(name string, x *big.Int) string {
	if isFix(name) {
		return num.FixString(num.FixTypeByName(name), x)
	}
	return x.String()
}

// lit renders the value as a Cadence expression whose static type is (a subtype of) v.t.
func (v *eval) lit() string {
	switch v.t.k {
	case kNum:
		return "(" + numLit(v.t.name, v.big) + " as " + v.t.name + ")"
	case kStr:
		return `"` + escString(v.s) + `"`
	case kChar:
		return `("` + escString(v.s) + `" as Character)`
	case kBool:
		if v.b {
			return "true"
		}
		return "false"
	case kAddr:
		return fmt.Sprintf("(0x%x as Address)", v.addr)
	case kPath:
		return "/" + v.dom + "/" + v.s
	case kType:
		return "Type<" + v.tsrc + ">()"
	case kOpt:
		if v.inner == nil {
			return "nil"
		}
		return v.inner.lit()
	case kArr, kCArr:
		var es []string
		for _, e := range v.elems {
			es = append(es, e.lit())
		}
		return "([" + strings.Join(es, ", ") + "] as " + v.t.src() + ")"
	case kDict:
		var es []string
		for i, e := range v.elems {
			es = append(es, v.keys[i].lit()+": "+e.lit())
		}
		if len(es) == 0 {
			return "({} as " + v.t.src() + ")"
		}
		return "({" + strings.Join(es, ", ") + "} as " + v.t.src() + ")"
	case kStruct:
		var es []string
		for i, e := range v.elems {
			es = append(es, v.t.sd.fields[i].name+": "+e.lit())
		}
		return v.t.sd.qual + "(" + strings.Join(es, ", ") + ")"
	case kRef:
		return "(&" + v.inner.lit() + " as " + v.t.src() + ")"
	}
	panic("bad value")
}

// describe is a compact human rendering for witnesses.
func (v *eval) describe() string {
	switch v.t.k {
	case kOpt:
		if v.inner == nil {
			return "nil"
		}
		return "some(" + v.inner.describe() + ")"
	case kStr, kChar:
		return fmt.Sprintf("%s(%q)", v.t.src(), norm.NFC.String(v.s))
	case kRef:
		return "&" + v.inner.describe()
	case kType:
		return "Type<" + v.s + ">"
	}
	return v.lit()
}

// ---------------------------------------------------------------- generation

type tgen struct {
	r       *rand.Rand
	structs []*structDecl // structs usable at this point
}

var strPool = []string{"", "a", "hello", "x y", "q\"uote", "back\\slash", "line\nbreak", "tab\there", "e\u0301", "\u00e9", "\U0001F600", "\u4e2d\u6587", "\U0001F1E9\U0001F1EA", "a\u0300\u0301", "zero\u200bwidth", "0", "nil", "\u03a9", "\u212b"}
var charPool = []string{"a", "Z", "0", " ", "e\u0301", "\u00e9", "\U0001F600", "\U0001F1E9\U0001F1EA", "\u4e2d", "\"", "\\", "\n", "\u212b"}
var identPool = []string{"a", "foo", "bar_1", "x9", "vault", "flowTokenVault", "p_", "Z"}

type typeValueEntry struct{ src, id string }

func (g *tgen) typeValues() []typeValueEntry {
	out := []typeValueEntry{
		{"Int", "Int"}, {"String", "String"}, {"UFix64", "UFix64"}, {"Address", "Address"}, {"Bool", "Bool"},
		{"[Int]", "[Int]"}, {"{String: Int}", "{String:Int}"}, {"Int?", "(Int)?"}, {"&Int", "&Int"},
		{"Capability<&Int>", "Capability<&Int>"}, {"AnyStruct", "AnyStruct"}, {"@AnyResource", "AnyResource"}, {"Type", "Type"},
		{"StoragePath", "StoragePath"}, {"Word256", "Word256"}, {"[UInt8; 3]", "[UInt8;3]"},
	}
	for _, s := range g.structs {
		out = append(out, typeValueEntry{s.qual, s.id()})
	}
	return out
}

func (g *tgen) primType() *ety {
	r := g.r
	switch r.IntN(10) {
	case 0, 1, 2, 3:
		return tNum(pick(r, concreteNums))
	case 4:
		return tyString
	case 5:
		return tyChar
	case 6:
		return tyBool
	case 7:
		return tyAddr
	case 8:
		return &ety{k: kPath, name: pick(r, pathTypeNames)}
	default:
		return tNum(pick(r, abstractNames))
	}
}

func (g *tgen) keyType() *ety {
	r := g.r
	switch r.IntN(8) {
	case 0, 1, 2:
		return tNum(pick(r, concreteNums))
	case 3, 4:
		return tyString
	case 5:
		return tyChar
	case 6:
		return tyBool
	default:
		if chance(r, 1, 2) {
			return tyAddr
		}
		return &ety{k: kPath, name: pick(r, pathTypeNames[:3])}
	}
}

// typ generates an event-parameter type of nesting depth <= depth.
func (g *tgen) typ(depth int) *ety {
	r := g.r
	if depth <= 0 || chance(r, 2, 5) {
		if chance(r, 1, 12) {
			return tyType
		}
		return g.primType()
	}
	switch r.IntN(12) {
	case 0, 1, 2:
		e := g.typ(depth - 1)
		if e.k == kOpt && chance(r, 2, 3) {
			return e
		}
		return tOpt(e)
	case 3, 4:
		return tArr(g.typ(depth - 1))
	case 5:
		return &ety{k: kCArr, elem: g.typ(depth - 1), n: r.IntN(4)}
	case 6, 7:
		return &ety{k: kDict, key: g.keyType(), elem: g.typ(depth - 1)}
	case 8, 9:
		if len(g.structs) > 0 {
			return &ety{k: kStruct, sd: pick(r, g.structs)}
		}
		return g.primType()
	case 10:
		// reference: to a struct, array, dictionary or primitive (never to an optional or reference)
		for i := 0; i < 4; i++ {
			e := g.typ(depth - 1)
			if e.k != kOpt && e.k != kRef && e.k != kType {
				return &ety{k: kRef, elem: e}
			}
		}
		return &ety{k: kRef, elem: tyInt}
	default:
		if chance(r, 1, 3) {
			return tyType
		}
		return g.primType()
	}
}

func (g *tgen) intValue(name string) *big.Int {
	t := num.IntTypeByName(name)
	if chance(g.r, 1, 2) {
		return pick(g.r, num.Boundary(t))
	}
	return num.Random(t, g.r)
}

// value generates a model value whose dynamic type conforms to t.
func (g *tgen) value(t *ety, depth int) *eval {
	r := g.r
	switch t.k {
	case kNum:
		name := t.name
		if ms, ok := abstractNums[name]; ok {
			name = pick(r, ms)
		}
		ct := tNum(name)
		if isFix(name) {
			ft := num.FixTypeByName(name)
			if chance(r, 1, 2) {
				return &eval{t: ct, big: pick(r, num.FixBoundary(ft))}
			}
			return &eval{t: ct, big: num.FixRandom(ft, r)}
		}
		return &eval{t: ct, big: g.intValue(name)}
	case kStr:
		s := pick(r, strPool)
		if chance(r, 1, 3) {
			s += pick(r, strPool)
		}
		return &eval{t: t, s: s}
	case kChar:
		return &eval{t: t, s: pick(r, charPool)}
	case kBool:
		return &eval{t: t, b: chance(r, 1, 2)}
	case kAddr:
		a := []uint64{0, 1, 2, 0xff, 0x1234567890abcdef, ^uint64(0)}
		return &eval{t: t, addr: pick(r, a)}
	case kPath:
		dom := pick(r, pathTypeDomains[t.name])
		dt := map[string]string{"storage": "StoragePath", "public": "PublicPath", "private": "PrivatePath"}[dom]
		return &eval{t: &ety{k: kPath, name: dt}, dom: dom, s: pick(r, identPool)}
	case kType:
		e := pick(r, g.typeValues())
		return &eval{t: t, s: e.id, tsrc: e.src}
	case kOpt:
		if chance(r, 1, 3) {
			return &eval{t: t}
		}
		in := g.value(t.elem, depth)
		if in.isNil() {
			// a nil of the inner optional type is indistinguishable from the outer nil when written as a literal
			return &eval{t: t}
		}
		return &eval{t: t, inner: in}
	case kArr, kCArr:
		n := t.n
		if t.k == kArr {
			n = r.IntN(4)
			if depth <= 0 {
				n = r.IntN(2)
			}
		}
		v := &eval{t: t}
		for i := 0; i < n; i++ {
			v.elems = append(v.elems, g.value(t.elem, depth-1))
		}
		return v
	case kDict:
		v := &eval{t: t}
		n := r.IntN(4)
		for i := 0; i < n; i++ {
			k := g.value(t.key, 0)
			dup := false
			for _, o := range v.keys {
				if sameKey(o, k) {
					dup = true
				}
			}
			if dup {
				continue
			}
			v.keys = append(v.keys, k)
			v.elems = append(v.elems, g.value(t.elem, depth-1))
		}
		return v
	case kStruct:
		v := &eval{t: t}
		for _, f := range t.sd.fields {
			v.elems = append(v.elems, g.value(f.t, depth-1))
		}
		return v
	case kRef:
		return &eval{t: t, inner: g.value(t.elem, depth-1)}
	}
	panic("bad type")
}

// sameKey: could two model keys collide as Cadence dictionary keys (conservative: true when unsure).
func sameKey(a, b *eval) bool {
	if a.t.k != b.t.k {
		return false
	}
	switch a.t.k {
	case kNum:
		return a.t.name == b.t.name && a.big.Cmp(b.big) == 0
	case kStr, kChar:
		return norm.NFC.String(a.s) == norm.NFC.String(b.s)
	case kBool:
		return a.b == b.b
	case kAddr:
		return a.addr == b.addr
	case kPath:
		return a.dom == b.dom && a.s == b.s
	}
	return true
}

// ---------------------------------------------------------------- oracle: conformance and equality over cadence.Value

func goName(v cadence.Value) string {
	if v == nil {
		return "<nil>"
	}
	return reflect.TypeOf(v).Name()
}

func numValue(v cadence.Value) (name string, x *big.Int, ok bool) {
	name = goName(v)
	defer func() {
		if recover() != nil {
			ok = false
		}
	}()
	for _, t := range num.IntTypes {
		if t.Name == name {
			return name, num.ToBig(v), true
		}
	}
	for _, f := range num.FixTypes {
		if f.Name == name {
			return name, num.RawOf(f, v), true
		}
	}
	return name, nil, false
}

var domainNames = map[common.PathDomain]string{
	common.PathDomainStorage: "storage",
	common.PathDomainPublic:  "public",
	common.PathDomainPrivate: "private",
}

const unboxedOptional = "unboxed-optional"

// conforms reports why the exported value v does not conform to the declared type t ("" = conforms).
// It is written over the exported (cadence.Value) representation only.
func conforms(v cadence.Value, t *ety) string {
	if v == nil {
		return "no value for " + t.src()
	}
	switch t.k {
	case kNum:
		name, x, ok := numValue(v)
		if !ok {
			return fmt.Sprintf("%s is not a number (declared %s)", name, t.name)
		}
		allowed := []string{t.name}
		if ms, isAbs := abstractNums[t.name]; isAbs {
			allowed = ms
		}
		found := false
		for _, a := range allowed {
			if a == name {
				found = true
			}
		}
		if !found {
			return fmt.Sprintf("%s value for declared %s", name, t.name)
		}
		if isFix(name) {
			if !num.FixTypeByName(name).InRangeRaw(x) {
				return name + " out of range"
			}
		} else if !num.IntTypeByName(name).InRange(x) {
			return name + " out of range"
		}
	case kStr:
		if _, ok := v.(cadence.String); !ok {
			return goName(v) + " for declared String"
		}
	case kChar:
		if _, ok := v.(cadence.Character); !ok {
			return goName(v) + " for declared Character"
		}
	case kBool:
		if _, ok := v.(cadence.Bool); !ok {
			return goName(v) + " for declared Bool"
		}
	case kAddr:
		if _, ok := v.(cadence.Address); !ok {
			return goName(v) + " for declared Address"
		}
	case kPath:
		p, ok := v.(cadence.Path)
		if !ok {
			return goName(v) + " for declared " + t.name
		}
		okDom := false
		for _, d := range pathTypeDomains[t.name] {
			if d == domainNames[p.Domain] {
				okDom = true
			}
		}
		if !okDom {
			return fmt.Sprintf("path domain %s for declared %s", domainNames[p.Domain], t.name)
		}
	case kType:
		tv, ok := v.(cadence.TypeValue)
		if !ok {
			return goName(v) + " for declared Type"
		}
		if tv.StaticType == nil {
			return "Type value without a type"
		}
	case kOpt:
		o, ok := v.(cadence.Optional)
		if !ok {
			if conforms(v, t.elem) == "" {
				return unboxedOptional + ": " + goName(v) + " delivered without the Optional wrapper of declared " + t.src()
			}
			return goName(v) + " for declared " + t.src()
		}
		if o.Value != nil {
			return conforms(o.Value, t.elem)
		}
	case kArr, kCArr:
		a, ok := v.(cadence.Array)
		if !ok {
			return goName(v) + " for declared " + t.src()
		}
		if t.k == kCArr && len(a.Values) != t.n {
			return fmt.Sprintf("%d elements for declared %s", len(a.Values), t.src())
		}
		for _, e := range a.Values {
			if why := conforms(e, t.elem); why != "" {
				return why
			}
		}
	case kDict:
		d, ok := v.(cadence.Dictionary)
		if !ok {
			return goName(v) + " for declared " + t.src()
		}
		for _, p := range d.Pairs {
			if why := conforms(p.Key, t.key); why != "" {
				return "key: " + why
			}
			if why := conforms(p.Value, t.elem); why != "" {
				return why
			}
		}
	case kStruct:
		s, ok := v.(cadence.Struct)
		if !ok {
			return goName(v) + " for declared " + t.src()
		}
		if s.StructType == nil {
			return "struct without type"
		}
		if s.StructType.ID() != t.sd.id() {
			return fmt.Sprintf("struct type %s for declared %s", s.StructType.ID(), t.sd.id())
		}
		fs := s.FieldsMappedByName()
		if len(fs) != len(t.sd.fields) {
			return fmt.Sprintf("struct %s has %d fields, declared %d", t.sd.id(), len(fs), len(t.sd.fields))
		}
		for _, f := range t.sd.fields {
			fv, ok := fs[f.name]
			if !ok {
				return "struct field " + f.name + " missing"
			}
			if why := conforms(fv, f.t); why != "" {
				return "field " + f.name + ": " + why
			}
		}
	case kRef:
		// a reference is exported as the referenced value
		return conforms(v, t.elem)
	}
	return ""
}

// equalsModel reports why the exported value differs from the model value ("" = equal).
func equalsModel(v cadence.Value, m *eval) string {
	if v == nil {
		return "no value, expected " + m.describe()
	}
	mismatch := func() string {
		return fmt.Sprintf("observed %s %s, expected %s", goName(v), core48Clip(v.String()), m.describe())
	}
	switch m.t.k {
	case kNum:
		name, x, ok := numValue(v)
		if !ok || name != m.t.name || x.Cmp(m.big) != 0 {
			return mismatch()
		}
	case kStr:
		s, ok := v.(cadence.String)
		if !ok || string(s) != norm.NFC.String(m.s) {
			return mismatch()
		}
	case kChar:
		s, ok := v.(cadence.Character)
		if !ok || string(s) != norm.NFC.String(m.s) {
			return mismatch()
		}
	case kBool:
		b, ok := v.(cadence.Bool)
		if !ok || bool(b) != m.b {
			return mismatch()
		}
	case kAddr:
		a, ok := v.(cadence.Address)
		if !ok {
			return mismatch()
		}
		var x uint64
		for _, by := range a {
			x = x<<8 | uint64(by)
		}
		if x != m.addr {
			return mismatch()
		}
	case kPath:
		p, ok := v.(cadence.Path)
		if !ok || domainNames[p.Domain] != m.dom || p.Identifier != m.s {
			return mismatch()
		}
	case kType:
		tv, ok := v.(cadence.TypeValue)
		if !ok || tv.StaticType == nil || tv.StaticType.ID() != m.s {
			return mismatch()
		}
	case kOpt:
		o, ok := v.(cadence.Optional)
		if !ok {
			return mismatch()
		}
		if m.inner == nil {
			if o.Value != nil {
				return mismatch()
			}
			return ""
		}
		if o.Value == nil {
			return mismatch()
		}
		return equalsModel(o.Value, m.inner)
	case kArr, kCArr:
		a, ok := v.(cadence.Array)
		if !ok || len(a.Values) != len(m.elems) {
			return mismatch()
		}
		for i, e := range a.Values {
			if why := equalsModel(e, m.elems[i]); why != "" {
				return fmt.Sprintf("[%d]: %s", i, why)
			}
		}
	case kDict:
		d, ok := v.(cadence.Dictionary)
		if !ok || len(d.Pairs) != len(m.keys) {
			return mismatch()
		}
		for i, k := range m.keys {
			found := false
			for _, p := range d.Pairs {
				if equalsModel(p.Key, k) == "" {
					if found {
						return "duplicate key " + k.describe()
					}
					found = true
					if why := equalsModel(p.Value, m.elems[i]); why != "" {
						return "[" + k.describe() + "]: " + why
					}
				}
			}
			if !found {
				return "missing key " + k.describe() + ": " + mismatch()
			}
		}
	case kStruct:
		s, ok := v.(cadence.Struct)
		if !ok || s.StructType == nil || s.StructType.ID() != m.t.sd.id() {
			return mismatch()
		}
		fs := s.FieldsMappedByName()
		for i, f := range m.t.sd.fields {
			if why := equalsModel(fs[f.name], m.elems[i]); why != "" {
				return "." + f.name + ": " + why
			}
		}
	case kRef:
		return equalsModel(v, m.inner)
	}
	return ""
}

func core48Clip(s string) string {
	if len(s) > 300 {
		return s[:300] + "…"
	}
	return s
}
