package evt

import (
	"encoding/json"
	"fmt"
	"math/big"
	"math/rand/v2"
	"sort"
	"strings"

	"github.com/onflow/cadence"
	jsoncdc "github.com/onflow/cadence/encoding/json"

	"verif/harness/core"
	"verif/harness/host"
)

// C48 — emitted events conform to their declared types.
//
// Workload: per case one generated world (contract C0 at 0x1, contract C1 at 0x2 importing C0) declaring
// structs, events with parameters of every type kind the checker admits as an event parameter, resources,
// resource interfaces and resource attachments with default destruction events; then a history of
// transactions and scripts that call the emitting functions with literal arguments and drive resources
// through create / update / nest / attach / remove / save / load / destroy.
// Oracle (from the generator's own declarations and a Go model of the resources): see checkEvents.

// ---------------------------------------------------------------- program generation

type hist48 struct {
	w        *world48
	r        *rand.Rand
	nextOrd  int
	nextPath int
	spaths   []string
	stored   map[string]*mres
}

type prog48 struct {
	src       string
	isTx      bool
	expect    []expEvent
	creations []int
	ctx       *evalCtx
	local     []*eventDecl // script-level events
	feats     map[string]int
}

type lvar struct {
	name string
	m    *mres
}

type pgen struct {
	h    *hist48
	p    *prog48
	b    sb
	live []*lvar
	nvar int
	tg   *tgen
}

func (g *pgen) feat(f string) { g.p.feats[f]++ }

func (g *pgen) fresh() string {
	g.nvar++
	return fmt.Sprintf("v%d", g.nvar)
}

func (g *pgen) expect(es []expEvent) { g.p.expect = append(g.p.expect, es...) }

func (g *pgen) dropLive(v *lvar) {
	for i, x := range g.live {
		if x == v {
			g.live = append(g.live[:i:i], g.live[i+1:]...)
			return
		}
	}
}

func (g *pgen) newRes(d *resDecl) (*mres, string) {
	m := &mres{decl: d, ord: g.h.nextOrd, prim: map[string]*eval{}, dvals: map[string]*big.Int{}, named: map[string]*mres{}}
	g.h.nextOrd++
	g.p.creations = append(g.p.creations, m.ord)
	var args []string
	for _, f := range d.prims {
		v := g.tg.value(f.t, 0)
		m.prim[f.name] = v
		args = append(args, v.lit())
	}
	if d.g != nil {
		m.g = g.tg.value(&ety{k: kStruct, sd: d.g}, 2)
		args = append(args, m.g.lit())
	}
	return m, fmt.Sprintf("%s.mk%s(%s)", d.contract, d.name, strings.Join(args, ", "))
}

func (g *pgen) emitCall() {
	w := g.h.w
	s := pick(g.h.r, w.sites)
	var vals []*eval
	var args []string
	if s.fixed != nil {
		vals = s.fixed
	} else {
		for _, p := range s.ev.params {
			v := g.tg.value(p.t, 2)
			vals = append(vals, v)
			args = append(args, v.lit())
		}
	}
	g.b.p("    %s(%s)", s.call, strings.Join(args, ", "))
	for i := 0; i < s.times; i++ {
		g.expect([]expEvent{{ev: s.ev, vals: vals, site: "emit/" + s.kind}})
	}
	g.feat("emit_" + s.kind)
	for _, p := range s.ev.params {
		g.feat("ptype_" + kindName(p.t))
	}
}

func kindName(t *ety) string {
	switch t.k {
	case kNum:
		if _, ok := abstractNums[t.name]; ok {
			return "abstract_number"
		}
		if isFix(t.name) {
			return "fixed_point"
		}
		return "integer"
	case kStr:
		return "string"
	case kChar:
		return "character"
	case kBool:
		return "bool"
	case kAddr:
		return "address"
	case kPath:
		return "path"
	case kType:
		return "type"
	case kOpt:
		return "optional"
	case kArr:
		return "array"
	case kCArr:
		return "const_array"
	case kDict:
		return "dictionary"
	case kStruct:
		return "struct"
	case kRef:
		return "reference"
	}
	return "?"
}

// resOp performs one random resource operation; returns false when nothing applicable was chosen.
func (g *pgen) resOp() bool {
	r := g.h.r
	w := g.h.w
	b := &g.b
	pickLive := func(ok func(*lvar) bool) *lvar {
		var c []*lvar
		for _, v := range g.live {
			if ok == nil || ok(v) {
				c = append(c, v)
			}
		}
		if len(c) == 0 {
			return nil
		}
		return pick(r, c)
	}
	switch r.IntN(25) {
	case 0, 1, 2:
		d := pick(r, w.res)
		m, call := g.newRes(d)
		v := &lvar{g.fresh(), m}
		b.p("    let %s <- %s", v.name, call)
		g.live = append(g.live, v)
		g.feat("create")
	case 3, 4:
		v := pickLive(nil)
		if v == nil {
			return false
		}
		f := pick(r, v.m.decl.prims)
		val := g.tg.value(f.t, 0)
		v.m.prim[f.name] = val
		b.p("    %s.%s(%s)", v.name, setterName(f.name), val.lit())
		g.feat("set_field")
	case 5:
		v := pickLive(func(v *lvar) bool { return v.m.decl.g != nil })
		if v == nil {
			return false
		}
		v.m.g = g.tg.value(&ety{k: kStruct, sd: v.m.decl.g}, 2)
		b.p("    %s.set_g(%s)", v.name, v.m.g.lit())
		g.feat("set_struct_field")
	case 6:
		v := pickLive(func(v *lvar) bool { return v.m.decl.hasDict })
		if v == nil {
			return false
		}
		k := pick(r, dictKeys)
		if _, has := v.m.dvals[k]; has && chance(r, 1, 3) {
			delete(v.m.dvals, k)
			b.p("    %s.delD(%q)", v.name, k)
		} else {
			x := big.NewInt(int64(r.IntN(2000) - 1000))
			v.m.dvals[k] = x
			b.p("    %s.setD(%q, %s)", v.name, k, x)
		}
		g.feat("set_dict_field")
	case 7, 8, 20, 21:
		v := pickLive(func(v *lvar) bool {
			for _, a := range v.m.decl.atts {
				if v.m.attOf(a) == nil {
					return true
				}
			}
			return false
		})
		if v == nil {
			return false
		}
		var cands []*attDecl
		for _, a := range v.m.decl.atts {
			if v.m.attOf(a) == nil {
				cands = append(cands, a)
			}
		}
		a := pick(r, cands)
		am := &mres{att: a, ord: -1, prim: map[string]*eval{}} // attachments have no uuid
		args := []string{"<- " + v.name}
		for _, f := range a.prims {
			val := g.tg.value(f.t, 0)
			am.prim[f.name] = val
			args = append(args, val.lit())
		}
		nv := &lvar{g.fresh(), v.m}
		b.p("    let %s <- %s.att%s(%s)", nv.name, a.contract, a.name, strings.Join(args, ", "))
		v.m.atts = append(v.m.atts, am)
		g.dropLive(v)
		g.live = append(g.live, nv)
		g.feat("attach")
	case 9, 22:
		v := pickLive(func(v *lvar) bool { return len(v.m.atts) > 0 })
		if v == nil {
			return false
		}
		am := pick(r, v.m.atts)
		f := pick(r, am.att.prims)
		val := g.tg.value(f.t, 0)
		am.prim[f.name] = val
		b.p("    %s[%s]!.%s(%s)", v.name, am.att.qual(), setterName(f.name), val.lit())
		g.feat("set_attachment_field")
	case 10, 11:
		// nest: inner / kids / named
		v := pickLive(func(v *lvar) bool {
			return v.m.decl.innerOf != nil || v.m.decl.kidsOf != nil || v.m.decl.namedOf != nil
		})
		if v == nil {
			return false
		}
		type slot struct {
			kind string
			d    *resDecl
		}
		var slots []slot
		if v.m.decl.innerOf != nil {
			slots = append(slots, slot{"inner", v.m.decl.innerOf})
		}
		if v.m.decl.kidsOf != nil {
			slots = append(slots, slot{"kids", v.m.decl.kidsOf})
		}
		if v.m.decl.namedOf != nil {
			slots = append(slots, slot{"named", v.m.decl.namedOf})
		}
		s := pick(r, slots)
		c := pickLive(func(x *lvar) bool { return x != v && x.m.decl == s.d })
		if c == nil {
			// create the child on the spot
			m, call := g.newRes(s.d)
			c = &lvar{g.fresh(), m}
			b.p("    let %s <- %s", c.name, call)
			g.live = append(g.live, c)
		}
		switch s.kind {
		case "inner":
			if v.m.inner != nil {
				g.expect(g.p.ctx.destroy(v.m.inner, "replace-nested"))
				g.feat("destroy_by_replacement")
			}
			v.m.inner = c.m
			b.p("    %s.putInner(<- %s)", v.name, c.name)
		case "kids":
			v.m.kids = append(v.m.kids, c.m)
			b.p("    %s.addKid(<- %s)", v.name, c.name)
		case "named":
			k := pick(r, dictKeys)
			if old, ok := v.m.named[k]; ok {
				g.expect(g.p.ctx.destroy(old, "replace-nested"))
				g.feat("destroy_by_replacement")
			} else {
				v.m.nkeys = append(v.m.nkeys, k)
			}
			v.m.named[k] = c.m
			b.p("    %s.putNamed(%q, <- %s)", v.name, k, c.name)
		}
		g.dropLive(c)
		g.feat("nest_" + s.kind)
	case 12:
		v := pickLive(func(v *lvar) bool { return v.m.decl.innerOf != nil })
		if v == nil {
			return false
		}
		if v.m.inner != nil {
			g.expect(g.p.ctx.destroy(v.m.inner, "drop-nested"))
			v.m.inner = nil
			g.feat("destroy_nested_directly")
		}
		b.p("    %s.dropInner()", v.name)
	case 13:
		v := pickLive(func(v *lvar) bool { return len(v.m.kids) > 0 })
		if v == nil {
			return false
		}
		last := v.m.kids[len(v.m.kids)-1]
		v.m.kids = v.m.kids[:len(v.m.kids)-1]
		g.expect(g.p.ctx.destroy(last, "drop-nested"))
		b.p("    %s.dropKid()", v.name)
		g.feat("destroy_nested_directly")
	case 14, 23, 24:
		v := pickLive(func(v *lvar) bool { return len(v.m.decl.atts) > 0 })
		if v == nil {
			return false
		}
		a := pick(r, v.m.decl.atts)
		if len(v.m.atts) > 0 {
			a = pick(r, v.m.atts).att
		}
		if am := v.m.attOf(a); am != nil {
			g.expect(g.p.ctx.destroyAttachment(am, v.m, "remove"))
			for i, x := range v.m.atts {
				if x == am {
					v.m.atts = append(v.m.atts[:i:i], v.m.atts[i+1:]...)
				}
			}
			g.feat("remove_attachment")
		} else if !chance(r, 1, 4) {
			return false
		}
		nv := &lvar{g.fresh(), v.m}
		b.p("    let %s <- %s.rem%s(<- %s)", nv.name, a.contract, a.name, v.name)
		g.dropLive(v)
		g.live = append(g.live, nv)
	case 15, 16:
		v := pickLive(nil)
		if v == nil {
			return false
		}
		g.destroyVar(v)
	case 17:
		// destroy through a container
		v := pickLive(nil)
		if v == nil {
			return false
		}
		o := pickLive(func(x *lvar) bool { return x != v && x.m.decl == v.m.decl })
		n := g.fresh()
		if chance(r, 1, 2) {
			if o != nil {
				b.p("    let %s <- [<- %s, <- %s]", n, v.name, o.name)
			} else {
				b.p("    let %s <- [<- %s]", n, v.name)
			}
		} else {
			if o != nil {
				b.p("    let %s <- {\"a\": <- %s, \"b\": <- %s}", n, v.name, o.name)
			} else {
				b.p("    let %s <- {\"a\": <- %s}", n, v.name)
			}
		}
		b.p("    destroy %s", n)
		g.expect(g.p.ctx.destroy(v.m, "destroy-container"))
		g.dropLive(v)
		if o != nil {
			g.expect(g.p.ctx.destroy(o.m, "destroy-container"))
			g.dropLive(o)
		}
		g.feat("destroy_container")
	case 18:
		if !g.p.isTx {
			return false
		}
		if chance(r, 1, 2) {
			v := pickLive(nil)
			if v == nil {
				return false
			}
			g.save(v)
		} else {
			if len(g.h.spaths) == 0 {
				return false
			}
			i := r.IntN(len(g.h.spaths))
			p := g.h.spaths[i]
			m := g.h.stored[p]
			g.h.spaths = append(g.h.spaths[:i:i], g.h.spaths[i+1:]...)
			delete(g.h.stored, p)
			v := &lvar{g.fresh(), m}
			b.p("    let %s <- acct.storage.load<@%s>(from: /storage/%s)!", v.name, m.decl.qual(), p)
			g.live = append(g.live, v)
			g.feat("load")
		}
	case 19:
		if !g.p.isTx || len(g.h.spaths) == 0 {
			return false
		}
		p := pick(r, g.h.spaths)
		m := g.h.stored[p]
		f := pick(r, m.decl.prims)
		val := g.tg.value(f.t, 0)
		m.prim[f.name] = val
		b.p("    acct.storage.borrow<&%s>(from: /storage/%s)!.%s(%s)", m.decl.qual(), p, setterName(f.name), val.lit())
		g.feat("update_in_storage")
	}
	return true
}

func (g *pgen) destroyVar(v *lvar) {
	g.expect(g.p.ctx.destroy(v.m, "destroy"))
	g.b.p("    destroy %s", v.name)
	g.dropLive(v)
	g.feat("destroy")
	if len(v.m.atts) > 0 {
		g.feat("destroy_with_attachments")
	}
	if v.m.inner != nil || len(v.m.kids) > 0 || len(v.m.nkeys) > 0 {
		g.feat("destroy_with_nested")
	}
	if len(v.m.decl.ifaces) > 0 {
		g.feat("destroy_with_interface_event")
	}
}

func (g *pgen) save(v *lvar) {
	p := fmt.Sprintf("s%d", g.h.nextPath)
	g.h.nextPath++
	g.b.p("    acct.storage.save(<- %s, to: /storage/%s)", v.name, p)
	g.h.spaths = append(g.h.spaths, p)
	g.h.stored[p] = v.m
	g.dropLive(v)
	g.feat("save")
}

func (h *hist48) genProgram(isTx bool) *prog48 {
	r := h.r
	p := &prog48{isTx: isTx, ctx: &evalCtx{}, feats: map[string]int{}}
	g := &pgen{h: h, p: p, tg: h.w.tg()}
	var head sb
	head.p("import C0 from 0x1")
	head.p("import C1 from 0x2")
	type localEmit struct {
		ev   *eventDecl
		vals []*eval
	}
	var locals []localEmit
	if !isTx && chance(r, 2, 3) {
		// script-level declarations: a struct and events located at the script
		sd := &structDecl{loc: scriptLoc, qual: "T0"}
		for j := 0; j < 1+r.IntN(3); j++ {
			t := g.tg.typ(2)
			for !t.storable() {
				t = g.tg.typ(2)
			}
			sd.fields = append(sd.fields, fieldDecl{fmt.Sprintf("n%d", j), t})
		}
		structSrc(&head, sd)
		stg := &tgen{r: r, structs: append(append([]*structDecl{}, h.w.structs...), sd)}
		for i := 0; i < 1+r.IntN(2); i++ {
			ev := &eventDecl{loc: scriptLoc, qual: fmt.Sprintf("SE%d", i)}
			for j := 0; j < r.IntN(5); j++ {
				ev.params = append(ev.params, fieldDecl{fmt.Sprintf("%c%d", 'r'-byte(j*4), j), stg.typ(3)})
			}
			head.p("access(all) event SE%d(%s)", i, ev.paramList())
			p.local = append(p.local, ev)
			var vals []*eval
			for _, pa := range ev.params {
				vals = append(vals, stg.value(pa.t, 2))
			}
			locals = append(locals, localEmit{ev, vals})
		}
	}
	n := 4 + r.IntN(10)
	for i := 0; i < n; i++ {
		if chance(r, 2, 5) {
			g.emitCall()
		} else {
			for try := 0; try < 4 && !g.resOp(); try++ {
			}
		}
		if len(locals) > 0 && chance(r, 1, 4) {
			l := pick(r, locals)
			g.b.p("    emit %s(%s)", l.ev.qual, argList(l.ev, func(i int, _ fieldDecl) string { return l.vals[i].lit() }))
			g.expect([]expEvent{{ev: l.ev, vals: l.vals, site: "emit/script-level"}})
			g.feat("emit_script_level")
		}
	}
	for len(g.live) > 0 {
		v := g.live[0]
		if isTx && chance(r, 1, 2) {
			g.save(v)
		} else {
			g.destroyVar(v)
		}
	}
	if isTx {
		head.p("transaction {")
		head.p("  prepare(acct: auth(Storage) &Account) {")
		head.WriteString(g.b.String())
		head.p("  }")
		head.p("}")
	} else {
		head.p("access(all) fun main() {")
		head.WriteString(g.b.String())
		head.p("}")
	}
	p.src = strings.ReplaceAll(head.String(), "  access(all) struct T0", "access(all) struct T0")
	return p
}

// ---------------------------------------------------------------- oracle

// jsonFieldNames reads the event's field names, in payload order, from its JSON-CDC encoding.
func jsonFieldNames(e cadence.Event) (id string, names []string, err error) {
	b, err := jsoncdc.Encode(e)
	if err != nil {
		return "", nil, err
	}
	var doc struct {
		Value struct {
			ID     string `json:"id"`
			Fields []struct {
				Name string `json:"name"`
			} `json:"fields"`
		} `json:"value"`
	}
	if err := json.Unmarshal(b, &doc); err != nil {
		return "", nil, err
	}
	for _, f := range doc.Value.Fields {
		names = append(names, f.Name)
	}
	return doc.Value.ID, names, nil
}

type checker48 struct {
	c     *core.Ctx
	eng   host.Engine
	decls map[string]*eventDecl
	wit   func() map[string]any
}

func (k *checker48) violate(key, msg string, extra map[string]any) {
	w := k.wit()
	for a, b := range extra {
		w[a] = b
	}
	w["engine"] = k.eng.String()
	k.c.Violate(fmt.Sprintf("[%s] %s", k.eng, key), "engine "+k.eng.String()+": "+msg, w)
}

// checkEvents is the C48 oracle for one successful execution.
func (k *checker48) checkEvents(observed []cadence.Event, expect []expEvent) {
	c := k.c
	matched := make([]bool, len(expect))
	for _, e := range observed {
		if e.EventType == nil {
			k.violate("event-without-type", "an event without event type was delivered", nil)
			continue
		}
		id := e.EventType.ID()
		if strings.HasPrefix(id, "flow.") {
			continue
		}
		c.Inc("events_checked")
		d, ok := k.decls[id]
		if !ok {
			k.violate("unknown-event-type-id", fmt.Sprintf("delivered event has type ID %q which no generated declaration has", id), map[string]any{"event": e.String()})
			continue
		}
		class := "emit"
		if strings.HasSuffix(d.qual, ".ResourceDestroyed") {
			class = "destruction"
		}
		// (1) exactly the declared fields, in declaration order
		jid, names, err := jsonFieldNames(e)
		if err != nil {
			k.violate(class+" payload-not-encodable", "event payload cannot be encoded: "+err.Error(), map[string]any{"event": e.String()})
			continue
		}
		if jid != id {
			k.violate(class+" payload-type-id", fmt.Sprintf("payload carries type ID %q, event type is %q", jid, id), nil)
		}
		var want []string
		for _, p := range d.params {
			want = append(want, p.name)
		}
		if strings.Join(names, ",") != strings.Join(want, ",") {
			kind := "field-set"
			a, b := append([]string{}, names...), append([]string{}, want...)
			sort.Strings(a)
			sort.Strings(b)
			if strings.Join(a, ",") == strings.Join(b, ",") {
				kind = "field-order"
			}
			k.violate(class+" "+kind+"-mismatch", fmt.Sprintf("event %s delivered with fields [%s], declared (%s)", id, strings.Join(names, ","), strings.Join(want, ",")),
				map[string]any{"event": e.String()})
			continue
		}
		// (2) every value conforms to its declared type
		vals := map[string]cadence.Value{}
		bad := false
		for pi, p := range d.params {
			v := cadence.SearchFieldByName(e, p.name)
			vals[p.name] = v
			c.Inc("values_checked")
			if why := conforms(v, p.t); why != "" {
				bad = true
				key := fmt.Sprintf("%s nonconforming-value declared=%s", class, p.t.shape())
				if strings.HasPrefix(why, unboxedOptional) {
					// one defect class: keyed by how the argument was produced, not by the payload type
					key = class + " " + unboxedOptional
					if class == "destruction" {
						for _, x := range expect {
							if x.ev == d && pi < len(x.dk) {
								key += " default=" + x.dk[pi]
								break
							}
						}
					}
				}
				k.violate(key, fmt.Sprintf("event %s field %s: %s (declared type %s)", id, p.name, why, p.t.src()), map[string]any{"event": e.String()})
			}
		}
		if bad {
			// consume one expectation of this type so that the defect is not reported a second time as a missing event
			for i, x := range expect {
				if !matched[i] && x.ev == d {
					matched[i] = true
					break
				}
			}
			continue
		}
		// (3) equals a model-expected event of the same type
		found := -1
		var firstSame = -1
		for i, x := range expect {
			if matched[i] || x.ev != d {
				continue
			}
			if firstSame < 0 {
				firstSame = i
			}
			all := true
			for j, p := range d.params {
				if equalsModel(vals[p.name], x.vals[j]) != "" {
					all = false
					break
				}
			}
			if all {
				found = i
				break
			}
		}
		if found >= 0 {
			matched[found] = true
			c.Inc("events_matched")
			if class == "destruction" {
				c.Inc("destruction_events_matched")
			}
			continue
		}
		if firstSame < 0 {
			k.violate(class+" unexpected-event", fmt.Sprintf("event %s delivered although the model expects no (further) event of this type", id), map[string]any{"event": e.String()})
			continue
		}
		x := expect[firstSame]
		for j, p := range d.params {
			if why := equalsModel(vals[p.name], x.vals[j]); why != "" {
				what := "param=" + p.t.shape()
				if class == "destruction" {
					what = "default=" + x.dk[j] + " type=" + p.t.shape()
				}
				k.violate(fmt.Sprintf("%s value-mismatch %s %s", class, x.site, what),
					fmt.Sprintf("event %s field %s (%s): %s", id, p.name, p.t.src(), why), map[string]any{"event": e.String(), "site": x.site})
				break
			}
		}
		matched[firstSame] = true
	}
	for i, x := range expect {
		if !matched[i] {
			k.violate("missing-event "+x.site, fmt.Sprintf("the model expects an event %s (from %s) that was not delivered", x.ev.id(), x.site), nil)
		}
	}
}

// ---------------------------------------------------------------- run

func init() {
	core.Register(&core.Prop{
		ID: "C48",
		Rule: "per case: one generated world (contract C0 at 0x1; C1 at 0x2 importing C0) declaring structs, events with parameters of every type kind admitted for event parameters " +
			"(all integer and fixed-point types, abstract number types, String, Character, Bool, Address, all path types, Type, optionals, variable/constant arrays, dictionaries, structs, references), " +
			"resources / resource interfaces / attachments (also across contracts) with default destruction events over self.f, self.g.x, self.d[k], self.uuid, literals, self.inner?.f, self.kids.length, self[A]?.x, base.f, base.g.x, base.d[k], base.uuid, base[A]?.x; " +
			"then a history of transactions and scripts (script-level events too) run on 3 engines with one ledger per engine; emits from plain functions, literal sites, pre/post conditions, inherited interface conditions, initializers, locals and imported contracts; " +
			"distinct = distinct successfully executed program text that delivered at least one event",
		Assumptions: []string{
			"the checker admits as event parameter types only numbers, String, Character, Bool, Address, paths, Type, optionals, arrays, dictionaries, structs and references of those (enums, capabilities and AnyStruct are rejected), so those are the kinds generated",
			"a reference-typed parameter is delivered as the referenced value; conformance is judged against the referenced type",
			"String and Character values are compared after NFC normalisation (Cadence strings are NFC-normalised on creation)",
			"field order is read from the JSON-CDC encoding of the delivered cadence.Event; values through cadence.SearchFieldByName",
			"self.uuid / base.uuid expectations use the i-th GenerateUUID result of the execution for the model's i-th creation",
			"the order of events within one execution is not judged (the statement does not constrain it); events are matched as a multiset",
		},
		NumCases: func(tier string) int {
			if tier == "thorough" {
				return 4000
			}
			return 96
		},
		Floors: map[string]int64{
			"successful_executions": 400, "events_checked": 2500, "values_checked": 6000, "destruction_events_matched": 600,
			"feat:emit_param": 100, "feat:emit_literal": 40, "feat:emit_condition": 30, "feat:emit_iface-condition": 20, "feat:emit_init": 20, "feat:emit_local": 20,
			"feat:emit_imported-call": 20, "feat:emit_script_level": 20,
			"feat:destroy_with_attachments": 20, "feat:destroy_with_nested": 20, "feat:destroy_with_interface_event": 10, "feat:remove_attachment": 10,
			"feat:load": 10, "feat:update_in_storage": 5, "feat:destroy_container": 10, "feat:destroy_by_replacement": 3,
			"feat:ptype_integer": 100, "feat:ptype_fixed_point": 20, "feat:ptype_abstract_number": 20, "feat:ptype_string": 20, "feat:ptype_character": 20, "feat:ptype_bool": 20,
			"feat:ptype_address": 20, "feat:ptype_path": 20, "feat:ptype_type": 20, "feat:ptype_optional": 40, "feat:ptype_array": 40, "feat:ptype_const_array": 10,
			"feat:ptype_dictionary": 30, "feat:ptype_struct": 20, "feat:ptype_reference": 10,
		},
		Run: runC48,
	})
}

func runC48(c *core.Ctx) {
	r := c.Rng
	w := newWorld48(r)
	h := &hist48{w: w, r: r, stored: map[string]*mres{}}
	var progs []*prog48
	n := 5 + r.IntN(4)
	for i := 0; i < n; i++ {
		progs = append(progs, h.genProgram(chance(r, 3, 5)))
	}
	decls := map[string]*eventDecl{}
	for _, e := range w.events {
		decls[e.id()] = e
	}
	for _, d := range w.res {
		if d.ev != nil {
			decls[d.ev.id()] = d.ev
		}
	}
	for _, d := range w.atts {
		if d.ev != nil {
			decls[d.ev.id()] = d.ev
		}
	}
	for _, d := range w.ifaces {
		decls[d.ev.id()] = d.ev
	}
	okOn := map[host.Engine]map[int]bool{}
	for _, eng := range host.AllEngines {
		hh := host.New()
		if o := hh.Deploy(eng, host.Addr(1), "C0", w.c0); !succeeded(o) {
			c.Inc("deploy_failed")
			c.Note("deploy_failure", core.Clip(host.ErrText(o), 1500)+"\n"+core.Clip(w.c0, 3000))
			continue
		}
		if o := hh.Deploy(eng, host.Addr(2), "C1", w.c1); !succeeded(o) {
			c.Inc("deploy_failed")
			c.Note("deploy_failure", core.Clip(host.ErrText(o), 1500)+"\n"+core.Clip(w.c1, 3000))
			continue
		}
		uuidOf := map[int]uint64{}
		if okOn[eng] == nil {
			okOn[eng] = map[int]bool{}
		}
		for pi, p := range progs {
			hh.ResetTrace()
			var o host.Outcome
			if p.isTx {
				o = hh.RunTx(eng, p.src, nil, signers(1), nil)
			} else {
				o = hh.RunScript(eng, p.src, nil, nil)
			}
			c.Eval(1)
			if !succeeded(o) {
				c.Inc("execution_failed")
				c.Note("execution_failure", core.Clip(host.ErrText(o), 1500)+"\n"+core.Clip(p.src, 3000))
				// the same program on the same history succeeded on the interpreter: the events the model
				// (and the interpreter) deliver are not delivered by this engine
				if eng != host.EngI && okOn[host.EngI][pi] {
					var prior []string
					for _, q := range progs[:pi] {
						prior = append(prior, q.src)
					}
					c.Violate(fmt.Sprintf("events-not-delivered: execution fails on %s only (%s: %s)", eng, host.Classify(o), host.ErrKind(o.Err)),
						fmt.Sprintf("the program succeeds on the interpreter and delivers %d expected event(s); on %s it fails: %s", len(p.expect), eng, core.Clip(host.ErrText(o), 300)),
						map[string]any{"contract_C0": w.c0, "contract_C1": w.c1, "program": p.src, "prior_programs": prior, "engine": eng.String()})
				}
				break // the model of the stored resources no longer applies to this engine's ledger
			}
			okOn[eng][pi] = true
			c.Inc("successful_executions")
			if len(hh.UUIDs) != len(p.creations) {
				c.Inc("uuid_count_mismatch")
				c.Note("uuid_count_mismatch", fmt.Sprintf("model %d creations, observed %d\n%s", len(p.creations), len(hh.UUIDs), p.src))
				break
			}
			for i, ord := range p.creations {
				uuidOf[ord] = hh.UUIDs[i]
			}
			for _, u := range p.ctx.uuids {
				u.v.big = new(big.Int).SetUint64(uuidOf[u.ord])
			}
			kd := decls
			if len(p.local) > 0 {
				kd = map[string]*eventDecl{}
				for id, d := range decls {
					kd[id] = d
				}
				for _, d := range p.local {
					kd[d.id()] = d
				}
			}
			prior := pi
			k := &checker48{c: c, eng: eng, decls: kd, wit: func() map[string]any {
				m := map[string]any{"contract_C0": w.c0, "contract_C1": w.c1, "program": p.src}
				var ps []string
				for _, q := range progs[:prior] {
					ps = append(ps, q.src)
				}
				m["prior_programs"] = ps
				return m
			}}
			k.checkEvents(hh.Events, p.expect)
			if eng == host.EngI {
				if len(p.expect) > 0 {
					c.Distinct(p.src)
				}
				for f, n := range p.feats {
					c.Count("feat:"+f, int64(n))
				}
				if pi == 0 && c.WantSample() && len(hh.Events) > 0 {
					c.Sample(map[string]any{"program": p.src, "first_event": core.Clip(hh.Events[0].String(), 400), "events": len(hh.Events)})
				}
			}
		}
	}
}
