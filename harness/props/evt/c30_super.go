package evt

import (
	"fmt"
	"os"
	"runtime"
	"strconv"
	"sync"
	"sync/atomic"
	"syscall"
	"time"
)

// Gauge-starvation supervisor of C30 (one per worker process).
//
// Every gauge call (memory or computation) increments an atomic counter (Gauge.OnCall). A supervisor
// goroutine wakes up every 250 ms of wall time, reads the process CPU time (getrusage) and the counter:
// when the counter moved, the CPU clock of the last progress is updated; when an execution is running and
// the process burnt more than `gap` of CPU time without a single gauge call, the work being done is unmetered:
// the goroutine stacks are dumped and a breach is recorded (the executing goroutine turns it into a violation
// when — if — the execution returns). If the gauge stays silent for 10*gap of CPU time in total the worker
// prints the dump as a Go-style "panic:" line and exits, which the parent reports as a dead worker
// (key "worker-died:panic: C unmetered work feature=<feature>"; the parent strips digits from the key).

type breach struct {
	Feature string
	GapCPU  time.Duration
	Dump    string
}

type supervisor struct {
	calls   atomic.Uint64
	running atomic.Bool
	feature atomic.Value // string
	pending atomic.Pointer[breach]
	once    sync.Once
	gap     time.Duration
	maxGap  atomic.Int64 // largest observed CPU gap (ns) without gauge call while running
}

var sup supervisor

func processCPU() time.Duration {
	var ru syscall.Rusage
	if err := syscall.Getrusage(syscall.RUSAGE_SELF, &ru); err != nil {
		return 0
	}
	return time.Duration(ru.Utime.Nano() + ru.Stime.Nano())
}

func (s *supervisor) start() {
	s.once.Do(func() {
		s.gap = 30 * time.Second
		if v := os.Getenv("VERIF_C30_GAP_S"); v != "" {
			if n, err := strconv.Atoi(v); err == nil && n > 0 {
				s.gap = time.Duration(n) * time.Second
			}
		}
		s.feature.Store("")
		go s.loop()
	})
}

func (s *supervisor) loop() {
	runtime.LockOSThread()
	var lastCalls uint64
	lastProgress := processCPU()
	reported := false
	for {
		time.Sleep(250 * time.Millisecond)
		cpu := processCPU()
		cur := s.calls.Load()
		if !s.running.Load() || cur != lastCalls {
			lastCalls = cur
			lastProgress = cpu
			reported = false
			continue
		}
		gap := cpu - lastProgress
		if int64(gap) > s.maxGap.Load() {
			s.maxGap.Store(int64(gap))
		}
		if gap > s.gap && !reported {
			reported = true
			buf := make([]byte, 1<<20)
			n := runtime.Stack(buf, true)
			feature, _ := s.feature.Load().(string)
			s.pending.Store(&breach{Feature: feature, GapCPU: gap, Dump: string(buf[:n])})
		}
		if gap > 10*s.gap {
			feature, _ := s.feature.Load().(string)
			buf := make([]byte, 1<<20)
			n := runtime.Stack(buf, true)
			fmt.Fprintf(os.Stderr, "panic: C30 unmetered work feature=%s\nno gauge call during %.0f s of CPU time and the execution did not end\n\n%s\n", feature, gap.Seconds(), buf[:n])
			os.Exit(2)
		}
	}
}

// begin marks the start of an execution of a program exercising feature.
func (s *supervisor) begin(feature string) {
	s.start()
	s.feature.Store(feature)
	s.pending.Store(nil)
	s.calls.Add(1)
	s.running.Store(true)
}

// end marks the end of the execution and returns a breach recorded during it (nil = none).
func (s *supervisor) end() *breach {
	s.running.Store(false)
	return s.pending.Swap(nil)
}

func (s *supervisor) onGaugeCall() { s.calls.Add(1) }
