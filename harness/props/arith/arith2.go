package arith

import (
	"fmt"
	"math/big"

	"github.com/onflow/cadence/common"
	"github.com/onflow/cadence/interpreter"
	"github.com/onflow/cadence/sema"

	"verif/harness/core"
	"verif/harness/num"
)

// ---------------------------------------------------------------- C13 saturating

func semaNumericByName(name string) sema.Type {
	for _, t := range sema.AllNumberTypes {
		if t.String() == name {
			return t
		}
	}
	return nil
}

// satOpsFor lists the saturating operations the checker declares for a type
// ("every numeric type that provides them").
func satOpsFor(name string) []string {
	t := semaNumericByName(name)
	st, ok := t.(sema.SaturatingArithmeticType)
	if !ok {
		return nil
	}
	var ops []string
	if st.SupportsSaturatingAdd() {
		ops = append(ops, "sat+")
	}
	if st.SupportsSaturatingSubtract() {
		ops = append(ops, "sat-")
	}
	if st.SupportsSaturatingMultiply() {
		ops = append(ops, "sat*")
	}
	if st.SupportsSaturatingDivide() {
		ops = append(ops, "sat/")
	}
	return ops
}

func satMethod(op string) string {
	switch op {
	case "sat+":
		return "saturatingAdd"
	case "sat-":
		return "saturatingSubtract"
	case "sat*":
		return "saturatingMultiply"
	case "sat/":
		return "saturatingDivide"
	}
	panic(op)
}

func clampBig(r, mn, mx *big.Int) *big.Int {
	if mn != nil && r.Cmp(mn) < 0 {
		return mn
	}
	if mx != nil && r.Cmp(mx) > 0 {
		return mx
	}
	return r
}

func satExpect(t num.IntType, op string, a, b *big.Int) intExpect {
	r, def := exactBinary(op[3:], a, b)
	if !def {
		return intExpect{Fail: "DivisionByZero"}
	}
	return intExpect{Value: clampBig(r, t.Min(), t.Max())}
}

// fixed-point exact result on raw scaled integers, truncated toward zero
func fixExact(t num.FixType, op string, a, b *big.Int) (*big.Int, bool) {
	f := t.Factor()
	r := new(big.Int)
	switch op {
	case "+":
		r.Add(a, b)
	case "-":
		r.Sub(a, b)
	case "*":
		r.Mul(a, b)
		r.Quo(r, f) // truncation toward zero
	case "/":
		if b.Sign() == 0 {
			return nil, false
		}
		r.Mul(a, f)
		r.Quo(r, b)
	case "%":
		if b.Sign() == 0 {
			return nil, false
		}
		// a - trunc(a/b)*b with trunc(a/b) an integer => raw remainder
		r.Rem(a, b)
	}
	return r, true
}

func satFixTypes() []num.FixType {
	var out []num.FixType
	for _, t := range num.FixTypes {
		if len(satOpsFor(t.Name)) > 0 {
			out = append(out, t)
		}
	}
	return out
}

type fixStringer struct {
	t   num.FixType
	raw *big.Int
}

func init() {
	satIntNames := func() []string {
		var out []string
		for _, t := range num.IntTypes {
			if len(satOpsFor(t.Name)) > 0 {
				out = append(out, t.Name)
			}
		}
		return out
	}
	c13tasks := func(tier string) []arithTask {
		ts := buildArithTasks(satIntNames(), tier, 16, 4, 2, 32)
		for _, ft := range satFixTypes() {
			n := 2
			if tier == "thorough" {
				n = 32
			}
			ts = append(ts, arithTask{ft.Name, "fixbound", 0, 1})
			for p := 0; p < n; p++ {
				ts = append(ts, arithTask{ft.Name, "fixrand", p, n})
			}
		}
		return ts
	}
	core.Register(&core.Prop{
		ID:   "C13",
		Rule: "direct calls of SaturatingPlus/Minus/Mul/Div on every numeric type for which the checker declares the member (taken from sema); exhaustive for 8-bit types, boundary-set squared plus seeded random pairs otherwise, fixed-point types on raw scaled integers; distinct by (type, op, a, b)",
		Assumptions: []string{
			"oracle = exact result (fixed point: truncated toward zero at the type's scale) clamped to [min,max]",
		},
		NumCases: func(tier string) int { return len(c13tasks(tier)) + scriptLegCases(tier) },
		Floors:   map[string]int64{"outcome_value": 1000, "clamped_results": 500, "outcome_DivisionByZero": 10, "fix_evals": 1000, "exhaustive_8bit_pairs": 2 * 65536},
		Run: func(c *core.Ctx) {
			tasks := c13tasks(c.Tier)
			if c.Case >= len(tasks) {
				arithScriptLeg(c, "C13", c.Case-len(tasks))
				return
			}
			task := tasks[c.Case]
			if task.Kind == "fixbound" || task.Kind == "fixrand" {
				ft := num.FixTypeByName(task.Type)
				ops := satOpsFor(ft.Name)
				run := func(a, b *big.Int) {
					x, y := ft.Make(a), ft.Make(b)
					for _, op := range ops {
						c.Eval(1)
						c.Inc("fix_evals")
						got := callBinary(op, x, y)
						r, def := fixExact(ft, op[3:], a, b)
						var exp intExpect
						if !def {
							exp = intExpect{Fail: "DivisionByZero"}
						} else {
							cl := clampBig(r, ft.MinRaw(), ft.MaxRaw())
							if cl != r {
								c.Inc("clamped_results")
							}
							exp = intExpect{Value: cl}
						}
						if got.Kind == "" {
							got.Val = strVal(num.RawOf(ft, got.Val).String())
						}
						checkInt(c, "C13", ft.Name, op, a, b, exp, got)
						c.DistinctHash(hash4(ft.Name, op, a, b))
					}
				}
				bs := num.FixBoundary(ft)
				if task.Kind == "fixbound" {
					for _, a := range bs {
						for _, b := range bs {
							run(a, b)
						}
					}
				} else {
					for i := 0; i < 5000; i++ {
						a, b := num.FixRandom(ft, c.Rng), num.FixRandom(ft, c.Rng)
						if c.Rng.IntN(3) == 0 {
							a = bs[c.Rng.IntN(len(bs))]
						}
						if c.Rng.IntN(3) == 0 {
							b = bs[c.Rng.IntN(len(bs))]
						}
						run(a, b)
					}
				}
				if c.WantSample() {
					c.Sample(map[string]any{"task": task, "example": fmt.Sprintf("%s max sat* 2.0 -> %s", ft.Name,
						callBinary("sat*", ft.Make(ft.MaxRaw()), ft.Make(new(big.Int).Mul(ft.Factor(), big.NewInt(2)))).describe())})
				}
				return
			}
			t := num.IntTypeByName(task.Type)
			ops := satOpsFor(t.Name)
			operandPairs(c, t, task, 10000, func(a, b *big.Int) {
				x, y := t.Make(a), t.Make(b)
				if task.Kind == "exh" {
					c.Inc("exhaustive_8bit_pairs")
				}
				for _, op := range ops {
					c.Eval(1)
					got := callBinary(op, x, y)
					exp := satExpect(t, op, a, b)
					if exp.Fail == "" {
						if r, _ := exactBinary(op[3:], a, b); r.Cmp(exp.Value) != 0 {
							c.Inc("clamped_results")
						}
					}
					checkInt(c, "C13", t.Name, op, a, b, exp, got)
					c.DistinctHash(hash4(t.Name, op, a, b))
				}
			})
			if c.WantSample() {
				c.Sample(map[string]any{"task": task, "ops": ops})
			}
		},
	})

	// ---------------------------------------------------------------- C14 bitwise
	allIntNames := func() []string {
		var out []string
		for _, t := range num.IntTypes {
			out = append(out, t.Name)
		}
		return out
	}
	c14tasks := func(tier string) []arithTask {
		ts := buildArithTasks(allIntNames(), tier, 16, 4, 2, 24)
		for _, n := range allIntNames() {
			ts = append(ts, arithTask{n, "shift", 0, 1})
		}
		return ts
	}
	core.Register(&core.Prop{
		ID:   "C14",
		Rule: "direct calls of BitwiseAnd/Or/Xor/LeftShift/RightShift on all 20 integer and Word types; exhaustive pairs for 8-bit types (shifts: every value x every amount the type can hold), boundary-set squared and seeded random pairs otherwise, plus a dedicated shift sweep (amounts 0..width+1, 2*width, type max, around 2^63/2^64 for Int/UInt); distinct by (type, op, a, b)",
		Assumptions: []string{
			"oracle = two's-complement reading at the type's width via math/big (infinite width for Int/UInt)",
			"for Int/UInt, shift amounts that do not fit in 64 bits may fail with Overflow (as the statement allows); unbounded left shifts run under a 64 MiB memory gauge and a memory-limit failure is accepted there",
		},
		NumCases: func(tier string) int { return len(c14tasks(tier)) + scriptLegCases(tier) },
		Floors:   map[string]int64{"outcome_value": 1000, "outcome_NegativeShift": 50, "shift_ge_width": 100, "exhaustive_8bit_pairs": 3 * 65536},
		Run: func(c *core.Ctx) {
			tasks := c14tasks(c.Tier)
			if c.Case >= len(tasks) {
				arithScriptLeg(c, "C14", c.Case-len(tasks))
				return
			}
			task := tasks[c.Case]
			t := num.IntTypeByName(task.Type)
			doOp := func(op string, a, b *big.Int) {
				x := t.Make(a).(interpreter.IntegerValue)
				y := t.Make(b).(interpreter.IntegerValue)
				c.Eval(1)
				exp := bitExpect(t, op, a, b)
				var ctx interpreter.ValueStaticTypeContext = noopCtx
				if t.Bits == 0 && op == "<<" {
					ctx = &limitCtx{limit: 64 << 20}
					exp.AlsoOK = append(exp.AlsoOK, "MemoryMetering")
					if b.BitLen() > 20 && a.BitLen() > 1 {
						return // would be enormous; only 0 or 1 are shifted that far
					}
				}
				got := protect(func() fmt.Stringer {
					switch op {
					case "&":
						return x.BitwiseAnd(ctx, y)
					case "|":
						return x.BitwiseOr(ctx, y)
					case "^":
						return x.BitwiseXor(ctx, y)
					case "<<":
						return x.BitwiseLeftShift(ctx, y)
					case ">>":
						return x.BitwiseRightShift(ctx, y)
					}
					panic(op)
				})
				if (op == "<<" || op == ">>") && t.Bits != 0 && b.Sign() >= 0 && b.Cmp(big.NewInt(int64(t.Bits))) >= 0 {
					c.Inc("shift_ge_width")
				}
				checkInt(c, "C14", t.Name, op, a, b, exp, got)
				c.DistinctHash(hash4(t.Name, op, a, b))
			}
			if task.Kind == "shift" {
				bs := num.Boundary(t)
				var vals []*big.Int
				vals = append(vals, bs...)
				for i := 0; i < 40; i++ {
					vals = append(vals, num.Random(t, c.Rng))
				}
				for _, a := range vals {
					for _, n := range shiftAmounts(t) {
						if !t.InRange(n) {
							continue
						}
						av := a
						if t.Bits == 0 && n.BitLen() > 20 {
							av = big.NewInt(int64(c.Rng.IntN(2)))
						}
						doOp("<<", av, n)
						doOp(">>", av, n)
					}
				}
				if c.WantSample() {
					c.Sample(map[string]any{"task": task, "shift_amounts": fmt.Sprint(shiftAmounts(t))})
				}
				return
			}
			operandPairs(c, t, task, 10000, func(a, b *big.Int) {
				if task.Kind == "exh" {
					c.Inc("exhaustive_8bit_pairs")
				}
				for _, op := range []string{"&", "|", "^"} {
					doOp(op, a, b)
				}
				if task.Kind == "exh" {
					doOp("<<", a, b)
					doOp(">>", a, b)
				}
			})
		},
	})
}

type limitCtx struct {
	interpreter.NoOpStringContext
	limit uint64
	used  uint64
}

func (l *limitCtx) MeterMemory(u common.MemoryUsage) error {
	l.used += u.Amount
	if l.used > l.limit {
		return fmt.Errorf("verif memory limit")
	}
	return nil
}

func shiftAmounts(t num.IntType) []*big.Int {
	w := t.Bits
	if w == 0 {
		w = 256
	}
	var out []*big.Int
	for i := 0; i <= w+1; i++ {
		if i <= 9 || i >= w-2 || i%7 == 0 || i == 63 || i == 64 || i == 65 || i == 127 || i == 128 {
			out = append(out, big.NewInt(int64(i)))
		}
	}
	out = append(out, big.NewInt(int64(2*w)), big.NewInt(-1), big.NewInt(-2))
	if mx := t.Max(); mx != nil {
		out = append(out, mx, new(big.Int).Sub(mx, big.NewInt(1)))
	}
	if mn := t.Min(); mn != nil && mn.Sign() < 0 {
		out = append(out, mn)
	}
	if t.Bits == 0 || t.Bits > 64 {
		for _, k := range []uint{63, 64} {
			p := new(big.Int).Lsh(big.NewInt(1), k)
			out = append(out, new(big.Int).Sub(p, big.NewInt(1)), p, new(big.Int).Add(p, big.NewInt(1)))
		}
	}
	if t.Bits == 0 {
		out = append(out, big.NewInt(1000), big.NewInt(4096), big.NewInt(1<<16), big.NewInt(1<<31), new(big.Int).Lsh(big.NewInt(1), 40))
	}
	return out
}

func shiftAmount(c *core.Ctx, t num.IntType) *big.Int {
	s := shiftAmounts(t)
	return s[c.Rng.IntN(len(s))]
}

// toUnsignedBits: two's complement reading of x at width w
func toUnsignedBits(x *big.Int, w int) *big.Int {
	m := new(big.Int).Lsh(big.NewInt(1), uint(w))
	return new(big.Int).Mod(x, m)
}

func bitExpect(t num.IntType, op string, a, b *big.Int) intExpect {
	switch op {
	case "&", "|", "^":
		// math/big implements two's-complement semantics of infinite width for And/Or/Xor
		r := new(big.Int)
		switch op {
		case "&":
			r.And(a, b)
		case "|":
			r.Or(a, b)
		case "^":
			r.Xor(a, b)
		}
		if t.Bits != 0 {
			r = t.Wrap(r)
		}
		return intExpect{Value: r}
	}
	if b.Sign() < 0 {
		return intExpect{Fail: "NegativeShift"}
	}
	if t.Bits == 0 {
		var also []string
		if !b.IsUint64() {
			return intExpect{Fail: "Overflow"}
		}
		n := uint(b.Uint64())
		if op == "<<" {
			if b.BitLen() > 30 {
				// exact result not computable here; operand is 0 or 1
				if a.Sign() == 0 {
					also = append(also, "MemoryMetering")
					if b.BitLen() > 60 {
						also = append(also, "errors.DefaultUserError")
					}
					return intExpect{Value: big.NewInt(0), AlsoOK: also}
				}
				if b.BitLen() > 60 {
					// the result cannot exist in any address space: the documented
					// "invalid left shift" user error is accepted as a resource-limit failure
					return intExpect{Fail: "MemoryMetering", AlsoOK: []string{"errors.DefaultUserError"}}
				}
				return intExpect{Fail: "MemoryMetering"}
			}
			return intExpect{Value: new(big.Int).Lsh(a, n), AlsoOK: also}
		}
		if b.BitLen() > 30 {
			if a.Sign() >= 0 {
				return intExpect{Value: big.NewInt(0)}
			}
			return intExpect{Value: big.NewInt(-1)}
		}
		return intExpect{Value: new(big.Int).Rsh(a, n)} // big.Int.Rsh is floor division (arithmetic shift)
	}
	// fixed width
	if b.Cmp(big.NewInt(int64(4*t.Bits))) > 0 {
		if op == "<<" {
			return intExpect{Value: big.NewInt(0)}
		}
		if a.Sign() >= 0 {
			return intExpect{Value: big.NewInt(0)}
		}
		return intExpect{Value: big.NewInt(-1)}
	}
	n := uint(b.Uint64())
	if op == "<<" {
		return intExpect{Value: t.Wrap(new(big.Int).Lsh(a, n))}
	}
	return intExpect{Value: new(big.Int).Rsh(a, n)}
}
