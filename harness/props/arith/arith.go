package arith

import (
	"fmt"
	"math/big"

	"github.com/onflow/cadence/interpreter"

	"verif/harness/core"
	"verif/harness/num"
)

// Direct-call arithmetic monitors: C11 (checked integers), C12 (Word), C13 (saturating), C14 (bitwise).
// Oracle: math/big exact recomputation. Observed: return value or recovered panic of the exported
// NumberValue / IntegerValue methods.

type arithTask struct {
	Type string
	Kind string // exh | bound | rand
	Part int
	Of   int
}

func buildArithTasks(types []string, tier string, exhParts, boundParts, randPartsQ, randPartsT int) []arithTask {
	var ts []arithTask
	for _, tn := range types {
		bits := 0
		isFix := false
		for _, t := range num.IntTypes {
			if t.Name == tn {
				bits = t.Bits
			}
		}
		for _, t := range num.FixTypes {
			if t.Name == tn {
				isFix = true
			}
		}
		if bits == 8 && !isFix {
			for p := 0; p < exhParts; p++ {
				ts = append(ts, arithTask{tn, "exh", p, exhParts})
			}
			continue
		}
		for p := 0; p < boundParts; p++ {
			ts = append(ts, arithTask{tn, "bound", p, boundParts})
		}
		rp := randPartsQ
		if tier == "thorough" {
			rp = randPartsT
		}
		for p := 0; p < rp; p++ {
			ts = append(ts, arithTask{tn, "rand", p, rp})
		}
	}
	return ts
}

// operandPairs calls f for every operand pair of the task.
func operandPairs(c *core.Ctx, t num.IntType, task arithTask, randPerPart int, f func(a, b *big.Int)) {
	switch task.Kind {
	case "exh":
		lo, hi := int64(0), int64(255)
		if t.Signed {
			lo, hi = -128, 127
		}
		i := 0
		for a := lo; a <= hi; a++ {
			if i%task.Of == task.Part {
				for b := lo; b <= hi; b++ {
					f(big.NewInt(a), big.NewInt(b))
				}
			}
			i++
		}
	case "bound":
		bs := num.Boundary(t)
		for i, a := range bs {
			if i%task.Of != task.Part {
				continue
			}
			for _, b := range bs {
				f(a, b)
			}
		}
	case "rand":
		bs := num.Boundary(t)
		for i := 0; i < randPerPart; i++ {
			var a, b *big.Int
			switch c.Rng.IntN(4) {
			case 0:
				a, b = bs[c.Rng.IntN(len(bs))], num.Random(t, c.Rng)
			case 1:
				a, b = num.Random(t, c.Rng), bs[c.Rng.IntN(len(bs))]
			default:
				a, b = num.Random(t, c.Rng), num.Random(t, c.Rng)
			}
			f(a, b)
		}
	}
}

type callOutcome struct {
	Val  fmt.Stringer
	Kind string // "" = returned; otherwise panic kind
	Raw  any
}

func protect(f func() fmt.Stringer) (o callOutcome) {
	defer func() {
		if r := recover(); r != nil {
			o.Kind = num.PanicKind(r)
			o.Raw = r
		}
	}()
	o.Val = f()
	return
}

var noopCtx = interpreter.NoOpStringContext{}

func (o callOutcome) describe() string {
	if o.Kind != "" {
		return "fail:" + o.Kind
	}
	return "value:" + o.Val.String()
}

func isOverUnder(k string) bool { return k == "Overflow" || k == "Underflow" }

// expectation of an integer operation
type intExpect struct {
	Value *big.Int // nil when a failure is expected
	Fail  string   // "range" (overflow or underflow), "DivisionByZero", "NegativeShift", "" (value)
	// AlsoOK lists additional acceptable failure kinds (e.g. Overflow for huge shifts, MemoryMetering)
	AlsoOK []string
}

func checkInt(c *core.Ctx, prop, tn, op string, a, b *big.Int, exp intExpect, got callOutcome) {
	okFail := func(k string) bool {
		for _, x := range exp.AlsoOK {
			if x == k {
				return true
			}
		}
		return false
	}
	expDesc := ""
	ok := false
	switch {
	case exp.Fail == "":
		expDesc = "value:" + exp.Value.String()
		if got.Kind == "" {
			ok = num.ToBig(got.Val).Cmp(exp.Value) == 0
		} else {
			ok = okFail(got.Kind)
		}
	case exp.Fail == "range":
		expDesc = "fail:Overflow|Underflow"
		ok = isOverUnder(got.Kind) || (got.Kind != "" && okFail(got.Kind))
	default:
		expDesc = "fail:" + exp.Fail
		ok = got.Kind == exp.Fail || (got.Kind != "" && okFail(got.Kind))
	}
	if got.Kind == "" {
		c.Inc("outcome_value")
	} else {
		c.Inc("outcome_" + got.Kind)
	}
	if ok {
		return
	}
	gotClass := "value"
	if got.Kind != "" {
		gotClass = "fail:" + got.Kind
	}
	expClass := "value"
	if exp.Fail != "" {
		expClass = "fail:" + exp.Fail
	}
	bs := "-"
	if b != nil {
		bs = b.String()
	}
	c.Violate(fmt.Sprintf("%s.%s expected=%s got=%s", tn, op, expClass, gotClass),
		fmt.Sprintf("%s: (%s) %s (%s): expected %s, observed %s", tn, a, op, bs, expDesc, got.describe()),
		map[string]any{"type": tn, "op": op, "a": a.String(), "b": bs, "expected": expDesc, "observed": got.describe()})
}

var arithOps = []string{"+", "-", "*", "/", "%"}

func exactBinary(op string, a, b *big.Int) (*big.Int, bool) {
	r := new(big.Int)
	switch op {
	case "+":
		r.Add(a, b)
	case "-":
		r.Sub(a, b)
	case "*":
		r.Mul(a, b)
	case "/":
		if b.Sign() == 0 {
			return nil, false
		}
		r.Quo(a, b) // truncated toward zero
	case "%":
		if b.Sign() == 0 {
			return nil, false
		}
		r.Rem(a, b) // sign of the dividend
	}
	return r, true
}

func callBinary(op string, x, y interpreter.NumberValue) callOutcome {
	return protect(func() fmt.Stringer {
		switch op {
		case "+":
			return x.Plus(noopCtx, y)
		case "-":
			return x.Minus(noopCtx, y)
		case "*":
			return x.Mul(noopCtx, y)
		case "/":
			return x.Div(noopCtx, y)
		case "%":
			return x.Mod(noopCtx, y)
		case "sat+":
			return x.SaturatingPlus(noopCtx, y)
		case "sat-":
			return x.SaturatingMinus(noopCtx, y)
		case "sat*":
			return x.SaturatingMul(noopCtx, y)
		case "sat/":
			return x.SaturatingDiv(noopCtx, y)
		}
		panic("bad op " + op)
	})
}

func checkedIntTypeNames() []string {
	var out []string
	for _, t := range num.IntTypes {
		if !t.Word {
			out = append(out, t.Name)
		}
	}
	return out
}

func wordTypeNames() []string {
	var out []string
	for _, t := range num.IntTypes {
		if t.Word {
			out = append(out, t.Name)
		}
	}
	return out
}

func init() {
	// ---------------- C11
	c11tasks := func(tier string) []arithTask { return buildArithTasks(checkedIntTypeNames(), tier, 16, 4, 2, 32) }
	core.Register(&core.Prop{
		ID:   "C11",
		Rule: "direct calls of Plus/Minus/Mul/Div/Mod/Negate on interpreter integer values; exhaustive operand pairs for Int8/UInt8, boundary-set squared plus seeded random pairs for the other 12 checked types; a case is distinct by (type, op, a, b) and non-trivial always (every pair exercises the range predicate); distinct count is taken over a hash set capped at 2^20 per worker",
		Assumptions: []string{
			"oracle = math/big exact arithmetic; results are read back through the value's decimal String()",
			"either Overflow or Underflow is accepted for an out-of-range result (the statement does not fix which)",
		},
		NumCases:   func(tier string) int { return len(c11tasks(tier)) + scriptLegCases(tier) },
		Exhaustive: func(string) bool { return false },
		Floors:     map[string]int64{"outcome_value": 1000, "outcome_Overflow": 100, "outcome_Underflow": 100, "outcome_DivisionByZero": 50, "exhaustive_8bit_pairs": 2 * 65536},
		Run: func(c *core.Ctx) {
			tasks := c11tasks(c.Tier)
			if c.Case >= len(tasks) {
				arithScriptLeg(c, "C11", c.Case-len(tasks))
				return
			}
			task := tasks[c.Case]
			t := num.IntTypeByName(task.Type)
			nrand := 10000
			first := true
			operandPairs(c, t, task, nrand, func(a, b *big.Int) {
				x, y := t.Make(a), t.Make(b)
				if task.Kind == "exh" {
					c.Inc("exhaustive_8bit_pairs")
				}
				for _, op := range arithOps {
					c.Eval(1)
					got := callBinary(op, x, y)
					r, defined := exactBinary(op, a, b)
					var exp intExpect
					switch {
					case !defined:
						exp = intExpect{Fail: "DivisionByZero"}
					case t.InRange(r):
						exp = intExpect{Value: r}
					default:
						exp = intExpect{Fail: "range"}
					}
					checkInt(c, "C11", t.Name, op, a, b, exp, got)
					c.DistinctHash(hash4(t.Name, op, a, b))
				}
				// unary minus on a (signed types only declare it usefully; unsigned: result must be exact or fail)
				if b.Sign() == 0 || first {
					first = false
					c.Eval(1)
					got := protect(func() fmt.Stringer { return x.Negate(noopCtx) })
					r := new(big.Int).Neg(a)
					exp := intExpect{Value: r}
					if !t.InRange(r) {
						exp = intExpect{Fail: "range"}
					}
					if !t.Signed {
						// unary minus is not available on unsigned types in the language; the Go method is
						// unreachable from programs. Only require: no wrong value.
						if got.Kind != "" {
							return
						}
					}
					checkInt(c, "C11", t.Name, "neg", a, nil, exp, got)
				}
			})
			if c.WantSample() {
				c.Sample(map[string]any{"task": task, "example": fmt.Sprintf("%s: max+1 -> %s", t.Name, sampleMaxPlusOne(t))})
			}
		},
	})

	// ---------------- C12
	c12tasks := func(tier string) []arithTask { return buildArithTasks(wordTypeNames(), tier, 16, 4, 2, 32) }
	core.Register(&core.Prop{
		ID:   "C12",
		Rule: "direct calls of Plus/Minus/Mul/Div/Mod on Word8..Word256 values; exhaustive pairs for Word8, boundary-set squared plus seeded random pairs otherwise; distinct by (type, op, a, b)",
		Assumptions: []string{"oracle = math/big exact result reduced modulo 2^n"},
		NumCases:   func(tier string) int { return len(c12tasks(tier)) + scriptLegCases(tier) },
		Floors:     map[string]int64{"outcome_value": 1000, "outcome_DivisionByZero": 50, "wrapped_results": 500, "exhaustive_8bit_pairs": 65536},
		Run: func(c *core.Ctx) {
			tasks := c12tasks(c.Tier)
			if c.Case >= len(tasks) {
				arithScriptLeg(c, "C12", c.Case-len(tasks))
				return
			}
			task := tasks[c.Case]
			t := num.IntTypeByName(task.Type)
			operandPairs(c, t, task, 10000, func(a, b *big.Int) {
				x, y := t.Make(a), t.Make(b)
				if task.Kind == "exh" {
					c.Inc("exhaustive_8bit_pairs")
				}
				for _, op := range arithOps {
					c.Eval(1)
					got := callBinary(op, x, y)
					r, defined := exactBinary(op, a, b)
					var exp intExpect
					if !defined {
						exp = intExpect{Fail: "DivisionByZero"}
					} else {
						if !t.InRange(r) {
							c.Inc("wrapped_results")
						}
						exp = intExpect{Value: t.Wrap(r)}
					}
					checkInt(c, "C12", t.Name, op, a, b, exp, got)
					c.DistinctHash(hash4(t.Name, op, a, b))
				}
			})
			if c.WantSample() {
				c.Sample(map[string]any{"task": task, "example": fmt.Sprintf("%s: max+1 -> %s", t.Name, sampleMaxPlusOne(t))})
			}
		},
	})
}

func sampleMaxPlusOne(t num.IntType) string {
	mx := t.Max()
	if mx == nil {
		mx = new(big.Int).Lsh(big.NewInt(1), 200)
	}
	return callBinary("+", t.Make(mx), t.Make(big.NewInt(1))).describe()
}

func hash4(tn, op string, a, b *big.Int) uint64 {
	h := uint64(14695981039346656037)
	mix := func(bs []byte) {
		for _, x := range bs {
			h ^= uint64(x)
			h *= 1099511628211
		}
		h ^= 0xff
		h *= 1099511628211
	}
	mix([]byte(tn))
	mix([]byte(op))
	if a != nil {
		mix(a.Bytes())
		mix([]byte{byte(a.Sign() + 1)})
	}
	if b != nil {
		mix(b.Bytes())
		mix([]byte{byte(b.Sign() + 1)})
	}
	return h
}
