package arith

import (
	"fmt"
	"math/big"
	"strings"

	"verif/harness/core"
	"verif/harness/host"
	"verif/harness/num"
)

// Script leg of C11–C14: the same oracle, but the operation is written as Cadence source and run
// through the runtime on all three engines (operator dispatch, literal typing, VM instructions).

func scriptLegCases(tier string) int {
	if tier == "thorough" {
		return 400
	}
	return 16
}

const scriptLegPerCase = 125

type scriptOp struct {
	Name string // op name for the oracle
	Src  func(a, b string) string
}

func infix(op string) func(a, b string) string {
	return func(a, b string) string { return "a " + op + " b" }
}
func method(m string) func(a, b string) string {
	return func(a, b string) string { return "a." + m + "(b)" }
}

func failKindOf(o host.Outcome) string {
	if o.Escaped != nil {
		return "ESCAPED"
	}
	if o.Err == nil {
		return ""
	}
	cls := host.Classify(o)
	ks := host.ErrKinds(o.Err)
	for _, k := range ks {
		switch {
		case strings.HasSuffix(k, "OverflowError"):
			return "Overflow"
		case strings.HasSuffix(k, "UnderflowError"):
			return "Underflow"
		case strings.HasSuffix(k, "DivisionByZeroError"):
			return "DivisionByZero"
		case strings.HasSuffix(k, "NegativeShiftError"):
			return "NegativeShift"
		case strings.HasSuffix(k, "MemoryMeteringError"):
			return "MemoryMetering"
		}
	}
	if cls == host.ClassUser && strings.Contains(o.Err.Error(), "invalid left shift of non-Int64") {
		return "errors.DefaultUserError"
	}
	last := ""
	if len(ks) > 0 {
		last = ks[len(ks)-1]
	}
	return string(cls) + ":" + last
}

func arithScriptLeg(c *core.Ctx, prop string, idx int) {
	var types []num.IntType
	var ops []scriptOp
	switch prop {
	case "C11":
		for _, t := range num.IntTypes {
			if !t.Word {
				types = append(types, t)
			}
		}
		for _, o := range arithOps {
			ops = append(ops, scriptOp{o, infix(o)})
		}
	case "C12":
		for _, t := range num.IntTypes {
			if t.Word {
				types = append(types, t)
			}
		}
		for _, o := range arithOps {
			ops = append(ops, scriptOp{o, infix(o)})
		}
	case "C13":
		for _, t := range num.IntTypes {
			if len(satOpsFor(t.Name)) > 0 {
				types = append(types, t)
			}
		}
	case "C14":
		types = num.IntTypes
		for _, o := range []string{"&", "|", "^", "<<", ">>"} {
			ops = append(ops, scriptOp{o, infix(o)})
		}
	}
	for i := 0; i < scriptLegPerCase; i++ {
		t := types[c.Rng.IntN(len(types))]
		myops := ops
		if prop == "C13" {
			myops = nil
			for _, so := range satOpsFor(t.Name) {
				myops = append(myops, scriptOp{so, method(satMethod(so))})
			}
		}
		op := myops[c.Rng.IntN(len(myops))]
		bs := num.Boundary(t)
		pick := func() *big.Int {
			if c.Rng.IntN(2) == 0 {
				return bs[c.Rng.IntN(len(bs))]
			}
			return num.Random(t, c.Rng)
		}
		a, b := pick(), pick()
		if prop == "C14" && (op.Name == "<<" || op.Name == ">>") {
			b = shiftAmount(c, t)
			if !t.InRange(b) {
				continue
			}
			if t.Bits == 0 && b.BitLen() > 20 {
				a = big.NewInt(int64(c.Rng.IntN(2)))
			}
		}
		var exp intExpect
		switch prop {
		case "C11":
			r, def := exactBinary(op.Name, a, b)
			switch {
			case !def:
				exp = intExpect{Fail: "DivisionByZero"}
			case t.InRange(r):
				exp = intExpect{Value: r}
			default:
				exp = intExpect{Fail: "range"}
			}
		case "C12":
			r, def := exactBinary(op.Name, a, b)
			if !def {
				exp = intExpect{Fail: "DivisionByZero"}
			} else {
				exp = intExpect{Value: t.Wrap(r)}
			}
		case "C13":
			exp = satExpect(t, op.Name, a, b)
		case "C14":
			exp = bitExpect(t, op.Name, a, b)
			if t.Bits == 0 && op.Name == "<<" && b.BitLen() > 20 {
				exp.AlsoOK = append(exp.AlsoOK, "MemoryMetering")
			}
		}
		src := fmt.Sprintf("access(all) fun main(): %s {\n let a: %s = %s\n let b: %s = %s\n return %s\n}", t.Name, t.Name, a, t.Name, b, op.Src("a", "b"))
		for _, eng := range host.AllEngines {
			h := host.New()
			opt := &host.Options{Config: host.DefaultConfig}
			if prop == "C14" && t.Bits == 0 && op.Name == "<<" {
				g := &host.Gauge{MemLimit: 64 << 20}
				opt.Mem = g
			}
			out := h.RunScript(eng, src, nil, opt)
			c.Eval(1)
			c.Inc("script_runs_" + eng.String())
			got := callOutcome{}
			if out.Err != nil || out.Escaped != nil {
				got.Kind = failKindOf(out)
				got.Raw = host.ErrText(out)
			} else {
				got.Val = strVal(out.Value.String())
			}
			checkIntScript(c, prop, t.Name, op.Name, eng, a, b, exp, got, src)
		}
		c.DistinctHash(hash4(t.Name, "script"+op.Name, a, b))
		if i == 0 && c.WantSample() {
			c.Sample(map[string]any{"script": src, "expected": fmt.Sprint(exp.Value, exp.Fail)})
		}
	}
}

func checkIntScript(c *core.Ctx, prop, tn, op string, eng host.Engine, a, b *big.Int, exp intExpect, got callOutcome, src string) {
	okFail := func(k string) bool {
		for _, x := range exp.AlsoOK {
			if x == k {
				return true
			}
		}
		return false
	}
	ok := false
	expDesc := ""
	switch {
	case exp.Fail == "":
		expDesc = "value:" + exp.Value.String()
		if got.Kind == "" {
			v, good := new(big.Int).SetString(got.Val.String(), 10)
			ok = good && v.Cmp(exp.Value) == 0
		} else {
			ok = okFail(got.Kind)
		}
	case exp.Fail == "range":
		expDesc = "fail:Overflow|Underflow"
		ok = isOverUnder(got.Kind) || (got.Kind != "" && okFail(got.Kind))
	default:
		expDesc = "fail:" + exp.Fail
		ok = got.Kind == exp.Fail || (got.Kind != "" && okFail(got.Kind))
	}
	if got.Kind == "" {
		c.Inc("script_outcome_value")
	} else {
		c.Inc("script_outcome_fail")
	}
	if ok {
		return
	}
	gotClass := "value"
	if got.Kind != "" {
		gotClass = "fail:" + got.Kind
	}
	expClass := "value"
	if exp.Fail != "" {
		expClass = "fail:" + exp.Fail
	}
	obs := gotClass
	if got.Kind == "" {
		obs = "value:" + got.Val.String()
	}
	c.Violate(fmt.Sprintf("script[%s] %s.%s expected=%s got=%s", eng, tn, op, expClass, gotClass),
		fmt.Sprintf("engine %s: %s: (%s) %s (%s): expected %s, observed %s", eng, tn, a, op, b, expDesc, obs),
		map[string]any{"engine": eng.String(), "script": src, "expected": expDesc, "observed": obs, "error": fmt.Sprint(got.Raw)})
}

type strVal string

func (s strVal) String() string { return string(s) }
