package refs

import (
	"fmt"
	"math/rand/v2"
	"strings"
)

// Value generator of C05. It is NOT an oracle model: it only knows the shape of the generated
// value well enough to write statically valid mutations (existing indexes / keys).

type cty struct {
	k    string // int str arr dict leaf node top opt
	elem *cty
}

var (
	tyInt  = &cty{k: "int"}
	tyStr  = &cty{k: "str"}
	tyLeaf = &cty{k: "leaf"}
	tyNode = &cty{k: "node"}
	tyTop  = &cty{k: "top"}
)

func arrOf(e *cty) *cty  { return &cty{k: "arr", elem: e} }
func dictOf(e *cty) *cty { return &cty{k: "dict", elem: e} }

func (t *cty) src() string {
	switch t.k {
	case "int":
		return "Int"
	case "str":
		return "String"
	case "arr":
		return "[" + t.elem.src() + "]"
	case "dict":
		return "{String: " + t.elem.src() + "}"
	case "leaf":
		return "C5.Leaf"
	case "node":
		return "C5.Node"
	case "top":
		return "C5.Top"
	case "opt":
		return t.elem.src() + "?"
	}
	panic("cty")
}

func (t *cty) hasDict() bool {
	switch t.k {
	case "dict", "node", "top":
		return true
	case "arr", "opt":
		return t.elem.hasDict()
	}
	return false
}

type cval struct {
	t      *cty
	lit    string
	n      int
	helper string
	elems  []*cval
	keys   []string
	proto  *cval
	fields []*cval
	fnames []string
	isNil  bool
	attach bool
	attTag int
}

type vgen struct {
	r       *rand.Rand
	next    int
	wantBig bool
	big     bool // a container above the inlining threshold was placed
	att     bool // leaves may carry attachments
	hasAtt  bool
}

func (g *vgen) num() int {
	g.next += 1 + g.r.IntN(9)
	return g.next
}

func (g *vgen) size(depth int) int {
	if depth >= 3 {
		return g.r.IntN(3)
	}
	return g.r.IntN(5)
}

func (g *vgen) str() string {
	return fmt.Sprintf("\"s%d\"", g.num())
}

// bigSpec decides count / payload length for a container above the inlining threshold.
func (g *vgen) bigSpec(payload bool) (n, plen int) {
	if payload && g.r.IntN(2) == 0 {
		return 3 + g.r.IntN(30), 300 + g.r.IntN(1700)
	}
	return 100 + g.r.IntN(200), 4 + g.r.IntN(8)
}

func (g *vgen) gen(t *cty, depth int) *cval {
	v := &cval{t: t}
	switch t.k {
	case "int":
		v.lit = fmt.Sprint(g.num())
	case "str":
		v.lit = g.str()
	case "leaf":
		v.fnames = []string{"n", "s"}
		v.fields = []*cval{g.gen(tyInt, depth+1), g.gen(tyStr, depth+1)}
		if g.att && g.r.IntN(2) == 0 {
			v.attach = true
			v.attTag = g.num()
			g.hasAtt = true
		}
	case "opt":
		if g.r.IntN(3) == 0 {
			v.isNil = true
		} else {
			v.elems = []*cval{g.gen(t.elem, depth)}
		}
	case "node":
		v.fnames = []string{"id", "leaf", "opt", "items", "nums", "tags", "table"}
		v.fields = []*cval{
			g.gen(tyInt, depth+1), g.gen(tyLeaf, depth+1), g.gen(&cty{k: "opt", elem: tyLeaf}, depth+1),
			g.gen(arrOf(tyLeaf), depth+1), g.gen(arrOf(tyInt), depth+1), g.gen(dictOf(arrOf(tyInt)), depth+1), g.gen(dictOf(tyLeaf), depth+1),
		}
	case "top":
		v.fnames = []string{"id", "node", "nodes", "dir", "grid"}
		v.fields = []*cval{
			g.gen(tyInt, depth+1), g.gen(tyNode, depth+1), g.gen(arrOf(tyNode), depth+2), g.gen(dictOf(tyNode), depth+2), g.gen(arrOf(arrOf(tyInt)), depth+1),
		}
	case "arr":
		if g.wantBig && !g.big && g.r.IntN(2) == 0 {
			switch t.elem.k {
			case "int":
				n, _ := g.bigSpec(false)
				base := g.num()
				v.n, v.helper = n, fmt.Sprintf("C5.ints(%d, %d)", base, n)
				v.proto = &cval{t: tyInt}
				g.big = true
				g.next += n
				return v
			case "str":
				n, l := g.bigSpec(true)
				v.n, v.helper = n, fmt.Sprintf("C5.strs(%d, %d, %d)", g.num(), n, l)
				v.proto = &cval{t: tyStr}
				g.big = true
				g.next += n
				return v
			case "leaf":
				n, l := g.bigSpec(true)
				v.n, v.helper = n, fmt.Sprintf("C5.leaves(%d, %d, %d)", g.num(), n, l)
				v.proto = &cval{t: tyLeaf, fnames: []string{"n", "s"}, fields: []*cval{{t: tyInt}, {t: tyStr}}}
				g.big = true
				g.next += n
				return v
			}
		}
		v.n = g.size(depth)
		for i := 0; i < v.n; i++ {
			v.elems = append(v.elems, g.gen(t.elem, depth+1))
		}
	case "dict":
		if g.wantBig && !g.big && g.r.IntN(2) == 0 {
			switch {
			case t.elem.k == "int":
				n, _ := g.bigSpec(false)
				v.n, v.helper = n, fmt.Sprintf("C5.intMap(%d, %d)", g.num(), n)
				v.proto = &cval{t: tyInt}
				g.big = true
				g.next += n
				return v
			case t.elem.k == "leaf":
				n, l := g.bigSpec(true)
				v.n, v.helper = n, fmt.Sprintf("C5.leafMap(%d, %d, %d)", g.num(), n, l)
				v.proto = &cval{t: tyLeaf, fnames: []string{"n", "s"}, fields: []*cval{{t: tyInt}, {t: tyStr}}}
				g.big = true
				g.next += n
				return v
			case t.elem.k == "arr" && t.elem.elem.k == "int":
				n := 100 + g.r.IntN(100)
				m := 1 + g.r.IntN(3)
				v.n, v.helper = n, fmt.Sprintf("C5.tagMap(%d, %d, %d)", g.num(), n, m)
				v.proto = &cval{t: arrOf(tyInt), n: m, proto: &cval{t: tyInt}, helper: "-"}
				g.big = true
				g.next += n * m
				return v
			}
		}
		v.n = g.size(depth)
		for i := 0; i < v.n; i++ {
			v.keys = append(v.keys, fmt.Sprintf("k%d", i))
			v.elems = append(v.elems, g.gen(t.elem, depth+1))
		}
	}
	return v
}

func (v *cval) src() string {
	switch v.t.k {
	case "int", "str":
		return v.lit
	case "leaf":
		e := fmt.Sprintf("C5.Leaf(%s, %s)", v.fields[0].src(), v.fields[1].src())
		if v.attach {
			return fmt.Sprintf("attach C5.Mark(%d) to %s", v.attTag, e)
		}
		return e
	case "opt":
		if v.isNil {
			return "nil"
		}
		return v.elems[0].src()
	case "node":
		f := v.fields
		return fmt.Sprintf("C5.Node(%s, leaf: %s, opt: %s, items: %s, nums: %s, tags: %s, table: %s)", f[0].src(), f[1].src(), f[2].src(), f[3].src(), f[4].src(), f[5].src(), f[6].src())
	case "top":
		f := v.fields
		return fmt.Sprintf("C5.Top(%s, node: %s, nodes: %s, dir: %s, grid: %s)", f[0].src(), f[1].src(), f[2].src(), f[3].src(), f[4].src())
	case "arr":
		if v.helper != "" {
			return v.helper
		}
		var p []string
		for _, e := range v.elems {
			p = append(p, e.src())
		}
		return "[" + strings.Join(p, ", ") + "]"
	case "dict":
		if v.helper != "" {
			return v.helper
		}
		var p []string
		for i, e := range v.elems {
			p = append(p, fmt.Sprintf("%q: %s", v.keys[i], e.src()))
		}
		return "{" + strings.Join(p, ", ") + "}"
	}
	panic("src")
}

func (v *cval) field(name string) *cval {
	for i, n := range v.fnames {
		if n == name {
			return v.fields[i]
		}
	}
	panic("no field " + name)
}

// elemAt: the i-th element / value (prototype for helper-built containers).
func (v *cval) elemAt(i int) *cval {
	if v.proto != nil {
		return v.proto
	}
	return v.elems[i]
}

func (v *cval) keyAt(i int) string {
	if v.proto != nil {
		return fmt.Sprintf("k%d", i)
	}
	return v.keys[i]
}

// ------------------------------------------------------------------ mutation sites

type csite struct {
	path  string
	v     *cval
	depth int
}

func (g *vgen) sites(v *cval, path string, depth int, out *[]csite) {
	switch v.t.k {
	case "arr":
		*out = append(*out, csite{path, v, depth})
		if v.n > 0 {
			i := g.r.IntN(v.n)
			g.sites(v.elemAt(i), fmt.Sprintf("%s[%d]", path, i), depth+1, out)
		}
	case "dict":
		*out = append(*out, csite{path, v, depth})
		if v.n > 0 {
			i := g.r.IntN(v.n)
			g.sites(v.elemAt(i), fmt.Sprintf("%s[%q]!", path, v.keyAt(i)), depth+1, out)
		}
	case "leaf":
		*out = append(*out, csite{path, v, depth})
	case "node", "top":
		*out = append(*out, csite{path, v, depth})
		for i, f := range v.fields {
			if len(v.fnames) == 0 {
				break
			}
			g.sites(f, path+"."+v.fnames[i], depth+1, out)
		}
	case "opt":
		if !v.isNil {
			g.sites(v.elems[0], path+"!", depth, out)
		}
	}
}

type cmut struct {
	form     string // method-field method-nested index-assign append insert remove dict-insert dict-remove attachment-set
	stmt     func(l string) string
	sentinel string // text that must appear in the mutated side's snapshot ("" = none)
	assign   bool   // the statement is an assignment to an index expression
}

// fresh small value of type t whose leaves carry the sentinel
func (g *vgen) sentinelVal(t *cty, s int) string {
	switch t.k {
	case "int":
		return fmt.Sprint(s)
	case "str":
		return fmt.Sprintf("\"SENT%d\"", s)
	case "leaf":
		return fmt.Sprintf("C5.Leaf(%d, \"SENT%d\")", s, s)
	case "arr":
		return "[" + g.sentinelVal(t.elem, s) + "]"
	case "dict":
		return "{\"sent\": " + g.sentinelVal(t.elem, s) + "}"
	case "node":
		return fmt.Sprintf("C5.Node(%d, leaf: C5.Leaf(%d, \"x\"), opt: nil, items: [], nums: [%d], tags: {}, table: {})", s, s, s)
	}
	panic("sentinelVal " + t.k)
}

func (g *vgen) muts(st csite, noAssign bool) []cmut {
	v := st.v
	s := 7000000 + g.r.IntN(900000)
	ss := fmt.Sprint(s)
	var ms []cmut
	add := func(form, sent string, f func(l string) string) {
		ms = append(ms, cmut{form: form, stmt: f, sentinel: sent, assign: form == "index-assign" || form == "dict-insert"})
	}
	switch v.t.k {
	case "arr":
		nv := g.sentinelVal(v.t.elem, s)
		add("append", ss, func(l string) string { return fmt.Sprintf("%s.append(%s)", l, nv) })
		at := g.r.IntN(v.n + 1)
		add("insert", ss, func(l string) string { return fmt.Sprintf("%s.insert(at: %d, %s)", l, at, nv) })
		if v.n > 0 {
			i := g.r.IntN(v.n)
			add("remove", "", func(l string) string {
				switch {
				case i == 0 && s%2 == 0:
					return l + ".removeFirst()"
				case i == v.n-1 && s%2 == 0:
					return l + ".removeLast()"
				}
				return fmt.Sprintf("%s.remove(at: %d)", l, i)
			})
			add("index-assign", ss, func(l string) string { return fmt.Sprintf("%s[%d] = %s", l, i, nv) })
		}
	case "dict":
		nv := g.sentinelVal(v.t.elem, s)
		add("dict-insert", ss, func(l string) string {
			if s%2 == 0 || noAssign {
				return fmt.Sprintf("%s.insert(key: \"zz%d\", %s)", l, s, nv)
			}
			return fmt.Sprintf("%s[\"zz%d\"] = %s", l, s, nv)
		})
		if v.n > 0 {
			k := v.keyAt(g.r.IntN(v.n))
			add("dict-remove", "", func(l string) string { return fmt.Sprintf("%s.remove(key: %q)", l, k) })
			add("index-assign", ss, func(l string) string { return fmt.Sprintf("%s[%q] = %s", l, k, nv) })
		}
	case "leaf":
		add("method-field", ss, func(l string) string { return fmt.Sprintf("%s.setN(%s)", l, ss) })
		add("method-field", "SENT"+ss, func(l string) string { return fmt.Sprintf("%s.setS(\"SENT%s\")", l, ss) })
		if v.attach {
			add("attachment-set", ss, func(l string) string { return fmt.Sprintf("%s[C5.Mark]!.set(%s)", l, ss) })
			add("attachment-set", ss, func(l string) string { return fmt.Sprintf("%s[C5.Mark]!.set(%s)", l, ss) })
		}
	case "node":
		if len(v.fnames) == 0 {
			break
		}
		add("method-field", ss, func(l string) string { return fmt.Sprintf("%s.setId(%s)", l, ss) })
		add("method-nested", ss, func(l string) string { return fmt.Sprintf("%s.leafSetN(%s)", l, ss) })
		if !v.field("opt").isNil {
			add("method-nested", ss, func(l string) string { return fmt.Sprintf("%s.optSetN(%s)", l, ss) })
		}
		leaf := g.sentinelVal(tyLeaf, s)
		items, nums, tags, table := v.field("items"), v.field("nums"), v.field("tags"), v.field("table")
		add("method-nested", ss, func(l string) string { return fmt.Sprintf("%s.itemsAppend(%s)", l, leaf) })
		ii := g.r.IntN(items.n + 1)
		add("method-nested", ss, func(l string) string { return fmt.Sprintf("%s.itemsInsert(%d, %s)", l, ii, leaf) })
		if items.n > 0 {
			i := g.r.IntN(items.n)
			add("method-nested", "", func(l string) string { return fmt.Sprintf("%s.itemsRemove(%d)", l, i) })
			add("method-nested", ss, func(l string) string { return fmt.Sprintf("%s.itemsSet(%d, %s)", l, i, leaf) })
			add("method-nested", ss, func(l string) string { return fmt.Sprintf("%s.itemsSetN(%d, %s)", l, i, ss) })
		}
		add("method-nested", ss, func(l string) string { return fmt.Sprintf("%s.numsAppend(%s)", l, ss) })
		ni := g.r.IntN(nums.n + 1)
		add("method-nested", ss, func(l string) string { return fmt.Sprintf("%s.numsInsert(%d, %s)", l, ni, ss) })
		if nums.n > 0 {
			i := g.r.IntN(nums.n)
			add("method-nested", "", func(l string) string { return fmt.Sprintf("%s.numsRemove(%d)", l, i) })
			add("method-nested", ss, func(l string) string { return fmt.Sprintf("%s.numsSet(%d, %s)", l, i, ss) })
		}
		add("method-nested", ss, func(l string) string { return fmt.Sprintf("%s.tagsPut(\"zz%s\", [%s])", l, ss, ss) })
		if tags.n > 0 {
			k := tags.keyAt(g.r.IntN(tags.n))
			add("method-nested", "", func(l string) string { return fmt.Sprintf("%s.tagsRemove(%q)", l, k) })
			add("method-nested", ss, func(l string) string { return fmt.Sprintf("%s.tagsAppend(%q, %s)", l, k, ss) })
		}
		add("method-nested", ss, func(l string) string { return fmt.Sprintf("%s.tablePut(\"zz%s\", %s)", l, ss, leaf) })
		if table.n > 0 {
			k := table.keyAt(g.r.IntN(table.n))
			add("method-nested", "", func(l string) string { return fmt.Sprintf("%s.tableRemove(%q)", l, k) })
			add("method-nested", ss, func(l string) string { return fmt.Sprintf("%s.tableSetN(%q, %s)", l, k, ss) })
		}
	case "top":
		add("method-field", ss, func(l string) string { return fmt.Sprintf("%s.setId(%s)", l, ss) })
		add("method-nested", ss, func(l string) string { return fmt.Sprintf("%s.nodeSetId(%s)", l, ss) })
		add("method-nested", ss, func(l string) string { return fmt.Sprintf("%s.nodeNumsAppend(%s)", l, ss) })
		node := g.sentinelVal(tyNode, s)
		nodes, dir, grid := v.field("nodes"), v.field("dir"), v.field("grid")
		add("method-nested", ss, func(l string) string { return fmt.Sprintf("%s.nodesAppend(%s)", l, node) })
		if nodes.n > 0 {
			i := g.r.IntN(nodes.n)
			add("method-nested", "", func(l string) string { return fmt.Sprintf("%s.nodesRemove(%d)", l, i) })
			add("method-nested", ss, func(l string) string { return fmt.Sprintf("%s.nodesSetId(%d, %s)", l, i, ss) })
			add("method-nested", ss, func(l string) string { return fmt.Sprintf("%s.nodesNumsAppend(%d, %s)", l, i, ss) })
		}
		add("method-nested", ss, func(l string) string { return fmt.Sprintf("%s.dirPut(\"zz%s\", %s)", l, ss, node) })
		if dir.n > 0 {
			k := dir.keyAt(g.r.IntN(dir.n))
			add("method-nested", "", func(l string) string { return fmt.Sprintf("%s.dirRemove(%q)", l, k) })
			add("method-nested", ss, func(l string) string { return fmt.Sprintf("%s.dirSetId(%q, %s)", l, k, ss) })
			add("method-nested", ss, func(l string) string { return fmt.Sprintf("%s.dirNumsAppend(%q, %s)", l, k, ss) })
		}
		add("method-nested", ss, func(l string) string { return fmt.Sprintf("%s.gridAppendRow([%s])", l, ss) })
		if grid.n > 0 {
			i := g.r.IntN(grid.n)
			add("method-nested", ss, func(l string) string { return fmt.Sprintf("%s.gridAppend(%d, %s)", l, i, ss) })
			if row := grid.elemAt(i); row.n > 0 {
				j := g.r.IntN(row.n)
				add("method-nested", ss, func(l string) string { return fmt.Sprintf("%s.gridSet(%d, %d, %s)", l, i, j, ss) })
			}
		}
	}
	return ms
}

// root types with weights
var c05RootTypes = []*cty{
	arrOf(tyInt), arrOf(tyStr), arrOf(arrOf(tyInt)), dictOf(tyInt), dictOf(arrOf(tyInt)), dictOf(dictOf(tyStr)),
	arrOf(tyLeaf), dictOf(tyLeaf), tyLeaf, tyNode, tyNode, arrOf(tyNode), dictOf(tyNode), tyTop, tyTop, arrOf(dictOf(arrOf(tyInt))),
}
