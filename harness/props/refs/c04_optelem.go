package refs

import (
	"fmt"
	"strings"

	"github.com/onflow/cadence"

	"verif/harness/core"
	"verif/harness/host"
)

// Containers whose ELEMENTS are optional resources (`@[R?]`, `@{String: R?}`, nested): a reference to
// an element's resource is taken through a (laundering) function, then the container is moved or
// destroyed, then the reference is used. Oracle: the use fails with an invalidated-reference user
// error; the control (same program without the move) reads the expected value.

type optContainer struct{ id, typ, build, refType, borrow string }

var optContainers = []optContainer{
	{"array-of-optional", "@[Inner?]", "[<- create Inner(7), nil]", "&[Inner?]", "c[0]!"},
	{"dictionary-of-optional", "@{String: Inner?}", "{\"a\": <- create Inner(7)}", "&{String: Inner?}", "c[\"a\"]!!"},
	{"array-of-array-of-optional", "@[[Inner?]]", "[<- [<- create Inner(7)]]", "&[[Inner?]]", "c[0][0]!"},
	{"array-of-double-optional", "@[Inner??]", "[<- create Inner(7)]", "&[Inner??]", "c[0]!!"},
	// control shapes without optional elements (already covered by the main generator)
	{"array-of-resource", "@[Inner]", "[<- create Inner(7)]", "&[Inner]", "c[0]"},
}

type optMove struct{ id, stmt, cleanup string }

// the moved container stays alive while the reference is used (cleanup runs after the use)
var optMoves = []optMove{
	{"move-to-variable", "let moved <- rs", "destroy moved"},
	{"move-to-function-and-back", "let moved <- pass(<- rs)", "destroy moved"},
	{"move-to-function", "consume(<- rs)", ""},
	{"destroy", "destroy rs", ""},
	{"move-into-array", "let box: @[AnyResource] <- [<- rs]", "destroy box"},
	{"move-into-optional", "let o: @AnyResource? <- rs", "destroy o"},
	{"none", "", "destroy rs"},
}

var optUses = []struct{ id, expr string }{
	{"field-read", "ref.v"},
	{"method-call", "ref.get()"},
}

func c04OptElem(c *core.Ctx) {
	k := c.Case
	ct := optContainers[k%len(optContainers)]
	mv := optMoves[(k/len(optContainers))%len(optMoves)]
	us := optUses[c.Rng.IntN(len(optUses))]
	var b strings.Builder
	b.WriteString("access(all) resource Inner {\n    access(all) var v: Int\n    init(_ v: Int) { self.v = v }\n    access(all) fun get(): Int { return self.v }\n}\n")
	fmt.Fprintf(&b, "access(all) fun borrowInner(_ c: %s): &Inner {\n    return %s\n}\n", ct.refType, ct.borrow)
	b.WriteString("access(all) fun consume(_ r: @AnyResource) { destroy r }\naccess(all) fun pass(_ r: @AnyResource): @AnyResource { return <- r }\n")
	fmt.Fprintf(&b, "access(all) fun main(): Int {\n    let rs: %s <- %s\n    let ref = borrowInner(&rs as %s)\n", ct.typ, ct.build, ct.refType)
	if mv.stmt != "" {
		b.WriteString("    " + mv.stmt + "\n")
	}
	fmt.Fprintf(&b, "    let out = %s\n", us.expr)
	if mv.cleanup != "" {
		b.WriteString("    " + mv.cleanup + "\n")
	}
	b.WriteString("    return out\n}\n")
	prog := b.String()
	id := ct.id + " / " + mv.id
	for _, eng := range host.AllEngines {
		o := host.New().RunScript(eng, prog, nil, nil)
		c.Eval(1)
		if eng == host.EngI {
			c.Inc("optelem_programs")
			c.Distinct(prog)
		}
		wit := map[string]any{"program": prog, "engine": eng.String(), "error": host.ErrText(o)}
		if o.Err != nil && (host.HasKind(o.Err, "CheckerError") || host.HasKind(o.Err, "ParsingCheckingError") || host.HasKind(o.Err, "sema.")) {
			if eng == host.EngI {
				c.Inc("optelem_rejected_by_checker")
				c.Note("optelem_rejected_example", core.Clip(host.ErrText(o), 800)+"\n"+prog)
			}
			break
		}
		if mv.stmt == "" {
			// control: the resource did not move, the reference stays valid
			if eng == host.EngI {
				c.Inc("optelem_controls")
			}
			v, ok := o.Value.(cadence.Int)
			if o.Err != nil || o.Escaped != nil || !ok || v.String() != "7" {
				c.Violate(fmt.Sprintf("optelem[%s] valid reference unusable: %s", eng, ct.id),
					"the referenced resource was not moved, but using the reference did not yield its value", wit)
			}
			continue
		}
		if eng == host.EngI {
			c.Inc("optelem_moved")
		}
		switch {
		case o.Err == nil && o.Escaped == nil:
			c.Violate(fmt.Sprintf("optelem[%s] stale reference still usable: %s", eng, id),
				fmt.Sprintf("the container was moved/destroyed, but %s through the earlier reference succeeded and returned %v", us.id, o.Value), wit)
		case !host.HasKind(o.Err, "InvalidatedResourceReferenceError") || host.Classify(o) != host.ClassUser:
			c.Violate(fmt.Sprintf("optelem[%s] use of a stale reference fails with %s %s instead of an invalidated-reference error: %s", eng, host.Classify(o), host.ErrKind(o.Err), id),
				host.ErrText(o), wit)
		default:
			if eng == host.EngI {
				c.Inc("optelem_invalidated_as_expected")
			}
		}
	}
}
