package refs

import (
	"fmt"
	"strings"

	"github.com/onflow/cadence/common"

	"verif/harness/core"
	"verif/harness/host"
)

// C05 — non-resource values have copy semantics (metamorphic, no model).
// Observation: log(x) snapshots (the recursive value string) of every copy before (S1) and after
// (S2) ONE mutation of ONE copy; histories read the stored copies back in a later transaction (S3).
// Required: every copy that was not mutated has a byte-identical snapshot before and after; the
// mutated copy changed (and shows the sentinel it was given).

const c05PerCase = 75

func init() {
	floors := map[string]int64{
		"retlocal_programs": 30, "retlocal_executed": 30,
		"scenario:script": 700, "scenario:history": 240, "big_container": 420, "with_attachment": 40, "mutated:a": 300, "mutated:b": 300, "mutated:temporary": 60,
		"mode:direct": 450, "mode:ref": 250, "mode:storage-ref": 60, "mode:temporary": 60, "depth>=2": 200, "depth>=3": 90,
		"executions_I": 2000, "executions_V": 2000, "executions_Vp": 2000, "unchanged_observers_checked": 4000, "readback_checked": 900,
	}
	for _, t := range c05ScriptTransfers {
		floors["transfer:"+t] = 40
		if t == "attachment-copy" {
			floors["pair:"+t+"×attachment-set"] = 5
			continue
		}
		for _, m := range c05MutationForms {
			floors["pair:"+t+"×"+m] = 1
		}
	}
	for _, t := range c05TxTransfers {
		floors["transfer:"+t] = 40
		for _, m := range c05MutationForms {
			floors["pair:"+t+"×"+m] = 1
		}
	}
	core.Register(&core.Prop{
		ID:   "C05",
		Rule: "generated nested struct / array / dictionary values (depth ≤ 4, 0–300 elements, payloads to 2 KB) × ONE transfer form × ONE mutation (form × nesting depth × direct / auth reference / storage reference) of either side; scripts and 3-transaction histories (save+copy, save+load, contract field) on three engines; distinct = distinct program text",
		Assumptions: []string{
			"log(x) renders the complete recursive value, so equal snapshots mean equal observable content; snapshots are compared after sorting dictionary entries and composite fields (their rendering order is the iteration order of an unordered collection)",
			"every generated mutation form mutates in place when applied to a single un-copied value (calibrated by hand probes)",
		},
		NumCases: func(tier string) int {
			if tier == "thorough" {
				return 500
			}
			return 64
		},
		Floors: floors,
		Run:    runC05,
		Finalize: func(a *core.Agg) {
			tot := a.Counters["scenario:script"] + a.Counters["scenario:history"]
			if tot > 0 && a.Counters["big_container"]*5 < tot {
				a.Inconclusive = append(a.Inconclusive, fmt.Sprintf("only %d of %d cases have a container above the inlining threshold (< 20%%)", a.Counters["big_container"], tot))
			}
		},
	})
}

var c05Signers = []common.Address{host.Addr(1)}

func c05Host(eng host.Engine) (*host.Host, host.Outcome) {
	h := host.New()
	h.NoRecord = true
	d := h.Deploy(eng, host.Addr(1), "C5", c05Contract)
	return h, d
}

// c05Snap splits the logs at the markers S1 / S2 / S3.
func c05Snap(logs []string) map[string][]string {
	out := map[string][]string{}
	cur := ""
	for _, l := range logs {
		switch l {
		case `"S1"`, `"S2"`, `"S3"`:
			cur = strings.Trim(l, `"`)
			out[cur] = []string{}
			continue
		}
		if cur != "" {
			out[cur] = append(out[cur], l)
		}
	}
	return out
}

type c05Finding struct {
	class, observer, msg string
}

// c05Check applies the metamorphic oracle to the snapshots of one engine.
func c05Check(s *c05Scen, s1, s2, s3 []string) (fs []c05Finding, checked int, readback int) {
	n := len(s.observers)
	if len(s1) != n || len(s2) != n {
		return []c05Finding{{"snapshot-missing", "-", fmt.Sprintf("expected %d snapshot lines per marker, got %d and %d", n, len(s1), len(s2))}}, 0, 0
	}
	for i, o := range s.observers {
		if i == s.mutated {
			if s1[i] == s2[i] {
				fs = append(fs, c05Finding{"mutation-not-applied", o, "the mutated side's snapshot did not change"})
			} else if s.sentinel != "" && !strings.Contains(s2[i], s.sentinel) {
				fs = append(fs, c05Finding{"mutation-wrong", o, "the mutated side's snapshot does not show the sentinel " + s.sentinel})
			}
			continue
		}
		checked++
		if s1[i] != s2[i] {
			fs = append(fs, c05Finding{"copy-aliased", o, fmt.Sprintf("snapshot of %s changed although only %s was mutated", o, s.side)})
		}
	}
	if s1[0] != s1[1] {
		fs = append(fs, c05Finding{"copy-differs", "b", "the copy's snapshot differs from the original's before any mutation"})
	}
	if len(s.readBack) > 0 {
		if len(s3) != len(s.readBack) {
			fs = append(fs, c05Finding{"snapshot-missing", "-", fmt.Sprintf("read-back transaction logged %d lines, expected %d", len(s3), len(s.readBack))})
		} else {
			for j, oi := range s.readBack {
				readback++
				if s3[j] != s2[oi] {
					fs = append(fs, c05Finding{"readback-differs", s.observers[oi], "the value read back in the next transaction differs from its snapshot at the end of the previous one"})
				}
			}
		}
	}
	return
}

func c05Exec(h *host.Host, eng host.Engine, src string, tx bool) host.Outcome {
	for l := range h.Programs {
		if _, ok := l.(common.AddressLocation); !ok {
			delete(h.Programs, l)
		}
	}
	h.ResetTrace()
	opt := &host.Options{Config: host.DefaultConfig, KeepPrograms: true}
	if tx {
		return h.RunTx(eng, src, nil, c05Signers, opt)
	}
	return h.RunScript(eng, src, nil, opt)
}

// c05Run executes a scenario on one engine and returns the snapshots.
func c05Run(h *host.Host, eng host.Engine, s *c05Scen) (s1, s2, s3 []string, failed string, rejected bool) {
	var logs []string
	for i, src := range s.txs {
		o := c05Exec(h, eng, src, len(s.txs) > 1)
		logs = append(logs, h.Logs...)
		if o.Err != nil || o.Escaped != nil {
			txt := host.ErrText(o)
			for _, k := range host.ErrKinds(o.Err) {
				k = strings.TrimPrefix(k, "*")
				if strings.Contains(k, "ParsingCheckingError") || strings.HasPrefix(k, "sema.") || strings.HasPrefix(k, "parser.") {
					rejected = true
				}
			}
			return nil, nil, nil, fmt.Sprintf("step %d: %s", i, txt), rejected
		}
	}
	m := c05Snap(logs)
	canon := func(xs []string) []string {
		out := make([]string, len(xs))
		for i, x := range xs {
			out[i], _ = c05Canon(x)
		}
		return out
	}
	return canon(m["S1"]), canon(m["S2"]), canon(m["S3"]), "", false
}

func runC05(c *core.Ctx) {
	// returned locals that outlive the call (c05_retlocal.go)
	c05RetLocal(c)
	hosts := map[host.Engine]*host.Host{}
	getHost := func(eng host.Engine) *host.Host {
		if h, ok := hosts[eng]; ok {
			return h
		}
		h, d := c05Host(eng)
		if d.Err != nil || d.Escaped != nil {
			c.Violate("harness:deploy-failed:engine="+eng.String(), "deployment of the C05 contract failed: "+host.ErrText(d), nil)
			h = nil
		}
		hosts[eng] = h
		return h
	}
	for k := 0; k < c05PerCase; k++ {
		history := c.Rng.IntN(4) == 0
		s := genC05(c.Rng, k, history)
		c.Distinct(strings.Join(s.txs, "\x00"))
		if history {
			c.Inc("scenario:history")
		} else {
			c.Inc("scenario:script")
		}
		c.Inc("transfer:" + s.transfer)
		c.Inc("pair:" + s.transfer + "×" + s.mutation)
		c.Inc("op:" + s.opForm)
		c.Inc("mode:" + s.mode)
		c.Inc("mutated:" + s.side)
		c.Inc("root:" + s.rootType)
		if s.depth >= 2 {
			c.Inc("depth>=2")
		}
		if s.depth >= 3 {
			c.Inc("depth>=3")
		}
		if s.big {
			c.Inc("big_container")
		}
		if s.hasAtt {
			c.Inc("with_attachment")
		}
		for _, eng := range host.AllEngines {
			h := getHost(eng)
			if h == nil {
				continue
			}
			s1, s2, s3, failed, rejected := c05Run(h, eng, s)
			c.Eval(int64(len(s.txs)))
			if rejected {
				c.Inc("rejected_by_checker")
				c.Note("rejected_example", core.Clip(failed, 1200)+"\n"+core.Clip(strings.Join(s.txs, "\n----\n"), 3000))
				continue
			}
			c.Inc("executions_" + eng.String())
			wit := func() map[string]any {
				w := map[string]any{"engine": eng.String(), "programs": c05Clip(s.txs), "transfer": s.transfer, "mutation": s.opForm, "mode": s.mode, "mutated_side": s.side,
					"observers": s.observers, "contract_C5": "deployed at 0x1; source: props/refs/c05_decl.go c05Contract (go run -tags verif ./cmd/refsprobe -c05contract prints it)"}
				if s1 != nil {
					w["S1"], w["S2"], w["S3"] = c05Clip(s1), c05Clip(s2), c05Clip(s3)
				}
				return w
			}
			if failed != "" {
				c.Violate(fmt.Sprintf("exec-failed:transfer=%s:mutation=%s:mode=%s:engine=%s", s.transfer, s.opForm, s.mode, eng),
					"a generated (accepted) program failed at run time: "+core.Clip(failed, 600), wit())
				continue
			}
			fs, checked, rb := c05Check(s, s1, s2, s3)
			c.Count("unchanged_observers_checked", int64(checked))
			c.Count("readback_checked", int64(rb))
			for _, f := range fs {
				c.Violate(fmt.Sprintf("%s:transfer=%s:mutation=%s:mode=%s:observer=%s:root=%s:engine=%s", f.class, s.transfer, s.opForm, s.mode, f.observer, s.rootType, eng),
					fmt.Sprintf("engine %s: %s (transfer %s, mutation %s at depth %d via %s on side %s)", eng, f.msg, s.transfer, s.opForm, s.depth, s.mode, s.side), wit())
			}
		}
		if k == 0 && c.WantSample() {
			c.Sample(map[string]any{"programs": c05Clip(s.txs), "transfer": s.transfer, "mutation": s.opForm, "mode": s.mode, "mutated_side": s.side, "big": s.big})
		}
	}
}

func c05Clip(xs []string) []string {
	out := make([]string, len(xs))
	for i, x := range xs {
		out[i] = core.Clip(x, 4000)
	}
	return out
}
