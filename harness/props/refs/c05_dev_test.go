//go:build verif

package refs

import (
	"fmt"
	"math/rand/v2"
	"os"
	"strconv"
	"strings"
	"testing"

	"verif/harness/host"
)

// Development aid: go test -tags verif -run C05Dev ./props/refs  (C05N, C05SEED)
func TestC05Dev(t *testing.T) {
	n := 300
	if v, err := strconv.Atoi(os.Getenv("C05N")); err == nil {
		n = v
	}
	seed := uint64(1)
	if v, err := strconv.Atoi(os.Getenv("C05SEED")); err == nil {
		seed = uint64(v)
	}
	r := rand.New(rand.NewPCG(seed, 5))
	hosts := map[host.Engine]*host.Host{}
	for _, e := range host.AllEngines {
		h, d := c05Host(e)
		if d.Err != nil {
			t.Fatalf("deploy: %v", d.Err)
		}
		hosts[e] = h
	}
	seen := map[string]int{}
	stats := map[string]int{}
	for k := 0; k < n; k++ {
		s := genC05(r, k, r.IntN(4) == 0)
		stats["pair:"+s.transfer+"×"+s.mutation]++
		if s.big {
			stats["big"]++
		}
		for _, e := range host.AllEngines {
			s1, s2, s3, failed, rejected := c05Run(hosts[e], e, s)
			if rejected || failed != "" {
				key := fmt.Sprintf("FAILED rejected=%v %s %s %s", rejected, s.transfer, s.opForm, s.mode)
				seen[key]++
				if seen[key] == 1 && e == host.EngI {
					fmt.Printf("---- %s\n%s\n%s\n", key, strings.Join(s.txs, "\n----\n"), failed)
				}
				continue
			}
			fs, _, _ := c05Check(s, s1, s2, s3)
			stats["ok"]++
			for _, f := range fs {
				key := fmt.Sprintf("%s:%s:%s:%s:%s:%s", f.class, s.transfer, s.opForm, s.mode, f.observer, e)
				seen[key]++
				if seen[key] == 1 {
					fmt.Printf("---- FINDING %s %s\n%s\nS1=%v\nS2=%v\nS3=%v\n", key, f.msg, strings.Join(s.txs, "\n----\n"), c05Clip(s1), c05Clip(s2), c05Clip(s3))
				}
			}
		}
	}
	np := 0
	for k := range stats {
		if strings.HasPrefix(k, "pair:") {
			np++
		}
	}
	fmt.Println("ok:", stats["ok"], "big:", stats["big"], "pairs seen:", np)
	for k, v := range seen {
		fmt.Println(v, k)
	}
}
