// Package refs holds the checks of group refs (see harness/groups.txt).
package refs
