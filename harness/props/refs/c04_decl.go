package refs

import (
	"fmt"
	"strings"
)

// Declarations shared by every C04 scenario. The same text is used at the top level of a
// script (prefix "") and as the body of contract C0 (transactions refer to it as "C0.X").
// In generated statement text the character '§' stands for that prefix.

// refSuffixes: suffix -> Cadence type of the referenced value.
var refTypes = []struct{ Suf, Typ string }{
	{"0", "R0"}, {"1", "R1"}, {"2", "R2"}, {"A", "A0"},
	{"K0", "[R0]"}, {"K1", "[R1]"}, {"B0", "{String: R0}"}, {"B1", "{String: R1}"},
}

func boxDecl(self, c string, withInner bool) string {
	var b strings.Builder
	w := func(f string, a ...any) { fmt.Fprintf(&b, f+"\n", a...) }
	w("access(all) resource %s: HasId {", self)
	w("    access(all) var id: Int")
	if withInner {
		w("    access(all) var inner: @R1")
	}
	w("    access(all) var child: @%s?", c)
	w("    access(all) var kids: @[%s]", c)
	w("    access(all) var bag: @{String: %s}", c)
	if withInner {
		w("    init(_ id: Int, inner: @R1, child: @%s?, kids: @[%s], bag: @{String: %s}) {", c, c, c)
		w("        self.inner <- inner")
	} else {
		w("    init(_ id: Int, child: @%s?, kids: @[%s], bag: @{String: %s}) {", c, c, c)
	}
	w("        self.id = id; self.child <- child; self.kids <- kids; self.bag <- bag")
	w("    }")
	w("    access(all) fun get(): Int { return self.id }")
	w("    access(all) fun set(_ v: Int) { self.id = v }")
	w("    access(all) fun me(): &%s { return &self as &%s }", self, self)
	// reference getters
	w("    access(all) fun childRef(): &%s { return (&self.child as &%s?)! }", c, c)
	w("    access(all) fun kidRef(_ i: Int): &%s { return &self.kids[i] }", c)
	w("    access(all) fun bagRef(_ k: String): &%s { return (&self.bag[k] as &%s?)! }", c, c)
	w("    access(all) fun kidsRef(): &[%s] { return &self.kids }", c)
	w("    access(all) fun bagAllRef(): &{String: %s} { return &self.bag }", c)
	// takes
	w("    access(all) fun takeChild(): @%s { let c <- self.child <- nil; return <- c! }", c)
	w("    access(all) fun takeKid(_ i: Int): @%s { return <- self.kids.remove(at: i) }", c)
	w("    access(all) fun takeBag(_ k: String): @%s { return <- self.bag.remove(key: k)! }", c)
	// puts
	w("    access(all) fun putChild(_ v: @%s) { let old <- self.child <- v; destroy old }", c)
	w("    access(all) fun putKid(_ i: Int, _ v: @%s) { self.kids.insert(at: i, <- v) }", c)
	w("    access(all) fun putBag(_ k: String, _ v: @%s) { let old <- self.bag.insert(key: k, <- v); destroy old }", c)
	// second-value assignment
	w("    access(all) fun replaceChild(_ v: @%s): @%s { let old <- self.child <- v; return <- old! }", c, c)
	w("    access(all) fun replaceKid(_ i: Int, _ v: @%s): @%s { let old <- self.kids[i] <- v; return <- old }", c, c)
	w("    access(all) fun replaceBag(_ k: String, _ v: @%s): @%s { let old <- self.bag[k] <- v; return <- old! }", c, c)
	// swaps
	w("    access(all) fun swapChild(_ v: @%s): @%s { var t: @%s? <- v; self.child <-> t; return <- t! }", c, c, c)
	w("    access(all) fun swapKid(_ i: Int, _ v: @%s): @%s { var t <- v; self.kids[i] <-> t; return <- t }", c, c)
	w("    access(all) fun swapBag(_ k: String, _ v: @%s): @%s { var t: @%s? <- v; self.bag[k] <-> t; return <- t! }", c, c, c)
	// whole containers
	w("    access(all) fun replaceKids(_ v: @[%s]): @[%s] { let old <- self.kids <- v; return <- old }", c, c)
	w("    access(all) fun replaceBagAll(_ v: @{String: %s}): @{String: %s} { let old <- self.bag <- v; return <- old }", c, c)
	w("    access(all) fun swapKids(_ v: @[%s]): @[%s] { var t <- v; self.kids <-> t; return <- t }", c, c)
	w("    access(all) fun swapBagAll(_ v: @{String: %s}): @{String: %s} { var t <- v; self.bag <-> t; return <- t }", c, c)
	if withInner {
		w("    access(all) fun innerRef(): &R1 { return &self.inner }")
		w("    access(all) fun replaceInner(_ v: @R1): @R1 { let old <- self.inner <- v; return <- old }")
		w("    access(all) fun swapInner(_ v: @R1): @R1 { var t <- v; self.inner <-> t; return <- t }")
	}
	w("}")
	return b.String()
}

func c04Decls() string {
	var b strings.Builder
	w := func(f string, a ...any) { fmt.Fprintf(&b, f+"\n", a...) }
	w("access(all) entitlement E")
	w("access(all) resource interface HasId { access(all) fun get(): Int }")
	w("access(all) resource R0: HasId {")
	w("    access(all) var n: Int")
	w("    init(_ n: Int) { self.n = n }")
	w("    access(all) fun get(): Int { return self.n }")
	w("    access(all) fun set(_ v: Int) { self.n = v }")
	w("    access(all) fun me(): &R0 { return &self as &R0 }")
	w("}")
	w("access(all) attachment A0 for R0 {")
	w("    access(all) var tag: Int")
	w("    init(_ t: Int) { self.tag = t }")
	w("    access(all) fun get(): Int { return self.tag }")
	w("    access(all) fun baseN(): Int { return base.n }")
	w("    access(all) fun baseRef(): &R0 { return base }")
	w("}")
	b.WriteString(boxDecl("R1", "R0", false))
	b.WriteString(boxDecl("R2", "R1", true))
	w("access(all) fun mk0(_ n: Int): @R0 { return <- create R0(n) }")
	w("access(all) fun mk0a(_ n: Int, _ tag: Int): @R0 { return <- attach A0(tag) to <- create R0(n) }")
	w("access(all) fun mk1(_ id: Int, child: @R0?, kids: @[R0], bag: @{String: R0}): @R1 { return <- create R1(id, child: <- child, kids: <- kids, bag: <- bag) }")
	w("access(all) fun mk2(_ id: Int, inner: @R1, child: @R1?, kids: @[R1], bag: @{String: R1}): @R2 { return <- create R2(id, inner: <- inner, child: <- child, kids: <- kids, bag: <- bag) }")
	w("access(all) fun mkKids(_ base: Int, _ count: Int): @[R0] {")
	w("    let a: @[R0] <- []")
	w("    var i = 0")
	w("    while i < count { a.append(<- create R0(base + i)); i = i + 1 }")
	w("    return <- a")
	w("}")
	w("access(all) fun mkBag(_ base: Int, _ count: Int): @{String: R0} {")
	w("    let d: @{String: R0} <- {}")
	w("    var i = 0")
	w("    while i < count { let old <- d.insert(key: \"k\".concat(i.toString()), <- create R0(base + i)); destroy old; i = i + 1 }")
	w("    return <- d")
	w("}")
	for _, t := range refTypes {
		w("access(all) fun p%s(_ r: &%s): &%s { return r }", t.Suf, t.Typ, t.Typ)
		w("access(all) fun pe%s(_ r: auth(E) &%s): &%s { return r }", t.Suf, t.Typ, t.Typ)
		w("access(all) struct H%s { access(all) let ref: &%s; init(_ r: &%s) { self.ref = r } }", t.Suf, t.Typ, t.Typ)
		if t.Suf != "A" {
			w("access(all) fun keep%s(_ r: @%s): @%s { return <- r }", t.Suf, t.Typ, t.Typ)
			w("access(all) fun sink%s(_ r: @%s) { destroy r }", t.Suf, t.Typ)
		}
	}
	w("access(all) fun use0(_ r: &R0): Int { return r.n }")
	w("access(all) fun use1(_ r: &R1): Int { return r.id }")
	w("access(all) fun use2(_ r: &R2): Int { return r.id }")
	w("access(all) fun useA(_ r: &A0): Int { return r.tag }")
	w("access(all) fun useI(_ r: &{HasId}): Int { return r.get() }")
	w("access(all) fun useK0(_ r: &[R0]): Int { return r.length }")
	w("access(all) fun useK1(_ r: &[R1]): Int { return r.length }")
	w("access(all) fun useB0(_ r: &{String: R0}): Int { return r.length }")
	w("access(all) fun useB1(_ r: &{String: R1}): Int { return r.length }")
	return b.String()
}

var c04ScriptPrelude = c04Decls()

var c04Contract = func() string {
	lines := strings.Split(strings.TrimRight(c04Decls(), "\n"), "\n")
	for i := range lines {
		lines[i] = "    " + lines[i]
	}
	return "access(all) contract C0 {\n" + strings.Join(lines, "\n") + "\n}\n"
}()

// px replaces the prefix placeholder.
func px(s string, tx bool) string {
	if tx {
		return strings.ReplaceAll(s, "§", "C0.")
	}
	return strings.ReplaceAll(s, "§", "")
}

// C04Contract / C05Contract expose the fixed contract sources (for reproducing witnesses by hand).
func C04Contract() string { return c04Contract }
func C05Contract() string { return c05Contract }
