package refs

// Contract C5: the struct types, helper builders and a contract-level stash used by the C05
// (copy semantics) scenarios. Deployed at 0x1 by every case; scripts and transactions import it.

const c05Contract = `access(all) contract C5 {

    access(all) struct Leaf {
        access(all) var n: Int
        access(all) var s: String
        init(_ n: Int, _ s: String) { self.n = n; self.s = s }
        access(all) fun setN(_ v: Int) { self.n = v }
        access(all) fun setS(_ v: String) { self.s = v }
    }

    access(all) attachment Mark for Leaf {
        access(all) var tag: Int
        access(all) var hist: [Int]
        init(_ t: Int) { self.tag = t; self.hist = [t] }
        access(all) fun set(_ v: Int) { self.tag = v; self.hist.append(v) }
    }

    access(all) struct Node {
        access(all) var id: Int
        access(all) var leaf: Leaf
        access(all) var opt: Leaf?
        access(all) var items: [Leaf]
        access(all) var nums: [Int]
        access(all) var tags: {String: [Int]}
        access(all) var table: {String: Leaf}
        init(_ id: Int, leaf: Leaf, opt: Leaf?, items: [Leaf], nums: [Int], tags: {String: [Int]}, table: {String: Leaf}) {
            self.id = id; self.leaf = leaf; self.opt = opt; self.items = items; self.nums = nums; self.tags = tags; self.table = table
        }
        access(all) fun setId(_ v: Int) { self.id = v }
        access(all) fun leafSetN(_ v: Int) { self.leaf.setN(v) }
        access(all) fun optSetN(_ v: Int) { self.opt!.setN(v) }
        access(all) fun itemsAppend(_ l: Leaf) { self.items.append(l) }
        access(all) fun itemsInsert(_ i: Int, _ l: Leaf) { self.items.insert(at: i, l) }
        access(all) fun itemsRemove(_ i: Int) { self.items.remove(at: i) }
        access(all) fun itemsSet(_ i: Int, _ l: Leaf) { self.items[i] = l }
        access(all) fun itemsSetN(_ i: Int, _ v: Int) { self.items[i].setN(v) }
        access(all) fun numsAppend(_ v: Int) { self.nums.append(v) }
        access(all) fun numsInsert(_ i: Int, _ v: Int) { self.nums.insert(at: i, v) }
        access(all) fun numsRemove(_ i: Int) { self.nums.remove(at: i) }
        access(all) fun numsSet(_ i: Int, _ v: Int) { self.nums[i] = v }
        access(all) fun tagsPut(_ k: String, _ v: [Int]) { self.tags[k] = v }
        access(all) fun tagsRemove(_ k: String) { self.tags.remove(key: k) }
        access(all) fun tagsAppend(_ k: String, _ v: Int) { self.tags[k]!.append(v) }
        access(all) fun tablePut(_ k: String, _ l: Leaf) { self.table[k] = l }
        access(all) fun tableRemove(_ k: String) { self.table.remove(key: k) }
        access(all) fun tableSetN(_ k: String, _ v: Int) { self.table[k]!.setN(v) }
    }

    access(all) struct Top {
        access(all) var id: Int
        access(all) var node: Node
        access(all) var nodes: [Node]
        access(all) var dir: {String: Node}
        access(all) var grid: [[Int]]
        init(_ id: Int, node: Node, nodes: [Node], dir: {String: Node}, grid: [[Int]]) {
            self.id = id; self.node = node; self.nodes = nodes; self.dir = dir; self.grid = grid
        }
        access(all) fun setId(_ v: Int) { self.id = v }
        access(all) fun nodeSetId(_ v: Int) { self.node.setId(v) }
        access(all) fun nodeNumsAppend(_ v: Int) { self.node.numsAppend(v) }
        access(all) fun nodesAppend(_ n: Node) { self.nodes.append(n) }
        access(all) fun nodesRemove(_ i: Int) { self.nodes.remove(at: i) }
        access(all) fun nodesSetId(_ i: Int, _ v: Int) { self.nodes[i].setId(v) }
        access(all) fun nodesNumsAppend(_ i: Int, _ v: Int) { self.nodes[i].numsAppend(v) }
        access(all) fun dirPut(_ k: String, _ n: Node) { self.dir[k] = n }
        access(all) fun dirRemove(_ k: String) { self.dir.remove(key: k) }
        access(all) fun dirSetId(_ k: String, _ v: Int) { self.dir[k]!.setId(v) }
        access(all) fun dirNumsAppend(_ k: String, _ v: Int) { self.dir[k]!.numsAppend(v) }
        access(all) fun gridAppendRow(_ r: [Int]) { self.grid.append(r) }
        access(all) fun gridAppend(_ i: Int, _ v: Int) { self.grid[i].append(v) }
        access(all) fun gridSet(_ i: Int, _ j: Int, _ v: Int) { self.grid[i][j] = v }
    }

    access(all) struct Box {
        access(all) var v: AnyStruct
        init(_ v: AnyStruct) { self.v = v }
        access(all) fun set(_ v: AnyStruct) { self.v = v }
        access(all) fun get(): AnyStruct { return self.v }
    }

    access(all) var stash: {String: AnyStruct}
    access(all) fun put(_ k: String, _ v: AnyStruct) { self.stash[k] = v }
    access(all) fun get(_ k: String): AnyStruct { return self.stash[k]! }

    access(all) fun id(_ v: AnyStruct): AnyStruct { return v }
    access(all) fun capture(_ v: AnyStruct): fun(): AnyStruct { return fun(): AnyStruct { return v } }

    access(all) fun pad(_ seed: Int, _ len: Int): String {
        var s = "<".concat(seed.toString()).concat(">")
        while s.length < len { s = s.concat(s) }
        return s.slice(from: 0, upTo: len)
    }
    access(all) fun ints(_ base: Int, _ n: Int): [Int] {
        let a: [Int] = []
        var i = 0
        while i < n { a.append(base + i); i = i + 1 }
        return a
    }
    access(all) fun strs(_ base: Int, _ n: Int, _ len: Int): [String] {
        let a: [String] = []
        var i = 0
        while i < n { a.append(self.pad(base + i, len)); i = i + 1 }
        return a
    }
    access(all) fun leaves(_ base: Int, _ n: Int, _ len: Int): [Leaf] {
        let a: [Leaf] = []
        var i = 0
        while i < n { a.append(Leaf(base + i, self.pad(base + i, len))); i = i + 1 }
        return a
    }
    access(all) fun intMap(_ base: Int, _ n: Int): {String: Int} {
        let d: {String: Int} = {}
        var i = 0
        while i < n { d["k".concat(i.toString())] = base + i; i = i + 1 }
        return d
    }
    access(all) fun leafMap(_ base: Int, _ n: Int, _ len: Int): {String: Leaf} {
        let d: {String: Leaf} = {}
        var i = 0
        while i < n { d["k".concat(i.toString())] = Leaf(base + i, self.pad(base + i, len)); i = i + 1 }
        return d
    }
    access(all) fun tagMap(_ base: Int, _ n: Int, _ m: Int): {String: [Int]} {
        let d: {String: [Int]} = {}
        var i = 0
        while i < n { d["k".concat(i.toString())] = self.ints(base + i * m, m); i = i + 1 }
        return d
    }

    init() { self.stash = {} }
}
`
