package refs

import (
	"sort"
	"strings"
)

// c05Canon brings the string rendering of a value into a canonical form: the entries of
// dictionaries `{k: v, …}` and the fields of composites `T(f: v, …)` are sorted (their order is
// the iteration order of an unordered collection and differs between copies); arrays keep
// their order. ok=false if the text is not understood (the caller then compares raw text).
func c05Canon(s string) (out string, ok bool) {
	p := &canonParser{s: s}
	defer func() {
		if r := recover(); r != nil {
			out, ok = s, false
		}
	}()
	v := p.value()
	p.ws()
	if p.i != len(p.s) {
		return s, false
	}
	return v, true
}

type canonParser struct {
	s string
	i int
}

func (p *canonParser) ws() {
	for p.i < len(p.s) && p.s[p.i] == ' ' {
		p.i++
	}
}

func (p *canonParser) peek() byte {
	if p.i >= len(p.s) {
		panic("eof")
	}
	return p.s[p.i]
}

func (p *canonParser) expect(c byte) {
	if p.peek() != c {
		panic("expected " + string(c))
	}
	p.i++
}

func (p *canonParser) value() string {
	p.ws()
	switch c := p.peek(); {
	case c == '"':
		st := p.i
		p.i++
		for {
			ch := p.peek()
			if ch == '\\' {
				p.i += 2
				continue
			}
			p.i++
			if ch == '"' {
				break
			}
		}
		return p.s[st:p.i]
	case c == '[':
		p.i++
		var es []string
		p.ws()
		if p.peek() == ']' {
			p.i++
			return "[]"
		}
		for {
			es = append(es, p.value())
			p.ws()
			if p.peek() == ',' {
				p.i++
				continue
			}
			p.expect(']')
			break
		}
		return "[" + strings.Join(es, ", ") + "]"
	case c == '{':
		p.i++
		var es []string
		p.ws()
		if p.peek() == '}' {
			p.i++
			return "{}"
		}
		for {
			k := p.value()
			p.ws()
			p.expect(':')
			v := p.value()
			es = append(es, k+": "+v)
			p.ws()
			if p.peek() == ',' {
				p.i++
				continue
			}
			p.expect('}')
			break
		}
		sort.Strings(es)
		return "{" + strings.Join(es, ", ") + "}"
	default:
		st := p.i
		for p.i < len(p.s) {
			ch := p.s[p.i]
			if ch == ',' || ch == ')' || ch == ']' || ch == '}' || ch == '(' || ch == ':' || ch == ' ' {
				break
			}
			p.i++
		}
		tok := p.s[st:p.i]
		if tok == "" {
			panic("empty token")
		}
		if p.i < len(p.s) && p.s[p.i] == '(' {
			p.i++
			var fs []string
			p.ws()
			if p.peek() == ')' {
				p.i++
				return tok + "()"
			}
			for {
				p.ws()
				fst := p.i
				for p.peek() != ':' {
					p.i++
				}
				name := p.s[fst:p.i]
				p.i++
				v := p.value()
				fs = append(fs, name+": "+v)
				p.ws()
				if p.peek() == ',' {
					p.i++
					continue
				}
				p.expect(')')
				break
			}
			sort.Strings(fs)
			return tok + "(" + strings.Join(fs, ", ") + ")"
		}
		return tok
	}
}
