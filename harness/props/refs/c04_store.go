package refs

import (
	"fmt"
	"math/rand/v2"
	"strings"
)

// Storage-reference family of C04: ρ is a storage reference (account.storage.borrow or a
// borrowed storage capability). The statement: it always reaches the value CURRENTLY stored
// at its path, subject to its type. Expected outcomes: the current value, a type-mismatch
// dereference error, or an absent-value dereference error.

func genStoreScenario(r *rand.Rand, k int) *scen {
	g := &sgen{r: r, tx: true, k: k}
	g.tg = &treeGen{r: r, nextVal: 3000 + r.IntN(500)}
	level := r.IntN(3)
	cur := g.tg.res(level) // model of the value currently stored at the path (nil = absent)
	path := fmt.Sprintf("/storage/q%d", k)
	path2 := fmt.Sprintf("/storage/q%db", k)
	typ := cur.typ()
	s := &scen{tx: true, target: "stored"}

	setup := []string{fmt.Sprintf("acct.storage.save(<- %s, to: %s)", cur.build(), path)}

	// borrow type
	bt := "&" + typ
	iface := false
	switch r.IntN(4) {
	case 0:
		bt = "&{§HasId}"
		iface = true
		s.deriv = "storage-borrow-interface"
	case 1:
		bt = "auth(§E) &" + typ
		s.deriv = "storage-borrow-entitled"
	default:
		s.deriv = "storage-borrow"
	}
	var ref string
	if r.IntN(3) == 0 {
		ref = fmt.Sprintf("acct.capabilities.storage.issue<%s>(%s).borrow()!", bt, path)
		s.deriv = strings.Replace(s.deriv, "storage-borrow", "capability-borrow", 1)
	} else {
		ref = fmt.Sprintf("acct.storage.borrow<%s>(from: %s)!", bt, path)
	}
	rho := "sr"
	closure := false
	switch r.IntN(5) {
	case 0:
		g.emit("let hs: [%s] = [%s]", bt, ref)
		rho = "hs[0]"
		s.holder = "array"
	case 1:
		g.emit("let ho: (%s)? = %s", bt, ref)
		rho = "ho!"
		s.holder = "optional"
	case 2:
		g.emit("let sr = %s", ref)
		closure = true
		s.holder = "closure"
	default:
		g.emit("let sr = %s", ref)
		s.holder = "var"
	}
	closureAt := len(g.stmts)

	loadExpr := fmt.Sprintf("acct.storage.load<@%s>(from: %s)!", typ, path)
	mismatch := false
	var locals []string
	evs := []string{"none", "load-destroy", "load-keep", "load-save-back", "replace-same-type", "replace-same-type", "replace-other-type", "replace-other-type",
		"replace-non-resource", "move-other-path", "save-elsewhere", "set"}
	if level >= 1 && len(cur.kids.elems) > 0 {
		evs = append(evs, "nested-take", "nested-take")
	}
	ev := evs[r.IntN(len(evs))]
	s.move = "storage:" + ev
	switch ev {
	case "none":
	case "load-destroy":
		g.emit("destroy %s", loadExpr)
		cur = nil
	case "load-keep":
		g.emit("let kept <- %s", loadExpr)
		locals = append(locals, "kept")
		cur = nil
	case "load-save-back":
		g.emit("let kept <- %s", loadExpr)
		g.emit("acct.storage.save(<- kept, to: %s)", path)
	case "replace-same-type":
		g.emit("destroy %s", loadExpr)
		cur = g.tg.res(level)
		g.emit("acct.storage.save(<- %s, to: %s)", cur.build(), path)
	case "replace-other-type":
		g.emit("destroy %s", loadExpr)
		nl := (level + 1 + r.IntN(2)) % 3
		cur = g.tg.res(nl)
		g.emit("acct.storage.save(<- %s, to: %s)", cur.build(), path)
		mismatch = !iface
	case "replace-non-resource":
		g.emit("destroy %s", loadExpr)
		g.emit("acct.storage.save(%d, to: %s)", g.tg.val(), path)
		cur = nil
		mismatch = true
	case "move-other-path":
		g.emit("let kept <- %s", loadExpr)
		g.emit("acct.storage.save(<- kept, to: %s)", path2)
		cur = nil
	case "save-elsewhere":
		g.emit("acct.storage.save(<- %s, to: %s)", g.tg.res(r.IntN(3)).build(), path2)
	case "set":
		nv := g.tg.val()
		g.emit("acct.storage.borrow<&%s>(from: %s)!.set(%d)", typ, path, nv)
		cur.val = nv
	case "nested-take":
		i := r.IntN(len(cur.kids.elems))
		g.emit("destroy acct.storage.borrow<&%s>(from: %s)!.takeKid(%d)", typ, path, i)
		detach(cur.kids.elems[i])
	}

	// use
	var ue string
	var uv int
	switch {
	case iface || cur == nil || mismatch:
		// only uses that type-check against the borrow type
		if iface {
			ue = g.pick(rho+".get()", fmt.Sprintf("§useI(%s)", rho))
		} else {
			ue = g.pick(rho+".get()", rho+"."+valField(level), fmt.Sprintf("§use%d(%s)", level, rho))
		}
		if cur != nil {
			uv = cur.val
		}
		s.use = "method-or-field"
	default:
		type u struct {
			e string
			v int
		}
		us := []u{{rho + ".get()", cur.val}, {rho + "." + valField(level), cur.val}, {fmt.Sprintf("§use%d(%s)", level, rho), cur.val}, {fmt.Sprintf("§useI(%s)", rho), cur.val}}
		if level >= 1 {
			us = append(us, u{rho + ".kids.length", len(cur.kids.elems)})
			if len(cur.kids.elems) > 0 && pureChain(rho) {
				j := r.IntN(len(cur.kids.elems))
				us = append(us, u{fmt.Sprintf("%s.kids[%d].%s", rho, j, valField(level-1)), cur.kids.elems[j].val})
			}
			if cur.child != nil {
				us = append(us, u{fmt.Sprintf("%s.child!.%s", rho, valField(level-1)), cur.child.val})
			}
		}
		x := us[r.IntN(len(us))]
		ue, uv = x.e, x.v
		s.use = "read"
	}
	if closure {
		decl := fmt.Sprintf("let cf = fun (): Int { return %s }", ue)
		g.stmts = append(g.stmts[:closureAt:closureAt], append([]string{decl}, g.stmts[closureAt:]...)...)
		ue = "cf()"
	}
	switch {
	case mismatch:
		s.expectErr = "mismatch"
		s.rel = "type-changed"
	case cur == nil:
		s.expectErr = "absent"
		s.rel = "removed"
	default:
		s.expectVal = uv
		s.rel = "stored"
	}
	g.emit("log(\"U\")")
	g.emit("let result: Int = %s", ue)
	g.emit("log(result)")
	for _, l := range locals {
		g.emit("destroy %s", l)
	}
	g.emit("log(\"D\")")
	body := "        " + strings.Join(g.stmts, "\n        ")
	s.src = px("import C0 from 0x1\ntransaction {\n    prepare(acct: auth(Storage, Capabilities) &Account) {\n"+body+"\n    }\n}\n", true)
	s.setupSrc = px("import C0 from 0x1\ntransaction {\n    prepare(acct: auth(Storage) &Account) {\n        "+strings.Join(setup, "\n        ")+"\n    }\n}\n", true)
	return s
}
