package refs

import (
	"fmt"
	"strings"

	"github.com/onflow/cadence"

	"verif/harness/core"
	"verif/harness/host"
)

// Returning a function-local value yields a copy even when the local outlives the call: the local is
// captured by a closure that escapes through a sink passed by reference; the CALL RESULT is then
// mutated directly (no intermediate variable, which would copy again). The closure must still see
// the original value.

type retLocal struct{ id, typ, init, observe string }

var retLocals = []retLocal{
	{"array", "[Int]", "[1]", "v.length"},
	{"dictionary", "{String: Int}", "{\"a\": 1}", "v.length"},
	{"nested-array", "[[Int]]", "[[1]]", "v[0].length"},
	{"struct-with-array", "Box", "Box()", "v.items.length"},
	{"optional-array", "[Int]?", "[1]", "v!.length"},
}

type retMutation struct{ id, on, stmt string }

// @CALL@ is the call expression `make(sink)`
var retMutations = []retMutation{
	{"append-on-call-result", "array", "@CALL@.append(2)"},
	{"insert-on-call-result", "array", "@CALL@.insert(at: 0, 2)"},
	{"reference-to-call-result", "array", "let r = &@CALL@ as auth(Mutate) &[Int]\n    r.append(2)"},
	{"dictionary-insert-on-call-result", "dictionary", "@CALL@.insert(key: \"b\", 2)"},
	{"dictionary-remove-on-call-result", "dictionary", "@CALL@.remove(key: \"a\")"},
	{"inner-append-on-call-result", "nested-array", "@CALL@[0].append(2)"},
	{"outer-append-on-call-result", "nested-array", "@CALL@.append([5, 6])"},
	{"struct-method-on-call-result", "struct-with-array", "@CALL@.add(2)"},
	{"force-unwrap-append-on-call-result", "optional-array", "@CALL@!.append(2)"},
}

var retShapes = []struct{ id, body string }{
	// @T@ type, @INIT@ initial value, @OBS@ observation over v
	{"plain-local", "    var v: @T@ = @INIT@\n    sink.append(fun(): Int { return @OBS@ })\n    return v\n"},
	{"let-local", "    let v: @T@ = @INIT@\n    sink.append(fun(): Int { return @OBS@ })\n    return v\n"},
	{"local-in-branch", "    var v: @T@ = @INIT@\n    sink.append(fun(): Int { return @OBS@ })\n    if sink.length > 0 {\n        return v\n    }\n    return v\n"},
	{"closure-after-conditional", "    var v: @T@ = @INIT@\n    if sink.length == 0 {\n        sink.append(fun(): Int { return @OBS@ })\n    }\n    return v\n"},
}

func c05RetLocal(c *core.Ctx) {
	k := c.Case
	m := retMutations[k%len(retMutations)]
	sh := retShapes[(k/len(retMutations))%len(retShapes)]
	var loc retLocal
	for _, l := range retLocals {
		if l.id == m.on {
			loc = l
		}
	}
	var b strings.Builder
	b.WriteString("access(all) struct Box {\n    access(all) var items: [Int]\n    init() { self.items = [1] }\n    access(all) fun add(_ x: Int) { self.items.append(x) }\n}\n")
	body := strings.NewReplacer("@T@", loc.typ, "@INIT@", loc.init, "@OBS@", loc.observe).Replace(sh.body)
	fmt.Fprintf(&b, "access(all) fun make(_ sink: auth(Mutate) &[fun(): Int]): %s {\n%s}\n", loc.typ, body)
	b.WriteString("access(all) fun main(): [Int] {\n    let fs: [fun(): Int] = []\n    let sink = &fs as auth(Mutate) &[fun(): Int]\n")
	fmt.Fprintf(&b, "    %s\n", strings.ReplaceAll(m.stmt, "@CALL@", "make(sink)"))
	b.WriteString("    return [fs.length, fs[0]()]\n}\n")
	prog := b.String()
	id := m.id + " @ " + sh.id
	for _, eng := range host.AllEngines {
		o := host.New().RunScript(eng, prog, nil, nil)
		c.Eval(1)
		if eng == host.EngI {
			c.Inc("retlocal_programs")
			c.Distinct(prog)
		}
		wit := map[string]any{"program": prog, "engine": eng.String(), "error": host.ErrText(o)}
		if o.Err != nil && (host.HasKind(o.Err, "CheckerError") || host.HasKind(o.Err, "ParsingCheckingError") || host.HasKind(o.Err, "sema.")) {
			if eng == host.EngI {
				c.Inc("retlocal_rejected_by_checker")
				c.Note("retlocal_rejected_example", core.Clip(host.ErrText(o), 800)+"\n"+prog)
			}
			break
		}
		arr, ok := o.Value.(cadence.Array)
		if o.Err != nil || o.Escaped != nil || !ok || len(arr.Values) != 2 {
			c.Violate(fmt.Sprintf("retlocal[%s] accepted program fails: %s", eng, id), host.ErrText(o), wit)
			continue
		}
		if eng == host.EngI {
			c.Inc("retlocal_executed")
		}
		if arr.Values[0].String() != "1" || arr.Values[1].String() != "1" {
			c.Violate(fmt.Sprintf("retlocal: mutation of a returned value visible through the captured local: %s", id),
				fmt.Sprintf("engine %s: the closure that captured the returned local observes %s after the call result was mutated (expected 1): the returned value is not an independent copy", eng, arr.Values[1]), wit)
		}
	}
}
