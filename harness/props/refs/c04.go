package refs

import (
	"fmt"
	"strconv"
	"strings"

	"github.com/onflow/cadence/common"
	"github.com/onflow/cadence/interpreter"

	"verif/harness/core"
	"verif/harness/host"
)

// C04 — references to moved or destroyed resources become unusable; references to resources
// that did not move stay usable; storage references reach the currently stored value.
//
// Observation per execution: the log markers "U" (just before the single use of ρ), the logged
// result of the use, "D" (after the statically valid clean-up), and the error of the execution.

const c04PerCase = 100

var c04TargetKinds = []string{"var", "optvar", "inner", "child", "elem", "dictval", "attach", "arrfield", "dictfield", "arrvar", "dictvar"}
var c04CoreMoves = []string{"to-var", "to-optional", "to-array", "to-dict", "to-field", "fn-keep", "fn-destroy", "destroy", "reinsert", "second-value", "swap"}

func init() {
	floors := map[string]int64{
		"optelem_programs": 30, "optelem_invalidated_as_expected": 20,
		"exp:invalidated": 1000, "exp:value": 1000, "exp:absent": 40, "exp:mismatch": 40,
		"judged_I": 3000, "judged_V": 3000, "judged_Vp": 3000,
		"scenario:script": 800, "scenario:tx": 250, "scenario:storage-ref": 190,
		"move:storage-save": 30, "move:storage-load": 30, "move:swap-vars": 8, "move:swap-local-elems": 15, "move:remove-attachment": 2,
		"move:noise": 140, "big_container": 80,
		"rel:self": 260, "rel:nested-in-moved": 250, "rel:moved-descendant": 66, "rel:sibling": 160, "rel:unrelated": 180, "rel:incoming": 12,
	}
	for _, t := range c04TargetKinds {
		for _, m := range c04CoreMoves {
			floors["pair:"+t+"×"+m] = 1
		}
		floors["target:"+t] = 45
	}
	for _, d := range []string{"owned-amp", "owned-method", "owned-amp-optional", "ref-path", "via-var", "optchain", "for-loop", "anyres-cast", "me", "iface", "attachment-base", "via-storage-ref", "owned-attachment-access"} {
		floors["deriv:"+d] = 12
	}
	for _, h := range []string{"var", "struct", "array", "dict", "optional", "closure", "anystruct", "bound-fn"} {
		floors["holder:"+h] = 80
	}
	core.Register(&core.Prop{
		ID:   "C04",
		Rule: "generated scenarios over an ownership-tree model (R2 ⊃ R1 ⊃ R0 with optional / array / dictionary fields, attachment on R0, local arrays, dictionaries and optionals, values stored in an account): ONE reference ρ (derivation × holder form), ONE event (move kind × moved node, or a non-moving mutation), ONE use of ρ; scripts and transactions on three engines; distinct = distinct program text",
		Assumptions: []string{
			"the ownership model: a use of ρ must fail with interpreter.InvalidatedResourceReferenceError (user class) iff the target of ρ or one of its owners was moved by the event, otherwise it yields the value the model predicts",
			"a storage reference yields the value currently stored at its path, interpreter.DereferenceError (absent / type mismatch) otherwise",
			"log(\"U\") / log(result) / log(\"D\") markers locate the failing statement",
		},
		NumCases: func(tier string) int {
			if tier == "thorough" {
				return 800
			}
			return 64
		},
		Floors: floors,
		Run:    runC04,
		Finalize: func(a *core.Agg) {
			inv, val := a.Counters["exp:invalidated"], a.Counters["exp:value"]
			tot := inv + val + a.Counters["exp:absent"] + a.Counters["exp:mismatch"]
			if tot > 0 && (inv*4 < tot || val*4 < tot) {
				a.Inconclusive = append(a.Inconclusive, fmt.Sprintf("expected-outcome classes unbalanced: invalidated=%d value=%d of %d", inv, val, tot))
			}
		},
	})
}

type c04Obs struct {
	hasU, hasD bool
	val        string // logged result ("" = none)
	class      host.ErrClass
	kind       string // normalised error kind
	text       string
}

func c04Observe(h *host.Host, o host.Outcome) c04Obs {
	ob := c04Obs{class: host.Classify(o)}
	for i, l := range h.Logs {
		switch l {
		case `"U"`:
			ob.hasU = true
			if i+1 < len(h.Logs) && h.Logs[i+1] != `"D"` {
				ob.val = h.Logs[i+1]
			}
		case `"D"`:
			ob.hasD = true
		}
	}
	if o.Escaped != nil {
		ob.kind = "escaped-panic"
		ob.text = host.ErrText(o)
		return ob
	}
	if o.Err != nil {
		ob.text = host.ErrText(o)
		ks := host.ErrKinds(o.Err)
		if len(ks) > 0 {
			ob.kind = strings.TrimPrefix(ks[len(ks)-1], "*")
		}
		host.Walk(o.Err, func(e error) {
			switch x := e.(type) {
			case *interpreter.InvalidatedResourceReferenceError:
				ob.kind = "invalidated"
			case *interpreter.DereferenceError:
				if x.ExpectedType != nil {
					ob.kind = "mismatch"
				} else if strings.Contains(x.Cause, "no value is stored") {
					ob.kind = "absent"
				} else {
					ob.kind = "dereference:" + x.Cause
				}
			}
		})
		for _, k := range ks {
			if strings.Contains(k, "ParsingCheckingError") || strings.HasPrefix(strings.TrimPrefix(k, "*"), "sema.") || strings.HasPrefix(strings.TrimPrefix(k, "*"), "parser.") {
				ob.kind = "rejected"
			}
		}
	}
	return ob
}

func c04Judge(c *core.Ctx, s *scen, eng host.Engine, ob c04Obs, prior []string) {
	if ob.kind == "rejected" {
		// the generator produced a program the checker does not accept: not an observation
		c.Inc("rejected_by_checker")
		c.Note("rejected_example", core.Clip(ob.text, 1500)+"\n"+s.src[strings.LastIndex(s.src, "fun main")+1:])
		return
	}
	c.Inc("judged_" + eng.String())
	ok, class, got := c04Verdict(s, ob)
	if ok {
		return
	}
	exp := "value " + strconv.Itoa(s.expectVal)
	if s.expectErr != "" {
		exp = "error " + s.expectErr
	}
	key := c04Key(s, class, got, eng)
	w := map[string]any{
		"engine": eng.String(), "program": c04WitnessSrc(s), "expected": exp,
		"observed": map[string]any{"error_kind": ob.kind, "class": string(ob.class), "logged_result": ob.val, "reached_use": ob.hasU, "finished": ob.hasD, "error": core.Clip(ob.text, 1200)},
		"derivation": s.deriv, "holder": s.holder, "use": s.use,
	}
	if s.setupSrc != "" {
		w["setup_transaction"] = s.setupSrc
	}
	w["contract_C0"] = "deployed at 0x1; source: props/refs/c04_decl.go c04Contract (go run -tags verif ./cmd/refsprobe -c04contract prints it)"
	c.Violate(key, fmt.Sprintf("engine %s: expected %s, observed kind=%q result=%q (reached use: %v); ρ derived by %s held in %s, used by %s",
		eng, exp, ob.kind, ob.val, ob.hasU, s.deriv, s.holder, s.use), w)
}

// c04Verdict compares an observation with the model's prediction.
func c04Verdict(s *scen, ob c04Obs) (ok bool, class, got string) {
	switch s.expectErr {
	case "":
		ok = ob.kind == "" && ob.hasU && ob.hasD && ob.val == strconv.Itoa(s.expectVal)
	default:
		ok = ob.kind == s.expectErr && ob.class == host.ClassUser && ob.hasU && ob.val == ""
	}
	if ok {
		return true, "", ""
	}
	got = ob.kind
	switch {
	case !ob.hasU:
		class = "event-failed"
	case s.expectErr != "" && ob.kind == "" && ob.val != "":
		class = "stale-ref-usable"
		got = "value"
	case s.expectErr == "" && ob.kind == "invalidated" && ob.val == "":
		class = "valid-ref-rejected"
	case s.expectErr == "" && ob.val != "" && ob.val != strconv.Itoa(s.expectVal):
		class = "wrong-value"
		got = "value"
	case s.expectErr == "" && ob.val != "" && ob.kind != "":
		class = "cleanup-failed"
	default:
		class = "wrong-error"
	}
	if got == "" {
		got = "none"
	}
	return false, class, got
}

func c04Key(s *scen, class, got string, eng host.Engine) string {
	if s.move == "swap-field-elem" {
		// one move form (`self.kids[i] <-> t` on a field container): keyed without target / relation
		// (one defect with several symptoms: the interpreter fails at the swap with an internal error, the
		// VM loses the field and invalidates references to unmoved siblings)
		return fmt.Sprintf("swap-field-elem:engine=%s", eng)
	}
	return fmt.Sprintf("%s:target=%s:rel=%s:move=%s:got=%s:engine=%s", class, s.target, s.rel, s.move, got, eng)
}

func c04MoveClass(m string) string {
	switch {
	case strings.HasPrefix(m, "noise"):
		return "noise"
	case strings.HasPrefix(m, "storage-load"):
		return "storage-load"
	case strings.HasPrefix(m, "storage:"):
		return "storage-ref-event"
	}
	return m
}

func c04WitnessSrc(s *scen) string { return s.src }

var c04Signers = []common.Address{host.Addr(1)}

// c04Host returns a host with contract C0 deployed.
func c04Host(eng host.Engine) (*host.Host, host.Outcome) {
	h := host.New()
	h.NoRecord = true
	d := h.Deploy(eng, host.Addr(1), "C0", c04Contract)
	return h, d
}

// c04Exec runs one program on a host that has C0 deployed. The checked contract program is kept
// in the host's program cache between executions (as a real host does); the cache entry of the
// script / transaction itself is dropped.
func c04Exec(h *host.Host, eng host.Engine, src string, tx bool) host.Outcome {
	for l := range h.Programs {
		if _, ok := l.(common.AddressLocation); !ok {
			delete(h.Programs, l)
		}
	}
	h.ResetTrace()
	opt := &host.Options{Config: host.DefaultConfig, KeepPrograms: true}
	if tx {
		return h.RunTx(eng, src, nil, c04Signers, opt)
	}
	return h.RunScript(eng, src, nil, opt)
}

func runC04(c *core.Ctx) {
	hosts := map[host.Engine]*host.Host{}
	getHost := func(eng host.Engine) *host.Host {
		if h, ok := hosts[eng]; ok {
			return h
		}
		h, d := c04Host(eng)
		if d.Err != nil || d.Escaped != nil {
			c.Violate("harness:deploy-failed:engine="+eng.String(), "deployment of the C04 contract failed: "+host.ErrText(d), nil)
			h = nil
		}
		hosts[eng] = h
		return h
	}
	// containers with optional resource elements (c04_optelem.go)
	c04OptElem(c)
	for k := 0; k < c04PerCase; k++ {
		var s *scen
		fam := c.Rng.IntN(20)
		allowBroken := c.Rng.IntN(4) == 0
		switch {
		case fam < 13:
			s = genScenario(c.Rng, false, k, allowBroken)
			c.Inc("scenario:script")
		case fam < 17:
			s = genScenario(c.Rng, true, k, allowBroken)
			c.Inc("scenario:tx")
		default:
			s = genStoreScenario(c.Rng, k)
			c.Inc("scenario:storage-ref")
		}
		c.Distinct(s.src + s.setupSrc)
		// coverage monitors
		if s.expectErr == "" {
			c.Inc("exp:value")
		} else {
			c.Inc("exp:" + s.expectErr)
		}
		c.Inc("target:" + s.target)
		c.Inc("pair:" + s.target + "×" + s.move)
		mk := c04MoveClass(s.move)
		c.Inc("move:" + mk)
		rel := s.rel
		if strings.HasPrefix(rel, "incoming") {
			rel = "incoming"
		}
		c.Inc("rel:" + rel)
		c.Inc("deriv:" + s.deriv)
		c.Inc("holder:" + s.holder)
		c.Inc("use:" + s.use)
		if s.bigContainer {
			c.Inc("big_container")
		}
		for _, eng := range host.AllEngines {
			h := getHost(eng)
			if h == nil {
				continue
			}
			if s.setupSrc != "" {
				so := c04Exec(h, eng, s.setupSrc, true)
				c.Eval(1)
				if so.Err != nil || so.Escaped != nil {
					c.Violate(fmt.Sprintf("setup-failed:target=%s:engine=%s", s.target, eng), "the set-up transaction storing the resources failed: "+host.ErrText(so),
						map[string]any{"setup_transaction": s.setupSrc})
					continue
				}
			}
			o := c04Exec(h, eng, s.src, s.tx)
			c.Eval(1)
			c04Judge(c, s, eng, c04Observe(h, o), nil)
		}
		if k == 0 && c.WantSample() {
			exp := "value " + strconv.Itoa(s.expectVal)
			if s.expectErr != "" {
				exp = "error " + s.expectErr
			}
			c.Sample(map[string]any{"program": c04WitnessSrc(s), "target": s.target, "move": s.move, "relation": s.rel, "derivation": s.deriv, "holder": s.holder, "use": s.use, "expected": exp})
		}
	}
}
