//go:build verif

package refs

import (
	"fmt"
	"math/rand/v2"
	"os"
	"strconv"
	"testing"

	"verif/harness/host"
)

// Development aid: go test -tags verif -run C04Dev ./props/refs  (C04N=scenarios, C04SEED=seed, C04V=1 prints all failures)
func TestC04Dev(t *testing.T) {
	n := 300
	if v, err := strconv.Atoi(os.Getenv("C04N")); err == nil {
		n = v
	}
	seed := uint64(1)
	if v, err := strconv.Atoi(os.Getenv("C04SEED")); err == nil {
		seed = uint64(v)
	}
	r := rand.New(rand.NewPCG(seed, 99))
	hosts := map[host.Engine]*host.Host{}
	for _, e := range host.AllEngines {
		h, d := c04Host(e)
		if d.Err != nil {
			t.Fatalf("deploy: %v", d.Err)
		}
		hosts[e] = h
	}
	seen := map[string]int{}
	stats := map[string]int{}
	for k := 0; k < n; k++ {
		var s *scen
		fam := r.IntN(20)
		switch {
		case fam < 13:
			s = genScenario(r, false, k, r.IntN(4) == 0)
		case fam < 17:
			s = genScenario(r, true, k, r.IntN(4) == 0)
		default:
			s = genStoreScenario(r, k)
		}
		if s.expectErr == "" {
			stats["exp:value"]++
		} else {
			stats["exp:"+s.expectErr]++
		}
		for _, e := range host.AllEngines {
			h := hosts[e]
			if s.setupSrc != "" {
				if so := c04Exec(h, e, s.setupSrc, true); so.Err != nil {
					fmt.Printf("SETUP FAILED %s\n%s\n%s\n", e, s.setupSrc, host.ErrText(so))
					continue
				}
			}
			o := c04Exec(h, e, s.src, s.tx)
			ob := c04Observe(h, o)
			if ob.kind == "rejected" {
				stats["rejected"]++
				key := "rejected:" + s.deriv + ":" + s.move
				seen[key]++
				if seen[key] == 1 && e == host.EngI {
					fmt.Printf("---- REJECTED deriv=%s holder=%s move=%s\n%s\n%s\n", s.deriv, s.holder, s.move, c04WitnessSrc(s), ob.text)
				}
				continue
			}
			ok, class, got := c04Verdict(s, ob)
			if ok {
				stats["ok"]++
				continue
			}
			stats["bad"]++
			key := c04Key(s, class, got, e)
			seen[key]++
			if seen[key] == 1 || os.Getenv("C04V") != "" {
				fmt.Printf("---- VIOLATION %s\n deriv=%s holder=%s use=%s expectErr=%q expectVal=%d\n%s\n%s\nobs: %+v\n", key, s.deriv, s.holder, s.use, s.expectErr, s.expectVal, s.setupSrc, c04WitnessSrc(s), ob)
			}
		}
	}
	fmt.Println("stats:", stats)
	for k, v := range seen {
		fmt.Println(v, k)
	}
}
