package refs

import (
	"fmt"
	"math/rand/v2"
	"strings"
)

// A C05 scenario: value a, ONE transfer form giving b, snapshot, ONE mutation of one side,
// snapshot again. Histories add a set-up transaction before and a read-back transaction after.

type c05Scen struct {
	txs []string // 1 element = script; 3 elements = transaction history (set-up, main, read-back)

	transfer, mutation, opForm, mode string
	side                             string // which observer is mutated: "a" | "b"
	observers                        []string // labels of the snapshot lines (a, b, holders…)
	mutated                          int      // index into observers
	sentinel                         string
	depth                            int
	big, hasAtt, hasDict             bool
	rootType                         string
	// read-back (history): observer indexes whose final snapshot is logged again in the last tx
	readBack []int
}

var c05ScriptTransfers = []string{"assign", "arg-return", "closure-capture", "closure-return", "field-roundtrip", "array-roundtrip", "dict-roundtrip", "optional", "anystruct-cast", "contract-stash", "attachment-copy"}
var c05TxTransfers = []string{"save-copy", "save-load", "contract-stash-tx"}
var c05MutationForms = []string{"method-field", "method-nested", "index-assign", "append", "insert", "remove", "dict-insert", "dict-remove", "via-ref"}

func authRef(path string, t *cty, x string) string {
	full := x + path
	at := "auth(Mutate, Insert, Remove) &" + t.src()
	if strings.HasSuffix(full, "!") {
		return fmt.Sprintf("(&%s as %s?)!", strings.TrimSuffix(full, "!"), at)
	}
	return fmt.Sprintf("&%s as %s", full, at)
}

// typeOffers: does a value of type t contain a site for the mutation form?
func typeOffers(t *cty, form string) bool {
	switch form {
	case "method-field":
		return typeHas(t, "leaf") || typeHas(t, "node") || typeHas(t, "top")
	case "method-nested":
		return typeHas(t, "node") || typeHas(t, "top")
	case "dict-insert", "dict-remove":
		return typeHas(t, "dict")
	case "append", "insert", "remove":
		return typeHas(t, "arr")
	}
	return typeHas(t, "arr") || typeHas(t, "dict")
}

func typeHas(t *cty, k string) bool {
	if t.k == k {
		return true
	}
	switch t.k {
	case "arr", "dict", "opt":
		return typeHas(t.elem, k)
	case "node":
		return k == "leaf" || k == "arr" || k == "dict"
	case "top":
		return k == "node" || k == "leaf" || k == "arr" || k == "dict"
	}
	return false
}

func genC05(r *rand.Rand, k int, history bool) *c05Scen {
	for {
		if s := tryGenC05(r, k, history); s != nil {
			return s
		}
	}
}

func tryGenC05(r *rand.Rand, k int, history bool) *c05Scen {
	s := &c05Scen{}
	if history {
		s.transfer = c05TxTransfers[r.IntN(len(c05TxTransfers))]
	} else {
		s.transfer = c05ScriptTransfers[r.IntN(len(c05ScriptTransfers))]
	}
	g := &vgen{r: r, next: 100 + r.IntN(900), wantBig: r.IntN(10) < 6}
	// choose the mutation form first (uniform over forms), then a root type that offers it
	wantForm := c05MutationForms[r.IntN(len(c05MutationForms)-1)]
	var elig []*cty
	for _, rt := range c05RootTypes {
		if typeOffers(rt, wantForm) {
			elig = append(elig, rt)
		}
	}
	t := elig[r.IntN(len(elig))]
	if s.transfer == "attachment-copy" {
		g.att = true
		t = []*cty{tyLeaf, arrOf(tyLeaf), tyNode, dictOf(tyLeaf)}[r.IntN(4)]
	}
	a := g.gen(t, 0)
	if s.transfer == "attachment-copy" && !g.hasAtt {
		return nil
	}
	s.big, s.hasAtt, s.hasDict, s.rootType = g.big, g.hasAtt, t.hasDict(), t.src()
	T := t.src()

	// ---- which side is mutated, and through which l-value
	var pre, body []string
	emit := func(f string, x ...any) { body = append(body, fmt.Sprintf(f, x...)) }
	sideB := r.IntN(2) == 0
	storedSide := false // the mutated side lives in storage (only reachable through a reference)

	var obsExpr []string
	tempExpr := "" // an expression that yields a fresh copy every time it is evaluated
	switch s.transfer {
	case "assign", "attachment-copy":
		emit("var a: %s = %s", T, a.src())
		emit("var b = a")
	case "arg-return":
		emit("var a: %s = %s", T, a.src())
		if r.IntN(2) == 0 {
			emit("var b = C5.id(a) as! %s", T)
			tempExpr = fmt.Sprintf("(C5.id(a) as! %s)", T)
		} else {
			emit("let idf = fun (_ x: %s): %s { return x }", T, T)
			emit("var b = idf(a)")
			tempExpr = "idf(a)"
		}
	case "closure-capture":
		emit("var a: %s = %s", T, a.src())
		emit("let getf = C5.capture(a)")
		emit("var b = getf() as! %s", T)
		tempExpr = fmt.Sprintf("(getf() as! %s)", T)
		obsExpr = append(obsExpr, "getf()")
		s.observers = append(s.observers, "captured")
	case "closure-return":
		emit("var a: %s = %s", T, a.src())
		emit("let getf = fun (): %s { return a }", T)
		emit("var b = getf()")
		tempExpr = "getf()"
	case "field-roundtrip":
		emit("var a: %s = %s", T, a.src())
		if r.IntN(2) == 0 {
			emit("let box = C5.Box(a)")
		} else {
			emit("let box = C5.Box(0)")
			emit("box.set(a)")
		}
		if r.IntN(2) == 0 {
			emit("var b = box.v as! %s", T)
		} else {
			emit("var b = box.get() as! %s", T)
		}
		tempExpr = fmt.Sprintf("(box.get() as! %s)", T)
		obsExpr = append(obsExpr, "box.v")
		s.observers = append(s.observers, "holder")
	case "array-roundtrip":
		emit("var a: %s = %s", T, a.src())
		if r.IntN(2) == 0 {
			emit("var hold: [%s] = [a]", T)
		} else {
			emit("var hold: [%s] = []", T)
			emit("hold.append(a)")
		}
		emit("var b = hold[0]")
		obsExpr = append(obsExpr, "hold")
		s.observers = append(s.observers, "holder")
	case "dict-roundtrip":
		emit("var a: %s = %s", T, a.src())
		if r.IntN(2) == 0 {
			emit("var hold: {String: %s} = {\"h\": a}", T)
		} else {
			emit("var hold: {String: %s} = {}", T)
			emit("hold[\"h\"] = a")
		}
		emit("var b = hold[\"h\"]!")
		obsExpr = append(obsExpr, "hold")
		s.observers = append(s.observers, "holder")
	case "optional":
		emit("var a: %s = %s", T, a.src())
		emit("let o: %s? = a", T)
		if r.IntN(2) == 0 {
			emit("var b = o!")
		} else {
			emit("var b = o ?? a")
		}
		obsExpr = append(obsExpr, "o")
		s.observers = append(s.observers, "holder")
	case "anystruct-cast":
		emit("var a: %s = %s", T, a.src())
		emit("let x: AnyStruct = a")
		emit("var b = x as! %s", T)
		obsExpr = append(obsExpr, "x")
		s.observers = append(s.observers, "holder")
	case "contract-stash":
		emit("var a: %s = %s", T, a.src())
		emit("C5.put(\"s%d\", a)", k)
		emit("var b = C5.get(\"s%d\") as! %s", k, T)
		tempExpr = fmt.Sprintf("(C5.get(\"s%d\") as! %s)", k, T)
		obsExpr = append(obsExpr, fmt.Sprintf("C5.get(\"s%d\")", k))
		s.observers = append(s.observers, "stash")
	case "save-copy":
		pre = append(pre, fmt.Sprintf("var a: %s = %s", T, a.src()), fmt.Sprintf("acct.storage.save(a, to: /storage/v%d)", k))
		emit("var b = acct.storage.copy<%s>(from: /storage/v%d)!", T, k)
		tempExpr = fmt.Sprintf("acct.storage.copy<%s>(from: /storage/v%d)!", T, k)
		sideB = r.IntN(3) != 0
		storedSide = !sideB
	case "save-load":
		pre = append(pre, fmt.Sprintf("var a: %s = %s", T, a.src()), fmt.Sprintf("acct.storage.save(a, to: /storage/v%d)", k), fmt.Sprintf("acct.storage.save(a, to: /storage/w%d)", k))
		emit("var b = acct.storage.load<%s>(from: /storage/v%d)!", T, k)
		sideB = r.IntN(3) != 0
		storedSide = !sideB
	case "contract-stash-tx":
		pre = append(pre, fmt.Sprintf("let a: %s = %s", T, a.src()), fmt.Sprintf("C5.put(\"s%d\", a)", k))
		emit("var b = C5.get(\"s%d\") as! %s", k, T)
		tempExpr = fmt.Sprintf("(C5.get(\"s%d\") as! %s)", k, T)
		sideB = true
	}
	// mutate a TEMPORARY copy (the un-bound result of the transfer expression): nothing observable may change
	tempSide := tempExpr != "" && r.IntN(4) == 0
	if tempSide {
		storedSide = false
	}

	// observers: first "a" (or its stand-in), then "b", then holders
	aExpr := "a"
	switch s.transfer {
	case "save-copy":
		aExpr = fmt.Sprintf("acct.storage.copy<%s>(from: /storage/v%d)!", T, k)
	case "save-load":
		aExpr = fmt.Sprintf("acct.storage.copy<%s>(from: /storage/w%d)!", T, k)
	case "contract-stash-tx":
		aExpr = fmt.Sprintf("C5.get(\"s%d\")", k)
	}
	obsAll := append([]string{aExpr, "b"}, obsExpr...)
	s.observers = append([]string{"a", "b"}, s.observers...)
	s.mutated = 0
	s.side = "a"
	if sideB {
		s.mutated = 1
		s.side = "b"
	}
	if tempSide {
		s.mutated = -1
		s.side = "temporary"
	}

	// ---- mutation
	var sites []csite
	g.sites(a, "", 0, &sites)
	if storedSide {
		sites = sites[:0]
		switch a.t.k {
		case "arr", "dict", "leaf", "node", "top":
			sites = append(sites, csite{"", a, 0})
		}
	}
	type cand struct {
		st csite
		m  cmut
	}
	byForm := map[string][]cand{}
	var forms []string
	for _, st := range sites {
		for _, m := range g.muts(st, tempSide) {
			if tempSide && m.assign && m.form != "dict-insert" {
				continue
			}
			if _, ok := byForm[m.form]; !ok {
				forms = append(forms, m.form)
			}
			byForm[m.form] = append(byForm[m.form], cand{st, m})
		}
	}
	if len(forms) == 0 {
		return nil
	}
	if s.transfer == "attachment-copy" && len(byForm["attachment-set"]) > 0 && r.IntN(2) == 0 {
		forms = []string{"attachment-set"}
	}
	f := forms[r.IntN(len(forms))]
	if len(byForm[wantForm]) > 0 && len(forms) > 1 {
		f = wantForm
	}
	// prefer deeper sites half of the time
	cs := byForm[f]
	c := cs[r.IntN(len(cs))]
	if r.IntN(2) == 0 {
		for _, x := range cs {
			if x.st.depth > c.st.depth {
				c = x
			}
		}
	}
	s.opForm, s.sentinel, s.depth = c.m.form, c.m.sentinel, c.st.depth
	x := s.side
	var mut []string
	switch {
	case tempSide:
		mut = append(mut, c.m.stmt(tempExpr+c.st.path))
		s.mode = "temporary"
	case storedSide:
		path := fmt.Sprintf("/storage/v%d", k)
		if s.transfer == "save-load" {
			path = fmt.Sprintf("/storage/w%d", k)
		}
		mut = append(mut, fmt.Sprintf("let rr = acct.storage.borrow<auth(Mutate, Insert, Remove) &%s>(from: %s)!", T, path))
		mut = append(mut, c.m.stmt("rr"))
		s.mode = "storage-ref"
	case r.IntN(3) == 0 || (c.m.assign && strings.Contains(c.st.path, "!")):
		// (an index assignment through a force-unwrap is not an assignable expression: use a reference)
		mut = append(mut, fmt.Sprintf("let rr = %s", authRef(c.st.path, c.st.v.t, x)))
		mut = append(mut, c.m.stmt("rr"))
		s.mode = "ref"
	default:
		mut = append(mut, c.m.stmt(x+c.st.path))
		s.mode = "direct"
	}
	s.mutation = s.opForm
	if s.mode != "direct" && s.mode != "temporary" {
		s.mutation = "via-ref"
	}

	snap := func(tag string) {
		emit("log(%q)", tag)
		for _, o := range obsAll {
			emit("log(%s)", o)
		}
	}
	snap("S1")
	body = append(body, mut...)
	snap("S2")
	if s.transfer == "save-load" {
		emit("acct.storage.save(b, to: /storage/v%d)", k)
	}

	join := func(lines []string) string { return "        " + strings.Join(lines, "\n        ") }
	if !history {
		s.txs = []string{"import C5 from 0x1\naccess(all) fun main() {\n" + join(body) + "\n}\n"}
		return s
	}
	wrap := func(lines []string) string {
		return "import C5 from 0x1\ntransaction {\n    prepare(acct: auth(Storage) &Account) {\n" + join(lines) + "\n    }\n}\n"
	}
	var post []string
	post = append(post, "log(\"S3\")")
	switch s.transfer {
	case "save-copy":
		post = append(post, fmt.Sprintf("log(acct.storage.copy<%s>(from: /storage/v%d)!)", T, k))
		s.readBack = []int{0}
	case "save-load":
		post = append(post, fmt.Sprintf("log(acct.storage.copy<%s>(from: /storage/w%d)!)", T, k), fmt.Sprintf("log(acct.storage.copy<%s>(from: /storage/v%d)!)", T, k))
		s.readBack = []int{0, 1}
	case "contract-stash-tx":
		post = append(post, fmt.Sprintf("log(C5.get(\"s%d\"))", k))
		s.readBack = []int{0}
	}
	s.txs = []string{wrap(pre), wrap(body), wrap(post)}
	return s
}
