package refs

import (
	"fmt"
	"math/rand/v2"
	"regexp"
	"strings"
)

// A C04 scenario: build an ownership forest, take ONE reference ρ to a target node, perform
// ONE event (usually a move), use ρ once, clean up. The model predicts the outcome of the use.

type scen struct {
	tx       bool
	setupSrc string // optional setup transaction (stores roots)
	src      string

	expectInvalid bool
	expectErr     string // "" (value expected) | invalidated | absent | mismatch
	expectVal     int

	target, deriv, holder, use, move, rel string
	bigContainer                          bool
}

type sgen struct {
	r   *rand.Rand
	tx  bool
	k   int // scenario number within the case: makes storage paths unique
	tg  *treeGen
	all []*root // every root ever declared (for unique names)

	roots  []*root
	setup  []string
	stmts  []string
	nvar   int
	target *node

	invalid bool
	move    string
	rel     string
	moved   bool // some event moved something

	incomingMayOwnTarget bool
}

func (g *sgen) fresh(p string) string {
	g.nvar++
	return fmt.Sprintf("%s%d", p, g.nvar)
}

func (g *sgen) emit(f string, a ...any) { g.stmts = append(g.stmts, fmt.Sprintf(f, a...)) }

func (g *sgen) pick(xs ...string) string { return xs[g.r.IntN(len(xs))] }

func valField(level int) string {
	if level == 0 {
		return "n"
	}
	return "id"
}

// ------------------------------------------------------------------ roots

func (g *sgen) declRoot(n *node, opt, isVar bool) *root {
	rt := &root{name: g.fresh("x"), n: n, opt: opt, isVar: isVar}
	n.root, n.parent = rt, nil
	if opt {
		n.slot = "optvar"
	} else {
		n.slot = "var"
	}
	g.roots = append(g.roots, rt)
	return rt
}

func (g *sgen) addRoot(kind string) *root {
	kw := "let"
	isVar := g.r.IntN(2) == 0
	if isVar {
		kw = "var"
	}
	switch kind {
	case "r0", "r1", "r2":
		n := g.tg.res(int(kind[1] - '0'))
		rt := g.declRoot(n, false, isVar)
		g.emit("%s %s <- %s", kw, rt.name, n.build())
		return rt
	case "arr0", "arr1":
		n := g.tg.arr(int(kind[3]-'0'), 3)
		rt := g.declRoot(n, false, isVar)
		g.emit("%s %s: @%s <- %s", kw, rt.name, n.typ(), n.build())
		return rt
	case "dict0":
		n := g.tg.dict(0, 3)
		rt := g.declRoot(n, false, isVar)
		g.emit("%s %s: @%s <- %s", kw, rt.name, n.typ(), n.build())
		return rt
	case "opt0", "opt1":
		n := g.tg.res(int(kind[3] - '0'))
		rt := g.declRoot(n, true, isVar)
		g.emit("%s %s: @%s? <- %s", kw, rt.name, n.typ(), n.build())
		return rt
	case "stored1", "stored2":
		n := g.tg.res(int(kind[6] - '0'))
		rt := &root{name: g.fresh("s"), n: n, stored: true, path: fmt.Sprintf("p%d_%d", g.k, len(g.roots))}
		n.root, n.parent, n.slot = rt, nil, "stored"
		g.roots = append(g.roots, rt)
		g.setup = append(g.setup, fmt.Sprintf("acct.storage.save(<- %s, to: /storage/%s)", n.build(), rt.path))
		g.emit("let %s = acct.storage.borrow<&%s>(from: /storage/%s)!", rt.name, n.typ(), rt.path)
		return rt
	}
	panic("unknown root kind " + kind)
}

func (g *sgen) dropRoot(rt *root) {
	for i, x := range g.roots {
		if x == rt {
			g.roots = append(g.roots[:i:i], g.roots[i+1:]...)
			return
		}
	}
}

func (g *sgen) newVarRoot(name string, n *node, opt bool) {
	rt := &root{name: name, n: n, opt: opt}
	n.root, n.parent, n.key = rt, nil, ""
	if opt {
		n.slot = "optvar"
	} else {
		n.slot = "var"
	}
	g.roots = append(g.roots, rt)
}

// ------------------------------------------------------------------ paths

// refBase renders a reference to the root's value. launder: the expression must not be
// statically trackable by the checker when bound to a variable.
func (g *sgen) refBase(rt *root, launder bool) string {
	n := rt.n
	if rt.stored {
		return rt.name
	}
	if rt.opt {
		e := fmt.Sprintf("(&%s as &%s?)!", rt.name, n.typ())
		if launder || g.r.IntN(2) == 0 {
			return fmt.Sprintf("§p%s(%s)", n.suf(), e)
		}
		return "(" + e + ")"
	}
	switch c := g.r.IntN(3); {
	case c == 0 && !launder:
		return fmt.Sprintf("(&%s as &%s)", rt.name, n.typ())
	case c == 1:
		return fmt.Sprintf("§pe%s(&%s as auth(§E) &%s)", n.suf(), rt.name, n.typ())
	default:
		return fmt.Sprintf("§p%s(&%s as &%s)", n.suf(), rt.name, n.typ())
	}
}

var pureChainRe = regexp.MustCompile(`^[A-Za-z_][A-Za-z0-9_]*(\.[A-Za-z_][A-Za-z0-9_]*|\[[^\]\[]*\])*$`)

// pureChain: the checker only allows value-indexing into a container of resources when the
// indexed expression is a chain of member / index accesses rooted in an identifier.
func pureChain(e string) bool { return pureChainRe.MatchString(e) }

// indexable makes sure prefix (a reference to container c) can be value-indexed.
func (g *sgen) indexable(prefix string, c *node) string {
	if pureChain(prefix) {
		return prefix
	}
	tv := g.fresh("tv")
	g.emit("let %s = §p%s(%s)", tv, c.suf(), prefix)
	return tv
}

// refSteps renders navigation through references along ch, starting from the reference expression base.
func (g *sgen) refSteps(base string, ch []*node) string {
	s := base
	for i := 0; i < len(ch); i++ {
		n := ch[i]
		m := g.r.IntN(3) == 0 // prefer a method step
		switch n.slot {
		case "inner":
			if m {
				s += ".innerRef()"
			} else {
				s += ".inner"
			}
		case "child":
			if m {
				s += ".childRef()"
			} else {
				s += ".child!"
			}
		case "kids":
			if m && i+1 < len(ch) {
				s += fmt.Sprintf(".kidRef(%d)", ch[i+1].index())
				i++
			} else if m {
				s += ".kidsRef()"
			} else {
				s += ".kids"
			}
		case "bag":
			if m && i+1 < len(ch) {
				s += fmt.Sprintf(".bagRef(%q)", ch[i+1].key)
				i++
			} else if m {
				s += ".bagAllRef()"
			} else {
				s += ".bag"
			}
		case "elem":
			s = g.indexable(s, n.parent) + fmt.Sprintf("[%d]", n.index())
		case "dictval":
			s = g.indexable(s, n.parent) + fmt.Sprintf("[%q]!", n.key)
		case "attach":
			s += "[§A0]!"
		default:
			panic("refSteps: slot " + n.slot)
		}
	}
	return s
}

// ownedPath renders an owned (non-reference) path expression to n, if one exists.
func ownedPath(n *node) (string, bool) {
	rt := n.rootNode().root
	if rt == nil || rt.stored || rt.opt {
		return "", false
	}
	s := rt.name
	for _, c := range chain(rt.n, n) {
		switch c.slot {
		case "inner":
			s += ".inner"
		case "kids":
			s += ".kids"
		case "bag":
			s += ".bag"
		case "elem":
			s += fmt.Sprintf("[%d]", c.index())
		default:
			return "", false
		}
	}
	return s, true
}

// refTo renders a (laundered when needed) reference expression to n.
// style: 0 = any, 1 = must start from a reference base (no owned path)
func (g *sgen) refTo(n *node, launder bool) (expr string, form string) {
	rt := n.rootNode().root
	ch := chain(rt.n, n)
	canOwned := !rt.stored && !rt.opt
	if canOwned && g.r.IntN(2) == 0 {
		// owned navigation as far as possible, then a method / reference expression
		s := rt.name
		i := 0
		for ; i < len(ch); i++ {
			c := ch[i]
			final := i == len(ch)-1
			switch c.slot {
			case "inner":
				s += ".inner"
				continue
			case "kids":
				if i+1 < len(ch) && g.r.IntN(3) == 0 {
					s += fmt.Sprintf(".kidRef(%d)", ch[i+1].index())
					return g.refSteps(s, ch[i+2:]), "owned-method"
				}
				s += ".kids"
				continue
			case "bag":
				if i+1 < len(ch) && (i+1 < len(ch)-1 || g.r.IntN(2) == 0) {
					s += fmt.Sprintf(".bagRef(%q)", ch[i+1].key)
					return g.refSteps(s, ch[i+2:]), "owned-method"
				}
				s += ".bag"
				continue
			case "elem":
				s += fmt.Sprintf("[%d]", c.index())
				continue
			case "child":
				if !final || g.r.IntN(2) == 0 {
					s += ".childRef()"
					return g.refSteps(s, ch[i+1:]), "owned-method"
				}
				return fmt.Sprintf("§p%s((&%s.child as &%s?)!)", c.suf(), s, c.typ()), "owned-amp-optional"
			case "dictval":
				e := fmt.Sprintf("§p%s((&%s[%q] as &%s?)!)", c.suf(), s, c.key, c.typ())
				return g.refSteps(e, ch[i+1:]), "owned-amp-optional"
			case "attach":
				return g.refSteps(fmt.Sprintf("§pA(%s[§A0]!)", s), ch[i+1:]), "owned-attachment-access"
			}
		}
		// whole path owned
		if n.kind == kRes && g.r.IntN(4) == 0 {
			return s + ".me()", "owned-me"
		}
		if g.r.IntN(3) == 0 {
			return fmt.Sprintf("§pe%s(&%s as auth(§E) &%s)", n.suf(), s, n.typ()), "owned-amp-entitled"
		}
		return fmt.Sprintf("§p%s(&%s as &%s)", n.suf(), s, n.typ()), "owned-amp"
	}
	base := g.refBase(rt, launder && len(ch) == 0)
	e := g.refSteps(base, ch)
	if launder && len(ch) > 0 && !strings.HasSuffix(e, ")") && g.r.IntN(2) == 0 {
		e = fmt.Sprintf("§p%s(%s)", n.suf(), e)
	}
	if rt.stored {
		return e, "via-storage-ref"
	}
	return e, "ref-path"
}

// compExpr renders an expression on which a method of composite p can be invoked.
func (g *sgen) compExpr(p *node) string {
	if s, ok := ownedPath(p); ok && g.r.IntN(3) != 0 {
		return s
	}
	rt := p.rootNode().root
	return g.refSteps(g.refBase(rt, false), chain(rt.n, p))
}

// ------------------------------------------------------------------ reference derivation

// derive emits the statements that bind ρ and returns the expression that denotes ρ at the
// use site, plus the static type suffix of ρ ("I" = &{HasId}).
func (g *sgen) derive() (rho string, deriv, holder string, typeSuf string, closureWrap bool, boundFn bool) {
	t := g.target
	rt := t.rootNode().root
	ch := chain(rt.n, t)
	suf := t.suf()
	typ := t.typ()

	var ref string
	// candidate derivations
	opts := []string{"direct", "direct", "via-var"}
	if len(ch) >= 1 {
		// optional chaining needs a composite ancestor (level >= 1 resource) strictly above
		for _, a := range append([]*node{rt.n}, ch[:len(ch)-1]...) {
			if a.kind == kRes && a.level >= 1 {
				opts = append(opts, "optchain")
				break
			}
		}
	}
	if t.slot == "elem" {
		opts = append(opts, "for-loop")
	}
	if t.kind == kRes {
		opts = append(opts, "anyres-cast", "me", "iface")
		if t.level == 0 && t.att != nil {
			opts = append(opts, "attachment-base")
		}
	}
	deriv = opts[g.r.IntN(len(opts))]
	switch deriv {
	case "direct":
		var form string
		ref, form = g.refTo(t, true)
		deriv = form
	case "via-var":
		// intermediate reference variable to an ancestor (or the root)
		anc := append([]*node{rt.n}, ch...)
		a := anc[g.r.IntN(len(anc))]
		pe, _ := g.refTo(a, true)
		pv := g.fresh("pr")
		if rt.stored && a == rt.n {
			pv = rt.name
		} else {
			g.emit("let %s = %s", pv, g.launder(a, pe))
		}
		ref = g.refSteps(pv, chain(a, t))
		if a == t {
			ref = fmt.Sprintf("§p%s(%s)", suf, pv)
		}
	case "optchain":
		var cands []*node
		for _, a := range append([]*node{rt.n}, ch[:len(ch)-1]...) {
			if a.kind == kRes && a.level >= 1 {
				cands = append(cands, a)
			}
		}
		a := cands[g.r.IntN(len(cands))]
		pe, _ := g.refTo(a, true)
		pv := g.fresh("opr")
		g.emit("let %s: &%s? = %s", pv, a.typ(), pe)
		rest := chain(a, t)
		first := rest[0]
		var fs string
		skip := 1
		m := g.r.IntN(2) == 0
		switch first.slot {
		case "inner":
			fs = g.pick(".inner", ".innerRef()")
		case "child":
			fs = g.pick(".child", ".childRef()")
		case "kids":
			if m && len(rest) > 1 {
				fs = fmt.Sprintf(".kidRef(%d)", rest[1].index())
				skip = 2
			} else {
				fs = g.pick(".kids", ".kidsRef()")
			}
		case "bag":
			if m && len(rest) > 1 {
				fs = fmt.Sprintf(".bagRef(%q)", rest[1].key)
				skip = 2
			} else {
				fs = g.pick(".bag", ".bagAllRef()")
			}
		default:
			panic("optchain first step " + first.slot)
		}
		ref = g.refSteps(fmt.Sprintf("(%s?%s)!", pv, fs), rest[skip:])
	case "for-loop":
		ae, _ := g.refTo(t.parent, true)
		keep := g.fresh("keep")
		ix := g.fresh("ix")
		g.emit("var %s: &%s? = nil", keep, typ)
		g.emit("var %s = 0", ix)
		g.emit("for e in %s { if %s == %d { %s = e }; %s = %s + 1 }", ae, ix, t.index(), keep, ix, ix)
		ref = keep + "!"
	case "anyres-cast":
		re, _ := g.refTo(t, true)
		av := g.fresh("any")
		g.emit("let %s: &AnyResource = %s", av, re)
		ref = fmt.Sprintf("(%s as! &%s)", av, typ)
	case "me":
		if s, ok := ownedPath(t); ok && g.r.IntN(2) == 0 {
			ref = s + ".me()"
		} else {
			re, _ := g.refTo(t, false)
			ref = re + ".me()"
		}
	case "iface":
		re, _ := g.refTo(t, true)
		ref = fmt.Sprintf("(%s as &{§HasId})", re)
		suf = "I"
		typ = "{§HasId}"
	case "attachment-base":
		ae, _ := g.refTo(t.att, false)
		ref = ae + ".baseRef()"
	}

	// holder
	hopts := []string{"var", "var", "struct", "array", "dict", "optional", "closure", "anystruct"}
	if t.kind == kRes || t.kind == kAtt {
		hopts = append(hopts, "bound-fn")
	}
	if suf == "I" {
		hopts = []string{"var", "array", "optional", "closure", "bound-fn"}
	}
	holder = hopts[g.r.IntN(len(hopts))]
	hv := g.fresh("h")
	switch holder {
	case "var":
		g.emit("let %s = %s", hv, ref)
		rho = hv
	case "struct":
		g.emit("let %s = §H%s(%s)", hv, suf, ref)
		rho = hv + ".ref"
	case "array":
		g.emit("let %s: [&%s] = [%s]", hv, typ, ref)
		rho = hv + "[0]"
	case "dict":
		g.emit("let %s: {String: &%s} = {\"r\": %s}", hv, typ, ref)
		rho = hv + "[\"r\"]!"
	case "optional":
		g.emit("let %s: &%s? = %s", hv, typ, ref)
		rho = hv + "!"
	case "closure":
		g.emit("let %s = %s", hv, ref)
		rho = hv
		closureWrap = true
	case "anystruct":
		g.emit("let %s: AnyStruct = %s", hv, ref)
		rho = fmt.Sprintf("(%s as! &%s)", hv, typ)
	case "bound-fn":
		g.emit("let %s = %s", hv, ref)
		rho = hv
		boundFn = true
	}
	return rho, deriv, holder, suf, closureWrap, boundFn
}

// launder makes sure a reference expression bound to a variable is not statically tracked.
func (g *sgen) launder(n *node, e string) string {
	if strings.HasSuffix(e, ")") && !strings.HasSuffix(e, "!)") && !strings.HasPrefix(e, "(&") {
		return e
	}
	return fmt.Sprintf("§p%s(%s)", n.suf(), e)
}

// ------------------------------------------------------------------ use

// useExpr renders ONE use of ρ and returns the model-predicted value (model state after the event).
func (g *sgen) useExpr(rho, suf string, boundFn bool) (expr string, val int, label string) {
	t := g.target
	if boundFn {
		// the bound function was created before the event; calling it is the use
		switch t.kind {
		case kRes, kAtt:
			return rho + "()", t.val, "bound-fn-call"
		}
	}
	if suf == "I" {
		if g.r.IntN(2) == 0 {
			return rho + ".get()", t.val, "iface-method"
		}
		return fmt.Sprintf("§useI(%s)", rho), t.val, "iface-pass"
	}
	switch t.kind {
	case kRes:
		type u struct {
			e string
			v int
			l string
		}
		us := []u{
			{rho + "." + valField(t.level), t.val, "field"},
			{rho + "." + valField(t.level), t.val, "field"},
			{rho + ".get()", t.val, "method"},
			{fmt.Sprintf("§use%d(%s)", t.level, rho), t.val, "pass"},
			{fmt.Sprintf("§useI(%s)", rho), t.val, "pass-iface"},
		}
		if t.level >= 1 {
			if t.kids != nil {
				us = append(us, u{rho + ".kids.length", len(t.kids.elems), "nested-length"})
				if len(t.kids.elems) > 0 && pureChain(rho) {
					j := g.r.IntN(len(t.kids.elems))
					us = append(us, u{fmt.Sprintf("%s.kids[%d].%s", rho, j, valField(t.level-1)), t.kids.elems[j].val, "nested-elem"})
				}
			}
			if t.child != nil {
				us = append(us, u{fmt.Sprintf("%s.child!.%s", rho, valField(t.level-1)), t.child.val, "nested-child"})
			}
			if t.bag != nil {
				us = append(us, u{rho + ".bag.length", len(t.bag.dkeys), "nested-length"})
			}
		}
		if t.level == 0 && t.att != nil {
			us = append(us, u{rho + "[§A0]!.tag", t.att.val, "attachment-access"})
		}
		x := us[g.r.IntN(len(us))]
		return x.e, x.v, x.l
	case kAtt:
		switch g.r.IntN(4) {
		case 0:
			return rho + ".tag", t.val, "field"
		case 1:
			return rho + ".get()", t.val, "method"
		case 2:
			if t.parent != nil {
				return rho + ".baseN()", t.parent.val, "attachment-base"
			}
			return rho + ".tag", t.val, "field"
		default:
			return fmt.Sprintf("§useA(%s)", rho), t.val, "pass"
		}
	case kArr:
		if len(t.elems) > 0 && pureChain(rho) && g.r.IntN(2) == 0 {
			j := g.r.IntN(len(t.elems))
			return fmt.Sprintf("%s[%d].%s", rho, j, valField(t.level)), t.elems[j].val, "index"
		}
		if g.r.IntN(2) == 0 {
			return fmt.Sprintf("§use%s(%s)", t.suf(), rho), len(t.elems), "pass"
		}
		return rho + ".length", len(t.elems), "length"
	default:
		if len(t.dkeys) > 0 && pureChain(rho) && g.r.IntN(2) == 0 {
			k := t.dkeys[g.r.IntN(len(t.dkeys))]
			return fmt.Sprintf("%s[%q]!.%s", rho, k, valField(t.level)), t.dvals[k].val, "index"
		}
		switch g.r.IntN(3) {
		case 0:
			return fmt.Sprintf("§use%s(%s)", t.suf(), rho), len(t.dkeys), "pass"
		case 1:
			return rho + ".keys.length", len(t.dkeys), "keys"
		}
		return rho + ".length", len(t.dkeys), "length"
	}
}

// ------------------------------------------------------------------ scenario assembly

var rootKindsScript = []string{"r0", "r1", "r1", "r2", "r2", "r2", "r2", "arr0", "arr0", "arr1", "dict0", "dict0", "dict0", "opt0", "opt1"}
var rootKindsTx = []string{"r0", "r1", "r2", "r2", "arr0", "dict0", "opt1", "stored1", "stored1", "stored2", "stored2"}

func genScenario(r *rand.Rand, tx bool, k int, allowBrokenSwap bool) *scen {
	for attempt := 0; ; attempt++ {
		g := &sgen{r: r, tx: tx, k: k}
		g.tg = &treeGen{r: r, nextVal: 1000 + r.IntN(500), allowBig: true}
		kinds := rootKindsScript
		if tx {
			kinds = rootKindsTx
		}
		nroots := 1 + r.IntN(2)
		if r.IntN(4) == 0 {
			nroots++
		}
		// choose the container kind of the target first (uniform over kinds); the first root is of a
		// kind that can contain such a target
		wantTarget := c04TargetKinds[r.IntN(len(c04TargetKinds))]
		firstKinds := map[string][]string{
			"var": {"r0", "r1", "r2"}, "optvar": {"opt0", "opt1"}, "inner": {"r2", "r2", "stored2"}, "child": {"r1", "r2", "stored1"},
			"elem": {"arr0", "arr1", "r1", "r2", "stored1"}, "dictval": {"dict0", "r1", "r2", "stored2"}, "attach": {"r0", "arr0", "dict0", "r1", "opt0"},
			"arrfield": {"r1", "r2", "stored1"}, "dictfield": {"r1", "r2", "stored2"}, "arrvar": {"arr0", "arr1"}, "dictvar": {"dict0"},
		}[wantTarget]
		for i := 0; i < nroots; i++ {
			kind := kinds[r.IntN(len(kinds))]
			if i == 0 {
				kind = firstKinds[r.IntN(len(firstKinds))]
				if !tx && strings.HasPrefix(kind, "stored") {
					kind = "r" + kind[6:]
				}
				if tx && (kind == "arr1" || kind == "opt0") {
					kind = map[string]string{"arr1": "arr0", "opt0": "opt1"}[kind]
				}
			}
			rt := g.addRoot(kind)
			// a twin of the same kind enables variable swaps
			if !rt.stored && r.IntN(3) == 0 {
				g.addTwin(rt)
			}
		}
		// candidate targets grouped by slot kind
		groups := map[string][]*node{}
		var order []string
		for _, rt := range g.roots {
			rt.n.walk(func(n *node) {
				if n.slot == "stored" {
					return // the storage reference itself is covered by the storage-reference family
				}
				sk := n.slotKind()
				if _, ok := groups[sk]; !ok {
					order = append(order, sk)
				}
				groups[sk] = append(groups[sk], n)
			})
		}
		if len(order) == 0 {
			continue
		}
		sk := order[r.IntN(len(order))]
		if len(groups[wantTarget]) > 0 {
			sk = wantTarget
		}
		g.target = groups[sk][r.IntN(len(groups[sk]))]
		s := g.finish(allowBrokenSwap)
		if s != nil {
			return s
		}
	}
}

func (g *sgen) addTwin(rt *root) {
	n := rt.n
	var kind string
	switch {
	case n.kind == kRes && !rt.opt:
		kind = fmt.Sprintf("r%d", n.level)
	case n.kind == kArr:
		kind = fmt.Sprintf("arr%d", n.level)
	case n.kind == kDict:
		kind = "dict0"
	default:
		return
	}
	g.addRoot(kind)
}

func (g *sgen) finish(allowBrokenSwap bool) *scen {
	t := g.target
	s := &scen{tx: g.tx, target: t.slotKind()}
	rho, deriv, holder, suf, closureWrap, boundFn := g.derive()
	s.deriv, s.holder = deriv, holder
	t.rootNode().walk(func(n *node) {
		if n.big && isAncestorOrSelf(n, t) || (n.big && isAncestorOrSelf(t, n)) {
			s.bigContainer = true
		}
	})

	var fvar string
	preUse := len(g.stmts)
	if boundFn {
		fvar = g.fresh("f")
		g.emit("let %s = %s.get", fvar, rho)
	}
	closureAt := len(g.stmts)

	g.event(allowBrokenSwap)

	var ue string
	var uv int
	var ul string
	if boundFn {
		ue, uv, ul = g.useExpr(fvar, suf, true)
	} else {
		ue, uv, ul = g.useExpr(rho, suf, false)
	}
	if closureWrap {
		// the closure is declared before the event, the use expression inside was chosen from the
		// post-event model state; the closure body runs after the event
		cf := g.fresh("cf")
		decl := fmt.Sprintf("let %s = fun (): Int { return %s }", cf, ue)
		g.stmts = append(g.stmts[:closureAt:closureAt], append([]string{decl}, g.stmts[closureAt:]...)...)
		ue = cf + "()"
	}
	_ = preUse
	s.use = ul
	s.move, s.rel = g.move, g.rel
	s.expectInvalid = g.invalid
	if g.invalid {
		s.expectErr = "invalidated"
	}
	s.expectVal = uv

	g.emit("log(\"U\")")
	g.emit("let result: Int = %s", ue)
	g.emit("log(result)")
	for _, rt := range g.roots {
		if !rt.stored {
			g.emit("destroy %s", rt.name)
		}
	}
	g.emit("log(\"D\")")

	body := "        " + strings.Join(g.stmts, "\n        ")
	if g.tx {
		s.src = px("import C0 from 0x1\ntransaction {\n    prepare(acct: auth(Storage, Capabilities) &Account) {\n"+body+"\n    }\n}\n", true)
		if len(g.setup) > 0 {
			s.setupSrc = px("import C0 from 0x1\ntransaction {\n    prepare(acct: auth(Storage) &Account) {\n        "+strings.Join(g.setup, "\n        ")+"\n    }\n}\n", true)
		}
	} else {
		s.src = px("import C0 from 0x1\naccess(all) fun main(): Int {\n"+body+"\n        return result\n}\n", true)
	}
	return s
}
