package refs

import (
	"fmt"
	"strings"
)

// Events: one per scenario. Every event updates the model and decides whether it moved the
// target of ρ or one of its ancestors (g.invalid).

func (g *sgen) noteMoved(m *node) {
	g.moved = true
	if isAncestorOrSelf(m, g.target) {
		g.invalid = true
	}
}

func (g *sgen) relation(m *node) string {
	t := g.target
	switch {
	case m == t:
		return "self"
	case isAncestorOrSelf(m, t):
		return "nested-in-moved"
	case isAncestorOrSelf(t, m):
		return "moved-descendant"
	case m.rootNode() == t.rootNode():
		return "sibling"
	}
	return "unrelated"
}

// candidate moved nodes
func (g *sgen) takeable(n *node) bool {
	switch n.slot {
	case "attach":
		return false
	case "var", "optvar", "stored", "inner", "child", "elem", "dictval", "kids", "bag":
		return true
	}
	return false
}

func (g *sgen) event(allowBrokenSwap bool) {
	t := g.target
	wantInvalid := g.r.IntN(2) == 0
	// an event that leaves the target's owners in place may still invalidate ρ by moving the
	// target's root INTO the forest as the second operand of a swap / second-value assignment
	g.incomingMayOwnTarget = !wantInvalid && g.r.IntN(3) == 0
	var cands []*node
	for _, rt := range g.roots {
		rt.n.walk(func(n *node) {
			if !g.takeable(n) {
				return
			}
			if isAncestorOrSelf(n, t) == wantInvalid {
				cands = append(cands, n)
			}
		})
	}
	// special events
	sp := g.r.IntN(9)
	switch {
	case sp == 0 && g.trySwapVars(wantInvalid):
		return
	case sp == 1 && g.trySwapElems(wantInvalid):
		return
	case sp == 2 && g.tryRemoveAttachment(wantInvalid):
		return
	case sp == 3 && wantInvalid && g.tryIncomingTarget():
		return
	}
	if !wantInvalid && (len(cands) == 0 || g.r.IntN(5) == 0) {
		g.noise()
		return
	}
	if len(cands) == 0 {
		// the target cannot be invalidated by a take: any node
		for _, rt := range g.roots {
			rt.n.walk(func(n *node) {
				if g.takeable(n) {
					cands = append(cands, n)
				}
			})
		}
	}
	moves := append([]string{}, c04CoreMoves...)
	if g.tx {
		moves = append(moves, "storage-save", "storage-save")
	}
	// choose the move kind first (uniform over kinds), then a compatible node
	for try := 0; try < 12; try++ {
		want := moves[g.r.IntN(len(moves))]
		var cs []*node
		for _, n := range cands {
			if compatible(want, n, allowBrokenSwap) {
				cs = append(cs, n)
			}
		}
		if len(cs) == 0 {
			continue
		}
		m := cs[g.r.IntN(len(cs))]
		g.rel = g.relation(m)
		g.moveOut(m, allowBrokenSwap, want)
		return
	}
	g.noise()
}

// ------------------------------------------------------------------ incoming values

// incoming yields an expression for a value of resource level `level` to be moved INTO the tree,
// either fresh or an existing root variable (whose references are then invalidated).
func (g *sgen) incoming(level int, avoid *node) (expr string, n *node) {
	if g.r.IntN(2) == 0 {
		var cs []*root
		for _, rt := range g.roots {
			if rt.stored || rt.opt || rt.n.kind != kRes || rt.n.level != level {
				continue
			}
			if isAncestorOrSelf(rt.n, avoid) {
				continue
			}
			if isAncestorOrSelf(rt.n, g.target) && !g.incomingMayOwnTarget {
				continue
			}
			cs = append(cs, rt)
		}
		if len(cs) > 0 {
			rt := cs[g.r.IntN(len(cs))]
			for _, c := range cs {
				// prefer the root that owns the target of ρ
				if isAncestorOrSelf(c.n, g.target) {
					rt = c
				}
			}
			g.noteMoved(rt.n)
			if isAncestorOrSelf(rt.n, g.target) {
				g.rel = "incoming-" + g.relation(rt.n)
			}
			g.dropRoot(rt)
			rt.n.root = nil
			return rt.name, rt.n
		}
	}
	small := &treeGen{r: g.r, nextVal: g.tg.nextVal}
	n = small.res(level)
	g.tg.nextVal = small.nextVal
	return n.build(), n
}

func (g *sgen) incomingContainer(proto *node) (string, *node) {
	small := &treeGen{r: g.r, nextVal: g.tg.nextVal}
	var n *node
	if proto.kind == kArr {
		n = small.arr(proto.level, 2)
	} else {
		n = small.dict(proto.level, 2)
	}
	g.tg.nextVal = small.nextVal
	return n.build(), n
}

// ------------------------------------------------------------------ take + destination

// takeForms lists the take forms available for a node: plain (a removal that leaves the slot
// empty), second-value (`let old <- slot <- new`), swap (`slot <-> t`), swap-broken (swap with an
// element of a FIELD container, see the swap-field-elem finding).
func takeForms(n *node, allowBrokenSwap bool) []string {
	switch n.slot {
	case "var", "optvar", "stored":
		return []string{"plain"}
	case "inner", "kids", "bag":
		return []string{"second-value", "swap"}
	case "child":
		return []string{"plain", "second-value", "swap"}
	case "elem", "dictval":
		if n.parent.slot == "kids" || n.parent.slot == "bag" {
			if allowBrokenSwap {
				return []string{"plain", "second-value", "swap-broken"}
			}
			return []string{"plain", "second-value"}
		}
		return []string{"plain", "second-value", "swap"}
	}
	return nil
}

func hasForm(fs []string, f string) bool {
	for _, x := range fs {
		if x == f {
			return true
		}
	}
	return false
}

// compatible: can node n be moved by move kind `want`?
func compatible(want string, n *node, allowBrokenSwap bool) bool {
	fs := takeForms(n, allowBrokenSwap)
	switch want {
	case "second-value":
		return hasForm(fs, "second-value")
	case "swap":
		return hasForm(fs, "swap") || hasForm(fs, "swap-broken")
	case "reinsert":
		return hasForm(fs, "plain") && (n.slot == "child" || n.slot == "elem" || n.slot == "dictval")
	case "to-field":
		return hasForm(fs, "plain") && !(n.kind == kRes && n.level == 2)
	}
	return hasForm(fs, "plain")
}

func (g *sgen) moveOut(m *node, allowBrokenSwap bool, want string) {
	g.noteMoved(m)
	var expr string // expression yielding the owned value
	special := ""   // move-kind label forced by the take form
	plainSlot := "" // for re-insertion: the slot the value was taken from
	var reP *node   // parent composite / container for re-insertion
	reIdx, reKey := 0, ""

	form := "plain"
	switch want {
	case "second-value":
		form = "second-value"
	case "swap":
		form = "swap"
		if !hasForm(takeForms(m, allowBrokenSwap), "swap") {
			form = "swap-broken"
		}
	}

	switch m.slot {
	case "var":
		rt := m.root
		expr = rt.name
		g.dropRoot(rt)
		m.root = nil
	case "optvar":
		rt := m.root
		expr = rt.name + "!"
		g.dropRoot(rt)
		m.root = nil
	case "stored":
		rt := m.root
		expr = fmt.Sprintf("acct.storage.load<@%s>(from: /storage/%s)!", m.typ(), rt.path)
		special = "storage-load"
		g.dropRoot(rt)
		m.root = nil
	case "inner":
		p := m.parent
		comp := g.compExpr(p)
		inc, in := g.incoming(1, p)
		detach(m)
		attachField(p, "inner", in)
		if form == "second-value" {
			expr = fmt.Sprintf("%s.replaceInner(<- %s)", comp, inc)
			special = "second-value"
		} else {
			expr = fmt.Sprintf("%s.swapInner(<- %s)", comp, inc)
			special = "swap"
		}
	case "child":
		p := m.parent
		comp := g.compExpr(p)
		switch form {
		case "second-value":
			inc, in := g.incoming(m.level, p)
			detach(m)
			attachField(p, "child", in)
			expr = fmt.Sprintf("%s.replaceChild(<- %s)", comp, inc)
			special = "second-value"
		case "swap":
			inc, in := g.incoming(m.level, p)
			detach(m)
			attachField(p, "child", in)
			expr = fmt.Sprintf("%s.swapChild(<- %s)", comp, inc)
			special = "swap"
		default:
			detach(m)
			expr = comp + ".takeChild()"
			plainSlot, reP = "child", p
		}
	case "elem":
		a := m.parent
		i := m.index()
		if a.slot == "kids" {
			p := a.parent
			comp := g.compExpr(p)
			switch form {
			case "second-value":
				inc, in := g.incoming(m.level, p)
				detach(m)
				attachElem(a, i, in)
				expr = fmt.Sprintf("%s.replaceKid(%d, <- %s)", comp, i, inc)
				special = "second-value"
			case "swap-broken":
				inc, in := g.incoming(m.level, p)
				detach(m)
				attachElem(a, i, in)
				expr = fmt.Sprintf("%s.swapKid(%d, <- %s)", comp, i, inc)
				special = "swap-field-elem"
			default:
				if op, ok := ownedPath(a); ok && g.r.IntN(2) == 0 {
					n := len(a.elems)
					detach(m)
					switch {
					case i == 0 && g.r.IntN(2) == 0:
						expr = op + ".removeFirst()"
					case i == n-1 && g.r.IntN(2) == 0:
						expr = op + ".removeLast()"
					default:
						expr = fmt.Sprintf("%s.remove(at: %d)", op, i)
					}
					plainSlot, reP, reIdx = "elem-owned", a, i
				} else {
					detach(m)
					expr = fmt.Sprintf("%s.takeKid(%d)", comp, i)
					plainSlot, reP, reIdx = "elem", p, i
				}
			}
		} else {
			// array held directly by a variable
			name := a.root.name
			switch form {
			case "second-value":
				inc, in := g.incoming(m.level, a)
				old := g.fresh("old")
				detach(m)
				attachElem(a, i, in)
				g.emit("let %s <- %s[%d] <- %s", old, name, i, inc)
				expr = old
				special = "second-value"
			case "swap":
				inc, in := g.incoming(m.level, a)
				tv := g.fresh("t")
				detach(m)
				attachElem(a, i, in)
				g.emit("var %s <- %s", tv, inc)
				g.emit("%s[%d] <-> %s", name, i, tv)
				expr = tv
				special = "swap"
			default:
				detach(m)
				expr = fmt.Sprintf("%s.remove(at: %d)", name, i)
				plainSlot, reP, reIdx = "elem-owned", a, i
			}
		}
	case "dictval":
		d := m.parent
		k := m.key
		if d.slot == "bag" {
			p := d.parent
			comp := g.compExpr(p)
			switch form {
			case "second-value":
				inc, in := g.incoming(m.level, p)
				detach(m)
				attachDict(d, k, in)
				expr = fmt.Sprintf("%s.replaceBag(%q, <- %s)", comp, k, inc)
				special = "second-value"
			case "swap-broken":
				inc, in := g.incoming(m.level, p)
				detach(m)
				attachDict(d, k, in)
				expr = fmt.Sprintf("%s.swapBag(%q, <- %s)", comp, k, inc)
				special = "swap-field-elem"
			default:
				if op, ok := ownedPath(d); ok && g.r.IntN(2) == 0 {
					detach(m)
					expr = fmt.Sprintf("%s.remove(key: %q)!", op, k)
					plainSlot, reP, reKey = "dictval-owned", d, k
				} else {
					detach(m)
					expr = fmt.Sprintf("%s.takeBag(%q)", comp, k)
					plainSlot, reP, reKey = "dictval", p, k
				}
			}
		} else {
			name := d.root.name
			switch form {
			case "second-value":
				inc, in := g.incoming(m.level, d)
				old := g.fresh("old")
				detach(m)
				attachDict(d, k, in)
				g.emit("let %s <- %s[%q] <- %s", old, name, k, inc)
				expr = old + "!"
				special = "second-value"
			case "swap":
				inc, in := g.incoming(m.level, d)
				tv := g.fresh("t")
				detach(m)
				attachDict(d, k, in)
				g.emit("var %s: @%s? <- %s", tv, m.typ(), inc)
				g.emit("%s[%q] <-> %s", name, k, tv)
				expr = tv + "!"
				special = "swap"
			default:
				detach(m)
				expr = fmt.Sprintf("%s.remove(key: %q)!", name, k)
				plainSlot, reP, reKey = "dictval-owned", d, k
			}
		}
	case "kids", "bag":
		p := m.parent
		comp := g.compExpr(p)
		slot := m.slot
		inc, in := g.incomingContainer(m)
		detach(m)
		attachField(p, slot, in)
		meth := map[string][2]string{"kids": {"replaceKids", "swapKids"}, "bag": {"replaceBagAll", "swapBagAll"}}[slot]
		if form == "second-value" {
			expr = fmt.Sprintf("%s.%s(<- %s)", comp, meth[0], inc)
			special = "second-value"
		} else {
			expr = fmt.Sprintf("%s.%s(<- %s)", comp, meth[1], inc)
			special = "swap"
		}
	default:
		panic("moveOut: slot " + m.slot)
	}

	// ---------------- destination
	suf := m.suf()
	dest := want
	if special != "" && special != "storage-load" {
		// the take form is the move kind; keep the moved-out value in a variable or drop it
		dest = g.pick("to-var", "destroy", "fn-destroy")
		g.move = special
	} else {
		g.move = dest
		if special == "storage-load" {
			g.move = "storage-load/" + dest
		}
	}
	_ = plainSlot

	switch dest {
	case "to-var":
		v := g.fresh("m")
		switch {
		case m.kind == kRes && m.level == 0 && m.att == nil && g.r.IntN(3) == 0:
			// attaching moves the base resource
			tag := g.tg.val()
			m.att = &node{kind: kAtt, val: tag, parent: m, slot: "attach"}
			g.emit("let %s <- attach §A0(%d) to <- %s", v, tag, expr)
		case m.kind == kRes && m.level <= 1 && g.r.IntN(4) == 0:
			// moved into a freshly constructed owner, which is then taken apart again
			w := g.fresh("w")
			if m.level == 0 {
				g.emit("let %s <- §mk1(%d, child: <- %s, kids: <- [], bag: <- {})", w, g.tg.val(), expr)
			} else {
				g.emit("let %s <- §mk2(%d, inner: <- %s, child: nil, kids: <- [], bag: <- {})", w, g.tg.val(), expr)
			}
			if m.level == 0 {
				g.emit("let %s <- %s.takeChild()", v, w)
			} else {
				g.emit("let %s <- %s.replaceInner(<- §mk1(%d, child: nil, kids: <- [], bag: <- {}))", v, w, g.tg.val())
			}
			g.emit("destroy %s", w)
		default:
			g.emit("let %s <- %s", v, expr)
		}
		g.newVarRoot(v, m, false)
	case "to-optional":
		v := g.fresh("m")
		g.emit("let %s: @%s? <- %s", v, m.typ(), expr)
		g.newVarRoot(v, m, true)
	case "to-array":
		v := g.fresh("m")
		g.emit("let %s: @[%s] <- [<- %s]", v, m.typ(), expr)
		a := &node{kind: kArr, level: m.level}
		attachElem(a, 0, m)
		g.newVarRoot(v, a, false)
	case "to-dict":
		v := g.fresh("m")
		g.emit("let %s: @{String: %s} <- {\"m\": <- %s}", v, m.typ(), expr)
		d := &node{kind: kDict, level: m.level, dvals: map[string]*node{}}
		attachDict(d, "m", m)
		g.newVarRoot(v, d, false)
	case "fn-keep":
		v := g.fresh("m")
		g.emit("let %s <- §keep%s(<- %s)", v, suf, expr)
		g.newVarRoot(v, m, false)
	case "fn-destroy":
		if strings.HasSuffix(expr, "!") && pureChain(strings.TrimSuffix(expr, "!")) && !strings.Contains(expr, ".") && g.r.IntN(2) == 0 {
			// optional binding moves the payload of an optional variable
			y := g.fresh("y")
			g.emit("if let %s <- %s { §sink%s(<- %s) } else { panic(\"nil\") }", y, strings.TrimSuffix(expr, "!"), suf, y)
		} else {
			g.emit("§sink%s(<- %s)", suf, expr)
		}
	case "destroy":
		if strings.HasSuffix(expr, "!") && pureChain(strings.TrimSuffix(expr, "!")) && !strings.Contains(expr, ".") && g.r.IntN(2) == 0 {
			y := g.fresh("y")
			g.emit("if let %s <- %s { destroy %s } else { panic(\"nil\") }", y, strings.TrimSuffix(expr, "!"), y)
		} else {
			g.emit("destroy %s", expr)
		}
	case "storage-save":
		g.emit("acct.storage.save(<- %s, to: /storage/d%d)", expr, g.k)
	case "reinsert":
		tmp := g.fresh("tmp")
		g.emit("let %s <- %s", tmp, expr)
		switch plainSlot {
		case "child":
			g.emit("%s.putChild(<- %s)", g.compExpr(reP), tmp)
			attachField(reP, "child", m)
		case "elem":
			g.emit("%s.putKid(%d, <- %s)", g.compExpr(reP), reIdx, tmp)
			attachElem(reP.kids, reIdx, m)
		case "elem-owned":
			op, _ := ownedPath(reP)
			g.emit("%s.insert(at: %d, <- %s)", op, reIdx, tmp)
			attachElem(reP, reIdx, m)
		case "dictval":
			g.emit("%s.putBag(%q, <- %s)", g.compExpr(reP), reKey, tmp)
			attachDict(reP.bag, reKey, m)
		case "dictval-owned":
			op, _ := ownedPath(reP)
			old := g.fresh("old")
			g.emit("let %s <- %s.insert(key: %q, <- %s)", old, op, reKey, tmp)
			g.emit("destroy %s", old)
			attachDict(reP, reKey, m)
		}
	case "to-field":
		g.toField(m, expr)
	}
}

// toField moves the value into a slot of another composite of the forest (or a fresh holder).
func (g *sgen) toField(m *node, expr string) {
	wantLevel := m.level + 1
	var qs []*node
	for _, rt := range g.roots {
		rt.n.walk(func(n *node) {
			if n.kind == kRes && n.level == wantLevel {
				qs = append(qs, n)
			}
		})
	}
	var q *node
	if len(qs) > 0 && g.r.IntN(4) != 0 {
		q = qs[g.r.IntN(len(qs))]
	} else {
		// fresh holder declared just before the move (it is a new root)
		small := &treeGen{r: g.r, nextVal: g.tg.nextVal}
		q = small.res(wantLevel)
		g.tg.nextVal = small.nextVal
		hv := g.fresh("hold")
		// declare before the statements of this event: it does not touch the forest
		g.emit("let %s <- %s", hv, q.build())
		// move the declaration in front of possible pre-statements is unnecessary: expr is evaluated later
		g.newVarRoot(hv, q, false)
	}
	comp := g.compExpr(q)
	if m.kind == kArr {
		old := g.fresh("m")
		was := q.kids
		detach(was)
		attachField(q, "kids", m)
		g.noteMoved(was)
		g.emit("let %s <- %s.replaceKids(<- %s)", old, comp, expr)
		g.newVarRoot(old, was, false)
		return
	}
	if m.kind == kDict {
		old := g.fresh("m")
		was := q.bag
		detach(was)
		attachField(q, "bag", m)
		g.noteMoved(was)
		g.emit("let %s <- %s.replaceBagAll(<- %s)", old, comp, expr)
		g.newVarRoot(old, was, false)
		return
	}
	switch c := g.r.IntN(3); {
	case c == 0 && q.child == nil:
		g.emit("%s.putChild(<- %s)", comp, expr)
		attachField(q, "child", m)
	case c == 1:
		key := g.fresh("z")
		g.emit("%s.putBag(%q, <- %s)", comp, key, expr)
		attachDict(q.bag, key, m)
	default:
		i := g.r.IntN(len(q.kids.elems) + 1)
		g.emit("%s.putKid(%d, <- %s)", comp, i, expr)
		attachElem(q.kids, i, m)
	}
}

// ------------------------------------------------------------------ special events

func (g *sgen) trySwapVars(wantInvalid bool) bool {
	for i, a := range g.roots {
		for _, b := range g.roots[i+1:] {
			if a.stored || b.stored || a.opt || b.opt || !a.isVar || !b.isVar {
				continue
			}
			if a.n.kind != b.n.kind || a.n.level != b.n.level {
				continue
			}
			hit := isAncestorOrSelf(a.n, g.target) || isAncestorOrSelf(b.n, g.target)
			if hit != wantInvalid {
				continue
			}
			g.rel = "unrelated"
			if isAncestorOrSelf(a.n, g.target) {
				g.rel = g.relation(a.n)
			} else if isAncestorOrSelf(b.n, g.target) {
				g.rel = g.relation(b.n)
			}
			g.noteMoved(a.n)
			g.noteMoved(b.n)
			g.emit("%s <-> %s", a.name, b.name)
			a.n, b.n = b.n, a.n
			a.n.root, b.n.root = a, b
			g.move = "swap-vars"
			return true
		}
	}
	return false
}

func (g *sgen) trySwapElems(wantInvalid bool) bool {
	for _, rt := range g.roots {
		if rt.stored || rt.opt || rt.n.kind != kArr || len(rt.n.elems) < 2 {
			continue
		}
		a := rt.n
		i := g.r.IntN(len(a.elems))
		j := (i + 1 + g.r.IntN(len(a.elems)-1)) % len(a.elems)
		hit := isAncestorOrSelf(a.elems[i], g.target) || isAncestorOrSelf(a.elems[j], g.target)
		if hit != wantInvalid {
			continue
		}
		g.rel = g.relation(a.elems[i])
		if isAncestorOrSelf(a.elems[j], g.target) {
			g.rel = g.relation(a.elems[j])
		}
		g.noteMoved(a.elems[i])
		g.noteMoved(a.elems[j])
		g.emit("%s[%d] <-> %s[%d]", rt.name, i, rt.name, j)
		a.elems[i], a.elems[j] = a.elems[j], a.elems[i]
		g.move = "swap-local-elems"
		return true
	}
	return false
}

// tryIncomingTarget: the root variable that owns the target is moved INTO another composite as
// the incoming operand of a second-value assignment or a swap.
func (g *sgen) tryIncomingTarget() bool {
	rt := g.target.rootNode().root
	if rt == nil || rt.stored || rt.opt || rt.n.kind != kRes || rt.n.level > 1 {
		return false
	}
	in := rt.n
	small := &treeGen{r: g.r, nextVal: g.tg.nextVal}
	q := small.res(in.level + 1)
	if q.child == nil {
		q.child = small.res(in.level)
		q.child.parent, q.child.slot = q, "child"
	}
	g.tg.nextVal = small.nextVal
	hv := g.fresh("hold")
	g.emit("let %s <- %s", hv, q.build())
	g.newVarRoot(hv, q, false)
	g.rel = "incoming-" + g.relation(in)
	g.noteMoved(in)
	g.dropRoot(rt)
	in.root = nil
	comp := g.compExpr(q)
	var expr string
	var old *node
	c := g.r.IntN(3)
	switch {
	case c == 0 && len(q.kids.elems) > 0:
		i := g.r.IntN(len(q.kids.elems))
		old = q.kids.elems[i]
		detach(old)
		attachElem(q.kids, i, in)
		expr = fmt.Sprintf("%s.replaceKid(%d, <- %s)", comp, i, rt.name)
		g.move = "second-value"
	case c == 1 && len(q.bag.dkeys) > 0:
		k := q.bag.dkeys[g.r.IntN(len(q.bag.dkeys))]
		old = q.bag.dvals[k]
		detach(old)
		attachDict(q.bag, k, in)
		expr = fmt.Sprintf("%s.replaceBag(%q, <- %s)", comp, k, rt.name)
		g.move = "second-value"
	default:
		old = q.child
		detach(old)
		attachField(q, "child", in)
		if g.r.IntN(2) == 0 {
			expr = fmt.Sprintf("%s.replaceChild(<- %s)", comp, rt.name)
			g.move = "second-value"
		} else {
			expr = fmt.Sprintf("%s.swapChild(<- %s)", comp, rt.name)
			g.move = "swap"
		}
	}
	if g.r.IntN(2) == 0 {
		v := g.fresh("m")
		g.emit("let %s <- %s", v, expr)
		g.newVarRoot(v, old, false)
	} else {
		g.emit("destroy %s", expr)
	}
	return true
}

func (g *sgen) tryRemoveAttachment(wantInvalid bool) bool {
	for _, rt := range g.roots {
		if rt.stored || rt.opt || rt.n.kind != kRes || rt.n.level != 0 || rt.n.att == nil {
			continue
		}
		att := rt.n.att
		hit := g.target == att
		if hit != wantInvalid {
			continue
		}
		g.rel = g.relation(att)
		g.noteMoved(att)
		g.emit("remove §A0 from %s", rt.name)
		detach(att)
		g.move = "remove-attachment"
		return true
	}
	return false
}

// noise: an event that moves nothing (ρ must stay usable and observe the current state).
func (g *sgen) noise() {
	t := g.target
	g.rel = "none"
	switch g.r.IntN(3) {
	case 0:
		// mutate the value read through ρ
		var c *node
		switch t.kind {
		case kRes:
			c = t
		case kAtt:
			c = nil
		default:
			c = nil
		}
		if c != nil {
			if s, ok := ownedPath(c); ok || true {
				nv := g.tg.val()
				if ok && g.r.IntN(2) == 0 {
					g.emit("%s.set(%d)", s, nv)
				} else {
					g.emit("%s.set(%d)", g.compExpr(c), nv)
				}
				c.val = nv
				g.move = "noise-set"
				return
			}
		}
		fallthrough
	case 1:
		// insert a fresh element in front of the target (shifts array positions)
		if t.slot == "elem" && t.parent.slot == "kids" {
			a := t.parent
			small := &treeGen{r: g.r, nextVal: g.tg.nextVal}
			in := small.res(t.level)
			g.tg.nextVal = small.nextVal
			g.emit("%s.putKid(0, <- %s)", g.compExpr(a.parent), in.build())
			attachElem(a, 0, in)
			g.move = "noise-insert-before"
			return
		}
		fallthrough
	default:
		// take another reference to the same target and use it
		e, _ := g.refTo(t, false)
		g.emit("let %s = %s", g.fresh("other"), g.launder(t, e))
		g.move = "noise-second-reference"
	}
}
