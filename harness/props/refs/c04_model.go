package refs

import (
	"fmt"
	"strconv"
	"strings"
)

// Ownership-tree model of a C04 scenario. Every resource-kinded value that can be the
// target of a reference is a node: resources R0/R1/R2, the attachment A0, and the array /
// dictionary containers themselves. Optionals have no identity (a reference to an optional
// resource is a reference to its payload) and are recorded as the slot kind of the payload.

type nk int

const (
	kRes nk = iota
	kAtt
	kArr
	kDict
)

type node struct {
	kind   nk
	level  int // kRes: 0..2 ; kArr/kDict: level of the elements
	val    int // n / id / tag
	parent *node
	slot   string // var optvar stored inner child kids bag elem dictval attach
	key    string // dictionary key when slot == dictval

	inner, child, kids, bag, att *node // kRes
	elems                        []*node
	dkeys                        []string
	dvals                        map[string]*node

	root *root
	big  bool // container built by mkKids / mkBag
}

type root struct {
	name   string
	n      *node
	opt    bool // variable of optional type
	stored bool // lives at /storage/<path>, reached through the storage reference variable `name`
	path   string
	isVar  bool
}

func (n *node) suf() string {
	switch n.kind {
	case kRes:
		return strconv.Itoa(n.level)
	case kAtt:
		return "A"
	case kArr:
		return "K" + strconv.Itoa(n.level)
	default:
		return "B" + strconv.Itoa(n.level)
	}
}

func typOfSuf(s string) string {
	switch s {
	case "0", "1", "2":
		return "§R" + s
	case "A":
		return "§A0"
	case "K0", "K1":
		return "[§R" + s[1:] + "]"
	default:
		return "{String: §R" + s[1:] + "}"
	}
}

func (n *node) typ() string { return typOfSuf(n.suf()) }

func (n *node) children() []*node {
	var out []*node
	switch n.kind {
	case kRes:
		for _, c := range []*node{n.inner, n.child, n.kids, n.bag, n.att} {
			if c != nil {
				out = append(out, c)
			}
		}
	case kArr:
		out = append(out, n.elems...)
	case kDict:
		for _, k := range n.dkeys {
			out = append(out, n.dvals[k])
		}
	}
	return out
}

func (n *node) walk(f func(*node)) {
	f(n)
	for _, c := range n.children() {
		c.walk(f)
	}
}

func isAncestorOrSelf(a, n *node) bool {
	for x := n; x != nil; x = x.parent {
		if x == a {
			return true
		}
	}
	return false
}

func (n *node) rootNode() *node {
	x := n
	for x.parent != nil {
		x = x.parent
	}
	return x
}

func (n *node) index() int {
	for i, e := range n.parent.elems {
		if e == n {
			return i
		}
	}
	panic("node not in parent array")
}

// slotKind is the container-kind label of a target (how the value is held).
func (n *node) slotKind() string {
	switch n.kind {
	case kArr:
		if n.slot == "kids" {
			return "arrfield"
		}
		return "arr" + n.slot
	case kDict:
		if n.slot == "bag" {
			return "dictfield"
		}
		return "dict" + n.slot
	}
	return n.slot
}

// chain returns the nodes from a (exclusive) down to n (inclusive).
func chain(a, n *node) []*node {
	var rev []*node
	for x := n; x != a; x = x.parent {
		if x == nil {
			panic("chain: not an ancestor")
		}
		rev = append(rev, x)
	}
	out := make([]*node, len(rev))
	for i := range rev {
		out[len(rev)-1-i] = rev[i]
	}
	return out
}

// ------------------------------------------------------------------ construction text

func (n *node) build() string {
	switch n.kind {
	case kRes:
		switch n.level {
		case 0:
			if n.att != nil {
				return fmt.Sprintf("§mk0a(%d, %d)", n.val, n.att.val)
			}
			return fmt.Sprintf("§mk0(%d)", n.val)
		case 1:
			return fmt.Sprintf("§mk1(%d, child: %s, kids: <- %s, bag: <- %s)", n.val, optBuild(n.child), n.kids.build(), n.bag.build())
		default:
			return fmt.Sprintf("§mk2(%d, inner: <- %s, child: %s, kids: <- %s, bag: <- %s)", n.val, n.inner.build(), optBuild(n.child), n.kids.build(), n.bag.build())
		}
	case kArr:
		if n.big {
			return fmt.Sprintf("§mkKids(%d, %d)", n.elems[0].val, len(n.elems))
		}
		var parts []string
		for _, e := range n.elems {
			parts = append(parts, "<- "+e.build())
		}
		return "[" + strings.Join(parts, ", ") + "]"
	case kDict:
		if n.big {
			return fmt.Sprintf("§mkBag(%d, %d)", n.dvals[n.dkeys[0]].val, len(n.dkeys))
		}
		var parts []string
		for _, k := range n.dkeys {
			parts = append(parts, fmt.Sprintf("%q: <- %s", k, n.dvals[k].build()))
		}
		return "{" + strings.Join(parts, ", ") + "}"
	}
	panic("build: attachment has no own constructor")
}

func optBuild(n *node) string {
	if n == nil {
		return "nil"
	}
	return "<- " + n.build()
}

// ------------------------------------------------------------------ tree generation

type treeGen struct {
	r       rnd
	nextVal int
	allowBig bool
}

type rnd interface {
	IntN(n int) int
}

func (g *treeGen) val() int {
	g.nextVal += 1 + g.r.IntN(7)
	return g.nextVal
}

func (g *treeGen) res(level int) *node {
	n := &node{kind: kRes, level: level, val: g.val()}
	if level == 0 {
		if g.r.IntN(3) == 0 {
			n.att = &node{kind: kAtt, val: g.val(), parent: n, slot: "attach"}
		}
		return n
	}
	if level == 2 {
		n.inner = g.res(1)
		n.inner.parent, n.inner.slot = n, "inner"
	}
	if g.r.IntN(10) < 7 {
		n.child = g.res(level - 1)
		n.child.parent, n.child.slot = n, "child"
	}
	n.kids = g.arr(level-1, 4-level)
	n.kids.parent, n.kids.slot = n, "kids"
	n.bag = g.dict(level-1, 4-level)
	n.bag.parent, n.bag.slot = n, "bag"
	return n
}

func (g *treeGen) arr(level, max int) *node {
	a := &node{kind: kArr, level: level}
	if level == 0 && g.allowBig && g.r.IntN(18) == 0 {
		// crosses atree slab boundaries; values base+i
		cnt := 20 + g.r.IntN(140)
		base := g.val()
		for i := 0; i < cnt; i++ {
			a.elems = append(a.elems, &node{kind: kRes, val: base + i, parent: a, slot: "elem"})
		}
		g.nextVal = base + cnt
		a.big = true
		return a
	}
	cnt := g.r.IntN(max + 1)
	for i := 0; i < cnt; i++ {
		e := g.res(level)
		e.parent, e.slot = a, "elem"
		a.elems = append(a.elems, e)
	}
	return a
}

func (g *treeGen) dict(level, max int) *node {
	d := &node{kind: kDict, level: level, dvals: map[string]*node{}}
	if level == 0 && g.allowBig && g.r.IntN(18) == 0 {
		cnt := 20 + g.r.IntN(100)
		base := g.val()
		for i := 0; i < cnt; i++ {
			k := "k" + strconv.Itoa(i)
			d.dkeys = append(d.dkeys, k)
			d.dvals[k] = &node{kind: kRes, val: base + i, parent: d, slot: "dictval", key: k}
		}
		g.nextVal = base + cnt
		d.big = true
		return d
	}
	cnt := g.r.IntN(max + 1)
	for i := 0; i < cnt; i++ {
		k := string(rune('a' + i))
		e := g.res(level)
		e.parent, e.slot, e.key = d, "dictval", k
		d.dkeys = append(d.dkeys, k)
		d.dvals[k] = e
	}
	return d
}

// ------------------------------------------------------------------ model mutation

// detach removes n from its parent container / slot (not for roots).
func detach(n *node) {
	p := n.parent
	switch n.slot {
	case "elem":
		i := n.index()
		p.elems = append(p.elems[:i:i], p.elems[i+1:]...)
	case "dictval":
		delete(p.dvals, n.key)
		for i, k := range p.dkeys {
			if k == n.key {
				p.dkeys = append(p.dkeys[:i:i], p.dkeys[i+1:]...)
				break
			}
		}
	case "child":
		p.child = nil
	case "inner":
		p.inner = nil
	case "kids":
		p.kids = nil
	case "bag":
		p.bag = nil
	case "attach":
		p.att = nil
	}
	n.parent, n.slot, n.key = nil, "", ""
}

func attachElem(arr *node, i int, n *node) {
	n.parent, n.slot = arr, "elem"
	arr.elems = append(arr.elems[:i:i], append([]*node{n}, arr.elems[i:]...)...)
}

func attachDict(d *node, k string, n *node) {
	n.parent, n.slot, n.key = d, "dictval", k
	d.dkeys = append(d.dkeys, k)
	d.dvals[k] = n
}

func attachField(p *node, slot string, n *node) {
	n.parent, n.slot = p, slot
	switch slot {
	case "child":
		p.child = n
	case "inner":
		p.inner = n
	case "kids":
		p.kids = n
	case "bag":
		p.bag = n
	}
}
