package lin

import (
	"fmt"
	"reflect"
	"strconv"
	"strings"

	"github.com/onflow/cadence/ast"
	"github.com/onflow/cadence/common"
	"github.com/onflow/cadence/parser"
	"github.com/onflow/cadence/sema"
	"github.com/onflow/cadence/stdlib"
)

// C03 — running the real checker (parser.ParseProgram + sema.NewChecker + Check) on rendered programs.
//
// Several programs are checked per checker run, each as its own top-level function on its own source line
// (amortises the prelude and checker set-up: ≈ 40 µs instead of ≈ 130 µs per program); reported errors are
// attributed by line. Every disagreement with the oracle is re-checked stand-alone before it is reported,
// and minimisation always checks stand-alone.

type c03Err struct {
	Kind string // Go type name without package, e.g. ResourceLossError
	Msg  string
}

// resource-linearity related checker errors: any of them counts as "rejected for a resource reason".
var c03ResourceErrs = map[string]bool{
	"ResourceLossError":                                  true,
	"ResourceUseAfterInvalidationError":                  true,
	"ResourceFieldNotInvalidatedError":                   true,
	"InvalidResourceAssignmentError":                     true,
	"ResourceCapturingError":                             true,
	"MissingMoveOperationError":                          true,
	"InvalidMoveOperationError":                          true,
	"InvalidMoveError":                                   true,
	"InvalidNestedResourceMoveError":                     true,
	"InvalidConditionalResourceOperandError":             true,
	"InvalidNilCoalescingRightResourceOperandError":      true,
	"InvalidResourceArrayMemberError":                    true,
	"InvalidResourceDictionaryMemberError":               true,
	"InvalidResourceOptionalMemberError":                 true,
	"ResourceMethodBindingError":                         true,
	"InvalidInterfaceConditionResourceInvalidationError": true,
	"InvalidatedResourceReferenceError":                  true,
	"UnsupportedResourceForLoopError":                    true,
}

var c03BaseActivation = func() *sema.VariableActivation {
	a := sema.NewVariableActivation(sema.BaseValueActivation)
	a.DeclareValue(stdlib.InterpreterPanicFunction)
	return a
}()

var c03Config = &sema.Config{
	AccessCheckMode: sema.AccessCheckModeNotSpecifiedUnrestricted,
	BaseValueActivationHandler: func(common.Location) *sema.VariableActivation {
		return c03BaseActivation
	},
}

// c03RunChecker returns the checker's errors with their start lines; goPanic != "" when the checker panicked.
func c03RunChecker(src string) (errs []c03Err, lines []int, goPanic string) {
	prog, err := parser.ParseProgram(nil, []byte(src), parser.Config{})
	if err != nil {
		// a harness defect, not an observation: let it escape
		panic("c03: generated program does not parse: " + err.Error() + "\n" + src)
	}
	defer func() {
		if r := recover(); r != nil {
			goPanic = fmt.Sprint(r)
		}
	}()
	checker, err := sema.NewChecker(prog, common.StringLocation("c03"), nil, c03Config)
	if err != nil {
		panic("c03: NewChecker: " + err.Error())
	}
	err = checker.Check()
	if err == nil {
		return nil, nil, ""
	}
	ce, ok := err.(*sema.CheckerError)
	if !ok {
		return []c03Err{{Kind: reflect.TypeOf(err).String(), Msg: err.Error()}}, []int{0}, ""
	}
	for _, e := range ce.Errors {
		k := reflect.TypeOf(e).String()
		if i := strings.LastIndex(k, "."); i >= 0 {
			k = k[i+1:]
		}
		line := 0
		if p, ok := e.(ast.HasPosition); ok {
			line = p.StartPosition().Line
		}
		errs = append(errs, c03Err{Kind: k, Msg: e.Error()})
		lines = append(lines, line)
	}
	return errs, lines, ""
}

// c03CheckOne checks one program stand-alone (body = one-line rendering of main's block).
func c03CheckOne(body string) (errs []c03Err, goPanic string) {
	errs, _, goPanic = c03RunChecker(c03Prelude + "fun main() " + body + "\n")
	return
}

// c03CheckBatch checks several programs in one checker run. ok=false: attribution failed or the checker
// panicked — the caller falls back to stand-alone checks.
func c03CheckBatch(bodies []string) (res [][]c03Err, ok bool) {
	var sb strings.Builder
	sb.WriteString(c03Prelude)
	for i, b := range bodies {
		sb.WriteString("fun m")
		sb.WriteString(strconv.Itoa(i))
		sb.WriteString("() ")
		sb.WriteString(b)
		sb.WriteByte('\n')
	}
	errs, lines, goPanic := c03RunChecker(sb.String())
	if goPanic != "" {
		return nil, false
	}
	res = make([][]c03Err, len(bodies))
	for i, e := range errs {
		k := lines[i] - c03PreludeLines - 1
		if k < 0 || k >= len(bodies) {
			return nil, false
		}
		res[k] = append(res[k], e)
	}
	return res, true
}

func c03HasResourceErr(errs []c03Err) bool {
	for _, e := range errs {
		if c03ResourceErrs[e.Kind] {
			return true
		}
	}
	return false
}

func c03ErrStrings(errs []c03Err) []string {
	out := make([]string, len(errs))
	for i, e := range errs {
		out[i] = e.Kind + ": " + e.Msg
	}
	return out
}
