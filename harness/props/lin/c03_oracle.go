package lin

import (
	"fmt"
	"strings"
)

// C03 — independent path-enumerating linearity analysis.
//
// The analysis executes the program over concrete ownership states (bit set of the variables that currently
// hold a resource). Branch conditions are unknown (both successors are followed); a loop body runs any number
// of times: the set of states at the loop head is iterated until no new state appears (0, 1, 2 … iterations;
// states are finite so this terminates, in this fragment after at most three rounds). States are kept as a *set
// of whole states* (never merged per variable), i.e. the result is exactly the union over all paths; with
// tracing on, every state carries the decisions of one path that produces it.
//
// Rules (the property statement, nothing more):
//   - a resource variable may be used / moved / destroyed / swapped only while it holds a resource;
//   - when a scope is left (fall-through, break, continue) every variable declared in it must be empty;
//   - `return` leaves all scopes of the function: every variable of the function must be empty;
//   - `panic` ends the path, nothing is required;
//   - assigning to a variable that holds a resource loses that resource;
//   - `if let x <- o` moves o (in both branches), x holds a resource in the then-branch only;
//   - a nested function is analysed on its own with its parameter holding a resource.

type c03Viol uint8

const (
	c03VLoss c03Viol = iota
	c03VUseAfter
	c03VDoubleMove
	c03VOverwrite
	c03NViol
)

var c03ViolNames = [c03NViol]string{"loss", "use_after_move", "double_move", "overwrite"}

type c03Trace struct {
	prev *c03Trace
	ev   string
}

func (t *c03Trace) String() string {
	var evs []string
	for ; t != nil; t = t.prev {
		evs = append(evs, t.ev)
	}
	for i, j := 0, len(evs)-1; i < j; i, j = i+1, j-1 {
		evs[i], evs[j] = evs[j], evs[i]
	}
	return strings.Join(evs, " → ")
}

type c03State struct {
	owned uint64
	tr    *c03Trace
}

type c03Flow struct {
	norm, brk, cont []c03State
}

type c03Verdict struct {
	Dirty bool
	Viols [c03NViol]int // number of (state, statement) violations found, by kind
	First string        // description of the first violation incl. the offending path (tracing only)
	Paths int           // number of path ends (return / panic / end of function) over distinct states
}

type c03Oracle struct {
	trace bool
	v     c03Verdict
	names func(int) string
	ids   map[*c03Stmt]int
}

// c03Judge runs the analysis. With trace, the verdict carries a readable offending path.
func c03Judge(body []*c03Stmt, trace bool, info *c03Info) c03Verdict {
	o := &c03Oracle{trace: trace}
	if trace {
		r := &c03Renderer{info: info, vname: map[int]int{}, fname: map[int]int{}}
		r.number(body)
		o.names = func(v int) string { return r.v(v) }
		o.ids = map[*c03Stmt]int{}
		var num func(b []*c03Stmt)
		num = func(b []*c03Stmt) {
			for _, s := range b {
				o.ids[s] = len(o.ids) + 1
				num(s.Then)
				num(s.Else)
			}
		}
		num(body)
	}
	o.function(body, 0, "main")
	return o.v
}

func (o *c03Oracle) function(body []*c03Stmt, entry uint64, name string) {
	var tr *c03Trace
	if o.trace {
		tr = &c03Trace{ev: "enter " + name}
	}
	f := o.block(body, []c03State{{owned: entry, tr: tr}}, entry)
	o.v.Paths += len(f.norm)
	// break/continue cannot leave a function (well-formedness)
}

func (o *c03Oracle) report(kind c03Viol, st c03State, s *c03Stmt, v int, what string) {
	o.v.Dirty = true
	o.v.Viols[kind]++
	if o.trace && o.v.First == "" {
		at := "end of scope"
		if s != nil {
			at = fmt.Sprintf("statement #%d (%s)", o.ids[s], c03KindNames[s.K])
		}
		o.v.First = fmt.Sprintf("%s: %s %s at %s on path [%s]", c03ViolNames[kind], o.names(v), what, at, st.tr.String())
	}
}

func (o *c03Oracle) ev(st c03State, s *c03Stmt, what string) c03State {
	if !o.trace {
		return st
	}
	return c03State{owned: st.owned, tr: &c03Trace{prev: st.tr, ev: fmt.Sprintf("#%d %s", o.ids[s], what)}}
}

func c03Add(set []c03State, st c03State) []c03State {
	for _, x := range set {
		if x.owned == st.owned {
			return set
		}
	}
	return append(set, st)
}

func c03Union(a, b []c03State) []c03State {
	for _, st := range b {
		a = c03Add(a, st)
	}
	return a
}

func c03Has(set []c03State, st c03State) bool {
	for _, x := range set {
		if x.owned == st.owned {
			return true
		}
	}
	return false
}

// leave applies the scope-exit rule for the variables in decl to every state.
func (o *c03Oracle) leave(set []c03State, decl uint64, how string) []c03State {
	if decl == 0 {
		return set
	}
	var out []c03State
	for _, st := range set {
		if lost := st.owned & decl; lost != 0 {
			for v := 0; v < c03MaxVars; v++ {
				if lost&(1<<uint(v)) != 0 {
					o.report(c03VLoss, st, nil, v, "still holds a resource when its scope is left ("+how+")")
				}
			}
			st.owned &^= decl
		}
		out = c03Add(out, st)
	}
	return out
}

// consume: the variable must hold a resource; afterwards it is empty.
func (o *c03Oracle) consume(cur []c03State, s *c03Stmt, v int) []c03State {
	bit := uint64(1) << uint(v)
	var out []c03State
	for _, st := range cur {
		if st.owned&bit == 0 {
			o.report(c03VDoubleMove, st, s, v, "is moved/destroyed although it was already moved or destroyed")
		}
		st.owned &^= bit
		out = c03Add(out, st)
	}
	return out
}

func (o *c03Oracle) use(cur []c03State, s *c03Stmt, v int) {
	bit := uint64(1) << uint(v)
	for _, st := range cur {
		if st.owned&bit == 0 {
			o.report(c03VUseAfter, st, s, v, "is used after it was moved or destroyed")
		}
	}
}

func (o *c03Oracle) set(cur []c03State, v int) []c03State {
	bit := uint64(1) << uint(v)
	var out []c03State
	for _, st := range cur {
		st.owned |= bit
		out = c03Add(out, st)
	}
	return out
}

// block executes a block from the given set of states. decl: variables declared by the block header
// (if-let binding, function parameter) that belong to the block's scope.
func (o *c03Oracle) block(b []*c03Stmt, in []c03State, decl uint64) c03Flow {
	cur := in
	var out c03Flow
	for _, s := range b {
		if len(cur) == 0 {
			break
		}
		switch s.K {
		case c03KCreate:
			cur = o.set(cur, s.V)
			decl |= 1 << uint(s.V)
		case c03KMove, c03KArr, c03KOpt:
			cur = o.consume(cur, s, s.U)
			cur = o.set(cur, s.V)
			decl |= 1 << uint(s.V)
		case c03KDestroy, c03KConsume, c03KCall:
			cur = o.consume(cur, s, s.U)
		case c03KUseM, c03KUseRef:
			o.use(cur, s, s.U)
		case c03KSwap:
			o.use(cur, s, s.U)
			o.use(cur, s, s.W)
		case c03KAssign:
			bit := uint64(1) << uint(s.U)
			for _, st := range cur {
				if st.owned&bit != 0 {
					o.report(c03VOverwrite, st, s, s.U, "is overwritten while it still holds a resource")
				}
			}
			cur = o.set(cur, s.U)
		case c03KReturn:
			for _, st := range cur {
				o.v.Paths++
				if st.owned != 0 {
					for v := 0; v < c03MaxVars; v++ {
						if st.owned&(1<<uint(v)) != 0 {
							o.report(c03VLoss, st, s, v, "still holds a resource at return")
						}
					}
				}
			}
			cur = nil
		case c03KPanic:
			o.v.Paths += len(cur)
			cur = nil
		case c03KBreak:
			for _, st := range cur {
				out.brk = c03Add(out.brk, o.ev(st, s, "break"))
			}
			cur = nil
		case c03KContinue:
			for _, st := range cur {
				out.cont = c03Add(out.cont, o.ev(st, s, "continue"))
			}
			cur = nil
		case c03KIf:
			thenIn, elseIn := cur, cur
			if o.trace {
				thenIn, elseIn = nil, nil
				for _, st := range cur {
					thenIn = append(thenIn, o.ev(st, s, "then"))
					elseIn = append(elseIn, o.ev(st, s, "else"))
				}
			}
			f1 := o.block(s.Then, thenIn, 0)
			f2 := c03Flow{norm: elseIn}
			if s.HasElse {
				f2 = o.block(s.Else, elseIn, 0)
			}
			cur = c03Union(c03Union(nil, f1.norm), f2.norm)
			out.brk = c03Union(c03Union(out.brk, f1.brk), f2.brk)
			out.cont = c03Union(c03Union(out.cont, f1.cont), f2.cont)
		case c03KIfLet:
			cur = o.consume(cur, s, s.U)
			var thenIn, elseIn []c03State
			for _, st := range cur {
				t := o.ev(st, s, "some")
				t.owned |= 1 << uint(s.V)
				thenIn = c03Add(thenIn, t)
				elseIn = c03Add(elseIn, o.ev(st, s, "nil"))
			}
			f1 := o.block(s.Then, thenIn, 1<<uint(s.V))
			f2 := c03Flow{norm: elseIn}
			if s.HasElse {
				f2 = o.block(s.Else, elseIn, 0)
			}
			cur = c03Union(c03Union(nil, f1.norm), f2.norm)
			out.brk = c03Union(c03Union(out.brk, f1.brk), f2.brk)
			out.cont = c03Union(c03Union(out.cont, f1.cont), f2.cont)
		case c03KWhile, c03KFor:
			cur = o.loop(s, cur)
		case c03KFun:
			o.function(s.Then, 1<<uint(s.V), "nested function")
		}
	}
	out.norm = o.leave(cur, decl, "end of block")
	out.brk = o.leave(out.brk, decl, "break")
	out.cont = o.leave(out.cont, decl, "continue")
	return out
}

func (o *c03Oracle) loop(s *c03Stmt, in []c03State) []c03State {
	var exit []c03State
	var heads []c03State
	work := in
	for _, st := range in {
		heads = c03Add(heads, st)
	}
	for round := 0; len(work) > 0 && round < 70; round++ {
		var bodyIn []c03State
		for _, st := range work {
			exit = c03Add(exit, o.ev(st, s, "loop exits"))
			bodyIn = append(bodyIn, o.ev(st, s, "loop body"))
		}
		f := o.block(s.Then, bodyIn, 0)
		exit = c03Union(exit, f.brk)
		work = nil
		for _, st := range c03Union(c03Union(nil, f.norm), f.cont) {
			if !c03Has(heads, st) {
				heads = append(heads, st)
				work = append(work, st)
			}
		}
	}
	return exit
}
