package lin

// C03 — disagreement classes, delta-minimisation and canonical keys.

type c03Judgement struct {
	Class   string // "" = checker and oracle agree (or the program is outside the fragment)
	Info    *c03Info
	Verdict c03Verdict
	Errs    []c03Err
	Panic   string
	Outside string // reason when outside the fragment
}

// c03ClassOf compares the oracle's verdict with the checker's errors.
func c03ClassOf(info *c03Info, v c03Verdict, errs []c03Err, goPanic string) (class, outside string) {
	switch {
	case goPanic != "":
		return "checker-go-panic", ""
	case !v.Dirty && info.HasAssig:
		// Cadence forbids assignment to a resource-typed variable outright (InvalidResourceAssignmentError),
		// whatever the variable's state: re-filling an emptied variable is outside the fragment.
		return "", "assignment-to-emptied-variable"
	case !v.Dirty && len(errs) > 0:
		return "clean-rejected[" + errs[0].Kind + "]", ""
	case v.Dirty && len(errs) == 0:
		return "dirty-accepted", ""
	case v.Dirty && !c03HasResourceErr(errs):
		return "dirty-no-resource-error[" + errs[0].Kind + "]", ""
	}
	return "", ""
}

// c03JudgeAlone: well-formedness, oracle and a stand-alone checker run.
func c03JudgeAlone(body []*c03Stmt) c03Judgement {
	info, ok := c03Analyze(body)
	if !ok {
		return c03Judgement{Outside: "ill-formed"}
	}
	v := c03Judge(body, false, info)
	errs, gp := c03CheckOne(c03Render(body, info, false))
	class, outside := c03ClassOf(info, v, errs, gp)
	return c03Judgement{Class: class, Info: info, Verdict: v, Errs: errs, Panic: gp, Outside: outside}
}

func c03CountStmts(b []*c03Stmt) int {
	n := 0
	for _, s := range b {
		n += 1 + c03CountStmts(s.Then) + c03CountStmts(s.Else)
	}
	return n
}

// c03Locate finds the i-th statement in pre-order.
func c03Locate(b *[]*c03Stmt, i *int) (*[]*c03Stmt, int) {
	for k, s := range *b {
		if *i == 0 {
			return b, k
		}
		*i--
		if blk, idx := c03Locate(&s.Then, i); blk != nil {
			return blk, idx
		}
		if blk, idx := c03Locate(&s.Else, i); blk != nil {
			return blk, idx
		}
	}
	return nil, 0
}

func c03Splice(blk *[]*c03Stmt, idx int, repl []*c03Stmt) {
	nb := make([]*c03Stmt, 0, len(*blk)-1+len(repl))
	nb = append(nb, (*blk)[:idx]...)
	nb = append(nb, repl...)
	nb = append(nb, (*blk)[idx+1:]...)
	*blk = nb
}

func c03RenameVar(b []*c03Stmt, from, to int) {
	for _, s := range b {
		switch s.K {
		case c03KMove, c03KArr, c03KOpt, c03KDestroy, c03KConsume, c03KUseM, c03KUseRef, c03KCall, c03KAssign, c03KIfLet:
			if s.U == from {
				s.U = to
			}
		case c03KSwap:
			if s.U == from {
				s.U = to
			}
			if s.W == from {
				s.W = to
			}
		}
		c03RenameVar(s.Then, from, to)
		c03RenameVar(s.Else, from, to)
	}
}

// removeRefs removes every simple statement that mentions v.
func c03RemoveRefs(b *[]*c03Stmt, v int) {
	var nb []*c03Stmt
	for _, s := range *b {
		mentions := false
		switch s.K {
		case c03KCreate:
			mentions = s.V == v
		case c03KDestroy, c03KConsume, c03KUseM, c03KUseRef, c03KCall, c03KAssign:
			mentions = s.U == v
		case c03KSwap:
			mentions = s.U == v || s.W == v
		}
		if mentions {
			continue
		}
		c03RemoveRefs(&s.Then, v)
		c03RemoveRefs(&s.Else, v)
		if c03IsCompound(s.K) {
			// prune blocks emptied by the removal
			if s.HasElse && len(s.Else) == 0 {
				s.HasElse, s.Else = false, nil
			}
			if len(s.Then) == 0 {
				if s.K == c03KIf && s.HasElse {
					s.Then, s.Else, s.HasElse = s.Else, nil, false
				} else {
					continue
				}
			}
		}
		nb = append(nb, s)
	}
	*b = nb
}

const c03NTransforms = 29

// transformations that only reorder: accepted only if the canonical rendering becomes smaller (termination)
var c03Reordering = map[int]bool{9: true, 25: true}

// transformations that take a variable as extra argument
var c03TakesVar = map[int]bool{20: true}

// c03Apply applies transformation t at statement i of body (which is modified in place; pass a clone).
// Transformations are tried in this order; the earlier ones shrink the program, the later ones canonicalise
// it (path-equivalent rewritings and statement kinds). Whether the result is still in the fragment is decided
// by c03Analyze afterwards, whether the disagreement persists by the checker and the oracle.
func c03Apply(t int, body *[]*c03Stmt, i int, arg int) bool {
	blk, idx := c03Locate(body, &i)
	if blk == nil {
		return false
	}
	s := (*blk)[idx]
	isIf := s.K == c03KIf
	isLoop := c03IsLoop(s.K)
	isMove := s.K == c03KMove || s.K == c03KArr || s.K == c03KOpt
	rest := func() []*c03Stmt { return append([]*c03Stmt(nil), (*blk)[idx+1:]...) }
	switch t {
	case 0: // remove the statement (with everything nested in it)
		c03Splice(blk, idx, nil)
		return true
	case 1: // remove a variable: its create and every simple statement mentioning it
		if s.K != c03KCreate {
			return false
		}
		c03RemoveRefs(body, s.V)
		return true
	case 2: // replace a compound statement by its then-block / body
		if !isIf && !isLoop {
			return false
		}
		c03Splice(blk, idx, s.Then)
		return true
	case 3: // replace an if-else by its else-block
		if !isIf || !s.HasElse {
			return false
		}
		c03Splice(blk, idx, s.Else)
		return true
	case 4: // replace an if by its (terminating) then-block and drop the rest of the enclosing block
		if !isIf || !c03Terminates(s.Then) {
			return false
		}
		*blk = append(append([]*c03Stmt(nil), (*blk)[:idx]...), s.Then...)
		return true
	case 5: // the same with the else-block
		if !isIf || !s.HasElse || !c03Terminates(s.Else) {
			return false
		}
		*blk = append(append([]*c03Stmt(nil), (*blk)[:idx]...), s.Else...)
		return true
	case 6: // drop the else-block
		if (!isIf && s.K != c03KIfLet) || !s.HasElse {
			return false
		}
		s.HasElse, s.Else = false, nil
		return true
	case 7: // if A else B → if B
		if !isIf || !s.HasElse {
			return false
		}
		s.Then, s.Else, s.HasElse = s.Else, nil, false
		return true
	case 8: // while { S; break } → if { S }
		if !isLoop || len(s.Then) < 2 || s.Then[len(s.Then)-1].K != c03KBreak {
			return false
		}
		(*blk)[idx] = &c03Stmt{K: c03KIf, Then: s.Then[:len(s.Then)-1]}
		return true
	case 9: // mirror: if A else B → if B else A (conditions are opaque)
		if !isIf || !s.HasElse {
			return false
		}
		s.Then, s.Else = s.Else, s.Then
		return true
	case 10: // if T else B; rest  (T terminates) → if T; B; rest
		if !isIf || !s.HasElse || !c03Terminates(s.Then) {
			return false
		}
		r := rest()
		*blk = append(append(append([]*c03Stmt(nil), (*blk)[:idx]...), &c03Stmt{K: c03KIf, Then: s.Then}), append(s.Else, r...)...)
		return true
	case 11: // if A else T; rest  (T terminates) → if T; A; rest
		if !isIf || !s.HasElse || !c03Terminates(s.Else) {
			return false
		}
		r := rest()
		*blk = append(append(append([]*c03Stmt(nil), (*blk)[:idx]...), &c03Stmt{K: c03KIf, Then: s.Else}), append(s.Then, r...)...)
		return true
	case 12: // hoist a nested function into the enclosing block: its parameter becomes a created resource
		if s.K != c03KFun {
			return false
		}
		c03Splice(blk, idx, append([]*c03Stmt{{K: c03KCreate, V: s.V}}, s.Then...))
		return true
	case 13: // inline a move: `let v <- u` (also array / optional) disappears, v becomes u
		if !isMove {
			return false
		}
		c03Splice(blk, idx, nil)
		c03RenameVar(*body, s.V, s.U)
		return true
	case 14: // a move whose target is never mentioned again → destroy
		if !isMove {
			return false
		}
		(*blk)[idx] = &c03Stmt{K: c03KDestroy, U: s.U}
		return true
	case 15: // if-let → if with an explicit move
		if s.K != c03KIfLet {
			return false
		}
		then := append([]*c03Stmt{{K: c03KMove, V: s.V, U: s.U}}, s.Then...)
		els := append([]*c03Stmt{{K: c03KDestroy, U: s.U}}, s.Else...)
		(*blk)[idx] = &c03Stmt{K: c03KIf, HasElse: true, Then: then, Else: els}
		return true
	case 16: // loop → if
		if !isLoop {
			return false
		}
		(*blk)[idx] = &c03Stmt{K: c03KIf, Then: s.Then}
		return true
	case 17: // for → while
		if s.K != c03KFor {
			return false
		}
		s.K = c03KWhile
		return true
	case 18: // consume(<-u) / g(<-u) → destroy u
		if s.K != c03KConsume && s.K != c03KCall {
			return false
		}
		s.K = c03KDestroy
		return true
	case 19: // a non-consuming use → destroy
		if s.K != c03KUseM && s.K != c03KUseRef {
			return false
		}
		s.K = c03KDestroy
		return true
	case 20: // panic("x") → destroy <var>
		if s.K != c03KPanic {
			return false
		}
		(*blk)[idx] = &c03Stmt{K: c03KDestroy, U: arg}
		return true
	case 21: // use(&u as &R) → u.f()
		if s.K != c03KUseRef {
			return false
		}
		s.K = c03KUseM
		return true
	case 22: // move into array / optional → plain move
		if s.K != c03KArr && s.K != c03KOpt {
			return false
		}
		s.K = c03KMove
		return true
	case 23: // swap → two uses are not simpler; a swap is only ever removed (case 0)
		return false
	case 24: // (break and continue are deliberately NOT identified: they are distinct findings)
		return false
	case 26, 27: // (terminators are never turned into one another: that slides between distinct defects)
		return false
	case 28: // if { X; A } else { X; B } → X; if { A } else { B }   (X a simple statement)
		if !isIf || !s.HasElse || len(s.Then) == 0 || len(s.Else) == 0 {
			return false
		}
		x, y := s.Then[0], s.Else[0]
		if c03IsCompound(x.K) || x.K != y.K || x.U != y.U || x.W != y.W || x.F != y.F || c03StmtTerminates(x) ||
			x.K == c03KCreate || x.K == c03KMove || x.K == c03KArr || x.K == c03KOpt {
			return false
		}
		a, b := s.Then[1:], s.Else[1:]
		var repl []*c03Stmt
		switch {
		case len(a) == 0 && len(b) == 0:
			repl = []*c03Stmt{x}
		case len(a) == 0:
			repl = []*c03Stmt{x, {K: c03KIf, Then: b}}
		case len(b) == 0:
			repl = []*c03Stmt{x, {K: c03KIf, Then: a}}
		default:
			repl = []*c03Stmt{x, {K: c03KIf, HasElse: true, Then: a, Else: b}}
		}
		c03Splice(blk, idx, repl)
		return true
	case 25: // exchange two adjacent simple statements
		if idx+1 >= len(*blk) {
			return false
		}
		n := (*blk)[idx+1]
		if c03IsCompound(s.K) || c03IsCompound(n.K) || c03StmtTerminates(n) {
			return false
		}
		(*blk)[idx], (*blk)[idx+1] = n, s
		return true
	}
	return false
}

type c03MinResult struct {
	Body   []*c03Stmt
	J      c03Judgement
	Checks int
}

// c03Minimise greedily applies the transformations (in fixed priority order, restarting after every success)
// while the stand-alone judgement stays in the same disagreement class. At most budget checker runs.
// memo maps class|skeleton to the result found from it earlier (per worker; a cut-off only: the procedure is
// deterministic per program, so it never changes a result).
func c03Minimise(body []*c03Stmt, j c03Judgement, budget int, memo map[string]*c03MinResult) c03MinResult {
	class := j.Class
	cur := body
	curJ := j
	checks := 0
	var visited []string
	finish := func(r c03MinResult) c03MinResult {
		if memo != nil && len(memo) < 200000 && checks < budget {
			for _, k := range visited {
				memo[k] = &r
			}
		}
		r.Checks = checks
		return r
	}
	for {
		skel := c03Skeleton(cur, curJ.Info)
		key := class + "|" + skel
		if memo != nil {
			if r, ok := memo[key]; ok {
				return finish(*r)
			}
		}
		visited = append(visited, key)
		n := c03CountStmts(cur)
		improved := false
	search:
		for t := 0; t < c03NTransforms; t++ {
			nargs := 1
			if c03TakesVar[t] {
				nargs = curJ.Info.MaxVar + 1
			}
			for i := 0; i < n; i++ {
				for arg := 0; arg < nargs; arg++ {
					if checks >= budget {
						break search
					}
					cand := c03CloneBlock(cur)
					if !c03Apply(t, &cand, i, arg) {
						break
					}
					info, ok := c03Analyze(cand)
					if !ok {
						continue
					}
					if c03Reordering[t] && !(c03Skeleton(cand, info) < skel) {
						continue
					}
					checks++
					cj := c03JudgeAlone(cand)
					if cj.Class == class {
						cur, curJ = cand, cj
						improved = true
						break search
					}
				}
			}
		}
		if !improved {
			break
		}
	}
	return finish(c03MinResult{Body: cur, J: curJ})
}
