package lin

import (
	"strconv"
	"strings"
)

// C03 — tiny AST of the resource fragment, its well-formedness rules and its renderer.
//
// Every program is the body of `fun main()` placed after a fixed prelude (c03Prelude). Variables are
// numbered; names (r0, r1, … / g0 / i0) are assigned canonically at render time in order of declaration.

type c03Kind uint8

const (
	c03KCreate   c03Kind = iota // let V <- create R()
	c03KMove                    // let V <- U
	c03KArr                     // let V <- [<-U]          (U: @R)
	c03KOpt                     // let V: @R? <- U         (U: @R)
	c03KDestroy                 // destroy U
	c03KConsume                 // consume(<-U)
	c03KUseM                    // U.f() | U?.f() | U.length   (non-consuming use)
	c03KUseRef                  // use(&U as &R)           (U: @R)
	c03KIf                      // if c() { Then } [else { Else }]
	c03KWhile                   // while c() { Then }
	c03KFor                     // for i in [1, 2] { Then }
	c03KBreak                   //
	c03KContinue                //
	c03KReturn                  //
	c03KPanic                   // panic("x")
	c03KSwap                    // U <-> W
	c03KIfLet                   // if let V <- U { Then } [else { Else }]   (U: @R?)
	c03KFun                     // fun gF(_ V: @R) { Then }      (nested, non-capturing)
	c03KCall                    // gF(<-U)                       (U: @R)
	c03KAssign                  // U <- create R()               (U: @R; overwrite)
	c03NKinds
)

var c03KindNames = [c03NKinds]string{
	"create", "move_let", "move_array", "move_optional", "destroy", "consume_call", "use_member", "use_ref",
	"if", "while", "for", "break", "continue", "return", "panic", "swap", "if_let", "nested_fun", "call_nested", "assign",
}

type c03Type uint8

const (
	c03TNone c03Type = iota
	c03TR            // @R
	c03TOpt          // @R?
	c03TArr          // @[R]
)

type c03Stmt struct {
	K       c03Kind
	V       int // declared variable
	U       int // operand
	W       int // second operand (swap)
	F       int // function id (nested_fun, call_nested)
	HasElse bool
	Then    []*c03Stmt // then-block / loop body / function body
	Else    []*c03Stmt
}

func c03CloneBlock(b []*c03Stmt) []*c03Stmt {
	if b == nil {
		return nil
	}
	out := make([]*c03Stmt, len(b))
	for i, s := range b {
		c := *s
		c.Then = c03CloneBlock(s.Then)
		c.Else = c03CloneBlock(s.Else)
		out[i] = &c
	}
	return out
}

func c03IsCompound(k c03Kind) bool {
	return k == c03KIf || k == c03KWhile || k == c03KFor || k == c03KIfLet || k == c03KFun
}

func c03IsLoop(k c03Kind) bool { return k == c03KWhile || k == c03KFor }

// c03Terminates: control never falls out of the end of the block (the checker's DefinitelyExited).
func c03Terminates(b []*c03Stmt) bool {
	if len(b) == 0 {
		return false
	}
	return c03StmtTerminates(b[len(b)-1])
}

func c03StmtTerminates(s *c03Stmt) bool {
	switch s.K {
	case c03KReturn, c03KPanic, c03KBreak, c03KContinue:
		return true
	case c03KIf, c03KIfLet:
		return s.HasElse && c03Terminates(s.Then) && c03Terminates(s.Else)
	}
	return false
}

// c03Info is the result of the well-formedness pass.
type c03Info struct {
	Types    [c03MaxVars]c03Type // by variable id
	Mut      [c03MaxVars]bool    // variable is a swap operand / assignment target → declared with `var`
	NStmts   int
	NCreate  int
	Depth    int
	Kinds    [c03NKinds]int
	IfElse   int
	HasAssig bool
	MaxVar   int
}

const c03MaxVars = 60

type c03Analyzer struct {
	info  c03Info
	scope []int
	funs  []int
	decl  [c03MaxVars]bool
	fdecl [8]bool
	param [c03MaxVars]bool // function parameters are constants: not swappable / assignable
	ok    bool
}

// c03Analyze checks scoping, typing, loop context of break/continue, absence of dead code and of
// closures capturing resources; it returns the derived types. A program failing it is outside the fragment
// (it would be rejected by the checker for reasons unrelated to linearity).
func c03Analyze(body []*c03Stmt) (*c03Info, bool) {
	a := &c03Analyzer{ok: true}
	var sbuf [16]int
	a.scope = sbuf[:0]
	a.block(body, 0, false, false)
	if !a.ok {
		return nil, false
	}
	info := a.info
	return &info, true
}

func (a *c03Analyzer) visible(v int) bool {
	for _, x := range a.scope {
		if x == v {
			return true
		}
	}
	return false
}

func (a *c03Analyzer) typeOf(v int) c03Type {
	if v < 0 || v >= c03MaxVars || !a.visible(v) {
		a.ok = false
		return c03TNone
	}
	return a.info.Types[v]
}

func (a *c03Analyzer) declare(v int, t c03Type) {
	if v < 0 || v >= c03MaxVars || a.decl[v] || t == c03TNone {
		a.ok = false
		return
	}
	a.decl[v] = true
	a.info.Types[v] = t
	a.scope = append(a.scope, v)
	if v > a.info.MaxVar {
		a.info.MaxVar = v
	}
}

func (a *c03Analyzer) block(b []*c03Stmt, depth int, inLoop, inFn bool) {
	if depth > a.info.Depth {
		a.info.Depth = depth
	}
	ns, nf := len(a.scope), len(a.funs)
	for i, s := range b {
		if !a.ok {
			return
		}
		if i > 0 && c03StmtTerminates(b[i-1]) {
			a.ok = false // dead code: the checker reports UnreachableStatementError
			return
		}
		a.info.NStmts++
		a.info.Kinds[s.K]++
		switch s.K {
		case c03KCreate:
			a.info.NCreate++
			a.declare(s.V, c03TR)
		case c03KMove:
			t := a.typeOf(s.U)
			a.declare(s.V, t)
		case c03KArr:
			if a.typeOf(s.U) != c03TR {
				a.ok = false
			}
			a.declare(s.V, c03TArr)
		case c03KOpt:
			if a.typeOf(s.U) != c03TR {
				a.ok = false
			}
			a.declare(s.V, c03TOpt)
		case c03KDestroy, c03KConsume, c03KUseM:
			a.typeOf(s.U)
		case c03KUseRef:
			if a.typeOf(s.U) != c03TR {
				a.ok = false
			}
		case c03KAssign:
			if a.typeOf(s.U) != c03TR || a.param[s.U] {
				a.ok = false
			} else {
				a.info.Mut[s.U] = true
			}
			a.info.HasAssig = true
			a.info.NCreate++
		case c03KSwap:
			t1, t2 := a.typeOf(s.U), a.typeOf(s.W)
			if t1 != t2 || s.U == s.W || !a.ok || a.param[s.U] || a.param[s.W] {
				a.ok = false
			} else {
				a.info.Mut[s.U] = true
				a.info.Mut[s.W] = true
			}
		case c03KBreak, c03KContinue:
			if !inLoop {
				a.ok = false
			}
		case c03KReturn, c03KPanic:
		case c03KIf:
			if len(s.Then) == 0 || (s.HasElse && len(s.Else) == 0) || (!s.HasElse && len(s.Else) != 0) {
				a.ok = false
				return
			}
			if s.HasElse {
				a.info.IfElse++
			}
			a.block(s.Then, depth+1, inLoop, inFn)
			if s.HasElse {
				a.block(s.Else, depth+1, inLoop, inFn)
			}
		case c03KWhile, c03KFor:
			if len(s.Then) == 0 {
				a.ok = false
				return
			}
			a.block(s.Then, depth+1, true, inFn)
		case c03KIfLet:
			if len(s.Then) == 0 || (s.HasElse && len(s.Else) == 0) || (!s.HasElse && len(s.Else) != 0) {
				a.ok = false
				return
			}
			if a.typeOf(s.U) != c03TOpt {
				a.ok = false
				return
			}
			if s.HasElse {
				a.info.IfElse++
			}
			n := len(a.scope)
			a.declare(s.V, c03TR)
			a.block(s.Then, depth+1, inLoop, inFn)
			a.scope = a.scope[:n]
			if s.HasElse {
				a.block(s.Else, depth+1, inLoop, inFn)
			}
		case c03KFun:
			if inFn || s.F < 0 || s.F >= len(a.fdecl) || a.fdecl[s.F] {
				a.ok = false
				return
			}
			a.fdecl[s.F] = true
			// the function is visible in its own body (recursion is not generated) and afterwards
			saved := a.scope
			a.scope = nil
			a.declare(s.V, c03TR)
			a.param[s.V] = true
			a.block(s.Then, depth+1, false, true)
			a.scope = saved
			a.funs = append(a.funs, s.F)
		case c03KCall:
			if a.typeOf(s.U) != c03TR {
				a.ok = false
			}
			found := false
			for _, f := range a.funs {
				if f == s.F {
					found = true
				}
			}
			if !found {
				a.ok = false
			}
		default:
			a.ok = false
		}
	}
	a.scope = a.scope[:ns]
	a.funs = a.funs[:nf]
}

// ---------------------------------------------------------------- rendering

const c03Prelude = "resource R { fun f() {} }\n" +
	"fun c(): Bool { return true }\n" +
	"fun consume(_ r: @AnyResource) { destroy r }\n" +
	"fun use(_ r: &R) {}\n"

const c03PreludeLines = 4

type c03Renderer struct {
	info   *c03Info
	vname  map[int]int
	fname  map[int]int
	sb     strings.Builder
	pretty bool
}

func (r *c03Renderer) number(b []*c03Stmt) {
	for _, s := range b {
		switch s.K {
		case c03KCreate, c03KMove, c03KArr, c03KOpt, c03KIfLet:
			if _, ok := r.vname[s.V]; !ok {
				r.vname[s.V] = len(r.vname)
			}
		case c03KFun:
			if _, ok := r.fname[s.F]; !ok {
				r.fname[s.F] = len(r.fname)
			}
			if _, ok := r.vname[s.V]; !ok {
				r.vname[s.V] = len(r.vname)
			}
		}
		r.number(s.Then)
		r.number(s.Else)
	}
}

func (r *c03Renderer) v(id int) string { return "r" + strconv.Itoa(r.vname[id]) }
func (r *c03Renderer) f(id int) string { return "g" + strconv.Itoa(r.fname[id]) }

func (r *c03Renderer) kw(v int) string {
	if r.info.Mut[v] {
		return "var "
	}
	return "let "
}

func (r *c03Renderer) sep(indent int) {
	if r.pretty {
		r.sb.WriteByte('\n')
		for i := 0; i < indent; i++ {
			r.sb.WriteString("    ")
		}
	} else {
		r.sb.WriteByte(' ')
	}
}

func (r *c03Renderer) block(b []*c03Stmt, indent, loopDepth int) {
	r.sb.WriteString("{")
	for i, s := range b {
		if i > 0 && !r.pretty {
			r.sb.WriteByte(';')
		}
		r.sep(indent + 1)
		r.stmt(s, indent+1, loopDepth)
	}
	r.sep(indent)
	r.sb.WriteString("}")
}

func (r *c03Renderer) stmt(s *c03Stmt, indent, loopDepth int) {
	w := r.sb.WriteString
	switch s.K {
	case c03KCreate:
		w(r.kw(s.V) + r.v(s.V) + " <- create R()")
	case c03KMove:
		w(r.kw(s.V) + r.v(s.V) + " <- " + r.v(s.U))
	case c03KArr:
		w(r.kw(s.V) + r.v(s.V) + " <- [<-" + r.v(s.U) + "]")
	case c03KOpt:
		w(r.kw(s.V) + r.v(s.V) + ": @R? <- " + r.v(s.U))
	case c03KDestroy:
		w("destroy " + r.v(s.U))
	case c03KConsume:
		w("consume(<-" + r.v(s.U) + ")")
	case c03KUseM:
		switch r.info.Types[s.U] {
		case c03TOpt:
			w(r.v(s.U) + "?.f()")
		case c03TArr:
			w(r.v(s.U) + ".length")
		default:
			w(r.v(s.U) + ".f()")
		}
	case c03KUseRef:
		w("use(&" + r.v(s.U) + " as &R)")
	case c03KAssign:
		w(r.v(s.U) + " <- create R()")
	case c03KSwap:
		w(r.v(s.U) + " <-> " + r.v(s.W))
	case c03KBreak:
		w("break")
	case c03KContinue:
		w("continue")
	case c03KReturn:
		w("return")
	case c03KPanic:
		w(`panic("x")`)
	case c03KIf:
		w("if c() ")
		r.block(s.Then, indent, loopDepth)
		if s.HasElse {
			w(" else ")
			r.block(s.Else, indent, loopDepth)
		}
	case c03KIfLet:
		w("if " + r.kw(s.V) + r.v(s.V) + " <- " + r.v(s.U) + " ")
		r.block(s.Then, indent, loopDepth)
		if s.HasElse {
			w(" else ")
			r.block(s.Else, indent, loopDepth)
		}
	case c03KWhile:
		w("while c() ")
		r.block(s.Then, indent, loopDepth+1)
	case c03KFor:
		w("for i" + strconv.Itoa(loopDepth) + " in [1, 2] ")
		r.block(s.Then, indent, loopDepth+1)
	case c03KFun:
		w("fun " + r.f(s.F) + "(_ " + r.v(s.V) + ": @R) ")
		r.block(s.Then, indent, 0)
	case c03KCall:
		w(r.f(s.F) + "(<-" + r.v(s.U) + ")")
	}
}

// c03Render renders the body of main: one line (`{ a; b; … }`) or pretty-printed.
func c03Render(body []*c03Stmt, info *c03Info, pretty bool) string {
	r := &c03Renderer{info: info, vname: map[int]int{}, fname: map[int]int{}, pretty: pretty}
	r.number(body)
	r.block(body, 0, 0)
	return r.sb.String()
}

// c03Skeleton is the canonical one-line rendering used in violation keys (without the outer braces).
func c03Skeleton(body []*c03Stmt, info *c03Info) string {
	s := c03Render(body, info, false)
	s = strings.TrimPrefix(s, "{ ")
	s = strings.TrimSuffix(s, " }")
	return s
}

// c03FullSource is a complete program that can be given to the checker as is.
func c03FullSource(body []*c03Stmt, info *c03Info) string {
	return c03Prelude + "fun main() " + c03Render(body, info, true) + "\n"
}
