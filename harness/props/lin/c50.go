package lin

// C50 — access modifiers and constant fields are enforced by the checker.
//
// Workload: a world of three contracts (two in account 0x1, one in 0x2), each with members of every
// access kind in the contract itself, a struct and a resource. One access site per generated program,
// placed in every scope kind. The program is checked through runtime.ParseAndCheckProgram (the runtime's
// checking environment, with imports resolved from the monitored host's code store); a sample is also
// pushed through real deployment transactions / ExecuteScript / ExecuteTransaction.
// Oracle: the independent scope model of c50_model.go.

import (
	"errors"
	"fmt"
	"reflect"
	"sort"
	"strings"
	"sync"

	"github.com/onflow/cadence/ast"
	"github.com/onflow/cadence/common"
	"github.com/onflow/cadence/runtime"
	"github.com/onflow/cadence/sema"

	"verif/harness/core"
	"verif/harness/host"
)

const (
	c50QuickCases   = 64
	c50QuickSample  = 125 // random sites per quick case (64 * 125 = 8000)
	c50Worlds       = 12  // thorough: world variations, each with the full product
	c50Slices       = 64  // thorough: slices of the product per world
	c50RealPerCase  = 8   // sites per case also run through the real deployment / execution path
	c50TwinEvery    = 16  // every n-th site: the site-less twin must check cleanly
	c50ProductLabel = "modifier x member kind x declaring composite x declaring contract x scope x operation x receiver x receiver source"
)

var (
	c50Once    sync.Once
	c50Product []c50Site
	c50Corners []int
)

func c50Init() {
	c50Once.Do(func() {
		c50Product = c50AllSites()
		for i, s := range c50Product {
			if c50IsCorner(s) {
				c50Corners = append(c50Corners, i)
			}
		}
	})
}

// the error kinds by which the checker enforces the property
var c50Family = map[string]bool{
	"InvalidAccessError":              true,
	"InvalidAssignmentAccessError":    true,
	"AssignmentToConstantMemberError": true,
	"FieldReinitializationError":      true,
}

type c50CheckErr struct {
	Kind string
	Msg  string
	Line int
}

// c50Errors extracts the checker's errors. other != "" if the failure is not a checker rejection.
func c50Errors(err error) (errs []c50CheckErr, other string) {
	if err == nil {
		return nil, ""
	}
	var ce *sema.CheckerError
	if !errors.As(err, &ce) {
		return nil, host.ErrKind(err) + ": " + core.Clip(err.Error(), 300)
	}
	for _, e := range ce.Errors {
		k := strings.TrimPrefix(reflect.TypeOf(e).String(), "*sema.")
		line := 0
		if p, ok := e.(ast.HasPosition); ok {
			line = p.StartPosition().Line
		}
		errs = append(errs, c50CheckErr{Kind: k, Msg: e.Error(), Line: line})
	}
	return errs, ""
}

// c50SemaKinds: sorted sema error kinds anywhere in an error tree (each error object once).
func c50SemaKinds(err error) []string {
	seen := map[error]bool{}
	var ks []string
	host.Walk(err, func(e error) {
		t := reflect.TypeOf(e)
		if t.Kind() != reflect.Ptr || !strings.HasPrefix(t.String(), "*sema.") || t.String() == "*sema.CheckerError" {
			return
		}
		if seen[e] {
			return
		}
		seen[e] = true
		ks = append(ks, strings.TrimPrefix(t.String(), "*sema."))
	})
	sort.Strings(ks)
	return ks
}

type c50Env struct {
	w       *c50World
	sources [3]string
	h       *host.Host // code store = the world; program cache kept between checks
	rt      runtime.Runtime
	full    *host.Host    // all three contracts deployed through real transactions
	partial [3]*host.Host // all but contract k deployed
}

func c50Location(w *c50World, pr c50Program) common.Location {
	switch pr.Kind {
	case "script":
		return common.ScriptLocation{0x1}
	case "transaction":
		return common.TransactionLocation{0x2}
	}
	c := &w.C[pr.Contract]
	return common.AddressLocation{Address: host.Addr(uint64(c.Addr)), Name: c.Name}
}

func (e *c50Env) check(loc common.Location, code string, script bool) error {
	var env runtime.Environment
	if script {
		env = runtime.NewScriptInterpreterEnvironment(host.DefaultConfig)
	} else {
		env = runtime.NewBaseInterpreterEnvironment(host.DefaultConfig)
	}
	// the program cache of the host keeps the (unchanged) imported world contracts; the program under
	// check must never be served from / left in the cache
	delete(e.h.Programs, loc)
	_, err := e.rt.ParseAndCheckProgram([]byte(code), runtime.Context{Interface: e.h, Location: loc, Environment: env})
	delete(e.h.Programs, loc)
	return err
}

func c50CloneHost(h *host.Host) *host.Host {
	n := host.New()
	n.NoRecord = true
	n.Ledger = h.Ledger.Clone()
	for k, v := range h.Codes {
		n.Codes[k] = v
	}
	for k, v := range h.AccountIDs {
		n.AccountIDs[k] = v
	}
	n.UUID = h.UUID
	return n
}

func c50NewEnv(c *core.Ctx, w *c50World) *c50Env {
	e := &c50Env{w: w, h: host.New(), rt: runtime.NewRuntime(host.DefaultConfig)}
	e.h.NoRecord = true
	for k := 0; k < 3; k++ {
		e.sources[k] = w.RenderContract(k, nil)
		loc := common.AddressLocation{Address: host.Addr(uint64(w.C[k].Addr)), Name: w.C[k].Name}
		e.h.Codes[string(loc.ID())] = []byte(e.sources[k])
	}
	// baseline: every world contract checks cleanly, and deploys through a real transaction
	ok := true
	for k := 0; k < 3; k++ {
		loc := common.AddressLocation{Address: host.Addr(uint64(w.C[k].Addr)), Name: w.C[k].Name}
		if err := e.check(loc, e.sources[k], false); err != nil {
			ok = false
			c.Violate("baseline-not-clean:world-contract", "a world contract without any site is rejected: "+core.Clip(err.Error(), 400),
				map[string]any{"contract": e.sources[k], "error": err.Error()})
		}
	}
	e.full = c50Deployed(c, e, -1)
	if ok && e.full != nil {
		c.Inc("baseline_world_clean")
	}
	return e
}

// c50Deployed deploys the world (without contract `except`) through real deployment transactions.
func c50Deployed(c *core.Ctx, e *c50Env, except int) *host.Host {
	h := host.New()
	h.NoRecord = true
	for k := 0; k < 3; k++ {
		if k == except {
			continue
		}
		out := h.Deploy(host.EngI, host.Addr(uint64(e.w.C[k].Addr)), e.w.C[k].Name, e.sources[k])
		if out.Err != nil || out.Escaped != nil {
			c.Violate("baseline-not-clean:world-deployment", "deployment of a world contract without any site fails: "+core.Clip(host.ErrText(out), 400),
				map[string]any{"contract": e.sources[k], "error": host.ErrText(out)})
			return nil
		}
	}
	return h
}

// realPath runs the site program through the real deployment / execution path and returns the sema kinds.
func (e *c50Env) realPath(c *core.Ctx, pr c50Program) (kinds []string, ok bool) {
	var out host.Outcome
	switch pr.Kind {
	case "script":
		if e.full == nil {
			return nil, false
		}
		out = c50CloneHost(e.full).RunScript(host.EngI, pr.Code, nil, nil)
	case "transaction":
		if e.full == nil {
			return nil, false
		}
		out = c50CloneHost(e.full).RunTx(host.EngI, pr.Code, nil, []common.Address{host.Addr(1)}, nil)
	default:
		k := pr.Contract
		if e.partial[k] == nil {
			e.partial[k] = c50Deployed(c, e, k)
			if e.partial[k] == nil {
				return nil, false
			}
		}
		out = c50CloneHost(e.partial[k]).Deploy(host.EngI, host.Addr(uint64(e.w.C[k].Addr)), e.w.C[k].Name, pr.Code)
	}
	if out.Escaped != nil {
		c.Violate("real-path-escaped-panic:"+pr.Kind, fmt.Sprintf("panic escaped: %v", out.Escaped), map[string]any{"program": pr.Code})
		return nil, false
	}
	return c50SemaKinds(out.Err), true
}

// c50SiteLines: the 1-based line range in which code differs from its site-less twin.
func c50SiteLines(code, twin string) (from, to int) {
	a := strings.Split(code, "\n")
	b := strings.Split(twin, "\n")
	p := 0
	for p < len(a) && p < len(b) && a[p] == b[p] {
		p++
	}
	s := 0
	for s < len(a)-p && s < len(b)-p && a[len(a)-1-s] == b[len(b)-1-s] {
		s++
	}
	return p + 1, len(a) - s
}

func c50Key(prefix string, s c50Site, kinds string) string {
	mod := c50ModNames[s.Mod]
	if c50OpIsFlow(s.Op) {
		mod = "any" // through self in the declaring initializer every modifier is accessible: the verdict does not depend on it
	}
	k := prefix + ":" + mod + "/" + c50MKNames[s.MK] + "/" + c50ScopeName(s.Scope, s.Decl) + "/" + c50OpNames[s.Op] + "/" + c50RecvNames[s.Recv]
	if kinds != "" {
		k += "/" + kinds
	}
	return k
}

func c50UniqueKinds(errs []c50CheckErr) string {
	m := map[string]bool{}
	var ks []string
	for _, e := range errs {
		if !m[e.Kind] {
			m[e.Kind] = true
			ks = append(ks, e.Kind)
		}
	}
	sort.Strings(ks)
	return strings.Join(ks, "+")
}

func (e *c50Env) witness(s c50Site, pr c50Program, why string, errs []c50CheckErr, extra map[string]any) map[string]any {
	w := map[string]any{
		"site":           s.String(),
		"site_statement": pr.Stmt,
		"program_kind":   pr.Kind,
		"program":        pr.Code,
		"model":          why,
		"checker_errors": errs,
		"world": map[string]any{
			fmt.Sprintf("0x1.%s", e.w.C[0].Name): e.sources[0],
			fmt.Sprintf("0x1.%s", e.w.C[1].Name): e.sources[1],
			fmt.Sprintf("0x2.%s", e.w.C[2].Name): e.sources[2],
		},
		"how": "runtime.ParseAndCheckProgram at the program's location (contract: its address location), imports resolved from the world",
	}
	for k, v := range extra {
		w[k] = v
	}
	return w
}

// c50RunSite judges one site.
func c50RunSite(c *core.Ctx, e *c50Env, s c50Site, real, twin bool) {
	pr := c50Build(e.w, s)
	loc := c50Location(e.w, pr)
	err := e.check(loc, pr.Code, pr.Kind == "script")
	errs, other := c50Errors(err)
	expected, why := c50Model(s)

	c.Eval(1)
	c.Inc("sites")
	c.Distinct(pr.Code)
	modN, opN, rvN := c50ModNames[s.Mod], c50OpNames[s.Op], c50RecvNames[s.Recv]
	c.Inc("scope_" + c50ScopeClass(s.Scope, s.Decl))
	c.Inc("scopefine_" + c50ScopeName(s.Scope, s.Decl))
	c.Inc("recv_" + rvN)
	c.Inc("member_" + c50MKNames[s.MK])
	c.Inc("decl_" + c50DeclNames[s.Decl])
	c.Inc("src_" + c50SvNames[s.Sv])
	c.Inc("program_" + pr.Kind)

	if other != "" {
		c.Violate("not-a-checker-verdict:"+pr.Kind+"/"+c50OpNames[s.Op], "the site program fails with something other than checker errors: "+other,
			e.witness(s, pr, why, nil, map[string]any{"error": other}))
		return
	}
	for _, ce := range errs {
		c.Inc("errkind_" + ce.Kind)
	}
	kinds := c50UniqueKinds(errs)

	// attribution: every error is a member-access / assignment error located at the site statement
	from, to := c50SiteLines(pr.Code, pr.Twin)
	for _, ce := range errs {
		if !c50Family[ce.Kind] {
			c.Violate(c50Key("unexpected-error-kind", s, kinds), "the checker reports an error that is not an access/assignment error: "+ce.Msg,
				e.witness(s, pr, why, errs, nil))
			return
		}
		if ce.Line < from || ce.Line > to {
			c.Violate(c50Key("error-outside-site", s, kinds), fmt.Sprintf("access error at line %d, outside the site statement (lines %d-%d): %s", ce.Line, from, to, ce.Msg),
				e.witness(s, pr, why, errs, nil))
			return
		}
	}

	observedAccepted := len(errs) == 0
	switch expected {
	case c50Latitude:
		c.Inc("undecided_sites")
		if observedAccepted {
			c.Inc("undecided_accepted")
		} else {
			c.Inc("undecided_rejected")
		}
	case c50Permitted:
		c.Inc("verdict_permitted")
		c.Inc("mod_" + modN + "_permitted")
		c.Inc("op_" + opN + "_permitted")
		if !observedAccepted {
			c.Violate(c50Key("permitted-but-rejected", s, kinds),
				fmt.Sprintf("the model permits `%s` (%s) but the checker rejects it: %s", pr.Stmt, s, errs[0].Msg),
				e.witness(s, pr, why, errs, nil))
		}
	case c50Denied:
		c.Inc("verdict_denied")
		c.Inc("mod_" + modN + "_denied")
		c.Inc("op_" + opN + "_denied")
		if observedAccepted {
			c.Violate(c50Key("denied-but-accepted", s, ""),
				fmt.Sprintf("the model denies `%s` (%s) but the checker accepts the program without any error", strings.ReplaceAll(pr.Stmt, "\n", "; "), s),
				e.witness(s, pr, why, errs, nil))
		}
	}

	if twin {
		terr := e.check(loc, pr.Twin, pr.Kind == "script")
		if terr != nil {
			c.Violate("baseline-not-clean:"+pr.Kind+"/"+c50ScopeName(s.Scope, s.Decl)+"/"+rvN+"/"+c50SvNames[s.Sv],
				"the program without the site statement is rejected: "+core.Clip(terr.Error(), 400),
				e.witness(s, pr, why, nil, map[string]any{"twin": pr.Twin, "error": terr.Error()}))
		} else {
			c.Inc("twin_clean")
		}
	}

	if real {
		rk, ok := e.realPath(c, pr)
		if ok {
			c.Inc("real_path_sites")
			c.Inc("real_path_" + pr.Kind)
			var pk []string
			for _, ce := range errs {
				pk = append(pk, ce.Kind)
			}
			sort.Strings(pk)
			if strings.Join(pk, ",") != strings.Join(rk, ",") {
				c.Violate("real-path-differs:"+pr.Kind+"/"+c50OpNames[s.Op],
					fmt.Sprintf("ParseAndCheckProgram reports [%s] but the deployment/execution path reports [%s]", strings.Join(pk, ","), strings.Join(rk, ",")),
					e.witness(s, pr, why, errs, map[string]any{"real_path_kinds": rk}))
			} else {
				c.Inc("real_path_agree")
				if len(rk) > 0 {
					c.Inc("real_path_rejections")
				}
			}
		}
	}

	if c.WantSample() && (c.Case%7 == 3 || c.Case < 2) && (s.Op != c50OpRead || s.Recv > c50RvValue) {
		c.Sample(map[string]any{
			"site": s.String(), "statement": pr.Stmt, "program_kind": pr.Kind, "program": pr.Code,
			"model_verdict": c50VerdictNames[expected], "model": why, "checker_errors": errs,
		})
	}
}

func c50Run(c *core.Ctx) {
	c50Init()
	var idx []int
	var w *c50World
	if c.Thorough() {
		wi, sl := c.Case/c50Slices, c.Case%c50Slices
		w = c50NewWorld(core.CaseRng(c.Seed, "C50/world", c.Tier, wi))
		for i := sl; i < len(c50Product); i += c50Slices {
			idx = append(idx, i)
		}
	} else {
		w = c50NewWorld(c.Rng)
		for j := c.Case; j < len(c50Corners); j += c50QuickCases {
			idx = append(idx, c50Corners[j])
		}
		for j := 0; j < c50QuickSample; j++ {
			idx = append(idx, c.Rng.IntN(len(c50Product)))
		}
	}
	e := c50NewEnv(c, w)
	// which sites also take the real path / the twin check: seeded picks
	real := map[int]bool{}
	for j := 0; j < c50RealPerCase && len(idx) > 0; j++ {
		real[c.Rng.IntN(len(idx))] = true
	}
	twinOff := c.Rng.IntN(c50TwinEvery)
	for n, i := range idx {
		c50RunSite(c, e, c50Product[i], real[n], n%c50TwinEvery == twinOff)
	}
	// contract interfaces as the enclosing contract-kinded declaration (c50_ki.go)
	c50KI(c)
	c.Max("product_size", int64(len(c50Product)))
	c.Max("corner_sites", int64(len(c50Corners)))
}

func init() {
	// floors: about one fifth of what the quick tier observes on the unchanged tree
	floors := map[string]int64{
		"sites": 5000, "ki_sites": 1000, "ki_expected_accept": 300, "ki_expected_reject": 200, "ki_kind:contract": 300, "ki_kind:contract interface": 300, "baseline_world_clean": 12, "twin_clean": 300,
		"verdict_permitted": 2000, "verdict_denied": 3000,
		"real_path_agree": 100, "real_path_rejections": 50, "real_path_contract": 70, "real_path_script": 10, "real_path_transaction": 10,
		"program_contract": 4000, "program_script": 550, "program_transaction": 500,
		"errkind_InvalidAccessError": 2300, "errkind_InvalidAssignmentAccessError": 1100,
		"errkind_AssignmentToConstantMemberError": 650, "errkind_FieldReinitializationError": 8,
		"op_read_permitted": 1500, "op_read_denied": 1250, "op_call_permitted": 500, "op_call_denied": 400,
		"op_assign_permitted": 100, "op_assign_denied": 1250,
		"recv_self": 100, "recv_contract-name": 95,
		"decl_contract": 900, "decl_struct": 2100, "decl_resource": 2100,
		"src_param": 2300, "src_local": 1900, "src_closure-param": 850,
	}
	for m := 0; m < c50NumMods; m++ {
		floors["mod_"+c50ModNames[m]+"_permitted"] = 135
		floors["mod_"+c50ModNames[m]+"_denied"] = 200
	}
	for op := c50OpFlowIfElse; op < c50NumOps; op++ {
		floors["op_"+c50OpNames[op]+"_permitted"] = 4
		if op != c50OpFlowIfElse {
			floors["op_"+c50OpNames[op]+"_denied"] = 4
		}
	}
	for _, cl := range []string{"declaring-composite", "sibling-composite", "nested-composite", "same-contract", "same-account", "other-account", "script", "transaction"} {
		floors["scope_"+cl] = 250
	}
	for sc := 0; sc < c50NumScopes; sc++ {
		for _, d := range []int{c50DeclContract, c50DeclStruct} {
			if (sc == c50ScContractFn || sc == c50ScContractInit) && d == c50DeclContract {
				continue
			}
			floors["scopefine_"+c50ScopeName(sc, d)] = 45
		}
	}
	for rv := c50RvValue; rv < c50NumRecvs; rv++ {
		floors["recv_"+c50RecvNames[rv]] = 280
	}
	for mk := 0; mk < c50NumMKs; mk++ {
		floors["member_"+c50MKNames[mk]] = 1600
	}
	core.Register(&core.Prop{
		ID:    "C50",
		Level: "exploration",
		Rule: "one access site per generated program over the cross product " + c50ProductLabel +
			" in a seeded world of contracts A,B (account 0x1) and C (0x2); quick = all corner combinations (declaring contract A, first receiver source: every modifier x member kind x declaring composite x scope x operation x receiver form once) " +
			"+ 8000 seeded sites over 64 seeded worlds, thorough = the full product in each of 12 seeded worlds; a site is distinct by its program text " +
			"and non-trivial always (its site-less twin checks cleanly, so the verdict is attributable to the site statement); plus a second, smaller product (c50_ki.go, 330 sites, all of them every four cases) in which the enclosing contract-kinded declaration is a contract or a contract interface and the member belongs to a nested struct/resource interface",
		Assumptions: []string{
			"oracle = hand-written scope model (c50_model.go): lexical placement, deploying account and held authorization only; no sema code is consulted",
			"'inside the declaring composite' is lexical and includes declarations nested in it (composites nested in a contract may use and assign the contract's access(self) members)",
			"owned values and self are fully entitled; a reference auth(E|F) holds exactly one of E,F (unknown which); access(E,F) needs both, access(E|F) either",
			"an assignment to a var field inside the declaring composite through a receiver that does not satisfy the member's entitlement is left undecided (the statement only says where assignment may be accepted)",
			"denied = at least one of InvalidAccessError / InvalidAssignmentAccessError / AssignmentToConstantMemberError / FieldReinitializationError located on the site statement; permitted = no checker error at all",
			"programs are checked with runtime.ParseAndCheckProgram in a fresh runtime environment at the program's real location; a seeded sample is cross-checked against real deployment / ExecuteScript / ExecuteTransaction",
		},
		NumCases: func(tier string) int {
			if tier == "thorough" {
				return c50Worlds * c50Slices
			}
			return c50QuickCases
		},
		Exhaustive: func(tier string) bool { return tier == "thorough" },
		Floors:     floors,
		Run:        c50Run,
	})
}
