package lin

import (
	"math/rand/v2"
)

// C03 — program generators.
//
//  1. c03Enum: one generator function driven by a sequence of choices. Driven by an odometer it enumerates
//     ALL well-formed programs within a bound (statements, create-expressions, nesting depth, alphabet),
//     operands ranging over every visible variable of a fitting type *regardless of ownership* — so the space
//     contains the clean programs and every way of violating linearity within the bound.
//  2. c03CleanGen: seeded random generator of larger programs that are path-clean by construction (it tracks
//     which variables hold a resource, reconciles branches, protects loop-carried variables, consumes locals
//     before leaving a scope). The oracle — not the generator — decides the verdict.
//  3. c03Inject: the four violation injections applied to a generated program.

// ---------------------------------------------------------------- choice sequences

type c03Chooser interface{ Pick(n int) int }

// c03Odo replays a recorded choice vector and extends it with zeros; Next() advances it like an odometer.
type c03Odo struct {
	choice []int
	arity  []int
	pos    int
	fixed  int // choices below this index are never changed (shard prefix)
	limit  int // > 0: choices at index >= limit are always 0 and not recorded (prefix enumeration)
}

func (o *c03Odo) Pick(n int) int {
	if o.pos < len(o.choice) {
		v := o.choice[o.pos]
		o.arity[o.pos] = n
		o.pos++
		return v
	}
	if o.limit > 0 && o.pos >= o.limit {
		o.pos++
		return 0
	}
	o.choice = append(o.choice, 0)
	o.arity = append(o.arity, n)
	o.pos++
	return 0
}

func (o *c03Odo) Next() bool {
	for i := len(o.choice) - 1; i >= o.fixed; i-- {
		if o.choice[i]+1 < o.arity[i] {
			o.choice[i]++
			o.choice = o.choice[:i+1]
			o.arity = o.arity[:i+1]
			o.pos = 0
			return true
		}
	}
	return false
}

type c03RandChooser struct{ rng *rand.Rand }

func (r c03RandChooser) Pick(n int) int { return r.rng.IntN(n) }

// ---------------------------------------------------------------- bounded enumeration

type c03Bound struct {
	Name     string
	MaxStmts int
	MaxRes   int // create-expressions
	MaxDepth int // nesting depth of blocks below main's block
	MaxFuns  int
	Kinds    [c03NKinds]bool
}

func c03KindSet(ks ...c03Kind) (s [c03NKinds]bool) {
	for _, k := range ks {
		s[k] = true
	}
	return
}

// full alphabet: every statement kind of the fragment.
var c03FullKinds = c03KindSet(c03KCreate, c03KMove, c03KArr, c03KOpt, c03KDestroy, c03KConsume, c03KUseM, c03KUseRef,
	c03KIf, c03KWhile, c03KFor, c03KBreak, c03KContinue, c03KReturn, c03KPanic, c03KSwap, c03KIfLet, c03KFun, c03KCall, c03KAssign)

// control-flow alphabet: one binding form, one consuming form, one use, all control flow.
var c03CoreKinds = c03KindSet(c03KCreate, c03KDestroy, c03KUseM,
	c03KIf, c03KWhile, c03KFor, c03KBreak, c03KContinue, c03KReturn, c03KPanic)

// smaller control-flow alphabet for the deepest bound (for ≡ while for the oracle; use dropped).
var c03FlowKinds = c03KindSet(c03KCreate, c03KDestroy,
	c03KIf, c03KWhile, c03KBreak, c03KContinue, c03KReturn, c03KPanic)

type c03Enum struct {
	ch      c03Chooser
	b       *c03Bound
	left    int // statements still available
	reserve int // statements promised to blocks not yet generated
	res     int
	nvars   int
	nfuns   int
	types   [c03MaxVars]c03Type
	scope   []int
	funs    []int
	param   [c03MaxVars]bool
	optBuf  [6][]c03Opt // reusable option buffers, one per nesting depth
}

type c03Opt struct {
	k       c03Kind
	u, w, f int8
	hasElse bool
	stop    bool
}

func c03Generate(ch c03Chooser, b *c03Bound) []*c03Stmt {
	g := &c03Enum{ch: ch, b: b, left: b.MaxStmts}
	return g.block(0, false, false, 0)
}

func (g *c03Enum) avail() int { return g.left - g.reserve }

func (g *c03Enum) options(depth int, inLoop, inFn bool, opts []c03Opt) []c03Opt {
	K := &g.b.Kinds
	n := g.avail()
	if n < 1 {
		return opts
	}
	if K[c03KCreate] && g.res < g.b.MaxRes {
		opts = append(opts, c03Opt{k: c03KCreate})
	}
	for _, u := range g.scope {
		t := g.types[u]
		if K[c03KDestroy] {
			opts = append(opts, c03Opt{k: c03KDestroy, u: int8(u)})
		}
		if K[c03KConsume] {
			opts = append(opts, c03Opt{k: c03KConsume, u: int8(u)})
		}
		if K[c03KUseM] {
			opts = append(opts, c03Opt{k: c03KUseM, u: int8(u)})
		}
		if K[c03KMove] {
			opts = append(opts, c03Opt{k: c03KMove, u: int8(u)})
		}
		if t == c03TR {
			if K[c03KUseRef] {
				opts = append(opts, c03Opt{k: c03KUseRef, u: int8(u)})
			}
			if K[c03KArr] {
				opts = append(opts, c03Opt{k: c03KArr, u: int8(u)})
			}
			if K[c03KOpt] {
				opts = append(opts, c03Opt{k: c03KOpt, u: int8(u)})
			}
			if K[c03KAssign] && g.res < g.b.MaxRes && !g.param[u] {
				opts = append(opts, c03Opt{k: c03KAssign, u: int8(u)})
			}
			if K[c03KCall] {
				for _, f := range g.funs {
					opts = append(opts, c03Opt{k: c03KCall, u: int8(u), f: int8(f)})
				}
			}
		}
		if K[c03KSwap] {
			for _, w := range g.scope {
				if w > u && g.types[w] == t && !g.param[u] && !g.param[w] {
					opts = append(opts, c03Opt{k: c03KSwap, u: int8(u), w: int8(w)})
				}
			}
		}
		if t == c03TOpt && K[c03KIfLet] && depth < g.b.MaxDepth {
			if n >= 2 {
				opts = append(opts, c03Opt{k: c03KIfLet, u: int8(u)})
			}
			if n >= 3 {
				opts = append(opts, c03Opt{k: c03KIfLet, u: int8(u), hasElse: true})
			}
		}
	}
	if K[c03KReturn] {
		opts = append(opts, c03Opt{k: c03KReturn})
	}
	if K[c03KPanic] {
		opts = append(opts, c03Opt{k: c03KPanic})
	}
	if inLoop {
		if K[c03KBreak] {
			opts = append(opts, c03Opt{k: c03KBreak})
		}
		if K[c03KContinue] {
			opts = append(opts, c03Opt{k: c03KContinue})
		}
	}
	if depth < g.b.MaxDepth && n >= 2 {
		if K[c03KIf] {
			opts = append(opts, c03Opt{k: c03KIf})
			if n >= 3 {
				opts = append(opts, c03Opt{k: c03KIf, hasElse: true})
			}
		}
		if K[c03KWhile] {
			opts = append(opts, c03Opt{k: c03KWhile})
		}
		if K[c03KFor] {
			opts = append(opts, c03Opt{k: c03KFor})
		}
		if K[c03KFun] && depth == 0 && !inFn && g.nfuns < g.b.MaxFuns {
			opts = append(opts, c03Opt{k: c03KFun})
		}
	}
	return opts
}

func (g *c03Enum) newVar(t c03Type) int {
	v := g.nvars
	g.nvars++
	g.types[v] = t
	g.scope = append(g.scope, v)
	return v
}

// block generates a block with at least min statements.
func (g *c03Enum) block(depth int, inLoop, inFn bool, min int) []*c03Stmt {
	var out []*c03Stmt
	ns, nf := len(g.scope), len(g.funs)
	if depth >= len(g.optBuf) {
		panic("c03: nesting too deep for the enumerator")
	}
	for {
		opts := g.optBuf[depth][:0]
		if len(out) >= min {
			opts = append(opts, c03Opt{stop: true})
		}
		opts = g.options(depth, inLoop, inFn, opts)
		g.optBuf[depth] = opts
		if len(opts) == 0 {
			break
		}
		o := opts[0]
		if len(opts) > 1 {
			o = opts[g.ch.Pick(len(opts))]
		}
		if o.stop {
			break
		}
		g.left--
		s := &c03Stmt{K: o.k, U: int(o.u), W: int(o.w), F: int(o.f), HasElse: o.hasElse}
		switch o.k {
		case c03KCreate:
			g.res++
			s.V = g.newVar(c03TR)
		case c03KAssign:
			g.res++
		case c03KMove:
			s.V = g.newVar(g.types[int(o.u)])
		case c03KArr:
			s.V = g.newVar(c03TArr)
		case c03KOpt:
			s.V = g.newVar(c03TOpt)
		case c03KIf:
			if o.hasElse {
				g.reserve++
				s.Then = g.block(depth+1, inLoop, inFn, 1)
				g.reserve--
				s.Else = g.block(depth+1, inLoop, inFn, 1)
			} else {
				s.Then = g.block(depth+1, inLoop, inFn, 1)
			}
		case c03KIfLet:
			n := len(g.scope)
			s.V = g.newVar(c03TR)
			if o.hasElse {
				g.reserve++
			}
			s.Then = g.block(depth+1, inLoop, inFn, 1)
			g.scope = g.scope[:n]
			if o.hasElse {
				g.reserve--
				s.Else = g.block(depth+1, inLoop, inFn, 1)
			}
		case c03KWhile, c03KFor:
			s.Then = g.block(depth+1, true, inFn, 1)
		case c03KFun:
			s.F = g.nfuns
			g.nfuns++
			saved := g.scope
			g.scope = nil
			s.V = g.newVar(c03TR)
			g.param[s.V] = true
			s.Then = g.block(depth+1, false, true, 1)
			g.scope = saved
			g.funs = append(g.funs, s.F)
		}
		out = append(out, s)
		if c03StmtTerminates(s) {
			break
		}
	}
	g.scope = g.scope[:ns]
	g.funs = g.funs[:nf]
	return out
}

// c03Prefixes lists the distinct choice prefixes of length <= k of the bound's enumeration (in odometer order).
func c03Prefixes(b *c03Bound, k int) [][]int {
	var out [][]int
	o := &c03Odo{limit: k}
	for {
		o.pos = 0
		c03Generate(o, b)
		out = append(out, append([]int(nil), o.choice...))
		if !o.Next() {
			break
		}
	}
	return out
}

// c03EnumPrefix calls f for every program of the bound whose choice sequence starts with prefix.
func c03EnumPrefix(b *c03Bound, prefix []int, f func(body []*c03Stmt)) {
	o := &c03Odo{choice: append([]int(nil), prefix...), arity: make([]int, len(prefix)), fixed: len(prefix)}
	for {
		o.pos = 0
		body := c03Generate(o, b)
		f(body)
		if !o.Next() {
			break
		}
	}
}

// ---------------------------------------------------------------- random clean-by-construction generator

type c03CleanGen struct {
	rng      *rand.Rand
	left     int
	res      int
	maxRes   int
	maxDepth int
	nvars    int
	nfuns    int
	types    [c03MaxVars]c03Type
	level    [c03MaxVars]int
	funs     []int
	allowFun bool
	param    [c03MaxVars]bool
}

type c03CleanCtx struct {
	depth     int
	level     int // scope level of the block being generated
	loopLevel int // level of the block containing the innermost loop; -1 outside loops
	inFn      bool
}

func c03GenClean(rng *rand.Rand, maxStmts, maxRes, maxDepth int) []*c03Stmt {
	g := &c03CleanGen{rng: rng, left: maxStmts, maxRes: maxRes, maxDepth: maxDepth, allowFun: true}
	body, _, _ := g.block(nil, c03CleanCtx{loopLevel: -1}, false)
	return body
}

func (g *c03CleanGen) fresh(t c03Type, level int) int {
	v := g.nvars
	g.nvars++
	g.types[v] = t
	g.level[v] = level
	return v
}

func (g *c03CleanGen) consumeStmt(u int) *c03Stmt {
	g.left--
	switch r := g.rng.IntN(10); {
	case r < 5:
		return &c03Stmt{K: c03KDestroy, U: u}
	case r < 8 || g.types[u] != c03TR || len(g.funs) == 0:
		return &c03Stmt{K: c03KConsume, U: u}
	default:
		return &c03Stmt{K: c03KCall, U: u, F: g.funs[g.rng.IntN(len(g.funs))]}
	}
}

func c03Remove(set []int, v int) []int {
	out := make([]int, 0, len(set))
	for _, x := range set {
		if x != v {
			out = append(out, x)
		}
	}
	return out
}

func c03Contains(set []int, v int) bool {
	for _, x := range set {
		if x == v {
			return true
		}
	}
	return false
}

// consumeAll appends consumes (in random order) of every variable of owned satisfying keep==false.
func (g *c03CleanGen) consumeWhere(owned []int, pred func(v int) bool) (stmts []*c03Stmt, rest []int) {
	var sel []int
	for _, v := range owned {
		if pred(v) {
			sel = append(sel, v)
		} else {
			rest = append(rest, v)
		}
	}
	g.rng.Shuffle(len(sel), func(i, j int) { sel[i], sel[j] = sel[j], sel[i] })
	for _, v := range sel {
		stmts = append(stmts, g.consumeStmt(v))
	}
	return
}

// block generates a block. owned: the variables (visible, of this function) holding a resource at entry.
// Returns the statements, the owned set at the normal exit (only variables of outer levels) and whether
// the block terminates. tailOK: the block may end with a terminator (it is a branch or a loop body).
func (g *c03CleanGen) block(owned []int, cx c03CleanCtx, tailOK bool) ([]*c03Stmt, []int, bool) {
	var out []*c03Stmt
	owned = append([]int(nil), owned...)
	n := 1 + g.rng.IntN(5)
	consumable := func(v int) bool { return g.level[v] > cx.loopLevel }
	for i := 0; i < n && g.left > 0; i++ {
		r := g.rng.IntN(100)
		switch {
		case r < 16: // create
			if g.res >= g.maxRes {
				continue
			}
			g.res++
			g.left--
			v := g.fresh(c03TR, cx.level)
			out = append(out, &c03Stmt{K: c03KCreate, V: v})
			owned = append(owned, v)
		case r < 25: // use
			if len(owned) == 0 {
				continue
			}
			u := owned[g.rng.IntN(len(owned))]
			g.left--
			if g.types[u] == c03TR && g.rng.IntN(2) == 0 {
				out = append(out, &c03Stmt{K: c03KUseRef, U: u})
			} else {
				out = append(out, &c03Stmt{K: c03KUseM, U: u})
			}
		case r < 38: // move into a new variable / array / optional
			var cand []int
			for _, v := range owned {
				if consumable(v) {
					cand = append(cand, v)
				}
			}
			if len(cand) == 0 {
				continue
			}
			u := cand[g.rng.IntN(len(cand))]
			k, t := c03KMove, g.types[u]
			if t == c03TR {
				switch g.rng.IntN(3) {
				case 0:
					k, t = c03KArr, c03TArr
				case 1:
					k, t = c03KOpt, c03TOpt
				}
			}
			g.left--
			v := g.fresh(t, cx.level)
			out = append(out, &c03Stmt{K: k, V: v, U: u})
			owned = append(c03Remove(owned, u), v)
		case r < 46: // consume
			var cand []int
			for _, v := range owned {
				if consumable(v) {
					cand = append(cand, v)
				}
			}
			if len(cand) == 0 {
				continue
			}
			u := cand[g.rng.IntN(len(cand))]
			out = append(out, g.consumeStmt(u))
			owned = c03Remove(owned, u)
		case r < 52: // swap
			if len(owned) < 2 {
				continue
			}
			a := owned[g.rng.IntN(len(owned))]
			b := owned[g.rng.IntN(len(owned))]
			if a == b || g.types[a] != g.types[b] || g.param[a] || g.param[b] {
				continue
			}
			if a > b {
				a, b = b, a
			}
			g.left--
			out = append(out, &c03Stmt{K: c03KSwap, U: a, W: b})
		case r < 68: // if / if-else
			if cx.depth >= g.maxDepth || g.left < 3 {
				continue
			}
			g.left--
			s := &c03Stmt{K: c03KIf}
			sub := c03CleanCtx{depth: cx.depth + 1, level: cx.level + 1, loopLevel: cx.loopLevel, inFn: cx.inFn}
			var o1, o2 []int
			var t1, t2 bool
			s.Then, o1, t1 = g.block(owned, sub, true)
			o2, t2 = owned, false
			if g.rng.IntN(2) == 0 && g.left > 0 {
				s.HasElse = true
				s.Else, o2, t2 = g.block(owned, sub, true)
			}
			owned = g.reconcile(s, owned, o1, t1, o2, t2)
			out = append(out, s)
			if t1 && t2 {
				return out, nil, true
			}
		case r < 80: // loops
			if cx.depth >= g.maxDepth || g.left < 2 {
				continue
			}
			g.left--
			k := c03KWhile
			if g.rng.IntN(2) == 0 {
				k = c03KFor
			}
			s := &c03Stmt{K: k}
			sub := c03CleanCtx{depth: cx.depth + 1, level: cx.level + 1, loopLevel: cx.level, inFn: cx.inFn}
			s.Then, _, _ = g.block(owned, sub, true)
			out = append(out, s)
		case r < 92: // if let
			if cx.depth >= g.maxDepth || g.left < 3 {
				continue
			}
			var cand []int
			for _, v := range owned {
				if consumable(v) && g.types[v] == c03TOpt {
					cand = append(cand, v)
				}
			}
			if len(cand) == 0 {
				continue
			}
			u := cand[g.rng.IntN(len(cand))]
			g.left--
			s := &c03Stmt{K: c03KIfLet, U: u}
			sub := c03CleanCtx{depth: cx.depth + 1, level: cx.level + 1, loopLevel: cx.loopLevel, inFn: cx.inFn}
			base := c03Remove(owned, u)
			s.V = g.fresh(c03TR, cx.level+1)
			var o1, o2 []int
			var t1, t2 bool
			s.Then, o1, t1 = g.block(append(append([]int(nil), base...), s.V), sub, true)
			o2, t2 = base, false
			if g.rng.IntN(2) == 0 && g.left > 0 {
				s.HasElse = true
				s.Else, o2, t2 = g.block(base, sub, true)
			}
			owned = g.reconcile(s, base, o1, t1, o2, t2)
			out = append(out, s)
			if t1 && t2 {
				return out, nil, true
			}
		default: // nested function (main's top level only)
			if !g.allowFun || cx.inFn || cx.depth != 0 || g.nfuns >= 2 || g.left < 3 {
				continue
			}
			g.left--
			s := &c03Stmt{K: c03KFun, F: g.nfuns}
			g.nfuns++
			s.V = g.fresh(c03TR, 0)
			g.param[s.V] = true
			savedFuns := g.funs
			g.funs = nil
			s.Then, _, _ = g.block([]int{s.V}, c03CleanCtx{depth: 1, level: 0, loopLevel: -1, inFn: true}, false)
			g.funs = append(savedFuns, s.F)
			out = append(out, s)
		}
	}
	// end of block: possibly a terminating tail, otherwise consume the locals
	if tailOK && g.rng.IntN(100) < 45 {
		switch t := g.rng.IntN(4); {
		case t == 0: // return: everything the function owns must be consumed first
			st, _ := g.consumeWhere(owned, func(int) bool { return true })
			out = append(out, st...)
			g.left--
			out = append(out, &c03Stmt{K: c03KReturn})
			return out, nil, true
		case t == 1: // panic: nothing is required; consume a random subset
			st, _ := g.consumeWhere(owned, func(int) bool { return g.rng.IntN(2) == 0 })
			out = append(out, st...)
			g.left--
			out = append(out, &c03Stmt{K: c03KPanic})
			return out, nil, true
		case cx.loopLevel >= 0: // break / continue: the loop body's variables must be consumed
			st, _ := g.consumeWhere(owned, func(v int) bool { return g.level[v] > cx.loopLevel })
			out = append(out, st...)
			g.left--
			k := c03KBreak
			if t == 3 {
				k = c03KContinue
			}
			out = append(out, &c03Stmt{K: k})
			return out, nil, true
		}
	}
	st, rest := g.consumeWhere(owned, func(v int) bool { return g.level[v] >= cx.level })
	out = append(out, st...)
	if len(out) == 0 {
		// a block must not be empty
		g.left--
		if len(rest) > 0 {
			out = append(out, &c03Stmt{K: c03KUseM, U: rest[g.rng.IntN(len(rest))]})
		} else {
			g.res++
			v := g.fresh(c03TR, cx.level)
			out = append(out, &c03Stmt{K: c03KCreate, V: v}, &c03Stmt{K: c03KDestroy, U: v})
		}
	}
	return out, rest, false
}

// reconcile makes both branches of s leave the same variables owned (appending consumes) and returns that set.
func (g *c03CleanGen) reconcile(s *c03Stmt, entry, o1 []int, t1 bool, o2 []int, t2 bool) []int {
	switch {
	case t1 && t2:
		return nil
	case t1:
		return o2
	case t2:
		return o1
	}
	var target []int
	for _, v := range entry {
		if c03Contains(o1, v) && c03Contains(o2, v) {
			target = append(target, v)
		}
	}
	for _, v := range o1 {
		if !c03Contains(target, v) {
			s.Then = append(s.Then, g.consumeStmt(v))
		}
	}
	for _, v := range o2 {
		if !c03Contains(target, v) {
			if !s.HasElse {
				s.HasElse = true
			}
			s.Else = append(s.Else, g.consumeStmt(v))
		}
	}
	return target
}

// ---------------------------------------------------------------- injections

type c03Inj uint8

const (
	c03InjDrop      c03Inj = iota // drop a consume
	c03InjDup                     // duplicate a move/destroy
	c03InjUse                     // insert a use after a move/destroy
	c03InjOverwrite               // overwrite a variable
	c03NInj
)

var c03InjNames = [c03NInj]string{"drop_consume", "duplicate_move", "use_after_move", "overwrite"}

type c03Site struct {
	blk *[]*c03Stmt
	idx int
}

func c03Sites(b *[]*c03Stmt, pred func(*c03Stmt) bool, out []c03Site) []c03Site {
	for i, s := range *b {
		if pred(s) {
			out = append(out, c03Site{b, i})
		}
		out = c03Sites(&s.Then, pred, out)
		out = c03Sites(&s.Else, pred, out)
	}
	return out
}

func c03InsertAt(b *[]*c03Stmt, idx int, s *c03Stmt) {
	nb := make([]*c03Stmt, 0, len(*b)+1)
	nb = append(nb, (*b)[:idx]...)
	nb = append(nb, s)
	nb = append(nb, (*b)[idx:]...)
	*b = nb
}

// c03Inject returns a mutated copy of body, or nil if the injection has no site in this program.
func c03Inject(body []*c03Stmt, info *c03Info, kind c03Inj, rng *rand.Rand) []*c03Stmt {
	cp := c03CloneBlock(body)
	isConsume := func(s *c03Stmt) bool {
		return s.K == c03KDestroy || s.K == c03KConsume || s.K == c03KCall
	}
	isMoveOut := func(s *c03Stmt) bool {
		return isConsume(s) || s.K == c03KMove || s.K == c03KArr || s.K == c03KOpt
	}
	switch kind {
	case c03InjDrop:
		sites := c03Sites(&cp, isConsume, nil)
		if len(sites) == 0 {
			return nil
		}
		st := sites[rng.IntN(len(sites))]
		if len(*st.blk) == 1 {
			// keep the block non-empty: replace the consume by a use
			u := (*st.blk)[0].U
			(*st.blk)[0] = &c03Stmt{K: c03KUseM, U: u}
			return cp
		}
		nb := append([]*c03Stmt(nil), (*st.blk)[:st.idx]...)
		nb = append(nb, (*st.blk)[st.idx+1:]...)
		*st.blk = nb
	case c03InjDup:
		sites := c03Sites(&cp, isConsume, nil)
		if len(sites) == 0 {
			return nil
		}
		st := sites[rng.IntN(len(sites))]
		orig := (*st.blk)[st.idx]
		dup := &c03Stmt{K: orig.K, U: orig.U, F: orig.F}
		if rng.IntN(2) == 0 {
			dup.K = c03KDestroy
		}
		c03InsertAt(st.blk, st.idx+1, dup)
	case c03InjUse:
		sites := c03Sites(&cp, isMoveOut, nil)
		if len(sites) == 0 {
			return nil
		}
		st := sites[rng.IntN(len(sites))]
		u := (*st.blk)[st.idx].U
		c03InsertAt(st.blk, st.idx+1, &c03Stmt{K: c03KUseM, U: u})
	case c03InjOverwrite:
		// before a statement that uses or consumes an @R variable (so the variable is visible there)
		sites := c03Sites(&cp, func(s *c03Stmt) bool {
			switch s.K {
			case c03KDestroy, c03KConsume, c03KCall, c03KUseM, c03KUseRef, c03KMove, c03KArr, c03KOpt:
				return info.Types[s.U] == c03TR
			}
			return false
		}, nil)
		if len(sites) == 0 {
			return nil
		}
		st := sites[rng.IntN(len(sites))]
		u := (*st.blk)[st.idx].U
		c03InsertAt(st.blk, st.idx, &c03Stmt{K: c03KAssign, U: u})
	}
	return cp
}
