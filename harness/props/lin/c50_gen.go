package lin

// C50 — world and site program generation.

import (
	"fmt"
	"math/rand/v2"
	"strings"
)

type c50Member struct {
	Mod  int
	MK   int
	Name string
	Ty   int // field type index (fields), unused for functions
}

type c50Comp struct {
	Decl    int
	Name    string
	Members []c50Member // declaration order (seeded)
}

type c50Contract struct {
	Idx     int
	Name    string
	Addr    int
	E, F, G string
	Self    c50Comp // the contract's own members
	S, R    c50Comp // declaring struct / resource
	T, Q, I string  // host composites: struct, resource, struct interface
	MkS     string
	MkR     string
	// qualify type names inside the own contract (A.S instead of S)
	Qualify bool
	ViewFns bool
}

type c50World struct {
	C [3]c50Contract
}

var c50FieldTypes = []struct{ Ty, V1, V2 string }{
	{"Int", "1", "2"},
	{"String", `"a"`, `"b"`},
	{"Bool", "true", "false"},
	{"[Int]", "[1]", "[2, 3]"},
	{"UInt8?", "nil", "7"},
}

func c50Ident(rng *rand.Rand, prefix string, n *int) string {
	const letters = "abcdefghijklmnopqrstuvwxyz"
	b := []byte(prefix)
	for i := 0; i < 3; i++ {
		b = append(b, letters[rng.IntN(len(letters))])
	}
	*n++
	return fmt.Sprintf("%s%d", b, *n)
}

func c50NewWorld(rng *rand.Rand) *c50World {
	w := &c50World{}
	n := 0
	for k := 0; k < 3; k++ {
		c := &w.C[k]
		c.Idx = k
		c.Addr = c50Account(k)
		c.Name = c50Ident(rng, "C", &n)
		c.E = c50Ident(rng, "E", &n)
		c.F = c50Ident(rng, "F", &n)
		c.G = c50Ident(rng, "G", &n)
		c.T = c50Ident(rng, "T", &n)
		c.Q = c50Ident(rng, "Q", &n)
		c.I = c50Ident(rng, "I", &n)
		c.MkS = c50Ident(rng, "mk", &n)
		c.MkR = c50Ident(rng, "mk", &n)
		c.Qualify = rng.IntN(2) == 0
		c.ViewFns = rng.IntN(2) == 0
		mk := func(decl int, prefix string) c50Comp {
			comp := c50Comp{Decl: decl, Name: c50Ident(rng, prefix, &n)}
			mods := c50NumMods
			if decl == c50DeclContract {
				mods = c50ModAll + 1
			}
			for mod := 0; mod < mods; mod++ {
				for kind := 0; kind < c50NumMKs; kind++ {
					comp.Members = append(comp.Members, c50Member{
						Mod: mod, MK: kind, Name: c50Ident(rng, "m", &n), Ty: rng.IntN(len(c50FieldTypes)),
					})
				}
			}
			rng.Shuffle(len(comp.Members), func(i, j int) {
				comp.Members[i], comp.Members[j] = comp.Members[j], comp.Members[i]
			})
			return comp
		}
		c.Self = mk(c50DeclContract, "X")
		c.Self.Name = c.Name
		c.S = mk(c50DeclStruct, "S")
		c.R = mk(c50DeclResource, "R")
	}
	return w
}

func (c *c50Contract) comp(decl int) *c50Comp {
	switch decl {
	case c50DeclStruct:
		return &c.S
	case c50DeclResource:
		return &c.R
	}
	return &c.Self
}

func (cp *c50Comp) member(mod, mk int) c50Member {
	for _, m := range cp.Members {
		if m.Mod == mod && m.MK == mk {
			return m
		}
	}
	panic("c50: no such member")
}

func (c *c50Contract) modText(mod int) string {
	switch mod {
	case c50ModSelf:
		return "access(self)"
	case c50ModContract:
		return "access(contract)"
	case c50ModAccount:
		return "access(account)"
	case c50ModAll:
		return "access(all)"
	case c50ModE:
		return "access(" + c.E + ")"
	case c50ModEorF:
		return "access(" + c.E + " | " + c.F + ")"
	}
	return "access(" + c.E + ", " + c.F + ")"
}

// c50Insert places the site (or its site-less twin) into one program.
type c50Insert struct {
	Comp     string // "contract", "S", "R", "T", "Q", "I"
	InInit   bool
	Text     string // a function declaration, or statements appended to the initializer
	FlowDecl int    // -1, or the declaring composite whose initial assignment of FlowName is replaced
	FlowName string
	FlowText string
	Imports  []string // import lines
}

func (c *c50Contract) renderMembers(b *strings.Builder, cp *c50Comp, ind string) {
	for _, m := range cp.Members {
		switch m.MK {
		case c50MKLet:
			fmt.Fprintf(b, "%s%s let %s: %s\n", ind, c.modText(m.Mod), m.Name, c50FieldTypes[m.Ty].Ty)
		case c50MKVar:
			fmt.Fprintf(b, "%s%s var %s: %s\n", ind, c.modText(m.Mod), m.Name, c50FieldTypes[m.Ty].Ty)
		default:
			view := ""
			if c.ViewFns {
				view = "view "
			}
			fmt.Fprintf(b, "%s%s %sfun %s(): Int { return 1 }\n", ind, c.modText(m.Mod), view, m.Name)
		}
	}
}

func (c *c50Contract) renderInit(b *strings.Builder, cp *c50Comp, ind string, ins *c50Insert, compKey string) {
	fmt.Fprintf(b, "%sinit() {\n", ind)
	flow := ins != nil && ins.FlowDecl >= 0 && ins.FlowDecl == cp.Decl && ins.Comp == compKey
	for _, m := range cp.Members {
		if m.MK == c50MKFun {
			continue
		}
		if flow && m.Name == ins.FlowName {
			continue // placed last, see below
		}
		fmt.Fprintf(b, "%s  self.%s = %s\n", ind, m.Name, c50FieldTypes[m.Ty].V1)
	}
	if flow {
		for _, l := range strings.Split(strings.TrimRight(ins.FlowText, "\n"), "\n") {
			fmt.Fprintf(b, "%s  %s\n", ind, l)
		}
	}
	if ins != nil && ins.Comp == compKey && ins.InInit && ins.Text != "" {
		for _, l := range strings.Split(strings.TrimRight(ins.Text, "\n"), "\n") {
			fmt.Fprintf(b, "%s  %s\n", ind, l)
		}
	}
	fmt.Fprintf(b, "%s}\n", ind)
}

func c50FnInsert(b *strings.Builder, ins *c50Insert, compKey, ind string) {
	if ins != nil && ins.Comp == compKey && !ins.InInit && ins.Text != "" {
		for _, l := range strings.Split(strings.TrimRight(ins.Text, "\n"), "\n") {
			fmt.Fprintf(b, "%s%s\n", ind, l)
		}
	}
}

// RenderContract renders contract k, with the optional insert.
func (w *c50World) RenderContract(k int, ins *c50Insert) string {
	c := &w.C[k]
	var b strings.Builder
	if ins != nil {
		for _, l := range ins.Imports {
			b.WriteString(l + "\n")
		}
	}
	fmt.Fprintf(&b, "access(all) contract %s {\n", c.Name)
	fmt.Fprintf(&b, "  access(all) entitlement %s\n  access(all) entitlement %s\n  access(all) entitlement %s\n", c.E, c.F, c.G)
	c.renderMembers(&b, &c.Self, "  ")
	// declaring struct
	fmt.Fprintf(&b, "  access(all) struct %s {\n", c.S.Name)
	c.renderMembers(&b, &c.S, "    ")
	c.renderInit(&b, &c.S, "    ", ins, "S")
	c50FnInsert(&b, ins, "S", "    ")
	b.WriteString("  }\n")
	// declaring resource
	fmt.Fprintf(&b, "  access(all) resource %s {\n", c.R.Name)
	c.renderMembers(&b, &c.R, "    ")
	c.renderInit(&b, &c.R, "    ", ins, "R")
	c50FnInsert(&b, ins, "R", "    ")
	b.WriteString("  }\n")
	// host composites
	empty := &c50Comp{Decl: -1}
	fmt.Fprintf(&b, "  access(all) struct %s {\n    access(all) fun t0(): Int { return 0 }\n", c.T)
	c.renderInit(&b, empty, "    ", ins, "T")
	c50FnInsert(&b, ins, "T", "    ")
	b.WriteString("  }\n")
	fmt.Fprintf(&b, "  access(all) resource %s {\n    access(all) fun q0(): Int { return 0 }\n", c.Q)
	c.renderInit(&b, empty, "    ", ins, "Q")
	c50FnInsert(&b, ins, "Q", "    ")
	b.WriteString("  }\n")
	fmt.Fprintf(&b, "  access(all) struct interface %s {\n    access(all) fun i0(): Int { return 0 }\n", c.I)
	c50FnInsert(&b, ins, "I", "    ")
	b.WriteString("  }\n")
	// factories
	fmt.Fprintf(&b, "  access(all) fun %s(): %s { return %s() }\n", c.MkS, c.S.Name, c.S.Name)
	fmt.Fprintf(&b, "  access(all) fun %s(): @%s { return <- create %s() }\n", c.MkR, c.R.Name, c.R.Name)
	c50FnInsert(&b, ins, "contract", "  ")
	c.renderInit(&b, &c.Self, "  ", ins, "contract")
	b.WriteString("}\n")
	return b.String()
}

// c50Program is one generated program containing the site.
type c50Program struct {
	Kind     string // "contract", "script", "transaction"
	Contract int    // index of the contract (Kind == "contract")
	Code     string
	Twin     string // the same program without the site statement
	Stmt     string // the site statement
}

// c50Build renders the program that contains the site.
func c50Build(w *c50World, s c50Site) c50Program {
	tc := &w.C[s.Target]
	host := c50HostContract(s)
	// qualification of names of the target contract at the site
	q := tc.Name + "."
	if host == s.Target && !tc.Qualify {
		q = ""
	}
	comp := tc.comp(s.Decl)
	member := comp.member(s.Mod, s.MK)
	var typeName string
	switch s.Decl {
	case c50DeclContract:
		typeName = tc.Name
	default:
		typeName = q + comp.Name
	}
	isRes := s.Decl == c50DeclResource

	auth := ""
	if ents, disj := c50RecvAuth(s.Recv); len(ents) > 0 {
		var names []string
		for _, e := range ents {
			switch e {
			case "E":
				names = append(names, q+tc.E)
			case "F":
				names = append(names, q+tc.F)
			default:
				names = append(names, q+tc.G)
			}
		}
		sep := ", "
		if disj {
			sep = " | "
		}
		auth = "auth(" + strings.Join(names, sep) + ") "
	}

	// receiver type
	var recvType string
	switch s.Recv {
	case c50RvValue:
		recvType = typeName
		if isRes {
			recvType = "@" + typeName
		}
	case c50RvOptValue:
		recvType = typeName + "?"
		if isRes {
			recvType = "@" + typeName + "?"
		}
	case c50RvOptRef, c50RvOptRefE:
		recvType = auth + "&" + typeName + "?"
	default:
		if c50RecvIsRef(s.Recv) {
			recvType = auth + "&" + typeName
		}
	}
	refType := auth + "&" + typeName // for reference expressions

	recv := "p"
	switch s.Recv {
	case c50RvSelf:
		recv = "self"
	case c50RvName:
		recv = tc.Name
	}
	dot := "."
	if c50RecvIsOpt(s.Recv) {
		dot = "?."
	}
	ft := c50FieldTypes[member.Ty]

	var stmt string
	switch s.Op {
	case c50OpRead:
		stmt = "let v = " + recv + dot + member.Name
	case c50OpCall:
		stmt = "let v = " + recv + dot + member.Name + "()"
	case c50OpAssign:
		stmt = recv + "." + member.Name + " = " + ft.V2
	}

	// receiver set-up
	var setup, teardown []string
	param := ""
	ownedRecv := s.Recv == c50RvValue || s.Recv == c50RvOptValue
	switch {
	case s.Recv == c50RvSelf || s.Recv == c50RvName:
	case s.Sv == c50SvLocal:
		mkS := tc.Name + "." + tc.MkS + "()"
		mkR := tc.Name + "." + tc.MkR + "()"
		switch {
		case ownedRecv && !isRes:
			if s.Recv == c50RvOptValue {
				setup = append(setup, "let p: "+recvType+" = "+mkS)
			} else {
				setup = append(setup, "let p = "+mkS)
			}
		case ownedRecv && isRes:
			if s.Recv == c50RvOptValue {
				setup = append(setup, "let p: "+recvType+" <- "+mkR)
			} else {
				setup = append(setup, "let p <- "+mkR)
			}
			teardown = append(teardown, "destroy p")
		default: // references
			if isRes {
				setup = append(setup, "let o <- "+mkR)
				teardown = append(teardown, "destroy o")
			} else {
				setup = append(setup, "let o = "+mkS)
			}
			if c50RecvIsOpt(s.Recv) {
				setup = append(setup, "let p: "+recvType+" = &o as "+refType)
			} else {
				setup = append(setup, "let p = &o as "+refType)
			}
		}
	default: // parameter (of the site function or of a function expression)
		param = "p: " + recvType
		if ownedRecv && isRes {
			teardown = append(teardown, "destroy p")
		}
	}

	body := func(withSite bool) []string {
		var ls []string
		if s.Sv == c50SvClosure {
			ls = append(ls, "let g = fun ("+param+"): Void {")
			if withSite {
				ls = append(ls, "  "+stmt)
			}
			for _, t := range teardown {
				ls = append(ls, "  "+t)
			}
			ls = append(ls, "}")
			return ls
		}
		ls = append(ls, setup...)
		if withSite {
			ls = append(ls, stmt)
		}
		ls = append(ls, teardown...)
		return ls
	}

	fnText := func(withSite bool) string {
		p := param
		if s.Sv == c50SvClosure {
			p = ""
		}
		// (a function without statements is not an implementation in an interface: keep one neutral statement)
		return "access(all) fun site(" + p + ") {\n  let c50z = 0\n  " + strings.Join(body(withSite), "\n  ") + "\n}"
	}

	var imports []string
	if host != s.Target {
		imports = append(imports, fmt.Sprintf("import %s from 0x%d", tc.Name, tc.Addr))
	}

	render := func(withSite bool) string {
		switch {
		case host == -1: // script
			var b strings.Builder
			b.WriteString(strings.Join(imports, "\n") + "\n")
			if s.Scope == c50ScScriptCompFn {
				b.WriteString("access(all) struct H {\n  access(all) fun h0(): Int { return 0 }\n")
				for _, l := range strings.Split(fnText(withSite), "\n") {
					b.WriteString("  " + l + "\n")
				}
				b.WriteString("}\n")
			} else {
				b.WriteString(fnText(withSite) + "\n")
			}
			b.WriteString("access(all) fun main() {}\n")
			return b.String()
		case host == -2: // transaction
			var b strings.Builder
			b.WriteString(strings.Join(imports, "\n") + "\n")
			b.WriteString("transaction {\n")
			ls := strings.Join(body(withSite), "\n    ")
			if s.Scope == c50ScTxPrepare {
				b.WriteString("  prepare(acct: &Account) {\n    " + ls + "\n  }\n  execute {}\n")
			} else {
				b.WriteString("  prepare(acct: &Account) {}\n  execute {\n    " + ls + "\n  }\n")
			}
			b.WriteString("}\n")
			return b.String()
		}
		ins := &c50Insert{FlowDecl: -1, Imports: imports}
		switch s.Scope {
		case c50ScDeclFn, c50ScDeclInit:
			ins.Comp = [...]string{"contract", "S", "R"}[s.Decl]
		case c50ScInnerStructFn, c50ScInnerStructInit, c50ScAcctNestedFn, c50ScOtherNestedFn:
			ins.Comp = "T"
		case c50ScInnerResFn, c50ScInnerResInit:
			ins.Comp = "Q"
		case c50ScInnerIfaceFn:
			ins.Comp = "I"
		default:
			ins.Comp = "contract"
		}
		ins.InInit = c50ScopeIsInit(s.Scope)
		if c50OpIsFlow(s.Op) {
			ins.FlowDecl = s.Decl
			ins.FlowName = member.Name
			ins.FlowText = c50FlowText(s.Op, member.Name, ft.V1, ft.V2, withSite)
		} else if ins.InInit {
			ins.Text = strings.Join(body(withSite), "\n")
		} else {
			ins.Text = fnText(withSite)
		}
		return w.RenderContract(host, ins)
	}

	pr := c50Program{Stmt: stmt}
	switch {
	case host == -1:
		pr.Kind = "script"
	case host == -2:
		pr.Kind = "transaction"
	default:
		pr.Kind = "contract"
		pr.Contract = host
	}
	if c50OpIsFlow(s.Op) {
		pr.Stmt = c50FlowText(s.Op, member.Name, ft.V1, ft.V2, true)
	}
	pr.Code = render(true)
	pr.Twin = render(false)
	return pr
}

// c50FlowText: the statements that initialise field f in the declaring composite's initializer.
// Without the site (twin) the field is assigned exactly once, unconditionally.
func c50FlowText(op int, f, v1, v2 string, withSite bool) string {
	a := "self." + f + " = " + v1
	b := "self." + f + " = " + v2
	if !withSite {
		return a
	}
	switch op {
	case c50OpFlowIfElse:
		return "let c50c = 1 > 0\nif c50c { " + a + " } else { " + b + " }"
	case c50OpFlowIfAgain:
		return "let c50c = 1 > 0\nif c50c { " + a + " }\n" + b
	case c50OpFlowThenIf:
		return "let c50c = 1 > 0\n" + a + "\nif c50c { " + b + " }"
	case c50OpFlowReturn:
		return "let c50c = 1 > 0\n" + a + "\nif c50c { return }\n" + b
	case c50OpFlowWhileAgain:
		return "var c50i = 0\nwhile c50i < 2 { " + a + "; c50i = c50i + 1 }\n" + b
	case c50OpFlowForAgain:
		return "for c50i in [1, 2] { " + a + " }\n" + b
	case c50OpFlowSwitch:
		return "let c50k = 1\nswitch c50k { case 1: " + a + " }\n" + b
	}
	panic("c50: not a flow op")
}
