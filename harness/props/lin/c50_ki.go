package lin

import (
	"fmt"
	"strings"

	"github.com/onflow/cadence/common"
	"github.com/onflow/cadence/runtime"

	"verif/harness/core"
	"verif/harness/host"
)

// Contract-kinded declarations of BOTH kinds (contract, contract interface): members of an interface
// nested in `Outer` with modifier access(contract) / access(account) / access(all), read or called
// from (a) a function of Outer itself, (b) a default function of a sibling nested interface,
// (c) a sibling nested concrete type (contracts only), (d) another contract of the same account,
// (e) a contract of another account, (f) a script. Model: access(all) everywhere; access(account)
// in (a)-(d); access(contract) in (a)-(c).

type kiSite struct {
	outerKind string // "contract" | "contract interface"
	resource  bool   // SI is a resource interface
	mod       string // contract | account | all
	member    string // field | function
	recv      string // value | ref | optref
	site      string // outer-fn | sibling-iface | sibling-comp | same-account | other-account | script
}

func (s kiSite) String() string {
	k := "struct"
	if s.resource {
		k = "resource"
	}
	return fmt.Sprintf("%s/%s-interface access(%s) %s via %s from %s", s.outerKind, k, s.mod, s.member, s.recv, s.site)
}

func kiAllSites() []kiSite {
	var out []kiSite
	for _, ok := range []string{"contract", "contract interface"} {
		for _, res := range []bool{false, true} {
			for _, mod := range []string{"contract", "account", "all"} {
				for _, mem := range []string{"field", "function"} {
					for _, rv := range []string{"value", "ref", "optref"} {
						if res && rv == "value" {
							continue // a resource parameter would have to be consumed; references cover it
						}
						for _, site := range []string{"outer-fn", "sibling-iface", "sibling-comp", "same-account", "other-account", "script"} {
							if site == "sibling-comp" && ok != "contract" {
								continue // contract interfaces cannot declare concrete nested types
							}
							out = append(out, kiSite{ok, res, mod, mem, rv, site})
						}
					}
				}
			}
		}
	}
	return out
}

func (s kiSite) permitted() bool {
	switch s.mod {
	case "all":
		return true
	case "account":
		return s.site != "other-account" && s.site != "script"
	default:
		return s.site == "outer-fn" || s.site == "sibling-iface" || s.site == "sibling-comp"
	}
}

const kiMarker = "/*SITE*/"

// programs: the Outer declaration and the program holding the access site (may be Outer itself)
func (s kiSite) build(r interface{ IntN(int) int }) (outer, prog string, progLoc common.Location) {
	kind := "struct"
	if s.resource {
		kind = "resource"
	}
	names := []string{"id", "count", "level"}
	fname := names[r.IntN(len(names))]
	gname := []string{"secret", "peek", "inner"}[r.IntN(3)]
	q := func(inOuter bool) string {
		if inOuter {
			return "SI"
		}
		return "Outer.SI"
	}
	recvType := func(inOuter bool) string {
		switch s.recv {
		case "value":
			return "{" + q(inOuter) + "}"
		case "ref":
			return "&{" + q(inOuter) + "}"
		}
		return "&{" + q(inOuter) + "}?"
	}
	access := "s."
	if s.recv == "optref" {
		access = "s?."
	}
	if s.member == "field" {
		access += fname
	} else {
		access += gname + "()"
	}
	ret := "Int"
	if s.recv == "optref" {
		ret = "Int?"
	}
	fn := func(ind string, inOuter bool) string {
		return fmt.Sprintf("%saccess(all) fun reveal(_ s: %s): %s {\n%s    return %s%s\n%s}\n", ind, recvType(inOuter), ret, ind, kiMarker, access, ind)
	}
	var b strings.Builder
	fmt.Fprintf(&b, "access(all) %s Outer {\n", s.outerKind)
	fmt.Fprintf(&b, "    access(all) %s interface SI {\n", kind)
	fm, gm := "all", "all"
	if s.member == "field" {
		fm = s.mod
	} else {
		gm = s.mod
	}
	fmt.Fprintf(&b, "        access(%s) let %s: Int\n        access(%s) fun %s(): Int\n    }\n", fm, fname, gm, gname)
	if r.IntN(2) == 0 {
		b.WriteString("    access(all) event Noted(n: Int)\n")
	}
	switch s.site {
	case "outer-fn":
		b.WriteString(fn("    ", true))
	case "sibling-iface":
		fmt.Fprintf(&b, "    access(all) struct interface Helper {\n%s    }\n", fn("        ", true))
	case "sibling-comp":
		fmt.Fprintf(&b, "    access(all) struct Helper {\n%s    }\n", fn("        ", true))
	}
	b.WriteString("}\n")
	outer = b.String()
	outerLoc := common.AddressLocation{Address: host.Addr(1), Name: "Outer"}
	switch s.site {
	case "same-account":
		return outer, "import Outer from 0x1\naccess(all) contract Same {\n" + fn("    ", false) + "}\n", common.AddressLocation{Address: host.Addr(1), Name: "Same"}
	case "other-account":
		return outer, "import Outer from 0x1\naccess(all) contract Other {\n" + fn("    ", false) + "}\n", common.AddressLocation{Address: host.Addr(2), Name: "Other"}
	case "script":
		return outer, "import Outer from 0x1\n" + fn("", false) + "access(all) fun main() {}\n", common.ScriptLocation{0x7}
	}
	return outer, outer, outerLoc
}

func c50KI(c *core.Ctx) {
	sites := kiAllSites()
	rt := runtime.NewRuntime(host.DefaultConfig)
	// every fourth site per case: the whole (small) product is covered by any four consecutive cases
	for k := c.Case % 4; k < len(sites); k += 4 {
		s := sites[k]
		outer, prog, loc := s.build(c.Rng)
		h := host.New()
		outerLoc := common.AddressLocation{Address: host.Addr(1), Name: "Outer"}
		h.Codes[string(outerLoc.ID())] = []byte(outer)
		var env runtime.Environment
		if s.site == "script" {
			env = runtime.NewScriptInterpreterEnvironment(host.DefaultConfig)
		} else {
			env = runtime.NewBaseInterpreterEnvironment(host.DefaultConfig)
		}
		_, err := rt.ParseAndCheckProgram([]byte(prog), runtime.Context{Interface: h, Location: loc, Environment: env})
		c.Eval(1)
		c.Inc("ki_sites")
		c.Inc("ki_kind:" + s.outerKind)
		c.Distinct("ki|" + s.String())
		errs, other := c50Errors(err)
		wit := map[string]any{"site": s.String(), "outer": outer, "program": prog, "checker_errors": errs}
		if other != "" {
			c.Violate("ki: not a checker verdict: "+s.String(), other, wit)
			continue
		}
		siteLine := 0
		for i, l := range strings.Split(prog, "\n") {
			if strings.Contains(l, kiMarker) {
				siteLine = i + 1
			}
		}
		if s.permitted() {
			c.Inc("ki_expected_accept")
			if len(errs) > 0 {
				c.Violate("ki: over-rejection: "+s.String()+" ["+c50UniqueKinds(errs)+"]",
					"the access site is permitted by the member's modifier but the checker rejects the program: "+errs[0].Msg, wit)
			}
			continue
		}
		c.Inc("ki_expected_reject")
		hit := false
		for _, e := range errs {
			if e.Kind == "InvalidAccessError" && e.Line == siteLine {
				hit = true
			}
		}
		if !hit {
			c.Violate("ki: under-rejection: "+s.String()+" ["+c50UniqueKinds(errs)+"]",
				"the access site is not permitted by the member's modifier but the checker reports no InvalidAccessError at the site", wit)
		}
	}
}
