package lin

import (
	"fmt"
	"math/rand/v2"
	"os"
	"runtime/debug"
	"sort"
	"strconv"
	"testing"
	"time"
)

func TestC03Count(t *testing.T) {
	n, _ := strconv.Atoi(os.Getenv("C03_N"))
	alpha := os.Getenv("C03_A")
	ks := c03FullKinds
	if alpha == "core" {
		ks = c03CoreKinds
	}
	if alpha == "flow" {
		ks = c03FlowKinds
	}
	mr, _ := strconv.Atoi(os.Getenv("C03_R"))
	if mr == 0 {
		mr = 2
	}
	b := &c03Bound{Name: "x", MaxStmts: n, MaxRes: mr, MaxDepth: 3, MaxFuns: 1, Kinds: ks}
	if g, _ := strconv.Atoi(os.Getenv("C03_GOGC")); g > 0 {
		debug.SetGCPercent(g)
	}
	t0 := time.Now()
	cnt, bad, clean, nocreate := 0, 0, 0, 0
	var batch []string
	c03EnumPrefix(b, nil, func(body []*c03Stmt) {
		cnt++
		info, ok := c03Analyze(body)
		if !ok {
			bad++
			if bad < 5 {
				fmt.Println("ILL-FORMED", c03Render(body, &c03Info{}, false))
			}
			return
		}
		if info.NCreate == 0 {
			nocreate++
		}
		v := c03Judge(body, false, info)
		if !v.Dirty {
			clean++
		}
		src := c03Render(body, info, false)
		if os.Getenv("C03_CHECK") != "" {
			batch = append(batch, src)
			if len(batch) == c03BatchSize {
				c03CheckBatch(batch)
				batch = batch[:0]
			}
		}
	})
	fmt.Printf("alpha=%s n=%d programs=%d illformed=%d clean=%d nocreate=%d time=%v\n", alpha, n, cnt, bad, clean, nocreate, time.Since(t0))
}

func TestC03RandKeys(t *testing.T) {
	nseeds, _ := strconv.Atoi(os.Getenv("C03_SEEDS"))
	per, _ := strconv.Atoi(os.Getenv("C03_PER"))
	keys := map[string]int{}
	first := map[string]string{}
	memo := map[string]*c03MinResult{}
	total, dis := 0, 0
	for seed := 1; seed <= nseeds; seed++ {
		rng := rand.New(rand.NewPCG(uint64(seed), 99))
		for i := 0; i < per; i++ {
			body := c03GenClean(rng, 6+rng.IntN(10), 1+rng.IntN(4), 1+rng.IntN(4))
			info, ok := c03Analyze(body)
			if !ok {
				t.Fatal("ill-formed: " + c03Render(body, &c03Info{}, false))
			}
			progs := [][]*c03Stmt{body}
			for k := c03Inj(0); k < c03NInj; k++ {
				if m := c03Inject(body, info, k, rng); m != nil {
					progs = append(progs, m)
				}
			}
			for pi, p := range progs {
				j := c03JudgeAlone(p)
				if j.Outside == "ill-formed" {
					continue
				}
				total++
				if pi == 0 && j.Verdict.Dirty {
					fmt.Println("GENERATOR NOT CLEAN:", c03Skeleton(p, j.Info), "::", c03Judge(p, true, j.Info).First)
				}
				if j.Class == "" {
					continue
				}
				dis++
				m := c03Minimise(p, j, 300, memo)
				key := j.Class + ":" + c03Skeleton(m.Body, m.J.Info)
				if keys[key] == 0 {
					first[key] = fmt.Sprintf("seed=%d checks=%d orig=%s", seed, m.Checks, c03Skeleton(p, j.Info))
				}
				keys[key]++
			}
		}
	}
	var ks []string
	for k := range keys {
		ks = append(ks, k)
	}
	sort.Strings(ks)
	fmt.Printf("programs=%d disagreements=%d keys=%d\n", total, dis, len(ks))
	for _, k := range ks {
		fmt.Printf("%6d %s\n        first: %s\n", keys[k], k, first[k])
	}
}
