package lin

import (
	"fmt"
	"hash/fnv"
	"runtime"
	"runtime/debug"
	"sync"

	"verif/harness/core"
)

// C03 — the checker rejects every resource-linearity violation and accepts path-clean programs.
//
// Observed: the error list of sema.Checker.Check on generated programs of the resource fragment.
// Oracle:   the independent path-enumerating ownership analysis in c03_oracle.go.

// ---------------------------------------------------------------- work plan

type c03Segment struct {
	Bound     c03Bound
	PrefixLen int
	Shards    int
}

type c03Task struct {
	Seg   int // index into the tier's segments, -1 = random case
	Shard int
}

type c03Plan struct {
	Segs      []c03Segment
	RandCases int
	RandBases int // clean-by-construction base programs per random case (each also yields up to 4 injections)
	Tasks     []c03Task
}

func c03MakePlan(tier string) *c03Plan {
	p := &c03Plan{}
	if tier == "thorough" {
		p.Segs = []c03Segment{
			{Bound: c03Bound{Name: "full<=6", MaxStmts: 6, MaxRes: 2, MaxDepth: 3, MaxFuns: 1, Kinds: c03FullKinds}, PrefixLen: 3, Shards: 384},
			{Bound: c03Bound{Name: "core<=7", MaxStmts: 7, MaxRes: 2, MaxDepth: 3, Kinds: c03CoreKinds}, PrefixLen: 3, Shards: 128},
			{Bound: c03Bound{Name: "flow<=8", MaxStmts: 8, MaxRes: 2, MaxDepth: 3, Kinds: c03FlowKinds}, PrefixLen: 3, Shards: 192},
		}
		p.RandCases, p.RandBases = 128, 800
	} else {
		p.Segs = []c03Segment{
			{Bound: c03Bound{Name: "full<=5", MaxStmts: 5, MaxRes: 2, MaxDepth: 3, MaxFuns: 1, Kinds: c03FullKinds}, PrefixLen: 3, Shards: 24},
			{Bound: c03Bound{Name: "core<=6", MaxStmts: 6, MaxRes: 2, MaxDepth: 3, Kinds: c03CoreKinds}, PrefixLen: 3, Shards: 16},
			{Bound: c03Bound{Name: "flow1<=8", MaxStmts: 8, MaxRes: 1, MaxDepth: 3, Kinds: c03FlowKinds}, PrefixLen: 3, Shards: 96},
		}
		p.RandCases, p.RandBases = 48, 100
	}
	for si, s := range p.Segs {
		for sh := 0; sh < s.Shards; sh++ {
			p.Tasks = append(p.Tasks, c03Task{Seg: si, Shard: sh})
		}
	}
	for i := 0; i < p.RandCases; i++ {
		p.Tasks = append(p.Tasks, c03Task{Seg: -1, Shard: i})
	}
	return p
}

var (
	c03PlanMu    sync.Mutex
	c03Plans     = map[string]*c03Plan{}
	c03PrefixMem = map[string][][]int{}
)

func c03PlanFor(tier string) *c03Plan {
	c03PlanMu.Lock()
	defer c03PlanMu.Unlock()
	if p, ok := c03Plans[tier]; ok {
		return p
	}
	p := c03MakePlan(tier)
	c03Plans[tier] = p
	return p
}

func c03PrefixesFor(seg *c03Segment) [][]int {
	c03PlanMu.Lock()
	defer c03PlanMu.Unlock()
	if p, ok := c03PrefixMem[seg.Bound.Name]; ok {
		return p
	}
	p := c03Prefixes(&seg.Bound, seg.PrefixLen)
	c03PrefixMem[seg.Bound.Name] = p
	return p
}

// ---------------------------------------------------------------- per-case runner

const c03BatchSize = 24

type c03Item struct {
	body   []*c03Stmt
	info   *c03Info
	v      c03Verdict
	src    string
	origin string
	inj    int // injection kind or -1
}

type c03Runner struct {
	c     *core.Ctx
	batch []c03Item
	memo  map[string]*c03MinResult
	n     map[string]int64 // counters of this case, flushed to the Ctx at the end of the case
}

func (r *c03Runner) inc(name string) { r.n[name]++ }

func (r *c03Runner) flushCounters() {
	for k, v := range r.n {
		r.c.Count(k, v)
	}
	r.n = map[string]int64{}
}

var (
	c03StmtCounter [c03NKinds]string
	c03ViolCounter [c03NViol]string
	c03InjDirty    [c03NInj]string
	c03InjClean    [c03NInj]string
	c03InjRejected [c03NInj]string
)

func init() {
	for k := range c03StmtCounter {
		c03StmtCounter[k] = "stmt_" + c03KindNames[k]
	}
	for k := range c03ViolCounter {
		c03ViolCounter[k] = "oracle_viol_" + c03ViolNames[k]
	}
	for k := range c03InjDirty {
		c03InjDirty[k] = "injected_dirty_" + c03InjNames[k]
		c03InjClean[k] = "injected_still_clean_" + c03InjNames[k]
		c03InjRejected[k] = "injected_rejected_" + c03InjNames[k]
	}
}

// per worker process
var (
	c03Memo      = map[string]*c03MinResult{}
	c03DistinctN int
)

func (r *c03Runner) add(body []*c03Stmt, origin string, inj int) {
	info, ok := c03Analyze(body)
	if !ok {
		// the generators only produce well-formed programs; injections may not (e.g. nothing to do)
		r.inc("skipped_ill_formed_" + origin)
		return
	}
	v := c03Judge(body, false, info)
	r.batch = append(r.batch, c03Item{body: body, info: info, v: v, src: c03Render(body, info, false), origin: origin, inj: inj})
	if len(r.batch) >= c03BatchSize {
		r.flush()
	}
}

func (r *c03Runner) flush() {
	if len(r.batch) == 0 {
		return
	}
	srcs := make([]string, len(r.batch))
	for i := range r.batch {
		srcs[i] = r.batch[i].src
	}
	res, ok := c03CheckBatch(srcs)
	for i := range r.batch {
		it := &r.batch[i]
		var errs []c03Err
		gp := ""
		if ok {
			errs = res[i]
		} else {
			errs, gp = c03CheckOne(it.src)
		}
		r.observe(it, errs, gp)
	}
	r.batch = r.batch[:0]
}

func (r *c03Runner) observe(it *c03Item, errs []c03Err, gp string) {
	c := r.c
	c.Eval(1)
	r.inc("programs")
	r.inc("origin_" + it.origin)
	if c03DistinctN < 1<<17 {
		c03DistinctN++
		h := fnv.New64a()
		_, _ = h.Write([]byte(it.src))
		c.DistinctHash(h.Sum64())
	}
	for k := c03Kind(0); k < c03NKinds; k++ {
		if it.info.Kinds[k] > 0 {
			r.inc(c03StmtCounter[k])
		}
	}
	if it.info.IfElse > 0 {
		r.inc("stmt_if_else")
	}
	if it.info.Depth >= 3 {
		r.inc("nesting_depth_ge3")
	}
	if it.info.NCreate >= 2 {
		r.inc("two_or_more_resources")
	}
	if it.v.Dirty {
		r.inc("oracle_dirty")
		for k := c03Viol(0); k < c03NViol; k++ {
			if it.v.Viols[k] > 0 {
				r.inc(c03ViolCounter[k])
			}
		}
		if it.inj >= 0 {
			r.inc(c03InjDirty[it.inj])
		}
	} else {
		r.inc("oracle_clean")
		if it.inj >= 0 {
			r.inc(c03InjClean[it.inj])
		}
	}
	if len(errs) == 0 {
		r.inc("checker_accepted")
	} else {
		r.inc("checker_rejected")
		if c03HasResourceErr(errs) {
			r.inc("checker_rejected_resource_error")
		}
	}
	class, outside := c03ClassOf(it.info, it.v, errs, gp)
	if outside != "" {
		r.inc("outside_fragment_" + outside)
	}
	if class == "" {
		if it.v.Dirty {
			r.inc("agree_dirty_rejected")
			if it.inj >= 0 {
				r.inc(c03InjRejected[it.inj])
			}
		} else if outside == "" {
			r.inc("agree_clean_accepted")
		}
		if c.WantSample() && it.info.NStmts >= 4 && it.origin != "enum" {
			c.Sample(map[string]any{"program": c03Skeleton(it.body, it.info), "origin": it.origin,
				"oracle_dirty": it.v.Dirty, "checker_errors": c03ErrStrings(errs)})
		}
		return
	}
	// disagreement: confirm stand-alone, minimise, report
	j := c03JudgeAlone(it.body)
	if j.Class == "" {
		// only under batching: attribution artefact — never seen; counted so that it cannot hide
		r.inc("batch_only_disagreement")
		c.Violate("harness:batch-vs-standalone:"+class, "the batched checker run and the stand-alone run disagree",
			map[string]any{"program": c03FullSource(it.body, it.info), "batched_errors": c03ErrStrings(errs), "standalone_errors": c03ErrStrings(j.Errs)})
		return
	}
	r.inc("disagreements")
	r.inc("disagree_" + j.Class)
	m := c03Minimise(it.body, j, 300, r.memo)
	r.n["minimisation_checks"] += int64(m.Checks)
	minInfo := m.J.Info
	key := j.Class + ":" + c03Skeleton(m.Body, minInfo)
	vt := c03Judge(it.body, true, it.info)
	mt := c03Judge(m.Body, true, minInfo)
	verdict := func(v c03Verdict) string {
		if v.Dirty {
			return "dirty — " + v.First
		}
		return fmt.Sprintf("clean — every one of the %d path ends is fine", v.Paths)
	}
	expected := "the checker reports no error (every path moves or destroys each resource exactly once and uses it only before that)"
	if j.Verdict.Dirty {
		expected = "the checker reports at least one resource error (some path violates linearity)"
	}
	c.Violate(key,
		fmt.Sprintf("%s: minimal program `%s` — oracle: %s; checker: %v", j.Class, c03Skeleton(m.Body, minInfo), verdict(mt), c03ErrStrings(m.J.Errs)),
		map[string]any{
			"class":                   j.Class,
			"expected":                expected,
			"original_source":         c03FullSource(it.body, it.info),
			"original_oracle":         verdict(vt),
			"original_checker_errors": c03ErrStrings(j.Errs),
			"minimal_source":          c03FullSource(m.Body, minInfo),
			"minimal_oracle":          verdict(mt),
			"minimal_checker_errors":  c03ErrStrings(m.J.Errs),
			"origin":                  it.origin,
			"go_panic":                j.Panic,
		})
}

func c03HasCreate(b []*c03Stmt) bool {
	for _, s := range b {
		if s.K == c03KCreate || s.K == c03KFun || c03HasCreate(s.Then) || c03HasCreate(s.Else) {
			return true
		}
	}
	return false
}

var c03Tune sync.Once

func c03Run(c *core.Ctx) {
	// A worker process runs its cases sequentially and allocates many short-lived objects (parser, checker):
	// one OS thread per worker and a laxer GC pace avoid 16 x 16 runnable threads on a 16-core machine.
	c03Tune.Do(func() {
		runtime.GOMAXPROCS(1)
		debug.SetGCPercent(400)
	})
	plan := c03PlanFor(c.Tier)
	task := plan.Tasks[c.Case]
	r := &c03Runner{c: c, memo: c03Memo, n: map[string]int64{}}
	defer r.flushCounters()
	if task.Seg >= 0 {
		seg := &plan.Segs[task.Seg]
		prefixes := c03PrefixesFor(seg)
		enumName := "enumerated_" + seg.Bound.Name
		for pi := task.Shard; pi < len(prefixes); pi += seg.Shards {
			c03EnumPrefix(&seg.Bound, prefixes[pi], func(body []*c03Stmt) {
				r.inc(enumName)
				if !c03HasCreate(body) {
					// nothing for a linearity analysis to interpret: trivially clean, not checked
					r.inc("enumerated_without_resource")
					return
				}
				r.add(body, "enum", -1)
			})
		}
		r.flush()
		return
	}
	for i := 0; i < plan.RandBases; i++ {
		maxStmts := 6 + c.Rng.IntN(10)
		maxRes := 1 + c.Rng.IntN(4)
		maxDepth := 1 + c.Rng.IntN(4)
		body := c03GenClean(c.Rng, maxStmts, maxRes, maxDepth)
		info, ok := c03Analyze(body)
		if !ok {
			panic("c03: clean generator produced an ill-formed program: " + c03Render(body, &c03Info{}, false))
		}
		if info.MaxVar >= c03MaxVars-2 {
			continue
		}
		r.add(body, "random_clean", -1)
		for k := c03Inj(0); k < c03NInj; k++ {
			if mut := c03Inject(body, info, k, c.Rng); mut != nil {
				r.add(mut, "random_injected", int(k))
			}
		}
	}
	r.flush()
}

func init() {
	core.Register(&core.Prop{
		ID:    "C03",
		Level: "exploration",
		Rule: "programs of the resource fragment (let/var bindings of `create R()`, moves into variables / array literals / optionals / " +
			"function arguments, destroy, non-consuming uses, if/else on an opaque condition, while, for, break, continue, return, panic, swap, " +
			"if-let, non-capturing nested functions, overwriting assignment) are generated as small ASTs, rendered to Cadence and given to " +
			"parser.ParseProgram + sema.Checker.Check. (a) Bounded-exhaustive segments: ALL well-formed programs within a bound (no dead code, operands any " +
			"visible variable of a fitting type regardless of ownership, so every violation within the bound is included) — " + c03PlanLabel("thorough") +
			"; " + c03PlanLabel("quick") + " (alphabets: full = every statement kind; core = {create, destroy, member use, if, if/else, while, for, break, " +
			"continue, return, panic}; flow = core without use and for). (b) seeded random programs of 6-15+ statements, <= 4 resources, depth <= 4 that are " +
			"path-clean by construction, each also mutated by the four injections (drop a consume, duplicate a move, use after move, overwrite). Every " +
			"program is judged by the path analysis (not by how it was made); a program is distinct by its canonical rendering and non-trivial always " +
			"(it contains at least one create, i.e. something the linearity analysis must interpret); the distinct count is capped per worker, " +
			"the monitor `programs` is the true number checked; the enumerated_<segment> monitors give the size of each exhaustive segment",
		Assumptions: []string{
			"oracle = own path-enumerating ownership analysis (c03_oracle.go): conditions unknown, loop bodies iterated until the set of ownership states at the loop head is stable; panic/return end a path; return requires every variable of the function to be empty; leaving a scope (fall-through, break, continue) requires its variables to be empty",
			"dirty program: any resource-related checker error counts as rejection; clean program: no checker error of any kind is allowed",
			"outside the fragment (not judged when path-clean): assignment to a resource variable that is empty on every path — Cadence rejects every assignment to a resource-typed variable (InvalidResourceAssignmentError) independently of linearity",
			"programs contain no dead code (the checker reports UnreachableStatementError, which is unrelated to linearity); nested functions never capture",
			"programs are checked in batches of 24 functions per checker run, errors attributed by source line; every disagreement is re-checked stand-alone before it is reported and minimised stand-alone",
		},
		NumCases:   func(tier string) int { return len(c03PlanFor(tier).Tasks) },
		Exhaustive: func(string) bool { return false },
		Run:        c03Run,
		Floors:     c03Floors,
	})
}

// c03PlanLabel renders the exhaustive segments of a tier for the Rule text (so that it cannot drift from the plan).
func c03PlanLabel(tier string) string {
	p := c03MakePlan(tier)
	out := tier + ":"
	for i, s := range p.Segs {
		if i > 0 {
			out += ","
		}
		alpha := "full"
		switch {
		case s.Bound.Kinds == c03CoreKinds:
			alpha = "core"
		case s.Bound.Kinds == c03FlowKinds:
			alpha = "flow"
		}
		out += fmt.Sprintf(" %s alphabet <= %d statements / <= %d creates / depth <= %d", alpha, s.Bound.MaxStmts, s.Bound.MaxRes, s.Bound.MaxDepth)
	}
	return out + fmt.Sprintf(" + %d x %d random base programs", p.RandCases, p.RandBases)
}

// c03Floors: unchanged-tree quick-tier counts divided by >= 5.
var c03Floors = map[string]int64{
	"programs":                        300000,
	"oracle_clean":                    40000,
	"oracle_dirty":                    250000,
	"checker_accepted":                40000,
	"checker_rejected_resource_error": 250000,
	"agree_clean_accepted":            40000,
	"agree_dirty_rejected":            250000,
	"oracle_viol_double_move":         70000,
	"oracle_viol_loss":                200000,
	"oracle_viol_overwrite":           3000,
	"oracle_viol_use_after_move":      10000,
	"origin_random_clean":             900,
	"origin_random_injected":          3000,
	"injected_dirty_drop_consume":     800,
	"injected_dirty_duplicate_move":   800,
	"injected_dirty_overwrite":        800,
	"injected_dirty_use_after_move":   800,
	"injected_rejected_drop_consume":   800,
	"injected_rejected_duplicate_move": 800,
	"injected_rejected_overwrite":      800,
	"injected_rejected_use_after_move": 800,
	"two_or_more_resources":           25000,
	"nesting_depth_ge3":               150000,
	"stmt_assign":                     4000,
	"stmt_break":                      90000,
	"stmt_call_nested":                200,
	"stmt_consume_call":               12000,
	"stmt_continue":                   90000,
	"stmt_create":                     300000,
	"stmt_destroy":                    130000,
	"stmt_for":                        25000,
	"stmt_if":                         250000,
	"stmt_if_else":                    150000,
	"stmt_if_let":                     800,
	"stmt_move_array":                 12000,
	"stmt_move_let":                   16000,
	"stmt_move_optional":              12000,
	"stmt_nested_fun":                 20000,
	"stmt_panic":                      160000,
	"stmt_return":                     160000,
	"stmt_swap":                       1300,
	"stmt_use_member":                 22000,
	"stmt_use_ref":                    9000,
	"stmt_while":                      250000,
}
