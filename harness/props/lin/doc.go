// Package lin holds the checks of group lin (see harness/groups.txt).
package lin
